#!/bin/bash
# bin/sweep.sh [seeds...]: every check with several seeds (quick), then the thorough tier once.
# Prints one line per run; any VIOLATION line on the unchanged tree is a false alarm or a new finding.
cd "$(dirname "$0")/.."
seeds="${@:-2 3 4 5}"
props="C01 C02 C03 C04 C05 C06 C07 C08 C09 C10 C11 C12 C13 C14 C15 C16 C17 C18 C19 C20"
for s in $seeds; do
  for p in $props; do
    t0=$(date +%s); out=$(VERIF_SEED=$s timeout 3000 bin/check $p 2>&1); rc=$?
    echo "quick seed=$s $p rc=$rc $(( $(date +%s)-t0 ))s $(echo "$out" | grep '^VIOLATION' | head -2 | tr '\n' ' ')"
    if [ $rc -ne 0 ]; then mkdir -p sweep-replays; cp $(echo "$out" | grep -o 'replay=[^ ]*' | head -2 | cut -d= -f2) sweep-replays/ 2>/dev/null; fi
  done
done
for p in $props; do
  t0=$(date +%s); out=$(VERIF_TIER=thorough timeout 7200 bin/check $p 2>&1); rc=$?
  echo "thorough $p rc=$rc $(( $(date +%s)-t0 ))s $(echo "$out" | grep '^VIOLATION' | head -2 | tr '\n' ' ')"
  if [ $rc -ne 0 ]; then mkdir -p sweep-replays; cp $(echo "$out" | grep -o 'replay=[^ ]*' | head -2 | cut -d= -f2) sweep-replays/ 2>/dev/null; fi
done
