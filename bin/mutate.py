#!/usr/bin/env python3
"""bin/mutate.py [--per-file N] [--seed S] [--minutes M] [--files f1,f2]

Mutation campaign: small syntactic mutants of evylang/evy (harness/cmd/mut: operator replacement,
negated conditions, flipped boolean results, deleted statements, 0<->1) are applied to /repo ONE AT A
TIME; a mutant that still compiles and passes the package's own tests is given to the checks of the
properties anchored in that file. A mutant no check reports is a SURVIVOR: either it is equivalent /
outside every property, or a generator does not reach it - the survivors are read by hand and the
generators widened (DESIGN.md 9.4). /repo is restored after every mutant (git checkout).

This is tooling for building the checks, not a registered check: it writes mutation-campaign/*.jsonl.
"""
import json, os, random, subprocess, sys, time

REPO = "/repo"
VERIF = os.path.dirname(os.path.dirname(os.path.abspath(__file__)))
ENV = dict(os.environ, GOFLAGS="-mod=mod", GOPROXY="off", GOSUMDB="off", GOTOOLCHAIN="local", CGO_ENABLED="0")

# file -> (module dir, test package, checks in the order tried, optional (lo, hi) line range)
FILES = {
    "pkg/parser/expression.go": ("", "./pkg/parser/", ["C04", "C01", "C05", "C06", "C03"], None),
    "pkg/parser/parser.go": ("", "./pkg/parser/", ["C05", "C04", "C03", "C06", "C10"], None),
    "pkg/parser/type.go": ("", "./pkg/parser/", ["C04"], None),
    "pkg/parser/format.go": ("", "./pkg/parser/", ["C07", "C06"], None),
    "pkg/parser/multiline.go": ("", "./pkg/parser/", ["C07", "C06"], None),
    "pkg/parser/scope.go": ("", "./pkg/parser/", ["C05", "C10"], None),
    "pkg/evaluator/evaluator.go": ("", "./pkg/evaluator/", ["C10", "C01", "C02", "C09", "C15", "C14"], None),
    "pkg/evaluator/value.go": ("", "./pkg/evaluator/", ["C11", "C12", "C09", "C01", "C15", "C02"], None),
    "pkg/evaluator/builtin.go": ("", "./pkg/evaluator/", ["C13", "C02", "C19"], None),
    "pkg/evaluator/ranger.go": ("", "./pkg/evaluator/", ["C10", "C12"], None),
    "pkg/evaluator/scope.go": ("", "./pkg/evaluator/", ["C10", "C09", "C15"], None),
    "pkg/evaluator/testinfo.go": ("", "./pkg/evaluator/", ["C13", "C14"], None),
    "pkg/lexer/lexer.go": ("", "./pkg/lexer/", ["C03"], None),
    "pkg/bytecode/compiler.go": ("", "./pkg/bytecode/", ["C16", "C17"], None),
    "pkg/bytecode/vm.go": ("", "./pkg/bytecode/", ["C16", "C17"], None),
    "pkg/bytecode/symbol.go": ("", "./pkg/bytecode/", ["C17", "C16"], None),
    "pkg/bytecode/value.go": ("", "./pkg/bytecode/", ["C16"], None),
    "pkg/cli/svg/runtime.go": ("", "./pkg/cli/svg/", ["C19"], None),
    "main.go": ("", "./pkg/cli/", ["C18", "C05", "C07"], None),
    "learn/pkg/learn/encrypt.go": ("learn", "./pkg/learn/", ["C20"], None),
    "learn/pkg/learn/question.go": ("learn", "./pkg/learn/", ["C20"], (296, 440)),
}


def run(cmd, cwd, timeout):
    try:
        p = subprocess.run(cmd, cwd=cwd, env=ENV, stdout=subprocess.PIPE, stderr=subprocess.STDOUT, timeout=timeout, text=True)
        return p.returncode, p.stdout
    except subprocess.TimeoutExpired:
        return 124, "timeout"


def main():
    args = sys.argv[1:]
    opt = {"--per-file": "8", "--seed": "1", "--minutes": "120", "--files": ""}
    for i in range(0, len(args), 2):
        opt[args[i]] = args[i + 1]
    rng = random.Random(int(opt["--seed"]))
    deadline = time.time() + 60 * float(opt["--minutes"])
    mut = os.path.join(VERIF, "harness", "mut.bin")
    rc, out = run(["go", "build", "-o", mut, "./cmd/mut"], os.path.join(VERIF, "harness"), 300)
    assert rc == 0, out
    os.makedirs(os.path.join(VERIF, "mutation-campaign"), exist_ok=True)
    log = open(os.path.join(VERIF, "mutation-campaign", "seed%s-%d.jsonl" % (opt["--seed"], int(time.time()))), "w")
    files = [f for f in opt["--files"].split(",") if f] or list(FILES)
    if subprocess.run(["git", "-C", REPO, "status", "--porcelain"], stdout=subprocess.PIPE, text=True).stdout.strip():
        sys.exit("/repo is not clean")
    plan = []
    for f in files:
        mod, pkg, checks, rng_lines = FILES[f]
        rc, out = run([mut, "list", os.path.join(REPO, f)], VERIF, 60)
        sites = [l.split("\t") for l in out.strip().splitlines()]
        sites = [s for s in sites if "String" not in s[3].split(":")[0] and "Repr" not in s[3].split(":")[0] and "GoString" not in s[3]]
        if rng_lines:
            sites = [s for s in sites if rng_lines[0] <= int(s[1]) <= rng_lines[1]]
        rng.shuffle(sites)
        for s in sites[: int(opt["--per-file"])]:
            plan.append((f, s))
    rng.shuffle(plan)
    stats = {}
    for f, s in plan:
        if time.time() > deadline:
            break
        mod, pkg, checks, _ = FILES[f]
        path = os.path.join(REPO, f)
        rec = {"file": f, "index": int(s[0]), "line": int(s[1]), "kind": s[2], "desc": s[3]}
        try:
            run([mut, "apply", path, s[0]], VERIF, 60)
            moddir = os.path.join(REPO, mod)
            rc, out = run(["go", "build", "./..."], moddir, 300)
            if rc != 0:
                rec["outcome"] = "does-not-compile"
                continue
            rc, out = run(["go", "test", "-vet=off", "-count=1", "-timeout", "90s", pkg], moddir, 150)
            if rc != 0:
                rec["outcome"] = "killed-by-tests"
                continue
            rec["outcome"] = "SURVIVED"
            for c in checks:
                rc, out = run([os.path.join(VERIF, "bin", "check"), c], VERIF, 900)
                if rc != 0:
                    viol = [l for l in out.splitlines() if l.startswith("VIOLATION")]
                    rec["outcome"] = "detected"
                    rec["by"] = c
                    rec["first"] = viol[0][:200] if viol else out[-300:]
                    break
        finally:
            subprocess.run(["git", "-C", REPO, "checkout", "--", f])
            stats[rec.get("outcome", "?")] = stats.get(rec.get("outcome", "?"), 0) + 1
            log.write(json.dumps(rec) + "\n")
            log.flush()
            print(json.dumps(rec), flush=True)
    print("SUMMARY", json.dumps(stats))


if __name__ == "__main__":
    main()
