#!/usr/bin/env python3
"""Regenerates MANIFEST.json from bin/props.py and properties.jsonl."""
import json, os, sys
V = os.path.dirname(os.path.dirname(os.path.abspath(__file__)))
sys.path.insert(0, os.path.join(V, "bin"))
from props import PROPS
ids = [json.loads(l)["id"] for l in open(os.path.join(V, "properties.jsonl"))]
checks, na = [], []
for pid in ids:
    if pid in PROPS and not PROPS[pid].get("disabled"):
        c = PROPS[pid]
        checks.append({
            "property_id": pid,
            "quick_cmd": "bin/check %s --tier quick" % pid,
            "thorough_cmd": "bin/check %s --tier thorough" % pid,
            "evidence_file": "/verif/evidence/%s.json" % pid,
            "replay_cmd_template": "bin/check %s --replay {path}" % pid,
            "engine": "lean4-proof+correspondence",
            "level_claimed": {"category": "proof", "text": c["level_text"], "design_ref": "DESIGN.md section 5, " + pid},
            "level_note": c["level_note"],
            "technique": c["technique"],
        })
    else:
        na.append({"property_id": pid, "reason": PROPS.get(pid, {}).get("na_reason", "check not built yet in this round (design in DESIGN.md section 5); not claimed")})
m = {
    "version": 1,
    "setup_cmd": "bin/setup",
    "hooks": {
        "guard": "verif (Go build tag)",
        "enable": "go build -tags verif (the harness module replaces evylang.dev/evy => /repo)",
        "baseline_off_cmd": "cd /repo && go test -vet=off -count=1 ./... && cd learn && go test -vet=off -count=1 ./...",
        "source_commits": json.load(open(os.path.join(V, "hooks.json")))["source_commits"] if os.path.exists(os.path.join(V, "hooks.json")) else [],
        "add_only": True,
    },
    "engines": [{"name": "lean4-proof+correspondence", "path": "bin/check", "serves_properties": [c["property_id"] for c in checks],
                 "kind_free_text": "Lean 4 theorems over a model (lean/EvyV), tied to /repo by a regenerating extractor and a Go/Lean correspondence harness"}],
    "checks": checks,
    "not_applicable": na,
    "notes": "See DESIGN.md. known-findings.jsonl lists recorded defects; seeded/ holds the breaking changes used to test the checks.",
}
json.dump(m, open(os.path.join(V, "MANIFEST.json"), "w"), indent=1)
print("checks:", len(checks), "not claimed:", len(na))
