"""Per-property configuration of bin/check: Lean modules, obligations (theorem names that
must exist and depend only on the allowed axioms), harness components."""

TRUSTED_BASE = [
    "Lean 4.33 kernel (axioms allowed: propext, Classical.choice, Quot.sound; audited per theorem on every run)",
    "harness/cmd/hx extract (tie T1: regenerates lean/EvyV/Gen from /repo's working tree)",
    "harness hx correspondence + canonicalisation (tie T2: real code in-process vs compiled Lean driver)",
    "hand-written ImplModels are modelled, not verified, code (fidelity sampled by T2)",
    "Go compiler/runtime/standard library (strconv, strings, math, unicode, encoding/xml, crypto/*)",
]

PROPS = {
    "C11": {
        "modules": ["EvyV.Props.C11"],
        "hx": ["c11"],
        "technique": "Lean 4 theorems (index/slice laws for all lengths and index values) + exhaustive small-scope correspondence with the real evaluator",
        "level_text": "normalizeIndex / normalizeSliceIndices / Index / Slice / SetIndex are modelled in Lean and proved equal to the specification's index and slice laws for every sequence and every index value (no size bound); the model is tied to the code by an exhaustive black-box sweep (every array/string up to length 4 (7 thorough) x every boundary/fractional/huge/NaN/Inf index and all bound pairs) through the real parser and evaluator",
        "level_note": "Trusted: Lean kernel, the correspondence harness, Go's float->int conversion semantics as modelled (validated by the sweep), strings restricted to valid UTF-8. Freshness of slices is validated by the sweep (alias programs), proved at heap level under C09.",
        "obligations": [
            "EvyV.C11.index_ok_iff", "EvyV.C11.index_err", "EvyV.C11.slice_bound_ok_iff",
            "EvyV.C11.indexList_spec", "EvyV.C11.indexList_nonint", "EvyV.C11.indexList_never_gopanic",
            "EvyV.C11.setIndex_same_domain", "EvyV.C11.sliceList_spec", "EvyV.C11.sliceList_nonint_start",
            "EvyV.C11.sliceList_never_gopanic", "EvyV.C11.slice_length",
        ],
        "assumptions": [
            "'v is an integer' is the code's own test float64(int(v)) == v (NumOps.isIntegral); theorems hold for every number carrier",
            "strings are valid UTF-8, modelled as code-point lists (what stringVal.runes() yields)",
            "Go int(f) on amd64 yields -2^63 for NaN/out-of-range (driver instance; validated by the sweep)",
        ],
    },
    "C12": {
        "modules": ["EvyV.Props.C12"],
        "hx": ["c12"],
        "technique": "Lean 4 refinement proof (Go map + key slice refines an insertion-ordered dictionary, for all histories, incl. iteration with mutation) + exhaustive small-scope correspondence",
        "level_text": "mapVal (Pairs next to Order), SetKey, Delete, Get, has, len, String, Equals and mapRange are modelled in Lean; an invariant (Order duplicate-free and in step with Pairs) is proved for every history and every operation is proved to refine the specification's insertion-ordered dictionary (overwrite keeps position, delete+insert moves to the end, missing key panics, printing/iteration follow insertion order, iteration with arbitrary mutation in the body visits exactly the snapshot keys still present). Tied to the code by exhaustive histories through the real evaluator (two aliases, both spellings).",
        "level_note": "Trusted: Lean kernel, harness. Values are opaque (any V); deep equality of values is a parameter of equals_iff. Literal construction with duplicate-free keys is validated by the sweep (the parser rejects duplicate keys).",
        "obligations": [
            "EvyV.C12.inv_empty", "EvyV.C12.inv_setKey", "EvyV.C12.inv_delete", "EvyV.C12.abs_setKey", "EvyV.C12.abs_delete",
            "EvyV.C12.get_abs", "EvyV.C12.has_abs", "EvyV.C12.len_abs", "EvyV.C12.entries_abs", "EvyV.C12.history_refines",
            "EvyV.C12.history_from_empty", "EvyV.C12.spec_overwrite_keeps_position", "EvyV.C12.spec_new_key_goes_last",
            "EvyV.C12.spec_delete_reinsert_moves_to_end", "EvyV.C12.range_refines", "EvyV.C12.range_visits_sublist",
            "EvyV.C12.range_no_mutation", "EvyV.C12.equals_order_free", "EvyV.C12.equals_iff",
        ],
        "assumptions": ["map values are opaque; keys are strings (code-point lists)", "aliases share one mapVal, so a history is the interleaving of all aliases' operations"],
    },
}
