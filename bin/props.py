"""Per-property configuration of bin/check: Lean modules, obligations (theorem names that
must exist and depend only on the allowed axioms), harness components."""

TRUSTED_BASE = [
    "Lean 4.33 kernel (axioms allowed: propext, Classical.choice, Quot.sound; audited per theorem on every run)",
    "harness/cmd/hx extract (tie T1: regenerates lean/EvyV/Gen from /repo's working tree)",
    "harness hx correspondence + canonicalisation (tie T2: real code in-process vs compiled Lean driver)",
    "hand-written ImplModels are modelled, not verified, code (fidelity sampled by T2)",
    "Go compiler/runtime/standard library (strconv, strings, math, unicode, encoding/xml, crypto/*)",
]

PROPS = {
    "C11": {
        "modules": ["EvyV.Props.C11"],
        "hx": ["c11"],
        "technique": "Lean 4 theorems (index/slice laws for all lengths and index values) + exhaustive small-scope correspondence with the real evaluator",
        "level_text": "normalizeIndex / normalizeSliceIndices / Index / Slice / SetIndex are modelled in Lean and proved equal to the specification's index and slice laws for every sequence and every index value (no size bound); the model is tied to the code by an exhaustive black-box sweep (every array/string up to length 4 (7 thorough) x every boundary/fractional/huge/NaN/Inf index and all bound pairs) through the real parser and evaluator",
        "level_note": "Trusted: Lean kernel, the correspondence harness, Go's float->int conversion semantics as modelled (validated by the sweep), strings restricted to valid UTF-8. Freshness of slices is validated by the sweep (alias programs), proved at heap level under C09.",
        "obligations": [
            "EvyV.C11.index_ok_iff", "EvyV.C11.index_err", "EvyV.C11.slice_bound_ok_iff",
            "EvyV.C11.indexList_spec", "EvyV.C11.indexList_nonint", "EvyV.C11.indexList_never_gopanic",
            "EvyV.C11.setIndex_same_domain", "EvyV.C11.sliceList_spec", "EvyV.C11.sliceList_nonint_start",
            "EvyV.C11.sliceList_never_gopanic", "EvyV.C11.slice_length",
        ],
        "assumptions": [
            "'v is an integer' is the code's own test float64(int(v)) == v (NumOps.isIntegral); theorems hold for every number carrier",
            "strings are valid UTF-8, modelled as code-point lists (what stringVal.runes() yields)",
            "Go int(f) on amd64 yields -2^63 for NaN/out-of-range (driver instance; validated by the sweep)",
        ],
    },
    "C12": {
        "modules": ["EvyV.Props.C12"],
        "hx": ["c12"],
        "technique": "Lean 4 refinement proof (Go map + key slice refines an insertion-ordered dictionary, for all histories, incl. iteration with mutation) + exhaustive small-scope correspondence",
        "level_text": "mapVal (Pairs next to Order), SetKey, Delete, Get, has, len, String, Equals and mapRange are modelled in Lean; an invariant (Order duplicate-free and in step with Pairs) is proved for every history and every operation is proved to refine the specification's insertion-ordered dictionary (overwrite keeps position, delete+insert moves to the end, missing key panics, printing/iteration follow insertion order, iteration with arbitrary mutation in the body visits exactly the snapshot keys still present). Tied to the code by exhaustive histories through the real evaluator (two aliases, both spellings).",
        "level_note": "Trusted: Lean kernel, harness. Values are opaque (any V); deep equality of values is a parameter of equals_iff. Literal construction with duplicate-free keys is validated by the sweep (the parser rejects duplicate keys).",
        "obligations": [
            "EvyV.C12.inv_empty", "EvyV.C12.inv_setKey", "EvyV.C12.inv_delete", "EvyV.C12.abs_setKey", "EvyV.C12.abs_delete",
            "EvyV.C12.get_abs", "EvyV.C12.has_abs", "EvyV.C12.len_abs", "EvyV.C12.entries_abs", "EvyV.C12.history_refines",
            "EvyV.C12.history_from_empty", "EvyV.C12.spec_overwrite_keeps_position", "EvyV.C12.spec_new_key_goes_last",
            "EvyV.C12.spec_delete_reinsert_moves_to_end", "EvyV.C12.range_refines", "EvyV.C12.range_visits_sublist",
            "EvyV.C12.range_no_mutation", "EvyV.C12.equals_order_free", "EvyV.C12.equals_iff",
        ],
        "assumptions": ["map values are opaque; keys are strings (code-point lists)", "aliases share one mapVal, so a history is the interleaving of all aliases' operations"],
    },
    "C17": {
        "modules": ["EvyV.Props.C17", "EvyV.Props.C17Sym"],
        "hx": ["c17"],
        "technique": "Lean 4 proofs: symbol-table invariant for all Push/Pop/Define/Resolve histories; soundness of a bytecode verifier (BC.verify) for every execution path; translation validation of the real compiler's output by the proved verifier",
        "level_text": "(1) symbol.go is modelled in Lean and an invariant proved for every operation history: simultaneously resolvable locals have pairwise distinct slots, globals likewise, and LocalCount bounds every local slot handed out. (2) A bytecode verifier (decode, operand ranges, jump targets, stack-height certificate) is proved sound for the abstract stack machine: on every path of any length the height at an instruction is the certified one, no instruction underflows, every reached offset decodes and the stack is empty at exit. (3) Each run compiles thousands of generated programs (and >64 KiB ones) with the real compiler, runs the proved verifier in Lean on the emitted bytes, executes them on the real VM (recover, stack pointer via the verif hook) and compares all symbol-table histories up to length 6 with the real table.",
        "level_note": "Trusted: Lean kernel; the stack effects per opcode in Model/Bytecode.lean are read off vm.go by hand (the opcode table itself is regenerated and checked by the obligation opcodes_covered); the fused treatment of OpStepRange/OpIterRange + OpJumpOnFalse. Type-tag panics in the VM (popNumVal on a string) are outside the verifier and covered by running the real VM. The theorem is per emitted program (translation validation), not a proof that the compiler always emits verifiable code.",
        "obligations": [
            "EvyV.C17.opcodes_covered", "EvyV.C17.verify_sound", "EvyV.C17.same_height_on_all_paths", "EvyV.C17.never_stuck",
            "EvyV.C17.empty_at_exit", "EvyV.C17.step_has_operands",
            "EvyV.C17.inv_run", "EvyV.C17.no_slot_sharing", "EvyV.C17.visible_locals_distinct", "EvyV.C17.globals_distinct",
            "EvyV.C17.local_slots_below_localCount", "EvyV.C17.pop_records",
        ],
        "assumptions": ["scopes are strictly nested: operations act on the innermost table only (as in compiler.go enterScope/leaveScope)",
                        "abstract machine: one optional 16-bit operand per instruction, stack effects as listed in BC.effect"],
    },
    "C16": {
        "modules": ["EvyV.Props.C16"],
        "hx": ["c16"],
        "technique": "Lean 4 proofs (Compile is total-or-error over the regenerated node inventory; compile-correctness simulation for the expression fragment) + differential evaluator-vs-VM correspondence",
        "level_text": "Proved in Lean: every AST node kind is either a case of Compiler.Compile or reaches an error default (over the inventory regenerated from compiler.go and ast.go on every run), and for all num/bool expression trees the emitted instruction sequence leaves the evaluator's value on the VM stack or stops with the VM-only division-by-zero error. The model's instruction sequences are compared with the real compiler's output and the real VM/evaluator results on thousands of random expressions; beyond the proved fragment the property is decided by a differential run (real evaluator vs real VM, all common globals) on generated programs, which is validation, not proof.",
        "level_note": "Statement-level simulation (declarations, if/while/for/break, arrays, maps, strings) is not proved; it is validated by the differential stream. Two recorded findings (map index assignment order, byte-indexed strings) are excluded by syntactic predicates and replayed from corpus/C16 on every run.",
        "obligations": ["EvyV.C16.compile_total_or_error", "EvyV.C16.compile_cases_known", "EvyV.C16.eval_total_or_error",
                        "EvyV.C16.vmExec_append", "EvyV.C16.compile_expr_correct", "EvyV.C16.no_type_error"],
        "assumptions": ["IEEE operations are an abstract NumOps carrier in the theorem", "globals of the VM are matched to evaluator globals by symbol name (verif hook); variables that exist on one side only (top-level loop variables) are not compared"],
    },
}
