"""Per-property configuration of bin/check: Lean modules, obligations (theorem names that
must exist and depend only on the allowed axioms), harness components."""

TRUSTED_BASE = [
    "Lean 4.33 kernel (axioms allowed: propext, Classical.choice, Quot.sound; audited per theorem on every run)",
    "harness/cmd/hx extract (tie T1: regenerates lean/EvyV/Gen from /repo's working tree)",
    "harness hx correspondence + canonicalisation (tie T2: real code in-process vs compiled Lean driver)",
    "hand-written ImplModels are modelled, not verified, code (fidelity sampled by T2)",
    "Go compiler/runtime/standard library (strconv, strings, math, unicode, encoding/xml, crypto/*)",
]

PROPS = {
    "C11": {
        "modules": ["EvyV.Props.C11"],
        "hx": ["c11"],
        "technique": "Lean 4 theorems (index/slice laws for all lengths and index values) + exhaustive small-scope correspondence with the real evaluator",
        "level_text": "normalizeIndex / normalizeSliceIndices / Index / Slice / SetIndex are modelled in Lean and proved equal to the specification's index and slice laws for every sequence and every index value (no size bound); the model is tied to the code by an exhaustive black-box sweep (every array/string up to length 4 (7 thorough) x every boundary/fractional/huge/NaN/Inf index and all bound pairs) through the real parser and evaluator",
        "level_note": "Trusted: Lean kernel, the correspondence harness, Go's float->int conversion semantics as modelled (validated by the sweep), strings restricted to valid UTF-8. Freshness of slices is validated by the sweep (alias programs), proved at heap level under C09.",
        "obligations": [
            "EvyV.C11.index_ok_iff", "EvyV.C11.index_err", "EvyV.C11.slice_bound_ok_iff",
            "EvyV.C11.indexList_spec", "EvyV.C11.indexList_nonint", "EvyV.C11.indexList_never_gopanic",
            "EvyV.C11.setIndex_same_domain", "EvyV.C11.sliceList_spec", "EvyV.C11.sliceList_nonint_start",
            "EvyV.C11.sliceList_never_gopanic", "EvyV.C11.slice_length",
        ],
        "assumptions": [
            "'v is an integer' is the code's own test float64(int(v)) == v (NumOps.isIntegral); theorems hold for every number carrier",
            "strings are valid UTF-8, modelled as code-point lists (what stringVal.runes() yields)",
            "Go int(f) on amd64 yields -2^63 for NaN/out-of-range (driver instance; validated by the sweep)",
        ],
    },
}
