#!/bin/bash
# verify-seeded.sh <worktree> <A|B>: confirms a sub-agent's mutation in its scratch worktree:
# applies, builds, runs full test suites, runs the demo (must fail), reverts, runs the demo (must pass).
export GOFLAGS=-mod=mod GOPROXY=off GOSUMDB=off GOTOOLCHAIN=local
WT=$1; M=$2
cd "$WT" || exit 2
S=/tmp/seedstash-$$-$(basename $WT)-$M
rm -rf "$S"; mkdir -p "$S"; cp -r seeded/$M/. "$S"/
mv seeded /tmp/seeded-aside-$$-$(basename $WT) 2>/dev/null
git checkout -q -- . 
rundemo() {
  if [ -f "$S/demo.sh" ]; then
    mkdir -p seeded/$M; cp -r "$S"/. seeded/$M/
    sh seeded/$M/demo.sh >/tmp/demo-$$.log 2>&1; rc=$?
    rm -rf seeded
    return $rc
  fi
  t=$(ls "$S"/demo_test.go* 2>/dev/null | head -1)
  [ -z "$t" ] && { echo "no demo"; return 99; }
  dir=$(grep -o -m1 -E 'learn/pkg/learn|pkg/(evaluator|parser|lexer|bytecode|cli/svg|cli)' "$t" | head -1)
  [ -z "$dir" ] && dir=$(grep -o -m1 -E 'learn/pkg/learn|pkg/(evaluator|parser|lexer|bytecode|cli/svg|cli)' "$S/meta.json" | head -1)
  [ -z "$dir" ] && dir=pkg/evaluator
  dir=${dir%/}
  cp "$t" "$dir/zz_seeded_demo_test.go"
  sed -i '/^\/\/go:build/d' "$dir/zz_seeded_demo_test.go"
  case "$dir" in learn/*) (cd learn && go test -vet=off -count=1 ./${dir#learn/}/ >/tmp/demo-$$.log 2>&1);; *) go test -vet=off -count=1 ./$dir/ >/tmp/demo-$$.log 2>&1;; esac
  rc=$?
  rm -f "$dir/zz_seeded_demo_test.go"
  return $rc
}
echo "== $WT $M"
git apply --check "$S/patch.diff" || { echo "RESULT patch-does-not-apply"; mv /tmp/seeded-aside-$$-$(basename $WT) seeded; exit 1; }
git apply "$S/patch.diff"
go build ./... >/dev/null 2>&1 && (cd learn && go build ./... >/dev/null 2>&1); b=$?
go test -vet=off -count=1 ./... >/tmp/t1-$$.log 2>&1; t1=$?
(cd learn && go test -vet=off -count=1 ./... >/tmp/t2-$$.log 2>&1); t2=$?
rundemo; d1=$?; tail -3 /tmp/demo-$$.log | sed 's/^/   with: /'
git checkout -q -- .
rundemo; d0=$?
echo "RESULT build=$b tests=$t1/$t2 demo_with_patch=$d1 demo_without=$d0"
mv /tmp/seeded-aside-$$-$(basename $WT) seeded
rm -rf "$S" /tmp/demo-$$.log /tmp/t1-$$.log /tmp/t2-$$.log
