#!/bin/bash
# try-mutation.sh <patch.diff> <prop> [<prop>...]: apply a seeded change to /repo, run the checks, undo.
P=$1; shift
if ! git -C /repo apply --check "$P" 2>/dev/null; then echo "PATCH-DOES-NOT-APPLY $P"; exit 3; fi
git -C /repo apply "$P"
for c in "$@"; do
  out=$(/verif/bin/check $c 2>&1); rc=$?
  nv=$(echo "$out" | grep -c '^VIOLATION')
  first=$(echo "$out" | grep '^VIOLATION' | head -1 | cut -c1-140)
  echo "$(basename $(dirname $(dirname $P)))/$(basename $(dirname $P)) on $c: exit=$rc violations=$nv $first"
done
git -C /repo checkout -- .
