// Command hx runs one correspondence component and prints a JSON report.
package main

import (
	"fmt"
	"os"

	"verifharness/hx"
)

func main() {
	if len(os.Args) < 2 {
		fmt.Fprintln(os.Stderr, "usage: hx <component> [args]")
		os.Exit(2)
	}
	if os.Args[1] == "extract" {
		if err := hx.Extract(os.Args[2]); err != nil {
			fmt.Fprintln(os.Stderr, "extract:", err)
			os.Exit(1)
		}
		return
	}
	if os.Args[1] == "rejectprobe" {
		hx.RejectProbe(1000)
		return
	}
	if os.Args[1] == "hangprobe" {
		hx.HangProbe(3000)
		return
	}
	if os.Args[1] == "genprobe" {
		hx.GenProbe(2000, len(os.Args) > 2 && os.Args[2] == "vm")
		return
	}
	needDriver := map[string]bool{"c11": true, "c12": true, "c17": true, "c16": true, "evalprobe": true, "tcprobe": true, "evalone": true, "c01": true, "c02": true, "c09": true, "c10": true, "c13": true, "c14": true, "c15": true, "c20": true, "c18": true, "c19": true, "c04": true, "c03": true, "c05": true, "c06": true, "c07": true, "replay": true}
	var d *hx.Driver
	if needDriver[os.Args[1]] {
		var err error
		d, err = hx.StartDriver()
		if err != nil {
			fmt.Fprintln(os.Stderr, "driver:", err)
			os.Exit(3)
		}
		defer d.Close()
	}
	if os.Args[1] == "replay" {
		rc := hx.Replay(d, os.Args[2])
		d.Close()
		os.Exit(rc)
	}
	if os.Args[1] == "evalone" {
		b, _ := os.ReadFile(os.Args[2])
		c := hx.CompareEval(d, string(b), hx.RunOpts{})
		fmt.Println("skipped:", c.Skipped, "agree:", c.Agree)
		fmt.Println("real :", c.RealObs)
		fmt.Println("model:", c.ModelObs, c.Model.Err)
		return
	}
	if os.Args[1] == "tcprobe" {
		if len(os.Args) > 2 {
			b, _ := os.ReadFile(os.Args[2])
			fmt.Println(hx.TcOne(d, string(b)))
			return
		}
		hx.TcProbe(d, 600)
		return
	}
	if os.Args[1] == "evalprobe" {
		hx.EvalProbe(d, 1500)
		return
	}
	var rep *hx.Report
	switch os.Args[1] {
	case "c11":
		rep = hx.RunC11(d)
	case "c12":
		rep = hx.RunC12(d)
	case "c17":
		rep = hx.RunC17(d)
	case "c16":
		rep = hx.RunC16(d)
	case "c01":
		rep = hx.RunC01(d)
	case "c02":
		rep = hx.RunC02(d)
	case "c09":
		rep = hx.RunC09(d)
	case "c10":
		rep = hx.RunC10(d)
	case "c13":
		rep = hx.RunC13(d)
	case "c14":
		rep = hx.RunC14(d)
	case "c15":
		rep = hx.RunC15(d)
	case "c20":
		rep = hx.RunC20(d)
	case "c18":
		rep = hx.RunC18(d)
	case "c08":
		rep = hx.RunC08(d)
	case "c19":
		rep = hx.RunC19(d)
	case "c04":
		rep = hx.RunC04(d)
	case "c03":
		rep = hx.RunC03(d)
	case "c05":
		rep = hx.RunC05(d)
	case "c06":
		rep = hx.RunC06(d)
	case "c07":
		rep = hx.RunC07(d)
	default:
		fmt.Fprintln(os.Stderr, "unknown component", os.Args[1])
		os.Exit(2)
	}
	rep.Emit()
}
