// mut: a small source mutator for the mutation campaign (bin/mutate.sh).
//
//	mut list <file.go>            prints one line per mutation site: index, line, kind, description
//	mut apply <file.go> <index>   rewrites the file in place with mutation <index> applied (minimal textual edit)
//
// Mutation kinds: relational and logical operator replacement, arithmetic operator replacement,
// negated if-condition, flipped boolean literal in a return, deleted expression / assignment
// statement, off-by-one on integer literals 0 and 1.
package main

import (
	"fmt"
	"go/ast"
	"go/parser"
	"go/token"
	"os"
	"sort"
	"strconv"
)

type edit struct {
	off, end int // byte range to replace
	repl     string
	line     int
	kind     string
	desc     string
}

func main() {
	if len(os.Args) < 3 {
		fmt.Fprintln(os.Stderr, "usage: mut list|apply file [index]")
		os.Exit(2)
	}
	file := os.Args[2]
	src, err := os.ReadFile(file)
	if err != nil {
		panic(err)
	}
	fset := token.NewFileSet()
	f, err := parser.ParseFile(fset, file, src, parser.ParseComments)
	if err != nil {
		panic(err)
	}
	var edits []edit
	off := func(p token.Pos) int { return fset.Position(p).Offset }
	line := func(p token.Pos) int { return fset.Position(p).Line }
	swap := map[token.Token][]string{
		token.LSS: {"<="}, token.LEQ: {"<"}, token.GTR: {">="}, token.GEQ: {">"}, token.EQL: {"!="}, token.NEQ: {"=="},
		token.LAND: {"||"}, token.LOR: {"&&"}, token.ADD: {"-"}, token.SUB: {"+"}, token.MUL: {"/"}, token.REM: {"/"},
	}
	inFunc := ""
	ast.Inspect(f, func(n ast.Node) bool {
		switch n := n.(type) {
		case *ast.FuncDecl:
			inFunc = n.Name.Name
		case *ast.BinaryExpr:
			for _, r := range swap[n.Op] {
				// string concatenation with + is left alone when an operand is a string literal
				if n.Op == token.ADD {
					if bl, ok := n.X.(*ast.BasicLit); ok && bl.Kind == token.STRING {
						continue
					}
					if bl, ok := n.Y.(*ast.BasicLit); ok && bl.Kind == token.STRING {
						continue
					}
				}
				edits = append(edits, edit{off(n.OpPos), off(n.OpPos) + len(n.Op.String()), r, line(n.OpPos), "op", inFunc + ": " + n.Op.String() + " -> " + r})
			}
		case *ast.IfStmt:
			if n.Cond != nil {
				edits = append(edits, edit{off(n.Cond.Pos()), off(n.Cond.End()), "!(" + string(src[off(n.Cond.Pos()):off(n.Cond.End())]) + ")", line(n.Cond.Pos()), "negate", inFunc + ": negated condition"})
			}
		case *ast.ReturnStmt:
			for _, r := range n.Results {
				if id, ok := r.(*ast.Ident); ok && (id.Name == "true" || id.Name == "false") {
					nv := "true"
					if id.Name == "true" {
						nv = "false"
					}
					edits = append(edits, edit{off(id.Pos()), off(id.End()), nv, line(id.Pos()), "retbool", inFunc + ": return " + id.Name + " -> " + nv})
				}
			}
		case *ast.BlockStmt:
			for _, st := range n.List {
				switch s := st.(type) {
				case *ast.ExprStmt:
					if _, ok := s.X.(*ast.CallExpr); ok {
						edits = append(edits, edit{off(s.Pos()), off(s.End()), "{}", line(s.Pos()), "delcall", inFunc + ": deleted " + trunc(string(src[off(s.Pos()):off(s.End())]))})
					}
				case *ast.AssignStmt:
					if s.Tok == token.ASSIGN || s.Tok == token.ADD_ASSIGN || s.Tok == token.SUB_ASSIGN {
						edits = append(edits, edit{off(s.Pos()), off(s.End()), "{}", line(s.Pos()), "delassign", inFunc + ": deleted " + trunc(string(src[off(s.Pos()):off(s.End())]))})
					}
				case *ast.IncDecStmt:
					edits = append(edits, edit{off(s.Pos()), off(s.End()), "{}", line(s.Pos()), "delinc", inFunc + ": deleted " + trunc(string(src[off(s.Pos()):off(s.End())]))})
				}
			}
		case *ast.BasicLit:
			if n.Kind == token.INT && (n.Value == "0" || n.Value == "1") {
				nv := "1"
				if n.Value == "1" {
					nv = "0"
				}
				edits = append(edits, edit{off(n.Pos()), off(n.End()), nv, line(n.Pos()), "lit", inFunc + ": literal " + n.Value + " -> " + nv})
			}
		}
		return true
	})
	sort.SliceStable(edits, func(i, j int) bool { return edits[i].off < edits[j].off })
	switch os.Args[1] {
	case "list":
		for i, e := range edits {
			fmt.Printf("%d\t%d\t%s\t%s\n", i, e.line, e.kind, e.desc)
		}
	case "apply":
		i, _ := strconv.Atoi(os.Args[3])
		if i < 0 || i >= len(edits) {
			os.Exit(3)
		}
		e := edits[i]
		out := append(append(append([]byte{}, src[:e.off]...), []byte(e.repl)...), src[e.end:]...)
		if err := os.WriteFile(file, out, 0o644); err != nil {
			panic(err)
		}
		fmt.Printf("%d\t%d\t%s\t%s\n", i, e.line, e.kind, e.desc)
	}
}

func trunc(s string) string {
	for i, c := range s {
		if c == '\n' {
			return s[:i] + " …"
		}
	}
	if len(s) > 70 {
		return s[:70] + "…"
	}
	return s
}
