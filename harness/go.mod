module verifharness

go 1.23.0

require (
	evylang.dev/evy v0.0.0
	evylang.dev/evy/learn v0.0.0
	golang.org/x/tools v0.29.0
)

replace evylang.dev/evy => /repo

replace evylang.dev/evy/learn => /repo/learn
