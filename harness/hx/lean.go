// Package hx is the correspondence harness: it drives the real evy code
// in-process and the Lean model (driver executable) on the same inputs.
package hx

import (
	"bufio"
	"encoding/hex"
	"fmt"
	"io"
	"math"
	"os"
	"os/exec"
	"strings"
)

// Driver is a running Lean driver process (line protocol).
type Driver struct {
	cmd *exec.Cmd
	in  io.WriteCloser
	out *bufio.Reader
	N   int // requests sent
}

// StartDriver starts the compiled Lean driver. Path from $VERIF_DRIVER.
func StartDriver() (*Driver, error) {
	path := os.Getenv("VERIF_DRIVER")
	if path == "" {
		path = "/verif/lean/.lake/build/bin/evyv"
	}
	cmd := exec.Command(path)
	in, err := cmd.StdinPipe()
	if err != nil {
		return nil, err
	}
	out, err := cmd.StdoutPipe()
	if err != nil {
		return nil, err
	}
	cmd.Stderr = os.Stderr
	if err := cmd.Start(); err != nil {
		return nil, err
	}
	d := &Driver{cmd: cmd, in: in, out: bufio.NewReaderSize(out, 1<<20)}
	if r, err := d.Ask("ping"); err != nil || r != "pong" {
		return nil, fmt.Errorf("driver ping failed: %q %v", r, err)
	}
	return d, nil
}

// Ask sends one request line and returns the answer line.
func (d *Driver) Ask(line string) (string, error) {
	if strings.ContainsAny(line, "\n\r") {
		return "", fmt.Errorf("request contains newline")
	}
	d.N++
	if f := os.Getenv("VERIF_DUMP"); f != "" {
		if fh, err := os.OpenFile(f, os.O_APPEND|os.O_CREATE|os.O_WRONLY, 0o644); err == nil {
			fh.WriteString(line + "\n")
			fh.Close()
		}
	}
	if _, err := io.WriteString(d.in, line+"\n"); err != nil {
		return "", err
	}
	s, err := d.out.ReadString('\n')
	if err != nil {
		return "", fmt.Errorf("driver died: %w", err)
	}
	return strings.TrimRight(s, "\n"), nil
}

// Close ends the driver.
func (d *Driver) Close() {
	d.in.Close()
	d.cmd.Wait() //nolint
}

// FHex is the wire form of a float64 (16 hex digits of its bits, NaN canonical).
func FHex(f float64) string {
	if math.IsNaN(f) {
		return "7ff8000000000000"
	}
	return fmt.Sprintf("%016x", math.Float64bits(f))
}

// SHex hex-encodes a string's bytes.
func SHex(s string) string { return hex.EncodeToString([]byte(s)) }

// UnHex decodes a hex string.
func UnHex(s string) string {
	b, err := hex.DecodeString(s)
	if err != nil {
		return "<bad hex " + s + ">"
	}
	return string(b)
}
