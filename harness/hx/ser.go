package hx

import (
	"fmt"
	"strings"

	"evylang.dev/evy/pkg/parser"
)

// Serialiser of the REAL parser AST into the s-expression wire form the Lean driver reads
// (DESIGN.md Appendix A). Evaluator, formatter and compiler models therefore consume exactly
// the tree the real code consumes.

// SerType renders a parser type.
func SerType(t *parser.Type) string {
	switch {
	case t == nil:
		return "nil"
	case t == parser.EMPTY_ARRAY:
		return "earr"
	case t == parser.EMPTY_MAP:
		return "emap"
	case t == parser.GENERIC_ARRAY:
		return "garr"
	case t == parser.GENERIC_MAP:
		return "gmap"
	}
	switch t.Name {
	case parser.NUM:
		return "num"
	case parser.STRING:
		return "str"
	case parser.BOOL:
		return "bool"
	case parser.ANY:
		return "any"
	case parser.NONE:
		return "none"
	case parser.ARRAY:
		if t.Sub == nil {
			return "garr"
		}
		return "(arr " + SerType(t.Sub) + ")"
	case parser.MAP:
		if t.Sub == nil {
			return "gmap"
		}
		return "(map " + SerType(t.Sub) + ")"
	}
	return "nil"
}

type serializer struct {
	sb  strings.Builder
	err error
}

func (s *serializer) w(x string) { s.sb.WriteString(x) }

func ss(x string) string { return "s" + SHex(x) }

func (s *serializer) expr(n parser.Node) {
	switch n := n.(type) {
	case *parser.NumLiteral:
		s.w("(N n" + FHex(n.Value) + ")")
	case *parser.StringLiteral:
		s.w("(S " + ss(n.Value) + ")")
	case *parser.BoolLiteral:
		if n.Value {
			s.w("(B t)")
		} else {
			s.w("(B f)")
		}
	case *parser.Var:
		s.w("(V " + ss(n.Name) + ")")
	case *parser.Any:
		s.w("(ANY " + SerType(n.Value.Type()) + " ")
		s.expr(n.Value)
		s.w(")")
	case *parser.ArrayLiteral:
		s.w("(ARR")
		for _, e := range n.Elements {
			s.w(" ")
			s.expr(e)
		}
		s.w(")")
	case *parser.MapLiteral:
		s.w("(MAP")
		for _, k := range n.Order {
			s.w(" (" + ss(k) + " ")
			s.expr(n.Pairs[k])
			s.w(")")
		}
		s.w(")")
	case *parser.FuncCall:
		s.w("(CALL " + ss(n.Name))
		for _, a := range n.Arguments {
			s.w(" ")
			s.expr(a)
		}
		s.w(")")
	case *parser.UnaryExpression:
		s.w("(UN " + n.Op.String() + " ")
		s.expr(n.Right)
		s.w(")")
	case *parser.BinaryExpression:
		s.w("(BIN " + n.Op.String() + " ")
		s.expr(n.Left)
		s.w(" ")
		s.expr(n.Right)
		s.w(")")
	case *parser.IndexExpression:
		s.w("(IDX ")
		s.expr(n.Left)
		s.w(" ")
		s.expr(n.Index)
		s.w(")")
	case *parser.SliceExpression:
		s.w("(SLICE ")
		s.expr(n.Left)
		s.w(" ")
		s.optExpr(n.Start)
		s.w(" ")
		s.optExpr(n.End)
		s.w(")")
	case *parser.DotExpression:
		s.w("(DOT ")
		s.expr(n.Left)
		s.w(" " + ss(n.Key) + ")")
	case *parser.GroupExpression:
		s.w("(GRP ")
		s.expr(n.Expr)
		s.w(")")
	case *parser.TypeAssertion:
		s.w("(AS " + SerType(n.T) + " ")
		s.expr(n.Left)
		s.w(")")
	default:
		s.err = fmt.Errorf("serialiser: unexpected expression node %T", n)
		s.w("(ERR)")
	}
}

func (s *serializer) optExpr(n parser.Node) {
	if n == nil || isNilNode(n) {
		s.w("-")
		return
	}
	s.expr(n)
}

func isNilNode(n parser.Node) bool {
	switch v := n.(type) {
	case *parser.NumLiteral:
		return v == nil
	case *parser.Var:
		return v == nil
	case *parser.BlockStatement:
		return v == nil
	}
	return false
}

func (s *serializer) stmts(ns []parser.Node) {
	for _, n := range ns {
		s.w(" ")
		s.stmt(n)
	}
}

func (s *serializer) stmt(n parser.Node) {
	switch n := n.(type) {
	case *parser.TypedDeclStmt:
		s.w("(DECL " + ss(n.Decl.Var.Name) + " ")
		s.expr(n.Decl.Value)
		s.w(")")
	case *parser.InferredDeclStmt:
		s.w("(DECL " + ss(n.Decl.Var.Name) + " ")
		s.expr(n.Decl.Value)
		s.w(")")
	case *parser.AssignmentStmt:
		s.w("(ASSIGN ")
		s.expr(n.Target)
		s.w(" ")
		s.expr(n.Value)
		s.w(")")
	case *parser.FuncCallStmt:
		s.w("(CALLS ")
		s.expr(n.FuncCall)
		s.w(")")
	case *parser.ReturnStmt:
		s.w("(RET ")
		s.optExpr(n.Value)
		s.w(")")
	case *parser.BreakStmt:
		s.w("(BRK)")
	case *parser.IfStmt:
		s.w("(IF (")
		s.cond(n.IfBlock)
		for _, c := range n.ElseIfBlocks {
			s.w(" ")
			s.cond(c)
		}
		s.w(") ")
		if n.Else != nil {
			s.w("(ELSE")
			s.stmts(n.Else.Statements)
			s.w(")")
		} else {
			s.w("-")
		}
		s.w(")")
	case *parser.WhileStmt:
		s.w("(WHILE ")
		s.expr(n.Condition)
		s.stmts(n.Block.Statements)
		s.w(")")
	case *parser.ForStmt:
		s.w("(FOR ")
		if n.LoopVar != nil {
			s.w(ss(n.LoopVar.Name) + " " + SerType(n.LoopVar.Type()) + " ")
		} else {
			s.w("- none ")
		}
		if sr, ok := n.Range.(*parser.StepRange); ok {
			s.w("(STEP ")
			s.optExpr(sr.Start)
			s.w(" ")
			s.expr(sr.Stop)
			s.w(" ")
			s.optExpr(sr.Step)
			s.w(")")
		} else {
			s.w("(OVER ")
			s.expr(n.Range)
			s.w(")")
		}
		s.stmts(n.Block.Statements)
		s.w(")")
	case *parser.FuncDefStmt, *parser.EventHandlerStmt, *parser.EmptyStmt:
		s.w("(NOOP)")
	default:
		s.err = fmt.Errorf("serialiser: unexpected statement node %T", n)
		s.w("(ERR)")
	}
}

func (s *serializer) cond(c *parser.ConditionalBlock) {
	s.w("(")
	s.expr(c.Condition)
	s.stmts(c.Block.Statements)
	s.w(")")
}

// SerProgram serialises a parsed program.
func SerProgram(p *parser.Program) (string, error) {
	s := &serializer{}
	s.w("(PROG (FUNCS")
	for _, n := range p.Statements {
		if fd, ok := n.(*parser.FuncDefStmt); ok {
			s.w(" (FUNC " + ss(fd.Name) + " (")
			for i, pr := range fd.Params {
				if i > 0 {
					s.w(" ")
				}
				s.w(ss(pr.Name))
			}
			s.w(") ")
			if fd.VariadicParam != nil {
				s.w(ss(fd.VariadicParam.Name))
			} else {
				s.w("-")
			}
			s.stmts(fd.Body.Statements)
			s.w(")")
		}
	}
	s.w(") (HANDLERS")
	for _, n := range p.Statements {
		if eh, ok := n.(*parser.EventHandlerStmt); ok {
			s.w(" (ON " + ss(eh.Name) + " (")
			for i, pr := range eh.Params {
				if i > 0 {
					s.w(" ")
				}
				s.w("(" + ss(pr.Name) + " " + SerType(pr.Type()) + ")")
			}
			s.w(")")
			s.stmts(eh.Body.Statements)
			s.w(")")
		}
	}
	s.w(")")
	s.stmts(p.Statements)
	s.w(")")
	return s.sb.String(), s.err
}
