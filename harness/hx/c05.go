package hx

import (
	"fmt"
	"os"
	"path/filepath"
	"strings"
	"time"

	"evylang.dev/evy/pkg/parser"
)

// termFlags lists VerifAlwaysTerminates for every statement in the serialiser's order:
// function bodies, handler bodies, then the top-level statements; a statement, then its nested blocks.
func termFlags(p *parser.Program) string {
	var b strings.Builder
	var block func(ns []parser.Node)
	var stmt func(n parser.Node)
	stmt = func(n parser.Node) {
		if parser.VerifAlwaysTerminates(n) {
			b.WriteByte('1')
		} else {
			b.WriteByte('0')
		}
		switch n := n.(type) {
		case *parser.IfStmt:
			block(n.IfBlock.Block.Statements)
			for _, c := range n.ElseIfBlocks {
				block(c.Block.Statements)
			}
			if n.Else != nil {
				block(n.Else.Statements)
			}
		case *parser.WhileStmt:
			block(n.Block.Statements)
		case *parser.ForStmt:
			block(n.Block.Statements)
		}
	}
	block = func(ns []parser.Node) {
		for _, n := range ns {
			stmt(n)
		}
	}
	for _, n := range p.Statements {
		if fd, ok := n.(*parser.FuncDefStmt); ok {
			block(fd.Body.Statements)
		}
	}
	for _, n := range p.Statements {
		if eh, ok := n.(*parser.EventHandlerStmt); ok {
			block(eh.Body.Statements)
		}
	}
	for _, n := range p.Statements {
		switch n.(type) {
		case *parser.FuncDefStmt, *parser.EventHandlerStmt:
			b.WriteByte('0') // serialised as NOOP
		default:
			stmt(n)
		}
	}
	return b.String()
}

// c05Bodies: statement lists with every way of (not) terminating.
func c05Bodies() []string {
	leaf := []string{"return 1", "print 1", "x := 1\nprint x", "while true\n    return 1\nend", "for i := range 2\n    return i\nend"}
	var out []string
	out = append(out, leaf...)
	ifs := func(a, b, c string, withElse bool) string {
		s := "if a > 0\n" + indent(a, 1) + "else if a < 0\n" + indent(b, 1)
		if withElse {
			s += "else\n" + indent(c, 1)
		}
		return s + "end"
	}
	for _, a := range leaf[:3] {
		for _, b := range leaf[:3] {
			for _, c := range leaf[:3] {
				out = append(out, ifs(a, b, c, true))
			}
			out = append(out, ifs(a, b, "", false))
		}
	}
	// nested
	t := ifs("return 1", "return 2", "return 3", true)
	out = append(out, ifs(t, "return 2", t, true), ifs(t, "print 1", t, true), "print 1\n"+t, t+"\n\n", "if a > 0\n    return 1\nend\nreturn 2",
		"while a > 0\n"+indent(t, 1)+"end", "// comment\nreturn 1 // done\n// after")
	return out
}

type c05Line struct {
	text                                           string
	depth                                          int
	inLoop, inFunc, inProc, inHandler, inTypedFunc bool
}

// c05Scan annotates the lines of a formatted program with their block context.
func c05Scan(src string) []c05Line {
	type frame struct{ kind string }
	var stack []frame
	var out []c05Line
	for _, l := range strings.Split(strings.TrimRight(src, "\n"), "\n") {
		t := strings.TrimSpace(l)
		if t == "end" && len(stack) > 0 {
			stack = stack[:len(stack)-1]
		}
		cl := c05Line{text: l, depth: (len(l) - len(strings.TrimLeft(l, " "))) / 4}
		for _, f := range stack {
			switch f.kind {
			case "loop":
				cl.inLoop = true
			case "func":
				cl.inFunc, cl.inTypedFunc = true, true
			case "proc":
				cl.inFunc, cl.inProc = true, true
			case "on":
				cl.inHandler = true
			}
		}
		out = append(out, cl)
		w := strings.Fields(t)
		if len(w) == 0 {
			continue
		}
		switch w[0] {
		case "for", "while":
			stack = append(stack, frame{"loop"})
		case "if":
			stack = append(stack, frame{"if"})
		case "on":
			stack = append(stack, frame{"on"})
		case "func":
			if len(w) > 1 && strings.Contains(w[1], ":") {
				stack = append(stack, frame{"func"})
			} else {
				stack = append(stack, frame{"proc"})
			}
		}
	}
	return out
}

type c05Edit struct {
	rule string
	src  string
}

// c05Edits applies every rule-breaking edit at every position where the rule applies.
func c05Edits(src string) []c05Edit {
	ls := c05Scan(src)
	var out []c05Edit
	join := func(lines []string) string { return strings.Join(lines, "\n") + "\n" }
	texts := func() []string {
		t := make([]string, len(ls))
		for i, l := range ls {
			t[i] = l.text
		}
		return t
	}
	insertBefore := func(i int, lines ...string) string {
		t := texts()
		d := 0
		if i < len(ls) {
			d = ls[i].depth
			tt := strings.TrimSpace(ls[i].text)
			if tt == "end" || strings.HasPrefix(tt, "else") {
				d++
			}
		}
		pad := strings.Repeat("    ", d)
		var ins []string
		for _, l := range lines {
			ins = append(ins, pad+l)
		}
		return join(append(append(append([]string{}, t[:i]...), ins...), t[i:]...))
	}
	ctxAt := func(i int) c05Line { // context of a line inserted before line i
		if i >= len(ls) {
			return c05Line{}
		}
		c := ls[i]
		tt := strings.TrimSpace(c.text)
		if tt == "end" || strings.HasPrefix(tt, "else") {
			// the inserted line belongs to the block that this line closes: context of the previous line
			if i > 0 {
				p := ls[i-1]
				pt := strings.Fields(strings.TrimSpace(p.text))
				// the previous line may itself open the block
				if len(pt) > 0 {
					switch pt[0] {
					case "for", "while":
						p.inLoop = true
					case "on":
						p.inHandler = true
					case "func":
						p.inFunc = true
						if len(pt) > 1 && strings.Contains(pt[1], ":") {
							p.inTypedFunc = true
						} else {
							p.inProc = true
						}
					}
				}
				return p
			}
		}
		return c
	}
	for i := 0; i <= len(ls); i++ {
		c := ctxAt(i)
		topOfFuncHeader := i < len(ls) && (strings.HasPrefix(ls[i].text, "func ") || strings.HasPrefix(ls[i].text, "on "))
		_ = topOfFuncHeader
		out = append(out,
			c05Edit{"unused variable", insertBefore(i, "zq := 1")},
			c05Edit{"undeclared variable", insertBefore(i, "print zq")},
			c05Edit{"redeclaration in the same scope", insertBefore(i, "zq := 1", "zq := 2", "print zq")},
			c05Edit{"type mismatch", insertBefore(i, "zq := 1", "zq = \"s\"", "print zq")},
			// one type rule per position kind: unary and binary operands, conditions, index, slice bound,
			// field, type assertion, range operand, argument, assignment to a variable / element / field
			c05Edit{"type mismatch", insertBefore(i, "zq := \"s\"", "print -zq")},
			c05Edit{"type mismatch", insertBefore(i, "zq := 1", "print !zq")},
			c05Edit{"type mismatch", insertBefore(i, "zq := true", "print -zq")},
			c05Edit{"type mismatch", insertBefore(i, "zq := [1]", "print !zq")},
			c05Edit{"type mismatch", insertBefore(i, "zq:any", "print -zq")},
			c05Edit{"type mismatch", insertBefore(i, "zq := 1", "print zq + \"s\"")},
			c05Edit{"type mismatch", insertBefore(i, "zq := 1", "print (zq and true)")},
			c05Edit{"type mismatch", insertBefore(i, "zq := \"s\"", "print zq * 2")},
			c05Edit{"type mismatch", insertBefore(i, "zq := 1", "if zq", "    print 1", "end")},
			c05Edit{"type mismatch", insertBefore(i, "zq := \"s\"", "while zq", "    print 1", "end")},
			c05Edit{"type mismatch", insertBefore(i, "zq := [1 2]", "print zq[\"a\"]")},
			c05Edit{"type mismatch", insertBefore(i, "zq := [1 2]", "print zq[true:]")},
			c05Edit{"type mismatch", insertBefore(i, "zq := 1", "print zq[0]")},
			c05Edit{"type mismatch", insertBefore(i, "zq := 1", "print zq.a")},
			c05Edit{"type mismatch", insertBefore(i, "zq := 1", "print zq.(num)")},
			c05Edit{"type mismatch", insertBefore(i, "zq := true", "for zi := range zq", "    print zi", "end")},
			c05Edit{"type mismatch", insertBefore(i, "zq := \"s\"", "sleep zq")},
			c05Edit{"type mismatch", insertBefore(i, "zq:num", "zq = [1]", "print zq")},
			c05Edit{"type mismatch", insertBefore(i, "zq := [1]", "zq[0] = \"s\"", "print zq")},
			c05Edit{"type mismatch", insertBefore(i, "zq := {a:1}", "zq.b = true", "print zq")},
			c05Edit{"type mismatch", insertBefore(i, "for zi := range \"a\" 3", "    print zi", "end")},
			c05Edit{"type mismatch", insertBefore(i, "for zi := range 1 true", "    print zi", "end")},
			c05Edit{"type mismatch", insertBefore(i, "print (min (cls) 1)")},
			c05Edit{"type mismatch", insertBefore(i, "print (max 1 (cls))")},
			c05Edit{"type mismatch", insertBefore(i, "zq := [(cls)]", "print zq")},
			c05Edit{"type mismatch", insertBefore(i, "zq := {a:1 b:(cls)}", "print zq")},
			c05Edit{"type mismatch", insertBefore(i, "zq := (cls)", "print zq")},
			c05Edit{"type mismatch", insertBefore(i, "zq:any", "zq = (cls)", "print zq")},
			c05Edit{"redeclaration in the same scope", insertBefore(i, "err := true", "print err")},
			c05Edit{"redeclaration in the same scope", insertBefore(i, "errmsg := \"x\"", "print errmsg")},
			c05Edit{"redeclaration in the same scope", insertBefore(i, "zq := 1", "print zq", "zq:num", "print zq")},
			c05Edit{"wrong number of arguments", insertBefore(i, "for zi := range 1 2 3 4", "    print zi", "end")},
			c05Edit{"wrong number of arguments", insertBefore(i, "print (min 1)")},
			c05Edit{"wrong number of arguments", insertBefore(i, "print (min 1 2 3)")},
			c05Edit{"wrong number of arguments", insertBefore(i, "cls 1")},
			c05Edit{"wrong number of arguments", insertBefore(i, "print (len 1 2)")},
			c05Edit{"unknown function", insertBefore(i, "zqf 1")},
			c05Edit{"stray text after a statement", insertBefore(i, "zq := 1 )", "print zq")},
			c05Edit{"stray text after a statement", insertBefore(i, "if true then", "    print 1", "end")},
			c05Edit{"stray text after end", insertBefore(i, "if true", "    print 1", "end garbage here")},
			c05Edit{"stray text after a statement", insertBefore(i, "print 1 ) this is not evy")},
			c05Edit{"stray text after a statement", insertBefore(i, "print 1 ] 2")},
			c05Edit{"stray text after a statement", insertBefore(i, "zq := [1]", "zq[0] = 2 )", "print zq")},
			c05Edit{"stray text after a statement", insertBefore(i, "while false do", "    print 1", "end")},
			c05Edit{"stray text after a statement", insertBefore(i, "for zi := range 2 )", "    print zi", "end")},
			c05Edit{"stray text after a statement", insertBefore(i, "if true", "    print 1", "else x", "    print 2", "end")},
		)
		if !c.inLoop {
			out = append(out, c05Edit{"break outside a loop", insertBefore(i, "break")})
		}
		if c.inHandler || c.inProc || !c.inFunc {
			out = append(out, c05Edit{"value returned from a handler, procedure or the top level", insertBefore(i, "if zq0 > 5", "    return 1", "end")})
		}
	}
	// unreachable code, missing return
	t := texts()
	for i, l := range ls {
		tt := strings.TrimSpace(l.text)
		if strings.HasPrefix(tt, "return") || tt == "break" {
			pad := strings.Repeat("    ", l.depth)
			out = append(out, c05Edit{"unreachable code", join(append(append(append([]string{}, t[:i+1]...), pad+"print 1"), t[i+1:]...))})
			out = append(out, c05Edit{"unreachable code", join(append(append(append([]string{}, t[:i+1]...), pad+"// note", "", pad+"print 1"), t[i+1:]...))})
		}
		if strings.HasPrefix(tt, "return") && l.depth == 1 && l.inTypedFunc && i+1 < len(ls) && strings.TrimSpace(ls[i+1].text) == "end" {
			out = append(out, c05Edit{"missing return", join(append(append([]string{}, t[:i]...), append([]string{strings.Repeat("    ", l.depth) + "print 1"}, t[i+1:]...)...))})
		}
	}
	return out
}

// c05Bases: valid programs with effects, functions, handlers and loops.
func c05Bases() []string {
	return []string{
		"zq0 := 3\nprint \"start\" zq0\nfunc add:num a:num b:num\n    print \"add\"\n    return a + b\nend\nfunc show s:string\n    print s\n    if s == \"\"\n        return\n    end\n    print \"shown\"\nend\non key k:string\n    print k zq0\nend\nfor i := range 3\n    print i (add i 1)\n    if i > 1\n        break\n    end\nend\nwhile zq0 > 0\n    zq0 = zq0 - 1\n    show \"w\"\nend\nif zq0 == 0\n    print \"zero\"\nelse if zq0 > 5\n    print \"big\"\nelse\n    print \"other\"\nend\nsleep 0.001\nmove 1 1\ncircle 1\n",
		"zq0 := 1\nfunc fact:num n:num\n    if n < 2\n        return 1\n    else\n        return n * (fact n-1)\n    end\nend\nfunc greet\n    print \"hi\" zq0\nend\non down x:num y:num\n    print x y\n    greet\nend\ngreet\nprint (fact 4)\nm := {a:1}\nfor k := range m\n    print k m[k]\nend\ntext \"t\"\n",
	}
}

// RunC05 : termination analysis against the model; rule-breaking edits are rejected and nothing runs.
func RunC05(d *Driver) *Report {
	r := NewReport("C05")
	rng := Rng()
	// 1. the termination analysis: flags of every statement, real against model
	askTerms := func(src string) (real, model string, ok bool) {
		prog, perr, pp := ParseSrc(src)
		if prog == nil {
			return perr + pp, "", false
		}
		ser, err := SerProgram(prog)
		if err != nil {
			return err.Error(), "", false
		}
		ans, err := d.Ask("eval|terms=1|" + ser + "|||")
		if err != nil {
			panic(err)
		}
		return termFlags(prog), strings.TrimPrefix(ans, "TERMS "), true
	}
	nterm := 0
	nfn := 0
	checkTerms := func(stream, src string) {
		real, model, ok := askTerms(src)
		if !ok {
			return
		}
		nterm++
		r.Count("terms:"+src, true)
		if real != model {
			r.Disagree(Case{Stream: stream, Input: src, Real: real, Model: model, Note: "alwaysTerminates of every statement, parser against Model/Static.lean"})
		}
		// the hypotheses of C05.typed_function_returns_a_value hold of every typed function the parser accepts
		prog, _, _ := ParseSrc(src)
		ser, _ := SerProgram(prog)
		ans, err := d.Ask("eval|terms=2|" + ser + "|||")
		if err != nil {
			panic(err)
		}
		bits := strings.TrimPrefix(ans, "FNOK ")
		i := 0
		for _, n := range prog.Statements {
			fd, ok := n.(*parser.FuncDefStmt)
			if !ok {
				continue
			}
			if 2*i+1 < len(bits) && fd.ReturnType != nil && fd.ReturnType != parser.NONE_TYPE {
				nfn++
				if bits[2*i] != '1' || bits[2*i+1] != '1' {
					r.Violation(Case{Stream: stream + "/typed-function-hypotheses", Input: src, Real: "accepted", Model: "terminates,breaks-in-loops-and-returns-have-values=" + bits[2*i:2*i+2] + " for func " + fd.Name,
						Spec: "an accepted function with a return type always terminates, breaks only inside loops and returns only values"})
				}
			}
			i++
		}
	}
	bodies := c05Bodies()
	for _, b := range bodies {
		// B as the body of a typed function: accepted iff the model says the block terminates
		src := "a := 1\nfunc f:num\n" + indent(b, 1) + "end\nprint (f) a\n"
		// ... and with a trailing return, which yields the AST of B whenever B does not terminate
		src2 := "a := 1\nfunc f:num\n" + indent(b, 1) + "    return 0\nend\nprint (f) a\n"
		_, e1, p1 := ParseSrc(src)
		_, e2, p2 := ParseSrc(src2)
		r.Count("body:"+b, true)
		acc1, acc2 := e1 == "" && p1 == "", e2 == "" && p2 == ""
		r.Hist("typed-function-body", fmt.Sprintf("alone=%v with-return=%v", acc1, acc2))
		if acc1 == acc2 {
			r.Violation(Case{Stream: "missing-return/unreachable", Input: src, Real: fmt.Sprintf("body alone accepted=%v (%s); body followed by `return 0` accepted=%v (%s)", acc1, trunc(e1, 150), acc2, trunc(e2, 150)),
				Spec: "exactly one of the two is accepted: either the body always returns (then a further statement is unreachable) or it does not (then the return is missing)"})
			continue
		}
		good := src
		if acc2 {
			good = src2
		}
		real, model, ok := askTerms(good)
		if ok {
			nterm++
			if real != model {
				r.Disagree(Case{Stream: "termination-analysis", Input: good, Real: real, Model: model})
			}
			// the model's verdict on the body decides which variant had to be accepted
			prog, _, _ := ParseSrc(good)
			for _, n := range prog.Statements {
				if fd, ok := n.(*parser.FuncDefStmt); ok {
					nb := len(fd.Body.Statements)
					if acc2 {
						nb-- // without the appended return
					}
					terms := false
					for _, st := range fd.Body.Statements[:nb] {
						terms = terms || parser.VerifAlwaysTerminates(st)
					}
					if terms != acc1 {
						r.Violation(Case{Stream: "missing-return/unreachable", Input: src, Real: fmt.Sprintf("accepted=%v", acc1), Spec: fmt.Sprintf("accepted iff the body terminates (analysis says %v)", terms)})
					}
				}
			}
		}
	}
	o := GenOpts{Funcs: true, Any: true, Maps: true, Strings: true, Builtins: true, Tests: true}
	ngen := 150
	if Thorough() {
		ngen = 2000
	}
	for i := 0; i < ngen; i++ {
		checkTerms("termination-analysis", NewProgGen(rng, o).Program())
	}
	for _, f := range []string{"docs/spec.md", "docs/builtins.md"} {
		for _, ex := range DocExamples(f) {
			checkTerms("termination-analysis", ex[0])
		}
	}
	// 2. rule-breaking edits
	bin, berr := BuildEvy()
	dir, _ := os.MkdirTemp("", "verif-c05-")
	defer os.RemoveAll(dir)
	nedit, nbin := 0, 0
	binEvery := 23
	if Thorough() {
		binEvery = 5
	}
	for bi, base := range c05Bases() {
		if _, perr, pp := ParseSrc(base); perr != "" || pp != "" {
			r.Disagree(Case{Stream: "base", Input: base, Real: perr + pp, Note: "harness: base program must be valid"})
			continue
		}
		edits := c05Edits(base)
		if bi == 0 {
			edits = append(edits, c05ScopeEdits()...)
		}
		for _, e := range edits {
			nedit++
			r.Count("edit:"+e.src, true)
			r.Hist("rule", e.rule)
			o := parseGuard(e.src, 10*time.Second)
			if o.Hung || o.GoPanic != "" {
				r.Violation(Case{Stream: "edit:" + e.rule, Input: e.src, Real: fmt.Sprintf("hung=%v panic=%s", o.Hung, o.GoPanic), Spec: "rejected with a located error"})
				continue
			}
			if o.Accepted || len(o.Errs) == 0 {
				r.Violation(Case{Stream: "edit:" + e.rule, Input: e.src, Real: "accepted", Spec: "rejected with at least one located error (" + e.rule + ")", Known: c05Known(e)})
				continue
			}
			// nothing runs: the library entry point
			res, _, _ := RunReal(e.src, RunOpts{MaxYield: 3000, Events: nil})
			if len(res.Effects) > 0 || res.Out != "" {
				r.Violation(Case{Stream: "effects:" + e.rule, Input: e.src, Real: fmt.Sprintf("%d platform calls, output %q", len(res.Effects), trunc(res.Out, 100)), Spec: "a rejected program has no effect"})
			}
			// ... and `evy run`
			if berr == nil && (nedit+bi)%binEvery == 0 {
				nbin++
				path := filepath.Join(dir, "p.evy")
				os.WriteFile(path, []byte(e.src), 0o644) //nolint
				out := filepath.Join(dir, "out.svg")
				os.Remove(out)
				pr := runProc(20*time.Second, "typed\n", bin, "run", "--skip-sleep", path)
				if pr.Exit == 0 || pr.Stdout != "" || strings.TrimSpace(pr.Stderr) == "" {
					r.Violation(Case{Stream: "evy-run:" + e.rule, Input: e.src, Real: fmt.Sprintf("exit=%d stdout=%q stderr=%q", pr.Exit, trunc(pr.Stdout, 100), trunc(pr.Stderr, 200)), Spec: "non-zero exit status, nothing on stdout, the errors on stderr"})
				}
				// the other ways `evy run` reads a program: from stdin, as a member of a txtar archive, with an SVG output file
				if nbin%5 == 0 {
					pr2 := runProc(20*time.Second, e.src, bin, "run", "--skip-sleep", "-")
					ar := filepath.Join(dir, "p.txtar")
					os.WriteFile(ar, []byte("-- ok.evy --\nprint \"ok member\"\n-- p.evy --\n"+e.src), 0o644) //nolint
					pr3 := runProc(20*time.Second, "typed\n", bin, "run", "--skip-sleep", "--txtar", "p.evy", ar)
					pr4 := runProc(20*time.Second, "typed\n", bin, "run", "--skip-sleep", "--svg-out", out, path)
					for k, p := range []procResult{pr2, pr3, pr4} {
						if p.Exit == 0 || p.Stdout != "" || strings.TrimSpace(p.Stderr) == "" {
							r.Violation(Case{Stream: "evy-run:" + e.rule, Input: e.src, Real: fmt.Sprintf("%s: exit=%d stdout=%q stderr=%q", []string{"stdin", "txtar member", "with --svg-out"}[k], p.Exit, trunc(p.Stdout, 100), trunc(p.Stderr, 200)), Spec: "non-zero exit status, nothing on stdout, the errors on stderr"})
						}
					}
					if b, err := os.ReadFile(out); err == nil {
						r.Violation(Case{Stream: "evy-run:" + e.rule, Input: e.src, Real: "an SVG output file was written: " + trunc(string(b), 120), Spec: "a rejected program has no output and no drawing: evy run --svg-out FILE writes no file"})
					}
					os.Remove(out)
					// the drawing on stdout
					for k, args := range [][]string{{"run", "--skip-sleep", "--svg-out", "-", path}, {"run", "--skip-sleep", "--svg-out", "-", "--txtar", "p.evy", ar}, {"run", "--skip-sleep", "--svg-out", "-", "-"}} {
						p := runProc(20*time.Second, e.src, bin, args...)
						if p.Exit == 0 || p.Stdout != "" || strings.TrimSpace(p.Stderr) == "" {
							r.Violation(Case{Stream: "evy-run:" + e.rule, Input: e.src, Real: fmt.Sprintf("--svg-out - (%s): exit=%d stdout=%q stderr=%q", []string{"file", "txtar member", "stdin"}[k], p.Exit, trunc(p.Stdout, 100), trunc(p.Stderr, 200)), Spec: "non-zero exit status, nothing on stdout, the errors on stderr"})
						}
					}
				}
			}
		}
	}
	if berr != nil {
		r.Disagree(Case{Stream: "build", Input: "go build", Real: berr.Error()})
	}
	r.Rule = fmt.Sprintf("termination analysis: alwaysTerminates of every statement of %d accepted programs (%d constructed function bodies with every combination of returning / non-returning if, else-if, else branches, loops, nesting, comments and blank lines; generated programs; documentation examples) compared with Model/Static.lean; the hypotheses of typed_function_returns_a_value (terminates, breaks only in loops, returns carry values) evaluated by the model on each of the %d accepted typed functions; and for each constructed body exactly one of {body alone, body + return} must be accepted, as the analysis says. Rule-breaking edits: %d programs = 2 rich valid programs x every line position x 52 edits of 11 kinds (unused / undeclared variable, redeclaration, type mismatch, argument count, unknown function, stray text after a statement and after end, break outside a loop, value returned from handler / procedure / top level) + 120 constructed programs for block scoping (use after the block, in a sibling branch of every if chain position, in another function or handler, before the declaration), event handler parameter lists (every wrong type and count for every event), redeclared functions / handlers / parameters, argument and return types + unreachable code after every return / break (directly and after comment + blank line) + missing return; each must be rejected with a located error, produce no platform call and no output through the library entry point, and (%d of them) exit non-zero with empty stdout and errors on stderr through the rebuilt `evy run`. Non-trivial = distinct program", nterm, nfn, len(bodies), nedit, nbin)
	// the variable rules: the scope / use-mark model against the real parser
	nsc := 3000
	if Thorough() {
		nsc = 60000
	}
	nscope := scopeStream(r, d, rng, nsc)
	r.Rule += fmt.Sprintf("; variable rules: %d programs over five num variables (declarations, reads, assignments, if chains, while, for with and without loop variable, functions and handlers with parameters, shadowing, depth <= 3; built well scoped, half of them broken by one or two edits): accepted by the real parser iff Model/Scope.lean accepts them, and a program that model rejects breaks a variable rule by accepted_program_is_well_scoped", nscope)
	nctl := ctlStream(r, d, rng, nsc)
	r.Rule += fmt.Sprintf("; break and return: %d programs of nested branches and loops at top level, in functions with and without result type and in handlers, with break / return / return 1 closing a third of the blocks wherever they fall: accepted by the real parser iff Model/Ctl.lean accepts them (accepted_iff_control_well_placed)", nctl)
	r.DriverCalls = d.N
	return r
}

// c05ScopeEdits: a variable is visible only in its block: uses in a later sibling branch, after the
// block, in another function or handler, or before the declaration must be rejected.
func c05ScopeEdits() []c05Edit {
	var out []c05Edit
	add := func(rule, src string) { out = append(out, c05Edit{rule, src}) }
	blocks := [][2]string{
		{"if n > 0\n    zq := 1\n    print zq\nend\n", "if"},
		{"if n > 5\n    print 0\nelse if n > 0\n    zq := 1\n    print zq\nend\n", "else-if"},
		{"if n > 5\n    print 0\nelse\n    zq := 1\n    print zq\nend\n", "else"},
		{"while n > 0\n    zq := 1\n    print zq\n    n = n - 1\nend\n", "while"},
		{"for i := range 2\n    zq := i\n    print zq\nend\n", "for"},
		{"for zq := range 2\n    print zq\nend\n", "loop variable"},
	}
	for _, b := range blocks {
		add("undeclared variable (out of scope after "+b[1]+")", "n := 1\n"+b[0]+"print zq\n")
		add("undeclared variable (out of scope after "+b[1]+")", "n := 1\nfunc f\n"+indent(b[0], 1)+"    print zq\nend\nf\nprint n\n")
		add("undeclared variable (out of scope after "+b[1]+")", "n := 1\non key k:string\n"+indent(b[0], 1)+"    print zq k\nend\n")
	}
	// sibling branches of one if chain, in every order
	branches := []string{"if n > 5", "else if n > 3", "else if n > 1", "else"}
	for decl := 0; decl < len(branches); decl++ {
		for use := 0; use < len(branches); use++ {
			if use == decl {
				continue
			}
			src := "n := 1\n"
			for i, br := range branches {
				src += br + "\n"
				switch i {
				case decl:
					src += "    zq := 1\n    print zq\n"
				case use:
					src += "    print zq\n"
				default:
					src += "    print 0\n"
				}
			}
			src += "end\n"
			add("undeclared variable (declared in a sibling branch)", src)
			add("undeclared variable (declared in a sibling branch)", "func f n:num\n"+indent(strings.TrimPrefix(src, "n := 1\n"), 1)+"end\nf 1\n")
		}
	}
	add("undeclared variable (local of another function)", "func f\n    zq := 1\n    print zq\nend\nfunc g\n    print zq\nend\nf\ng\n")
	add("undeclared variable (parameter of another function)", "func f zq:num\n    print zq\nend\nf 1\nprint zq\n")
	add("undeclared variable (local of a handler)", "on key k:string\n    zq := k\n    print zq\nend\nprint zq\n")
	add("undeclared variable (used before its declaration)", "print zq\nzq := 1\nprint zq\n")
	add("undeclared variable (used in its own initialiser)", "zq := zq + 1\nprint zq\n")
	// event handler parameter lists
	handlers := map[string][]string{"key": {"string"}, "down": {"num", "num"}, "up": {"num", "num"}, "move": {"num", "num"}, "animate": {"num"}, "input": {"string", "string"}}
	for _, ev := range SortedKeys(handlers) {
		want := handlers[ev]
		for i := range want {
			for _, wrong := range []string{"any", "bool", "[]num", "{}any", map[string]string{"num": "string", "string": "num"}[want[i]]} {
				ps, us := "", ""
				for j, t := range want {
					if j == i {
						t = wrong
					}
					ps += fmt.Sprintf(" p%d:%s", j, t)
					us += fmt.Sprintf(" p%d", j)
				}
				add("type mismatch (event handler parameter)", "print 1\non "+ev+ps+"\n    print 2"+us+"\nend\n")
			}
		}
		extra, us := "", ""
		for j, t := range want {
			extra += fmt.Sprintf(" p%d:%s", j, t)
			us += fmt.Sprintf(" p%d", j)
		}
		add("wrong number of arguments (event handler parameters)", "print 1\non "+ev+extra+" q:num\n    print 2"+us+" q\nend\n")
		if len(want) > 1 {
			add("wrong number of arguments (event handler parameters)", "print 1\non "+ev+" p0:"+want[0]+"\n    print 2 p0\nend\n")
		}
	}
	add("unknown function (unknown event)", "print 1\non zqev\n    print 2\nend\n")
	add("redeclaration in the same scope (two handlers for one event)", "print 1\non key\n    print 2\nend\non key\n    print 3\nend\n")
	add("redeclaration in the same scope (a function named like a builtin variable)", "func err\n    print 2\nend\nprint 1\n")
	add("redeclaration in the same scope (a function named like a builtin function)", "func len:num a:any\n    return 1\nend\nprint (len 1)\n")
	add("redeclaration in the same scope (a parameter named like a builtin variable)", "func f errmsg:string\n    print errmsg\nend\nf \"a\"\n")
	add("redeclaration in the same scope (two functions of one name)", "print 1\nfunc f\n    print 2\nend\nfunc f\n    print 3\nend\nf\n")
	add("redeclaration in the same scope (parameter names)", "func f a:num a:num\n    print a\nend\nf 1 2\n")
	add("redeclaration in the same scope (parameter and local)", "func f a:num\n    a := 2\n    print a\nend\nf 1\n")
	add("wrong number of arguments", "func f a:num b:num\n    print a b\nend\nf 1\n")
	add("wrong number of arguments", "func f a:num b:num\n    print a b\nend\nf 1 2 3\n")
	add("wrong number of arguments", "func f\n    print 1\nend\nf 1\n")
	add("type mismatch (argument)", "func f a:num\n    print a\nend\nf \"s\"\n")
	add("type mismatch (variadic argument)", "func f a:num...\n    print a\nend\nf 1 \"s\"\n")
	add("type mismatch (return value)", "func f:num\n    return \"s\"\nend\nprint (f)\n")
	add("value returned from a procedure", "func f\n    return 1\nend\nf\n")
	add("missing return (bare return in a typed function)", "func f:num\n    return\nend\nprint (f)\n")
	// a function with a result type must return on EVERY path: one branch of an if / else-if / else chain (each position,
	// chains of 2-4 branches, also nested and inside loops) falls through
	for nb := 2; nb <= 4; nb++ {
		for miss := 0; miss < nb; miss++ {
			body := ""
			for b := 0; b < nb; b++ {
				switch {
				case b == 0:
					body += "    if a == 0\n"
				case b == nb-1:
					body += "    else\n"
				default:
					body += fmt.Sprintf("    else if a == %d\n", b)
				}
				if b == miss {
					body += "        print \"no return here\"\n"
				} else {
					body += fmt.Sprintf("        return %d\n", b)
				}
			}
			body += "    end\n"
			add(fmt.Sprintf("missing return (branch %d of %d falls through)", miss+1, nb), "func f:num a:num\n"+body+"end\nprint \"started\"\nprint (f 1) (f 0) (f 2) (f 9)\n")
			add(fmt.Sprintf("missing return (nested: branch %d of %d falls through)", miss+1, nb), "func f:num a:num\n    if a > 100\n        return 100\n    else\n"+indent(body, 1)+"    end\nend\nprint \"started\"\nprint (f 1)\n")
		}
	}
	add("missing return (if without else)", "func f:num a:num\n    if a == 0\n        return 0\n    else if a == 1\n        return 1\n    end\nend\nprint (f 1)\n")
	add("missing return (only inside a loop)", "func f:num a:num\n    for i := range a\n        return i\n    end\nend\nprint (f 1)\n")
	add("missing return (only inside a while)", "func f:num a:num\n    while a > 0\n        return a\n    end\nend\nprint (f 1)\n")
	add("unused variable (parameter is fine, local is not)", "func f a:num\n    b := a\nend\nf 1\n")
	return out
}

func c05Known(e c05Edit) string {
	return ""
}
