package hx

import (
	"fmt"
	"math/rand"
	"strings"
	"time"

	"evylang.dev/evy/pkg/parser"
)

// The block-structure model (lean/EvyV/Model/Blocks.lean, Props/Blocks.lean) against the real parser and
// formatter: random well-nested programs at the level of lines, and the same with one or two lines deleted,
// inserted or exchanged; the source is indented at random. Accepted / rejected alike; for accepted programs the
// skeleton of the real syntax tree is the model's tree and the indentation of every line of the formatted text
// is four spaces times the model's block level.

type blkGen struct {
	rng *rand.Rand
}

func (g *blkGen) block(depth int) []string {
	n := 1 + g.rng.Intn(3)
	var out []string
	for i := 0; i < n; i++ {
		out = append(out, g.stmt(depth)...)
	}
	return out
}

func (g *blkGen) stmt(depth int) []string {
	k := g.rng.Intn(10)
	if depth <= 0 && k >= 4 {
		k = g.rng.Intn(4)
	}
	switch {
	case k < 3:
		return []string{"s"}
	case k == 3:
		return []string{"b"}
	case k == 4 || k == 5:
		out := append([]string{"if"}, g.block(depth-1)...)
		for i := g.rng.Intn(3); i > 0; i-- {
			out = append(append(out, "elif"), g.block(depth-1)...)
		}
		if g.rng.Intn(2) == 0 {
			out = append(append(out, "else"), g.block(depth-1)...)
		}
		return append(out, "end")
	case k == 6 || k == 7:
		return append(append([]string{"while"}, g.block(depth-1)...), "end")
	default:
		return append(append([]string{"for"}, g.block(depth-1)...), "end")
	}
}

func (g *blkGen) program() []string {
	var out []string
	for i, n := 0, 1+g.rng.Intn(4); i < n; i++ {
		switch g.rng.Intn(5) {
		case 0:
			out = append(append(append(out, "func"), g.block(2)...), "end")
		case 1:
			out = append(append(append(out, "on"), g.block(2)...), "end")
		default:
			out = append(out, g.stmt(3)...)
		}
	}
	return out
}

func (g *blkGen) mutate(ls []string) []string {
	kinds := []string{"s", "b", "if", "elif", "else", "while", "for", "func", "on", "end"}
	out := append([]string{}, ls...)
	for m := 1 + g.rng.Intn(2); m > 0 && len(out) > 0; m-- {
		i := g.rng.Intn(len(out))
		switch g.rng.Intn(3) {
		case 0:
			out = append(out[:i], out[i+1:]...)
		case 1:
			out = append(out[:i], append([]string{kinds[g.rng.Intn(len(kinds))]}, out[i:]...)...)
		default:
			j := g.rng.Intn(len(out))
			out[i], out[j] = out[j], out[i]
		}
	}
	return out
}

// blkText: the program text of a line-kind sequence, indented at random; ok=false when it needs more handlers than there are events
func blkText(rng *rand.Rand, ls []string) (string, bool) {
	events := []string{"key", "down", "up", "move", "input", "animate"}
	nf, ne := 0, 0
	var b strings.Builder
	for i, l := range ls {
		b.WriteString(strings.Repeat(" ", rng.Intn(9)))
		switch l {
		case "s":
			fmt.Fprintf(&b, "print %d", i)
		case "b":
			fmt.Fprintf(&b, "// c%d", i)
		case "if":
			b.WriteString("if true")
		case "elif":
			b.WriteString("else if true")
		case "else":
			b.WriteString("else")
		case "while":
			b.WriteString("while false")
		case "for":
			b.WriteString("for range 1")
		case "func":
			fmt.Fprintf(&b, "func f%d", nf)
			nf++
		case "on":
			if ne >= len(events) {
				return "", false
			}
			b.WriteString("on " + events[ne])
			ne++
		case "end":
			b.WriteString("end")
		}
		b.WriteString("\n")
	}
	return b.String(), true
}

func blkRenderBlock(bl *parser.BlockStatement) string {
	var parts []string
	for _, st := range bl.Statements {
		parts = append(parts, blkRenderStmt(st))
	}
	return strings.Join(append(parts, "."), " ")
}

func blkRenderStmt(n parser.Node) string {
	switch n := n.(type) {
	case *parser.EmptyStmt:
		return "b"
	case *parser.IfStmt:
		s := "(if " + blkRenderBlock(n.IfBlock.Block)
		for _, e := range n.ElseIfBlocks {
			s += " elif " + blkRenderBlock(e.Block)
		}
		if n.Else != nil {
			s += " else " + blkRenderBlock(n.Else)
		}
		return s + ")"
	case *parser.WhileStmt:
		return "(while " + blkRenderBlock(n.Block) + ")"
	case *parser.ForStmt:
		return "(for " + blkRenderBlock(n.Block) + ")"
	case *parser.FuncDefStmt:
		return "(func " + blkRenderBlock(n.Body) + ")"
	case *parser.EventHandlerStmt:
		return "(on " + blkRenderBlock(n.Body) + ")"
	}
	return "s"
}

// blocksStream runs n line-level programs; property is the id the violations are reported under by the caller's report
func blocksStream(r *Report, d *Driver, rng *rand.Rand, n int) int {
	g := &blkGen{rng: rng}
	done := 0
	for i := 0; i < n; i++ {
		ls := g.program()
		if i%2 == 1 {
			ls = g.mutate(ls)
		}
		src, ok := blkText(rng, ls)
		if !ok {
			continue
		}
		ans, err := d.Ask("blocks " + strings.Join(ls, " "))
		if err != nil {
			panic(err)
		}
		o := parseGuard(src, 10*time.Second)
		if o.Hung || o.GoPanic != "" {
			r.Violation(Case{Stream: "blocks", Input: src, Real: fmt.Sprintf("hung=%v panic=%s", o.Hung, o.GoPanic), Spec: "parsing terminates and does not crash"})
			continue
		}
		done++
		r.Count("blocks:"+strings.Join(ls, " "), len(ls) > 2)
		if !o.Accepted {
			r.Hist("blocks", "rejected")
			if ans != "NONE" {
				r.Disagree(Case{Stream: "blocks-model", Input: src, Real: "rejected: " + trunc(o.Raw, 300), Model: ans, Note: "line kinds: " + strings.Join(ls, " ")})
			}
			continue
		}
		r.Hist("blocks", "accepted")
		prog, _, _ := ParseSrc(src)
		var parts []string
		for _, st := range prog.Statements {
			parts = append(parts, blkRenderStmt(st))
		}
		// indentation of the formatted text, blank lines (which the formatter inserts around definitions) left out
		var ind []string
		for _, l := range strings.Split(prog.Format(), "\n") {
			if strings.TrimSpace(l) == "" {
				continue
			}
			sp := len(l) - len(strings.TrimLeft(l, " "))
			if sp%4 != 0 || strings.TrimRight(l, " \t") != l {
				r.Violation(Case{Stream: "blocks-indent", Input: src, Real: fmt.Sprintf("%q", l), Spec: "indented by four spaces per block level, no trailing whitespace"})
			}
			ind = append(ind, fmt.Sprint(sp/4))
		}
		real := "TREE " + strings.Join(parts, " ") + " | INDENT " + strings.Join(ind, " ")
		if ans != real {
			r.Disagree(Case{Stream: "blocks-model", Input: src, Real: real, Model: ans, Note: "syntax tree skeleton and indentation of the formatted text against Model/Blocks.lean; line kinds: " + strings.Join(ls, " ")})
		}
	}
	return done
}
