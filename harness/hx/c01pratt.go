package hx

import (
	"fmt"
	"math/rand"
	"strings"

	"evylang.dev/evy/pkg/lexer"
	"evylang.dev/evy/pkg/parser"
)

// The Pratt parser model (lean/EvyV/Model/Pratt.lean) against the real parser: random typed
// expression texts in which parentheses are placed AT RANDOM (so the reading is decided by the
// binding powers, not by the generator); the real tree and the model's tree for the same token
// kinds must be the same.

const prattPrelude = "n1 := 2\nn2 := 3\nb1 := true\ns1 := \"abc\"\narr := [1 2 3]\narr2 := [[1 2] [3]]\nmp := {k:1 j:2}\nya:any\nya = 5\nyb:any\nyb = \"s\"\n"
const prattUses = "print n1 n2 b1 s1 arr arr2 mp ya yb x\n"

// prattPostfix adds slices, field access and type assertions to the generated expressions
var prattPostfix = false

func prattAtom(rng *rand.Rand, ty string) string {
	switch ty {
	case "num":
		return []string{"n1", "n2", "3", "0.5", "n1", "7"}[rng.Intn(6)]
	case "bool":
		return []string{"b1", "true", "false"}[rng.Intn(3)]
	case "str":
		return []string{"s1", "\"x\"", "\"\""}[rng.Intn(3)]
	}
	return "arr"
}

// maybe parenthesise
func prattMaybe(rng *rand.Rand, s string, prob int) string {
	if rng.Intn(100) < prob {
		return "(" + s + ")"
	}
	return s
}

func prattGen(rng *rand.Rand, ty string, d int) string {
	if d <= 0 || rng.Intn(6) == 0 {
		return prattAtom(rng, ty)
	}
	sub := func(t string) string { return prattMaybe(rng, prattGen(rng, t, d-1), 30) }
	sp := func(op string) string {
		if rng.Intn(4) == 0 && op != "and" && op != "or" {
			return op
		}
		return " " + op + " "
	}
	if prattPostfix && rng.Intn(5) == 0 {
		switch ty {
		case "num":
			return []string{"mp.k", "mp[\"j\"]", "ya.(num)", "arr[1:][0]", "arr[:2][" + prattGen(rng, "num", d-1) + "]", "arr2[0][n1:][0]", "(arr + arr)[" + prattGen(rng, "num", d-1) + ":][0]"}[rng.Intn(7)]
		case "str":
			return []string{"s1[1:]", "s1[:" + prattGen(rng, "num", d-1) + "]", "yb.(string)", "s1[n1:n2]", "(s1 + s1)[1:][0]"}[rng.Intn(5)]
		case "arrx":
			return []string{"arr[1:]", "arr[:]", "arr2[0][:1]", "(arr[:2])"}[rng.Intn(4)]
		}
	}
	switch ty {
	case "num":
		switch rng.Intn(8) {
		case 0, 1, 2, 3:
			op := []string{"+", "-", "*", "/", "%"}[rng.Intn(5)]
			return sub("num") + sp(op) + sub("num")
		case 4, 5:
			return "-" + sub("num")
		case 6:
			return prattGen(rng, "arrx", d-1) + "[" + prattGen(rng, "num", d-1) + "]"
		default:
			return "(" + prattGen(rng, "num", d-1) + ")"
		}
	case "arrx": // something indexable that yields num
		switch rng.Intn(4) {
		case 0:
			return "(arr + arr)"
		case 1:
			return "arr2[" + prattGen(rng, "num", d-1) + "]"
		case 2:
			return "(arr)"
		default:
			return "arr"
		}
	case "bool":
		switch rng.Intn(9) {
		case 0, 1, 2:
			op := []string{"and", "or"}[rng.Intn(2)]
			return sub("bool") + sp(op) + sub("bool")
		case 3, 4:
			op := []string{"<", ">", "<=", ">="}[rng.Intn(4)]
			t := []string{"num", "num", "str"}[rng.Intn(3)]
			return sub(t) + sp(op) + sub(t)
		case 5, 6:
			op := []string{"==", "!="}[rng.Intn(2)]
			t := []string{"num", "bool", "str"}[rng.Intn(3)]
			return sub(t) + sp(op) + sub(t)
		case 7:
			return "!" + sub("bool")
		default:
			return "(" + prattGen(rng, "bool", d-1) + ")"
		}
	case "str":
		switch rng.Intn(5) {
		case 0, 1, 2:
			return sub("str") + sp("+") + sub("str")
		case 3:
			return []string{"s1", "(s1 + s1)", "\"xyz\""}[rng.Intn(3)] + "[" + prattGen(rng, "num", d-1) + "]"
		default:
			return "(" + prattGen(rng, "str", d-1) + ")"
		}
	}
	return prattAtom(rng, ty)
}

// prattKinds: the token type names of an expression text, operands as `a`, whitespace dropped.
func prattKinds(expr string) (string, bool) {
	k, ok := prattKindsRaw(expr)
	if !ok {
		return "", false
	}
	// a type assertion `.( type )`: the type's tokens become one `ty`
	ws := strings.Fields(k)
	var out []string
	for i := 0; i < len(ws); i++ {
		out = append(out, ws[i])
		if ws[i] == "DOT" && i+1 < len(ws) && ws[i+1] == "LPAREN" {
			depth, j := 0, i+1
			for ; j < len(ws); j++ {
				if ws[j] == "LPAREN" {
					depth++
				}
				if ws[j] == "RPAREN" {
					depth--
					if depth == 0 {
						break
					}
				}
			}
			out = append(out, "LPAREN", "ty", "RPAREN")
			i = j
		}
	}
	return strings.Join(out, " "), true
}

func prattKindsRaw(expr string) (string, bool) {
	l := lexer.New(expr)
	var out []string
	for i := 0; i < len(expr)+5; i++ {
		t := l.Next()
		switch t.Type {
		case lexer.EOF:
			return strings.Join(out, " "), true
		case lexer.WS:
			continue
		case lexer.IDENT, lexer.NUM_LIT, lexer.STRING_LIT, lexer.TRUE, lexer.FALSE:
			out = append(out, "a")
		case lexer.ILLEGAL, lexer.NL, lexer.COMMENT:
			return "", false
		case lexer.OR:
			out = append(out, "OR")
		case lexer.AND:
			out = append(out, "AND")
		default:
			out = append(out, lexNames[t.Type])
		}
	}
	return "", false
}

// prattRender: the real tree in the notation of Driver/PrattDrv.lean.
func prattRender(n parser.Node) string {
	switch n := n.(type) {
	case *parser.BinaryExpression:
		return "(" + prattRender(n.Left) + " " + n.Op.String() + " " + prattRender(n.Right) + ")"
	case *parser.UnaryExpression:
		return "(" + n.Op.String() + prattRender(n.Right) + ")"
	case *parser.GroupExpression:
		return "(G " + prattRender(n.Expr) + ")"
	case *parser.IndexExpression:
		return "(" + prattRender(n.Left) + " [ " + prattRender(n.Index) + " ])"
	case *parser.SliceExpression:
		a, b := "", ""
		if n.Start != nil && !isNilNode(n.Start) {
			a = prattRender(n.Start) + " "
		}
		if n.End != nil && !isNilNode(n.End) {
			b = prattRender(n.End) + " "
		}
		return "(" + prattRender(n.Left) + " [ " + a + ": " + b + "])"
	case *parser.DotExpression:
		return "(" + prattRender(n.Left) + " . a)"
	case *parser.TypeAssertion:
		return "(" + prattRender(n.Left) + " .( ty ))"
	case *parser.Any:
		return prattRender(n.Value)
	}
	return "a"
}

func c01Pratt(r *Report, d *Driver, rng *rand.Rand, n int) int {
	done := 0
	prattPostfix = true
	defer func() { prattPostfix = false }()
	for i := 0; i < n; i++ {
		ty := []string{"num", "bool", "str", "num", "bool"}[rng.Intn(5)]
		expr := prattGen(rng, ty, 1+rng.Intn(6))
		src := prattPrelude + "x := " + expr + "\n" + prattUses
		prog, _, _ := ParseSrc(src)
		if prog == nil {
			r.Hist("pratt", "rejected (ill-typed reading)")
			continue
		}
		var val parser.Node
		for _, st := range prog.Statements {
			if dcl, ok := st.(*parser.InferredDeclStmt); ok && dcl.Decl.Var.Name == "x" {
				val = dcl.Decl.Value
			}
		}
		kinds, ok := prattKinds(expr)
		if val == nil || !ok {
			continue
		}
		ans, err := d.Ask("pratt " + kinds)
		if err != nil {
			panic(err)
		}
		real := "TREE 0 " + prattRender(val)
		done++
		r.Count("pratt:"+expr, strings.Count(kinds, " ") >= 2)
		r.Hist("pratt", fmt.Sprintf("tokens<=%d", 10*(1+strings.Count(kinds, " ")/10)))
		if ans != real {
			r.Disagree(Case{Stream: "pratt-model", Input: src, Real: real, Model: ans, Note: "tree of the real parser against Model/Pratt.lean on the token kinds " + kinds})
		}
	}
	return done
}
