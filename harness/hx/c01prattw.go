package hx

import (
	"fmt"
	"math/rand"
	"strings"

	"evylang.dev/evy/pkg/lexer"
	"evylang.dev/evy/pkg/parser"
)

// The Pratt parser model WITH WHITESPACE (lean/EvyV/Model/PrattW.lean) against the real parser: the
// typed random-parenthesis expressions of c01pratt.go, re-laid-out at random (a space added or removed
// at every token boundary where that is lexically possible), put (a) after `x :=` (not whitespace
// sensitive), (b) after `print` (arguments), (c) inside `[ ]` (array elements). Accept / reject and the
// trees (of every argument / element) must be the model's. A rejection by the real parser that
// consists of type errors only is not compared: the model has no types.

type wtok struct {
	ws   bool
	kind string // name for the driver
	text string
	word bool // identifier, keyword or number: must stay separated from another word
}

func prattLexW(expr string) ([]wtok, bool) {
	l := lexer.New(expr)
	var out []wtok
	ws := false
	for i := 0; i < len(expr)+5; i++ {
		t := l.Next()
		switch t.Type {
		case lexer.EOF:
			return out, true
		case lexer.WS:
			ws = true
			continue
		case lexer.ILLEGAL, lexer.NL, lexer.COMMENT:
			return nil, false
		}
		k := ""
		word := false
		text := t.Literal
		switch t.Type {
		case lexer.IDENT, lexer.NUM_LIT, lexer.TRUE, lexer.FALSE:
			k, word = "a", true
			if t.Type == lexer.TRUE {
				text = "true"
			} else if t.Type == lexer.FALSE {
				text = "false"
			}
		case lexer.STRING_LIT:
			k = "a"
			text = "\"" + t.Literal + "\""
		case lexer.OR:
			k, word, text = "OR", true, "or"
		case lexer.AND:
			k, word, text = "AND", true, "and"
		case lexer.NUM:
			k, word, text = "kw", true, "num"
		case lexer.STRING:
			k, word, text = "kw", true, "string"
		case lexer.BOOL:
			k, word, text = "kw", true, "bool"
		case lexer.ANY:
			k, word, text = "kw", true, "any"
		default:
			k = lexNames[t.Type]
			text = t.Format()
			text = strings.Trim(text, "\"")
		}
		out = append(out, wtok{ws: ws, kind: k, text: text, word: word})
		ws = false
	}
	return nil, false
}

// relayout: a new whitespace flag for every token boundary
func prattRelayout(rng *rand.Rand, toks []wtok) []wtok {
	out := make([]wtok, len(toks))
	copy(out, toks)
	for i := 1; i < len(out); i++ {
		switch rng.Intn(4) {
		case 0:
			out[i].ws = true
		case 1:
			if !(out[i-1].word && out[i].word) {
				out[i].ws = false
			}
		}
	}
	out[0].ws = false
	return out
}

func prattTextW(toks []wtok) string {
	var b strings.Builder
	for _, t := range toks {
		if t.ws {
			b.WriteByte(' ')
		}
		b.WriteString(t.text)
	}
	return b.String()
}

// the request tokens: `.( type )` collapsed to `LPAREN ty RPAREN` as in prattKinds
func prattWire(toks []wtok) string {
	var out []string
	name := func(t wtok, k string) string {
		if t.ws {
			return "_" + k
		}
		return k
	}
	for i := 0; i < len(toks); i++ {
		t := toks[i]
		out = append(out, name(t, t.kind))
		if t.kind == "DOT" && i+1 < len(toks) && toks[i+1].kind == "LPAREN" {
			depth, j := 0, i+1
			for ; j < len(toks); j++ {
				if toks[j].kind == "LPAREN" {
					depth++
				}
				if toks[j].kind == "RPAREN" {
					depth--
					if depth == 0 {
						break
					}
				}
			}
			out = append(out, name(toks[i+1], "LPAREN"), "ty", "RPAREN")
			i = j
		}
	}
	return strings.Join(out, " ")
}

// prattLiteralStart: a `[` with whitespace before it outside all parentheses and brackets
func prattLiteralStart(toks []wtok) bool {
	depth := 0
	for _, t := range toks {
		switch t.kind {
		case "LBRACKET":
			if depth == 0 && t.ws {
				return true
			}
			depth++
		case "LPAREN":
			depth++
		case "RBRACKET", "RPAREN":
			depth--
		}
	}
	return false
}

func onlyTypeErrors(errText string) bool {
	for _, line := range strings.Split(strings.TrimSpace(errText), "\n") {
		if line == "" {
			continue
		}
		if strings.Contains(line, "unexpected") || strings.Contains(line, "expected ") || strings.Contains(line, "invalid") {
			return false
		}
	}
	return true
}

func c01PrattW(r *Report, d *Driver, rng *rand.Rand, n int) int {
	done := 0
	prattPostfix = true
	defer func() { prattPostfix = false }()
	for i := 0; i < n; i++ {
		ty := []string{"num", "bool", "str", "num", "bool"}[rng.Intn(5)]
		expr := prattGen(rng, ty, 1+rng.Intn(5))
		toks, ok := prattLexW(expr)
		if !ok || len(toks) == 0 {
			continue
		}
		toks = prattRelayout(rng, toks)
		text := prattTextW(toks)
		// the text must lex back to the same tokens with the same flags (no accidental merge)
		if back, ok := prattLexW(text); !ok || prattWire(back) != prattWire(toks) {
			r.Hist("prattw", "layout not lexically stable")
			continue
		}
		ctx := rng.Intn(3)
		if ctx != 0 && prattLiteralStart(toks) {
			// whitespace before a top-level `[` in an argument list starts an array literal, which the
			// model does not have (operands are atoms); that case is the whitespace-separation stream's
			r.Hist("prattw", "array literal as next argument (not compared)")
			continue
		}
		var src, req string
		switch ctx {
		case 0:
			src = prattPrelude + "x := " + text + "\n" + prattUses
			req = "prattw 0 " + prattWire(toks)
		case 1:
			src = prattPrelude + "x := 0\nprint " + text + "\n" + prattUses
			req = "prattw args " + prattWire(toks)
		default:
			src = prattPrelude + "x := [" + text + "]\n" + prattUses
			req = "prattw args " + prattWire(toks) + " RBRACKET"
		}
		ans, err := d.Ask(req)
		if err != nil {
			panic(err)
		}
		prog, errText, gp := ParseSrc(src)
		if gp != "" {
			r.Violation(Case{Stream: "prattw-crash", Input: src, Real: "Go panic: " + gp, Spec: "the parser never crashes"})
			continue
		}
		ctxName := []string{"decl", "args", "elements"}[ctx]
		if prog == nil {
			if ans == "NONE" {
				done++
				r.Hist("prattw", ctxName+": rejected by both")
				r.Count("prattw-reject:"+text, true)
				continue
			}
			if onlyTypeErrors(errText) {
				r.Hist("prattw", ctxName+": ill-typed reading (not compared)")
				continue
			}
			r.Disagree(Case{Stream: "prattw-model", Input: src, Real: "rejected: " + errText, Model: ans, Note: "layout accepted by Model/PrattW.lean, request " + req})
			continue
		}
		real := ""
		for _, st := range prog.Statements {
			switch ctx {
			case 0:
				if dcl, ok := st.(*parser.InferredDeclStmt); ok && dcl.Decl.Var.Name == "x" {
					real = "TREE 0 " + prattRender(dcl.Decl.Value)
				}
			case 1:
				if fc, ok := st.(*parser.FuncCallStmt); ok && real == "" {
					var parts []string
					for _, a := range fc.FuncCall.Arguments {
						parts = append(parts, prattRender(a))
					}
					real = "ARGS " + strings.Join(parts, " | ")
				}
			default:
				if dcl, ok := st.(*parser.InferredDeclStmt); ok && dcl.Decl.Var.Name == "x" {
					if al, ok := dcl.Decl.Value.(*parser.ArrayLiteral); ok {
						var parts []string
						for _, a := range al.Elements {
							parts = append(parts, prattRender(a))
						}
						real = "ARGS " + strings.Join(parts, " | ")
					}
				}
			}
		}
		done++
		r.Count("prattw:"+text, strings.Contains(text, " "))
		r.Hist("prattw", fmt.Sprintf("%s: accepted, tokens<=%d", ctxName, 10*(1+len(toks)/10)))
		if ans != real {
			r.Disagree(Case{Stream: "prattw-model", Input: src, Real: real, Model: ans, Note: "real parser against Model/PrattW.lean, request " + req})
		}
	}
	return done
}
