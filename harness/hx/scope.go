package hx

import (
	"fmt"
	"math/rand"
	"strings"
)

// The scope / use-mark model (lean/EvyV/Model/Scope.lean, Props/C05Scope.lean) against the real parser: random
// programs over five num variables — declarations (inferred and typed), statements that read and assign,
// if / else-if / else chains, while, for with and without loop variable, functions with parameters and event
// handlers with parameters, nested up to depth 3, with shadowing — built well scoped, and half of them then
// broken by one or two edits (a statement deleted, duplicated, moved out of or into a block, a name replaced).
// The real parser accepts a program iff the model's bookkeeping does; by accepted_program_is_well_scoped a program
// the model rejects breaks a variable rule, so a program the model rejects and the parser accepts is reported as
// a violation with the program as the failing input.

type scN struct {
	kind   string // use, assign, decl, typed, if, while, for, func, on
	x      int    // decl: the declared name; assign: the target
	us     []int  // names read
	ds     []int  // loop variable / parameters
	body   []*scN
	chain  []*scN // if: the branches, each a node of kind "branch" (us = condition names; ds[0] = 1 for else)
	isElse bool
}

var scNames = []string{"a", "b", "c", "_d", "e_1"} // `_d` is an ordinary name: only `_` alone is the anonymous variable

type scGen struct {
	rng   *rand.Rand
	stack []map[int]bool // generator's own view: name -> used, innermost last
	nfunc int
	nev   int
}

func (g *scGen) visible() []int {
	seen := map[int]bool{}
	var out []int
	for i := len(g.stack) - 1; i >= 0; i-- {
		for n := range g.stack[i] {
			if !seen[n] {
				seen[n] = true
				out = append(out, n)
			}
		}
	}
	// deterministic order
	for i := 0; i < len(out); i++ {
		for j := i + 1; j < len(out); j++ {
			if out[j] < out[i] {
				out[i], out[j] = out[j], out[i]
			}
		}
	}
	return out
}

func (g *scGen) use(n int) {
	for i := len(g.stack) - 1; i >= 0; i-- {
		if _, ok := g.stack[i][n]; ok {
			g.stack[i][n] = true
			return
		}
	}
}

func (g *scGen) pick(k int) []int {
	vis := g.visible()
	var out []int
	for i := 0; i < k && len(vis) > 0; i++ {
		n := vis[g.rng.Intn(len(vis))]
		out = append(out, n)
		g.use(n)
	}
	return out
}

func (g *scGen) fresh() (int, bool) {
	top := g.stack[len(g.stack)-1]
	var free []int
	for n := range scNames {
		if _, ok := top[n]; !ok {
			free = append(free, n)
		}
	}
	if len(free) == 0 {
		return 0, false
	}
	return free[g.rng.Intn(len(free))], true
}

// closeScope emits a statement using every variable of the innermost scope that has not been used
func (g *scGen) closeScope(body []*scN) []*scN {
	top := g.stack[len(g.stack)-1]
	var un []int
	for n := range scNames {
		if used, ok := top[n]; ok && !used {
			un = append(un, n)
		}
	}
	if len(un) > 0 || len(body) == 0 {
		body = append(body, &scN{kind: "use", us: un})
	}
	g.stack = g.stack[:len(g.stack)-1]
	return body
}

func (g *scGen) scoped(ds []int, depth int) []*scN {
	g.stack = append(g.stack, map[int]bool{})
	for _, d := range ds {
		g.stack[len(g.stack)-1][d] = false
	}
	var body []*scN
	for i, n := 0, 1+g.rng.Intn(3); i < n; i++ {
		body = append(body, g.stmt(depth))
	}
	return g.closeScope(body)
}

func (g *scGen) stmt(depth int) *scN {
	k := g.rng.Intn(12)
	if depth <= 0 && k >= 7 {
		k = g.rng.Intn(7)
	}
	switch {
	case k < 2:
		return &scN{kind: "use", us: g.pick(g.rng.Intn(3))}
	case k == 2:
		vis := g.visible()
		if len(vis) == 0 {
			return &scN{kind: "use"}
		}
		t := vis[g.rng.Intn(len(vis))]
		us := g.pick(g.rng.Intn(2))
		g.use(t)
		return &scN{kind: "assign", x: t, us: us}
	case k < 6:
		us := g.pick(g.rng.Intn(3))
		x, ok := g.fresh()
		if !ok {
			return &scN{kind: "use", us: us}
		}
		g.stack[len(g.stack)-1][x] = false
		return &scN{kind: "decl", x: x, us: us}
	case k == 6:
		x, ok := g.fresh()
		if !ok {
			return &scN{kind: "use"}
		}
		g.stack[len(g.stack)-1][x] = false
		return &scN{kind: "typed", x: x}
	case k < 9:
		n := &scN{kind: "if"}
		nb := 1 + g.rng.Intn(3)
		for i := 0; i < nb; i++ {
			br := &scN{kind: "branch"}
			if i > 0 && i == nb-1 && g.rng.Intn(2) == 0 {
				br.isElse = true
			} else {
				br.us = g.pick(g.rng.Intn(3))
			}
			br.body = g.scoped(nil, depth-1)
			n.chain = append(n.chain, br)
		}
		return n
	case k == 9:
		us := g.pick(g.rng.Intn(3))
		return &scN{kind: "while", us: us, body: g.scoped(nil, depth-1)}
	default:
		us := g.pick(g.rng.Intn(3))
		n := &scN{kind: "for", us: us}
		if g.rng.Intn(3) > 0 {
			// the loop variable has no type yet while the range is read: a built program does not mention it there
			for {
				v := g.rng.Intn(len(scNames))
				if !(len(us) > 0 && us[0] == v) && !(len(us) > 1 && us[1] == v) {
					n.ds = []int{v}
					break
				}
			}
		}
		n.body = g.scoped(n.ds, depth-1)
		return n
	}
}

func (g *scGen) program() []*scN {
	g.stack = []map[int]bool{{}}
	g.nfunc, g.nev = 0, 0
	var out []*scN
	for i, n := 0, 2+g.rng.Intn(4); i < n; i++ {
		switch k := g.rng.Intn(7); {
		case k == 0:
			n := &scN{kind: "func"}
			perm := g.rng.Perm(len(scNames))
			n.ds = perm[:g.rng.Intn(3)]
			n.body = g.scoped(n.ds, 2)
			out = append(out, n)
		case k == 1 && g.nev < 3:
			g.nev++
			n := &scN{kind: "on"}
			if g.rng.Intn(2) == 0 {
				perm := g.rng.Perm(len(scNames))
				n.ds = perm[:2]
			}
			n.body = g.scoped(n.ds, 2)
			out = append(out, n)
		default:
			out = append(out, g.stmt(3))
		}
	}
	return g.closeScope(out)
}

// --- edits

func scClone(ns []*scN) []*scN {
	var out []*scN
	for _, n := range ns {
		c := *n
		c.us = append([]int{}, n.us...)
		c.ds = append([]int{}, n.ds...)
		c.body = scClone(n.body)
		c.chain = scClone(n.chain)
		out = append(out, &c)
	}
	return out
}

// scBlocks lists pointers to every statement list of the program (the program itself first)
func scBlocks(p *[]*scN, out *[]*[]*scN) {
	*out = append(*out, p)
	for _, n := range *p {
		if n.kind == "if" {
			for _, br := range n.chain {
				scBlocks(&br.body, out)
			}
		} else if n.body != nil {
			scBlocks(&n.body, out)
		}
	}
}

func scSimple(n *scN) bool {
	return n.kind == "use" || n.kind == "assign" || n.kind == "decl" || n.kind == "typed"
}

func (g *scGen) mutate(prog []*scN) []*scN {
	p := scClone(prog)
	for m := 1 + g.rng.Intn(2); m > 0; m-- {
		var blocks []*[]*scN
		scBlocks(&p, &blocks)
		b := blocks[g.rng.Intn(len(blocks))]
		i := g.rng.Intn(len(*b))
		st := (*b)[i]
		switch g.rng.Intn(6) {
		case 0: // delete a statement (never the only one of its block)
			if len(*b) > 1 {
				*b = append((*b)[:i:i], (*b)[i+1:]...)
			}
		case 1: // duplicate a simple statement
			if scSimple(st) {
				c := scClone([]*scN{st})[0]
				*b = append((*b)[:i+1:i+1], append([]*scN{c}, (*b)[i+1:]...)...)
			}
		case 2: // replace a name
			nn := g.rng.Intn(len(scNames))
			switch {
			case len(st.us) > 0 && g.rng.Intn(2) == 0:
				st.us[g.rng.Intn(len(st.us))] = nn
			case st.kind == "decl" || st.kind == "typed" || st.kind == "assign":
				st.x = nn
			case len(st.ds) > 0:
				st.ds[g.rng.Intn(len(st.ds))] = nn
			case len(st.us) > 0:
				st.us[g.rng.Intn(len(st.us))] = nn
			}
		case 3: // exchange with the next statement
			if i+1 < len(*b) && (*b)[i+1].kind != "func" && (*b)[i+1].kind != "on" && st.kind != "func" && st.kind != "on" {
				(*b)[i], (*b)[i+1] = (*b)[i+1], (*b)[i]
			}
		case 4: // move a simple statement into another block
			if scSimple(st) && len(*b) > 1 {
				t := blocks[g.rng.Intn(len(blocks))]
				if t != b {
					*b = append((*b)[:i:i], (*b)[i+1:]...)
					j := g.rng.Intn(len(*t) + 1)
					*t = append((*t)[:j:j], append([]*scN{st}, (*t)[j:]...)...)
				}
			}
		default: // add a name to a statement
			if st.kind != "typed" && st.kind != "func" && st.kind != "on" && st.kind != "if" {
				st.us = append(st.us, g.rng.Intn(len(scNames)))
			}
		}
	}
	return p
}

// --- rendering

func scExpr(us []int, zero string) string {
	if len(us) == 0 {
		return zero
	}
	parts := make([]string, len(us))
	for i, u := range us {
		parts[i] = scNames[u]
	}
	return strings.Join(parts, " + ")
}

func scCond(us []int) string {
	switch len(us) {
	case 0:
		return "true"
	case 1:
		return scNames[us[0]] + " < 1"
	}
	return scNames[us[0]] + " < " + scExpr(us[1:], "1")
}

func scList(ns []int) string {
	s := fmt.Sprint(len(ns))
	for _, n := range ns {
		s += " " + fmt.Sprint(n)
	}
	return s
}

type scOut struct {
	src, wire strings.Builder
	nfunc     int
	nev       int
	ok        bool
}

func (o *scOut) block(ns []*scN, ind string) int {
	count := 0
	for _, n := range ns {
		count += o.stmt(n, ind)
	}
	return count
}

// stmt writes the statement; it returns the number of model statements it stands for (an if chain is one scope per branch)
func (o *scOut) stmt(n *scN, ind string) int {
	in := ind + "    "
	body := func(b []*scN) {
		var sub scOut
		sub.nfunc, sub.nev, sub.ok = o.nfunc, o.nev, true
		cnt := sub.block(b, in)
		o.src.WriteString(sub.src.String())
		fmt.Fprintf(&o.wire, " %d%s", cnt, sub.wire.String())
		o.nfunc, o.nev = sub.nfunc, sub.nev
		o.ok = o.ok && sub.ok
	}
	switch n.kind {
	case "use":
		if len(n.us) == 0 {
			o.src.WriteString(ind + "print 1\n")
		} else {
			parts := make([]string, len(n.us))
			for i, u := range n.us {
				parts[i] = scNames[u]
			}
			o.src.WriteString(ind + "print " + strings.Join(parts, " ") + "\n")
		}
		o.wire.WriteString(" u " + scList(n.us))
	case "assign":
		o.src.WriteString(ind + scNames[n.x] + " = " + scExpr(n.us, "2") + "\n")
		o.wire.WriteString(" u " + scList(append([]int{n.x}, n.us...)))
	case "decl":
		o.src.WriteString(ind + scNames[n.x] + " := " + scExpr(n.us, "3") + "\n")
		fmt.Fprintf(&o.wire, " d %d %s", n.x, scList(n.us))
	case "typed":
		o.src.WriteString(ind + scNames[n.x] + ":num\n")
		fmt.Fprintf(&o.wire, " d %d 0", n.x)
	case "if":
		for i, br := range n.chain {
			switch {
			case i == 0:
				o.src.WriteString(ind + "if " + scCond(br.us) + "\n")
			case br.isElse:
				o.src.WriteString(ind + "else\n")
			default:
				o.src.WriteString(ind + "else if " + scCond(br.us) + "\n")
			}
			hd := br.us
			if br.isElse {
				hd = nil
			}
			o.wire.WriteString(" s 0 " + scList(hd))
			body(br.body)
		}
		o.src.WriteString(ind + "end\n")
		return len(n.chain)
	case "while":
		o.src.WriteString(ind + "while " + scCond(n.us) + "\n")
		o.wire.WriteString(" s 0 " + scList(n.us))
		body(n.body)
		o.src.WriteString(ind + "end\n")
	case "for":
		us := n.us
		if len(us) > 2 {
			us = us[:2]
		}
		rng := "2"
		if len(us) > 0 {
			parts := make([]string, len(us))
			for i, u := range us {
				parts[i] = scNames[u]
			}
			rng = strings.Join(parts, " ")
		}
		if len(n.ds) > 0 {
			o.src.WriteString(ind + "for " + scNames[n.ds[0]] + " := range " + rng + "\n")
			o.wire.WriteString(" s " + scList(n.ds[:1]) + " " + scList(us))
		} else {
			o.src.WriteString(ind + "for range " + rng + "\n")
			o.wire.WriteString(" s 0 " + scList(us))
		}
		body(n.body)
		o.src.WriteString(ind + "end\n")
	case "func":
		o.src.WriteString(ind + fmt.Sprintf("func fn%d", o.nfunc))
		o.nfunc++
		for _, d := range n.ds {
			o.src.WriteString(" " + scNames[d] + ":num")
		}
		o.src.WriteString("\n")
		o.wire.WriteString(" s " + scList(n.ds) + " 0")
		body(n.body)
		o.src.WriteString(ind + "end\n")
		if ind != "" {
			o.ok = false
		}
	case "on":
		events := []string{"down", "up", "move"}
		if o.nev >= len(events) || ind != "" {
			o.ok = false
			return 0
		}
		o.src.WriteString("on " + events[o.nev])
		o.nev++
		for _, d := range n.ds {
			o.src.WriteString(" " + scNames[d] + ":num")
		}
		o.src.WriteString("\n")
		o.wire.WriteString(" s " + scList(n.ds) + " 0")
		body(n.body)
		o.src.WriteString("end\n")
	}
	return 1
}

func scRender(p []*scN) (src, wire string, ok bool) {
	var o scOut
	o.ok = true
	cnt := o.block(p, "")
	return o.src.String(), fmt.Sprintf("%d%s", cnt, o.wire.String()), o.ok
}

// scopeStream runs n programs; returns the number compared
func scopeStream(r *Report, d *Driver, rng *rand.Rand, n int) int {
	g := &scGen{rng: rng}
	done := 0
	for i := 0; i < n; i++ {
		p := g.program()
		edited := i%2 == 1
		if edited {
			p = g.mutate(p)
		}
		src, wire, ok := scRender(p)
		if !ok {
			continue
		}
		ans, err := d.Ask("scope " + wire)
		if err != nil {
			panic(err)
		}
		prog, perr, pp := ParseSrc(src)
		if pp != "" {
			r.Violation(Case{Stream: "scope", Input: src, Real: "Go panic: " + pp, Spec: "accepted or rejected with located errors"})
			continue
		}
		done++
		real := "REJECT"
		if prog != nil {
			real = "ACCEPT"
		}
		r.Count("scope:"+src, strings.Contains(wire, " s "))
		r.Hist("scope-verdict", map[bool]string{false: "built ", true: "edited "}[edited]+strings.ToLower(real))
		if !edited && real == "REJECT" {
			r.Disagree(Case{Stream: "scope", Input: src, Real: "rejected: " + trunc(perr, 300), Model: ans, Note: "harness: a program built well scoped should be accepted; request scope " + wire})
			continue
		}
		switch {
		case ans == real:
		case ans == "REJECT" && real == "ACCEPT":
			r.Violation(Case{Stream: "scope", Input: src, Real: "accepted", Model: ans, Spec: "the program breaks a variable rule (undeclared name, redeclaration in a scope, or a variable that is declared and not used): Model/Scope.lean rejects it, and what that model accepts is well scoped (accepted_program_is_well_scoped)", Note: "request scope " + wire})
		default:
			r.Disagree(Case{Stream: "scope", Input: src, Real: real + ": " + trunc(perr, 300), Model: ans, Note: "request scope " + wire})
		}
	}
	return done
}
