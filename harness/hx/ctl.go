package hx

import (
	"fmt"
	"math/rand"
	"strings"
)

// The break / return placement model (lean/EvyV/Model/Ctl.lean, Props/C05Ctl.lean) against the real parser: random
// programs of nested if branches and loops at top level, in functions with and without a result type and in event
// handlers, with `break`, `return` and `return 1` as the last statement of a third of the blocks — wherever they
// happen to fall, allowed or not. (Last statement only, and if statements without else: what follows a terminating
// statement is "unreachable code", another rule.) The parser accepts iff the model does; by
// accepted_iff_control_well_placed a program the model rejects has a break outside every loop of its function or a
// return outside a function / with or without a value against the signature.

type ctN struct {
	tok  string // s b rv rb, or a scope kind: br lp ft fp h
	body []*ctN
}

type ctGen struct{ rng *rand.Rand }

// term: a terminating statement; four times out of five one that is allowed where it stands (loop: inside a loop of
// this function; ret: "" outside every function, "p" no result type, "t" result type)
func (g *ctGen) term(loop bool, ret string) *ctN {
	if g.rng.Intn(5) > 0 {
		var ok []string
		if loop {
			ok = append(ok, "b")
		}
		switch ret {
		case "p":
			ok = append(ok, "rb")
		case "t":
			ok = append(ok, "rv")
		}
		if len(ok) == 0 {
			return &ctN{tok: "s"}
		}
		return &ctN{tok: ok[g.rng.Intn(len(ok))]}
	}
	return &ctN{tok: []string{"b", "rv", "rb"}[g.rng.Intn(3)]}
}

func (g *ctGen) block(depth int, allowTerm bool, loop bool, ret string) []*ctN {
	var out []*ctN
	for i, n := 0, 1+g.rng.Intn(3); i < n; i++ {
		k := g.rng.Intn(6)
		if depth <= 0 {
			k = 0
		}
		switch {
		case k < 2:
			out = append(out, &ctN{tok: "s"})
		case k < 4:
			out = append(out, &ctN{tok: "br", body: g.block(depth-1, true, loop, ret)})
		default:
			out = append(out, &ctN{tok: "lp", body: g.block(depth-1, true, true, ret)})
		}
	}
	if allowTerm && g.rng.Intn(2) == 0 {
		out = append(out, g.term(loop, ret))
	}
	return out
}

func (g *ctGen) program() []*ctN {
	var out []*ctN
	nev := 0
	n := 2 + g.rng.Intn(4)
	for i := 0; i < n; i++ {
		switch k := g.rng.Intn(6); {
		case k == 0:
			// a function with a result type ends with `return 1` (the missing-return rule is another rule)
			out = append(out, &ctN{tok: "ft", body: append(g.block(3, false, false, "t"), &ctN{tok: "rv"})})
		case k == 1:
			out = append(out, &ctN{tok: "fp", body: g.block(3, true, false, "p")})
		case k == 2 && nev < 3:
			nev++
			out = append(out, &ctN{tok: "h", body: g.block(3, true, false, "p")})
		default:
			out = append(out, g.block(3, false, false, "")...)
		}
	}
	if g.rng.Intn(6) == 0 {
		out = append(out, g.term(false, ""))
	}
	return out
}

type ctOut struct {
	src, wire strings.Builder
	nf, nev   int
}

func (o *ctOut) block(ns []*ctN, ind string) {
	for _, n := range ns {
		switch n.tok {
		case "s":
			o.src.WriteString(ind + "print 1\n")
			o.wire.WriteString(" s")
		case "b":
			o.src.WriteString(ind + "break\n")
			o.wire.WriteString(" b")
		case "rv":
			o.src.WriteString(ind + "return 1\n")
			o.wire.WriteString(" rv")
		case "rb":
			o.src.WriteString(ind + "return\n")
			o.wire.WriteString(" rb")
		default:
			switch n.tok {
			case "br":
				o.src.WriteString(ind + "if true\n")
			case "lp":
				if len(n.body)%2 == 0 {
					o.src.WriteString(ind + "while true\n")
				} else {
					o.src.WriteString(ind + "for range 2\n")
				}
			case "ft":
				o.src.WriteString(fmt.Sprintf("func fn%d:num\n", o.nf))
				o.nf++
			case "fp":
				o.src.WriteString(fmt.Sprintf("func fn%d\n", o.nf))
				o.nf++
			case "h":
				o.src.WriteString("on " + []string{"down", "up", "move"}[o.nev] + "\n")
				o.nev++
			}
			fmt.Fprintf(&o.wire, " S %s %d", n.tok, len(n.body))
			o.block(n.body, ind+"    ")
			o.src.WriteString(ind + "end\n")
		}
	}
}

// ctlStream runs n programs; returns the number compared
func ctlStream(r *Report, d *Driver, rng *rand.Rand, n int) int {
	g := &ctGen{rng: rng}
	for i := 0; i < n; i++ {
		p := g.program()
		var o ctOut
		o.block(p, "")
		src, wire := o.src.String(), fmt.Sprintf("%d%s", len(p), o.wire.String())
		ans, err := d.Ask("ctl " + wire)
		if err != nil {
			panic(err)
		}
		prog, perr, pp := ParseSrc(src)
		if pp != "" {
			r.Violation(Case{Stream: "break-return", Input: src, Real: "Go panic: " + pp, Spec: "accepted or rejected with located errors"})
			continue
		}
		real := "REJECT"
		if prog != nil {
			real = "ACCEPT"
		}
		r.Count("ctl:"+src, strings.Contains(wire, " b") || strings.Contains(wire, " r"))
		r.Hist("break-return-verdict", strings.ToLower(real))
		switch {
		case ans == real:
		case ans == "REJECT" && real == "ACCEPT":
			r.Violation(Case{Stream: "break-return", Input: src, Real: "accepted", Model: ans, Spec: "a break outside every loop of its function, or a return outside a function or handler, or with / without a value against the signature: Model/Ctl.lean rejects the program, and it rejects exactly the misplaced ones (accepted_iff_control_well_placed)", Note: "request ctl " + wire})
		default:
			r.Disagree(Case{Stream: "break-return", Input: src, Real: real + ": " + trunc(perr, 300), Model: ans, Note: "request ctl " + wire})
		}
	}
	return n
}
