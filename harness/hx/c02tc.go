package hx

import (
	"fmt"
	"reflect"
	"strings"

	"evylang.dev/evy/pkg/parser"
)

// The type checker of lean/EvyV/Model/Check.lean (proved sound for the hypotheses of the type
// soundness theorem, Props/C02Check.lean) is run on the serialised AST of accepted programs, with the
// function signatures and the global types of the REAL parser: a program of the typed fragment that
// the parser accepts and the checker rejects is either outside what the theorem covers (a gap in the
// checker) or ill-typed code that the parser let through.

// tcBuiltins: the built-ins that Spec/WellTyped.lean builtinSig types.
var tcBuiltins = map[string]bool{"len": true, "typeof": true, "has": true, "del": true, "str2bool": true, "sprint": true, "join": true,
	"startswith": true, "endswith": true, "index": true, "exit": true, "panic": true, "sleep": true, "cls": true, "read": true,
	"abs": true, "floor": true, "ceil": true, "round": true, "log": true, "sqrt": true, "sin": true, "cos": true,
	"min": true, "max": true, "pow": true, "atan2": true, "upper": true, "lower": true, "trim": true, "replace": true, "str2num": true,
	"move": true, "line": true, "rect": true, "circle": true, "width": true, "color": true, "colour": true, "stroke": true, "fill": true,
	"linecap": true, "text": true, "clear": true, "grid": true, "gridn": true, "dash": true, "ellipse": true, "hsl": true,
	"printf": true, "sprintf": true, "repr": true, "split": true, "rand": true, "rand1": true, "test": true}

// tcFragment reports whether a program uses only what Spec/WellTyped.lean types, and if not, why.
func tcFragment(prog *parser.Program) (bool, string) {
	userFuncs := map[string]bool{}
	for _, n := range prog.Statements {
		if fd, ok := n.(*parser.FuncDefStmt); ok {
			userFuncs[fd.Name] = true
		}
	}
	reason := ""
	var walk func(n parser.Node, stmtCall bool)
	walkList := func(ns []parser.Node) {
		for _, x := range ns {
			walk(x, false)
		}
	}
	walk = func(n parser.Node, stmtCall bool) {
		if reason != "" || n == nil || (reflect.ValueOf(n).Kind() == reflect.Ptr && reflect.ValueOf(n).IsNil()) {
			return
		}
		switch n := n.(type) {
		case *parser.EventHandlerStmt:
			walkList(n.Body.Statements)
		case *parser.FuncDefStmt:
			walkList(n.Body.Statements)
		case *parser.FuncCall:
			if !userFuncs[n.Name] && !(n.Name == "print" && stmtCall) && !tcBuiltins[n.Name] {
				reason = "builtin " + n.Name
				return
			}
			walkList(n.Arguments)
		case *parser.FuncCallStmt:
			walk(n.FuncCall, true)
		case *parser.BinaryExpression:
			walk(n.Left, false)
			walk(n.Right, false)
		case *parser.UnaryExpression:
			walk(n.Right, false)
		case *parser.GroupExpression:
			walk(n.Expr, false)
		case *parser.IndexExpression:
			walk(n.Left, false)
			walk(n.Index, false)
		case *parser.SliceExpression:
			walk(n.Left, false)
			walk(n.Start, false)
			walk(n.End, false)
		case *parser.DotExpression:
			walk(n.Left, false)
		case *parser.TypeAssertion:
			walk(n.Left, false)
		case *parser.Any:
			walk(n.Value, false)
		case *parser.ArrayLiteral:
			walkList(n.Elements)
		case *parser.MapLiteral:
			for _, k := range n.Order {
				walk(n.Pairs[k], false)
			}
		case *parser.TypedDeclStmt:
			walk(n.Decl.Value, false)
		case *parser.InferredDeclStmt:
			walk(n.Decl.Value, false)
		case *parser.AssignmentStmt:
			walk(n.Target, false)
			walk(n.Value, false)
		case *parser.ReturnStmt:
			walk(n.Value, false)
		case *parser.IfStmt:
			walk(n.IfBlock.Condition, false)
			walkList(n.IfBlock.Block.Statements)
			for _, c := range n.ElseIfBlocks {
				walk(c.Condition, false)
				walkList(c.Block.Statements)
			}
			if n.Else != nil {
				walkList(n.Else.Statements)
			}
		case *parser.WhileStmt:
			walk(n.Condition, false)
			walkList(n.Block.Statements)
		case *parser.ForStmt:
			if sr, ok := n.Range.(*parser.StepRange); ok {
				walk(sr.Start, false)
				walk(sr.Stop, false)
				walk(sr.Step, false)
			} else {
				walk(n.Range, false)
			}
			walkList(n.Block.Statements)
		}
	}
	walkList(prog.Statements)
	return reason == "", reason
}

// tcSigs: the signatures of the program's functions and the types of its globals, as the parser has them.
func tcSigs(prog *parser.Program) (sigs, globals string) {
	var sb, gb strings.Builder
	for _, n := range prog.Statements {
		switch n := n.(type) {
		case *parser.FuncDefStmt:
			sb.WriteString("(" + ss(n.Name) + " (")
			for i, p := range n.Params {
				if i > 0 {
					sb.WriteString(" ")
				}
				sb.WriteString(SerType(p.Type()))
			}
			sb.WriteString(") ")
			if n.ReturnType == nil || n.ReturnType == parser.NONE_TYPE {
				sb.WriteString("-")
			} else {
				sb.WriteString(SerType(n.ReturnType))
			}
			if n.VariadicParam != nil {
				// the variadic parameter is declared with its element type T (the body sees []T)
				sb.WriteString(" " + SerType(n.VariadicParam.Type()))
			}
			sb.WriteString(") ")
		case *parser.TypedDeclStmt:
			gb.WriteString("(" + ss(n.Decl.Var.Name) + " " + SerType(n.Decl.Var.Type()) + ") ")
		case *parser.InferredDeclStmt:
			gb.WriteString("(" + ss(n.Decl.Var.Name) + " " + SerType(n.Decl.Var.Type()) + ") ")
		}
	}
	return sb.String(), gb.String()
}

// tcCheck asks the model's checker about an accepted program: "ok", "no …", or "" when it cannot be asked.
func tcCheck(d *Driver, src string) (verdict string, inFragment bool, why string) {
	prog, _, _ := ParseSrc(src)
	if prog == nil {
		return "", false, "rejected"
	}
	inFragment, why = tcFragment(prog)
	ser, err := SerProgram(prog)
	if err != nil {
		return "", inFragment, "unserialisable"
	}
	sigs, globals := tcSigs(prog)
	ans, err := d.Ask("eval|tcheck=1|" + ser + "|" + sigs + "|" + globals + "|")
	if err != nil {
		panic(err)
	}
	return strings.TrimPrefix(ans, "TC "), inFragment, why
}

// c02TypeCheck: generated programs of the typed fragment, hand-written ones for every rule, and every
// program of the other streams that happens to lie in the fragment.
func c02TypeCheck(r *Report, d *Driver, srcs []string) (asked, inFrag, okN int) {
	for _, src := range srcs {
		v, in, why := tcCheck(d, src)
		if v == "" {
			continue
		}
		asked++
		if !in {
			r.Hist("typecheck", "outside the typed fragment: "+strings.SplitN(why, " ", 2)[0])
			continue
		}
		inFrag++
		r.Count("tc:"+src, true)
		if v == "ok" {
			okN++
			r.Hist("typecheck", "in the fragment, checker accepts")
			continue
		}
		r.Hist("typecheck", "in the fragment, checker REJECTS")
		r.Disagree(Case{Stream: "typecheck", Input: src, Real: "accepted by the parser", Model: "Model/Check.lean: " + v,
			Note: fmt.Sprintf("an accepted program of the typed fragment must satisfy the hypotheses of program_never_goes_wrong (checkProg_sound)")})
	}
	return
}

// TcProbe: development aid.
func TcProbe(d *Driver, n int) {
	rng := Rng()
	o := GenOpts{Funcs: true, Any: true, Maps: true, Strings: true, NonAscii: true, Special: true, Builtins: true, Tests: true}
	stats := map[string]int{}
	shown := 0
	for i := 0; i < n; i++ {
		g := NewProgGen(rng, o)
		src := g.Program()
		v, in, why := tcCheck(d, src)
		switch {
		case v == "":
			stats["not asked: "+why]++
		case !in:
			stats["outside: "+why]++
		case v == "ok":
			stats["in fragment, ok"]++
		default:
			stats["in fragment, REJECTED "+v]++
			if shown < 6 {
				shown++
				fmt.Println("==== REJECTED:", v)
				fmt.Println(src)
			}
		}
	}
	for k, v := range stats {
		fmt.Println(v, k)
	}
}

// tcHandWritten: one program per typing rule of Spec/WellTyped.lean (and combinations).
func tcHandWritten() []string {
	return []string{
		"x := 1\ny := x + 2 * -x\nb := x < y and !(x == y) or y >= 3\ns := \"a\" + \"b\"\nc := s < \"c\"\nprint x y b s c (x % 2) (x / 0)\n",
		"a := [1 2 3]\nb := a + [4]\nc := a[1] + b[-1]\nd := a[1:] + b[:2]\ns := \"hello\"\nt := s[0] + s[1:3]\nprint a b c d s t (a == b) (s != t)\n",
		"m := {a:1 b:2}\nn := m.a + m[\"b\"]\nm.c = 3\nm[\"d\"] = n\nfor k := range m\n    print k m[k]\nend\nprint m n\n",
		"x:any\nx = 5\ny := x.(num) + 1\nz:[]any\nz = [1 \"a\" true]\nw := z[1].(string)\nprint x y z w (x == x)\n",
		"func fact:num n:num\n    if n <= 1\n        return 1\n    end\n    return n * (fact n-1)\nend\nx := fact 5\nprint x\n",
		"func fib:num n:num\n    if n < 2\n        return n\n    else\n        return (fib n-1) + (fib n-2)\n    end\nend\nprint (fib 10)\n",
		"g := 0\nfunc bump\n    g = g + 1\nend\nfunc twice\n    bump\n    bump\n    return\nend\ntwice\nprint g\n",
		"func swap:[]num a:[]num\n    t := a[0]\n    a[0] = a[1]\n    a[1] = t\n    return a\nend\nxs := [1 2]\nys := swap xs\nprint xs ys (xs == ys)\n",
		"func first:string m:{}string k:string\n    for key := range m\n        if key == k\n            return m[key]\n        end\n    end\n    return \"\"\nend\nprint (first {a:\"x\" b:\"y\"} \"b\")\n",
		"n := 0\nfor i := range 10\n    if i % 2 == 0\n        n = n + i\n    else if i > 7\n        break\n    end\nend\nfor i := range 1 10 3\n    n = n - i\nend\nfor range 3\n    n = n * 2\nend\nprint n\n",
		"s := \"\"\nfor ch := range \"héllo\"\n    s = ch + s\nend\ni := 0\nwhile i < 3\n    i = i + 1\n    if i == 2\n        break\n    end\nend\nprint s i\n",
		"a := [[1 2] [3]]\nfor row := range a\n    for v := range row\n        print v\n    end\nend\na[0][1] = 5\nb := a[1:]\nprint a b a[0][1]\n",
		"x:num\ns:string\nb:bool\na:[]num\nm:{}string\ny:any\nprint x s b a m y\na = a + [x]\nm.k = s\ny = a\nprint a m y\n",
		"func f:num a:num b:string c:bool d:[]num e:{}num g:any\n    if c\n        return a + d[0] + e.k + (len2 b)\n    end\n    print g\n    return 0\nend\nfunc len2:num s:string\n    n := 0\n    for range s\n        n = n + 1\n    end\n    return n\nend\nprint (f 1 \"ab\" true [2] {k:3} 4)\n",
		"func rec:num n:num\n    while true\n        if n > 3\n            return n\n        end\n        n = n + 1\n    end\n    return 0\nend\nprint (rec 0)\n",
		"e := []\nf := {}\nprint e f\n",
		"s := \"Hello, Wörld\"\nn := (len s) + (len [1 2]) + (len {a:1})\nu := (upper s) + (lower s) + (trim s \"H\") + (replace s \"l\" \"L\")\nb := (startswith s \"He\") and (endswith s \"d\") or (index s \"W\") > 3\nprint n u b (typeof n) (sprint n u) (join [1 2] \"-\")\n",
		"x := str2num \"12\"\ny := str2num \"zz\"\nb := str2bool \"true\"\nprint x y b err errmsg\nm := {a:1}\nif has m \"a\"\n    del m \"a\"\nend\nprint m (abs -2) (floor 2.5) (ceil 2.5) (round 2.5) (sqrt 4) (min 1 2) (max 1 2) (pow 2 3) (sin 0) (cos 0) (log 1) (atan2 1 1)\n",
		"move 10 20\nline 30 40\nrect 5 5\ncircle 3\nwidth 2\ncolor \"red\"\ncolour \"blue\"\nstroke \"green\"\nfill \"none\"\nlinecap \"round\"\ntext \"hi\"\nclear\nclear \"white\"\ngrid\ngridn 5 \"gray\"\ndash 1 2\ndash\nellipse 1 2 3\nellipse 1 2 3 4 5 6 7\nprint (hsl 10) (hsl 10 20 30 40)\n",
		"printf \"%v %s\\n\" 1 \"a\"\ns := sprintf \"%5.2f|%v\" 1.5 [1 2]\nr := repr \"a\" [1] {k:true}\nw := split \"a,b\" \",\"\nn := (rand 5) + (rand1)\nprint s r w (len w) (n < 10)\n",
		"func sum:num nums:num...\n    t := 0\n    for n := range nums\n        t = t + n\n    end\n    return t\nend\nfunc show strs:string...\n    print (len strs) strs\nend\nprint (sum) (sum 1) (sum 1 2 3)\nshow\nshow \"a\" \"b\"\nfunc anys xs:any...\n    print xs\nend\nanys 1 \"a\" [true]\n",
		"test true\ntest 1 1\ntest [1] [1] \"arrays\"\ntest \"a\" \"a\"\nx := 0\non key k:string\n    x = x + (len k)\n    print k x\nend\non down x1:num _:num\n    print x1\nend\non animate\n    x = x + 1\nend\n",
		"cls\nsleep 0\nl := read\nprint l\nif l == \"x\"\n    panic \"boom\"\nend\nexit 3\n",
		"x := [] + [1]\ny := [[]] + [[2]]\nprint x y [] {}\n",
	}
}

// tcNegative: the request of an accepted program with one global given a wrong type, or one function a
// wrong result type — the checker must reject it (the check discriminates).
func tcNegative(d *Driver, src string) (asked bool, rejected bool) {
	prog, _, _ := ParseSrc(src)
	if prog == nil {
		return false, false
	}
	ser, err := SerProgram(prog)
	if err != nil {
		return false, false
	}
	sigs, globals := tcSigs(prog)
	bad := ""
	switch {
	case strings.Contains(globals, " num) "):
		bad = strings.Replace(globals, " num) ", " (arr bool)) ", 1)
		globals = bad
	case strings.Contains(sigs, ") num) "):
		bad = strings.Replace(sigs, ") num) ", ") str) ", 1)
		sigs = bad
	default:
		return false, false
	}
	ans, err := d.Ask("eval|tcheck=1|" + ser + "|" + sigs + "|" + globals + "|")
	if err != nil {
		panic(err)
	}
	return true, strings.HasPrefix(ans, "TC no")
}

// TcOne: the checker's verdict on one program (development aid).
func TcOne(d *Driver, src string) string {
	v, in, why := tcCheck(d, src)
	return fmt.Sprintf("verdict=%q inFragment=%v %s", v, in, why)
}
