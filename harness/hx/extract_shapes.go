package hx

import (
	"fmt"
	"go/ast"
	"go/token"
	"strings"
)

func init() { generators = append(generators, genShapes) }

// callOps lists, in source order, the "interesting" calls of a function body at statement level,
// each with whether its error result is checked and returned immediately.
func callOps(fd *ast.FuncDecl, classify func(string) string) [][2]string {
	var out [][2]string
	if fd == nil {
		return out
	}
	stmts := fd.Body.List
	for i, st := range stmts {
		var call *ast.CallExpr
		checked := false
		returnsErrIfStmt := func(is *ast.IfStmt) bool {
			// `if err != nil { return ... }`
			cond := exprString(is.Cond)
			if !strings.Contains(cond, "err != nil") {
				return false
			}
			for _, b := range is.Body.List {
				if _, ok := b.(*ast.ReturnStmt); ok {
					return true
				}
			}
			return false
		}
		switch s := st.(type) {
		case *ast.AssignStmt:
			if len(s.Rhs) == 1 {
				if c, ok := s.Rhs[0].(*ast.CallExpr); ok {
					call = c
					// error variable assigned?
					hasErr := false
					for _, l := range s.Lhs {
						if exprString(l) == "err" {
							hasErr = true
						}
					}
					if hasErr && i+1 < len(stmts) {
						if is, ok := stmts[i+1].(*ast.IfStmt); ok && is.Init == nil && returnsErrIfStmt(is) {
							checked = true
						}
					}
				}
			}
		case *ast.IfStmt:
			if as, ok := s.Init.(*ast.AssignStmt); ok && len(as.Rhs) == 1 {
				if c, ok := as.Rhs[0].(*ast.CallExpr); ok {
					call = c
					checked = returnsErrIfStmt(s)
				}
			}
			// guarded call: `if cond { return f(...) }`
			if s.Init == nil {
				for _, b := range s.Body.List {
					if rs, ok := b.(*ast.ReturnStmt); ok && len(rs.Results) == 1 {
						if c, ok := rs.Results[0].(*ast.CallExpr); ok {
							if k := classify(exprString(c.Fun)); k != "" {
								out = append(out, [2]string{k + "@if(" + exprString(s.Cond) + ")", "returned"})
							}
						}
					}
				}
			}
		case *ast.ExprStmt:
			if c, ok := s.X.(*ast.CallExpr); ok {
				call = c
			}
		case *ast.ReturnStmt:
			if len(s.Results) >= 1 {
				if c, ok := s.Results[len(s.Results)-1].(*ast.CallExpr); ok {
					if k := classify(exprString(c.Fun)); k != "" {
						out = append(out, [2]string{k, "returned"})
					}
				}
			}
		case *ast.DeferStmt:
			if k := classify(exprString(s.Call.Fun)); k != "" {
				out = append(out, [2]string{"defer:" + k, "unchecked"})
			}
		}
		if call != nil {
			if k := classify(exprString(call.Fun)); k != "" {
				c := "unchecked"
				if checked {
					c = "checked"
				}
				out = append(out, [2]string{k, c})
			}
		}
	}
	return out
}

func fsClassify(fun string) string {
	switch fun {
	case "os.Stat", "os.Lstat":
		return "stat"
	case "os.CreateTemp":
		return "createTemp"
	case "os.Rename":
		return "rename"
	case "os.WriteFile":
		return "writeTarget"
	case "os.Create", "os.OpenFile":
		return "openTarget"
	case "os.Remove":
		return "remove"
	case "os.Chmod":
		return "chmod"
	case "os.ReadFile":
		return "readFile"
	}
	if i := strings.LastIndex(fun, "."); i >= 0 {
		switch fun[i+1:] {
		case "Write", "WriteString":
			return "write"
		case "Close":
			return "close"
		case "Chmod":
			return "chmod"
		case "Sync":
			return "sync"
		case "Truncate":
			return "truncate"
		}
	}
	if strings.HasPrefix(fun, "os.") || strings.HasPrefix(fun, "io.") || strings.HasPrefix(fun, "ioutil.") {
		return "other:" + fun
	}
	return ""
}

func genShapes(dir string) error {
	m, err := parseGo("main.go")
	if err != nil {
		return err
	}
	var b strings.Builder
	pairs := func(name, doc string, ops [][2]string) {
		fmt.Fprintf(&b, "/-- %s -/\ndef %s : List (String × String) := [", doc, name)
		for i, o := range ops {
			if i > 0 {
				b.WriteString(", ")
			}
			fmt.Fprintf(&b, "(%s, %s)", leanStr(o[0]), leanStr(o[1]))
		}
		b.WriteString("]\n\n")
	}
	pairs("writeAtomically", "main.go writeAtomically: file-system calls in order, with whether the error is checked and returned at once",
		callOps(m.funcDecl("writeAtomically"), fsClassify))
	cls2 := func(fun string) string {
		switch fun {
		case "os.ReadFile":
			return "readFile"
		case "format":
			return "format"
		case "writeAtomically":
			return "writeAtomically"
		case "os.WriteFile":
			return "writeTarget"
		case "txtar.Parse":
			return ""
		}
		return fsClassify(fun)
	}
	pairs("fmtEvyFile", "main.go fmtCmd.fmtEvyFile: calls in order", callOps(m.funcDeclRecv("fmtCmd", "fmtEvyFile"), cls2))
	// format(): the definition of `in`, the check condition, parse before format
	ff := m.funcDecl("format")
	inInit, checkCond, parseChecked := "", "", false
	var order []string
	if ff != nil {
		ast.Inspect(ff.Body, func(n ast.Node) bool {
			switch s := n.(type) {
			case *ast.AssignStmt:
				if len(s.Lhs) >= 1 && exprString(s.Lhs[0]) == "in" && s.Tok == token.DEFINE && len(s.Rhs) == 1 {
					inInit = exprString(s.Rhs[0])
				}
				for _, r := range s.Rhs {
					if c, ok := r.(*ast.CallExpr); ok {
						f := exprString(c.Fun)
						if f == "parser.Parse" || f == "prog.Format" {
							order = append(order, f)
						}
					}
				}
			case *ast.IfStmt:
				for _, st := range s.Body.List {
					if rs, ok := st.(*ast.ReturnStmt); ok {
						for _, r := range rs.Results {
							if strings.Contains(exprString(r), "errNotFormatted") {
								checkCond = exprString(s.Cond)
							}
							if strings.Contains(exprString(r), "errParse") && strings.Contains(exprString(s.Cond), "err != nil") {
								parseChecked = true
							}
						}
					}
				}
			}
			return true
		})
	}
	fmt.Fprintf(&b, "/-- main.go format(): how `in` is obtained from the file bytes -/\ndef formatIn : String := %s\n", leanStr(inInit))
	fmt.Fprintf(&b, "/-- main.go format(): the condition under which errNotFormatted is returned -/\ndef formatCheckCond : String := %s\n", leanStr(checkCond))
	fmt.Fprintf(&b, "def formatParseErrorReturns : Bool := %v\n", parseChecked)
	fmt.Fprintf(&b, "def formatCallOrder : List String := %s\n\n", leanStrList(order))
	// evaluator.Run and runCmd.Run: parse before eval
	ev, err := parseGo("pkg/evaluator/evaluator.go")
	if err != nil {
		return err
	}
	runOps := callOps(ev.funcDeclRecv("Evaluator", "Run"), func(f string) string {
		switch f {
		case "parser.Parse":
			return "parse"
		case "e.Eval":
			return "eval"
		}
		return ""
	})
	pairs("evaluatorRun", "evaluator.go Evaluator.Run: parse, return on error, then evaluate", runOps)
	return writeGen(dir, "Shapes", b.String())
}
