package hx

import "fmt"

// HangProbe finds generated VM programs that do not terminate (development aid).
func HangProbe(n int) {
	rng := Rng()
	o := GenOpts{VM: true, Maps: true, Strings: true, MaxDepth: 3, MaxStmts: 3}
	hangs := 0
	for i := 0; i < n && hangs < 2; i++ {
		g := NewProgGen(rng, o)
		src := g.Program()
		cr := CompileAndRun(src, true)
		if cr.Hang {
			hangs++
			fmt.Println("---- HANG")
			fmt.Println(src)
		}
	}
}

// RejectProbe prints why VM-mode programs are rejected (development aid).
func RejectProbe(n int) {
	rng := Rng()
	o := GenOpts{VM: true, Maps: true, Strings: true, MaxDepth: 3, MaxStmts: 3}
	reasons := map[string]int{}
	for i := 0; i < n; i++ {
		g := NewProgGen(rng, o)
		src := g.Program()
		cr := CompileAndRun(src, false)
		e := cr.ParseErr + cr.CompileErr
		if e != "" {
			if len(e) > 90 {
				e = e[:90]
			}
			// strip position
			if j := indexOf(e, ": "); j >= 0 {
				e = e[j+2:]
			}
			reasons[e]++
		}
	}
	for k, v := range reasons {
		fmt.Println(v, k)
	}
}

func indexOf(s, sub string) int {
	for i := 0; i+len(sub) <= len(s); i++ {
		if s[i:i+len(sub)] == sub {
			return i
		}
	}
	return -1
}
