package hx

import (
	"fmt"
	"go/ast"
	"go/token"
	"strings"
)

func init() { generators = append(generators, genSvg) }

// genSvg extracts from pkg/cli/svg/runtime.go the facts the SVG model (Model/Svg.lean) rests on:
// defaults, transforms, which methods Push first, which append an element, the baseline / align
// tables and the two quirks.
func genSvg(dir string) error {
	g, err := parseGo("pkg/cli/svg/runtime.go")
	if err != nil {
		return err
	}
	var b strings.Builder
	pairs := func(name, doc string, ps [][2]string) {
		fmt.Fprintf(&b, "/-- %s -/\ndef %s : List (String × String) := [", doc, name)
		for i, p := range ps {
			if i > 0 {
				b.WriteString(", ")
			}
			fmt.Fprintf(&b, "(%s, %s)", leanStr(p[0]), leanStr(p[1]))
		}
		b.WriteString("]\n\n")
	}
	lit := func(name string) [][2]string {
		var out [][2]string
		cl := g.varCompositeLit(name)
		if cl == nil {
			return out
		}
		for _, el := range cl.Elts {
			if kv, ok := el.(*ast.KeyValueExpr); ok {
				v := exprString(kv.Value)
				if bl, ok := kv.Value.(*ast.BasicLit); ok && bl.Kind == token.STRING {
					v = unquote(bl.Value)
				}
				out = append(out, [2]string{exprString(kv.Key), v})
			}
		}
		return out
	}
	pairs("defaultAttr", "runtime.go defaultAttr", lit("defaultAttr"))
	pairs("defaultTextAttr", "runtime.go defaultTextAttr", lit("defaultTextAttr"))
	// numeric package-level values
	var consts [][2]string
	for _, d := range g.file.Decls {
		gd, ok := d.(*ast.GenDecl)
		if !ok || (gd.Tok != token.CONST && gd.Tok != token.VAR) {
			continue
		}
		for _, s := range gd.Specs {
			vs := s.(*ast.ValueSpec)
			for i, n := range vs.Names {
				if i < len(vs.Values) {
					if bl, ok := vs.Values[i].(*ast.BasicLit); ok && (bl.Kind == token.INT || bl.Kind == token.FLOAT) {
						consts = append(consts, [2]string{n.Name, bl.Value})
					}
				}
			}
		}
	}
	pairs("numbers", "runtime.go numeric constants and variables", consts)
	// return expressions of the transforms
	ret := func(name string) string {
		fd := g.funcDeclRecv("GraphicsPlatform", name)
		if fd == nil {
			return ""
		}
		for _, st := range fd.Body.List {
			if rs, ok := st.(*ast.ReturnStmt); ok && len(rs.Results) == 1 {
				return exprString(rs.Results[0])
			}
		}
		return ""
	}
	pairs("transforms", "return expressions of transformX, transformY, scale",
		[][2]string{{"transformX", ret("transformX")}, {"transformY", ret("transformY")}, {"scale", ret("scale")}})
	// per method: does it start with rt.Push(), does it append to rt.elements, which rt.attr / rt.textAttr fields it assigns
	var pushFirst, appends []string
	var assigns [][2]string
	for _, d := range g.file.Decls {
		fd, ok := d.(*ast.FuncDecl)
		if !ok || fd.Recv == nil || !fd.Name.IsExported() {
			continue
		}
		if len(fd.Body.List) > 0 {
			if es, ok := fd.Body.List[0].(*ast.ExprStmt); ok {
				if c, ok := es.X.(*ast.CallExpr); ok && exprString(c.Fun) == "rt.Push" {
					pushFirst = append(pushFirst, fd.Name.Name)
				}
			}
		}
		app := false
		var fields []string
		ast.Inspect(fd.Body, func(n ast.Node) bool {
			if as, ok := n.(*ast.AssignStmt); ok {
				for _, l := range as.Lhs {
					ls := exprString(l)
					if ls == "rt.elements" && len(as.Rhs) == 1 && strings.HasPrefix(exprString(as.Rhs[0]), "append(rt.elements") {
						app = true
					}
					if strings.HasPrefix(ls, "rt.attr.") || strings.HasPrefix(ls, "rt.textAttr.") || ls == "rt.x" || ls == "rt.y" {
						found := false
						for _, f := range fields {
							found = found || f == ls
						}
						if !found {
							fields = append(fields, ls)
						}
					}
				}
			}
			return true
		})
		if app {
			appends = append(appends, fd.Name.Name)
		}
		if len(fields) > 0 {
			assigns = append(assigns, [2]string{fd.Name.Name, strings.Join(fields, " ")})
		}
	}
	fmt.Fprintf(&b, "/-- exported methods whose first statement is rt.Push() -/\ndef pushFirst : List String := %s\n\n", leanStrList(pushFirst))
	fmt.Fprintf(&b, "/-- exported methods that append to rt.elements -/\ndef appendsElement : List String := %s\n\n", leanStrList(appends))
	pairs("assigns", "pen / cursor fields each exported method assigns", assigns)
	// Ellipse: the transform applied to y
	ellY := ""
	if fd := g.funcDeclRecv("GraphicsPlatform", "Ellipse"); fd != nil {
		ast.Inspect(fd.Body, func(n ast.Node) bool {
			if as, ok := n.(*ast.AssignStmt); ok && len(as.Lhs) == 1 && exprString(as.Lhs[0]) == "y" && len(as.Rhs) == 1 {
				if c, ok := as.Rhs[0].(*ast.CallExpr); ok {
					ellY = exprString(c.Fun)
				}
			}
			return true
		})
	}
	fmt.Fprintf(&b, "/-- Ellipse: the function applied to the y argument -/\ndef ellipseYTransform : String := %s\n\n", leanStr(ellY))
	// Font: the switch tables and whether the raw baseline overwrites the mapped one
	var baseline, align [][2]string
	rawOverwrite := false
	if fd := g.funcDeclRecv("GraphicsPlatform", "Font"); fd != nil {
		for _, st := range fd.Body.List {
			is, ok := st.(*ast.IfStmt)
			if !ok || is.Init == nil {
				continue
			}
			init := ""
			if as, ok := is.Init.(*ast.AssignStmt); ok && len(as.Rhs) == 1 {
				init = exprString(as.Rhs[0])
			}
			for i, inner := range is.Body.List {
				if sw, ok := inner.(*ast.SwitchStmt); ok {
					for _, cc := range sw.Body.List {
						c := cc.(*ast.CaseClause)
						for _, ce := range c.List {
							for _, body := range c.Body {
								if as, ok := body.(*ast.AssignStmt); ok && len(as.Rhs) == 1 {
									p := [2]string{unquote(exprString(ce)), unquote(exprString(as.Rhs[0]))}
									if strings.Contains(init, `"baseline"`) {
										baseline = append(baseline, p)
									} else if strings.Contains(init, `"align"`) {
										align = append(align, p)
									}
								}
							}
						}
					}
				}
				if as, ok := inner.(*ast.AssignStmt); ok && strings.Contains(init, `"baseline"`) && i > 0 &&
					exprString(as.Lhs[0]) == "rt.textAttr.Baseline" && exprString(as.Rhs[0]) == "baseline" {
					rawOverwrite = true
				}
			}
		}
	}
	pairs("fontBaseline", "Font: baseline switch (case, value assigned to rt.textAttr.Baseline)", baseline)
	pairs("fontAlign", "Font: align switch (case, value assigned to rt.textAttr.TextAnchor)", align)
	fmt.Fprintf(&b, "/-- Font: after the baseline switch the raw value is assigned again -/\ndef baselineRawOverwrite : Bool := %v\n\n", rawOverwrite)
	// svg.go: setAttr bodies
	sg, err := parseGo("pkg/cli/svg/svg.go")
	if err != nil {
		return err
	}
	var setters [][2]string
	for _, d := range sg.file.Decls {
		fd, ok := d.(*ast.FuncDecl)
		if !ok || fd.Recv == nil || (fd.Name.Name != "setAttr" && fd.Name.Name != "setTextAttr") {
			continue
		}
		recv := exprString(fd.Recv.List[0].Type)
		var stmts []string
		for _, st := range fd.Body.List {
			switch s := st.(type) {
			case *ast.AssignStmt:
				stmts = append(stmts, exprString(s.Lhs[0])+" = "+exprString(s.Rhs[0]))
			case *ast.IfStmt:
				inner := ""
				for _, x := range s.Body.List {
					if as, ok := x.(*ast.AssignStmt); ok {
						inner += exprString(as.Lhs[0]) + " = " + exprString(as.Rhs[0]) + ";"
					}
				}
				stmts = append(stmts, "if "+exprString(s.Cond)+" {"+inner+"}")
			default:
				stmts = append(stmts, fmt.Sprintf("%T", st))
			}
		}
		setters = append(setters, [2]string{recv + "." + fd.Name.Name, strings.Join(stmts, "; ")})
	}
	pairs("setters", "svg.go setAttr / setTextAttr bodies", setters)
	return writeGen(dir, "Svg", b.String())
}
