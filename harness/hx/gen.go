package hx

import (
	"fmt"
	"math/rand"
	"strconv"
	"strings"
)

// Type-directed generator of (mostly valid) evy programs. Every random choice comes from
// the one PRNG handed in, so a seed replays exactly.

// GT is a generator-side type.
type GT string

const (
	TNum   GT = "num"
	TStr   GT = "string"
	TBool  GT = "bool"
	TAny   GT = "any"
	TNums  GT = "[]num"
	TStrs  GT = "[]string"
	TAnys  GT = "[]any"
	TNumss GT = "[][]num"
	TMapN  GT = "{}num"
	TMapS  GT = "{}string"
	TMapA  GT = "{}any"
)

// GenOpts selects language features.
type GenOpts struct {
	VM        bool // only constructs the bytecode compiler translates; no print
	Funcs     bool
	Any       bool
	Maps      bool
	Strings   bool
	Builtins  bool // pure builtins (len, upper, str2num, ...)
	Tests     bool // test builtin
	Exit      bool // exit / panic builtin
	Read      bool
	Graphics  bool
	MaxDepth  int // statement nesting
	MaxStmts  int // per block
	ExprDepth int
	NonAscii  bool
	Special   bool // NaN/Inf/huge operands
}

type gvar struct {
	name   string
	t      GT
	global bool
	ro     bool // not a target of generated assignments (loop counters)
}

type gfunc struct {
	name     string
	params   []GT
	ret      GT // "" for none
	variadic bool
}

// ProgGen generates one program.
type ProgGen struct {
	R        *rand.Rand
	O        GenOpts
	scopes   [][]gvar
	funcs    []gfunc
	nvar     int
	inLoop   int
	inFunc   *gfunc
	funcBase int
	sb       strings.Builder
	Feat     map[string]int // feature histogram
}

// NewProgGen makes a generator.
func NewProgGen(r *rand.Rand, o GenOpts) *ProgGen {
	if o.MaxDepth == 0 {
		o.MaxDepth = 3
	}
	if o.MaxStmts == 0 {
		o.MaxStmts = 4
	}
	if o.ExprDepth == 0 {
		o.ExprDepth = 3
	}
	return &ProgGen{R: r, O: o, Feat: map[string]int{}}
}

func (g *ProgGen) types() []GT {
	ts := []GT{TNum, TBool, TNums}
	if g.O.Strings {
		ts = append(ts, TStr, TStrs)
	}
	if g.O.Maps {
		ts = append(ts, TMapN)
		if g.O.Strings {
			ts = append(ts, TMapS)
		}
	}
	if g.O.Any {
		ts = append(ts, TAny, TAnys, TMapA)
	}
	if !g.O.VM {
		ts = append(ts, TNumss)
	}
	return ts
}

func (g *ProgGen) pickType() GT { ts := g.types(); return ts[g.R.Intn(len(ts))] }

func (g *ProgGen) fresh() string {
	g.nvar++
	names := []string{"a", "b", "c", "d", "e", "f", "g", "h", "p", "q", "r", "s", "t", "u", "v", "w"}
	n := names[g.nvar%len(names)]
	return n + strconv.Itoa(g.nvar)
}

func (g *ProgGen) varsOf(t GT) []gvar {
	var out []gvar
	seen := map[string]bool{}
	for i := len(g.scopes) - 1; i >= 0; i-- {
		for _, v := range g.scopes[i] {
			if seen[v.name] {
				continue
			}
			seen[v.name] = true
			if v.t == t {
				if g.inFunc != nil && i != 0 && i < g.funcBase {
					continue
				}
				out = append(out, v)
			}
		}
	}
	return out
}

var _ = fmt.Sprint

func (g *ProgGen) feat(s string) { g.Feat[s]++ }

func (g *ProgGen) w(indent int, s string) {
	g.sb.WriteString(strings.Repeat("    ", indent))
	g.sb.WriteString(s)
	g.sb.WriteString("\n")
}

// numLit returns a numeric literal source.
func (g *ProgGen) numLit() string {
	if g.O.Special && g.R.Intn(12) == 0 {
		sp := []string{"(0/0)", "(1/0)", "(-1/0)", "9007199254740993", "0.1", "1000000000000000000000", "(-0)", "2147483648", "0.5"}
		return sp[g.R.Intn(len(sp))]
	}
	switch g.R.Intn(6) {
	case 0:
		return strconv.Itoa(g.R.Intn(4))
	case 1:
		return strconv.Itoa(g.R.Intn(100))
	case 2:
		return []string{"0.5", "1.5", "2.25", "0.1", "3.75"}[g.R.Intn(5)]
	case 3:
		return "-" + strconv.Itoa(1+g.R.Intn(5)) // unary minus literal
	}
	return strconv.Itoa(g.R.Intn(10))
}

func (g *ProgGen) strLit() string {
	pool := []string{"", "a", "b", "ab", "abc", "hello", "x y", "Zz"}
	if g.O.NonAscii {
		pool = append(pool, "é", "aéb", "世界", "🙂", "ß")
	}
	return strconv.Quote(pool[g.R.Intn(len(pool))])
}

// Expr generates an expression of type t.
func (g *ProgGen) Expr(t GT, d int) string {
	vs := g.varsOf(t)
	if d <= 0 || g.R.Intn(4) == 0 {
		if len(vs) > 0 && g.R.Intn(3) != 0 {
			return vs[g.R.Intn(len(vs))].name
		}
		return g.literal(t, d)
	}
	switch t {
	case TNum:
		switch g.R.Intn(9) {
		case 0, 1, 2:
			op := []string{"+", "-", "*", "/", "%"}[g.R.Intn(5)]
			g.feat("num" + op)
			return g.bin(g.Expr(TNum, d-1), op, g.Expr(TNum, d-1))
		case 3:
			g.feat("neg")
			return "-" + g.atom(TNum, d-1)
		case 4:
			g.feat("group")
			return "(" + g.Expr(TNum, d-1) + ")"
		case 5:
			if as := g.varsOf(TNums); len(as) > 0 {
				g.feat("index")
				return as[g.R.Intn(len(as))].name + "[" + g.smallIdx() + "]"
			}
		case 6:
			if g.O.Maps {
				if ms := g.varsOf(TMapN); len(ms) > 0 {
					g.feat("mapget")
					m := ms[g.R.Intn(len(ms))].name
					k := []string{"a", "b", "c"}[g.R.Intn(3)]
					if g.R.Intn(2) == 0 && !g.O.VM {
						return m + "." + k
					}
					return m + "[" + strconv.Quote(k) + "]"
				}
			}
		case 7:
			if g.O.Builtins {
				g.feat("builtin-num")
				switch g.R.Intn(6) {
				case 0:
					return "(len " + g.atom(g.lenType(), d-1) + ")"
				case 1:
					return "(min " + g.atom(TNum, d-1) + " " + g.atom(TNum, d-1) + ")"
				case 2:
					return "(abs " + g.atom(TNum, d-1) + ")"
				case 3:
					return "(floor " + g.atom(TNum, d-1) + ")"
				case 4:
					if g.O.Strings {
						return "(str2num " + g.atom(TStr, d-1) + ")"
					}
				case 5:
					return "(max " + g.atom(TNum, d-1) + " " + g.atom(TNum, d-1) + ")"
				}
			}
		case 8:
			if g.O.Funcs {
				if c := g.callOf(TNum, d); c != "" {
					return c
				}
			}
		}
		return g.literal(t, d)
	case TBool:
		switch g.R.Intn(8) {
		case 0, 1:
			op := []string{"<", "<=", ">", ">=", "==", "!="}[g.R.Intn(6)]
			g.feat("cmp" + op)
			return g.bin(g.Expr(TNum, d-1), op, g.Expr(TNum, d-1))
		case 2:
			if g.O.VM && g.R.Intn(10) != 0 {
				return g.literal(t, d)
			}
			op := []string{"and", "or"}[g.R.Intn(2)]
			g.feat(op)
			return g.Expr(TBool, d-1) + " " + op + " " + g.Expr(TBool, d-1)
		case 3:
			g.feat("not")
			return "!" + g.atom(TBool, d-1)
		case 4:
			if g.O.Strings {
				op := []string{"<", "<=", ">", ">=", "==", "!="}[g.R.Intn(6)]
				g.feat("strcmp")
				return g.bin(g.Expr(TStr, d-1), op, g.Expr(TStr, d-1))
			}
		case 5:
			g.feat("arr==")
			return g.bin(g.Expr(TNums, d-1), []string{"==", "!="}[g.R.Intn(2)], g.Expr(TNums, d-1))
		case 6:
			g.feat("group")
			return "(" + g.Expr(TBool, d-1) + ")"
		case 7:
			if g.O.Maps && g.O.Builtins {
				if ms := g.varsOf(TMapN); len(ms) > 0 {
					return "(has " + ms[g.R.Intn(len(ms))].name + " " + strconv.Quote([]string{"a", "b", "c"}[g.R.Intn(3)]) + ")"
				}
			}
		}
		return g.literal(t, d)
	case TStr:
		switch g.R.Intn(7) {
		case 0, 1:
			g.feat("str+")
			return g.bin(g.Expr(TStr, d-1), "+", g.Expr(TStr, d-1))
		case 2:
			if ss := g.varsOf(TStr); len(ss) > 0 {
				g.feat("strindex")
				return ss[g.R.Intn(len(ss))].name + "[" + g.smallIdx() + "]"
			}
		case 3:
			if ss := g.varsOf(TStr); len(ss) > 0 {
				g.feat("strslice")
				return ss[g.R.Intn(len(ss))].name + "[" + g.sliceBounds() + "]"
			}
		case 4:
			if as := g.varsOf(TStrs); len(as) > 0 {
				return as[g.R.Intn(len(as))].name + "[" + g.smallIdx() + "]"
			}
		case 5:
			if g.O.Builtins {
				g.feat("builtin-str")
				switch g.R.Intn(5) {
				case 0:
					return "(upper " + g.atom(TStr, d-1) + ")"
				case 1:
					return "(sprint " + g.atom(g.pickType(), d-1) + " " + g.atom(TNum, d-1) + ")"
				case 2:
					return "(typeof " + g.atom(g.pickType(), d-1) + ")"
				case 3:
					return "(join " + g.atom(TNums, d-1) + " " + g.atom(TStr, 0) + ")"
				case 4:
					return "(replace " + g.atom(TStr, d-1) + " \"a\" " + g.atom(TStr, 0) + ")"
				}
			}
		case 6:
			if g.O.Funcs {
				if c := g.callOf(TStr, d); c != "" {
					return c
				}
			}
		}
		return g.literal(t, d)
	case TNums:
		switch g.R.Intn(6) {
		case 0:
			g.feat("arr+")
			return g.bin(g.Expr(TNums, d-1), "+", g.Expr(TNums, d-1))
		case 1:
			g.feat("arr*")
			return g.bin(g.atom(TNums, d-1), "*", strconv.Itoa(g.R.Intn(4)))
		case 2:
			if as := g.varsOf(TNums); len(as) > 0 {
				g.feat("arrslice")
				return as[g.R.Intn(len(as))].name + "[" + g.sliceBounds() + "]"
			}
		case 3:
			if !g.O.VM {
				if as := g.varsOf(TNumss); len(as) > 0 {
					return as[g.R.Intn(len(as))].name + "[" + g.smallIdx() + "]"
				}
			}
		}
		return g.literal(t, d)
	case TAny:
		if vs := g.varsOf(TAny); len(vs) > 0 && g.R.Intn(2) == 0 {
			return vs[g.R.Intn(len(vs))].name
		}
		return g.literal(t, d)
	}
	return g.literal(t, d)
}

func (g *ProgGen) lenType() GT {
	ts := []GT{TNums}
	if g.O.Strings {
		ts = append(ts, TStr)
	}
	if g.O.Maps {
		ts = append(ts, TMapN)
	}
	return ts[g.R.Intn(len(ts))]
}

// bin renders a binary expression with a random legal layout (spaces around the operator or none).
func (g *ProgGen) bin(l, op, r string) string {
	if g.R.Intn(4) == 0 && op != "and" && op != "or" && !strings.HasPrefix(r, "-") {
		return l + op + r
	}
	return l + " " + op + " " + r
}

// atom: an expression safe as an argument / operand without grouping issues.
func (g *ProgGen) atom(t GT, d int) string {
	e := g.Expr(t, d)
	if isAtomic(e) {
		return e
	}
	return "(" + e + ")"
}

func isAtomic(e string) bool {
	depthP, depthB, depthC, inStr := 0, 0, 0, false
	for i := 0; i < len(e); i++ {
		c := e[i]
		switch {
		case inStr:
			if c == '\\' {
				i++
			} else if c == '"' {
				inStr = false
			}
		case c == '"':
			inStr = true
		case c == '(':
			depthP++
		case c == ')':
			depthP--
		case c == '[':
			depthB++
		case c == ']':
			depthB--
		case c == '{':
			depthC++
		case c == '}':
			depthC--
		case depthP == 0 && depthB == 0 && depthC == 0 && (c == ' ' || c == '+' || c == '*' || c == '/' || c == '%' || c == '<' || c == '>' || c == '=' || c == '!' || (c == '-')):
			return false
		}
	}
	return true
}

func (g *ProgGen) smallIdx() string {
	if g.R.Intn(8) == 0 {
		return "-1"
	}
	return strconv.Itoa(g.R.Intn(3))
}

func (g *ProgGen) sliceBounds() string {
	a, b := "", ""
	if g.R.Intn(3) != 0 {
		a = strconv.Itoa(g.R.Intn(2))
	}
	if g.R.Intn(3) != 0 {
		b = strconv.Itoa(1 + g.R.Intn(2))
	}
	return a + ":" + b
}

func (g *ProgGen) literal(t GT, d int) string {
	switch t {
	case TNum:
		return g.numLit()
	case TBool:
		return []string{"true", "false"}[g.R.Intn(2)]
	case TStr:
		return g.strLit()
	case TNums:
		n := g.R.Intn(4)
		if n == 0 {
			return "[0]"
		}
		el := make([]string, n)
		for i := range el {
			el[i] = g.elem(TNum, d-1)
		}
		return "[" + strings.Join(el, " ") + "]"
	case TStrs:
		n := 1 + g.R.Intn(3)
		el := make([]string, n)
		for i := range el {
			el[i] = g.elem(TStr, d-1)
		}
		return "[" + strings.Join(el, " ") + "]"
	case TNumss:
		n := 1 + g.R.Intn(2)
		el := make([]string, n)
		for i := range el {
			el[i] = g.literal(TNums, 0)
		}
		return "[" + strings.Join(el, " ") + "]"
	case TMapN:
		return g.mapLit(TNum, d)
	case TMapS:
		return g.mapLit(TStr, d)
	case TMapA:
		return "{a:1 b:\"x\" c:true}"
	case TAnys:
		return "[1 \"a\" true]"
	case TAny:
		return g.literal([]GT{TNum, TBool, TNums}[g.R.Intn(3)], 0)
	}
	return "0"
}

func (g *ProgGen) mapLit(vt GT, d int) string {
	keys := []string{"a", "b", "c"}
	n := 1 + g.R.Intn(3)
	parts := make([]string, n)
	for i := 0; i < n; i++ {
		parts[i] = keys[i] + ":" + g.elem(vt, d-1)
	}
	return "{" + strings.Join(parts, " ") + "}"
}

// elem: element of an array/map literal or an argument: whitespace sensitive context, so
// binary expressions must be tight or grouped.
func (g *ProgGen) elem(t GT, d int) string {
	if d <= 0 || g.R.Intn(2) == 0 {
		vs := g.varsOf(t)
		if len(vs) > 0 && g.R.Intn(2) == 0 {
			return vs[g.R.Intn(len(vs))].name
		}
		return g.literal(t, 0)
	}
	return g.atom(t, d)
}

func (g *ProgGen) callOf(t GT, d int) string {
	var cands []gfunc
	for _, f := range g.funcs {
		if f.ret == t && (g.inFunc == nil || f.name < g.inFunc.name) {
			cands = append(cands, f)
		}
	}
	if len(cands) == 0 {
		return ""
	}
	f := cands[g.R.Intn(len(cands))]
	g.feat("call")
	s := "(" + f.name
	for _, p := range f.params {
		s += " " + g.elem(p, d-1)
	}
	return s + ")"
}

func (g *ProgGen) push()          { g.scopes = append(g.scopes, nil) }
func (g *ProgGen) declare(v gvar) { g.scopes[len(g.scopes)-1] = append(g.scopes[len(g.scopes)-1], v) }

// pop closes a block scope, emitting a use of every variable declared in it.
func (g *ProgGen) pop(indent int) {
	top := g.scopes[len(g.scopes)-1]
	for _, v := range top {
		g.use(indent, v)
	}
	g.scopes = g.scopes[:len(g.scopes)-1]
}

func (g *ProgGen) use(indent int, v gvar) {
	if g.O.VM {
		g.w(indent, v.name+" = "+v.name)
	} else {
		g.w(indent, "print "+strconv.Quote(v.name)+" "+v.name)
	}
}

// Block generates statements of one block; caller handles scope push/pop.
func (g *ProgGen) Block(indent, depth int) {
	n := 1 + g.R.Intn(g.O.MaxStmts)
	for i := 0; i < n; i++ {
		g.Stmt(indent, depth)
	}
}

// Stmt emits one statement.
func (g *ProgGen) Stmt(indent, depth int) {
	k := g.R.Intn(14)
	if depth <= 0 && k >= 7 && k <= 11 {
		k = g.R.Intn(7)
	}
	switch k {
	case 0, 1, 2:
		t := g.pickType()
		name := g.fresh()
		e := g.Expr(t, g.O.ExprDepth)
		if t == TAny {
			if g.O.VM {
				return
			}
			g.w(indent, name+":any")
			g.w(indent, name+" = "+e)
		} else {
			g.w(indent, name+" := "+e)
		}
		g.feat("decl")
		g.declare(gvar{name: name, t: t})
	case 3, 4:
		// assignment to an existing variable
		t := g.pickType()
		var vs []gvar
		for _, v := range g.varsOf(t) {
			if !v.ro {
				vs = append(vs, v)
			}
		}
		if len(vs) == 0 {
			g.Stmt(indent, depth-1+1)
			return
		}
		v := vs[g.R.Intn(len(vs))]
		g.feat("assign")
		e := g.Expr(t, g.O.ExprDepth)
		if (t == TNums || t == TNumss || t == TStrs || t == TAnys) && (strings.Contains(e, "+") || strings.Contains(e, "*")) {
			// an array assigned a concatenation or repetition of arrays grows geometrically when the
			// statement is executed repeatedly (in a loop, or in a function called from one): programs
			// that need astronomical time and memory say nothing about the properties
			for _, a := range append(append(append(g.varsOf(TNums), g.varsOf(TNumss)...), g.varsOf(TStrs)...), g.varsOf(TAnys)...) {
				if strings.Contains(e, a.name) {
					e = g.literal(t, 1)
					break
				}
			}
		}
		if t == TStr {
			// a string assigned an expression that mentions string variables twice (s + s, replace s "a" s)
			// doubles or squares its length on every execution: a handful of loop iterations ask the host
			// for terabytes (the recorded C02 finding data-growth-exhausts-host-memory), which kills an
			// in-process harness
			mentions := 0
			for _, a := range g.varsOf(TStr) {
				mentions += strings.Count(e, a.name)
			}
			if mentions >= 2 {
				e = g.literal(t, 1)
			}
		}
		g.w(indent, v.name+" = "+e)
	case 5:
		// element assignment
		if as := g.varsOf(TNums); len(as) > 0 && g.R.Intn(2) == 0 {
			g.feat("assign-index")
			g.w(indent, as[g.R.Intn(len(as))].name+"["+g.smallIdx()+"] = "+g.Expr(TNum, 2))
			return
		}
		if g.O.Maps {
			if ms := g.varsOf(TMapN); len(ms) > 0 {
				g.feat("assign-map")
				m := ms[g.R.Intn(len(ms))].name
				k := []string{"a", "b", "c", "d"}[g.R.Intn(4)]
				if g.R.Intn(2) == 0 && !g.O.VM {
					g.w(indent, m+"."+k+" = "+g.Expr(TNum, 2))
				} else {
					g.w(indent, m+"["+strconv.Quote(k)+"] = "+g.Expr(TNum, 2))
				}
				return
			}
		}
		g.Stmt(indent, depth)
	case 6:
		if g.O.VM {
			g.Stmt(indent, depth)
			return
		}
		g.feat("print")
		n := 1 + g.R.Intn(3)
		parts := make([]string, n)
		for i := range parts {
			parts[i] = g.elem(g.pickType(), 2)
		}
		g.w(indent, "print "+strings.Join(parts, " "))
	case 7:
		g.feat("if")
		g.w(indent, "if "+g.Expr(TBool, g.O.ExprDepth))
		g.push()
		g.Block(indent+1, depth-1)
		g.pop(indent + 1)
		for g.R.Intn(3) == 0 {
			g.feat("elseif")
			g.w(indent, "else if "+g.Expr(TBool, 2))
			g.push()
			g.Block(indent+1, depth-1)
			g.pop(indent + 1)
		}
		if g.R.Intn(2) == 0 {
			g.feat("else")
			g.w(indent, "else")
			g.push()
			g.Block(indent+1, depth-1)
			g.pop(indent + 1)
		}
		g.w(indent, "end")
	case 8:
		g.feat("while")
		c := g.fresh()
		g.w(indent, c+" := 0")
		g.declare(gvar{name: c, t: TNum, ro: true})
		lim := 1 + g.R.Intn(4)
		cond := c + " < " + strconv.Itoa(lim)
		if g.R.Intn(3) == 0 && !g.O.VM {
			cond += " and " + g.Expr(TBool, 1)
		}
		g.w(indent, "while "+cond)
		g.push()
		g.inLoop++
		g.w(indent+1, c+" = "+c+" + 1")
		g.Block(indent+1, depth-1)
		g.maybeBreak(indent + 1)
		g.inLoop--
		g.pop(indent + 1)
		g.w(indent, "end")
	case 9, 10:
		g.feat("for")
		g.forStmt(indent, depth)
	case 11:
		if g.inLoop > 0 && g.R.Intn(2) == 0 {
			g.feat("if-break")
			g.w(indent, "if "+g.Expr(TBool, 2))
			g.w(indent+1, "break")
			g.w(indent, "end")
			return
		}
		g.Stmt(indent, depth-1)
	case 12:
		if g.O.Funcs && !g.O.VM && len(g.funcs) > 0 {
			// call a procedure
			var procs []gfunc
			for _, f := range g.funcs {
				if f.ret == "" && (g.inFunc == nil || f.name < g.inFunc.name) {
					procs = append(procs, f)
				}
			}
			if len(procs) > 0 {
				f := procs[g.R.Intn(len(procs))]
				s := f.name
				for _, p := range f.params {
					s += " " + g.elem(p, 2)
				}
				g.feat("proc-call")
				g.w(indent, s)
				return
			}
		}
		g.Stmt(indent, depth)
	case 13:
		if g.O.Tests && !g.O.VM && g.R.Intn(2) == 0 {
			g.feat("test")
			t := []GT{TNum, TBool, TNums}[g.R.Intn(3)]
			g.w(indent, "test "+g.elem(t, 2)+" "+g.elem(t, 2))
			return
		}
		if g.O.Maps && g.O.Builtins && !g.O.VM {
			if ms := g.varsOf(TMapN); len(ms) > 0 {
				g.feat("del")
				g.w(indent, "del "+ms[g.R.Intn(len(ms))].name+" "+strconv.Quote([]string{"a", "b", "c"}[g.R.Intn(3)]))
				return
			}
		}
		g.Stmt(indent, depth)
	}
}

func (g *ProgGen) maybeBreak(indent int) {
	if g.R.Intn(4) == 0 {
		g.feat("if-break")
		g.w(indent, "if "+g.Expr(TBool, 2))
		g.w(indent+1, "break")
		g.w(indent, "end")
	}
}

func (g *ProgGen) forStmt(indent, depth int) {
	lv := g.fresh()
	hasVar := g.R.Intn(5) != 0
	hdr := "for "
	if hasVar {
		hdr += lv + " := "
	}
	var vt GT
	switch k := g.R.Intn(6); {
	case k <= 2:
		// step range
		switch g.R.Intn(4) {
		case 0:
			hdr += "range " + strconv.Itoa(g.R.Intn(4))
		case 1:
			hdr += "range " + strconv.Itoa(g.R.Intn(3)) + " " + strconv.Itoa(g.R.Intn(6))
		case 2:
			hdr += "range " + strconv.Itoa(g.R.Intn(6)) + " " + strconv.Itoa(g.R.Intn(3)) + " -" + strconv.Itoa(1+g.R.Intn(2))
		case 3:
			hdr += "range " + g.atom(TNum, 1) + " " + strconv.Itoa(g.R.Intn(6)) + " " + []string{"1", "2", "0.5", "3"}[g.R.Intn(4)]
		}
		vt = TNum
	case k == 3:
		hdr += "range " + g.atom(TNums, 2)
		vt = TNum
	case k == 4 && g.O.Strings:
		hdr += "range " + g.atom(TStr, 1)
		vt = TStr
	case k == 5 && g.O.Maps:
		hdr += "range " + g.atom(TMapN, 1)
		vt = TStr
	default:
		hdr += "range " + strconv.Itoa(1+g.R.Intn(3))
		vt = TNum
	}
	g.w(indent, hdr)
	g.push()
	if hasVar {
		// loop variable: counts as declared; must be used
		g.scopes[len(g.scopes)-1] = append(g.scopes[len(g.scopes)-1], gvar{name: lv, t: vt})
	}
	g.inLoop++
	g.Block(indent+1, depth-1)
	g.maybeBreak(indent + 1)
	g.inLoop--
	g.pop(indent + 1)
	g.w(indent, "end")
}

// Program generates a whole program and returns its source.
func (g *ProgGen) Program() string {
	g.sb.Reset()
	g.scopes = [][]gvar{nil}
	g.funcs = nil
	// declare function signatures first so that they can be called before definition
	type fdef struct {
		f      gfunc
		pnames []string
	}
	var defs []fdef
	if g.O.Funcs && !g.O.VM {
		n := g.R.Intn(3)
		for i := 0; i < n; i++ {
			f := gfunc{name: "fn" + strconv.Itoa(i)}
			np := g.R.Intn(3)
			var pn []string
			for j := 0; j < np; j++ {
				f.params = append(f.params, []GT{TNum, TNum, TNums, TBool}[g.R.Intn(4)])
				pn = append(pn, "p"+strconv.Itoa(j))
			}
			if g.R.Intn(3) != 0 {
				f.ret = []GT{TNum, TNum, TStr}[g.R.Intn(3)]
				if f.ret == TStr && !g.O.Strings {
					f.ret = TNum
				}
			}
			g.funcs = append(g.funcs, f)
			defs = append(defs, fdef{f, pn})
		}
	}
	// some globals first
	for i := 0; i < 2; i++ {
		t := []GT{TNum, TNums}[i]
		name := g.fresh()
		g.w(0, name+" := "+g.literal(t, 1))
		g.declare(gvar{name: name, t: t, global: true})
	}
	emitFuncs := func() {
		for _, d := range defs {
			f := d.f
			hdr := "func " + f.name
			if f.ret != "" {
				hdr += ":" + string(f.ret)
			}
			for j, p := range f.params {
				hdr += " " + d.pnames[j] + ":" + string(p)
			}
			g.w(0, hdr)
			saved := g.scopes
			g.scopes = [][]gvar{saved[0], nil}
			g.funcBase = 1
			ff := f
			g.inFunc = &ff
			savedLoop := g.inLoop
			g.inLoop = 0
			for j, p := range f.params {
				g.declare(gvar{name: d.pnames[j], t: p})
			}
			g.Block(1, 1)
			// use params
			for _, v := range g.scopes[1] {
				g.use(1, v)
			}
			if f.ret != "" {
				g.w(1, "return "+g.Expr(f.ret, 2))
			}
			g.w(0, "end")
			g.inFunc = nil
			g.inLoop = savedLoop
			g.scopes = saved
			g.funcBase = 0
		}
	}
	if g.R.Intn(2) == 0 {
		emitFuncs()
		defs = nil
	}
	g.Block(0, g.O.MaxDepth)
	for len(g.scopes) > 1 {
		g.pop(0)
	}
	for _, v := range g.scopes[0] {
		g.use(0, v)
	}
	emitFuncs()
	return g.sb.String()
}
