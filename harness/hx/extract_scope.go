package hx

import (
	"fmt"
	"go/ast"
	"strings"
)

func init() { generators = append(generators, genScopeSites) }

// genScopeSites: for every function of the parser that touches the scope chain, the scope operations of its body
// in source order (push / pop / validate / declaration test / set / get / use mark) interleaved with the calls that
// parse a header or a block — the skeleton that Model/Scope.lean transcribes. Props/C05Scope.lean states the
// expected lists; a refactoring that moves a push, a pop or a validateScope changes the generated file and the
// proof obligation `scope_sites_as_modelled` no longer checks.
func genScopeSites(dir string) error {
	var files []*goFile
	for _, f := range []string{"pkg/parser/parser.go", "pkg/parser/expression.go", "pkg/parser/scope.go"} {
		g, err := parseGo(f)
		if err != nil {
			return err
		}
		files = append(files, g)
	}
	classify := func(fun string) string {
		switch fun {
		case "p.pushScope", "p.pushScopeWithNode":
			return "push"
		case "p.popScope":
			return "pop"
		case "p.validateScope":
			return "validate"
		case "p.validateVarDecl":
			return "declTest"
		case "p.scope.set":
			return "set"
		case "p.scope.get":
			return "get"
		case "p.scope.inLocalScope":
			return "inLocal"
		case "p.addParamsToScope", "p.addEventParamsToScope":
			return "params"
		case "p.parseBlock", "p.parseIfBlock", "p.parseBlockWithEndTokens":
			return "block"
		case "p.parseIfConditionalBlock":
			return "condBlock"
		case "p.parseCondition", "p.parseExprList", "p.parseTopLevelExpr":
			return "header"
		case "p.parseStatement", "p.parseFunc", "p.parseEventHandler":
			return "stmt"
		case "s.outer.get":
			return "outer.get"
		}
		return ""
	}
	ops := func(fd *ast.FuncDecl) []string {
		var out []string
		if fd == nil {
			return []string{"MISSING"}
		}
		deferred := map[*ast.CallExpr]bool{}
		ast.Inspect(fd.Body, func(n ast.Node) bool {
			switch s := n.(type) {
			case *ast.DeferStmt:
				deferred[s.Call] = true
			case *ast.CallExpr:
				if c := classify(exprString(s.Fun)); c != "" {
					if deferred[s] {
						c = "defer-" + c
					}
					out = append(out, c)
				}
			case *ast.AssignStmt:
				for i, l := range s.Lhs {
					ls := exprString(l)
					if strings.HasSuffix(ls, ".isUsed") && i < len(s.Rhs) && exprString(s.Rhs[i]) == "true" {
						out = append(out, "mark")
					}
					if ls == "p.scope" && i < len(s.Rhs) {
						rs := exprString(s.Rhs[i])
						switch {
						case strings.HasPrefix(rs, "newScope"):
							out = append(out, "push")
						case rs == "p.scope.outer":
							out = append(out, "to-outer")
						case rs == "s":
							out = append(out, "to-given")
						}
					}
				}
			}
			return true
		})
		return out
	}
	find := func(name string) *ast.FuncDecl {
		for _, g := range files {
			if fd := g.funcDeclRecv("parser", name); fd != nil {
				return fd
			}
			if fd := g.funcDeclRecv("scope", name); fd != nil {
				return fd
			}
		}
		return nil
	}
	var b strings.Builder
	b.WriteString("/-- pkg/parser: the scope operations of each function that touches the scope chain, in source order -/\ndef scopeSites : List (String × List String) := [\n")
	names := []string{"parseProgram", "parseFunc", "parseEventHandler", "addParamsToScope", "addEventParamsToScope", "parseIfStatement", "parseIfConditionalBlock", "parseWhileStatement",
		"parseForStatement", "parseBlockWithEndTokens", "parseTypedDeclStatement", "parseInferredDeclStatement", "parseAssignmentTarget", "lookupVar", "validateVarDecl", "validateScope",
		"pushScope", "pushScopeWithNode", "popScope", "get", "set", "inLocalScope"}
	for i, n := range names {
		sep := ","
		if i == len(names)-1 {
			sep = ""
		}
		fmt.Fprintf(&b, "  (%s, %s)%s\n", leanStr(n), leanStrList(ops(find(n))), sep)
	}
	b.WriteString("]\n\n")
	// every other function of the parser package that touches the chain or the marks: there must be none
	var others []string
	known := map[string]bool{}
	for _, n := range names {
		known[n] = true
	}
	for _, g := range files {
		for _, d := range g.file.Decls {
			fd, ok := d.(*ast.FuncDecl)
			if !ok || fd.Body == nil || known[fd.Name.Name] {
				continue
			}
			for _, o := range ops(fd) {
				switch o {
				case "push", "pop", "defer-pop", "validate", "set", "mark", "to-outer", "to-given", "declTest":
					others = append(others, fd.Name.Name+":"+o)
				}
			}
		}
	}
	fmt.Fprintf(&b, "/-- scope operations in any other function of parser.go, expression.go, scope.go -/\ndef scopeSitesElsewhere : List String := %s\n", leanStrList(others))
	// break and return: what parseBreakStatement and parseReturnStatement consult
	var loopKinds, retConds, scopeCtors []string
	walksOuter := false
	if fd := files[0].funcDecl("inLoop"); fd != nil {
		ast.Inspect(fd.Body, func(n ast.Node) bool {
			switch x := n.(type) {
			case *ast.CaseClause:
				for _, e := range x.List {
					loopKinds = append(loopKinds, exprString(e))
				}
			case *ast.ForStmt:
				if x.Post != nil {
					if as, ok := x.Post.(*ast.AssignStmt); ok && len(as.Rhs) == 1 && exprString(as.Lhs[0]) == "s" && exprString(as.Rhs[0]) == "s.outer" {
						walksOuter = true
					}
				}
			}
			return true
		})
	}
	if fd := find("parseReturnStatement"); fd != nil {
		ast.Inspect(fd.Body, func(n ast.Node) bool {
			if sw, ok := n.(*ast.SwitchStmt); ok && sw.Tag == nil {
				for _, c := range sw.Body.List {
					if cc, ok := c.(*ast.CaseClause); ok {
						for _, e := range cc.List {
							retConds = append(retConds, exprString(e))
						}
					}
				}
			}
			return true
		})
	}
	brkCalls := []string{}
	if fd := find("parseBreakStatement"); fd != nil {
		ast.Inspect(fd.Body, func(n ast.Node) bool {
			if c, ok := n.(*ast.CallExpr); ok && exprString(c.Fun) == "inLoop" && len(c.Args) == 1 {
				brkCalls = append(brkCalls, "inLoop("+exprString(c.Args[0])+")")
			}
			return true
		})
	}
	for _, g := range files {
		for _, d := range g.file.Decls {
			fd, ok := d.(*ast.FuncDecl)
			if !ok || fd.Body == nil {
				continue
			}
			ast.Inspect(fd.Body, func(n ast.Node) bool {
				if c, ok := n.(*ast.CallExpr); ok && exprString(c.Fun) == "newScopeWithReturnType" && len(c.Args) == 3 {
					scopeCtors = append(scopeCtors, fd.Name.Name+": "+exprString(c.Args[2]))
				}
				return true
			})
		}
	}
	fmt.Fprintf(&b, "\n/-- parser.go inLoop: the node kinds that make a scope a loop, and whether the whole chain is walked -/\ndef inLoopKinds : List String := %s\ndef inLoopWalksOuter : Bool := %v\n", leanStrList(loopKinds), walksOuter)
	fmt.Fprintf(&b, "/-- parseBreakStatement: its calls of inLoop -/\ndef breakConsults : List String := %s\n", leanStrList(brkCalls))
	fmt.Fprintf(&b, "/-- parseReturnStatement: the conditions of its verdict, in order -/\ndef returnConds : List String := %s\n", leanStrList(retConds))
	fmt.Fprintf(&b, "/-- every construction of a scope with a result type: function, what it passes -/\ndef scopeReturnTypes : List String := %s\n", leanStrList(scopeCtors))
	return writeGen(dir, "ScopeSites", b.String())
}
