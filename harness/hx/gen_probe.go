package hx

import "fmt"

// GenProbe prints acceptance statistics of the generator (development aid).
func GenProbe(n int, vm bool) {
	rng := Rng()
	o := GenOpts{VM: vm, Funcs: true, Any: true, Maps: true, Strings: true, Builtins: true, Tests: false, NonAscii: true, Special: true}
	acc, classes := 0, map[string]int{}
	shown := 0
	for i := 0; i < n; i++ {
		g := NewProgGen(rng, o)
		src := g.Program()
		res := RunSrc(src, RunOpts{MaxYield: 20000})
		classes[res.Class]++
		if res.Class != "rejected" {
			acc++
		} else if shown < 4 {
			shown++
			fmt.Println("---- rejected:", res.ParseErr)
			fmt.Println(src)
		}
		if res.Class == "gopanic" && shown < 8 {
			shown++
			fmt.Println("---- gopanic:", res.GoPanic)
			fmt.Println(src)
		}
	}
	fmt.Println("accepted", acc, "of", n, classes)
}
