package hx

import (
	"fmt"
	"go/ast"
	"go/token"
	"sort"
	"strings"
)

func init() { generators = append(generators, genSites) }

// typeSwitchCases returns the case type names (without package and star) of the first type switch
// in fd, and whether it has a default clause; dflt is the default body rendered (for classification).
func typeSwitchCases(fd *ast.FuncDecl) (cases []string, hasDefault bool, defaultReturnsErr bool) {
	if fd == nil {
		return nil, false, false
	}
	var ts *ast.TypeSwitchStmt
	ast.Inspect(fd.Body, func(n ast.Node) bool {
		if ts != nil {
			return false
		}
		if t, ok := n.(*ast.TypeSwitchStmt); ok {
			ts = t
			return false
		}
		return true
	})
	if ts == nil {
		return nil, false, false
	}
	for _, c := range ts.Body.List {
		cc := c.(*ast.CaseClause)
		if cc.List == nil {
			hasDefault = true
			for _, st := range cc.Body {
				if rs, ok := st.(*ast.ReturnStmt); ok {
					for _, r := range rs.Results {
						s := exprString(r)
						if strings.Contains(s, "Errorf") || strings.Contains(s, "Err") {
							defaultReturnsErr = true
						}
					}
				}
			}
			continue
		}
		for _, e := range cc.List {
			s := exprString(e)
			s = strings.TrimPrefix(s, "*")
			s = strings.TrimPrefix(s, "parser.")
			cases = append(cases, s)
		}
	}
	return cases, hasDefault, defaultReturnsErr
}

// fallThroughReturnsErr: the statement after the type switch at function level is `return ..., err-ish`.
func lastReturnIsErr(fd *ast.FuncDecl) bool {
	if fd == nil || len(fd.Body.List) == 0 {
		return false
	}
	rs, ok := fd.Body.List[len(fd.Body.List)-1].(*ast.ReturnStmt)
	if !ok {
		return false
	}
	for _, r := range rs.Results {
		s := exprString(r)
		if strings.Contains(s, "Errorf") || strings.Contains(s, "ErrUnknown") || strings.Contains(s, "ErrUnsupported") {
			return true
		}
	}
	return false
}

func genSites(dir string) error {
	var b strings.Builder
	// 1. node kinds of the AST: struct types in ast.go with a Type() method
	astf, err := parseGo("pkg/parser/ast.go")
	if err != nil {
		return err
	}
	kinds := map[string]bool{}
	for _, d := range astf.file.Decls {
		fd, ok := d.(*ast.FuncDecl)
		if !ok || fd.Recv == nil || fd.Name.Name != "Type" {
			continue
		}
		t := fd.Recv.List[0].Type
		if st, ok := t.(*ast.StarExpr); ok {
			t = st.X
		}
		if id, ok := t.(*ast.Ident); ok {
			kinds[id.Name] = true
		}
	}
	kl := SortedKeys(kinds)
	fmt.Fprintf(&b, "/-- every AST node kind (struct with a Type method) of pkg/parser/ast.go -/\ndef nodeKinds : List String := %s\n\n", leanStrList(kl))

	ev, err := parseGo("pkg/evaluator/evaluator.go")
	if err != nil {
		return err
	}
	ec, ed, _ := typeSwitchCases(ev.funcDeclRecv("Evaluator", "eval"))
	sort.Strings(ec)
	fmt.Fprintf(&b, "def evalCases : List String := %s\ndef evalHasDefault : Bool := %v\ndef evalFallThroughIsError : Bool := %v\n\n", leanStrList(ec), ed, lastReturnIsErr(ev.funcDeclRecv("Evaluator", "eval")))

	comp, err := parseGo("pkg/bytecode/compiler.go")
	if err != nil {
		return err
	}
	cc, cd, cde := typeSwitchCases(comp.funcDeclRecv("Compiler", "Compile"))
	sort.Strings(cc)
	fmt.Fprintf(&b, "def compileCases : List String := %s\ndef compileHasDefault : Bool := %v\ndef compileDefaultIsError : Bool := %v\n\n", leanStrList(cc), cd, cde || lastReturnIsErr(comp.funcDeclRecv("Compiler", "Compile")))
	ac, ad, ade := typeSwitchCases(comp.funcDeclRecv("Compiler", "compileAssignment"))
	sort.Strings(ac)
	fmt.Fprintf(&b, "def compileAssignTargets : List String := %s\ndef compileAssignHasDefault : Bool := %v\ndef compileAssignDefaultIsError : Bool := %v\n\n", leanStrList(ac), ad, ade)

	ff, err := parseGo("pkg/parser/format.go")
	if err != nil {
		return err
	}
	fc, fd, _ := typeSwitchCases(ff.funcDeclRecv("formatting", "format"))
	sort.Strings(fc)
	fmt.Fprintf(&b, "def formatCases : List String := %s\ndef formatHasDefault : Bool := %v\n\n", leanStrList(fc), fd)

	// 2. map-range sites, goroutines, channel operations, time reads, %p formatting (C08)
	pkgs := []string{"pkg/lexer", "pkg/parser", "pkg/evaluator", "pkg/bytecode", "pkg/cli", "pkg/cli/svg", "."}
	var mapRanges, goStmts, timeReads, ptrFmt []string
	for _, p := range pkgs {
		files, err := parseDir(p)
		if err != nil {
			return err
		}
		mapVars := collectMapTyped(files)
		for _, gf := range files {
			for _, d := range gf.file.Decls {
				fd, ok := d.(*ast.FuncDecl)
				if !ok || fd.Body == nil {
					continue
				}
				fname := fd.Name.Name
				if fd.Recv != nil && len(fd.Recv.List) > 0 {
					t := fd.Recv.List[0].Type
					if st, ok := t.(*ast.StarExpr); ok {
						t = st.X
					}
					fname = exprString(t) + "." + fname
				}
				local := localMapVars(fd, mapVars)
				idx := 0
				ast.Inspect(fd.Body, func(n ast.Node) bool {
					switch n := n.(type) {
					case *ast.RangeStmt:
						if isMapExpr(n.X, local, mapVars) {
							idx++
							mapRanges = append(mapRanges, fmt.Sprintf("%s:%s:%s#%d", gf.path, fname, exprString(n.X), idx))
						}
					case *ast.GoStmt:
						goStmts = append(goStmts, fmt.Sprintf("%s:%s:go", gf.path, fname))
					case *ast.SendStmt:
						goStmts = append(goStmts, fmt.Sprintf("%s:%s:chan-send", gf.path, fname))
					case *ast.UnaryExpr:
						if n.Op == token.ARROW {
							goStmts = append(goStmts, fmt.Sprintf("%s:%s:chan-recv", gf.path, fname))
						}
					case *ast.SelectStmt:
						goStmts = append(goStmts, fmt.Sprintf("%s:%s:select", gf.path, fname))
					case *ast.CallExpr:
						s := exprString(n.Fun)
						if s == "time.Now" || s == "time.Since" || s == "time.Sleep" || s == "time.After" || s == "time.Tick" {
							timeReads = append(timeReads, fmt.Sprintf("%s:%s:%s", gf.path, fname, s))
						}
						for _, a := range n.Args {
							if bl, ok := a.(*ast.BasicLit); ok && bl.Kind == token.STRING && strings.Contains(bl.Value, "%p") {
								ptrFmt = append(ptrFmt, fmt.Sprintf("%s:%s:%%p", gf.path, fname))
							}
						}
					}
					return true
				})
			}
			// package level time reads (var initialisers)
			for _, d := range gf.file.Decls {
				gd, ok := d.(*ast.GenDecl)
				if !ok || gd.Tok != token.VAR {
					continue
				}
				ast.Inspect(gd, func(n ast.Node) bool {
					if ce, ok := n.(*ast.CallExpr); ok {
						s := exprString(ce.Fun)
						if strings.HasPrefix(s, "time.Now") {
							timeReads = append(timeReads, fmt.Sprintf("%s:<package var>:%s", gf.path, s))
						}
					}
					return true
				})
			}
		}
	}
	sort.Strings(mapRanges)
	sort.Strings(goStmts)
	sort.Strings(timeReads)
	sort.Strings(ptrFmt)
	fmt.Fprintf(&b, "/-- every `for … range` over a map-typed expression in lexer, parser, evaluator, bytecode, cli, cli/svg, main -/\ndef mapRanges : List String := %s\n\n", leanStrListNL(mapRanges))
	fmt.Fprintf(&b, "def goroutineAndChannelSites : List String := %s\n\n", leanStrListNL(goStmts))
	fmt.Fprintf(&b, "def timeSites : List String := %s\n\n", leanStrListNL(timeReads))
	fmt.Fprintf(&b, "def pointerFormatSites : List String := %s\n", leanStrListNL(ptrFmt))
	return writeGen(dir, "Sites", b.String())
}

func leanStrListNL(xs []string) string {
	if len(xs) == 0 {
		return "[]"
	}
	q := make([]string, len(xs))
	for i, x := range xs {
		q[i] = "  " + leanStr(x)
	}
	return "[\n" + strings.Join(q, ",\n") + "\n]"
}

// collectMapTyped: names of struct fields, package vars and named types that are maps (syntactic).
func collectMapTyped(files []*goFile) map[string]bool {
	m := map[string]bool{}
	for _, gf := range files {
		ast.Inspect(gf.file, func(n ast.Node) bool {
			switch n := n.(type) {
			case *ast.Field:
				if _, ok := n.Type.(*ast.MapType); ok {
					for _, nm := range n.Names {
						m[nm.Name] = true
					}
				}
			case *ast.TypeSpec:
				if _, ok := n.Type.(*ast.MapType); ok {
					m["type:"+n.Name.Name] = true
				}
			case *ast.ValueSpec:
				for i, nm := range n.Names {
					if _, ok := n.Type.(*ast.MapType); ok {
						m["var:"+nm.Name] = true
					}
					if i < len(n.Values) {
						if isMapLit(n.Values[i]) {
							m["var:"+nm.Name] = true
						}
					}
				}
			}
			return true
		})
	}
	// fields of other packages' types that the code ranges over
	for _, k := range []string{"Pairs", "Funcs", "Globals", "EventHandlers", "store", "vars", "values", "m"} {
		m[k] = true
	}
	return m
}

func isMapLit(e ast.Expr) bool {
	switch e := e.(type) {
	case *ast.CompositeLit:
		_, ok := e.Type.(*ast.MapType)
		return ok
	case *ast.CallExpr:
		if id, ok := e.Fun.(*ast.Ident); ok && id.Name == "make" && len(e.Args) > 0 {
			_, ok := e.Args[0].(*ast.MapType)
			return ok
		}
	}
	return false
}

// localMapVars: local variables and parameters of fd that are maps (syntactic).
func localMapVars(fd *ast.FuncDecl, known map[string]bool) map[string]bool {
	m := map[string]bool{}
	addField := func(fl *ast.FieldList) {
		if fl == nil {
			return
		}
		for _, f := range fl.List {
			isMap := false
			switch t := f.Type.(type) {
			case *ast.MapType:
				isMap = true
			case *ast.Ident:
				isMap = known["type:"+t.Name]
			}
			if isMap {
				for _, nm := range f.Names {
					m[nm.Name] = true
				}
			}
		}
	}
	addField(fd.Type.Params)
	ast.Inspect(fd.Body, func(n ast.Node) bool {
		if ds, ok := n.(*ast.DeclStmt); ok {
			if gd, ok := ds.Decl.(*ast.GenDecl); ok {
				for _, sp := range gd.Specs {
					if vs, ok := sp.(*ast.ValueSpec); ok {
						if _, ok := vs.Type.(*ast.MapType); ok {
							for _, nm := range vs.Names {
								m[nm.Name] = true
							}
						}
					}
				}
			}
		}
		if as, ok := n.(*ast.AssignStmt); ok {
			for i, l := range as.Lhs {
				if id, ok := l.(*ast.Ident); ok && i < len(as.Rhs) {
					if isMapLit(as.Rhs[i]) {
						m[id.Name] = true
					}
					// x := y.Field where Field is map typed
					if se, ok := as.Rhs[i].(*ast.SelectorExpr); ok && known[se.Sel.Name] {
						m[id.Name] = true
					}
				}
			}
		}
		return true
	})
	return m
}

func isMapExpr(e ast.Expr, local, known map[string]bool) bool {
	switch e := e.(type) {
	case *ast.Ident:
		return local[e.Name] || known["var:"+e.Name]
	case *ast.SelectorExpr:
		return known[e.Sel.Name]
	case *ast.ParenExpr:
		return isMapExpr(e.X, local, known)
	}
	return false
}
