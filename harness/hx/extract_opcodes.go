package hx

import (
	"fmt"
	"go/ast"
	"strings"
)

func init() { generators = append(generators, genOpcodes) }

// genOpcodes extracts the opcode list (iota order), operand widths, StackSize and JumpPlaceholder.
func genOpcodes(dir string) error {
	code, err := parseGo("pkg/bytecode/code.go")
	if err != nil {
		return err
	}
	names := code.constIotaNames("OpConstant")
	if names == nil {
		return fmt.Errorf("opcode const block not found")
	}
	widths := map[string][]string{}
	defs := code.varCompositeLit("definitions")
	if defs == nil {
		return fmt.Errorf("definitions map not found")
	}
	for _, el := range defs.Elts {
		kv := el.(*ast.KeyValueExpr)
		key := exprString(kv.Key)
		val := kv.Value.(*ast.CompositeLit)
		var w []string
		if len(val.Elts) >= 2 {
			if cl, ok := val.Elts[1].(*ast.CompositeLit); ok {
				for _, x := range cl.Elts {
					w = append(w, exprString(x))
				}
			}
		}
		widths[key] = w
	}
	var b strings.Builder
	b.WriteString("/-- (name, byte value, operand widths) for every opcode of pkg/bytecode/code.go, in iota order -/\n")
	b.WriteString("def opcodes : List (String × Nat × List Nat) := [\n")
	for i, n := range names {
		w, ok := widths[n]
		ws := "[" + strings.Join(w, ", ") + "]"
		if !ok {
			ws = "[99]" // opcode without a definition: Make/Lookup fail on it
		}
		sep := ","
		if i == len(names)-1 {
			sep = ""
		}
		fmt.Fprintf(&b, "  (%s, %d, %s)%s\n", leanStr(n), i, ws, sep)
	}
	b.WriteString("]\n\n")
	// constants
	vm, err := parseGo("pkg/bytecode/vm.go")
	if err != nil {
		return err
	}
	comp, err := parseGo("pkg/bytecode/compiler.go")
	if err != nil {
		return err
	}
	fmt.Fprintf(&b, "def stackSize : Nat := %s\n", constValue(vm, "StackSize"))
	fmt.Fprintf(&b, "def jumpPlaceholder : Nat := %s\n", constValue(comp, "JumpPlaceholder"))
	return writeGen(dir, "Opcodes", b.String())
}

func constValue(g *goFile, name string) string {
	for _, d := range g.file.Decls {
		gd, ok := d.(*ast.GenDecl)
		if !ok {
			continue
		}
		for _, s := range gd.Specs {
			vs, ok := s.(*ast.ValueSpec)
			if !ok {
				continue
			}
			for i, n := range vs.Names {
				if n.Name == name && i < len(vs.Values) {
					return exprString(vs.Values[i])
				}
			}
		}
	}
	return "0"
}
