package hx

import (
	"fmt"
	"os"
	"path/filepath"
	"strings"
	"time"
)

// oneRun: every observable of C08 for one run of one source text, in-process.
func c08Obs(src string) string {
	prog, perr, pp := ParseSrc(src)
	if pp != "" {
		return "parse-gopanic: " + pp
	}
	if prog == nil {
		return "errors:\n" + perr
	}
	formatted := prog.Format()
	res, _, globals := RunReal(src, RunOpts{MaxYield: 4000, Input: []string{"in1", "in2"}})
	return "format:\n" + formatted + "\nclass: " + res.Class + " " + res.ErrText + "\ntrace: " + RealTrace(res) + "\nglobals: " + globals
}

// mapOrderProbe measures how often a Go map of n entries shows a different first key on a new range.
func mapOrderProbe(n, trials int) float64 {
	m := map[int]int{}
	for i := 0; i < n; i++ {
		m[i] = i
	}
	first := -1
	diff := 0
	for t := 0; t < trials; t++ {
		for k := range m {
			if first < 0 {
				first = k
			} else if k != first {
				diff++
			}
			break
		}
	}
	return float64(diff) / float64(trials)
}

func c08Programs() []string {
	var out []string
	names := []string{"alpha", "beta", "gamma", "delta", "eps", "zeta"}
	for k := 2; k <= 6; k++ {
		decl := ""
		for i := 0; i < k; i++ {
			decl += names[i] + " := " + fmt.Sprint(i) + "\n"
		}
		out = append(out, decl+"print 1\n")
		out = append(out, "func f\n"+indent(decl, 1)+"    print 1\nend\nf\n")
		out = append(out, "for i := range 2\n"+indent(decl, 1)+"    print i\nend\n")
		out = append(out, "if true\n"+indent(decl, 1)+"    print 1\nend\n")
		params := ""
		for i := 0; i < k; i++ {
			params += " " + names[i] + ":num"
		}
		out = append(out, "func g"+params+"\n    print 1\nend\ng"+strings.Repeat(" 1", k)+"\n")
		out = append(out, "on down"+" x:num y:num\n"+indent(decl, 1)+"    print 1\nend\n")
	}
	// map literal typing and evaluation
	out = append(out,
		"x := [1]\nm := {a:x b:[2] c:[] d:[3 4] e:x}\nprint (typeof m) m\nn:{}[]any\nn = {a:[1] b:[] c:[2]}\nprint (typeof n) n\n",
		"x := [1]\nm := {p:x q:[1] r:[2] s:[3] t:[4]}\nn:{}[]any\nn = {p:[1] q:x}\nprint n\n",
		"m := {a:{} b:{w:1} c:{} d:{v:2} e:{}}\nprint (typeof m) m\nm.a.name = 1\nprint m\n",
		"m := {a:1 b:\"s\" c:true d:[1] e:{} f:2}\nprint (typeof m) m (repr m)\nfor k := range m\n    print k m[k]\nend\n",
		"func n:num s:string\n    print s\n    return 1\nend\nm := {a:(n \"a\") b:(n \"b\") c:(n \"c\") d:(n \"d\") e:(n \"e\") f:(n \"f\")}\nprint m\n",
		"a := [0]\nm := {a:a[0] b:a[5] c:a[6] d:a[1] e:a[7]}\nprint m\n",
		"m := {zulu:1 alpha:2 mike:3 kilo:4 echo:5}\nr := [m] * 3\nprint r\nfor k := range r[1]\n    print k\nend\nr2 := [[m]] * 2\nprint r2 (repr r2)\n",
		"m := {zulu:1 alpha:2 mike:3 kilo:4}\nn := {alpha:2 kilo:4 mike:3 zulu:1}\nprint (m == n) (m != n)\ntest m n\ntest m {zulu:1 alpha:2 mike:3 kilo:5}\n",
		"x:any\nx = {e:1 d:2 c:3 b:4 a:5}\nprint x (typeof x)\ny := x.({}num)\ndel y \"c\"\ny.f = 6\nprint x y\n",
	)
	// comparing maps of one size whose key sets differ and whose shared keys hold different values: the answer may not
	// depend on which key the comparison meets first
	out = append(out,
		"m := {k1:1 k2:2 k3:3 k4:4 p1:0 p2:0}\nn := {k1:9 k2:8 k3:7 k4:6 q1:0 q2:0}\nprint (m == n) (m != n) (n == m)\nx:any\ny:any\nx = m\ny = n\nprint (x == y) ([m] == [n]) ({z:m} == {z:n})\ntest m n\n",
		"print ({k1:1 p1:0} == {k1:9 q1:0}) ({k1:1 p1:0} != {k1:9 q1:0})\nprint ({a:[1] b:[2] c:[3] x:[0]} == {a:[9] b:[8] c:[7] y:[0]})\n",
		"m:{}any\nn:{}any\nm = {k1:1 k2:\"s\" k3:[1] p:true}\nn = {k1:2 k2:\"t\" k3:[2] q:true}\nprint (m == n) (m != n)\ntest m n \"maps\"\n",
	)
	// font with several invalid properties
	out = append(out,
		"font {size:0 weight:0 align:\"up\" baseline:\"x\" bogus:1}\n",
		"font {family:1 size:\"big\" style:2 letterspacing:\"wide\"}\n",
		"font {size:12 weight:700 style:\"italic\" family:\"serif\" align:\"center\" baseline:\"top\" letterspacing:1}\ntext \"hi\"\n",
	)
	// several kinds of errors in one program
	out = append(out,
		"a := 1\nb := 2\nc := d\nprint e\nfunc f x:num y:num z:num\n    q := 1\n    r := 2\nend\n",
		"func f\n    x := 1\n    y := 2\n    z := 3\nend\nfunc g\n    u := 1\n    v := 2\nend\non key\n    k1 := 1\n    k2 := 2\nend\nf\ng\n",
	)
	// nothing printed may depend on an address: every formatting verb of printf / sprintf on every kind of value
	// (composites are pointers in the evaluator), and the panic / error texts that quote values
	for _, verb := range []string{"%v", "%s", "%q", "%d", "%p", "%t", "%x", "%X", "%f", "%e", "%g", "%c", "%b", "%o", "%U", "%T", "%#v", "%+v", "%5v", "%-5v|", "%05d", "%%", "%z", "%!"} {
		out = append(out, "a := [1 2]\nm := {k:1}\nn := [[1] [2]]\ny:any\ny = [3]\nprintf \""+verb+"|"+verb+"|"+verb+"|"+verb+"|"+verb+"|"+verb+"|"+verb+"\\n\" a m n y 1.5 \"s\" true\nprint (sprintf \""+verb+" "+verb+"\" m a)\n")
	}
	out = append(out, "a := [1 2]\nprint a [a] {k:a} (sprint a) (sprintf \"%v\" a)\nm := {k:a}\nprint m m.k (typeof m)\ntest [1] a \"arrays %v %p\" a a\n",
		"a := [1 2]\nprint a[5]\n", "m := {k:1}\nprint m.z\n", "m := {k:[1]}\npanic (sprint m)\n", "a := [1 2]\nx:any\nx = a\nprint x.(num)\n")
	return out
}

// RunC08 : repeated runs must agree byte for byte.
func RunC08(d *Driver) *Report {
	r := NewReport("C08")
	rng := Rng()
	reps, ngen := 25, 150
	if Thorough() {
		reps, ngen = 60, 2500
	}
	p2, p3, p5 := mapOrderProbe(2, 4000), mapOrderProbe(3, 4000), mapOrderProbe(5, 4000)
	r.Info["map_order_probe"] = map[string]float64{"p_other_first_key_2": p2, "p_other_first_key_3": p3, "p_other_first_key_5": p5}
	progs := c08Programs()
	o := GenOpts{Funcs: true, Any: true, Maps: true, Strings: true, Builtins: true, Tests: true, NonAscii: true}
	for i := 0; i < ngen; i++ {
		src := NewProgGen(rng, o).Program()
		progs = append(progs, src)
		if i%3 == 0 {
			// a rejected variant: three unused variables and an unknown name
			progs = append(progs, "u1 := 1\nu2 := 2\nu3 := 3\n"+src+"print nosuchvar\n")
		}
	}
	r.Rule = fmt.Sprintf("%d programs (targeted: 2-6 unused variables per scope kind, mixed map literals, map-literal side effects and errors, deep copies of maps, map equality and test messages, font with several invalid properties; plus generated accepted and rejected programs), each parsed, formatted and run %d times in-process and compared byte for byte (parse errors text and order, formatted text, platform call trace, final globals, result), plus fresh-process runs of the evy binary. Measured on this runtime: a map of 2/3/5 entries starts at another key with probability %.2f/%.2f/%.2f per range. Non-trivial = distinct program", len(progs), reps, p2, p3, p5)
	for _, src := range progs {
		first := c08Obs(src)
		r.Count(src, true)
		r.Hist("kind", strings.SplitN(first, ":", 2)[0])
		r.Sample(map[string]string{"program": trunc(src, 300), "observable": trunc(first, 300)}, 4)
		for i := 1; i < reps; i++ {
			if o2 := c08Obs(src); o2 != first {
				r.Violation(Case{Stream: "repeat", Input: src, Real: trunc(o2, 1500), Spec: "identical to the first run: " + trunc(first, 1500), Note: DiffAt(o2, first)})
				break
			}
		}
	}
	// fresh processes
	bin, err := BuildEvy()
	if err != nil {
		r.Disagree(Case{Stream: "build", Input: "go build", Real: err.Error()})
		return r
	}
	dir, err := os.MkdirTemp("", "verif-c08-")
	if err == nil {
		defer os.RemoveAll(dir)
		nproc := 8
		// the seed flag: every seed value must make the random builtins reproducible
		randProg := filepath.Join(dir, "rand.evy")
		os.WriteFile(randProg, []byte("for range 6\n    print (rand 1000) (rand1)\nend\n"), 0o644) //nolint
		for _, seed := range []string{"1", "7", "-1", "-5", "9223372036854775807", "-9223372036854775808", "2147483648"} {
			var first string
			for k := 0; k < 3; k++ {
				pr := runProc(20*time.Second, "", bin, "run", "--rand-seed="+seed, randProg)
				obs := fmt.Sprintf("exit=%d\nstdout:\n%s\nstderr:\n%s", pr.Exit, pr.Stdout, pr.Stderr)
				r.Count(fmt.Sprintf("seed:%s:%d", seed, k), true)
				if k == 0 {
					first = obs
				} else if obs != first {
					r.Violation(Case{Stream: "fresh-process-seed", Input: "evy run --rand-seed=" + seed + " on: for i := range 6 / print (rand 1000) (rand1) / end", Real: trunc(obs, 600), Spec: "identical to the first process: " + trunc(first, 600)})
					break
				}
			}
		}
		for i, src := range c08Programs() {
			path := filepath.Join(dir, fmt.Sprintf("p%d.evy", i))
			os.WriteFile(path, []byte(src), 0o644) //nolint
			var first string
			for k := 0; k < nproc; k++ {
				pr := runProc(20*time.Second, "in1\nin2\n", bin, "run", "--rand-seed", "7", "--skip-sleep", "--svg-out", "-", path)
				stderr := pr.Stderr
				if i := strings.Index(stderr, "\ngoroutine "); i >= 0 {
					stderr = stderr[:i] // a Go panic: the stack dump holds addresses, which are not observables
				}
				obs := fmt.Sprintf("exit=%d\nstdout:\n%s\nstderr:\n%s", pr.Exit, pr.Stdout, stderr)
				r.Count(fmt.Sprintf("proc:%d:%d", i, k), true)
				if k == 0 {
					first = obs
				} else if obs != first {
					r.Violation(Case{Stream: "fresh-process", Input: src, Real: trunc(obs, 1500), Spec: "identical to the first process: " + trunc(first, 1500), Note: DiffAt(obs, first)})
					break
				}
			}
		}
	}
	r.DriverCalls = 0
	return r
}
