package hx

import (
	"bytes"
	"encoding/xml"
	"fmt"
	"io"
	"math"
	"math/rand"
	"os"
	"path/filepath"
	"sort"
	"strconv"
	"strings"
	"time"
	"unicode/utf8"

	"evylang.dev/evy/pkg/cli/svg"
	"evylang.dev/evy/pkg/evaluator"
)

// SvgCmd is one graphics platform call.
type SvgCmd struct {
	Op   string
	Nums []float64
	Str  string
	Font map[string]any
}

var fontKeys = []string{"family", "size", "weight", "style", "baseline", "align", "letterspacing"}

func (c SvgCmd) wire() string {
	n := func(f float64) string { return FHex(f) }
	s := func(x string) string { return "s:" + SHex(x) }
	var nums []string
	for _, f := range c.Nums {
		nums = append(nums, n(f))
	}
	switch c.Op {
	case "clear", "text", "color", "stroke", "fill", "linecap":
		return c.Op + " " + s(c.Str)
	case "gridn":
		return "gridn " + nums[0] + " " + s(c.Str)
	case "ellipse":
		return "ellipse " + strings.Join(nums[:5], " ")
	case "font":
		var p []string
		for _, k := range fontKeys {
			v, ok := c.Font[k]
			if !ok {
				continue
			}
			wk := k
			if k == "letterspacing" {
				wk = "spacing"
			}
			switch v := v.(type) {
			case float64:
				p = append(p, wk+"="+n(v))
			case string:
				p = append(p, wk+"="+s(v))
			}
		}
		return strings.TrimSpace("font " + strings.Join(p, " "))
	}
	return strings.TrimSpace(c.Op + " " + strings.Join(nums, " "))
}

func cmdsWire(cs []SvgCmd) string {
	p := make([]string, len(cs))
	for i, c := range cs {
		p[i] = c.wire()
	}
	return strings.Join(p, " ; ")
}

func (c SvgCmd) apply(rt evaluator.GraphicsPlatform) {
	switch c.Op {
	case "move":
		rt.Move(c.Nums[0], c.Nums[1])
	case "line":
		rt.Line(c.Nums[0], c.Nums[1])
	case "rect":
		rt.Rect(c.Nums[0], c.Nums[1])
	case "circle":
		rt.Circle(c.Nums[0])
	case "clear":
		rt.Clear(c.Str)
	case "poly":
		var vs [][]float64
		for i := 0; i+1 < len(c.Nums); i += 2 {
			vs = append(vs, []float64{c.Nums[i], c.Nums[i+1]})
		}
		rt.Poly(vs)
	case "ellipse":
		rt.Ellipse(c.Nums[0], c.Nums[1], c.Nums[2], c.Nums[3], c.Nums[4], c.Nums[5], c.Nums[6])
	case "text":
		rt.Text(c.Str)
	case "gridn":
		rt.Gridn(c.Nums[0], c.Str)
	case "width":
		rt.Width(c.Nums[0])
	case "color":
		rt.Color(c.Str)
	case "stroke":
		rt.Stroke(c.Str)
	case "fill":
		rt.Fill(c.Str)
	case "dash":
		rt.Dash(append([]float64{}, c.Nums...))
	case "linecap":
		rt.Linecap(c.Str)
	case "font":
		m := map[string]any{}
		for k, v := range c.Font {
			m[k] = v
		}
		rt.Font(m)
	}
}

// evyNum renders a number as an Evy expression (NaN and the infinities through variables of the prelude).
func evyNum(f float64) string {
	switch {
	case math.IsNaN(f):
		return "nan"
	case math.IsInf(f, 1):
		return "inf"
	case math.IsInf(f, -1):
		return "(-inf)"
	}
	return strconv.FormatFloat(f, 'f', -1, 64)
}

func evyStr(s string) string {
	r := strings.NewReplacer(`\`, `\\`, `"`, `\"`, "\n", `\n`, "\t", `\t`)
	return `"` + r.Replace(s) + `"`
}

const c19Prelude = "nan := sqrt -1\ninf := pow 10 400\nif nan == inf\n    print nan inf\nend\n"

func (c SvgCmd) evy() string {
	var nums []string
	for _, f := range c.Nums {
		nums = append(nums, evyNum(f))
	}
	switch c.Op {
	case "clear", "text", "color", "stroke", "fill", "linecap":
		return c.Op + " " + evyStr(c.Str)
	case "gridn":
		return "gridn " + nums[0] + " " + evyStr(c.Str)
	case "poly":
		var vs []string
		for i := 0; i+1 < len(nums); i += 2 {
			vs = append(vs, "["+nums[i]+" "+nums[i+1]+"]")
		}
		return strings.TrimSpace("poly " + strings.Join(vs, " "))
	case "ellipse":
		return "ellipse " + strings.Join(nums, " ")
	case "font":
		var p []string
		for _, k := range fontKeys {
			switch v := c.Font[k].(type) {
			case float64:
				p = append(p, k+":"+evyNum(v))
			case string:
				p = append(p, k+":"+evyStr(v))
			}
		}
		return "font {" + strings.Join(p, " ") + "}"
	}
	return strings.TrimSpace(c.Op + " " + strings.Join(nums, " "))
}

// ---- shapes ----

// SvgShape is one flattened shape: kind, geometry words, resolved attributes, and for a grid its lines.
type SvgShape struct {
	Kind  string
	Geo   []string
	Attrs map[string]string
}

func canonNum(s string) string {
	if s == "-0" {
		return "0"
	}
	return s
}

func fnum(f float64) string { return canonNum(strconv.FormatFloat(f, 'f', -1, 64)) }

func (s SvgShape) String() string {
	var a []string
	for _, k := range SortedKeys(s.Attrs) {
		a = append(a, k+"="+s.Attrs[k])
	}
	return s.Kind + " " + strings.Join(s.Geo, " ") + " | " + strings.Join(a, " ")
}

// UnFHex decodes 16 hex digits into a float64.
func UnFHex(s string) (float64, error) {
	u, err := strconv.ParseUint(s, 16, 64)
	if err != nil {
		return 0, err
	}
	return math.Float64frombits(u), nil
}

func unhexS(w string) string {
	if !strings.HasPrefix(w, "s:") {
		return "?" + w
	}
	b := make([]byte, 0, len(w)/2)
	for i := 2; i+1 < len(w); i += 2 {
		v, err := strconv.ParseUint(w[i:i+2], 16, 8)
		if err != nil {
			return "?" + w
		}
		b = append(b, byte(v))
	}
	return string(b)
}

// parseLeanShapes reads the driver's rendering of a shape list.
func parseLeanShapes(s string) ([]SvgShape, error) {
	s = strings.TrimSpace(s)
	if s == "" {
		return nil, nil
	}
	var out []SvgShape
	for _, part := range strings.Split(s, " ;; ") {
		ws := strings.Fields(part)
		if len(ws) == 0 {
			return nil, fmt.Errorf("empty shape")
		}
		sh := SvgShape{Kind: ws[0], Attrs: map[string]string{}}
		ngeo := map[string]int{"line": 4, "rect": 4, "circle": 3, "polyline": 1, "ellipse": 5, "text": 3}
		rest := ws[1:]
		if sh.Kind == "grid" {
			for _, w := range rest {
				if k, v, ok := strings.Cut(w, "="); ok && (k == "stroke" || k == "n") {
					if k == "stroke" {
						v = unhexS(v)
					}
					sh.Attrs[k] = v
				} else {
					p := strings.Split(w, ",")
					for i := range p {
						p[i] = canonNum(p[i])
					}
					sh.Geo = append(sh.Geo, strings.Join(p, ","))
				}
			}
			out = append(out, sh)
			continue
		}
		n, ok := ngeo[sh.Kind]
		if !ok || len(rest) < n {
			return nil, fmt.Errorf("bad shape %q", part)
		}
		for i, w := range rest[:n] {
			switch {
			case strings.HasPrefix(w, "s:"):
				sh.Geo = append(sh.Geo, canonNum(unhexS(w))) // math.Abs(-0) is 0; the model does not track the sign of zero
			case sh.Kind == "ellipse" && i == 4 && w != "-":
				p := strings.Split(w, ",")
				if len(p) != 3 {
					return nil, fmt.Errorf("bad rotation %q", w)
				}
				var f [3]float64
				for j := range p {
					v, err := UnFHex(p[j])
					if err != nil {
						return nil, err
					}
					f[j] = v
				}
				sh.Geo = append(sh.Geo, fmt.Sprintf("rotate(%f %f %f)", f[0], f[1], f[2]))
			default:
				sh.Geo = append(sh.Geo, canonNum(w))
			}
		}
		for _, w := range rest[n:] {
			k, v, ok := strings.Cut(w, "=")
			if !ok {
				return nil, fmt.Errorf("bad attr %q", w)
			}
			if strings.HasPrefix(v, "s:") {
				v = unhexS(v)
			} else {
				v = canonNum(v)
			}
			sh.Attrs[k] = v
		}
		out = append(out, sh)
	}
	return out, nil
}

type xnode struct {
	Name     string
	Attrs    map[string]string
	Children []*xnode
	Text     string
}

// parseXML parses a whole document strictly: one root element, nothing but white space around it.
func parseXML(doc []byte) (*xnode, error) {
	if !utf8.Valid(doc) {
		return nil, fmt.Errorf("output is not valid UTF-8")
	}
	d := xml.NewDecoder(bytes.NewReader(doc))
	d.Strict = true
	var root *xnode
	var stack []*xnode
	for {
		tok, err := d.Token()
		if err == io.EOF {
			break
		}
		if err != nil {
			return nil, err
		}
		switch t := tok.(type) {
		case xml.StartElement:
			n := &xnode{Name: t.Name.Local, Attrs: map[string]string{}}
			for _, a := range t.Attr {
				if _, dup := n.Attrs[a.Name.Local]; dup {
					return nil, fmt.Errorf("duplicate attribute %s", a.Name.Local)
				}
				n.Attrs[a.Name.Local] = a.Value
			}
			if len(stack) == 0 {
				if root != nil {
					return nil, fmt.Errorf("second root element")
				}
				root = n
			} else {
				p := stack[len(stack)-1]
				p.Children = append(p.Children, n)
			}
			stack = append(stack, n)
		case xml.EndElement:
			stack = stack[:len(stack)-1]
		case xml.CharData:
			if len(stack) == 0 {
				if strings.TrimSpace(string(t)) != "" {
					return nil, fmt.Errorf("text outside the root element")
				}
			} else {
				stack[len(stack)-1].Text += string(t)
			}
		}
	}
	if root == nil {
		return nil, fmt.Errorf("no root element")
	}
	if len(stack) != 0 {
		return nil, fmt.Errorf("unclosed element")
	}
	return root, nil
}

var svgInitial = map[string]string{
	"fill": "black", "stroke": "none", "stroke-width": "1", "stroke-linecap": "butt", "stroke-dasharray": "",
	"text-anchor": "start", "dominant-baseline": "alphabetic", "font-size": "16", "font-weight": "400",
	"font-style": "normal", "font-family": `"Fira Code", monospace`, "letter-spacing": "0",
}

var svgAttrKey = [][2]string{{"fill", "fill"}, {"stroke", "stroke"}, {"width", "stroke-width"}, {"cap", "stroke-linecap"}, {"dash", "stroke-dasharray"}}
var svgTextKey = [][2]string{{"anchor", "text-anchor"}, {"baseline", "dominant-baseline"}, {"size", "font-size"}, {"weight", "font-weight"},
	{"style", "font-style"}, {"family", "font-family"}, {"spacing", "letter-spacing"}}

func resolveAttr(chain []*xnode, name string) string {
	for i := len(chain) - 1; i >= 0; i-- {
		if v, ok := chain[i].Attrs[name]; ok {
			return v
		}
	}
	return svgInitial[name]
}

func numAttr(v string) string {
	f, err := strconv.ParseFloat(v, 64)
	if err != nil {
		return "notnum:" + v
	}
	return fnum(f)
}

// flattenSVG turns the parsed document into the list of shapes a viewer paints.
func flattenSVG(root *xnode) ([]SvgShape, error) {
	if root.Name != "svg" {
		return nil, fmt.Errorf("root element is %s", root.Name)
	}
	var out []SvgShape
	var walk func(chain []*xnode, n *xnode) error
	leaf := func(chain []*xnode, n *xnode) (SvgShape, error) {
		sh := SvgShape{Kind: n.Name, Attrs: map[string]string{}}
		geoNames := map[string][]string{"line": {"x1", "y1", "x2", "y2"}, "rect": {"x", "y", "width", "height"}, "circle": {"cx", "cy", "r"},
			"polyline": {"points"}, "ellipse": {"cx", "cy", "rx", "ry", "transform"}, "text": {"x", "y"}}
		names, ok := geoNames[n.Name]
		if !ok {
			return sh, fmt.Errorf("unexpected element <%s>", n.Name)
		}
		for _, g := range names {
			v, ok := n.Attrs[g]
			switch {
			case g == "transform":
				if !ok {
					v = "-"
				}
				sh.Geo = append(sh.Geo, v)
			case !ok:
				return sh, fmt.Errorf("<%s> without %s", n.Name, g)
			case g == "points" || (n.Name == "rect" && (g == "width" || g == "height")):
				sh.Geo = append(sh.Geo, canonNum(v))
			default:
				sh.Geo = append(sh.Geo, numAttr(v))
			}
		}
		if n.Name == "text" {
			sh.Geo = append(sh.Geo, n.Text)
		}
		full := append(append([]*xnode{}, chain...), n)
		for _, k := range svgAttrKey {
			v := resolveAttr(full, k[1])
			if k[0] == "width" {
				v = numAttr(v)
			}
			sh.Attrs[k[0]] = v
		}
		if n.Name == "text" {
			for _, k := range svgTextKey {
				v := resolveAttr(full, k[1])
				if k[0] == "size" || k[0] == "weight" {
					v = numAttr(v)
				}
				sh.Attrs[k[0]] = v
			}
		}
		return sh, nil
	}
	isGrid := func(n *xnode) bool {
		if n.Name != "g" || len(n.Children) == 0 {
			return false
		}
		_, own := n.Children[0].Attrs["stroke-width"]
		return n.Children[0].Name == "line" && own
	}
	walk = func(chain []*xnode, n *xnode) error {
		switch {
		case isGrid(n):
			full := append(append([]*xnode{}, chain...), n)
			sh := SvgShape{Kind: "grid", Attrs: map[string]string{"stroke": resolveAttr(full, "stroke"), "n": fmt.Sprint(len(n.Children))}}
			for _, l := range n.Children {
				if l.Name != "line" {
					return fmt.Errorf("grid group holds <%s>", l.Name)
				}
				thick := "0"
				if w, ok := l.Attrs["stroke-width"]; ok {
					if numAttr(w) != "2" {
						return fmt.Errorf("grid line of width %s", w)
					}
					thick = "1"
				}
				sh.Geo = append(sh.Geo, strings.Join([]string{numAttr(l.Attrs["x1"]), numAttr(l.Attrs["y1"]), numAttr(l.Attrs["x2"]), numAttr(l.Attrs["y2"]), thick}, ","))
			}
			out = append(out, sh)
		case n.Name == "g":
			full := append(append([]*xnode{}, chain...), n)
			for _, c := range n.Children {
				if err := walk(full, c); err != nil {
					return err
				}
			}
		default:
			sh, err := leaf(chain, n)
			if err != nil {
				return err
			}
			out = append(out, sh)
		}
		return nil
	}
	for _, c := range root.Children {
		if err := walk([]*xnode{root}, c); err != nil {
			return nil, err
		}
	}
	return out, nil
}

func shapesString(l []SvgShape) string {
	p := make([]string, len(l))
	for i, s := range l {
		p[i] = s.String()
	}
	return strings.Join(p, "\n")
}

// shapeDiff lists the fields in which two shapes differ.
func shapeDiff(a, b SvgShape) []string {
	var d []string
	if a.Kind != b.Kind {
		return []string{"kind"}
	}
	n := len(a.Geo)
	if len(b.Geo) > n {
		n = len(b.Geo)
	}
	for i := 0; i < n; i++ {
		x, y := "", ""
		if i < len(a.Geo) {
			x = a.Geo[i]
		}
		if i < len(b.Geo) {
			y = b.Geo[i]
		}
		if x != y {
			d = append(d, fmt.Sprintf("geo%d", i))
		}
	}
	keys := map[string]bool{}
	for k := range a.Attrs {
		keys[k] = true
	}
	for k := range b.Attrs {
		keys[k] = true
	}
	for _, k := range SortedKeys(keys) {
		if a.Attrs[k] != b.Attrs[k] {
			d = append(d, k)
		}
	}
	return d
}

// c19Known explains the difference between the real shape and the specified one by known-finding
// classes; it returns nil when some part of the difference is not covered by them.
func c19Known(real, spec SvgShape, cmds []SvgCmd) []string {
	d := shapeDiff(real, spec)
	left := map[string]bool{}
	for _, x := range d {
		left[x] = true
	}
	var out []string
	if real.Kind == "ellipse" && (left["geo1"] || left["geo4"]) {
		delete(left, "geo1")
		delete(left, "geo4")
		out = append(out, "svg-ellipse-y-not-flipped")
	}
	if real.Kind == "text" && left["baseline"] && (real.Attrs["baseline"] == "top" || real.Attrs["baseline"] == "bottom") {
		delete(left, "baseline")
		out = append(out, "svg-font-baseline-raw")
	}
	if real.Kind == "text" && left["fill"] {
		for _, c := range cmds {
			if (c.Op == "stroke" || c.Op == "color") && c.Str == "" {
				delete(left, "fill")
				out = append(out, "svg-text-fill-empty-stroke")
				break
			}
		}
	}
	if len(left) > 0 {
		return nil
	}
	return out
}

// ---- generator ----

var c19Nums = []float64{0, 1, 5, 10, 20, 50, 99.5, 100, -3, 0.5, 33.3, 150, 1e18, math.NaN(), math.Inf(1), -0.0}
var c19Colors = []string{"red", "blue", "black", "white", "", "hsl(0deg 100% 50%)", "<&\">", "a b", "none", "日本"}
var c19Texts = []string{"hi", "", "<b>&amp;</b>", "a\nb", " lead ", "]]>", "--", "日本語 🙂", "tab\there", "'q'"}
var c19Caps = []string{"round", "butt", "square", "", "<x>"}
var c19Units = []float64{10, 20, 50, 33.3, 250, 1000, 2000, math.Inf(1), 7}

type c19Gen struct {
	r       *rand.Rand
	evy     bool // evy level: also arguments the builtins reject
	noQuirk bool
}

func (g *c19Gen) num() float64 {
	if g.r.Intn(4) == 0 {
		return c19Nums[g.r.Intn(len(c19Nums))]
	}
	return float64(g.r.Intn(120)) - 10 + float64(g.r.Intn(4))*0.25
}
func (g *c19Gen) pos() float64 { return float64(1+g.r.Intn(30)) * 0.5 }
func (g *c19Gen) col() string  { return c19Colors[g.r.Intn(len(c19Colors))] }

func (g *c19Gen) font() map[string]any {
	m := map[string]any{}
	if g.r.Intn(3) == 0 {
		m["family"] = []string{"serif", "Georgia, serif", "", "<f>", `"Fira Code", monospace`}[g.r.Intn(5)]
	}
	if g.r.Intn(2) == 0 {
		m["size"] = []float64{6, 3, 0.5, 12, 1e3, math.NaN()}[g.r.Intn(6)]
	}
	if g.r.Intn(3) == 0 {
		m["weight"] = []float64{400, 700, 100, 1}[g.r.Intn(4)]
	}
	if g.r.Intn(3) == 0 {
		m["style"] = []string{"italic", "normal", "", "oblique 35deg"}[g.r.Intn(4)]
	}
	if g.r.Intn(2) == 0 {
		m["baseline"] = []string{"top", "middle", "bottom", "alphabetic"}[g.r.Intn(4)]
	}
	if g.r.Intn(2) == 0 {
		m["align"] = []string{"left", "center", "right"}[g.r.Intn(3)]
	}
	if g.r.Intn(3) == 0 {
		m["letterspacing"] = []float64{0, 1, -0.1, 0.25}[g.r.Intn(4)]
	}
	return m
}

func (g *c19Gen) cmd() SvgCmd {
	switch g.r.Intn(20) {
	case 0:
		return SvgCmd{Op: "move", Nums: []float64{g.num(), g.num()}}
	case 1, 2:
		return SvgCmd{Op: "line", Nums: []float64{g.num(), g.num()}}
	case 3:
		return SvgCmd{Op: "rect", Nums: []float64{g.num(), g.num()}}
	case 4, 5:
		return SvgCmd{Op: "circle", Nums: []float64{g.num()}}
	case 6:
		return SvgCmd{Op: "clear", Str: g.col()}
	case 7:
		n := g.r.Intn(4)
		var f []float64
		for i := 0; i < 2*n; i++ {
			f = append(f, g.num())
		}
		return SvgCmd{Op: "poly", Nums: f}
	case 8:
		rot := 0.0
		if g.r.Intn(2) == 0 {
			rot = []float64{30, -45, 0.5, math.NaN()}[g.r.Intn(4)]
		}
		return SvgCmd{Op: "ellipse", Nums: []float64{g.num(), g.num(), g.num(), g.num(), rot, 0, 360}}
	case 9, 10:
		return SvgCmd{Op: "text", Str: c19Texts[g.r.Intn(len(c19Texts))]}
	case 11:
		return SvgCmd{Op: "gridn", Nums: []float64{c19Units[g.r.Intn(len(c19Units))]}, Str: g.col()}
	case 12:
		return SvgCmd{Op: "width", Nums: []float64{[]float64{1, 0.1, 2, 0, 0.5, -1, math.NaN()}[g.r.Intn(7)]}}
	case 13, 14:
		return SvgCmd{Op: "color", Str: g.col()}
	case 15:
		return SvgCmd{Op: "stroke", Str: g.col()}
	case 16:
		return SvgCmd{Op: "fill", Str: g.col()}
	case 17:
		n := g.r.Intn(4)
		var f []float64
		for i := 0; i < n; i++ {
			f = append(f, g.pos())
		}
		return SvgCmd{Op: "dash", Nums: f}
	case 18:
		return SvgCmd{Op: "linecap", Str: c19Caps[g.r.Intn(len(c19Caps))]}
	}
	return SvgCmd{Op: "font", Font: g.font()}
}

func (g *c19Gen) seq(n int) []SvgCmd {
	out := make([]SvgCmd, n)
	for i := range out {
		out[i] = g.cmd()
	}
	return out
}

// c19Alphabet: representative commands for the exhaustive short histories.
func c19Alphabet() []SvgCmd {
	return []SvgCmd{
		{Op: "move", Nums: []float64{20, 30}},
		{Op: "line", Nums: []float64{60, 70}},
		{Op: "rect", Nums: []float64{-10, 5}},
		{Op: "circle", Nums: []float64{5}},
		{Op: "clear", Str: "blue"},
		{Op: "clear", Str: ""},
		{Op: "poly", Nums: []float64{1, 2, 3, 4, 5, 6}},
		{Op: "ellipse", Nums: []float64{20, 30, 5, 8, 0, 0, 360}},
		{Op: "ellipse", Nums: []float64{20, 30, 5, 8, 30, 0, 360}},
		{Op: "text", Str: "a<&>"},
		{Op: "gridn", Nums: []float64{250}, Str: "orange"},
		{Op: "gridn", Nums: []float64{500}, Str: ""},
		{Op: "width", Nums: []float64{2}},
		{Op: "width", Nums: []float64{0.1}},
		{Op: "color", Str: "red"},
		{Op: "color", Str: "black"},
		{Op: "stroke", Str: "green"},
		{Op: "stroke", Str: ""},
		{Op: "fill", Str: "none"},
		{Op: "fill", Str: "black"},
		{Op: "dash", Nums: []float64{1, 2}},
		{Op: "dash"},
		{Op: "linecap", Str: "butt"},
		{Op: "linecap", Str: "round"},
		{Op: "font", Font: map[string]any{"size": 3.0, "align": "center"}},
		{Op: "font", Font: map[string]any{"baseline": "top"}},
		{Op: "font", Font: map[string]any{"baseline": "middle", "weight": 700.0, "family": "serif"}},
		{Op: "font", Font: map[string]any{"size": 6.0, "weight": 400.0, "style": "normal", "letterspacing": 0.0, "align": "left", "baseline": "alphabetic"}},
	}
}

// ---- the check ----

type c19Run struct {
	r     *Report
	d     *Driver
	known map[string]bool
	fuel  int
}

// compare judges the real output of one command history against the model and the specification.
func (c *c19Run) compare(stream string, cmds []SvgCmd, doc []byte, input any) {
	r := c.r
	ans, err := c.d.Ask(fmt.Sprintf("svg %d %s", c.fuel, cmdsWire(cmds)))
	if err != nil {
		panic(err)
	}
	parts := strings.Split(ans, " ## ")
	if len(parts) != 3 {
		r.Disagree(Case{Stream: stream, Input: input, Real: "-", Model: ans, Note: "driver answer"})
		return
	}
	model, err1 := parseLeanShapes(parts[0])
	spec, err2 := parseLeanShapes(parts[1])
	if err1 != nil || err2 != nil {
		r.Disagree(Case{Stream: stream, Input: input, Real: "-", Model: ans, Note: fmt.Sprint(err1, err2)})
		return
	}
	if parts[2] != "true" {
		r.Violation(Case{Stream: stream, Input: input, Real: "a grid command reached the platform whose loop does not finish within " + fmt.Sprint(c.fuel) + " iterations", Spec: "evy run --svg-out terminates: the unit must be validated before the platform is called"})
		return
	}
	root, err := parseXML(doc)
	if err != nil {
		r.Violation(Case{Stream: stream, Input: input, Real: "not well formed: " + err.Error() + "\n" + trunc(string(doc), 1500), Spec: "a well-formed SVG document"})
		return
	}
	real, err := flattenSVG(root)
	if err != nil {
		r.Violation(Case{Stream: stream, Input: input, Real: "unexpected structure: " + err.Error() + "\n" + trunc(string(doc), 1500), Spec: "svg root holding shapes and groups of shapes"})
		return
	}
	r.Hist("shapes-per-history", fmt.Sprint(min(len(real), 12)))
	ngroups := 0
	for _, ch := range root.Children {
		if ch.Name == "g" {
			ngroups++
		}
	}
	r.Hist("top-level-groups", fmt.Sprint(min(ngroups, 6)))
	// the property: real against the specification
	bad := ""
	knownHit := map[string]bool{}
	if len(real) != len(spec) {
		bad = fmt.Sprintf("%d shapes in the document, %d drawing commands (plus background)", len(real), len(spec))
	} else {
		for i := range real {
			if d := shapeDiff(real[i], spec[i]); len(d) > 0 {
				if ks := c19Known(real[i], spec[i], cmds); len(ks) > 0 {
					for _, k := range ks {
						knownHit[k] = true
					}
					continue
				}
				bad = fmt.Sprintf("shape %d differs in %v:\n  document : %s\n  specified: %s", i, d, real[i], spec[i])
				break
			}
		}
	}
	for k := range knownHit {
		r.KnownSeen[k]++
		if !c.known[k] && bad == "" {
			r.Violation(Case{Stream: stream, Input: input, Real: shapesString(real), Spec: shapesString(spec), Known: k})
		}
	}
	if bad != "" {
		r.Violation(Case{Stream: stream, Input: input, Real: bad + "\n" + trunc(string(doc), 2000), Spec: shapesString(spec), Model: shapesString(model)})
		return
	}
	// correspondence: real against the model (which carries the extracted quirks)
	if a, b := shapesString(real), shapesString(model); a != b {
		r.Disagree(Case{Stream: stream, Input: input, Real: a, Model: b, Note: DiffAt(a, b)})
	}
}

func runPlatform(cmds []SvgCmd) (doc []byte, goPanic string) {
	defer func() {
		if p := recover(); p != nil {
			goPanic = fmt.Sprint(p)
		}
	}()
	rt := svg.NewGraphicsPlatform()
	for _, c := range cmds {
		c.apply(rt)
	}
	var b bytes.Buffer
	if err := rt.WriteSVG(&b); err != nil {
		return nil, "WriteSVG: " + err.Error()
	}
	return b.Bytes(), ""
}

// svgRec records the graphics calls an Evy program makes.
type svgRec struct {
	evaluator.UnimplementedPlatform
	Cmds []SvgCmd
}

func (r *svgRec) Print(string)               {}
func (r *svgRec) Read() string               { return "" }
func (r *svgRec) Cls()                       {}
func (r *svgRec) Sleep(time.Duration)        {}
func (r *svgRec) Yielder() evaluator.Yielder { return nil }
func (r *svgRec) add(op string, s string, n ...float64) {
	r.Cmds = append(r.Cmds, SvgCmd{Op: op, Str: s, Nums: n})
}
func (r *svgRec) Move(x, y float64)         { r.add("move", "", x, y) }
func (r *svgRec) Line(x, y float64)         { r.add("line", "", x, y) }
func (r *svgRec) Rect(x, y float64)         { r.add("rect", "", x, y) }
func (r *svgRec) Circle(x float64)          { r.add("circle", "", x) }
func (r *svgRec) Width(x float64)           { r.add("width", "", x) }
func (r *svgRec) Color(s string)            { r.add("color", s) }
func (r *svgRec) Clear(s string)            { r.add("clear", s) }
func (r *svgRec) Stroke(s string)           { r.add("stroke", s) }
func (r *svgRec) Fill(s string)             { r.add("fill", s) }
func (r *svgRec) Linecap(s string)          { r.add("linecap", s) }
func (r *svgRec) Text(s string)             { r.add("text", s) }
func (r *svgRec) Gridn(u float64, c string) { r.add("gridn", c, u) }
func (r *svgRec) Dash(seg []float64)        { r.add("dash", "", seg...) }
func (r *svgRec) Poly(vs [][]float64) {
	var f []float64
	for _, v := range vs {
		f = append(f, v[0], v[1])
	}
	r.add("poly", "", f...)
}
func (r *svgRec) Ellipse(x, y, rx, ry, rot, sa, ea float64) {
	r.add("ellipse", "", x, y, rx, ry, rot, sa, ea)
}
func (r *svgRec) Font(props map[string]any) {
	m := map[string]any{}
	for k, v := range props {
		m[k] = v
	}
	r.Cmds = append(r.Cmds, SvgCmd{Op: "font", Font: m})
}

// recordCmds runs src on the real evaluator with a recording platform.
func recordCmds(src string) (cmds []SvgCmd, class string, goPanic string) {
	rec := &svgRec{}
	defer func() {
		if p := recover(); p != nil {
			cmds, goPanic = rec.Cmds, fmt.Sprint(p)
		}
	}()
	ev := evaluator.NewEvaluator(rec)
	err := ev.Run(src)
	return rec.Cmds, ClassOf(err), ""
}

// c19EvyPrograms: degenerate and rejected arguments at the language level.
func c19EvyPrograms() []string {
	return []string{
		"gridn 0 \"red\"\ncircle 5\n",
		"gridn -5 \"red\"\n",
		"gridn nan \"red\"\n",
		"gridn inf \"red\"\ncircle 1\n",
		"gridn 1 \"blue\"\n",
		"grid\ncolor \"red\"\ngrid\n",
		"poly [1 2] [3]\n",
		"poly\npoly [1 1]\ncircle 1\n",
		"poly [1 2 3]\n",
		"ellipse 1 2\n",
		"ellipse 1 2 3 4 5 6\n",
		"ellipse 50 50 10\nellipse 50 50 10 20\nellipse 50 50 10 20 45\nellipse 50 50 10 20 45 0 180\n",
		"font {size:0}\ntext \"x\"\n",
		"font {bogus:1}\n",
		"font {align:\"up\"}\n",
		"font {baseline:\"x\"}\n",
		"font {size:\"big\"}\n",
		"font {}\ntext \"plain\"\n",
		"color \"red\"\nclear \"blue\"\nwidth 2\n",
		"color \"red\"\ngridn 20 \"orange\"\nwidth 2\ncircle 3\n",
		"width 2\nclear\nwidth 1\nclear \"green\"\ncircle 3\ncolor \"red\"\n",
		"for i := range 5\n    color (\"hsl(\" + (sprint i*60) + \"deg 100% 50%)\")\n    circle i\n    circle i+1\nend\n",
		"move 10 10\nfor i := range 3\n    width i\n    line 50 i*10\n    text (sprint i)\nend\n",
		"text \"<svg></svg>\"\ntext \"a & b\"\ncolor \"\\\"><script>\"\ncircle 1\n",
		"hsl 10\ncolor (hsl 200 50 50)\ncircle 5\n",
		"dash\ncircle 1\ndash 5 3 1\ncircle 2\ndash\ncircle 3\n",
		"circle 1\npanic \"stop\"\ncircle 2\n",
		"circle 1\nexit 3\ncircle 2\n",
		"linecap \"butt\"\nline 10 10\nlinecap \"round\"\nline 20 20\n",
		"fill \"none\"\nstroke \"red\"\ntext \"outline\"\ntext \"two\"\n",
		"stroke \"red\"\nfill \"blue\"\ntext \"one\"\n",
	}
}

// RunC19 : the SVG platform against the canvas specification.
func RunC19(d *Driver) *Report {
	r := NewReport("C19")
	rng := Rng()
	c := &c19Run{r: r, d: d, known: KnownIDs(), fuel: 3000}
	alpha := c19Alphabet()
	maxLen, nrand, nevy := 2, 1500, 120
	if Thorough() {
		maxLen, nrand, nevy = 3, 20000, 1500
	}
	r.Rule = fmt.Sprintf("platform level (in-process svg.GraphicsPlatform): ALL histories of length <= %d over an alphabet of %d representative calls (every command kind, default and non-default values, the quirk triggers) and %d random histories of length 1-14 with degenerate arguments (0, negative, NaN, +Inf, 1e18, -0, empty and markup-like strings); language level (rebuilt `evy run --svg-out`): %d hand-written programs around the builtins' argument checks and %d generated straight-line programs, whose graphics calls are recorded in-process to obtain the command history. Each output is parsed strictly as XML, flattened (inherited attributes resolved) and compared shape by shape with the Lean specification Spec.run (property) and with the Lean model of runtime.go (correspondence). Non-trivial = distinct history", maxLen, len(alpha), nrand, len(c19EvyPrograms()), nevy)
	doPlatform := func(stream string, cmds []SvgCmd) {
		key := cmdsWire(cmds)
		r.Count(stream+":"+key, true)
		for _, x := range cmds {
			r.Hist("command", x.Op)
		}
		doc, gp := runPlatform(cmds)
		if gp != "" {
			r.Violation(Case{Stream: stream, Input: key, Real: "Go panic: " + gp, Spec: "the platform accepts every call"})
			return
		}
		r.Sample(map[string]any{"history": key, "svg": trunc(string(doc), 400)}, 2)
		c.compare(stream, cmds, doc, map[string]any{"history": key})
	}
	// exhaustive short histories
	var rec func(prefix []SvgCmd, n int)
	rec = func(prefix []SvgCmd, n int) {
		if len(prefix) > 0 {
			doPlatform("exhaustive", prefix)
		}
		if n == 0 {
			return
		}
		for _, a := range alpha {
			rec(append(append([]SvgCmd{}, prefix...), a), n-1)
		}
	}
	rec(nil, maxLen)
	// plus: every pair wrapped so that the pending buffer holds 1 or 2 elements when the style changes
	for _, a := range alpha {
		for _, b := range alpha {
			doPlatform("exhaustive-flush", []SvgCmd{{Op: "color", Str: "red"}, a, b, {Op: "width", Nums: []float64{2}}, {Op: "circle", Nums: []float64{1}}})
		}
	}
	g := &c19Gen{r: rng}
	for i := 0; i < nrand; i++ {
		doPlatform("random", g.seq(1+rng.Intn(14)))
	}
	// language level
	bin, err := BuildEvy()
	if err != nil {
		r.Disagree(Case{Stream: "build", Input: "go build", Real: err.Error()})
		return r
	}
	dir, err := os.MkdirTemp("", "verif-c19-")
	if err != nil {
		r.Disagree(Case{Stream: "tmp", Input: "", Real: err.Error()})
		return r
	}
	defer os.RemoveAll(dir)
	nrun := 0
	doEvy := func(stream, body string) {
		src := body
		if strings.Contains(body, "nan") || strings.Contains(body, "inf") {
			src = c19Prelude + body
		}
		r.Count(stream+":"+src, true)
		path := filepath.Join(dir, "p.evy")
		out := filepath.Join(dir, "out.svg")
		os.Remove(out)
		if nrun++; nrun%2 == 0 {
			// the output path holds an older, much longer drawing: what is there afterwards must be this run's document only
			os.WriteFile(out, []byte(strings.Repeat("<!-- stale drawing -->\n<circle cx=\"1\" cy=\"1\" r=\"1\"/>\n", 4000)), 0o644) //nolint
			r.Hist("svg-out-path", "existing longer file")
		} else {
			r.Hist("svg-out-path", "absent")
		}
		os.WriteFile(path, []byte(src), 0o644) //nolint
		// address space limited: a grid loop that never ends allocates without bound
		pr := runProc(20*time.Second, "", "sh", "-c", `ulimit -v 4000000; exec "$0" "$@"`, bin, "run", "--svg-out", out, path)
		input := map[string]any{"program": src}
		if pr.Exit == -2 {
			r.Violation(Case{Stream: stream, Input: input, Real: "evy run --svg-out did not terminate within 20 s", Spec: "terminates"})
			return
		}
		cmds, class, gp := recordCmds(src)
		if gp != "" {
			r.Violation(Case{Stream: stream, Input: input, Real: "Go panic: " + gp, Spec: "no crash"})
			return
		}
		r.Hist("evy-outcome", class)
		if class == "internal" || strings.HasPrefix(class, "unknown") {
			r.Disagree(Case{Stream: stream, Input: input, Real: class, Note: "harness: the program is not accepted by the parser"})
			return
		}
		wantExit := 0
		if class != "ok" {
			wantExit = 1
			if strings.HasPrefix(class, "exit:") {
				wantExit, _ = strconv.Atoi(class[5:])
			}
		}
		if pr.Exit != wantExit {
			r.Violation(Case{Stream: stream, Input: input, Real: fmt.Sprintf("exit status %d, stderr %q", pr.Exit, trunc(pr.Stderr, 300)), Spec: fmt.Sprintf("exit status %d (in-process outcome %s)", wantExit, class)})
			return
		}
		doc, err := os.ReadFile(out)
		if err != nil {
			r.Violation(Case{Stream: stream, Input: input, Real: "no SVG file written: " + err.Error(), Spec: "an SVG document"})
			return
		}
		for _, x := range cmds {
			r.Hist("command", x.Op)
		}
		c.compare(stream, cmds, doc, input)
	}
	for _, w := range Corpus("C19") {
		doEvy("corpus:"+w.Name, w.Src)
	}
	for _, p := range c19EvyPrograms() {
		doEvy("evy-arguments", p)
	}
	ge := &c19Gen{r: rng, evy: true}
	for i := 0; i < nevy; i++ {
		cmds := ge.seq(1 + rng.Intn(10))
		var b strings.Builder
		for _, x := range cmds {
			if x.Op == "gridn" && rng.Intn(3) == 0 {
				x.Nums[0] = []float64{0, -1, math.NaN(), 0.5}[rng.Intn(4)]
			}
			if x.Op == "font" && rng.Intn(4) == 0 {
				x.Font["size"] = 0.0
			}
			b.WriteString(x.evy() + "\n")
		}
		doEvy("evy-generated", b.String())
	}
	// stdout form
	{
		path := filepath.Join(dir, "s.evy")
		os.WriteFile(path, []byte("print \"text output\"\ncolor \"red\"\ncircle 5\n"), 0o644) //nolint
		pr := runProc(20*time.Second, "", bin, "run", "--svg-out", "-", path)
		r.Count("stdout-form", true)
		i := strings.Index(pr.Stdout, "<svg")
		if pr.Exit != 0 || i < 0 {
			r.Violation(Case{Stream: "svg-out-stdout", Input: "print + circle with --svg-out -", Real: trunc(pr.Stdout+pr.Stderr, 600), Spec: "the SVG document on stdout"})
		} else if _, err := parseXML([]byte(pr.Stdout[i:])); err != nil {
			r.Violation(Case{Stream: "svg-out-stdout", Input: "print + circle with --svg-out -", Real: err.Error(), Spec: "well formed"})
		}
	}
	ks := make([]string, 0)
	for k := range r.KnownSeen {
		ks = append(ks, k)
	}
	sort.Strings(ks)
	r.Info["known_classes_seen"] = ks
	r.DriverCalls = d.N
	return r
}
