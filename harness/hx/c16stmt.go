package hx

import (
	"fmt"
	"math/rand"
	"strconv"
	"strings"

	"evylang.dev/evy/pkg/bytecode"
	"evylang.dev/evy/pkg/parser"
)

// Statements of the fragment of lean/EvyV/Model/StmtVM.lean (proved: Props/C16Stmt.lean compile_correct):
// assignment to global num / bool variables, if / else-if / else, while, break. The real compiler's code
// (jump targets converted from byte offsets to instruction indices), the real VM's final globals and the
// real evaluator's final globals are compared with the model's.

type stmtT struct {
	kind  string // as br wh if
	i     int
	e     *exprT
	conds []condT
	els   []*stmtT
	body  []*stmtT
}

type condT struct {
	c    *exprT
	body []*stmtT
}

var stmtGlobals = []string{"num", "bool", "num", "num", "num"} // g2, g3: loop counters (read only in bodies)

func genStmts(rng *rand.Rand, depth, loopLevel int, inLoop bool) []*stmtT {
	n := 1 + rng.Intn(3)
	var out []*stmtT
	for k := 0; k < n; k++ {
		out = append(out, genStmt(rng, depth, loopLevel, inLoop)...)
	}
	return out
}

func genStmt(rng *rand.Rand, depth, loopLevel int, inLoop bool) []*stmtT {
	assign := func() *stmtT {
		if rng.Intn(3) == 0 {
			return &stmtT{kind: "as", i: 1, e: genExprT(rng, "bool", 1+rng.Intn(3), stmtGlobals)}
		}
		return &stmtT{kind: "as", i: []int{0, 4}[rng.Intn(2)], e: genExprT(rng, "num", 1+rng.Intn(3), stmtGlobals)}
	}
	if depth <= 0 {
		return []*stmtT{assign()}
	}
	switch rng.Intn(8) {
	case 0, 1, 2:
		return []*stmtT{assign()}
	case 3, 4:
		s := &stmtT{kind: "if"}
		for k := 0; k <= rng.Intn(3); k++ {
			s.conds = append(s.conds, condT{genExprT(rng, "bool", 1+rng.Intn(3), stmtGlobals), genStmts(rng, depth-1, loopLevel, inLoop)})
		}
		if rng.Intn(2) == 0 {
			s.els = genStmts(rng, depth-1, loopLevel, inLoop)
		}
		return []*stmtT{s}
	case 5:
		if inLoop {
			// a break, guarded so that what follows is reachable
			return []*stmtT{{kind: "if", conds: []condT{{genExprT(rng, "bool", 1+rng.Intn(2), stmtGlobals), []*stmtT{{kind: "br"}}}}}}
		}
		return []*stmtT{assign()}
	default:
		if loopLevel >= 2 {
			return []*stmtT{assign()}
		}
		ctr := 2 + loopLevel
		glob := func(i int) *exprT { return &exprT{kind: "glob", i: i, ty: "num"} }
		num := func(f float64) *exprT { return &exprT{kind: "num", f: f, ty: "num"} }
		cond := &exprT{kind: "bin", op: "<", l: glob(ctr), r: num(float64(1 + rng.Intn(4))), ty: "bool"}
		body := genStmts(rng, depth-1, loopLevel+1, true)
		body = append(body, &stmtT{kind: "as", i: ctr, e: &exprT{kind: "bin", op: "+", l: glob(ctr), r: num(1), ty: "num"}})
		return []*stmtT{{kind: "as", i: ctr, e: num(0)}, {kind: "wh", e: cond, body: body}}
	}
}

// src renders the statements; the returned trees have the group nodes the rendering inserted.
func stmtsSrc(ss []*stmtT, ind int) (string, []*stmtT) {
	var sb strings.Builder
	var out []*stmtT
	pad := strings.Repeat("    ", ind)
	for _, s := range ss {
		switch s.kind {
		case "as":
			es, et := s.e.src(0, false)
			sb.WriteString(pad + "g" + strconv.Itoa(s.i) + " = " + es + "\n")
			out = append(out, &stmtT{kind: "as", i: s.i, e: et})
		case "br":
			sb.WriteString(pad + "break\n")
			out = append(out, s)
		case "wh":
			es, et := s.e.src(0, false)
			sb.WriteString(pad + "while " + es + "\n")
			bs, bt := stmtsSrc(s.body, ind+1)
			sb.WriteString(bs + pad + "end\n")
			out = append(out, &stmtT{kind: "wh", e: et, body: bt})
		case "if":
			n := &stmtT{kind: "if"}
			for k, c := range s.conds {
				es, et := c.c.src(0, false)
				kw := "if "
				if k > 0 {
					kw = "else if "
				}
				sb.WriteString(pad + kw + es + "\n")
				bs, bt := stmtsSrc(c.body, ind+1)
				sb.WriteString(bs)
				n.conds = append(n.conds, condT{et, bt})
			}
			if s.els != nil {
				sb.WriteString(pad + "else\n")
				bs, bt := stmtsSrc(s.els, ind+1)
				sb.WriteString(bs)
				n.els = bt
			}
			sb.WriteString(pad + "end\n")
			out = append(out, n)
		}
	}
	return sb.String(), out
}

func stmtsWire(ss []*stmtT) string {
	var parts []string
	for _, s := range ss {
		switch s.kind {
		case "as":
			parts = append(parts, "as "+strconv.Itoa(s.i)+" "+s.e.wire())
		case "br":
			parts = append(parts, "br")
		case "wh":
			parts = append(parts, "wh "+s.e.wire()+" { "+stmtsWire(s.body)+" }")
		case "if":
			w := ""
			for k, c := range s.conds {
				if k == 0 {
					w = "if " + c.c.wire() + " { " + stmtsWire(c.body) + " }"
				} else {
					w += " ei " + c.c.wire() + " { " + stmtsWire(c.body) + " }"
				}
			}
			w += " el { " + stmtsWire(s.els) + " } fi"
			parts = append(parts, w)
		}
	}
	return strings.Join(parts, " ")
}

// decodeRealIdx decodes real bytecode with jump targets as instruction indices.
func decodeRealIdx(src string) (ins []string, err error) {
	defer func() {
		if r := recover(); r != nil {
			err = fmt.Errorf("gopanic: %v", r)
		}
	}()
	prog, perr := parser.Parse(src, parser.Builtins{})
	if perr != nil {
		return nil, perr
	}
	comp := bytecode.NewCompiler()
	if err := comp.Compile(prog); err != nil {
		return nil, err
	}
	bc := comp.Bytecode()
	vals, kinds := bc.VerifConstants()
	code := bc.Instructions
	idxOf := map[int]int{}
	n := 0
	for i := 0; i < len(code); {
		def, err := bytecode.Lookup(bytecode.Opcode(code[i]))
		if err != nil {
			return nil, err
		}
		_, w := bytecode.ReadOperands(def, code[i+1:])
		idxOf[i] = n
		n++
		i += 1 + w
	}
	idxOf[len(code)] = n
	raw, err := decodeReal(code, vals, kinds)
	if err != nil {
		return nil, err
	}
	for k, s := range raw {
		if strings.HasPrefix(s, "OpJump:") || strings.HasPrefix(s, "OpJumpOnFalse:") {
			name, op, _ := strings.Cut(s, ":")
			off, _ := strconv.Atoi(op)
			t, ok := idxOf[off]
			if !ok {
				return nil, fmt.Errorf("jump into the middle of an instruction: %s", s)
			}
			raw[k] = name + ":" + strconv.Itoa(t)
		}
	}
	return raw, nil
}

func c16Statements(r *Report, ask func(string) string, rng *rand.Rand, n int) int {
	done := 0
	for it := 0; it < n; it++ {
		body := genStmts(rng, 1+rng.Intn(3), 0, false)
		bsrc, btree := stmtsSrc(body, 0)
		decl := "g0 := 3\ng1 := true\ng2 := 0\ng3 := 0\ng4 := 1.5\n"
		use := "g0 = g0\ng1 = g1\ng2 = g2\ng3 = g3\ng4 = g4\n"
		src := decl + bsrc + use
		glob := func(i int) *exprT { return &exprT{kind: "glob", i: i} }
		var prog []*stmtT
		prog = append(prog, &stmtT{kind: "as", i: 0, e: &exprT{kind: "num", f: 3}}, &stmtT{kind: "as", i: 1, e: &exprT{kind: "bool", b: true}},
			&stmtT{kind: "as", i: 2, e: &exprT{kind: "num", f: 0}}, &stmtT{kind: "as", i: 3, e: &exprT{kind: "num", f: 0}}, &stmtT{kind: "as", i: 4, e: &exprT{kind: "num", f: 1.5}})
		prog = append(prog, btree...)
		for i := 0; i < 5; i++ {
			prog = append(prog, &stmtT{kind: "as", i: i, e: glob(i)})
		}
		ans := ask("stmtvm " + strings.Join([]string{FHex(0), "f", FHex(0), FHex(0), FHex(0)}, " ") + " | " + stmtsWire(prog) + " }")
		var mcode, mvm, mev string
		for _, f := range strings.Fields(ans) {
			switch {
			case strings.HasPrefix(f, "code="):
				mcode = f[5:]
			case strings.HasPrefix(f, "vm="):
				mvm = f[3:]
			case strings.HasPrefix(f, "eval="):
				mev = f[5:]
			}
		}
		ins, err := decodeRealIdx(src)
		if err != nil {
			r.Violation(Case{Stream: "stmt-compile", Input: src, Real: "compile error: " + err.Error(), Spec: "the compiler accepts assignments, if chains, while and break on num/bool globals"})
			continue
		}
		realCode := strings.Join(ins, ",")
		cr := CompileAndRun(src, true)
		evals, _, eclass, _ := EvalGlobals(src)
		globalsOf := func(m map[string]string) string {
			var parts []string
			for i := 0; i < 5; i++ {
				parts = append(parts, m["g"+strconv.Itoa(i)])
			}
			return strings.Join(parts, "/")
		}
		wireGlobals := func(w string) string {
			if !strings.Contains(w, "/") {
				return w
			}
			var parts []string
			for _, p := range strings.Split(w, "/") {
				parts = append(parts, valOfWire(p))
			}
			return strings.Join(parts, "/")
		}
		realVM := globalsOf(cr.Globals)
		if cr.RunErr != "" {
			realVM = "err:" + cr.RunErr
		}
		if cr.GoPanic != "" {
			realVM = "gopanic:" + cr.GoPanic
		}
		if cr.Hang {
			realVM = "hang"
		}
		wantVM := wireGlobals(mvm)
		if mvm == "divzero" {
			wantVM = "err:user error: division by zero"
		}
		realEv := globalsOf(evals)
		if eclass != "ok" {
			realEv = eclass
		}
		wantEv := wireGlobals(mev)
		done++
		r.Count("stmt:"+bsrc, strings.Contains(bsrc, "while") || strings.Contains(bsrc, "if "))
		r.Hist("stmt-fragment", fmt.Sprintf("while=%v if=%v break=%v", strings.Contains(bsrc, "while"), strings.Contains(bsrc, "if "), strings.Contains(bsrc, "break")))
		real := fmt.Sprintf("vm=%s eval=%s code=%s", realVM, realEv, realCode)
		model := fmt.Sprintf("vm=%s eval=%s code=%s", wantVM, wantEv, mcode)
		oracleOK := realVM == realEv || realVM == "err:user error: division by zero"
		switch {
		case !oracleOK:
			r.Violation(Case{Stream: "stmt-compile", Input: src, Real: real, Model: model, Spec: "the VM's final globals equal the evaluator's (or the VM-only division by zero error)"})
		case realCode != mcode || realVM != wantVM || realEv != wantEv:
			r.Disagree(Case{Stream: "stmt-compile", Input: src, Real: real, Model: model, Note: "real compiler / VM / evaluator against Model/StmtVM.lean"})
		}
	}
	return done
}
