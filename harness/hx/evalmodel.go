package hx

import (
	"fmt"
	"math"
	"math/rand"
	"strconv"
	"strings"

	"evylang.dev/evy/pkg/evaluator"
	"evylang.dev/evy/pkg/lexer"
)

// ModelResult is what the Lean evaluator model computed for a program.
type ModelResult struct {
	Class   string
	Trace   string // effects in wire form, space separated
	Globals string
	Yields  int
	Rounds  int
	Err     string
}

// RandSeed is the seed both sides use for rand / rand1.
const RandSeed = 4242

// xarg wire helpers
func xNum(a string) (float64, bool) {
	if len(a) != 17 || a[0] != 'n' {
		return 0, false
	}
	var bits uint64
	if _, err := fmt.Sscanf(a[1:], "%x", &bits); err != nil {
		return 0, false
	}
	return math.Float64frombits(bits), true
}
func xStr(a string) (string, bool) {
	if len(a) == 0 || a[0] != 's' {
		return "", false
	}
	return UnHex(a[1:]), true
}

// answerQuery computes an oracle answer with the real Go library functions.
// q is "(fn arg arg ...)" in wire form.
func answerQuery(q string) (string, error) {
	f := strings.Fields(strings.Trim(q, "()"))
	if len(f) == 0 {
		return "", fmt.Errorf("empty query")
	}
	fn, args := f[0], f[1:]
	s := func(i int) string { v, _ := xStr(args[i]); return v }
	n := func(i int) float64 { v, _ := xNum(args[i]); return v }
	switch fn {
	case "upper":
		return sw(strings.ToUpper(s(0))), nil
	case "lower":
		return sw(strings.ToLower(s(0))), nil
	case "trim":
		return sw(strings.Trim(s(0), s(1))), nil
	case "replace":
		return sw(strings.ReplaceAll(s(0), s(1), s(2))), nil
	case "index":
		return nw(float64(strings.Index(s(0), s(1)))), nil
	case "split":
		parts := strings.Split(s(0), s(1))
		w := make([]string, len(parts))
		for i, p := range parts {
			w[i] = sw(p)
		}
		return "(ss " + strings.Join(w, " ") + ")", nil
	case "quote":
		return sw(strconv.Quote(s(0))), nil
	case "keyrepr":
		if lexer.IsIdent(s(0)) {
			return sw(s(0)), nil
		}
		return sw(strconv.Quote(s(0))), nil
	case "parsefloat":
		v, err := strconv.ParseFloat(s(0), 64)
		ok := "t"
		if err != nil {
			ok = "f"
		}
		return nw(v) + " " + ok, nil
	case "sprintf":
		vals := make([]any, 0, len(args)-1)
		for _, a := range args[1:] {
			switch {
			case a == "t":
				vals = append(vals, true)
			case a == "f":
				vals = append(vals, false)
			case a[0] == 'n':
				v, _ := xNum(a)
				vals = append(vals, v)
			default:
				v, _ := xStr(a)
				vals = append(vals, v)
			}
		}
		return sw(fmt.Sprintf(s(0), vals...)), nil
	case "hslfmt":
		return sw(fmt.Sprintf("hsl(%vdeg %v%% %v%% / %v%%)", n(0), n(1), n(2), n(3))), nil
	case "math.mod":
		return nw(math.Mod(n(0), n(1))), nil
	case "math.abs":
		return nw(math.Abs(n(0))), nil
	case "math.floor":
		return nw(math.Floor(n(0))), nil
	case "math.ceil":
		return nw(math.Ceil(n(0))), nil
	case "math.round":
		return nw(math.Round(n(0))), nil
	case "math.log":
		return nw(math.Log(n(0))), nil
	case "math.sqrt":
		return nw(math.Sqrt(n(0))), nil
	case "math.sin":
		return nw(math.Sin(n(0))), nil
	case "math.cos":
		return nw(math.Cos(n(0))), nil
	case "math.min":
		return nw(math.Min(n(0), n(1))), nil
	case "math.max":
		return nw(math.Max(n(0), n(1))), nil
	case "math.pow":
		return nw(math.Pow(n(0), n(1))), nil
	case "math.atan2":
		return nw(math.Atan2(n(0), n(1))), nil
	case "rand":
		src := rand.New(rand.NewSource(RandSeed)) //nolint:gosec
		var last float64
		for _, a := range args {
			if a == "t" {
				last = src.Float64()
			} else {
				u, _ := xNum(a)
				last = float64(src.Int31n(int32(u)))
			}
		}
		return nw(last), nil
	}
	return "", fmt.Errorf("no oracle for %q", fn)
}

// splitQueries splits "MISS (q1) (q2 (ns ..))" into top-level parenthesised queries.
func splitQueries(s string) []string {
	var out []string
	depth, start := 0, -1
	for i, c := range s {
		switch c {
		case '(':
			if depth == 0 {
				start = i
			}
			depth++
		case ')':
			depth--
			if depth == 0 && start >= 0 {
				out = append(out, s[start:i+1])
				start = -1
			}
		}
	}
	return out
}

// EvalModelOpts are the knobs of a model run.
type EvalModelOpts struct {
	StopAt    int
	FailFast  bool
	NoSummary bool
	Fuel      int
	Input     []string
	Events    []evaluator.Event
}

// EvalModel runs the Lean evaluator model on an already serialised program.
func EvalModel(d *Driver, prog string, o EvalModelOpts) ModelResult {
	opts := ""
	if o.StopAt > 0 {
		opts += fmt.Sprintf(" stopAt=%d", o.StopAt)
	}
	if o.FailFast {
		opts += " failFast=1"
	}
	if o.NoSummary {
		opts += " noSummary=1"
	}
	fuel := o.Fuel
	if fuel == 0 {
		fuel = 100000
	}
	opts += fmt.Sprintf(" fuel=%d", fuel)
	var evs []string
	for _, e := range o.Events {
		s := "(EV " + sw(e.Name)
		for _, p := range e.Params {
			switch v := p.(type) {
			case float64:
				s += " " + nw(v)
			case string:
				s += " " + sw(v)
			case bool:
				if v {
					s += " t"
				} else {
					s += " f"
				}
			}
		}
		evs = append(evs, s+")")
	}
	ins := make([]string, len(o.Input))
	for i, l := range o.Input {
		ins[i] = sw(l)
	}
	table := map[string]string{}
	var order []string
	// a run that misses an oracle answer ends at once (Model/Eval.lean callExt), so there is one
	// round per distinct library call of the program
	for round := 0; round < 3000; round++ {
		var tb strings.Builder
		for _, q := range order {
			tb.WriteString("(" + strings.Trim(q, "()") + " => " + table[q] + ") ")
		}
		req := "eval|" + opts + "|" + prog + "|" + strings.Join(evs, " ") + "|" + strings.Join(ins, " ") + "|" + tb.String()
		ans, err := d.Ask(req)
		if err != nil {
			return ModelResult{Err: err.Error()}
		}
		if strings.HasPrefix(ans, "MISS ") {
			for _, q := range splitQueries(ans[5:]) {
				if _, ok := table[q]; ok {
					continue
				}
				a, err := answerQuery(q)
				if err != nil {
					return ModelResult{Err: err.Error()}
				}
				table[q] = a
				order = append(order, q)
			}
			continue
		}
		if !strings.HasPrefix(ans, "RES ") {
			return ModelResult{Err: "driver: " + ans}
		}
		parts := strings.Split(ans[4:], " | ")
		if len(parts) != 4 {
			return ModelResult{Err: "driver: malformed " + ans}
		}
		y, _ := strconv.Atoi(strings.TrimPrefix(parts[3], "yields="))
		return ModelResult{Class: strings.TrimSpace(parts[0]), Trace: strings.TrimSpace(parts[1]), Globals: strings.TrimSpace(parts[2]), Yields: y, Rounds: round + 1}
	}
	return ModelResult{Err: "oracle did not converge"}
}

// RealTrace renders the real run's effects in the model's wire form.
func RealTrace(res Result) string {
	p := make([]string, len(res.Effects))
	for i, e := range res.Effects {
		p[i] = e.Args
	}
	return strings.Join(p, " ")
}

// normClass maps model outcome strings to the harness classes of run.go.
func normClass(c string) string {
	switch {
	case strings.HasPrefix(c, "internal:"):
		return "internal"
	case strings.HasPrefix(c, "gopanic:"):
		return "gopanic"
	}
	return c
}
