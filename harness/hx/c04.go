package hx

import (
	"fmt"
	"strings"

	"evylang.dev/evy/pkg/parser"
)

// TyW is a parser type together with its wire form for the Lean driver.
type TyW struct {
	Go *parser.Type
	W  string
}

func tyLeaves() []TyW {
	return []TyW{
		{parser.NUM_TYPE, "n"}, {parser.STRING_TYPE, "s"}, {parser.BOOL_TYPE, "b"}, {parser.ANY_TYPE, "a"}, {parser.NONE_TYPE, "z"},
		{parser.EMPTY_ARRAY, "E"}, {parser.EMPTY_MAP, "M"}, {parser.GENERIC_ARRAY, "G"}, {parser.GENERIC_MAP, "H"},
	}
}

// tyEnum lists all types up to the given nesting depth, with both values of Fixed at every composite.
func tyEnum(depth int) []TyW {
	leaves := tyLeaves()
	var subs []TyW // what may stand below a composite
	for _, l := range leaves {
		if l.W != "z" && l.W != "G" && l.W != "H" {
			subs = append(subs, l)
		}
	}
	all := append([]TyW{}, leaves...)
	level := subs
	for d := 0; d < depth; d++ {
		var next []TyW
		for _, s := range level {
			for _, f := range []bool{false, true} {
				fw := "l"
				if f {
					fw = "f"
				}
				next = append(next, TyW{&parser.Type{Name: parser.ARRAY, Sub: s.Go, Fixed: f}, "[" + fw + s.W})
				next = append(next, TyW{&parser.Type{Name: parser.MAP, Sub: s.Go, Fixed: f}, "{" + fw + s.W})
			}
		}
		all = append(all, next...)
		level = next
	}
	return all
}

// tyWire renders a type produced by the real code in the wire form.
func tyWire(t *parser.Type) string {
	switch t {
	case nil:
		return "nil"
	case parser.NUM_TYPE:
		return "n"
	case parser.STRING_TYPE:
		return "s"
	case parser.BOOL_TYPE:
		return "b"
	case parser.ANY_TYPE:
		return "a"
	case parser.NONE_TYPE:
		return "z"
	case parser.EMPTY_ARRAY:
		return "E"
	case parser.EMPTY_MAP:
		return "M"
	case parser.GENERIC_ARRAY:
		return "G"
	case parser.GENERIC_MAP:
		return "H"
	}
	f := "l"
	if t.Fixed {
		f = "f"
	}
	switch t.Name {
	case parser.ARRAY:
		return "[" + f + tyWire(t.Sub)
	case parser.MAP:
		return "{" + f + tyWire(t.Sub)
	}
	return "?" + t.String()
}

func tf(b bool) string {
	if b {
		return "t"
	}
	return "f"
}

type tyQuery struct {
	q    string
	real string
}

// tyBatch sends the queries to the model and reports answers that differ from the real code.
func tyBatch(r *Report, d *Driver, stream string, qs []tyQuery) {
	const n = 150
	for i := 0; i < len(qs); i += n {
		j := i + n
		if j > len(qs) {
			j = len(qs)
		}
		parts := make([]string, 0, j-i)
		for _, q := range qs[i:j] {
			parts = append(parts, q.q)
		}
		ans, err := d.Ask("ty " + strings.Join(parts, " ; "))
		if err != nil {
			panic(err)
		}
		as := strings.Fields(ans)
		if len(as) != j-i {
			r.Disagree(Case{Stream: stream, Input: parts[0], Real: "-", Model: trunc(ans, 200), Note: "driver answer count"})
			return
		}
		for k, q := range qs[i:j] {
			r.Count(stream+":"+q.q, true)
			if as[k] != q.real {
				r.Disagree(Case{Stream: stream, Input: q.q, Real: q.real, Model: as[k], Note: "pkg/parser/type.go against Model/Types.lean"})
			}
		}
	}
}

func safeTy(f func() string) (out string) {
	defer func() {
		if p := recover(); p != nil {
			out = "gopanic"
		}
	}()
	return f()
}

// ---- program level ----

// declared types (as written in programs) up to depth 2
type declTy struct {
	Src string // e.g. []{}num
	W   string // literal (non-fixed) wire form
}

func declTypes(depth int) []declTy {
	base := []declTy{{"num", "n"}, {"string", "s"}, {"bool", "b"}, {"any", "a"}}
	all := append([]declTy{}, base...)
	level := base
	for d := 0; d < depth; d++ {
		var next []declTy
		for _, s := range level {
			next = append(next, declTy{"[]" + s.Src, "[l" + s.W}, declTy{"{}" + s.Src, "{l" + s.W})
		}
		all = append(all, next...)
		level = next
	}
	return all
}

func fixedW(w string) string {
	if strings.HasPrefix(w, "[l") {
		return "[f" + w[2:]
	}
	if strings.HasPrefix(w, "{l") {
		return "{f" + w[2:]
	}
	return w
}

// c04Val is a value expression with the prelude it needs and its static type according to the model;
// W == "" means the model says the expression itself is a type error.
type c04Val struct {
	Kind    string // variable | constant | mixed | expression
	Prelude string
	Src     string
	W       string
}

type c04 struct {
	r     *Report
	d     *Driver
	cache map[string]string
}

func (c *c04) ask(q string) string {
	if a, ok := c.cache[q]; ok {
		return a
	}
	a, err := c.d.Ask("ty " + q)
	if err != nil {
		panic(err)
	}
	c.cache[q] = a
	return a
}

// lit builds an array literal value from element values, typed by the model's combineTypes.
func (c *c04) arrLit(elems ...c04Val) c04Val {
	var srcs, ws, pre []string
	kind := "constant"
	for _, e := range elems {
		if e.W == "" {
			return c04Val{Kind: "expression", Prelude: e.Prelude, Src: "[" + e.Src + "]"}
		}
		srcs = append(srcs, e.Src)
		ws = append(ws, e.W)
		if e.Prelude != "" && !strings.Contains(strings.Join(pre, ""), e.Prelude) {
			pre = append(pre, e.Prelude)
		}
		if e.Kind != "constant" {
			kind = "mixed"
		}
	}
	if len(elems) == 0 {
		return c04Val{Kind: "constant", Src: "[]", W: "E"}
	}
	sub := c.ask("combine " + strings.Join(ws, " "))
	return c04Val{Kind: kind, Prelude: strings.Join(pre, ""), Src: "[" + strings.Join(srcs, " ") + "]", W: "[l" + sub}
}

func (c *c04) mapLit(elems ...c04Val) c04Val {
	var srcs, ws, pre []string
	kind := "constant"
	for i, e := range elems {
		if e.W == "" {
			return c04Val{Kind: "expression", Prelude: e.Prelude, Src: "{k:" + e.Src + "}"}
		}
		srcs = append(srcs, fmt.Sprintf("k%d:%s", i, e.Src))
		ws = append(ws, e.W)
		if e.Prelude != "" && !strings.Contains(strings.Join(pre, ""), e.Prelude) {
			pre = append(pre, e.Prelude)
		}
		if e.Kind != "constant" {
			kind = "mixed"
		}
	}
	if len(elems) == 0 {
		return c04Val{Kind: "constant", Src: "{}", W: "M"}
	}
	sub := c.ask("combine " + strings.Join(ws, " "))
	return c04Val{Kind: kind, Prelude: strings.Join(pre, ""), Src: "{" + strings.Join(srcs, " ") + "}", W: "{l" + sub}
}

func (c *c04) values() []c04Val {
	num := c04Val{Kind: "constant", Src: "1", W: "n"}
	str := c04Val{Kind: "constant", Src: `"s"`, W: "s"}
	boo := c04Val{Kind: "constant", Src: "true", W: "b"}
	var out []c04Val
	add := func(v c04Val) { out = append(out, v) }
	// constants
	consts := []c04Val{num, str, boo, c.arrLit(), c.mapLit(),
		c.arrLit(num), c.arrLit(str), c.arrLit(boo), c.arrLit(num, str), c.arrLit(c.arrLit()), c.arrLit(c.mapLit()),
		c.arrLit(c.arrLit(num)), c.arrLit(c.arrLit(num), c.arrLit(str)), c.arrLit(c.arrLit(num), c.arrLit()), c.arrLit(c.arrLit(), c.arrLit(num)),
		c.arrLit(c.arrLit(c.arrLit())), c.arrLit(c.mapLit(num)), c.arrLit(c.mapLit(num), c.mapLit()), c.arrLit(c.arrLit(num), c.mapLit(num)),
		c.mapLit(num), c.mapLit(str), c.mapLit(num, str), c.mapLit(c.arrLit()), c.mapLit(c.arrLit(num)), c.mapLit(c.mapLit()),
		c.mapLit(c.arrLit(num), c.arrLit(str)), c.mapLit(c.mapLit(num), c.mapLit()), c.mapLit(c.arrLit(num, str)),
		c.arrLit(c.arrLit(c.arrLit(num)), c.arrLit(c.arrLit())), c.mapLit(c.mapLit(c.arrLit(boo))),
		c.mapLit(c.mapLit(), c.mapLit(num)), c.arrLit(c.mapLit(), c.mapLit(num)), c.mapLit(c.arrLit(), c.arrLit(num)), c.mapLit(c.mapLit(), c.mapLit(num), c.mapLit())}
	for _, v := range consts {
		add(v)
	}
	// variables of every declared type, and expressions built from them
	for _, u := range declTypes(2) {
		v := c04Val{Kind: "variable", Prelude: "v:" + u.Src + "\n", Src: "v", W: fixedW(u.W)}
		add(v)
		add(c04Val{Kind: "variable", Prelude: v.Prelude, Src: "(v)", W: v.W})
		add(c.arrLit(v))
		add(c.arrLit(v, v))
		add(c.mapLit(v))
		for _, k := range consts[3:12] {
			add(c.arrLit(v, k))
			add(c.arrLit(k, v))
		}
		add(c.arrLit(c.arrLit(v), c.arrLit(num)))
		// element, field, call result, type assertion, loop variable: not constants
		if strings.HasPrefix(u.Src, "[]") {
			add(c04Val{Kind: "variable", Prelude: v.Prelude, Src: "v[0]", W: fixedW(u.W[2:])})
			add(c04Val{Kind: "variable", Prelude: v.Prelude, Src: "v[:1]", W: v.W})
			add(c04Val{Kind: "variable", Prelude: v.Prelude, Src: "v + v", W: v.W})
			add(c04Val{Kind: "variable", Prelude: v.Prelude, Src: "v * 2", W: v.W})
			add(c04Val{Kind: "variable", Prelude: v.Prelude, Src: "[] + v", W: v.W})
			add(c04Val{Kind: "variable", Prelude: v.Prelude, Src: "v + []", W: v.W})
		}
		if strings.HasPrefix(u.Src, "{}") {
			add(c04Val{Kind: "variable", Prelude: v.Prelude, Src: "v.k", W: fixedW(u.W[2:])})
			add(c04Val{Kind: "variable", Prelude: v.Prelude, Src: `v["k"]`, W: fixedW(u.W[2:])})
		}
		add(c04Val{Kind: "variable", Prelude: "func g:" + u.Src + "\n    r:" + u.Src + "\n    return r\nend\n", Src: "(g)", W: fixedW(u.W)})
		if u.Src != "any" {
			add(c04Val{Kind: "variable", Prelude: "w:any\n", Src: "w.(" + u.Src + ")", W: fixedW(u.W)})
		}
	}
	// constant expressions
	l1, l2, ls := c.arrLit(num), c.arrLit(num, num), c.arrLit(str)
	cexpr := func(src string, q string) {
		w := c.ask(q)
		if strings.HasPrefix(w, "ERR") {
			w = ""
		}
		add(c04Val{Kind: "constant", Src: src, W: w})
	}
	cexpr("[1] + [2]", "concat "+l1.W+" "+l1.W)
	cexpr("[] + [1]", "concat E "+l1.W)
	cexpr("[1] + []", "concat "+l1.W+" E")
	cexpr("[] + []", "concat E E")
	cexpr("[[]] + [[1]]", "concat [lE [l"+l1.W)
	cexpr("[[1]] + [[]]", "concat [l"+l1.W+" [lE")
	cexpr("[[] [1]] + [[]]", "concat [l"+l1.W+" [lE")
	add(c04Val{Kind: "constant", Src: "[1 2][:1]", W: l2.W})
	add(c04Val{Kind: "constant", Src: "([1])", W: l1.W})
	add(c04Val{Kind: "constant", Src: "([])", W: "E"})
	add(c04Val{Kind: "constant", Src: "({})", W: "M"})
	add(c04Val{Kind: "constant", Src: "[1] * 2", W: l1.W})
	add(c04Val{Kind: "constant", Src: "[] * 2", W: "E"})
	add(c04Val{Kind: "constant", Src: "[[]] * 2", W: "[lE"})
	add(c04Val{Kind: "constant", Src: "([1] + [2])[1:]", W: l1.W})
	add(c04Val{Kind: "expression", Src: "[1] + [\"s\"]", W: ""}) // mismatched operands
	add(c04Val{Kind: "expression", Src: "[] + {}", W: ""})
	for _, e := range []string{"[[]] + 1", "[1] + 1", "{} + {}", "-[[]]", "![1]", "[] and []", "[[]] * [1]", "{a:[]} + []", "1 + []", "\"s\" + []"} {
		add(c04Val{Kind: "expression", Src: e, W: ""})
	}
	// elements and fields of literals (not constants; an element of a nested empty literal is an untyped empty)
	elem := func(src, w string) { add(c04Val{Kind: "variable", Src: src, W: w}) }
	elem("[[]][0]", "[fa")
	elem("([[]])[0]", "[fa")
	elem("[[[]]][0][0]", "[fa")
	elem("[[[]]][0]", "[f[la")
	elem("[[1]][0]", "[fn")
	elem("[[] [1]][0]", "[fn")
	elem("{a:[]}.a", "[fa")
	elem("{a:[]}[\"a\"]", "[fa")
	elem("{a:{}}.a", "{fa")
	elem("{a:[1]}.a", "[fn")
	elem("[{}][0]", "{fa")
	elem("[{a:1}][0]", "{fn")
	_ = ls
	// variables declared by inference (`v := <constant>`): a variable of the inferred type, never a
	// constant again — neither alone nor inside a literal, whatever the initialiser was (also an empty
	// literal, whose type is only fixed by the inference)
	for _, k := range consts {
		w := fixedW(c.ask("infer " + k.W))
		if strings.HasPrefix(w, "ERR") || w == "" {
			continue
		}
		v := c04Val{Kind: "variable", Prelude: "v := " + k.Src + "\n", Src: "v", W: w}
		add(v)
		add(c.arrLit(v))
		add(c.mapLit(v))
		add(c.arrLit(v, v))
		add(c.arrLit(v, c.arrLit(num)))
		add(c.arrLit(c.arrLit(num), v))
		add(c.mapLit(v, c.mapLit(num)))
	}
	// a call of a function without a result is not a value: rejected in every position, also inside literals
	proc := c04Val{Kind: "variable", Prelude: "func p0\n    print 1\nend\n", Src: "(p0)", W: ""}
	add(proc)
	add(c.arrLit(proc))
	add(c.mapLit(proc))
	add(c04Val{Kind: "expression", Prelude: proc.Prelude, Src: "[1 (p0)]", W: ""})
	add(c04Val{Kind: "expression", Prelude: proc.Prelude, Src: "[[(p0)]]", W: ""})
	add(c04Val{Kind: "expression", Prelude: proc.Prelude, Src: "{a:1 b:(p0)}", W: ""})
	return out
}

// c04Contexts: how a value meets a target of declared type T (complete programs).
func c04Contexts(t declTy, v c04Val) map[string]string {
	use := useVars(v.Prelude)
	retPre, retBody := "", indent(v.Prelude, 1)
	if strings.HasPrefix(v.Prelude, "func ") { // functions cannot nest
		retPre, retBody = v.Prelude, ""
	}
	if v.Prelude == "" {
		retBody = ""
	}
	return map[string]string{
		"assignment": v.Prelude + "t:" + t.Src + "\nt = " + v.Src + "\nprint t\n" + use,
		"parameter":  "func f p:" + t.Src + "\n    print p\nend\n" + v.Prelude + "f " + tight(v.Src) + "\n" + use,
		"variadic":   "func f p:" + t.Src + "...\n    print p\nend\n" + v.Prelude + "f " + tight(v.Src) + " " + tight(v.Src) + "\n" + use,
		"return":     retPre + "func f:" + t.Src + "\n" + retBody + "    return " + v.Src + "\nend\nprint (f)\n",
		"element":    v.Prelude + "t:[]" + t.Src + "\nt = t + t\nif (len t) > 0\n    t[0] = " + v.Src + "\nend\nprint t\n" + use,
		"field":      v.Prelude + "t:{}" + t.Src + "\nt.k = " + v.Src + "\nprint t\n" + use,
	}
}

// tight writes an expression as a call argument (binary operators need parentheses there).
func tight(src string) string {
	if strings.Contains(src, " + ") || strings.Contains(src, " * ") || strings.Contains(src, "[:") {
		return "(" + src + ")"
	}
	return src
}

// useVars appends a use of the prelude variables so that "declared but not used" cannot occur.
func useVars(prelude string) string {
	out := ""
	for _, l := range strings.Split(prelude, "\n") {
		if i := strings.Index(l, ":"); i > 0 && !strings.HasPrefix(l, "func") && !strings.HasPrefix(l, " ") {
			out += "print " + l[:i] + "\n"
		}
	}
	return out
}

// RunC04 : the type relations against the model, and the parser's verdicts against model and specification.
func RunC04(d *Driver) *Report {
	r := NewReport("C04")
	c := &c04{r: r, d: d, cache: map[string]string{}}
	depth := 2
	if Thorough() {
		depth = 3
	}
	tys := tyEnum(depth)
	r.Info["types_enumerated"] = len(tys)
	// function level, exhaustive
	var qs []tyQuery
	for _, a := range tys {
		if a.W != "G" && a.W != "H" { // the generic parameter types are never the type of a value
			qs = append(qs, tyQuery{"infer " + a.W, safeTy(func() string { return tyWire(parser.VerifInfer(a.Go)) })})
		}
		qs = append(qs, tyQuery{"fixed " + a.W, safeTy(func() string { return tyWire(parser.VerifFixedType(a.Go)) })})
		qs = append(qs, tyQuery{"str " + a.W, safeTy(func() string { return a.Go.String() })})
	}
	small := tyEnum(2)
	pairs := func(l []TyW, f func(a, b TyW)) {
		for _, a := range l {
			for _, b := range l {
				f(a, b)
			}
		}
	}
	pairs(tys, func(a, b TyW) {
		qs = append(qs, tyQuery{"accepts " + a.W + " " + b.W, safeTy(func() string { return tf(parser.VerifAccepts(a.Go, b.Go)) })})
	})
	accLevel := small
	if Thorough() {
		accLevel = tys
	}
	isValue := func(t TyW) bool { return t.W != "G" && t.W != "H" && t.W != "z" }
	pairs(accLevel, func(a, b TyW) {
		qs = append(qs, tyQuery{"matches " + a.W + " " + b.W, safeTy(func() string { return tf(parser.VerifMatches(a.Go, b.Go)) })})
		qs = append(qs, tyQuery{"equals " + a.W + " " + b.W, safeTy(func() string { return tf(a.Go.Equals(b.Go)) })})
		if isValue(a) && isValue(b) {
			qs = append(qs, tyQuery{"combine " + a.W + " " + b.W, safeTy(func() string { return tyWire(parser.VerifCombineTypes([]*parser.Type{a.Go, b.Go})) })})
			if parser.VerifMatches(a.Go, b.Go) && a.Go.Name == parser.ARRAY {
				qs = append(qs, tyQuery{"concat " + a.W + " " + b.W, safeTy(func() string { return tyWire(parser.VerifConcatType(a.Go, b.Go)) })})
			}
		}
	})
	// triples for combineTypes over depth-1 values
	one := tyEnum(1)
	for _, a := range one {
		for _, b := range one {
			for _, x := range one {
				if isValue(a) && isValue(b) && isValue(x) {
					qs = append(qs, tyQuery{"combine " + a.W + " " + b.W + " " + x.W, safeTy(func() string { return tyWire(parser.VerifCombineTypes([]*parser.Type{a.Go, b.Go, x.Go})) })})
				}
			}
		}
	}
	tyBatch(r, d, "type-relations", qs)
	nfun := len(qs)

	// program level: target x value x context
	targets := declTypes(2)
	vals := c.values()
	nprog := 0
	for _, v := range vals {
		r.Hist("value-kind", v.Kind)
	}
	for _, t := range targets {
		for _, v := range vals {
			want := "reject"
			if v.W != "" && c.ask("accepts "+fixedW(t.W)+" "+v.W) == "t" {
				want = "accept"
			}
			for ctx, src := range c04Contexts(t, v) {
				nprog++
				r.Count("prog:"+src, true)
				_, perr, pp := ParseSrc(src)
				got := "accept"
				if pp != "" {
					got = "crash"
				} else if perr != "" {
					got = "reject"
				}
				r.Hist("verdict:"+ctx, got)
				if got == want {
					r.Sample(map[string]string{"context": ctx, "program": src, "verdict": got}, 3)
					continue
				}
				cs := Case{Stream: "matrix:" + ctx, Input: src, Real: got + " " + trunc(perr+pp, 300), Model: want,
					Note: fmt.Sprintf("target %s, value %s of model type %s (%s)", t.Src, v.Src, v.W, v.Kind)}
				// the specification decides the pure cells (accepts_var_iff, accepts_const_iff): a mismatch there is a violation
				// a literal with a variable part "is not a constant ... treated like a variable": accepted by the
				// identical type or by any. Where the model's verdict is also that reading's, a mismatch is a violation.
				mixedSpec := ""
				if v.Kind == "mixed" && v.W != "" {
					mixedSpec = "reject"
					if t.W == "a" || fixedW(t.W) == fixedW(c.ask("infer "+v.W)) {
						mixedSpec = "accept"
					}
				}
				switch {
				case got == "crash":
					cs.Spec = "the parser never crashes"
					r.Violation(cs)
				case strings.Contains(v.Src, "(p0)"):
					cs.Spec = "reject (the call of a function without a result type has no value: it cannot be assigned, passed, returned or stored)"
					r.Violation(cs)
				case (v.Kind == "variable" || v.Kind == "constant") && !strings.ContainsAny(v.Src, "+*"):
					cs.Spec = want + " (docs/spec.md Assignability, by accepts_var_iff / accepts_const_iff)"
					r.Violation(cs)
				case mixedSpec == want:
					cs.Spec = want + " (docs/spec.md: a literal that contains a variable is treated like a variable; accepts_literal_of_var_iff)"
					r.Violation(cs)
				default:
					r.Disagree(cs)
				}
			}
		}
	}
	// inferred declarations: `x := <value>` must give x the model's inferred type. Probed statically: a
	// variable is accepted only by its identical type (or any), and only an any value can be type asserted.
	srcOf := map[string]string{}
	for _, t := range declTypes(3) {
		srcOf[fixedW(t.W)] = t.Src
	}
	for _, v := range vals {
		if v.W == "" {
			continue
		}
		want := fixedW(c.ask("infer " + v.W))
		tsrc, ok := srcOf[want]
		if !ok {
			continue // deeper than the probe types
		}
		src := v.Prelude + "x := " + v.Src + "\nz:" + tsrc + "\nz = x\nprint z\n" + useVars(v.Prelude)
		if tsrc == "any" {
			src = v.Prelude + "x := " + v.Src + "\nprint x.(num)\n" + useVars(v.Prelude)
		}
		nprog++
		r.Count("infer:"+src, true)
		_, perr, pp := ParseSrc(src)
		if perr != "" || pp != "" {
			cs := Case{Stream: "inferred-declaration", Input: src, Real: "reject " + trunc(perr+pp, 300), Model: "x has type " + tsrc,
				Note: "the static type of an inferred declaration against the model's infer"}
			if v.Kind == "constant" && !strings.ContainsAny(v.Src, "+*:(") {
				cs.Spec = tsrc + " (strictest common type: combine2_const, join_least, infer_const)"
				r.Violation(cs)
			} else {
				r.Disagree(cs)
			}
		}
	}
	// the documented examples of spec.md "Variables and Declarations" / "Typeof", run
	for _, ex := range [][2]string{
		{"arr1 := [1 2 3]\nprint (typeof arr1)\n", "[]num"}, {"arr2 := [1] + []\nprint (typeof arr2)\n", "[]num"},
		{"arr3 := [1 \"a\"]\nprint (typeof arr3)\n", "[]any"}, {"arr4 := [[1] [\"a\"]]\nprint (typeof arr4)\n", "[][]any"},
		{"arr5 := []\nprint (typeof arr5)\n", "[]any"}, {"map1 := {}\nprint (typeof map1)\n", "{}any"}, {"map2 := {age:10}\nprint (typeof map2)\n", "{}num"},
		{"y:[]any\ny = [1 2 3]\nprint (typeof y)\n", "[]any"},
		{"arr:[]{}any\narr = [{a:1} {b:[1 2 {}]} {}]\nprint (typeof arr) (typeof arr[0]) (typeof arr[0].a)\n", "[]{}any {}any num"},
		{"x := [[]]\nprint (typeof x)\n", "[][]any"},
	} {
		nprog++
		r.Count("doc:"+ex[0], true)
		res, _, _ := RunReal(ex[0], RunOpts{MaxYield: 2000})
		if got := strings.TrimSpace(res.Out); got != ex[1] || res.ParseErr != "" {
			r.Violation(Case{Stream: "spec-examples", Input: ex[0], Real: got + " " + trunc(res.ParseErr+res.GoPanic, 200), Spec: ex[1] + " (docs/spec.md)"})
		}
	}
	// characters of a string can be READ by index (spec.md, Strings): an index into a string is no assignment target,
	// however the string is reached — a variable, an array element, a map value, any nesting of these; assigning the
	// whole string at the same path is the accepted control
	for _, tc := range [][3]string{
		{"s := \"ab\"\n", "s", ""}, {"a := [\"ab\" \"cd\"]\n", "a[1]", ""}, {"m := {name:\"ab\"}\n", "m.name", ""}, {"m := {name:\"ab\"}\n", "m[\"name\"]", ""},
		{"aa := [[\"ab\"] [\"cd\"]]\n", "aa[1][0]", ""}, {"am := [{k:\"ab\"}]\n", "am[0].k", ""}, {"ma := {k:[\"ab\"]}\n", "ma.k[0]", ""},
		{"mm := {k:{j:\"ab\"}}\n", "mm.k.j", ""}, {"mm := {k:{j:\"ab\"}}\n", "mm[\"k\"][\"j\"]", ""}, {"i := 0\na := [\"ab\" \"cd\"]\n", "a[i]", "print i\n"},
		{"func f p:[]string\n", "    p[0]", "end\nf [\"ab\"]\n"}, {"func f p:string...\n", "    p[0]", "end\nf \"ab\"\n"},
	} {
		root := strings.TrimSpace(tc[1])
		root = root[:strings.IndexAny(root+"[", "[.")]
		for _, idx := range []string{"[0]", "[-1]", "[1]"} {
			for k, src := range []string{tc[0] + tc[1] + idx + " = \"x\"\n" + tc[2] + useIf(tc[2] == "", "print "+root+"\n"), tc[0] + tc[1] + " = \"x\"\n" + tc[2] + useIf(tc[2] == "", "print "+root+"\n")} {
				nprog++
				r.Count("string-element-target:"+src, true)
				_, perr, pp := ParseSrc(src)
				switch {
				case pp != "":
					r.Violation(Case{Stream: "string-element-target", Input: src, Real: "crash " + trunc(pp, 300), Spec: "no crash"})
				case k == 0 && perr == "":
					r.Violation(Case{Stream: "string-element-target", Input: src, Real: "accept", Spec: "reject (characters of a string can be read by index, docs/spec.md Strings; a string is not changed in place)"})
				case k == 1 && perr != "":
					r.Violation(Case{Stream: "string-element-target", Input: src, Real: "reject " + trunc(perr, 300), Spec: "accept (a string variable, element or map value is assignable)"})
				}
			}
		}
	}
	// a call of a function without a result is not a value: every cell of the type matrix (every operator with
	// every kind of other operand, every position that takes a value) that uses one is rejected — a user procedure
	// with and without parameter, and a built-in procedure
	for _, src := range TypeMatrixPrograms() {
		head, _, _ := strings.Cut(src, "print n s b an as aa mn ma y\n")
		if !strings.Contains(head[strings.Index(head, "func q v:num"):], "(p)") && !strings.Contains(head, "(q 1)") {
			continue
		}
		for _, v := range []string{src, strings.ReplaceAll(strings.ReplaceAll(src, "(q 1)", "(clear \"red\")"), "x := (p)", "x := (cls)")} {
			if v == src && nprog%1 != 0 {
				continue
			}
			nprog++
			r.Count("none-operand:"+v, true)
			_, perr, pp := ParseSrc(v)
			if pp != "" {
				r.Violation(Case{Stream: "none-operand", Input: v, Real: "crash " + trunc(pp, 300), Spec: "reject (a call without a value is not an operand, element, argument or condition)"})
			} else if perr == "" {
				r.Violation(Case{Stream: "none-operand", Input: v, Real: "accept", Spec: "reject (a call without a value is not an operand, element, argument or condition)"})
			}
		}
	}
	// operators, conditions, range, index, slice, field, type assertion
	type operand struct{ pre, src, w string }
	var ops []operand
	for i, u := range declTypes(1) {
		n := fmt.Sprintf("v%d", i)
		ops = append(ops, operand{n + ":" + u.Src + "\n", n, fixedW(u.W)})
	}
	for _, l := range []c04Val{{Src: "1", W: "n"}, {Src: `"s"`, W: "s"}, {Src: "true", W: "b"}, {Src: "[]", W: "E"}, {Src: "{}", W: "M"},
		c.arrLit(c04Val{Kind: "constant", Src: "1", W: "n"}), c.arrLit(c04Val{Kind: "constant", Src: `"s"`, W: "s"}),
		c.mapLit(c04Val{Kind: "constant", Src: "1", W: "n"}), c.arrLit(c.arrLit())} {
		ops = append(ops, operand{"", l.Src, l.W})
	}
	probe := func(stream, pre, expr, model string, uses string) {
		// model: "reject" or the wire type of expr
		var src string
		switch {
		case model == "reject":
			src = pre + "x := " + expr + "\nprint x\n" + uses
		default:
			p := fixedW(c.ask("infer " + model))
			tsrc := srcOf[p]
			if p == "a" {
				src = pre + "x := " + expr + "\nprint x.(num)\n" + uses
			} else {
				src = pre + "x := " + expr + "\nz:" + tsrc + "\nz = x\nprint z\n" + uses
			}
		}
		nprog++
		r.Count(stream+":"+src, true)
		_, perr, pp := ParseSrc(src)
		got := "accept"
		if pp != "" {
			got = "crash"
		} else if perr != "" {
			got = "reject"
		}
		want := "accept"
		if model == "reject" {
			want = "reject"
		}
		r.Hist("verdict:"+stream, got)
		if got != want {
			r.Violation(Case{Stream: stream, Input: src, Real: got + " " + trunc(perr+pp, 300), Model: "static type of the expression: " + model,
				Spec: want + " (docs/spec.md operator table / index, slice, field, range and assertion rules; arith_iff, plus_iff, star_iff, ordering_iff, equality_iff, logical_iff, unary_iff)"})
		}
	}
	binops := []string{"+", "-", "*", "/", "%", "<", ">", "<=", ">=", "==", "!=", "and", "or"}
	for _, l := range ops {
		for _, rr := range ops {
			if l.src == rr.src && l.pre != "" {
				continue
			}
			pre := l.pre + rr.pre
			uses := useVars(pre)
			for _, op := range binops {
				model := c.ask("bin " + op + " " + l.w + " " + rr.w)
				probe("operator", pre, l.src+" "+op+" "+rr.src, model, uses)
				// as a condition
				want := "reject"
				if model == "b" {
					want = "accept"
				}
				src := pre + "if " + l.src + " " + op + " " + rr.src + "\n    print 1\nend\n" + uses
				nprog++
				r.Count("cond:"+src, true)
				_, perr, pp := ParseSrc(src)
				got := "accept"
				if perr != "" || pp != "" {
					got = "reject"
				}
				if got != want {
					r.Violation(Case{Stream: "condition", Input: src, Real: got + " " + trunc(perr+pp, 300), Model: "type " + model, Spec: want + " (a condition must be of type bool)"})
				}
			}
		}
		uses := useVars(l.pre)
		// the operand alone as the condition of if / else if / while: accepted exactly for type bool (any is not bool)
		for ci, csrc := range []string{"if " + l.src + "\n    print 1\nend\n", "if false\n    print 0\nelse if " + l.src + "\n    print 1\nend\n",
			"while " + l.src + "\n    break\nend\n", "if (" + l.src + ")\n    print 1\nend\n"} {
			want := "reject"
			if l.w == "b" {
				want = "accept"
			}
			src := l.pre + csrc + uses
			nprog++
			r.Count(fmt.Sprintf("cond-plain:%d:%s", ci, src), true)
			_, perr, pp := ParseSrc(src)
			got := "accept"
			if perr != "" || pp != "" {
				got = "reject"
			}
			if got != want {
				r.Violation(Case{Stream: "condition", Input: src, Real: got + " " + trunc(perr+pp, 300), Model: "type " + l.w, Spec: want + " (a condition must be of type bool)"})
			}
		}
		probe("unary", l.pre, "-"+l.src, c.ask("un - "+l.w), uses)
		probe("unary", l.pre, "!"+l.src, c.ask("un ! "+l.w), uses)
		probe("slice", l.pre, l.src+"[0:1]", c.ask("slice "+l.w), uses)
		if l.pre != "" { // index, field and assertion need a variable on the left
			probe("index", l.pre, l.src+"[0]", c.ask("index "+l.w+" n"), uses)
			probe("index", l.pre, l.src+`["k"]`, c.ask("index "+l.w+" s"), uses)
			probe("index", l.pre, l.src+"[true]", c.ask("index "+l.w+" b"), uses)
			probe("field", l.pre, l.src+".k", c.ask("dot "+l.w), uses)
			for _, t := range declTypes(1) {
				probe("assertion", l.pre, l.src+".("+t.Src+")", c.ask("assert "+l.w+" "+t.W), uses)
			}
			// range: the loop variable's type
			model := c.ask("range " + l.w)
			var src string
			if model == "reject" {
				src = l.pre + "for e := range " + l.src + "\n    print e\nend\n"
			} else if model == "a" {
				src = l.pre + "for e := range " + l.src + "\n    print e.(num)\nend\n"
			} else {
				src = l.pre + "for e := range " + l.src + "\n    z:" + srcOf[fixedW(model)] + "\n    z = e\n    print z\nend\n"
			}
			nprog++
			r.Count("range:"+src, true)
			_, perr, pp := ParseSrc(src)
			got, want := "accept", "accept"
			if perr != "" || pp != "" {
				got = "reject"
			}
			if model == "reject" {
				want = "reject"
			}
			if got != want {
				r.Violation(Case{Stream: "range", Input: src, Real: got + " " + trunc(perr+pp, 300), Model: "loop variable: " + model, Spec: want + " (range over num, string, array or map; the loop variable has the element type, string for strings and maps)"})
			}
			// a range with two or three operands is a step range: every operand is a num (docs/spec.md, for statement)
			for _, form := range []string{"%s 2", "1 %s", "%s 1 2", "0 %s 2", "0 5 %s", "%s %s"} {
				hdr := strings.ReplaceAll(form, "%s", l.src)
				for _, lv := range []string{"for i := range " + hdr + "\n    print i\nend\n", "for range " + hdr + "\n    print 1\nend\n"} {
					src := l.pre + lv
					nprog++
					r.Count("range:"+src, true)
					_, perr, pp := ParseSrc(src)
					got, want := "accept", "reject"
					if perr != "" || pp != "" {
						got = "reject"
					}
					if l.w == "n" {
						want = "accept"
					}
					if got != want {
						r.Violation(Case{Stream: "range", Input: src, Real: got + " " + trunc(perr+pp, 300), Model: "operand type " + l.w, Spec: want + " (a range with more than one operand takes num operands only)"})
					}
				}
			}
		}
	}
	r.Rule = fmt.Sprintf("function level: accepts for ALL pairs of the %d types up to nesting depth %d (every composite with Fixed true and false, plus the interned empty, generic and none types); matches, Equals, combineTypes, concatType for all pairs up to depth %d; infer, fixedType, String for every type; combineTypes for all triples of depth-1 types (%d queries), each compared with Model/Types.lean. Program level: %d programs = %d target types (depth <= 2) x %d value expressions (constants incl. nested and empty literals, variables of every type, elements, fields, call results, type assertions, literals with variable elements, concatenations / repetitions / slices / groups) x 6 contexts (assignment, parameter, variadic parameter, return, array element, map field) + inferred declarations with typeof; the parser's verdict is compared with the model's accepts on the model's static type, and in the pure variable / constant cells with docs/spec.md through the theorems. Non-trivial = distinct query / program", len(tys), depth, map[bool]int{false: 2, true: depth}[Thorough()], nfun, nprog, len(targets), len(vals))
	r.Rule += "; every cell of the type matrix that uses a call WITHOUT a value (user procedures with and without parameter, built-in procedures) as operand, element, argument, condition or range must be rejected; range headers with two and three operands of every variable type are accepted iff every operand is a num"
	r.DriverCalls = d.N
	return r
}

func useIf(c bool, s string) string {
	if c {
		return s
	}
	return ""
}
