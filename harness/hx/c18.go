package hx

import (
	"bytes"
	"fmt"
	"os"
	"os/exec"
	"path/filepath"
	"regexp"
	"strings"
	"syscall"
	"time"
)

// BuildEvy builds the evy CLI from the repository working tree into the scratch directory.
func BuildEvy() (string, error) {
	scratch := os.Getenv("VERIF_SCRATCH")
	if scratch == "" {
		var err error
		scratch, err = os.MkdirTemp("", "verif-evy-")
		if err != nil {
			return "", err
		}
	}
	bin := filepath.Join(scratch, "evy")
	args := []string{"build"}
	if os.Getenv("VERIF_COVER") != "" { // only for measuring the reach of the generators (DESIGN 9.4), never set by bin/check
		args = append(args, "-cover")
	}
	cmd := exec.Command("go", append(args, "-o", bin, ".")...)
	cmd.Dir = RepoDir()
	cmd.Env = append(os.Environ(), "GOFLAGS=-mod=mod", "GOPROXY=off", "GOSUMDB=off", "GOTOOLCHAIN=local", "CGO_ENABLED=0")
	out, err := cmd.CombinedOutput()
	if err != nil {
		return "", fmt.Errorf("go build evy: %v\n%s", err, out)
	}
	return bin, nil
}

type procResult struct {
	Exit   int
	Killed bool
	Stdout string
	Stderr string
}

func runProc(timeout time.Duration, stdin string, name string, args ...string) procResult {
	cmd := exec.Command(name, args...)
	var so, se bytes.Buffer
	cmd.Stdout, cmd.Stderr = &so, &se
	if stdin != "" {
		cmd.Stdin = strings.NewReader(stdin)
	}
	done := make(chan error, 1)
	if err := cmd.Start(); err != nil {
		return procResult{Exit: -1, Stderr: err.Error()}
	}
	go func() { done <- cmd.Wait() }()
	var err error
	select {
	case err = <-done:
	case <-time.After(timeout):
		cmd.Process.Kill() //nolint
		<-done
		return procResult{Exit: -2, Killed: true, Stdout: so.String(), Stderr: se.String() + "\n<timeout>"}
	}
	res := procResult{Stdout: so.String(), Stderr: se.String()}
	if err != nil {
		if ee, ok := err.(*exec.ExitError); ok {
			if ws, ok := ee.Sys().(syscall.WaitStatus); ok && ws.Signaled() {
				res.Killed = true
				res.Exit = 128 + int(ws.Signal())
			} else {
				res.Exit = ee.ExitCode()
			}
		} else {
			res.Exit = -1
		}
	}
	return res
}

var reSys = regexp.MustCompile(`^\d+\s+(\w+)\((.*)$`)

type sysEvent struct {
	name string
	args string
	nth  int // occurrence number of this syscall name (1-based) in the whole process
}

func parseStrace(path string) []sysEvent {
	b, err := os.ReadFile(path)
	if err != nil {
		return nil
	}
	count := map[string]int{}
	var out []sysEvent
	for _, line := range strings.Split(string(b), "\n") {
		m := reSys.FindStringSubmatch(line)
		if m == nil {
			continue
		}
		if strings.Contains(line, "<unfinished") {
			// counted when it started
		}
		if strings.Contains(line, "resumed>") {
			continue
		}
		count[m[1]]++
		out = append(out, sysEvent{m[1], m[2], count[m[1]]})
	}
	return out
}

const straceSet = "openat,write,close,renameat,renameat2,rename,fchmod,fchmodat,chmod,newfstatat,unlinkat,fsync,ftruncate,pwrite64"

// RunC18 : fault injection with strace on the real binary.
func RunC18(d *Driver) *Report {
	r := NewReport("C18")
	bin, err := BuildEvy()
	if err != nil {
		r.Disagree(Case{Stream: "build", Input: "go build", Real: err.Error()})
		return r
	}
	if _, err := exec.LookPath("strace"); err != nil {
		r.Disagree(Case{Stream: "strace", Input: "strace", Real: "strace not available: " + err.Error()})
		return r
	}
	dir, err := os.MkdirTemp("", "verif-c18-")
	if err != nil {
		r.Disagree(Case{Stream: "tmp", Input: "mkdtemp", Real: err.Error()})
		return r
	}
	defer os.RemoveAll(dir)
	type tf struct {
		name, content string
		mode          os.FileMode
		symlink       bool   // the path given to evy fmt is a symbolic link to the file
		formatted     string // for a txtar archive: the archive with its .evy members formatted
	}
	files := []tf{
		{"a.evy", "x:=1\nprint   x\n", 0o644, false, ""},
		{"b.evy", "func  f   n:num\n  print n  // c\nend\n\n\n\nf 1\n", 0o755, false, ""},
		{"c.evy", "print 1\n", 0o600, false, ""},
		{"d.evy", "a := [1\n 2\n   3]\nfor i:=range a\nprint i\nend\n", 0o664, false, ""},
		{"link.evy", "y:=2\nprint   y\n", 0o644, true, ""},
		{"ro.evy", "if true\nprint 1\nelse\nprint 2\nend\n", 0o444, false, ""}, // read-only for everybody
		{"ro2.evy", "z:=3\nprint   z\n", 0o400, false, ""},
		{"wide.evy", "w:=4\nprint   w\n", 0o666, false, ""},
		{"long.evy", "v:=5\n" + strings.Repeat("print   v  v  v  v  v  v  v  v  v  v  v  v  v  v\n", 40), 0o644, false, ""}, // more than one read
		{"arch.txtar", "notes\n-- a.evy --\nx:=1\nprint   x\n-- keep.txt --\nkeep   this  as it is\n-- b.evy --\nif true\nprint 1\nend\n", 0o640, false,
			"notes\n-- a.evy --\nx := 1\nprint x\n-- keep.txt --\nkeep   this  as it is\n-- b.evy --\nif true\n    print 1\nend\n"},
	}
	if Thorough() {
		big := "x := 0\n"
		for i := 0; i < 3000; i++ {
			big += fmt.Sprintf("x  =  x +  %d\n", i)
		}
		files = append(files, tf{"big.evy", big, 0o640, false, ""}, tf{"e.evy", "if true\nprint 1\nelse\nprint 2\nend\n", 0o555, false, ""}, tf{"f.evy", "print   1\n", 0o775, false, ""}, tf{"g.evy", "print   2\n", 0o464, false, ""})
	}
	faults := []string{"error=ENOSPC", "error=EIO", "error=EACCES", "signal=KILL"}
	r.Rule = fmt.Sprintf("the evy binary is rebuilt from the working tree; for %d source files of different modes (one reached through a symbolic link) and every file-system system call of `evy fmt -w` after the target has been read (found with a fault-free strace run), each of %v is injected with `strace -e inject=…:when=k`: afterwards the file must hold its original or the complete formatted text with unchanged permission bits, and exit status 0 must mean formatted. The fault-free system-call sequence is compared with the call list the Lean theorems are about. Also: EIO and EINTR on the first three reads of the source file itself (found by path), for fmt -w and fmt -c; unparsable files untouched with non-zero status; `fmt -c` exits 0 exactly for formatted input and writes nothing, also over several files in every order; -w on stdin rejected. Non-trivial = distinct (file, syscall, occurrence, fault)", len(files), faults)
	model, _ := d.Ask("shape writeAtomically")
	for _, f := range files {
		path := filepath.Join(dir, f.name)
		restore := func() {
			os.Remove(path)
			if f.symlink {
				real := filepath.Join(dir, f.name+".real")
				os.Remove(real)
				os.WriteFile(real, []byte(f.content), f.mode) //nolint
				os.Chmod(real, f.mode)                        //nolint
				os.Symlink(real, path)                        //nolint
			} else {
				os.WriteFile(path, []byte(f.content), f.mode) //nolint
				os.Chmod(path, f.mode)                        //nolint
			}
			// remove stray temp files
			ents, _ := os.ReadDir(dir)
			for _, e := range ents {
				if strings.HasPrefix(e.Name(), "evy") && !strings.HasSuffix(e.Name(), ".evy") {
					os.Remove(filepath.Join(dir, e.Name()))
				}
			}
		}
		// the formatted text: from a plain run on stdin
		fr := runProc(20*time.Second, f.content, bin, "fmt")
		if f.formatted != "" {
			fr = procResult{Stdout: f.formatted}
		}
		if fr.Exit != 0 {
			r.Disagree(Case{Stream: "fmt-stdin", Input: f.content, Real: fr.Stderr})
			continue
		}
		formatted := fr.Stdout
		check := func(what string, pr procResult) {
			got, err := os.ReadFile(path)
			st, serr := os.Stat(path)
			real := fmt.Sprintf("exit=%d killed=%v", pr.Exit, pr.Killed)
			c := Case{Stream: "fault", Input: map[string]any{"file": f.name, "content": f.content, "mode": fmt.Sprintf("%o", f.mode), "injection": what}}
			switch {
			case err != nil || serr != nil:
				c.Real, c.Spec = real+" file unreadable/missing: "+fmt.Sprint(err, serr), "the file still exists"
				r.Violation(c)
			case string(got) != f.content && string(got) != formatted:
				c.Real, c.Spec = real+fmt.Sprintf(" content=%q", trunc(string(got), 200)), "file holds either its complete original or the complete formatted text"
				r.Violation(c)
			case st.Mode().Perm() != f.mode:
				c.Real, c.Spec = real+fmt.Sprintf(" mode=%o", st.Mode().Perm()), fmt.Sprintf("permission bits unchanged (%o)", f.mode)
				r.Violation(c)
			case pr.Exit == 0 && !pr.Killed && string(got) != formatted:
				c.Real, c.Spec = real+" content=original", "exit status 0 only when the file has been formatted"
				r.Violation(c)
			}
		}
		// fault-free traced run
		restore()
		trace := filepath.Join(dir, "trace.txt")
		pr := runProc(30*time.Second, "", "strace", "-f", "-qq", "-o", trace, "-e", "trace="+straceSet, bin, "fmt", "-w", path)
		evs := parseStrace(trace)
		os.Remove(trace)
		check("none", pr)
		r.Count(f.name+":none", true)
		// events after the target was opened for reading
		start := -1
		for i, e := range evs {
			if e.name == "openat" && strings.Contains(e.args, f.name) {
				start = i
				break
			}
		}
		if start < 0 {
			r.Disagree(Case{Stream: "trace", Input: f.name, Real: "target open not found in strace output (exit " + fmt.Sprint(pr.Exit) + ")"})
			continue
		}
		// trace vs model: the sequence of file-system operations after reading
		var seq []string
		readDone := false
		for _, e := range evs[start:] {
			switch {
			case e.name == "close" && !readDone:
				readDone = true
			case !readDone:
			case e.name == "newfstatat" && strings.Contains(e.args, f.name):
				seq = append(seq, "stat")
			case e.name == "openat" && strings.Contains(e.args, "O_CREAT"):
				if strings.Contains(e.args, f.name+"\"") {
					seq = append(seq, "openTarget")
				} else {
					seq = append(seq, "createTemp")
				}
			case e.name == "fchmod" || e.name == "fchmodat" || e.name == "chmod":
				seq = append(seq, "chmod")
			case e.name == "write" || e.name == "pwrite64":
				if !strings.HasPrefix(strings.TrimSpace(e.args), "1,") && !strings.HasPrefix(strings.TrimSpace(e.args), "2,") {
					seq = append(seq, "write")
				}
			case e.name == "close":
				seq = append(seq, "close")
			case e.name == "renameat" || e.name == "renameat2" || e.name == "rename":
				seq = append(seq, "rename")
			case e.name == "unlinkat":
				seq = append(seq, "remove")
			case e.name == "fsync":
				seq = append(seq, "sync")
			case e.name == "ftruncate":
				seq = append(seq, "truncate")
			}
		}
		// stat calls have no effect on the directory (os.Rename itself stats the target): not compared
		noStat := func(xs []string) string {
			var o []string
			for _, x := range xs {
				if x != "stat" {
					o = append(o, x)
				}
			}
			return strings.Join(o, " ")
		}
		realSeq := noStat(seq)
		model = noStat(strings.Fields(model))
		r.Sample(map[string]any{"file": f.name, "syscalls_after_read": realSeq, "model_calls": model}, 4)
		if f.name != "c.evy" || true {
			if string(mustRead(path)) == formatted && realSeq != model {
				r.Disagree(Case{Stream: "trace-vs-model", Input: f.name, Real: realSeq, Model: model, Note: "system calls of the fault-free run vs the call list extracted from writeAtomically"})
			}
		}
		// injections
		seen := map[string]bool{}
		for _, e := range evs[start:] {
			key := fmt.Sprintf("%s:%d", e.name, e.nth)
			if seen[key] {
				continue
			}
			seen[key] = true
			for _, fault := range faults {
				if fault != "signal=KILL" && (e.name == "close" && false) {
					continue
				}
				restore()
				inj := fmt.Sprintf("%s:%s:when=%d", e.name, fault, e.nth)
				pr := runProc(30*time.Second, "", "strace", "-f", "-qq", "-o", "/dev/null", "-e", "trace="+e.name, "-e", "inject="+inj, bin, "fmt", "-w", path)
				r.Count(f.name+":"+inj, true)
				r.Hist("fault", fault)
				r.Hist("syscall", e.name)
				check(inj, pr)
			}
		}
		// a failing read of the source itself (the k-th read on the file, found by path): nothing may be written from a
		// partial text, and -c may not accept it
		if !f.symlink {
			for k := 1; k <= 3; k++ {
				for _, fault := range []string{"error=EIO", "error=EINTR"} {
					restore()
					inj := fmt.Sprintf("read:%s:when=%d", fault, k)
					pr := runProc(30*time.Second, "", "strace", "-f", "-qq", "-o", "/dev/null", "-P", path, "-e", "trace=read", "-e", "inject="+inj, bin, "fmt", "-w", path)
					r.Count(f.name+":"+inj, true)
					r.Hist("fault", "read "+fault)
					check(inj+" on the source", pr)
					if f.formatted == "" && f.content != formatted {
						restore()
						pc := runProc(30*time.Second, "", "strace", "-f", "-qq", "-o", "/dev/null", "-P", path, "-e", "trace=read", "-e", "inject="+inj, bin, "fmt", "-c", path)
						if pc.Exit == 0 || string(mustRead(path)) != f.content {
							r.Violation(Case{Stream: "fault", Input: map[string]any{"file": f.name, "content": f.content, "injection": inj + " on the source, fmt -c"}, Real: fmt.Sprintf("exit=%d", pc.Exit), Spec: "fmt -c exits zero exactly for formatted input and modifies nothing (this file is not formatted)"})
						}
					}
				}
			}
		}
		if f.formatted != "" {
			continue // check mode on archives: the txtar stream below
		}
		// check mode
		restore()
		pc := runProc(20*time.Second, "", bin, "fmt", "-c", path)
		wantZero := f.content == formatted
		r.Count(f.name+":check", true)
		if (pc.Exit == 0) != wantZero || string(mustRead(path)) != f.content {
			r.Violation(Case{Stream: "check", Input: f.content, Real: fmt.Sprintf("exit=%d stderr=%q", pc.Exit, pc.Stderr), Spec: fmt.Sprintf("fmt -c exits zero exactly for formatted input (formatted=%v) and modifies nothing", wantZero)})
		}
		os.WriteFile(path, []byte(formatted), f.mode) //nolint
		pc = runProc(20*time.Second, "", bin, "fmt", "-c", path)
		r.Count(f.name+":check-formatted", true)
		if pc.Exit != 0 {
			r.Violation(Case{Stream: "check", Input: formatted, Real: fmt.Sprintf("exit=%d stderr=%q", pc.Exit, pc.Stderr), Spec: "fmt -c accepts the formatter's own output"})
		}
		// CRLF variant of formatted text must not be accepted by -c
		crlf := strings.ReplaceAll(formatted, "\n", "\r\n")
		os.WriteFile(path, []byte(crlf), f.mode) //nolint
		pc = runProc(20*time.Second, "", bin, "fmt", "-c", path)
		r.Count(f.name+":check-crlf", true)
		if pc.Exit == 0 {
			r.Violation(Case{Stream: "check", Input: crlf, Real: "exit=0", Spec: "fmt -c exits zero exactly for input that is already in formatted form (this input has CRLF line ends)"})
		}
	}
	// unparsable files
	for i, bad := range []string{"x := \n", "print (\n", "if true\nprint 1\n", "func f\n", "x = 1\n", "\"abc\n"} {
		path := filepath.Join(dir, fmt.Sprintf("bad%d.evy", i))
		os.WriteFile(path, []byte(bad), 0o644) //nolint
		trace := filepath.Join(dir, "trace.txt")
		pr := runProc(30*time.Second, "", "strace", "-f", "-qq", "-o", trace, "-e", "trace="+straceSet, bin, "fmt", "-w", path)
		evs := parseStrace(trace)
		os.Remove(trace)
		r.Count("unparsable:"+bad, true)
		wrote := ""
		for _, e := range evs {
			if (e.name == "openat" && strings.Contains(e.args, "O_CREAT")) || strings.HasPrefix(e.name, "rename") || e.name == "unlinkat" || e.name == "ftruncate" {
				wrote = e.name + "(" + trunc(e.args, 80)
			}
		}
		if pr.Exit == 0 || string(mustRead(path)) != bad || wrote != "" {
			r.Violation(Case{Stream: "unparsable", Input: bad, Real: fmt.Sprintf("exit=%d content=%q write-class call=%q", pr.Exit, string(mustRead(path)), wrote), Spec: "a file that does not parse is left untouched with a non-zero exit status"})
		}
	}
	// an archive with one member that does not parse: nothing is written
	{
		bad := "-- a.evy --\nx:=1\nprint   x\n-- b.evy --\nprint (\n"
		path := filepath.Join(dir, "bad.txtar")
		os.WriteFile(path, []byte(bad), 0o644) //nolint
		pr := runProc(30*time.Second, "", bin, "fmt", "-w", path)
		r.Count("unparsable:txtar", true)
		if pr.Exit == 0 || string(mustRead(path)) != bad {
			r.Violation(Case{Stream: "unparsable", Input: bad, Real: fmt.Sprintf("exit=%d content=%q", pr.Exit, string(mustRead(path))), Spec: "an archive with a member that does not parse is left untouched with a non-zero exit status"})
		}
	}
	// -w without files
	pw := runProc(20*time.Second, "print 1\n", bin, "fmt", "-w")
	r.Count("w-stdin", true)
	if pw.Exit == 0 {
		r.Violation(Case{Stream: "flags", Input: "evy fmt -w < stdin", Real: "exit=0", Spec: "-w without files is rejected"})
	}
	// check mode over several files: one unformatted file anywhere makes -c fail, and nothing is written
	{
		u1, f1, f2 := filepath.Join(dir, "mu.evy"), filepath.Join(dir, "mf1.evy"), filepath.Join(dir, "mf2.evy")
		contents := map[string]string{u1: "x:=1\nprint   x\n", f1: "print 1\n", f2: "print 2\n"}
		for _, args := range [][]string{{u1, f1}, {f1, u1}, {f1, u1, f2}, {u1, f1, f2}, {f1, f2, u1}, {f1, f2}, {u1, u1}, {f1}} {
			for p, c := range contents {
				os.WriteFile(p, []byte(c), 0o644) //nolint
			}
			allFormatted := true
			for _, a := range args {
				allFormatted = allFormatted && a != u1
			}
			pc := runProc(20*time.Second, "", bin, append([]string{"fmt", "-c"}, args...)...)
			names := ""
			for _, a := range args {
				names += filepath.Base(a) + " "
			}
			r.Count("check-multi:"+names, true)
			unchanged := true
			for p, c := range contents {
				unchanged = unchanged && string(mustRead(p)) == c
			}
			if (pc.Exit == 0) != allFormatted || !unchanged {
				r.Violation(Case{Stream: "check-multi", Input: "evy fmt -c " + names + "(mu.evy is not formatted)", Real: fmt.Sprintf("exit=%d files unchanged=%v", pc.Exit, unchanged), Spec: fmt.Sprintf("fmt -c exits zero exactly when every file is formatted (%v) and writes nothing", allFormatted)})
			}
		}
	}
	// txtar check mode: an unformatted member anywhere makes -c fail
	ta := filepath.Join(dir, "t.txtar")
	u := "x:=1\nprint   x\n"
	for _, members := range [][]string{{u, "print 1\n"}, {"print 1\n", u}, {"print 1\n", "print 2\n"}, {u, "print 1\n", "print 2\n"}, {"print 1\n", u, "print 2\n"}, {u, u}} {
		content := ""
		allFormatted := true
		for i, m := range members {
			content += fmt.Sprintf("-- m%d.evy --\n%s-- note%d.md --\n# not evy  \n", i, m, i)
			if strings.Contains(m, ":=1") {
				allFormatted = false
			}
		}
		os.WriteFile(ta, []byte(content), 0o644) //nolint
		pc := runProc(20*time.Second, "", bin, "fmt", "-c", ta)
		r.Count("txtar:"+content, true)
		if (pc.Exit == 0) != allFormatted || string(mustRead(ta)) != content {
			r.Violation(Case{Stream: "check-txtar", Input: content, Real: fmt.Sprintf("exit=%d", pc.Exit), Spec: fmt.Sprintf("fmt -c exits zero exactly when every member is formatted (%v)", allFormatted)})
		}
	}
	r.DriverCalls = d.N
	return r
}

func mustRead(p string) []byte {
	b, _ := os.ReadFile(p)
	return b
}
