package hx

import (
	"fmt"
	"math/rand"
	"os"
	"strings"
	"time"

	"evylang.dev/evy/pkg/evaluator"
)

// EvalCmp is one comparison of a program run: real evaluator vs Lean model.
type EvalCmp struct {
	Src      string
	Real     Result
	Model    ModelResult
	RealObs  string
	ModelObs string
	Agree    bool
	Skipped  string // non-empty: not compared (rejected, timeout on both sides, invalid UTF-8 ...)
	// components of the observables
	RClass, RTrace, RGlobals string
	MClass, MTrace, MGlobals string
	Ser                      string
}

// Obs assembles the chosen observable parts ("class", "trace", "globals", "yields") of both sides.
func (c *EvalCmp) Obs(parts ...string) (real, model string) {
	for _, p := range parts {
		switch p {
		case "class":
			real += c.RClass + " | "
			model += c.MClass + " | "
		case "trace":
			real += c.RTrace + " | "
			model += c.MTrace + " | "
		case "globals":
			if c.RClass != "gopanic" {
				real += c.RGlobals + " | "
				model += c.MGlobals + " | "
			}
		case "yields":
			real += fmt.Sprintf("yields=%d | ", c.Real.Yields)
			model += fmt.Sprintf("yields=%d | ", c.Model.Yields)
		}
	}
	return real, model
}

// PrintedText decodes the concatenated text of the print effects of a wire trace.
func PrintedText(trace string) string {
	var b strings.Builder
	for _, f := range strings.Fields(trace) {
		if strings.HasPrefix(f, "s") && strings.HasSuffix(f, ")") {
			b.WriteString(UnHex(strings.TrimSuffix(f[1:], ")")))
		}
	}
	return b.String()
}

func realGlobalsWire(ev *evaluator.Evaluator) string {
	names, vals, _ := ev.VerifGlobals()
	p := make([]string, len(names))
	for i, n := range names {
		p[i] = "(" + sw(n) + " " + sw(vals[i]) + ")"
	}
	return strings.Join(p, " ")
}

// RunReal runs the real evaluator with the harness conventions (seeded rand, recording platform),
// also returning the serialised AST and the final globals in wire form.
func RunReal(src string, o RunOpts) (res Result, ser string, globals string) {
	rec := &Rec{Input: append([]string{}, o.Input...), StopAt: o.StopAt, MaxYield: o.MaxYield}
	defer func() {
		res.Out = rec.Out.String()
		res.Effects = rec.Effects
		res.Yields = rec.Yields
		if r := recover(); r != nil {
			res.Class = "gopanic"
			res.GoPanic = fmt.Sprint(r)
		}
	}()
	evaluator.RandSource = rand.New(rand.NewSource(RandSeed)) //nolint:gosec
	ev := evaluator.NewEvaluator(rec)
	rec.Ev = ev
	ev.TestInfo.FailFast = o.FailFast
	ev.TestInfo.NoTestSummary = o.NoSummary
	prog, perr, pp := ParseSrc(src)
	if pp != "" {
		res.Class = "parse-gopanic"
		res.GoPanic = pp
		return res, "", ""
	}
	if prog == nil {
		res.ParseErr = perr
		res.Class = "rejected"
		return res, "", ""
	}
	s, serr := SerProgram(prog)
	if serr != nil {
		res.Class = "unserialisable"
		res.ErrText = serr.Error()
		return res, "", ""
	}
	ser = s
	noteLastProgram(src)
	err := ev.Eval(prog)
	if err == nil {
		for _, e := range o.Events {
			if err = ev.HandleEvent(e); err != nil {
				break
			}
		}
	}
	res.Class = ClassOf(err)
	if rec.TimedOut && res.Class == "stopped" {
		res.Class = "timeout"
	}
	if err != nil {
		res.ErrText = err.Error()
	}
	globals = realGlobalsWire(ev)
	return res, ser, globals
}

// CompareEval runs the real evaluator and the Lean model on src.
func CompareEval(d *Driver, src string, o RunOpts) EvalCmp {
	c := EvalCmp{Src: src}
	if o.MaxYield == 0 {
		o.MaxYield = 6000
	}
	res, ser, globals := RunReal(src, o)
	c.Real = res
	switch res.Class {
	case "rejected", "unserialisable":
		c.Skipped = res.Class
		return c
	case "parse-gopanic":
		c.RealObs = "parse-gopanic " + res.GoPanic
		c.Agree = false
		return c
	}
	if !validUTF8All(src) {
		c.Skipped = "invalid-utf8"
		return c
	}
	// the recording platform raises the stop flag at yield MaxYield (budget); the model gets the
	// same stop point, so its total work is bounded too (fuel only bounds recursion depth)
	stopAt := o.StopAt
	if stopAt == 0 || stopAt > o.MaxYield {
		stopAt = o.MaxYield
	}
	m := EvalModel(d, ser, EvalModelOpts{StopAt: stopAt, FailFast: o.FailFast, NoSummary: o.NoSummary, Input: o.Input, Events: o.Events, Fuel: 4*o.MaxYield + 200000})
	if m.Class == "stopped" && m.Yields >= o.MaxYield && (o.StopAt == 0 || o.StopAt > o.MaxYield) {
		m.Class = "timeout"
	}
	c.Model = m
	if m.Err == "oracle did not converge" {
		// thousands of distinct library calls: a limit of the oracle protocol, not a behaviour
		c.Skipped = "oracle-rounds"
		return c
	}
	if m.Err != "" {
		c.ModelObs = "ERR " + m.Err
		c.RealObs = res.Class
		return c
	}
	if res.Class == "timeout" || m.Class == "timeout" {
		if res.Class == "timeout" && m.Class == "timeout" {
			c.Skipped = "both-diverge"
			return c
		}
		if res.Class == "timeout" {
			c.Skipped = "real-timeout"
			return c
		}
		if m.Yields < o.MaxYield {
			// the model ran out of its auxiliary fuel (rendering, comparing or copying a value of
			// millions of elements) before the yield budget: a limit of the model, not a behaviour
			c.Skipped = "model-fuel"
			return c
		}
	}
	c.RClass, c.RTrace, c.RGlobals = res.Class, RealTrace(res), globals
	c.MClass, c.MTrace, c.MGlobals = normClass(m.Class), m.Trace, m.Globals
	c.Ser = ser
	c.RealObs = res.Class + " | " + RealTrace(res) + " | " + globals + fmt.Sprintf(" | yields=%d", res.Yields)
	c.ModelObs = normClass(m.Class) + " | " + m.Trace + " | " + m.Globals + fmt.Sprintf(" | yields=%d", m.Yields)
	if res.Class == "gopanic" {
		// globals are not meaningful after a Go panic: compare class and trace only
		c.RealObs = res.Class + " | " + RealTrace(res)
		c.ModelObs = normClass(m.Class) + " | " + m.Trace
	}
	c.Agree = c.RealObs == c.ModelObs
	return c
}

func validUTF8All(s string) bool {
	return strings.ToValidUTF8(s, "�") == s && !strings.Contains(s, "\\x") && !strings.Contains(s, "\\u") && !strings.Contains(s, "\\U")
}

// EvalProbe: development aid — run the generator against the model and print disagreements.
func EvalProbe(d *Driver, n int) {
	rng := Rng()
	o := GenOpts{Funcs: true, Any: true, Maps: true, Strings: true, Builtins: true, Tests: true, NonAscii: true, Special: true}
	agree, skipped, shown := 0, map[string]int{}, 0
	classes := map[string]int{}
	for i := 0; i < n; i++ {
		g := NewProgGen(rng, o)
		src := g.Program()
		t0 := time.Now()
		c := CompareEval(d, src, RunOpts{})
		if dt := time.Since(t0); dt > 2*time.Second {
			fmt.Println("==== SLOW", dt, "rounds", c.Model.Rounds, "realyields", c.Real.Yields)
			fmt.Println(src)
		}
		if c.Skipped != "" {
			skipped[c.Skipped]++
			continue
		}
		classes[c.Real.Class]++
		if c.Agree {
			agree++
			continue
		}
		if shown < 6 {
			shown++
			fmt.Println("==== DISAGREE")
			fmt.Println(src)
			fmt.Println(DiffAt(c.RealObs, c.ModelObs))
		}
	}
	fmt.Println("agree", agree, "of", n, "skipped", skipped, classes)
}

// DiffAt shows where two observables first differ.
func DiffAt(a, b string) string {
	i := 0
	for i < len(a) && i < len(b) && a[i] == b[i] {
		i++
	}
	lo := i - 80
	if lo < 0 {
		lo = 0
	}
	cut := func(s string) string {
		hi := i + 160
		if hi > len(s) {
			hi = len(s)
		}
		if lo > len(s) {
			return ""
		}
		return s[lo:hi]
	}
	return fmt.Sprintf("first difference at %d\n  real : …%s\n  model: …%s", i, cut(a), cut(b))
}

// noteLastProgram keeps the program that is about to run in the scratch directory: a fatal error of
// the Go runtime (stack exhaustion, out of memory) cannot be recovered, so when the harness process
// dies bin/check finds the input that killed it there.
func noteLastProgram(src string) {
	if dir := os.Getenv("VERIF_SCRATCH"); dir != "" {
		_ = os.WriteFile(dir+"/last-program.evy", []byte(src), 0o644)
	}
}
