package hx

import (
	"encoding/json"
	"fmt"
	"math/rand"
	"os"
	"sort"
	"strconv"
)

// Case is one failing or disagreeing input, replayable.
type Case struct {
	Stream string `json:"stream"`          // which correspondence stream / oracle
	Input  any    `json:"input"`           // the input (program text, op history, ...)
	Real   string `json:"real"`            // observable of the implementation
	Model  string `json:"model,omitempty"` // observable of the Lean ImplModel
	Spec   string `json:"spec,omitempty"`  // observable of the Lean Spec / property oracle
	Note   string `json:"note,omitempty"`
	Known  string `json:"known,omitempty"` // id of the known-finding class it falls in, if any
}

// Report is what a component run returns to bin/check.
type Report struct {
	Property      string         `json:"property"`
	Evaluations   int            `json:"evaluations"`
	Distinct      int            `json:"distinct_nontrivial"`
	Rule          string         `json:"rule"`
	Exhaustive    bool           `json:"exhaustive"`
	Samples       []any          `json:"samples"`
	Violations    []Case         `json:"violations"`    // property oracle fails on the real code
	Disagreements []Case         `json:"disagreements"` // real != model, property oracle did not fail
	KnownSeen     map[string]int `json:"known_seen"`    // known-finding id -> times observed
	KnownGone     []string       `json:"known_gone"`    // listed findings whose witness no longer fails
	Info          map[string]any `json:"info"`
	DriverCalls   int            `json:"driver_calls"`

	seen map[string]bool
}

// NewReport makes an empty report.
func NewReport(prop string) *Report {
	return &Report{Property: prop, KnownSeen: map[string]int{}, Info: map[string]any{}, seen: map[string]bool{}}
}

// Count registers one evaluation; key identifies the distinct case, nontrivial says
// whether it reached a non-default branch by the stream's rule.
func (r *Report) Count(key string, nontrivial bool) {
	r.Evaluations++
	if nontrivial && !r.seen[key] {
		r.seen[key] = true
		r.Distinct++
	}
}

// Sample keeps up to n sample cases.
func (r *Report) Sample(s any, n int) {
	if len(r.Samples) < n {
		r.Samples = append(r.Samples, s)
	}
}

// Violation records a property violation (max 20 kept).
func (r *Report) Violation(c Case) {
	if len(r.Violations) < 20 {
		r.Violations = append(r.Violations, c)
	}
}

// Disagree records a correspondence break (max 20 kept).
func (r *Report) Disagree(c Case) {
	if len(r.Disagreements) < 20 {
		r.Disagreements = append(r.Disagreements, c)
	}
}

// Hist increments a histogram bucket in Info.
func (r *Report) Hist(name, bucket string) {
	h, _ := r.Info[name].(map[string]int)
	if h == nil {
		h = map[string]int{}
		r.Info[name] = h
	}
	h[bucket]++
}

// Emit writes the report as JSON to stdout.
func (r *Report) Emit() {
	enc := json.NewEncoder(os.Stdout)
	enc.SetEscapeHTML(false)
	if err := enc.Encode(r); err != nil {
		fmt.Fprintln(os.Stderr, "emit:", err)
		os.Exit(3)
	}
}

// Seed returns VERIF_SEED or 1.
func Seed() int64 {
	if s := os.Getenv("VERIF_SEED"); s != "" {
		if n, err := strconv.ParseInt(s, 10, 64); err == nil {
			return n
		}
	}
	return 1
}

// Thorough reports whether the thorough tier is selected.
func Thorough() bool { return os.Getenv("VERIF_TIER") == "thorough" }

// Rng returns the PRNG all random choices derive from.
func Rng() *rand.Rand { return rand.New(rand.NewSource(Seed())) }

// SortedKeys of a string map.
func SortedKeys[V any](m map[string]V) []string {
	ks := make([]string, 0, len(m))
	for k := range m {
		ks = append(ks, k)
	}
	sort.Strings(ks)
	return ks
}

// Known findings (loaded from /verif/known-findings.jsonl by the check script and passed
// in VERIF_KNOWN as a comma separated id list).
func KnownIDs() map[string]bool {
	m := map[string]bool{}
	for _, id := range splitComma(os.Getenv("VERIF_KNOWN")) {
		m[id] = true
	}
	return m
}

func splitComma(s string) []string {
	var out []string
	cur := ""
	for _, c := range s {
		if c == ',' {
			if cur != "" {
				out = append(out, cur)
			}
			cur = ""
		} else {
			cur += string(c)
		}
	}
	if cur != "" {
		out = append(out, cur)
	}
	return out
}

// CorpusItem is one committed input under /verif/corpus/<property>/.
type CorpusItem struct {
	Name string
	Src  string
}

// Corpus loads /verif/corpus/<prop>/* in name order.
func Corpus(prop string) []CorpusItem {
	dir := os.Getenv("VERIF_DIR")
	if dir == "" {
		dir = "/verif"
	}
	ents, err := os.ReadDir(dir + "/corpus/" + prop)
	if err != nil {
		return nil
	}
	var out []CorpusItem
	for _, e := range ents {
		if e.IsDir() {
			continue
		}
		b, err := os.ReadFile(dir + "/corpus/" + prop + "/" + e.Name())
		if err == nil {
			out = append(out, CorpusItem{e.Name(), string(b)})
		}
	}
	return out
}
