package hx

import (
	"fmt"
	"math/rand"
	"os"
	"path/filepath"
	"regexp"
	"strconv"
	"strings"
	"time"

	"evylang.dev/evy/pkg/lexer"
)

// sigTokens: the non-whitespace tokens of a text, comments included, with literals by VALUE
// (a number or string may be spelled differently but must denote the same value).
func sigTokens(src string) []string {
	l := lexer.New(src)
	var out []string
	for i := 0; i < len(src)+5; i++ {
		t := l.Next()
		switch t.Type {
		case lexer.EOF:
			return out
		case lexer.WS, lexer.NL:
			continue
		case lexer.COMMENT:
			out = append(out, "COMMENT:"+strings.TrimSpace(t.Literal))
		case lexer.NUM_LIT:
			f, err := strconv.ParseFloat(t.Literal, 64)
			if err != nil {
				out = append(out, "NUM?:"+t.Literal)
			} else {
				out = append(out, "NUM:"+strconv.FormatFloat(f, 'g', -1, 64))
			}
		case lexer.STRING_LIT:
			out = append(out, "STR:"+strconv.Quote(t.Literal))
		case lexer.IDENT:
			out = append(out, "ID:"+t.Literal)
		case lexer.ILLEGAL:
			out = append(out, "ILLEGAL:"+t.Literal)
		default:
			out = append(out, lexNames[t.Type])
		}
	}
	return out
}

func fmtOf(src string) (formatted string, ok bool, why string) {
	defer func() {
		if p := recover(); p != nil {
			ok, why = false, "Go panic in Format: "+fmt.Sprint(p)
		}
	}()
	prog, perr, pp := ParseSrc(src)
	if prog == nil {
		return "", false, "not accepted: " + perr + pp
	}
	f1 := prog.Format()
	if f2 := prog.Format(); f2 != f1 {
		return f1, false, "Go panic in Format: NOT (second call of Format on the same Program returns a different text): " + DiffAt(f1, f2)
	}
	return f1, true, ""
}

var reTrail = regexp.MustCompile(`[ \t]+\n`)

// layoutLint checks the canonical layout rules on formatted text; bracket depth of multi-line literals
// counts as block level.
func layoutLint(f string) string {
	if f == "" || !strings.HasSuffix(f, "\n") {
		return "does not end with a newline"
	}
	if strings.HasSuffix(f, "\n\n") && f != "\n" {
		return "ends with more than one newline"
	}
	if reTrail.MatchString(f) {
		return "trailing whitespace"
	}
	if strings.Contains(f, "\n\n\n") {
		return "more than one consecutive blank line"
	}
	if strings.Contains(f, "\t") && !strings.Contains(f, "\"") && !strings.Contains(f, "//") {
		return "tab outside strings and comments"
	}
	return ""
}

// indentLint: every line is indented four spaces per open block (func/on/if/for/while ... end) plus open
// multi-line brackets.
func indentLint(f string) string {
	depth := 0
	for i, line := range strings.Split(strings.TrimSuffix(f, "\n"), "\n") {
		t := strings.TrimLeft(line, " ")
		if t == "" {
			continue
		}
		toks := sigTokens(t)
		if len(toks) == 0 {
			continue
		}
		d := depth
		first := toks[0]
		if first == "kw:end" || first == "kw:else" || first == "RBRACKET" || first == "RCURLY" {
			d--
		}
		if want := strings.Repeat("    ", max(d, 0)); line[:len(line)-len(t)] != want {
			return fmt.Sprintf("line %d %q is indented %d spaces, expected %d", i+1, line, len(line)-len(t), len(want))
		}
		// update depth
		open := 0
		for j, tk := range toks {
			switch tk {
			case "kw:func", "kw:on", "kw:for", "kw:while":
				if j == 0 {
					open++
				}
			case "kw:if":
				if j == 0 {
					open++
				}
			case "kw:end":
				if j == 0 {
					open--
				}
			case "LBRACKET", "LCURLY":
				open++
			case "RBRACKET", "RCURLY":
				open--
			}
		}
		depth += open
	}
	return ""
}

// wsVariants: the same program with different optional horizontal whitespace and blank-line runs.
func wsVariants(rng *rand.Rand, src string) []string {
	var out []string
	lines := strings.Split(strings.TrimRight(src, "\n"), "\n")
	// trailing spaces on every line
	var a []string
	for _, l := range lines {
		a = append(a, l+"  ")
	}
	out = append(out, strings.Join(a, "\n")+"\n")
	// longer blank-line runs, blank lines at the end
	var b []string
	for _, l := range lines {
		b = append(b, l)
		if strings.TrimSpace(l) == "" {
			b = append(b, "", "")
		}
	}
	out = append(out, strings.Join(b, "\n")+"\n\n\n")
	// different indentation
	var c []string
	for _, l := range lines {
		t := strings.TrimLeft(l, " ")
		n := len(l) - len(t)
		c = append(c, strings.Repeat(" ", n/4*(1+rng.Intn(3)))+t)
	}
	out = append(out, strings.Join(c, "\n")+"\n")
	// no final newline, tabs for indentation
	out = append(out, strings.TrimRight(src, "\n"))
	var d []string
	for _, l := range lines {
		t := strings.TrimLeft(l, " ")
		d = append(d, strings.Repeat("\t", (len(l)-len(t))/4)+t)
	}
	out = append(out, strings.Join(d, "\n")+"\n")
	// extra spaces where a single space separates tokens outside strings and comments
	var e []string
	for _, l := range lines {
		if strings.ContainsAny(l, "\"/") {
			e = append(e, l)
			continue
		}
		t := strings.TrimLeft(l, " ")
		e = append(e, l[:len(l)-len(t)]+strings.ReplaceAll(t, " ", "  "))
	}
	out = append(out, strings.Join(e, "\n")+"\n")
	return out
}

func c06Handwritten() []string {
	return []string{
		"// leading comment\n\nx := 1 // trailing\nprint x // another\n\n\n// block comment 1\n// block comment 2\nfunc f // on func\n    // inside\n    print 1 // stmt\n\n\n    // last in block\nend // after end\n// directly after\nf\n",
		"a := [\n    1 // one\n    2\n\n\n    // comment\n    3\n]\nprint a\nm := {\n    a: 1 // one\n    b: 2\n\n    // c\n    c: 3\n}\nprint m\n",
		"a := [ // first\n    1 2\n    3 ]\nprint a\nb := [1\n    2]\nprint b\nc := [\n]\nprint c\nd := {\n}\nprint d\ne := [ // only comment\n]\nprint e\n",
		"if true // c1\n    print 1\nelse if false // c2\n    print 2\nelse // c3\n    print 3\nend // c4\nwhile false // w\n    print 4\nend // we\nfor i := range 1 // f\n    print i\nend // fe\n",
		"func f:num a:num b:[]string c:{}any // sig\n    print b c // use\n    return a // r\nend\non key k:string // h\n    print k\nend\nprint (f 1 [] {}) // call\n",
		"func v:num c:{}any... // variadic sig\n    return (len c) // r\nend\nfunc w   n:num...\n    print   n\nend\nfunc   u:[]any  a:any...\n    return a\nend\nprint (v) (v {}) (v {} {a:1}) (u 1 \"a\" [])\nw\nw 1   2\n",
		"// 100% sure %d %s %%\nm := { // 50% of b\n    a: 1 // 10%\n    // %v %!d(MISSING) %\n    b: 2 // %%\n}\narr := [ // 5%\n    1 // %d\n    // 100%\n    2\n]\nfunc f // %s\n    print m arr // %v\n    // %\nend // %x\nf // %\nif true // %t\n    print 1 // 1%\nelse // %e\n    print 2\nend // 2%\n",
		"a := [ // first\n    // second\n    1\n]\nb := [\n    // only\n]\nc := { // c1\n    // c2\n    k: 1\n}\nd := [ // x\n    1 2 // y\n    // z\n]\nprint a b c d\n",
		"x := 1\nprint x+1 x-1 -x (x + 1) (x - -x) [x x+1] {a:x b:-x}\nprint x*2+1 (x*(2+1)) !(x == 1) (x < 2 and x > 0 or true)\ns := \"a\"\nprint s[0] s[0:1] s[:1] s[1:] s[:] \"a\"[0] [1 2][1:]\n",
		"x:any\nx = 1\nprint x.(num) (x.(num) + 1)\nm := {a:{b:[1 2]}}\nprint m.a.b[0] m[\"a\"][\"b\"][1]\nm.a.b[0] = 3\narr:[]{}num\narr = [{a:1}]\narr[0].a = 2\nprint arr\n",
		"print \"tab\\there\" \"quote\\\"q\" \"back\\\\slash\" \"nl\\nx\" \"é日本🙂\"\nprint 1.50 007 1000000 0.1\n",
		"big := 1000000\nhuge := 123456789012345678\neps := 0.00001\ntiny := 0.000000000123\nprint big huge eps tiny 999999 0.0001 1000000.5 100000000000000000000000\nprint [1000000 0.00001] {a:10000000}\n",
		"func a\n    print 1\nend\nfunc b\n    print 2\nend\n// c comment\nfunc c\n    print 3\nend\nprint 0\n// trailing\non down\n    print 4\nend\na\nb\nc\n",
		"print 1\n\n\n\nprint 2\n   \n\t\nprint 3\n",
		"\n\n// only comments\n\n// more\n",
		"",
		"\n",
		"print 1",
		"for i := range 1 10 2\n    for j := range i\n        if i > j\n            while false\n                print i j\n            end\n        end\n    end\nend\n",
		"func fa a:[]any\n    print a\nend\nfunc gn a:[]num b:[][]any\n    print a b\nend\nfa [1]+[2]\nfa [1]*2\nfa []+[]\ngn []+[] [[1]]+[[]]\nx := [[1]+[2] [\"a\"]]\ny := {a:[1]*2 b:[\"a\"]}\nz:[]any\nz = [1]+[2]\nprint x y z [[]+[1] [\"s\"]] ([1]+[2]) [[1]*2 [true]+[false] []]\n",
		"m := {a:1 b:{c:[1 {d:2}]} if:4 end:5 for:6}\nm[\"key with space\"] = 3\nprint m[\"key with space\"] m.if m.end m[\"for\"]\nfor k := range m\n    print k\nend\n",
	}
}

// topKinds classifies the top-level lines of a text built by kindSequences (or its formatted form).
func topKinds(src string) string {
	var b strings.Builder
	lines := strings.Split(strings.TrimSuffix(src, "\n"), "\n")
	if src == "" || src == "\n" {
		lines = nil
		if src == "\n" {
			lines = []string{""}
		}
	}
	for i := 0; i < len(lines); i++ {
		l := lines[i]
		switch {
		case strings.TrimSpace(l) == "":
			b.WriteByte('b')
		case strings.HasPrefix(l, "//"):
			b.WriteByte('c')
		case strings.HasPrefix(l, "func ") || strings.HasPrefix(l, "on "):
			b.WriteByte('f')
			for i+1 < len(lines) && lines[i] != "end" {
				i++
			}
		default:
			b.WriteByte('s')
		}
	}
	return b.String()
}

// multiSequences: every sequence of element / comment / newline items of a multi-line literal up to length n.
func multiSequences(n int) []string {
	var out []string
	var rec func(p string)
	rec = func(p string) {
		if len(p) > 0 {
			out = append(out, p)
		}
		if len(p) == n {
			return
		}
		for _, c := range "ecn" {
			rec(p + string(c))
		}
	}
	rec("")
	return out
}

func multiText(items string) string {
	var b strings.Builder
	for i, c := range items {
		switch c {
		case 'e':
			fmt.Fprintf(&b, "%d ", i+1)
		case 'c':
			fmt.Fprintf(&b, "// c%d\n", i)
		case 'n':
			b.WriteString("\n")
		}
	}
	return b.String()
}

func multiItems(body string) string {
	var b strings.Builder
	for i := 0; i < len(body); i++ {
		switch {
		case body[i] == ' ':
		case body[i] == '\n':
			b.WriteByte('n')
		case strings.HasPrefix(body[i:], "//"):
			b.WriteByte('c')
			for i < len(body) && body[i] != '\n' {
				i++
			}
		case body[i] >= '0' && body[i] <= '9':
			b.WriteByte('e')
			for i+1 < len(body) && body[i+1] >= '0' && body[i+1] <= '9' {
				i++
			}
		}
	}
	return b.String()
}

// kindSequences: every sequence of top-level items (statement, func, on, comment, blank line) up to length n.
func kindSequences(n int) []string {
	items := []func(i int) string{
		func(i int) string { return fmt.Sprintf("print %d\n", i) },
		func(i int) string { return fmt.Sprintf("func f%d\n    print %d\nend\n", i, i) },
		func(i int) string { return fmt.Sprintf("// c%d\n", i) },
		func(i int) string { return "\n" },
		func(i int) string {
			return fmt.Sprintf("on %s\n    print %d\nend\n", []string{"key", "down", "up", "move", "animate", "input"}[i%6], i)
		},
	}
	var out []string
	var rec func(prefix string, depth int, usedOn int)
	rec = func(prefix string, depth int, usedOn int) {
		if depth > 0 {
			out = append(out, prefix)
		}
		if depth == n {
			return
		}
		for k, it := range items {
			if k == 4 {
				if depth >= 2 || usedOn > 0 {
					continue // handlers behave like funcs; keep the space small
				}
				rec(prefix+it(depth), depth+1, usedOn+1)
				continue
			}
			rec(prefix+it(depth), depth+1, usedOn)
		}
	}
	rec("", 0, 0)
	return out
}

func c06Bases(rng *rand.Rand, ngen int) []string {
	var bases []string
	for _, f := range []string{"docs/spec.md", "docs/builtins.md", "docs/syntax-by-example.md"} {
		for _, ex := range DocExamples(f) {
			if len(ex[0]) < 4000 {
				bases = append(bases, ex[0])
			}
		}
	}
	files, _ := filepath.Glob(filepath.Join(RepoDir(), "frontend/play/samples/*/*.evy"))
	for _, f := range files {
		if b, err := os.ReadFile(f); err == nil && len(b) < 6000 {
			bases = append(bases, string(b))
		}
	}
	bases = append(bases, c06Handwritten()...)
	o := GenOpts{Funcs: true, Any: true, Maps: true, Strings: true, Builtins: true, Tests: true, NonAscii: true, Graphics: true}
	for i := 0; i < ngen; i++ {
		bases = append(bases, NewProgGen(rng, o).Program())
	}
	return bases
}

// commentVariants puts comments and blank lines into unusual places of a formatted program.
func commentVariants(rng *rand.Rand, src string) []string {
	lines := strings.Split(strings.TrimRight(src, "\n"), "\n")
	var out []string
	// a trailing comment on every line
	var a []string
	for i, l := range lines {
		if strings.TrimSpace(l) == "" || strings.Contains(l, "//") || strings.HasSuffix(strings.TrimSpace(l), "[") || strings.HasSuffix(strings.TrimSpace(l), "{") {
			a = append(a, l)
		} else {
			a = append(a, l+" // c"+fmt.Sprint(i)+[]string{"", " 100%", " %d %s %v", " %%", " \\n \\t", " \"q\" 'r' `b`", " // nested", " é世🙂"}[i%8])
		}
	}
	out = append(out, strings.Join(a, "\n")+"\n")
	// a comment line and a blank line before every line
	var b []string
	for i, l := range lines {
		t := strings.TrimLeft(l, " ")
		pad := l[:len(l)-len(t)]
		if i%2 == 0 {
			b = append(b, pad+"// before "+fmt.Sprint(i)+[]string{"", " 10%", " %!s(MISSING) %", " 50% of %v"}[i%4])
		} else {
			b = append(b, "")
		}
		b = append(b, l)
	}
	out = append(out, strings.Join(b, "\n")+"\n")
	// runs of comments and blanks of random length before random lines
	var c []string
	for _, l := range lines {
		t := strings.TrimLeft(l, " ")
		pad := l[:len(l)-len(t)]
		for k := rng.Intn(4); k > 0; k-- {
			if rng.Intn(2) == 0 {
				c = append(c, "")
			} else {
				c = append(c, pad+"// run")
			}
		}
		c = append(c, l)
	}
	out = append(out, strings.Join(c, "\n")+"\n")
	return out
}

// RunC06 : formatting changes nothing but whitespace.
func RunC06(d *Driver) *Report {
	r := NewReport("C06")
	rng := Rng()
	ngen, nrun, nmut := 60, 4, 12
	if Thorough() {
		ngen, nrun, nmut = 800, 2, 40
	}
	bases := c06Bases(rng, ngen)
	nprog := 0
	check := func(stream, src string, i int) {
		f, ok, why := fmtOf(src)
		if !ok {
			if strings.HasPrefix(why, "Go panic") {
				r.Violation(Case{Stream: stream, Input: src, Real: why, Spec: "formatting an accepted program succeeds"})
			}
			return
		}
		nprog++
		r.Count("fmt:"+src, true)
		a, b := sigTokens(src), sigTokens(f)
		if strings.Join(a, "\x00") != strings.Join(b, "\x00") {
			k := 0
			for k < len(a) && k < len(b) && a[k] == b[k] {
				k++
			}
			ctx := func(x []string) string {
				lo, hi := max(k-3, 0), min(k+4, len(x))
				return strings.Join(x[lo:hi], " ")
			}
			r.Violation(Case{Stream: stream + ":tokens", Input: src, Real: "formatted:\n" + trunc(f, 1500) + "\ntokens differ at #" + fmt.Sprint(k) + ": source … " + ctx(a) + " … formatted … " + ctx(b) + " …",
				Spec: "the sequence of non-whitespace tokens, including every comment, is unchanged"})
			return
		}
		p1, _, _ := ParseSrc(src)
		p2, perr, pp := ParseSrc(f)
		if p2 == nil {
			r.Violation(Case{Stream: stream + ":reparse", Input: src, Real: "formatted text is rejected: " + trunc(perr+pp, 300) + "\n" + trunc(f, 1500), Spec: "the result is accepted again"})
			return
		}
		s1, e1 := SerProgram(p1)
		s2, e2 := SerProgram(p2)
		s1, s2 = strings.ReplaceAll(s1, " (NOOP)", ""), strings.ReplaceAll(s2, " (NOOP)", "") // blank lines are whitespace
		if e1 == nil && e2 == nil && s1 != s2 {
			r.Violation(Case{Stream: stream + ":tree", Input: src, Real: "formatted:\n" + trunc(f, 1500) + "\n" + DiffAt(s1, s2), Spec: "the result has the same syntax tree"})
			return
		}
		if i%nrun == 0 {
			r1, _, g1 := RunReal(src, RunOpts{MaxYield: 3000, Input: []string{"a", "b"}})
			r2, _, g2 := RunReal(f, RunOpts{MaxYield: 3000, Input: []string{"a", "b"}})
			t1, t2 := RealTrace(r1), RealTrace(r2)
			if r1.Class == "timeout" || r2.Class == "timeout" {
				// blank lines are statements that yield: the step budget cuts the two runs at different
				// points, so only the common prefix of the traces is comparable
				n := min(len(t1), len(t2))
				if k := strings.LastIndex(t1[:n], " ("); k > 0 {
					n = k
				}
				if t1[:n] != t2[:n] {
					r.Violation(Case{Stream: stream + ":behaviour", Input: src, Real: "source: " + trunc(t1, 300) + "\nformatted: " + trunc(t2, 300) + "\n" + DiffAt(t1[:n], t2[:n]), Spec: "behaves identically when run (common prefix of two runs cut by the step budget)"})
				}
			} else if r1.Class != r2.Class || t1 != t2 || g1 != g2 {
				r.Violation(Case{Stream: stream + ":behaviour", Input: src, Real: "source: " + r1.Class + " " + trunc(RealTrace(r1), 300) + "\nformatted: " + r2.Class + " " + trunc(RealTrace(r2), 300), Spec: "behaves identically when run"})
			}
		}
	}
	for i, p := range kindSequences(5) {
		check("item-sequences", p, i)
	}
	// expressions whose reading is decided by the binding powers alone (parentheses at random): the
	// printer must write the tokens of the tree and the result must bind the same way
	// (Props/C06 expr_format_keeps_tokens / formatted_expr_reparses_to_same_tree for the Pratt model)
	nexpr := 400
	if Thorough() {
		nexpr = 6000
	}
	prattPostfix = true
	defer func() { prattPostfix = false }()
	for i := 0; i < nexpr; i++ {
		ty := []string{"num", "bool", "str"}[rng.Intn(3)]
		e := prattGen(rng, ty, 1+rng.Intn(6))
		src := prattPrelude + "x := " + e + "\n"
		if i%2 == 1 {
			src = prattPrelude + "x := [1]\nprint " + e + " x (" + e + ") [" + e + "]\n" // whitespace-sensitive positions keep their layout
		}
		check("expressions", src+prattUses, i)
	}
	// the same expressions in random layouts (c01prattw.go: a space added or removed at every token boundary
	// where that is lexically possible — `(a)and(b)`, `a- -b`, `x [0]`) after `x :=`, as arguments and as
	// array elements and map values: what is accepted must come out with the same tokens and be read back as the same tree
	for i := 0; i < 2*nexpr; i++ {
		ty := []string{"num", "bool", "str", "bool"}[rng.Intn(4)]
		toks, ok := prattLexW(prattGen(rng, ty, 1+rng.Intn(5)))
		if !ok || len(toks) == 0 {
			continue
		}
		rl := prattRelayout(rng, toks)
		text := prattTextW(rl)
		ctx := rng.Intn(4)
		var src, head, tail, mode string
		switch ctx {
		case 0:
			src, head, tail, mode = prattPrelude+"x := "+text+"\n"+prattUses, "x := ", "", "0"
		case 1:
			src, head, tail, mode = prattPrelude+"x := 0\nprint "+text+"\n"+prattUses, "print ", "", "args"
		case 2:
			src, head, tail, mode = prattPrelude+"x := ["+text+"]\n"+prattUses, "x := [", "]", "args"
		default:
			src, head, tail, mode = prattPrelude+"x := {k:"+text+"}\n"+prattUses, "x := {k:", "}", ""
		}
		check("relayout", src, i)
		// the formatter model (Model/PrattFmt.lean, Props/C06Layout.lean): the flagged tokens of the formatted
		// expression are the model's layout of the tree(s) the parser model reads from the source tokens
		if mode == "" || prattLiteralStart(rl) {
			continue
		}
		f, ok, _ := fmtOf(src)
		if !ok {
			continue
		}
		line := ""
		for _, l := range strings.Split(f, "\n") {
			if strings.HasPrefix(l, head) && l != "x := 0" {
				line = strings.TrimSuffix(strings.TrimPrefix(l, head), tail)
				break
			}
		}
		ft, ok2 := prattLexW(line)
		if line == "" || !ok2 {
			continue
		}
		req := "layoutw " + mode + " " + prattWire(rl)
		if ctx == 2 {
			req += " RBRACKET"
		}
		ans, err := d.Ask(req)
		if err != nil {
			panic(err)
		}
		r.Count("layout-model:"+text, true)
		r.Hist("layout-model", []string{"declaration", "arguments", "elements"}[ctx])
		if real := "LAYOUT " + prattWire(ft); ans != real {
			r.Disagree(Case{Stream: "layout-model", Input: src, Real: real + "   (formatted: " + line + ")", Model: ans, Note: "flagged tokens of the formatted expression against Model/PrattFmt.lean layout, request " + req})
		}
	}
	// every binary operator written without spaces between bracketed (and plain) operands in the four kinds of position
	{
		k := 0
		for _, oc := range [][3]string{{"+", "n1", "n2"}, {"-", "n1", "n2"}, {"*", "n1", "n2"}, {"/", "n1", "n2"}, {"%", "n1", "n2"}, {"<", "n1", "n2"}, {">", "n1", "n2"},
			{"<=", "n1", "n2"}, {">=", "n1", "n2"}, {"==", "n1", "n2"}, {"!=", "s1", "s1"}, {"and", "b1", "b1"}, {"or", "b1", "b1"}, {"+", "s1", "s1"}, {"+", "arr", "arr"}} {
			op, a, b := oc[0], oc[1], oc[2]
			forms := []string{"(" + a + ")" + op + "(" + b + ")", "(" + a + ")" + op + "(" + b + ")" + op + "(" + a + ")"}
			if op != "and" && op != "or" {
				forms = append(forms, a+op+b, a+op+"("+b+")")
			}
			for _, e := range forms {
				for _, src := range []string{"x := " + e + "\n", "x := 0\nprint " + e + " " + e + "\n", "x := [" + e + " " + e + "]\n", "x := {k:" + e + " j:" + e + "}\n",
					"func fq:any v:any w:any\n    return v\nend\nx := (fq " + e + " " + e + ")\n"} {
					check("tight-operators", prattPrelude+src+prattUses, k)
					k++
				}
			}
		}
	}
	for _, h := range c06Handwritten() {
		if p, perr, _ := ParseSrc(h); p == nil {
			r.Disagree(Case{Stream: "base", Input: h, Real: "rejected: " + perr, Note: "harness program should be accepted"})
		}
	}
	for i, b := range bases {
		check("base", b, i)
		f, ok, _ := fmtOf(b)
		if !ok {
			continue
		}
		for _, v := range wsVariants(rng, b) {
			check("whitespace-variant", v, i)
		}
		for _, v := range commentVariants(rng, f) {
			check("comment-variant", v, i)
		}
		// texts with a stray, missing or replaced token that the parser nevertheless accepts: whatever it
		// accepts must be in the tree and therefore in the output
		for _, v := range c03Mutations(rng, strings.ToValidUTF8(b, "�"), nmut) {
			if !strings.Contains(v, "\x00") {
				check("accepted-mutation", v, i)
			}
		}
		for _, extra := range []string{" then", " do", " )", " ]", " 1", " x"} {
			lines := strings.Split(f, "\n")
			for k, l := range lines {
				t := strings.TrimSpace(l)
				if strings.HasPrefix(t, "if ") || strings.HasPrefix(t, "while ") || strings.HasPrefix(t, "else if ") || strings.HasPrefix(t, "for ") || t == "else" || t == "end" || strings.HasPrefix(t, "return") {
					cp := append([]string{}, lines...)
					cp[k] = l + extra
					check("accepted-mutation", strings.Join(cp, "\n"), i)
					break
				}
			}
		}
	}
	r.Rule = fmt.Sprintf("%d accepted texts: every evy block of docs/*.md, every playground sample, hand-written programs covering every syntax form with comments in every position, multi-line array and map literals, empty programs; generated programs; expression texts with parentheses placed at random (operators, groups, indexing, slices, field access, type assertions), as a declaration value and in whitespace-sensitive positions; six whitespace variants of each (trailing spaces, longer blank-line runs, other indentation, tabs, no final newline, doubled spaces) and three comment variants of each formatted text (a trailing comment on every line, comment / blank lines before every line, random runs); those token deletions / insertions / substitutions of each text, and stray words after block headers, that the parser accepts. For each: the non-whitespace token sequence of source and Program.Format output (comments included, literals by value) must be equal, the output must be accepted again, have the same serialised syntax tree, and (every %dth) run to the same platform trace and globals. Non-trivial = distinct text", nprog, nrun)
	nblkC06 := blocksStream(r, d, rng, 400)
	r.Rule += fmt.Sprintf("; block structure: %d line-level programs (Model/Blocks.lean): tree skeleton of the real parser = the model's tree, for well-nested and broken line sequences", nblkC06)
	r.DriverCalls = d.N
	return r
}

const knownTrailing = "fmt-keeps-trailing-blank-line"

// RunC07 : formatting is canonical and idempotent.
func RunC07(d *Driver) *Report {
	r := NewReport("C07")
	rng := Rng()
	ngen := 60
	if Thorough() {
		ngen = 800
	}
	bases := c06Bases(rng, ngen)
	bin, berr := BuildEvy()
	dir, _ := os.MkdirTemp("", "verif-c07-")
	defer os.RemoveAll(dir)
	nprog, nbin := 0, 0
	known := KnownIDs()
	canon := func(stream, src, want string) string {
		f, ok, why0 := fmtOf(src)
		if !ok {
			if strings.Contains(why0, "second call of Format") || strings.HasPrefix(why0, "Go panic") {
				r.Violation(Case{Stream: stream + ":idempotent", Input: src, Real: why0, Spec: "formatting the same program twice gives the same text"})
			}
			return ""
		}
		nprog++
		r.Count("fmt:"+src, true)
		if f2, ok2, why := fmtOf(f); !ok2 || f2 != f {
			r.Violation(Case{Stream: stream + ":idempotent", Input: src, Real: "format once:\n" + trunc(f, 1200) + "\nformat twice:\n" + trunc(f2, 1200) + why + "\n" + DiffAt(f, f2), Spec: "formatting twice gives the same text as formatting once"})
			return f
		}
		if l := layoutLint(f); l != "" {
			if l == "ends with more than one newline" && layoutLint(strings.TrimRight(f, "\n")+"\n") == "" {
				// the blank line that ends the source is kept: recorded finding
				r.KnownSeen[knownTrailing]++
				if !known[knownTrailing] {
					r.Violation(Case{Stream: stream + ":layout", Input: src, Real: l + ":\n" + trunc(f, 1500), Spec: "ends with exactly one newline", Known: knownTrailing})
				}
			} else {
				r.Violation(Case{Stream: stream + ":layout", Input: src, Real: l + ":\n" + trunc(f, 1500), Spec: "no trailing whitespace, never more than one consecutive blank line, ends with exactly one newline"})
				return f
			}
		}
		if l := indentLint(f); l != "" {
			r.Violation(Case{Stream: stream + ":indent", Input: src, Real: l + ":\n" + trunc(f, 1500), Spec: "indented four spaces per block level"})
			return f
		}
		if want != "" && f != want && strings.TrimRight(f, "\n") == strings.TrimRight(want, "\n") {
			r.KnownSeen[knownTrailing]++
			if !known[knownTrailing] {
				r.Violation(Case{Stream: stream + ":canonical", Input: src, Real: "formats to the original's text plus a blank line at the end", Spec: "a whitespace variant formats to the same text", Known: knownTrailing})
			}
		} else if want != "" && f != want {
			r.Violation(Case{Stream: stream + ":canonical", Input: src, Real: "formats to:\n" + trunc(f, 1200) + "\n" + DiffAt(f, want), Spec: "a whitespace variant formats to the same text as the original:\n" + trunc(want, 1200)})
		}
		return f
	}
	for _, w := range Corpus("C07") {
		canon("corpus:"+w.Name, w.Src, "")
	}
	seqLen := 5
	if Thorough() {
		seqLen = 6
	}
	for _, p := range kindSequences(seqLen) {
		f := canon("item-sequences", p, "")
		// the blank-line policy against the Lean layout model
		in, out := topKinds(p), topKinds(f)
		ans, err := d.Ask("fmtk " + in)
		if err != nil {
			panic(err)
		}
		// the model keeps one trailing blank line, as the formatter does (recorded finding)
		if ans != out {
			r.Disagree(Case{Stream: "layout-model", Input: p, Real: out, Model: ans, Note: "kinds of the formatted top-level items (s f c b) against Model/Layout.lean fmtK on " + in})
		}
	}
	for _, items := range multiSequences(seqLen) {
		src := "x := [" + multiText(items) + "]\nprint x\n"
		f, ok, _ := fmtOf(src)
		if !ok {
			continue
		}
		canon("literal-sequences", src, "")
		i, j := strings.Index(f, "["), strings.LastIndex(f, "]")
		if i < 0 || j < i {
			continue
		}
		out := multiItems(f[i+1 : j])
		ans, err := d.Ask("fmtm " + items)
		if err != nil {
			panic(err)
		}
		if ans != out {
			r.Disagree(Case{Stream: "layout-model", Input: src, Real: out, Model: ans, Note: "items of the formatted literal (e c n) against Model/Layout.lean fmtM on " + items})
		}
	}
	tightOperand := func(src string) {
		if _, perr, pp := ParseSrc(src); perr != "" || pp != "" {
			r.Disagree(Case{Stream: "tight-operands", Input: src, Real: "rejected: " + trunc(perr+pp, 300), Note: "harness program should be accepted"})
			return
		}
		canon("tight-operands", src, "")
	}
	// operators glued to parenthesised plain operands where whitespace separates arguments and elements: the only
	// thing between `(p)and(q)` and the name `pandq` is the parentheses
	for _, tc := range []struct {
		pre, l, r string
		ops       []string
	}{
		{"p := true\nq := false\n", "p", "q", []string{"and", "or", "==", "!="}},
		{"p := true\nq := false\n", "true", "q", []string{"and", "or"}},
		{"p := 1\nq := 2\n", "p", "q", []string{"+", "-", "*", "/", "%", "<", "<=", ">", ">=", "==", "!="}},
		{"p := 1\nq := 2\n", "p", "2", []string{"+", "-", "*", "<"}},
		{"p := \"a\"\nq := \"b\"\n", "p", "q", []string{"+", "<", "=="}},
		{"p := \"a\"\nq := \"b\"\n", "\"a\"", "q", []string{"+", "=="}},
	} {
		for _, op := range tc.ops {
			e := "(" + tc.l + ")" + op + "(" + tc.r + ")"
			for _, body := range []string{"print " + e + "\n", "print 0 " + e + " " + e + "\n", "print [" + e + "]\n", "x := [" + e + " " + e + "]\nprint x\n", "x := " + e + "\nprint x\n",
				"print {k:" + e + "}\n", "print (" + e + ")" + "\n", "print [" + e + "][0]\n", "if (" + e + ") == (" + e + ")\n    print 1\nend\n"} {
				tightOperand(tc.pre + body + "print p q\n")
			}
		}
	}
	for _, body := range []string{"print -(p)\n", "print [-(p) -(1)]\n", "print !(b)\n", "print [!(b) !(true)]\n", "print (p)-(1) -(p)\n", "print !(b)and(b)\n", "print (s)[0] (s)[0:1]\n", "print [(s)[0]] (a)[0]\n", "print (m).k [(m).k]\n"} {
		tightOperand("p := 1\nb := true\ns := \"ab\"\na := [1]\nm := {k:1}\n" + body + "print p b s a m\n")
	}
	for i, b := range bases {
		f := canon("base", b, "")
		if f == "" {
			continue
		}
		for _, v := range wsVariants(rng, b) {
			canon("whitespace-variant", v, f)
		}
		for _, v := range commentVariants(rng, f) {
			canon("comment-variant", v, "")
		}
		// evy fmt --check accepts exactly the formatter's output
		if berr == nil && (i%7 == 0 || Thorough() && i%2 == 0) {
			nbin++
			path := filepath.Join(dir, "p.evy")
			os.WriteFile(path, []byte(f), 0o644) //nolint
			pr := runProc(20*time.Second, "", bin, "fmt", "--check", path)
			if pr.Exit != 0 {
				r.Violation(Case{Stream: "fmt-check", Input: f, Real: fmt.Sprintf("exit=%d %s", pr.Exit, trunc(pr.Stderr+pr.Stdout, 300)), Spec: "evy fmt --check accepts the formatter's own output"})
			}
			for _, v := range []string{f + "\n", strings.Replace(f, "\n", "  \n", 1), strings.ReplaceAll(f, "\n", "\r\n"), " " + f} {
				if v == f {
					continue
				}
				if _, ok, _ := fmtOf(v); !ok && !strings.Contains(v, "\r") {
					continue
				}
				os.WriteFile(path, []byte(v), 0o644) //nolint
				pr := runProc(20*time.Second, "", bin, "fmt", "--check", path)
				if pr.Exit == 0 && v == f+"\n" {
					r.KnownSeen[knownTrailing]++
					if !known[knownTrailing] {
						r.Violation(Case{Stream: "fmt-check", Input: v, Real: "exit=0", Spec: "evy fmt --check rejects a text with a blank line at the end", Known: knownTrailing})
					}
				} else if pr.Exit == 0 {
					r.Violation(Case{Stream: "fmt-check", Input: v, Real: "exit=0", Spec: "evy fmt --check rejects a text that differs from the formatter's output"})
				}
			}
		}
	}
	// several files in one `evy fmt --check` call, and the text on stdin: the exit status is zero exactly when
	// EVERY input is in formatted form, whatever the order of the files
	if berr == nil {
		good, bad := "x := 1\nprint x\n", "x  :=  1\n\n\nprint   x\n"
		gp, bp, g2 := filepath.Join(dir, "good.evy"), filepath.Join(dir, "bad.evy"), filepath.Join(dir, "good2.evy")
		os.WriteFile(gp, []byte(good), 0o644)                //nolint
		os.WriteFile(bp, []byte(bad), 0o644)                 //nolint
		os.WriteFile(g2, []byte("print 2\n// end\n"), 0o644) //nolint
		for _, tc := range []struct {
			files []string
			ok    bool
		}{{[]string{gp}, true}, {[]string{bp}, false}, {[]string{gp, g2}, true}, {[]string{gp, bp}, false}, {[]string{bp, gp}, false}, {[]string{bp, gp, g2}, false},
			{[]string{gp, bp, g2}, false}, {[]string{gp, g2, bp}, false}, {[]string{bp, bp}, false}, {[]string{g2, gp, g2}, true}} {
			nbin++
			pr := runProc(20*time.Second, "", bin, append([]string{"fmt", "--check"}, tc.files...)...)
			var names []string
			for _, f := range tc.files {
				names = append(names, filepath.Base(f))
			}
			r.Count("fmt-check-multi:"+strings.Join(names, " "), true)
			if (pr.Exit == 0) != tc.ok {
				r.Violation(Case{Stream: "fmt-check-multi", Input: "evy fmt --check " + strings.Join(names, " ") + "\n--- good.evy\n" + good + "--- bad.evy\n" + bad, Real: fmt.Sprintf("exit=%d %s", pr.Exit, trunc(pr.Stderr+pr.Stdout, 200)),
					Spec: fmt.Sprintf("exit status zero = %v: `evy fmt --check` accepts exactly input that is already formatted, for every file given", tc.ok)})
			}
			// nothing is modified
			if b, _ := os.ReadFile(bp); string(b) != bad {
				r.Violation(Case{Stream: "fmt-check-multi", Input: "evy fmt --check " + strings.Join(names, " "), Real: "bad.evy was rewritten", Spec: "--check modifies nothing"})
				os.WriteFile(bp, []byte(bad), 0o644) //nolint
			}
		}
		for _, tc := range []struct {
			in string
			ok bool
		}{{good, true}, {bad, false}} {
			nbin++
			pr := runProc(20*time.Second, tc.in, bin, "fmt", "--check")
			if (pr.Exit == 0) != tc.ok {
				r.Violation(Case{Stream: "fmt-check-multi", Input: "evy fmt --check < stdin\n" + tc.in, Real: fmt.Sprintf("exit=%d %s", pr.Exit, trunc(pr.Stderr+pr.Stdout, 200)), Spec: fmt.Sprintf("exit status zero = %v", tc.ok)})
			}
		}
	}
	if berr != nil {
		r.Disagree(Case{Stream: "build", Input: "go build", Real: berr.Error()})
	}
	nblkC07 := blocksStream(r, d, rng, 400)
	defer func() {
		r.Rule += fmt.Sprintf("; block structure: %d line-level programs (Model/Blocks.lean): indentation of the formatted text = four spaces times the model's block level", nblkC07)
	}()
	r.Rule = fmt.Sprintf("%d accepted texts (the corpus of C06: documentation examples, playground samples, hand-written programs with comments and blank-line runs around func/on of every length pattern, generated programs; their whitespace and comment variants): Format(Format(p)) = Format(p); the layout rules (four spaces per block level incl. multi-line literals, no trailing whitespace, at most one consecutive blank line, exactly one final newline, no leading blank line); every whitespace variant formats to the same text as its original; `evy fmt --check` (rebuilt binary, %d files) exits 0 on the formatter's output and 1 on a trailing blank line, trailing spaces, CRLF line ends and a leading space; with several files (formatted and unformatted ones in every order) and with stdin it exits 0 exactly when every input is formatted, and modifies nothing. Non-trivial = distinct text", nprog, nbin)
	r.DriverCalls = d.N
	return r
}
