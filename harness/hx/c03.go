package hx

import (
	"fmt"
	"math/rand"
	"os"
	"path/filepath"
	"regexp"
	"strconv"
	"strings"
	"time"
	"unicode"

	"evylang.dev/evy/pkg/lexer"
)

var lexNames = map[lexer.TokenType]string{
	lexer.ILLEGAL: "ILLEGAL", lexer.EOF: "EOF", lexer.COMMENT: "COMMENT", lexer.IDENT: "IDENT", lexer.NUM_LIT: "NUM_LIT",
	lexer.STRING_LIT: "STRING_LIT", lexer.DECLARE: "DECLARE", lexer.ASSIGN: "ASSIGN", lexer.PLUS: "PLUS", lexer.MINUS: "MINUS",
	lexer.BANG: "BANG", lexer.ASTERISK: "ASTERISK", lexer.SLASH: "SLASH", lexer.PERCENT: "PERCENT", lexer.EQ: "EQ",
	lexer.NOT_EQ: "NOT_EQ", lexer.LT: "LT", lexer.GT: "GT", lexer.LTEQ: "LTEQ", lexer.GTEQ: "GTEQ", lexer.LPAREN: "LPAREN",
	lexer.RPAREN: "RPAREN", lexer.LBRACKET: "LBRACKET", lexer.RBRACKET: "RBRACKET", lexer.LCURLY: "LCURLY", lexer.RCURLY: "RCURLY",
	lexer.COLON: "COLON", lexer.WS: "WS", lexer.NL: "NL", lexer.DOT: "DOT", lexer.DOT3: "DOT3",
	lexer.NUM: "kw:num", lexer.STRING: "kw:string", lexer.BOOL: "kw:bool", lexer.ANY: "kw:any", lexer.TRUE: "kw:true", lexer.FALSE: "kw:false",
	lexer.AND: "kw:and", lexer.OR: "kw:or", lexer.IF: "kw:if", lexer.ELSE: "kw:else", lexer.FUNC: "kw:func", lexer.RETURN: "kw:return",
	lexer.ON: "kw:on", lexer.FOR: "kw:for", lexer.RANGE: "kw:range", lexer.WHILE: "kw:while", lexer.BREAK: "kw:break", lexer.END: "kw:end",
	lexer.PKG: "kw:pkg", lexer.IMPORT: "kw:import",
}

type lexTok struct {
	Name              string
	Offset, Line, Col int
}

// realLex runs the real lexer to EOF (bounded, a lexer that does not end is reported).
func realLex(src string) (toks []lexTok, goPanic string, endless bool) {
	defer func() {
		if p := recover(); p != nil {
			goPanic = fmt.Sprint(p)
		}
	}()
	l := lexer.New(src)
	limit := len([]rune(src)) + 5
	for i := 0; i < limit; i++ {
		t := l.Next()
		name := lexNames[t.Type]
		if t.Type == lexer.ILLEGAL && t.Literal == "invalid string" {
			name = "STRING_LIT" // the model does not unquote
		}
		toks = append(toks, lexTok{name, t.Offset, t.Line, t.Col})
		if t.Type == lexer.EOF {
			return toks, "", false
		}
	}
	return toks, "", true
}

// specLineCol: line and column of the rune at offset n, counted from the start of the text.
func specLineCol(rs []rune, n int) (int, int) {
	line, col := 1, 1
	for i := 0; i < n && i < len(rs); i++ {
		if rs[i] == '\n' {
			line++
			col = 1
		} else {
			col++
		}
	}
	return line, col
}

func hexOrDash(s string) string {
	if s == "" {
		return "-"
	}
	return SHex(s)
}

// c03Lex compares the real lexer with the specification of positions and with the model.
func c03Lex(r *Report, d *Driver, stream, src string) {
	src = strings.ToValidUTF8(src, "�") // what []rune(input) makes of invalid bytes
	rs := []rune(src)
	r.Count("lex:"+src, true)
	toks, gp, endless := realLex(src)
	if gp != "" || endless {
		r.Violation(Case{Stream: stream, Input: src, Real: "lexer: panic " + gp + fmt.Sprint(" endless=", endless), Spec: "lexing terminates with EOF"})
		return
	}
	for i, t := range toks {
		l, c := specLineCol(rs, t.Offset)
		if t.Offset > len(rs) || t.Line != l || t.Col != c {
			r.Violation(Case{Stream: stream, Input: src, Real: fmt.Sprintf("token %d %s offset=%d line=%d col=%d", i, t.Name, t.Offset, t.Line, t.Col),
				Spec: fmt.Sprintf("the character at offset %d is at line %d column %d", t.Offset, l, c)})
			return
		}
		if i > 0 && t.Offset <= toks[i-1].Offset {
			r.Violation(Case{Stream: stream, Input: src, Real: fmt.Sprintf("token %d does not start after token %d", i, i-1), Spec: "tokens follow one another"})
			return
		}
	}
	var letters, digits []rune
	seen := map[rune]bool{}
	for _, c := range rs {
		if c > 127 && !seen[c] {
			seen[c] = true
			if unicode.IsLetter(c) {
				letters = append(letters, c)
			}
			if unicode.IsDigit(c) {
				digits = append(digits, c)
			}
		}
	}
	ans, err := d.Ask("lex " + hexOrDash(src) + " " + hexOrDash(string(letters)) + " " + hexOrDash(string(digits)))
	if err != nil {
		panic(err)
	}
	var b strings.Builder
	for i, t := range toks {
		if i > 0 {
			b.WriteByte(' ')
		}
		fmt.Fprintf(&b, "%s:%d:%d:%d", t.Name, t.Offset, t.Line, t.Col)
	}
	if b.String() != ans {
		r.Disagree(Case{Stream: stream, Input: src, Real: trunc(b.String(), 1500), Model: trunc(ans, 1500), Note: DiffAt(b.String(), ans)})
	}
}

var reLoc = regexp.MustCompile(`(?m)^line (\d+) column (\d+): (.*)$`)

type parseOutcome struct {
	Accepted bool
	Errs     [][3]string // line, col, message
	Raw      string
	GoPanic  string
	Hung     bool
}

// parseGuard parses with a watchdog: a parser that does not return within the limit is reported as hung.
func parseGuard(src string, limit time.Duration) parseOutcome {
	ch := make(chan parseOutcome, 1)
	go func() {
		prog, perr, pp := ParseSrc(src)
		o := parseOutcome{Accepted: prog != nil, Raw: perr, GoPanic: pp}
		for _, m := range reLoc.FindAllStringSubmatch(perr, -1) {
			o.Errs = append(o.Errs, [3]string{m[1], m[2], m[3]})
		}
		ch <- o
	}()
	select {
	case o := <-ch:
		return o
	case <-time.After(limit):
		return parseOutcome{Hung: true}
	}
}

// c03Parse checks totality and that every diagnostic is located inside the text at the start of a token.
func c03Parse(r *Report, stream, src string) (ok bool) {
	r.Count("parse:"+src, true)
	if os.Getenv("VERIF_TRACE") != "" {
		os.WriteFile(os.Getenv("VERIF_TRACE"), []byte(src), 0o644) //nolint
	}
	o := parseGuard(src, 10*time.Second)
	switch {
	case o.Hung:
		r.Violation(Case{Stream: stream, Input: src, Real: "parser.Parse did not return within 10 s", Spec: "parsing terminates"})
		return false
	case o.GoPanic != "":
		r.Hist("parse-outcome", "crash")
		sig := crashSig(o.GoPanic)
		crashCount[sig]++
		if crashCount[sig] > 3 || len(crashSeen) >= 15 {
			return false // this crash site has been shrunk and reported already
		}
		min := shrinkCrash(src)
		if !crashSeen[min] {
			crashSeen[min] = true
			_, _, pp := ParseSrc(min)
			r.Violation(Case{Stream: stream, Input: min, Real: "Go panic: " + trunc(pp, 400), Spec: "never crashes: a program or a non-empty list of errors", Note: "shrunk from a text of " + fmt.Sprint(len(src)) + " bytes"})
		}
		return false
	case o.Accepted && o.Raw != "":
		r.Violation(Case{Stream: stream, Input: src, Real: "a program AND errors: " + trunc(o.Raw, 300), Spec: "either a program or errors"})
		return false
	case !o.Accepted && len(o.Errs) == 0:
		r.Violation(Case{Stream: stream, Input: src, Real: "no program and no located error: " + trunc(o.Raw, 300), Spec: "a rejected text has at least one located error"})
		return false
	}
	if o.Accepted {
		r.Hist("parse-outcome", "accepted")
		return true
	}
	r.Hist("parse-outcome", "rejected")
	valid := strings.ToValidUTF8(src, "�")
	rs := []rune(valid)
	toks, _, _ := realLex(valid)
	starts := map[[2]int]bool{}
	for _, t := range toks {
		starts[[2]int{t.Line, t.Col}] = true
	}
	lines := strings.Split(string(rs), "\n")
	for _, e := range o.Errs {
		l, _ := strconv.Atoi(e[0])
		c, _ := strconv.Atoi(e[1])
		exists := l >= 1 && l <= len(lines) && c >= 1 && c <= len([]rune(lines[l-1]))+1
		if !exists || !starts[[2]int{l, c}] {
			r.Violation(Case{Stream: stream, Input: src, Real: fmt.Sprintf("error %q at line %d column %d", e[2], l, c),
				Spec: "the position of an error exists in the text and is the start of a token"})
			return false
		}
	}
	return true
}

var crashSeen = map[string]bool{}
var crashCount = map[string]int{}

// crashSig: the panic message without positions.
func crashSig(p string) string {
	return regexp.MustCompile(`\d+`).ReplaceAllString(p, "N")
}

func crashes(src string) bool {
	_, _, pp := ParseSrc(src)
	return pp != ""
}

// shrinkCrash removes lines, then tokens, as long as the parser still panics.
func shrinkCrash(src string) string {
	for _, cut := range []func(string) []string{
		func(s string) []string { return strings.SplitAfter(s, "\n") },
		tokenSpans,
	} {
		for changed := true; changed; {
			changed = false
			parts := cut(src)
			for n := len(parts) / 2; n >= 1; n /= 2 {
				for i := 0; i+n <= len(parts); {
					cand := strings.Join(append(append([]string{}, parts[:i]...), parts[i+n:]...), "")
					if len(cand) < len(src) && crashes(cand) {
						parts = append(parts[:i], parts[i+n:]...)
						src = cand
						changed = true
					} else {
						i++
					}
				}
			}
		}
	}
	return src
}

// tokenSpans returns the source text cut into its tokens.
func tokenSpans(src string) []string {
	rs := []rune(src)
	toks, _, _ := realLex(src)
	var out []string
	for i := 0; i+1 < len(toks); i++ {
		out = append(out, string(rs[toks[i].Offset:toks[i+1].Offset]))
	}
	return out
}

var c03Pool = []string{"if", "else", "end", "func", "on", "for", "range", "while", "return", "break", ":=", "=", "==", "(", ")", "[", "]", "{", "}",
	":", ".", "...", "+", "-", "*", "/", "!", "<", "\"", "\"s\"", "1", "x", "print", "num", "any", "[]", "{}", "true", "and", " ", "\n", "//c", "\t", "\r", "\x00", "é", "_"}

// c03Mutations: what a learner has on screen while typing.
func c03Mutations(rng *rand.Rand, src string, budget int) []string {
	sp := tokenSpans(src)
	var out []string
	join := func(a []string) string { return strings.Join(a, "") }
	// every prefix at a token boundary
	step := 1
	if len(sp) > budget {
		step = len(sp)/budget + 1
	}
	for i := 0; i <= len(sp); i += step {
		out = append(out, join(sp[:i]))
	}
	for k := 0; k < budget && len(sp) > 0; k++ {
		i := rng.Intn(len(sp))
		cp := append([]string{}, sp...)
		switch rng.Intn(5) {
		case 0: // deletion
			cp = append(cp[:i], cp[i+1:]...)
		case 1: // insertion
			cp = append(cp[:i], append([]string{c03Pool[rng.Intn(len(c03Pool))]}, cp[i:]...)...)
		case 2: // substitution
			cp[i] = c03Pool[rng.Intn(len(c03Pool))]
		case 3: // two mistakes
			cp[i] = c03Pool[rng.Intn(len(c03Pool))]
			j := rng.Intn(len(cp))
			cp[j] = c03Pool[rng.Intn(len(c03Pool))]
		case 4: // delete a line's worth
			j := i + 1 + rng.Intn(6)
			if j > len(cp) {
				j = len(cp)
			}
			cp = append(cp[:i], cp[j:]...)
		}
		out = append(out, join(cp))
	}
	return out
}

// c03Located: one known mistake at a known place; the first error must point at it.
func c03Located() [][4]string { // program, line, col, message substring
	var out [][4]string
	wraps := []struct {
		pre, post string
		indent    int
		lines     int
	}{
		{"", "", 0, 0},
		{"func f\n", "end\nf\n", 1, 1},
		{"on key k:string\n    print k\n", "end\n", 1, 2},
		{"for i := range 3\n    print i\n    if i > 1\n", "    end\nend\n", 2, 3},
		{"while true\n    if true\n        print 1\n    else\n", "    end\n    break\nend\n", 2, 4},
	}
	for _, w := range wraps {
		pad := strings.Repeat("    ", w.indent)
		// the mistake is marked with @ in the body
		add := func(body string, msg string) {
			k := strings.Index(body, "@")
			line := strings.Count(body[:k], "\n") + 1
			col := k - (strings.LastIndex(body[:k], "\n") + 1) + 1
			body = strings.Replace(body, "@", "", 1)
			out = append(out, [4]string{w.pre + indent(body, w.indent) + w.post, fmt.Sprint(w.lines + line), fmt.Sprint(len(pad) + col), msg})
		}
		add("n := 1\nif @n\n    print n\nend\n", "expected condition of type bool")
		add("n := 1\nwhile @n // comment\n    print n\nend\n", "expected condition of type bool")
		add("n := 1\nif n > 2\n    print n\nelse if @n\n    print 2\nend\n", "expected condition of type bool")
		add("n := 1\nprint n @zz9\n", `unknown variable name "zz9"`)
		add("n := 1\nprint n\n@n = \"s\"\n", `"n" accepts values of type num`)
		add("n := 1\nprint (upper @n)\n", `"upper" takes 1st argument of type`)
		add("n := 1\nprint n\n@zzf n\n", "unknown")
		add("s := \"a\"\nx := s @+ 1\nprint x\n", "mismatched type")
		add("arr := [1 2]\nprint arr@[\"a\"]\n", "index expects num")
		add("m := {a:1}\nprint m.a@.b\n", "field access")
		add("x := 1\nprint x\n@x := 2\n", `redeclaration of "x"`)
		add("x := 1\nprint x @)\n", "")
		add("x := 1\n@y := 2\nprint x\n", `"y" declared but not used`)
		if w.indent == 0 {
			add("func g a:num\n    print a\nend\ng 1 @2\n", `"g" takes 1 argument`)
		}
	}
	// a wrong type at the j-th of k arguments, for every j: the message names the position in words
	// (spec of an English ordinal: 11th 12th 13th, otherwise 1st 2nd 3rd by the last digit, otherwise th)
	ordinal := func(n int) string {
		suf := "th"
		if n%100 < 11 || n%100 > 13 {
			switch n % 10 {
			case 1:
				suf = "st"
			case 2:
				suf = "nd"
			case 3:
				suf = "rd"
			}
		}
		return fmt.Sprint(n) + suf
	}
	for _, kj := range [][2]int{{24, 0}, {113, 101}, {123, 111}} {
		k := kj[0]
		decl, body := "func g", "    print"
		for i := 1; i <= k; i++ {
			decl += fmt.Sprintf(" a%d:num", i)
			body += fmt.Sprintf(" a%d", i)
		}
		for j := kj[1]; j <= k; j++ {
			if j == 0 {
				continue
			}
			call, col := "g", 0
			for i := 1; i <= k; i++ {
				if i == j {
					col = len(call) + 2
					call += " \"s\""
				} else {
					call += " 1"
				}
			}
			out = append(out, [4]string{decl + "\n" + body + "\nend\n" + call + "\n", "4", fmt.Sprint(col), `"g" takes ` + ordinal(j) + " argument of type num"})
		}
	}
	for _, call := range []string{"ellipse @\"s\" 2 3 4 5", "ellipse 1 @\"s\" 3 4 5", "ellipse 1 2 @true 4 5", "ellipse 1 2 3 @[4] 5", "ellipse 1 2 3 4 @{a:5}", "hsl 1 2 3 @\"4\""} {
		k := strings.Index(call, "@")
		out = append(out, [4]string{strings.Replace(call, "@", "", 1) + "\n", "1", fmt.Sprint(k + 1), "takes variadic arguments of type num"})
	}
	out = append(out, [4]string{"print 1\nbreak\n", "2", "1", "break is not in a loop"})
	out = append(out, [4]string{"func f:num\n    print 1\nend\nprint (f)\n", "3", "1", "missing return"})
	out = append(out, [4]string{"func f\n    return\n    print 1\nend\nf\n", "3", "5", "unreachable code"})
	out = append(out, [4]string{"print 1\nreturn 2\n", "2", "8", "return statement not allowed here"})
	return out
}

// c03DeclUse: every malformed way of declaring N crossed with every way of using it.
func c03DeclUse() []string {
	types := []string{"foo", "", "[]", "{}", "[]foo", "{}[]", "num num", ":", "1", "any any", "[", "[]{", "num...", "...", "(num)", "\"s\""}
	uses := []string{"print N+1", "print N[0]", "print N.a", "N = 1", "N[0] = 1", "N.a = 1", "print (len N)", "for e := range N\n    print e\nend", "if N\n    print 1\nend",
		"print -N !N", "print N.(num)", "print N == N", "print [N] {a:N}", "M := N\nprint M", "M := N + N\nprint M", "M := N[:1]\nprint M", "while N\n    break\nend", "print N N"}
	var out []string
	for _, t := range types {
		for _, u := range uses {
			use := strings.ReplaceAll(u, "N", "x")
			ind := indent(use, 1)
			out = append(out,
				"x:"+t+"\n"+use+"\n",
				"func f x:"+t+"\n"+ind+"end\nf 1\n",
				"func f x:num y:"+t+"\n"+ind+"    print y\nend\nf 1 2\n",
				"func f x:"+t+"...\n"+ind+"end\nf 1\n",
				"func x:"+t+"\n    return 1\nend\n"+strings.ReplaceAll(u, "N", "(x)")+"\n",
				"on down x:"+t+" y:num\n"+ind+"end\n",
				"on key x:"+t+"\n"+ind+"end\n",
				"on down y:num x:"+t+"\n"+ind+"end\n",
				"y:any\nx := y.("+t+")\n"+use+"\n",
				"for x := range "+t+"\n"+ind+"end\n",
			)
		}
	}
	return out
}

func c03Bases(rng *rand.Rand, n int) []string {
	var bases []string
	for _, f := range []string{"docs/spec.md", "docs/builtins.md", "docs/syntax-by-example.md"} {
		for _, ex := range DocExamples(f) {
			if len(ex[0]) < 3000 {
				bases = append(bases, ex[0])
			}
		}
	}
	files, _ := filepath.Glob(filepath.Join(RepoDir(), "frontend/play/samples/*/*.evy"))
	for i, f := range files {
		if i%4 == 0 {
			if b, err := os.ReadFile(f); err == nil && len(b) < 3000 {
				bases = append(bases, string(b))
			}
		}
	}
	o := GenOpts{Funcs: true, Any: true, Maps: true, Strings: true, Builtins: true, Tests: true, NonAscii: true, Graphics: true}
	for i := 0; i < n; i++ {
		bases = append(bases, NewProgGen(rng, o).Program())
	}
	bases = append(bases,
		"func 1", "func", "func f:", "func f x:", "func f x:num...", "on", "on 1", "on down x", "for", "for i", "for i :=", "for i := range", "for range )",
		"if", "if true", "else", "end", "while", "return", "x :=", "x:", "x:[]", "x:{}", "x = ", "a.", "a.(", "a.(num", "a[", "a[1:", "[", "{", "{a:", "(", "\"", "\"\\", "//",
		"x := [] + {}", "print 1 2 3)", "x := 1 +", "\x00", "a\x00b := 1", "print \"a\x00b\"", "\r\n", "print 1\r\nprint 2\r\n", "\xff\xfe", "é := 1\nprint é\n", "x٣ := 1\nprint x٣\n",
		"func f\nend\nfunc f\nend\n", "func f x:num x:num\nend\n", "on down\nend\non down\nend\n", "func print\nend\n", "x:any\nprint x.()\n", "x:any\nprint x.(foo)\n",
		"print ([][:])\n", "x:any\nx = ([][:0])\nprint x [([][1:])] {a:([[]][0][:])}\n", "print ([]+[]) ([]*2) ({}) (([])) ([[]][0]) ({a:[]}.a)\n",
		"print [1 2 3][", "m := {}\nm.a.b = 1\n", "f := 1\nf 2\n", "func f:num\nend\nx := f f\n", "print (", "print ((((((((((1))))))))))", strings.Repeat("(", 300), strings.Repeat("[", 300), strings.Repeat("if true\n", 200),
		strings.Repeat("-", 500)+"1", "print "+strings.Repeat("!", 300)+"true", "x := "+strings.Repeat("[", 100)+strings.Repeat("]", 100),
	)
	return bases
}

// RunC03 : lexer against specification and model; parser totality and located diagnostics.
func RunC03(d *Driver) *Report {
	r := NewReport("C03")
	rng := Rng()
	ngen, budget := 40, 25
	if Thorough() {
		ngen, budget = 400, 120
	}
	bases := c03Bases(rng, ngen)
	nmut := 0
	for _, w := range Corpus("C03") {
		c03Lex(r, d, "corpus:"+w.Name, w.Src)
		c03Parse(r, "corpus:"+w.Name, w.Src)
	}
	for _, b := range bases {
		c03Lex(r, d, "lexer", b)
		c03Parse(r, "base", b)
		for _, m := range c03Mutations(rng, strings.ToValidUTF8(b, "�"), budget) {
			nmut++
			c03Parse(r, "mutation", m)
			if nmut%5 == 0 {
				c03Lex(r, d, "lexer-mutation", m)
			}
		}
	}
	// malformed declarations followed by every kind of use of the declared name: the parser goes on after
	// the first error with partially built nodes (nil types)
	for _, prog := range c03DeclUse() {
		c03Parse(r, "declared-then-used", prog)
	}
	// every cell of the type matrix of C02 / C04 (every kind of value in every position that takes one): the parser
	// answers, accepted or not
	ntm := 0
	for i, prog := range TypeMatrixPrograms() {
		if Thorough() || i%3 == int(Seed()%3) || !strings.Contains(prog, "x := ") {
			c03Parse(r, "type-matrix", prog)
			ntm++
		}
	}
	// random runes and bytes for the lexer
	alphabet := []rune(" \t\r\n\x00\"\\/=!<>:.+-*%(){}[]_aZ09é٣日 �'#@;,")
	nrand := 600
	if Thorough() {
		nrand = 8000
	}
	for i := 0; i < nrand; i++ {
		n := rng.Intn(30)
		rs := make([]rune, n)
		for j := range rs {
			rs[j] = alphabet[rng.Intn(len(alphabet))]
		}
		c03Lex(r, d, "lexer-random", string(rs))
		if i%3 == 0 {
			c03Parse(r, "random", string(rs))
		}
	}
	// located diagnostics
	for _, c := range c03Located() {
		src := c[0]
		r.Count("located:"+src, true)
		o := parseGuard(src, 10*time.Second)
		if o.Hung || o.GoPanic != "" || o.Accepted || len(o.Errs) == 0 {
			r.Violation(Case{Stream: "located", Input: src, Real: fmt.Sprintf("accepted=%v hung=%v panic=%q errors=%q", o.Accepted, o.Hung, o.GoPanic, trunc(o.Raw, 200)), Spec: "rejected with an error at line " + c[1] + " column " + c[2]})
			continue
		}
		found := false
		for _, e := range o.Errs {
			if e[0] == c[1] && e[1] == c[2] && strings.Contains(e[2], c[3]) {
				found = true
			}
		}
		if !found {
			r.Violation(Case{Stream: "located", Input: src, Real: trunc(o.Raw, 400), Spec: fmt.Sprintf("an error containing %q at line %s column %s, the character where the mistake is", c[3], c[1], c[2])})
		}
	}
	r.Rule = fmt.Sprintf("lexer: %d base texts (all evy blocks of docs/*.md, a quarter of the playground samples, generated programs, hand-written fragments incl. NUL, CR, invalid UTF-8, non-ASCII letters and digits), a fifth of their mutations and %d random rune strings: every real token's offset/line/column is compared with the specification of a position (counting from the start of the text) and the whole token list with the Lean lexer model. Parser: every base text, every prefix at a token boundary and %d per-text mutations (token deletion, insertion, substitution, double mistakes, cut-outs; %d texts in all) must return within 10 s, without a Go panic, with a program or with located errors whose positions exist and are token starts; %d programs with one known mistake at a known place must report it at that character. Non-trivial = distinct text", len(bases), nrand, budget, nmut, len(c03Located()))
	r.Rule += fmt.Sprintf("; type matrix: %d programs (every kind of value, also untyped empty slices / operators / literal elements, grouped and not, in every position that takes a value) parsed without crash or hang", ntm)
	// block structure: the line-level parser model (Model/Blocks.lean) on well-nested and broken line sequences
	nblk := 1500
	if Thorough() {
		nblk = 30000
	}
	nb := blocksStream(r, d, rng, nblk)
	r.Rule += fmt.Sprintf("; block structure: %d programs at the level of lines (statement, comment, if / else if / else / while / for / func / on / end; random well-nested trees of depth <= 3, half of them with one or two lines deleted, inserted or exchanged, source indented at random): accepted or rejected as Model/Blocks.lean says, the skeleton of the real syntax tree equal to the model's tree, and the indentation of the formatted text equal to the model's block levels", nb)
	r.DriverCalls = d.N
	return r
}
