package hx

import (
	"fmt"
	"go/ast"
	"go/parser"
	"go/token"
	"os"
	"path/filepath"
	"sort"
	"strconv"
	"strings"
)

// RepoDir is the repository under verification.
func RepoDir() string {
	if d := os.Getenv("VERIF_REPO"); d != "" {
		return d
	}
	return "/repo"
}

type goFile struct {
	fset *token.FileSet
	file *ast.File
	path string
}

func parseGo(rel string) (*goFile, error) {
	fset := token.NewFileSet()
	p := filepath.Join(RepoDir(), rel)
	f, err := parser.ParseFile(fset, p, nil, parser.ParseComments)
	if err != nil {
		return nil, err
	}
	return &goFile{fset, f, rel}, nil
}

// parseDir parses all non-test go files of a package directory (ignoring files that need other build tags
// such as tinygo-only or verif-only files).
func parseDir(rel string) ([]*goFile, error) {
	ents, err := os.ReadDir(filepath.Join(RepoDir(), rel))
	if err != nil {
		return nil, err
	}
	var out []*goFile
	for _, e := range ents {
		n := e.Name()
		if e.IsDir() || !strings.HasSuffix(n, ".go") || strings.HasSuffix(n, "_test.go") || strings.HasPrefix(n, "verif_") {
			continue
		}
		gf, err := parseGo(filepath.Join(rel, n))
		if err != nil {
			return nil, err
		}
		skip := false
		for _, cg := range gf.file.Comments {
			for _, c := range cg.List {
				if strings.HasPrefix(c.Text, "//go:build") && (strings.Contains(c.Text, "tinygo") && !strings.Contains(c.Text, "!tinygo") || strings.Contains(c.Text, "full")) && c.Pos() < gf.file.Package {
					skip = true
				}
			}
		}
		if !skip {
			out = append(out, gf)
		}
	}
	sort.Slice(out, func(i, j int) bool { return out[i].path < out[j].path })
	return out, nil
}

func (g *goFile) funcDecl(name string) *ast.FuncDecl {
	for _, d := range g.file.Decls {
		if fd, ok := d.(*ast.FuncDecl); ok && fd.Name.Name == name {
			return fd
		}
	}
	return nil
}

// funcDeclRecv finds a method by receiver type name (without *) and method name.
func (g *goFile) funcDeclRecv(recv, name string) *ast.FuncDecl {
	for _, d := range g.file.Decls {
		fd, ok := d.(*ast.FuncDecl)
		if !ok || fd.Name.Name != name || fd.Recv == nil || len(fd.Recv.List) == 0 {
			continue
		}
		t := fd.Recv.List[0].Type
		if st, ok := t.(*ast.StarExpr); ok {
			t = st.X
		}
		if id, ok := t.(*ast.Ident); ok && id.Name == recv {
			return fd
		}
	}
	return nil
}

// constIotaNames returns the names of the const block whose first name is `first`.
func (g *goFile) constIotaNames(first string) []string {
	for _, d := range g.file.Decls {
		gd, ok := d.(*ast.GenDecl)
		if !ok || gd.Tok != token.CONST {
			continue
		}
		var names []string
		for _, s := range gd.Specs {
			vs := s.(*ast.ValueSpec)
			for _, n := range vs.Names {
				names = append(names, n.Name)
			}
		}
		if len(names) > 0 && names[0] == first {
			return names
		}
	}
	return nil
}

// varCompositeLit returns the composite literal assigned to package var `name`.
func (g *goFile) varCompositeLit(name string) *ast.CompositeLit {
	for _, d := range g.file.Decls {
		gd, ok := d.(*ast.GenDecl)
		if !ok || gd.Tok != token.VAR {
			continue
		}
		for _, s := range gd.Specs {
			vs := s.(*ast.ValueSpec)
			for i, n := range vs.Names {
				if n.Name == name && i < len(vs.Values) {
					if cl, ok := vs.Values[i].(*ast.CompositeLit); ok {
						return cl
					}
				}
			}
		}
	}
	return nil
}

func exprString(e ast.Expr) string {
	switch e := e.(type) {
	case *ast.Ident:
		return e.Name
	case *ast.SelectorExpr:
		return exprString(e.X) + "." + e.Sel.Name
	case *ast.BasicLit:
		return e.Value
	case *ast.StarExpr:
		return "*" + exprString(e.X)
	case *ast.UnaryExpr:
		return e.Op.String() + exprString(e.X)
	case *ast.BinaryExpr:
		return "(" + exprString(e.X) + " " + e.Op.String() + " " + exprString(e.Y) + ")"
	case *ast.CallExpr:
		var a []string
		for _, x := range e.Args {
			a = append(a, exprString(x))
		}
		return exprString(e.Fun) + "(" + strings.Join(a, ", ") + ")"
	case *ast.ParenExpr:
		return "(" + exprString(e.X) + ")"
	case *ast.IndexExpr:
		return exprString(e.X) + "[" + exprString(e.Index) + "]"
	case *ast.TypeAssertExpr:
		if e.Type == nil {
			return exprString(e.X) + ".(type)"
		}
		return exprString(e.X) + ".(" + exprString(e.Type) + ")"
	case *ast.CompositeLit:
		return exprString(e.Type) + "{…}"
	case *ast.ArrayType:
		return "[]" + exprString(e.Elt)
	case *ast.MapType:
		return "map[" + exprString(e.Key) + "]" + exprString(e.Value)
	case *ast.FuncLit:
		return "func{…}"
	case *ast.SliceExpr:
		return exprString(e.X) + "[:]"
	case nil:
		return ""
	}
	return fmt.Sprintf("%T", e)
}

func unquote(s string) string {
	u, err := strconv.Unquote(s)
	if err != nil {
		return s
	}
	return u
}

// leanStr renders a Go string as a Lean string literal.
func leanStr(s string) string {
	var b strings.Builder
	b.WriteByte('"')
	for _, r := range s {
		switch {
		case r == '"':
			b.WriteString("\\\"")
		case r == '\\':
			b.WriteString("\\\\")
		case r == '\n':
			b.WriteString("\\n")
		case r == '\t':
			b.WriteString("\\t")
		case r < 32 || r == 127:
			fmt.Fprintf(&b, "\\x%02x", r)
		default:
			b.WriteRune(r)
		}
	}
	b.WriteByte('"')
	return b.String()
}

func leanStrList(xs []string) string {
	q := make([]string, len(xs))
	for i, x := range xs {
		q[i] = leanStr(x)
	}
	return "[" + strings.Join(q, ", ") + "]"
}

func writeGen(dir, name, body string) error {
	hdr := "/- GENERATED by harness `hx extract` from the repository working tree on every run. Do not edit. -/\nnamespace EvyV.Gen\n\n"
	return os.WriteFile(filepath.Join(dir, name+".lean"), []byte(hdr+body+"\nend EvyV.Gen\n"), 0o644)
}
