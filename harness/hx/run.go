package hx

import (
	"errors"
	"fmt"
	"strings"
	"time"

	"evylang.dev/evy/pkg/evaluator"
	"evylang.dev/evy/pkg/parser"
)

// Effect is one platform call.
type Effect struct {
	Kind string
	Args string
}

// Rec is a recording evaluator.Platform.
type Rec struct {
	evaluator.UnimplementedPlatform
	Effects []Effect
	Out     strings.Builder
	Input   []string
	Yields  int
	// StopAt: raise Stopped at this yield number (1-based); 0 = never.
	StopAt   int
	MaxYield int // budget: stop (as "timeout") after this many yields; 0 = default
	Ev       *evaluator.Evaluator
	TimedOut bool
}

func (r *Rec) add(kind string, wire string) {
	r.Effects = append(r.Effects, Effect{kind, wire})
}
func nw(f float64) string     { return "n" + FHex(f) }
func sw(s string) string      { return "s" + SHex(s) }
func (r *Rec) Print(s string) { r.Out.WriteString(s); r.add("print", "(print "+sw(s)+")") }
func (r *Rec) Read() string {
	r.add("read", "(read)")
	if len(r.Input) == 0 {
		return ""
	}
	s := r.Input[0]
	r.Input = r.Input[1:]
	return s
}
func (r *Rec) Cls()                       { r.add("cls", "(cls)") }
func (r *Rec) Sleep(d time.Duration)      { r.add("sleep", fmt.Sprintf("(sleep %d)", int64(d))) }
func (r *Rec) Yielder() evaluator.Yielder { return r }
func (r *Rec) Yield() {
	r.Yields++
	if r.StopAt != 0 && r.Yields == r.StopAt && r.Ev != nil {
		r.Ev.Stopped = true
	}
	max := r.MaxYield
	if max == 0 {
		max = 200000
	}
	if r.Yields >= max && r.Ev != nil {
		r.TimedOut = true
		r.Ev.Stopped = true
	}
}
func (r *Rec) gfx(name string, args ...string) {
	r.add("gfx", "(gfx "+name+" "+strings.Join(args, " ")+")")
}
func (r *Rec) Move(x, y float64)         { r.gfx("move", nw(x), nw(y)) }
func (r *Rec) Line(x, y float64)         { r.gfx("line", nw(x), nw(y)) }
func (r *Rec) Rect(x, y float64)         { r.gfx("rect", nw(x), nw(y)) }
func (r *Rec) Circle(x float64)          { r.gfx("circle", nw(x)) }
func (r *Rec) Width(x float64)           { r.gfx("width", nw(x)) }
func (r *Rec) Color(s string)            { r.gfx("color", sw(s)) }
func (r *Rec) Clear(s string)            { r.gfx("clear", sw(s)) }
func (r *Rec) Stroke(s string)           { r.gfx("stroke", sw(s)) }
func (r *Rec) Fill(s string)             { r.gfx("fill", sw(s)) }
func (r *Rec) Linecap(s string)          { r.gfx("linecap", sw(s)) }
func (r *Rec) Text(s string)             { r.gfx("text", sw(s)) }
func (r *Rec) Gridn(u float64, c string) { r.gfx("gridn", nw(u), sw(c)) }
func nsw(fs []float64) string {
	p := make([]string, len(fs))
	for i, f := range fs {
		p[i] = nw(f)
	}
	if len(p) == 0 {
		return "(ns )"
	}
	return "(ns " + strings.Join(p, " ") + ")"
}
func (r *Rec) Dash(seg []float64) { r.gfx("dash", nsw(seg)) }
func (r *Rec) Poly(vs [][]float64) {
	var fs []float64
	for _, v := range vs {
		fs = append(fs, v[0], v[1])
	}
	r.gfx("poly", nsw(fs))
}
func (r *Rec) Ellipse(x, y, rx, ry, rot, sa, ea float64) {
	r.gfx("ellipse", nw(x), nw(y), nw(rx), nw(ry), nw(rot), nw(sa), nw(ea))
}
func (r *Rec) Font(props map[string]any) {
	keys := []string{"family", "size", "weight", "style", "baseline", "align", "letterspacing"}
	var p []string
	for _, k := range keys {
		if v, ok := props[k]; ok {
			switch v := v.(type) {
			case float64:
				p = append(p, "(ss "+sw(k)+")", "(ns "+nw(v)+")")
			case string:
				p = append(p, "(ss "+sw(k)+" "+sw(v)+")")
			}
		}
	}
	r.gfx("font", p...)
}

// Result of running a program with the real code.
type Result struct {
	ParseErr string // non-empty: rejected by the parser (text of errors)
	Class    string // outcome class: ok, panic:<kind>, exit:<n>, testfail, stopped, internal:<kind>, gopanic, timeout
	ErrText  string
	Out      string
	Effects  []Effect
	Yields   int
	GoPanic  string
}

// ClassOf maps an evaluator error to the small enum of outcome classes.
func ClassOf(err error) string {
	if err == nil {
		return "ok"
	}
	var ex evaluator.ExitError
	if errors.As(err, &ex) {
		return fmt.Sprintf("exit:%d", int(ex))
	}
	var te evaluator.TestErrors
	if errors.As(err, &te) {
		return "testfail"
	}
	var pe evaluator.PanicError
	switch {
	case errors.Is(err, evaluator.ErrStopped):
		return "stopped"
	case errors.Is(err, evaluator.ErrTest):
		return "testfail"
	case errors.Is(err, evaluator.ErrIndexValue):
		return "panic:indexValue"
	case errors.Is(err, evaluator.ErrBounds):
		return "panic:bounds"
	case errors.Is(err, evaluator.ErrRangevalue):
		return "panic:rangeValue"
	case errors.Is(err, evaluator.ErrMapKey):
		return "panic:mapKey"
	case errors.Is(err, evaluator.ErrSlice):
		return "panic:slice"
	case errors.Is(err, evaluator.ErrBadArguments):
		return "panic:badArgs"
	case errors.Is(err, evaluator.ErrBadRepetition):
		return "panic:badRepetition"
	case errors.Is(err, evaluator.ErrAnyConversion):
		return "panic:anyConversion"
	case errors.Is(err, evaluator.ErrVarNotSet):
		return "panic:varNotSet"
	case errors.As(err, &pe):
		return "panic:user"
	case errors.Is(err, evaluator.ErrPanic):
		return "panic:other"
	case errors.Is(err, evaluator.ErrInternal):
		return "internal"
	}
	return "unknown:" + err.Error()
}

// RunOpts configures RunSrc.
type RunOpts struct {
	Input     []string
	StopAt    int
	MaxYield  int
	FailFast  bool
	NoSummary bool
	Events    []evaluator.Event
}

// ParseSrc parses with the real parser, recovering from Go panics.
func ParseSrc(src string) (prog *parser.Program, errText string, goPanic string) {
	defer func() {
		if r := recover(); r != nil {
			prog = nil
			goPanic = fmt.Sprint(r)
		}
	}()
	p, err := parser.Parse(src, evaluator.BuiltinDecls())
	if err != nil {
		return nil, err.Error(), ""
	}
	return p, "", ""
}

// RunSrc parses and evaluates src with the real code in-process.
func RunSrc(src string, o RunOpts) (res Result) {
	rec := &Rec{Input: o.Input, StopAt: o.StopAt, MaxYield: o.MaxYield}
	defer func() {
		res.Out = rec.Out.String()
		res.Effects = rec.Effects
		res.Yields = rec.Yields
		if r := recover(); r != nil {
			res.Class = "gopanic"
			res.GoPanic = fmt.Sprint(r)
		}
	}()
	ev := evaluator.NewEvaluator(rec)
	rec.Ev = ev
	ev.TestInfo.FailFast = o.FailFast
	ev.TestInfo.NoTestSummary = o.NoSummary
	prog, perr := parser.Parse(src, evaluator.BuiltinDecls())
	if perr != nil {
		res.ParseErr = perr.Error()
		res.Class = "rejected"
		return res
	}
	err := ev.Eval(prog)
	if err == nil {
		for _, e := range o.Events {
			if err = ev.HandleEvent(e); err != nil {
				break
			}
		}
	}
	res.Class = ClassOf(err)
	if rec.TimedOut && res.Class == "stopped" {
		res.Class = "timeout"
	}
	if err != nil {
		res.ErrText = err.Error()
	}
	return res
}
