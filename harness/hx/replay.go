package hx

import (
	"encoding/json"
	"fmt"
	"os"
	"strings"
)

// Replay re-examines the input of a stored violation on the current tree with the generic oracles:
// parser verdict, formatter idempotence, real run, and the comparison with the Lean evaluator model.
// It returns 1 if one of them still fails, 0 otherwise.
func Replay(d *Driver, path string) int {
	b, err := os.ReadFile(path)
	if err != nil {
		fmt.Println("replay:", err)
		return 2
	}
	var c struct {
		Property string `json:"property"`
		Stream   string `json:"stream"`
		Input    any    `json:"input"`
		Real     string `json:"real"`
		Spec     string `json:"spec"`
	}
	if err := json.Unmarshal(b, &c); err != nil {
		fmt.Println("replay:", err)
		return 2
	}
	src, ok := c.Input.(string)
	if m, isMap := c.Input.(map[string]any); isMap {
		if p, has := m["program"].(string); has {
			src, ok = p, true
		}
	}
	if !ok {
		fmt.Printf("the input of this replay is not a program text (stream %s); re-run the check: bin/check %s\n", c.Stream, c.Property)
		return 0
	}
	fmt.Printf("--- input (%d bytes), recorded stream: %s\n%s\n--- recorded: %s\n--- required: %s\n", len(src), c.Stream, src, trunc(c.Real, 600), trunc(c.Spec, 300))
	bad := 0
	prog, perr, pp := ParseSrc(src)
	switch {
	case pp != "":
		fmt.Println("parser: Go panic:", trunc(pp, 300))
		bad = 1
	case prog == nil:
		fmt.Println("parser: rejected:\n" + perr)
	default:
		fmt.Println("parser: accepted")
		f1, ok1, why := fmtOf(src)
		if !ok1 {
			fmt.Println("format:", why)
			bad = 1
		} else if f2, ok2, why2 := fmtOf(f1); !ok2 || f2 != f1 {
			fmt.Println("format: not idempotent or output rejected:", why2, DiffAt(f1, f2))
			bad = 1
		} else if strings.Join(sigTokens(src), "\x00") != strings.Join(sigTokens(f1), "\x00") {
			fmt.Println("format: token sequence changed")
			bad = 1
		}
		cmp := CompareEval(d, src, RunOpts{MaxYield: 20000, Input: []string{"in1", "in2"}})
		fmt.Println("real :", trunc(cmp.RealObs, 800))
		fmt.Println("model:", trunc(cmp.ModelObs, 800))
		if cmp.Skipped != "" {
			fmt.Println("comparison skipped:", cmp.Skipped)
		} else if !cmp.Agree {
			fmt.Println("real and model differ:", DiffAt(cmp.RealObs, cmp.ModelObs))
			bad = 1
		}
	}
	if bad == 1 {
		fmt.Printf("VIOLATION property=%s replay=%s\n", c.Property, path)
	} else {
		fmt.Println("the generic oracles (parser totality, formatter, evaluator model) hold on this input now; property-specific oracles: bin/check", c.Property)
	}
	return bad
}
