package hx

import (
	"fmt"
	"math/rand"
	"strconv"
	"strings"
)

// mapOp is one mutator of a map history.
type mapOp struct {
	kind string // set, del, setk, delk
	key  string
	val  int
}

func (o mapOp) wire() string {
	switch o.kind {
	case "set":
		return fmt.Sprintf("set %s %d", o.key, o.val)
	case "del":
		return "del " + o.key
	case "setk":
		return fmt.Sprintf("setk %d", o.val)
	}
	return "delk"
}

// evy renders the op as evy source, choosing among equivalent spellings / aliases.
func (o mapOp) evy(rng *rand.Rand, indent string) string {
	m := []string{"m", "m2"}[rng.Intn(2)]
	switch o.kind {
	case "set":
		if rng.Intn(2) == 0 {
			return fmt.Sprintf("%s%s.%s = %d\n", indent, m, o.key, o.val)
		}
		return fmt.Sprintf("%s%s[%q] = %d\n", indent, m, o.key, o.val)
	case "del":
		return fmt.Sprintf("%sdel %s %q\n", indent, m, o.key)
	case "setk":
		return fmt.Sprintf("%s%s[k] = %d\n", indent, m, o.val)
	}
	return fmt.Sprintf("%sdel %s k\n", indent, m)
}

var c12Keys = []string{"a", "b", "c"}

func c12Mutators(n *int) []mapOp {
	var ops []mapOp
	for _, k := range c12Keys {
		*n++
		ops = append(ops, mapOp{"set", k, *n}, mapOp{"del", k, 0})
	}
	return ops
}

func c12Histories(maxLen int, alphabet []mapOp) [][]mapOp {
	out := [][]mapOp{{}}
	frontier := [][]mapOp{{}}
	for l := 0; l < maxLen; l++ {
		var next [][]mapOp
		for _, h := range frontier {
			for i, op := range alphabet {
				op.val = 10*(l+1) + i // distinct values per position
				nh := append(append([]mapOp{}, h...), op)
				next = append(next, nh)
			}
		}
		out = append(out, next...)
		frontier = next
	}
	return out
}

const c12Observe = "print m\nprint (len m) (has m \"a\") (has m \"b\") (has m2 \"c\")\n"

func c12ObserveWire() string { return "print len has a has b has c" }

// expected output of the observe block from model lines: the model prints `print`, `len`, `has`x3 on
// separate lines; the program prints len and has on one line.
func c12Fold(lines []string) []string {
	// lines come in groups: after each observe: entries, len, hasA, hasB, hasC
	return lines
}

// RunC12 black-box correspondence for map histories.
func RunC12(d *Driver) *Report {
	r := NewReport("C12")
	rng := Rng()
	hl, bl, pl := 4, 2, 2
	if Thorough() {
		hl, bl, pl = 5, 3, 3
	}
	r.Rule = fmt.Sprintf("exhaustive: all histories of length <= %d over set/del on keys a,b,c (through two aliases, dot and index spelling chosen by the PRNG) with print/len/has observed after every step and every missing/present key looked up at the end; plus every range loop with a prefix history of length <= %d and a loop body of length <= %d over set/del of fixed keys and of the loop key. ; copies made by array repetition ([m]*3) under every history of length <= 3 on one copy, compared with the evaluator model (original and siblings untouched, key order kept); == and != on all pairs of 46 maps over keys a,b,c with values 1,2 in both insertion orders against 'same keys, equal values'. Non-trivial = distinct history that contains at least one operation", hl, pl, bl)
	r.Exhaustive = true
	n := 0
	alpha := c12Mutators(&n)
	run := func(stream, src, wire string, fold func(string) string) {
		ans, err := d.Ask("map " + wire)
		if err != nil {
			panic(err)
		}
		impl, spec := splitImplSpec(ans)
		res := RunSrc(src, RunOpts{})
		got := obsLines(res)
		r.Count(wire, len(wire) > len(c12ObserveWire())+1)
		r.Sample(map[string]string{"program": src, "history": wire, "real": got, "model": impl}, 4)
		wantI, wantS := fold(impl), fold(spec)
		if got != wantS {
			r.Violation(Case{Stream: stream, Input: src, Real: got, Model: wantI, Spec: wantS, Note: "history: " + wire})
		} else if got != wantI {
			r.Disagree(Case{Stream: stream, Input: src, Real: got, Model: wantI, Spec: wantS, Note: "history: " + wire})
		}
	}
	foldObs := func(ans string) string {
		// "<class> l1|l2|..." where observe groups are 5 lines: entries,len,hasa,hasb,hasc -> "entries\nlen hasa hasb hasc"
		sp := strings.SplitN(ans, " ", 2)
		class := sp[0]
		var lines []string
		if len(sp) > 1 && sp[1] != "" {
			lines = strings.Split(sp[1], "|")
		}
		return class + "\n" + strings.Join(lines, "\n")
	}
	_ = foldObs
	// 1. plain histories, observing after every step
	for _, h := range c12Histories(hl, alpha) {
		var src, wire strings.Builder
		src.WriteString("m:{}num\nm2 := m\n")
		for _, op := range h {
			src.WriteString(op.evy(rng, ""))
			src.WriteString("print m\nprint (len m)\nprint (has m \"a\")\nprint (has m \"b\")\nprint (has m2 \"c\")\n")
			wire.WriteString(op.wire() + " print len has a has b has c ")
		}
		for _, k := range c12Keys {
			s2 := src.String() + "print m2." + k + "\nprint \"end\"\n"
			w2 := wire.String() + "get " + k
			run("history", s2, w2, func(a string) string {
				f := foldGet(a)
				if strings.HasPrefix(f, "ok\n") {
					f += "end\n"
				}
				return f
			})
		}
		r.Hist("history_len", strconv.Itoa(len(h)))
	}
	// 1b. literal construction as the start of a history
	for _, h := range c12Histories(2, alpha) {
		src := "m := {a:1 b:2 c:3}\nm2 := m\n"
		wire := "set a 1 set b 2 set c 3 "
		for _, op := range h {
			src += op.evy(rng, "") + "print m2\n"
			wire += op.wire() + " print "
		}
		src += "for k := range m\n    print k\nend\nprint (m == {c:3 b:2 a:1}) (m == m2)\n"
		wire += "range[ ]"
		run("literal", src, wire, func(a string) string {
			// the equality line is predicted from the spec entries: compare as sets with values
			return foldLiteral(a)
		})
	}
	// 1c. the same literal evaluated twice (function called twice): the instances must be independent
	for _, h := range c12Histories(2, alpha) {
		src := "func mk:{}num\n    return {a:1 b:2 c:3}\nend\nm := mk\nm2 := m\n"
		wire := "set a 1 set b 2 set c 3 "
		for _, op := range h {
			src += op.evy(rng, "")
			wire += op.wire() + " "
		}
		src += "n := mk\nprint m\nprint (len m2)\nprint n\nfor k := range n\n    print k\nend\nn.a = 5\nprint (mk)\n"
		wire += "print len"
		run("literal-twice", src, wire, func(a string) string {
			return foldGet(a) + "{a:1 b:2 c:3}\na\nb\nc\n{a:1 b:2 c:3}\n"
		})
	}
	// 2. range loops with mutation in the body
	bodyAlpha := append(append([]mapOp{}, alpha...), mapOp{"setk", "", 0}, mapOp{"delk", "", 0})
	bodies := c12Histories(bl, bodyAlpha)
	for _, pre := range c12Histories(pl, alpha) {
		for _, body := range bodies {
			var src, wire strings.Builder
			src.WriteString("m:{}num\nm2 := m\n")
			for _, op := range pre {
				src.WriteString(op.evy(rng, ""))
				wire.WriteString(op.wire() + " ")
			}
			src.WriteString("for k := range m\n    print k\n")
			wire.WriteString("range[ ")
			for _, op := range body {
				src.WriteString(op.evy(rng, "    "))
				wire.WriteString(op.wire() + " ")
			}
			src.WriteString("end\nprint m\nprint (len m2)\n")
			wire.WriteString("] print len")
			run("range", src.String(), wire.String(), func(a string) string { return foldGet(a) })
			r.Hist("range_body_len", strconv.Itoa(len(body)))
			// the same loop WITHOUT a loop variable runs its body once per key that is still there when reached:
			// against the Lean evaluator model, and as often as the loop with a variable
			novar := true
			for _, op := range body {
				novar = novar && op.kind != "setk" && op.kind != "delk"
			}
			if novar {
				s := src.String()
				s1 := strings.Replace(strings.Replace(s, "for k := range m\n    print k\n", "cnt := 0\nfor range m\n    cnt = cnt + 1\n", 1), "end\nprint m\n", "end\nprint m cnt\n", 1)
				s2 := strings.Replace(strings.Replace(s, "for k := range m\n    print k\n", "cnt := 0\nfor k := range m\n    cnt = cnt + (len k)\n", 1), "end\nprint m\n", "end\nprint m cnt\n", 1)
				c := evalStream(r, d, "range-without-variable", s1, RunOpts{}, []string{"class", "trace", "globals"}, true, nil)
				if o2 := RunSrc(s2, RunOpts{}); c.Skipped == "" && o2.Out != c.Real.Out {
					r.Violation(Case{Stream: "range-without-variable", Input: s1, Real: trunc(c.Real.Out, 300), Spec: "as many iterations as the same loop with a loop variable: " + trunc(o2.Out, 300)})
				}
			}
		}
	}
	// 3. copies made by array repetition are independent maps: operations on one copy (through two aliases)
	// leave the original and the sibling copies alone, in content AND key order
	parts := []string{"class", "trace", "globals"}
	for _, h := range c12Histories(min(hl, 3), alpha) {
		src := "orig := {a:1 b:2 c:3}\narr := [orig] * 3\nm := arr[0]\nm2 := m\n"
		for _, op := range h {
			src += op.evy(rng, "")
		}
		src += "print orig arr\nfor k := range arr[1]\n    print k arr[1][k]\nend\nfor k := range orig\n    print k\nend\nprint (len arr[2]) (len orig) (arr[1] == orig) (arr[0] == orig)\n"
		evalStream(r, d, "copies", src, RunOpts{}, parts, true, nil)
	}
	// 3b. a loop over a map entered while another one is running — directly, through an alias, or in a called function;
	// over another map (shorter, equal, longer) or over the same map after the body deleted or inserted a key
	for _, inner := range []string{"{x:1 y:2}", "{x:1 y:2 z:3}", "{x:1 y:2 z:3 w:4 v:5}", "m", "m2", "{}"} {
		for _, mut := range []string{"", "    del m k\n", "    del m \"c\"\n", "    m.z = 9\n", "    del m2 \"a\"\n    m.a = 7\n"} {
			for _, via := range []string{"direct", "call"} {
				src := "m := {a:1 b:2 c:3}\nm2 := m\nn := " + inner + "\n"
				if inner == "m" || inner == "m2" {
					src = "m := {a:1 b:2 c:3}\nm2 := m\n"
				} else if inner == "{}" {
					src = "m := {a:1 b:2 c:3}\nm2 := m\nn:{}num\n"
				}
				in := inner
				if in != "m" && in != "m2" {
					in = "n"
				}
				if via == "call" {
					src += "func walk mm:{}num tag:string\n    for j := range mm\n        print tag j\n    end\nend\n"
					src += "for k := range m\n    print \"outer\" k\n" + mut + "    walk " + in + " k\nend\n"
				} else {
					src += "for k := range m\n    print \"outer\" k\n" + mut + "    for j := range " + in + "\n        print k j\n    end\nend\n"
				}
				src += "print m (len m2)\n"
				if in == "n" {
					src += "print n\n"
				}
				c := evalStream(r, d, "nested-range", src, RunOpts{}, parts, true, nil)
				if c.Skipped == "rejected" {
					r.Disagree(Case{Stream: "nested-range", Input: src, Real: "rejected: " + c.Real.ParseErr, Note: "harness program should be accepted"})
				}
			}
		}
	}
	// 3c. assigning to an existing key stores the new value, also when it is equal to the old one: the map then shares
	// the NEW composite (set / has / del / len / range through the old alias are unchanged)
	for _, src := range []string{
		"a := {x:1}\nb := {x:1}\nm := {i:a j:a}\nalias := m\nalias.i = b\nb.y = 2\nprint m a b (has m.i \"y\") (len m.i) (len m.j)\ndel a \"x\"\nprint m a b\nfor k := range m.i\n    print k\nend\n",
		"p := [1 2]\nq := [1 2]\nm := {i:p j:p}\nm[\"i\"] = q\nq[0] = 9\nprint m p q\np[1] = 8\nprint m p q (len m)\nfor k := range m\n    print k m[k]\nend\n",
		"m := {k:1 j:1}\nm.k = 1\nm.j = m.k\nm.k = 2\nprint m\nw:{}any\ne1 := {}\ne2 := {}\nw.a = e1\nw.a = e2\ne2.z = 1\nprint w e1 e2\n",
	} {
		c := evalStream(r, d, "overwrite", src, RunOpts{}, parts, true, nil)
		if c.Skipped == "rejected" {
			r.Disagree(Case{Stream: "overwrite", Input: src, Real: "rejected: " + c.Real.ParseErr, Note: "harness program should be accepted"})
		}
	}
	// 4. equality: two maps are equal iff they have the same keys with equal values, in any order
	type kv struct {
		k string
		v int
	}
	var maps [][]kv
	for _, a := range []int{0, 1, 2} {
		for _, b := range []int{0, 1, 2} {
			for _, c := range []int{0, 1, 2} {
				var m []kv
				for i, v := range []int{a, b, c} {
					if v != 0 {
						m = append(m, kv{c12Keys[i], v})
					}
				}
				maps = append(maps, m)
				if len(m) > 1 {
					rev := make([]kv, len(m))
					for i := range m {
						rev[len(m)-1-i] = m[i]
					}
					maps = append(maps, rev)
				}
			}
		}
	}
	lit := func(m []kv) string {
		if len(m) == 0 {
			return "e"
		}
		p := make([]string, len(m))
		for i, e := range m {
			p[i] = fmt.Sprintf("%s:%d", e.k, e.v)
		}
		return "{" + strings.Join(p, " ") + "}"
	}
	same := func(a, b []kv) bool {
		if len(a) != len(b) {
			return false
		}
		for _, x := range a {
			found := false
			for _, y := range b {
				found = found || (x.k == y.k && x.v == y.v)
			}
			if !found {
				return false
			}
		}
		return true
	}
	for _, m1 := range maps {
		src := "e:{}num\n"
		want := ""
		for _, m2 := range maps {
			src += "print (" + lit(m1) + " == " + lit(m2) + ") (" + lit(m1) + " != " + lit(m2) + ")\n"
			want += fmt.Sprintf("%v %v\n", same(m1, m2), !same(m1, m2))
		}
		r.Count("equality:"+src, true)
		res := RunSrc(src, RunOpts{})
		if res.Out != want {
			r.Violation(Case{Stream: "equality", Input: src, Real: trunc(res.Class+" "+res.Out, 600), Spec: "two maps are equal iff they have the same keys with equal values, in any insertion order:\n" + trunc(want, 600), Note: DiffAt(res.Out, want)})
		}
	}
	r.Rule += "; range loops WITHOUT a loop variable with deletions in the body (against the Lean evaluator model and against the loop with a variable); a map loop entered while another one runs (another map of 0 / 2 / 3 / 5 keys, the same map, its alias; directly and in a called function; with deletions and insertions in the outer body); assignment of an equal but distinct composite to an existing key followed by updates of either composite"
	r.DriverCalls = d.N
	return r
}

func splitImplSpec(ans string) (string, string) {
	i := strings.Index(ans, " spec=")
	if !strings.HasPrefix(ans, "impl=") || i < 0 {
		return "ERR " + ans, "ERR " + ans
	}
	return ans[5:i], ans[i+6:]
}

// obsLines: class + printed lines
func obsLines(res Result) string {
	return res.Class + "\n" + res.Out
}

// foldGet turns "<class> l1|l2" into class + lines; when ok, the program also prints "end".
func foldGet(a string) string {
	sp := strings.SplitN(a, " ", 2)
	class := sp[0]
	out := ""
	if len(sp) > 1 && sp[1] != "" {
		out = strings.ReplaceAll(sp[1], "|", "\n") + "\n"
	}
	if class == "ok" && strings.HasSuffix(a, "\x00") {
		return class + "\n" + out
	}
	return class + "\n" + out
}

func foldLiteral(a string) string {
	sp := strings.SplitN(a, " ", 2)
	class := sp[0]
	lines := []string{}
	if len(sp) > 1 && sp[1] != "" {
		lines = strings.Split(sp[1], "|")
	}
	// last printed entries line tells the final map; find last line starting with "{"
	final := "{a:1 b:2 c:3}"
	for _, l := range lines {
		if strings.HasPrefix(l, "{") {
			final = l
		}
	}
	eq := sameEntries(final, "{c:3 b:2 a:1}")
	return class + "\n" + strings.Join(lines, "\n") + "\n" + strconv.FormatBool(eq) + " true\n"
}

func sameEntries(a, b string) bool {
	pa := strings.Fields(strings.Trim(a, "{}"))
	pb := strings.Fields(strings.Trim(b, "{}"))
	if len(pa) != len(pb) {
		return false
	}
	m := map[string]bool{}
	for _, x := range pa {
		m[x] = true
	}
	for _, x := range pb {
		if !m[x] {
			return false
		}
	}
	return true
}
