package hx

import (
	"fmt"
	"go/ast"
	"sort"
	"strings"
)

func init() { generators = append(generators, genTables) }

// genTables: binding powers, operator classes, token->operator map, builtin names and signatures,
// error sentinels.
func genTables(dir string) error {
	var b strings.Builder
	ex, err := parseGo("pkg/parser/expression.go")
	if err != nil {
		return err
	}
	// precedence constants in iota order
	levels := ex.constIotaNames("lowestPrec")
	lv := map[string]int{}
	for i, n := range levels {
		lv[n] = i
	}
	prec := ex.varCompositeLit("precedences")
	if prec == nil {
		return fmt.Errorf("precedences not found")
	}
	type kv struct {
		k string
		v int
	}
	var kvs []kv
	for _, el := range prec.Elts {
		p := el.(*ast.KeyValueExpr)
		kvs = append(kvs, kv{strings.TrimPrefix(exprString(p.Key), "lexer."), lv[exprString(p.Value)]})
	}
	sort.Slice(kvs, func(i, j int) bool { return kvs[i].k < kvs[j].k })
	b.WriteString("/-- expression.go `precedences`: token type name ↦ binding power (position in the precedence const block) -/\ndef precedences : List (String × Nat) := [\n")
	for i, e := range kvs {
		sep := ","
		if i == len(kvs)-1 {
			sep = ""
		}
		fmt.Fprintf(&b, "  (%s, %d)%s\n", leanStr(e.k), e.v, sep)
	}
	b.WriteString("]\n\n")
	fmt.Fprintf(&b, "def precLevels : List String := %s\n\n", leanStrList(levels))
	// isBinaryOp / isComparisonOp: token names mentioned in the return expression
	for _, fn := range []string{"isBinaryOp", "isComparisonOp"} {
		fd := ex.funcDecl(fn)
		var toks []string
		if fd != nil {
			ast.Inspect(fd.Body, func(n ast.Node) bool {
				if se, ok := n.(*ast.SelectorExpr); ok {
					if id, ok := se.X.(*ast.Ident); ok && id.Name == "lexer" {
						toks = append(toks, se.Sel.Name)
					}
				}
				return true
			})
		}
		sort.Strings(toks)
		fmt.Fprintf(&b, "def %sTokens : List String := %s\n", fn, leanStrList(toks))
	}
	// binary loop condition of parseExpr: `prec < precedences[...]` (strict: left associative)
	pe := ex.funcDeclRecv("parser", "parseExpr")
	strict := false
	if pe != nil {
		ast.Inspect(pe.Body, func(n ast.Node) bool {
			if be, ok := n.(*ast.BinaryExpr); ok {
				s := exprString(be)
				if strings.Contains(s, "prec < precedences[") {
					strict = true
				}
			}
			return true
		})
	}
	fmt.Fprintf(&b, "/-- parseExpr continues while `prec < precedences[cur]` (strict comparison: equal binding power does not continue, i.e. left associativity) -/\ndef parseExprLoopIsStrict : Bool := %v\n", strict)
	// parseBinaryExpr parses its right operand with the operator's own precedence
	pb := ex.funcDeclRecv("parser", "parseBinaryExpr")
	rightOwn := false
	if pb != nil {
		src := fmt.Sprint(pb.Body)
		_ = src
		ast.Inspect(pb.Body, func(n ast.Node) bool {
			if as, ok := n.(*ast.AssignStmt); ok && len(as.Rhs) == 1 {
				if exprString(as.Rhs[0]) == "p.parseExpr(prec)" {
					rightOwn = true
				}
			}
			return true
		})
	}
	fmt.Fprintf(&b, "def binaryRightUsesOwnPrec : Bool := %v\n", rightOwn)
	pu := ex.funcDeclRecv("parser", "parseUnaryExpr")
	unaryPrec := false
	if pu != nil {
		ast.Inspect(pu.Body, func(n ast.Node) bool {
			if ce, ok := n.(*ast.CallExpr); ok && exprString(ce) == "p.parseExpr(unaryPrec)" {
				unaryPrec = true
			}
			return true
		})
	}
	fmt.Fprintf(&b, "def unaryOperandUsesUnaryPrec : Bool := %v\n\n", unaryPrec)

	// operator.go: op(): token -> operator
	opf, err := parseGo("pkg/parser/operator.go")
	if err != nil {
		return err
	}
	var opmap []kv
	_ = opmap
	var pairs []string
	if fd := opf.funcDecl("op"); fd != nil {
		ast.Inspect(fd.Body, func(n ast.Node) bool {
			if cc, ok := n.(*ast.CaseClause); ok && len(cc.List) == 1 && len(cc.Body) == 1 {
				if rs, ok := cc.Body[0].(*ast.ReturnStmt); ok && len(rs.Results) == 1 {
					pairs = append(pairs, fmt.Sprintf("(%s, %s)", leanStr(strings.TrimPrefix(exprString(cc.List[0]), "lexer.")), leanStr(exprString(rs.Results[0]))))
				}
			}
			return true
		})
	}
	sort.Strings(pairs)
	fmt.Fprintf(&b, "/-- operator.go op(): token type ↦ operator -/\ndef tokenOperator : List (String × String) := [%s]\n\n", strings.Join(pairs, ", "))

	// builtin names from newBuiltins' funcs map
	bf, err := parseGo("pkg/evaluator/builtin.go")
	if err != nil {
		return err
	}
	var names []string
	if fd := bf.funcDecl("newBuiltins"); fd != nil {
		ast.Inspect(fd.Body, func(n ast.Node) bool {
			if as, ok := n.(*ast.AssignStmt); ok && len(as.Lhs) == 1 && exprString(as.Lhs[0]) == "funcs" {
				if cl, ok := as.Rhs[0].(*ast.CompositeLit); ok {
					for _, el := range cl.Elts {
						if kv, ok := el.(*ast.KeyValueExpr); ok {
							names = append(names, unquote(exprString(kv.Key)))
						}
					}
				}
			}
			return true
		})
	}
	sort.Strings(names)
	fmt.Fprintf(&b, "/-- names of the builtin table in newBuiltins -/\ndef builtinNames : List String := %s\n\n", leanStrList(names))

	// error sentinels: name ↦ wraps ErrPanic / ErrInternal
	ef, err := parseGo("pkg/evaluator/evaluator.go")
	if err != nil {
		return err
	}
	var sent []string
	for _, d := range ef.file.Decls {
		gd, ok := d.(*ast.GenDecl)
		if !ok {
			continue
		}
		for _, sp := range gd.Specs {
			vs, ok := sp.(*ast.ValueSpec)
			if !ok || len(vs.Names) != 1 || len(vs.Values) != 1 || !strings.HasPrefix(vs.Names[0].Name, "Err") {
				continue
			}
			v := exprString(vs.Values[0])
			kind := "root"
			switch {
			case strings.Contains(v, "ErrPanic"):
				kind = "panic"
			case strings.Contains(v, "ErrInternal"):
				kind = "internal"
			}
			sent = append(sent, fmt.Sprintf("(%s, %s)", leanStr(vs.Names[0].Name), leanStr(kind)))
		}
	}
	sort.Strings(sent)
	fmt.Fprintf(&b, "/-- sentinel errors of evaluator.go and the class they wrap -/\ndef sentinels : List (String × String) := [%s]\n", strings.Join(sent, ", "))
	return writeGen(dir, "Tables", b.String())
}
