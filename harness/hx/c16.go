package hx

import (
	"fmt"
	"math"
	"math/rand"
	"regexp"
	"strconv"
	"strings"

	"evylang.dev/evy/pkg/bytecode"
	"evylang.dev/evy/pkg/evaluator"
	"evylang.dev/evy/pkg/parser"
)

// ---- expression trees for the proved fragment -------------------------------

type exprT struct {
	kind string // num bool glob neg not grp bin
	f    float64
	b    bool
	i    int
	op   string
	l, r *exprT
	ty   string // num | bool
}

func genExprT(rng *rand.Rand, ty string, d int, gl []string) *exprT {
	if d <= 0 || rng.Intn(4) == 0 {
		// leaf
		var cands []int
		for i, t := range gl {
			if t == ty {
				cands = append(cands, i)
			}
		}
		if len(cands) > 0 && rng.Intn(2) == 0 {
			return &exprT{kind: "glob", i: cands[rng.Intn(len(cands))], ty: ty}
		}
		if ty == "num" {
			vals := []float64{0, 1, 2, 3, 0.5, 10, 7, 100, 0.1, 1e21, 9007199254740993}
			return &exprT{kind: "num", f: vals[rng.Intn(len(vals))], ty: ty}
		}
		return &exprT{kind: "bool", b: rng.Intn(2) == 0, ty: ty}
	}
	if rng.Intn(6) == 0 {
		return &exprT{kind: "grp", l: genExprT(rng, ty, d-1, gl), ty: ty}
	}
	if ty == "num" {
		if rng.Intn(5) == 0 {
			return &exprT{kind: "neg", l: genExprT(rng, "num", d-1, gl), ty: ty}
		}
		op := []string{"+", "-", "*", "/"}[rng.Intn(4)]
		return &exprT{kind: "bin", op: op, l: genExprT(rng, "num", d-1, gl), r: genExprT(rng, "num", d-1, gl), ty: ty}
	}
	switch rng.Intn(4) {
	case 0:
		return &exprT{kind: "not", l: genExprT(rng, "bool", d-1, gl), ty: ty}
	case 1:
		op := []string{"==", "!="}[rng.Intn(2)]
		t := []string{"num", "bool"}[rng.Intn(2)]
		return &exprT{kind: "bin", op: op, l: genExprT(rng, t, d-1, gl), r: genExprT(rng, t, d-1, gl), ty: ty}
	}
	op := []string{"<", "<=", ">", ">="}[rng.Intn(4)]
	return &exprT{kind: "bin", op: op, l: genExprT(rng, "num", d-1, gl), r: genExprT(rng, "num", d-1, gl), ty: ty}
}

var precOf = map[string]int{"==": 3, "!=": 3, "<": 4, "<=": 4, ">": 4, ">=": 4, "+": 5, "-": 5, "*": 6, "/": 6}

// src renders with exactly the parentheses precedence and left associativity require; explicit
// groups are kept. The returned tree has group nodes inserted where parentheses were needed.
func (e *exprT) src(parentPrec int, right bool) (string, *exprT) {
	switch e.kind {
	case "num":
		return strconv.FormatFloat(e.f, 'f', -1, 64), e
	case "bool":
		return strconv.FormatBool(e.b), e
	case "glob":
		return "g" + strconv.Itoa(e.i), e
	case "grp":
		s, t := e.l.src(0, false)
		return "(" + s + ")", &exprT{kind: "grp", l: t, ty: e.ty}
	case "neg", "not":
		s, t := e.l.src(7, false)
		op := "-"
		if e.kind == "not" {
			op = "!"
		}
		return op + s, &exprT{kind: e.kind, l: t, ty: e.ty}
	}
	p := precOf[e.op]
	ls, lt := e.l.src(p, false)
	rs, rt := e.r.src(p, true)
	s := ls + " " + e.op + " " + rs
	n := &exprT{kind: "bin", op: e.op, l: lt, r: rt, ty: e.ty}
	if p < parentPrec || (p == parentPrec && right) {
		return "(" + s + ")", &exprT{kind: "grp", l: n, ty: e.ty}
	}
	return s, n
}

func (e *exprT) wire() string {
	switch e.kind {
	case "num":
		return "n " + FHex(e.f)
	case "bool":
		if e.b {
			return "t"
		}
		return "f"
	case "glob":
		return "g " + strconv.Itoa(e.i)
	case "grp":
		return "grp " + e.l.wire()
	case "neg":
		return "neg " + e.l.wire()
	case "not":
		return "not " + e.l.wire()
	}
	return "bin " + e.op + " " + e.l.wire() + " " + e.r.wire()
}

// decodeReal decodes real bytecode into "OpName[:operand]" using the real tables.
func decodeReal(code []byte, consts []string, constKinds []string) ([]string, error) {
	var out []string
	for i := 0; i < len(code); {
		def, err := bytecode.Lookup(bytecode.Opcode(code[i]))
		if err != nil {
			return nil, err
		}
		ops, n := bytecode.ReadOperands(def, code[i+1:])
		s := def.Name
		if len(ops) == 1 {
			if def.Name == "OpConstant" && ops[0] < len(consts) {
				if constKinds[ops[0]] == "num" {
					f, _ := strconv.ParseFloat(consts[ops[0]], 64)
					s += ":" + FHex(f)
				} else {
					s += ":" + strconv.Quote(consts[ops[0]])
				}
			} else {
				s += ":" + strconv.Itoa(ops[0])
			}
		}
		out = append(out, s)
		i += 1 + n
	}
	return out, nil
}

// compileDetail returns decoded instructions and constants of a program.
func compileDetail(src string) (ins []string, err error) {
	defer func() {
		if r := recover(); r != nil {
			err = fmt.Errorf("gopanic: %v", r)
		}
	}()
	prog, perr := parser.Parse(src, parser.Builtins{})
	if perr != nil {
		return nil, perr
	}
	comp := bytecode.NewCompiler()
	if err := comp.Compile(prog); err != nil {
		return nil, err
	}
	bc := comp.Bytecode()
	vals, kinds := bc.VerifConstants()
	return decodeReal(bc.Instructions, vals, kinds)
}

// EvalGlobals runs the real evaluator (no builtins needed for the VM sub-language, but the
// standard builtins are harmless) and returns the globals by name.
func EvalGlobals(src string) (vals map[string]string, kinds map[string]string, class string, goPanic string) {
	defer func() {
		if r := recover(); r != nil {
			class, goPanic = "gopanic", fmt.Sprint(r)
		}
	}()
	rec := &Rec{MaxYield: 400000}
	ev := evaluator.NewEvaluator(rec)
	rec.Ev = ev
	prog, err := parser.Parse(src, evaluator.BuiltinDecls())
	if err != nil {
		return nil, nil, "rejected", ""
	}
	e := ev.Eval(prog)
	class = ClassOf(e)
	if rec.TimedOut {
		class = "timeout"
	}
	names, vs, ks := ev.VerifGlobals()
	vals, kinds = map[string]string{}, map[string]string{}
	for i, n := range names {
		vals[n] = vs[i]
		kinds[n] = ks[i]
	}
	return vals, kinds, class, ""
}

// c16 known-finding classes (syntactic predicates on the program), see known-findings.jsonl.
var (
	reNonASCII  = regexp.MustCompile(`[^\x00-\x7f]`)
	reMapAssign = regexp.MustCompile(`(?m)^\s*\w+\["[a-z]"\] = `)
	reRepeat    = regexp.MustCompile(`\* \d`)
)

func c16KnownClass(src string) string {
	switch {
	case strings.HasPrefix(src, "// known:"):
		return strings.TrimSpace(strings.SplitN(src[9:], "\n", 2)[0])
	case reNonASCII.MatchString(src):
		return "vm-strings-are-bytes"
	case reMapAssign.MatchString(src):
		return "vm-map-index-assign"
	}
	return ""
}

// normalise VM printing differences that are not value differences: the VM prints maps as
// "{a: 1, b: 2}" and the evaluator as "{a:1 b:2}".
func vmMapNorm(s string) string {
	s = strings.ReplaceAll(s, ": ", ":")
	s = strings.ReplaceAll(s, ", ", " ")
	return s
}

// RunC16 : (1) the proved expression fragment against the real compiler and VM;
// (2) differential evaluator-vs-VM on generated programs.
func RunC16(d *Driver) *Report {
	r := NewReport("C16")
	rng := Rng()
	nexpr, nprog := 4000, 4000
	if Thorough() {
		nexpr, nprog = 60000, 80000
	}
	r.Rule = fmt.Sprintf("%d random expression trees (depth <= 5, num/bool, globals, all operators, IEEE special operands) compiled by the real compiler and by the Lean model: emitted instruction sequence, VM result and evaluator result compared; %d generated programs of the compiler's sub-language run on the real evaluator and on the real VM, all common globals compared; every node kind outside the sub-language must be a compile error. Non-trivial = distinct case containing an operator / a control-flow construct", nexpr, nprog)
	ask := func(q string) string {
		a, err := d.Ask(q)
		if err != nil {
			panic(err)
		}
		return a
	}
	known := KnownIDs()
	// --- 1. expression fragment
	for i := 0; i < nexpr; i++ {
		gl := []string{"num", "bool", "num"}
		gvals := []string{FHex(3), "t", FHex(0)}
		ty := []string{"num", "bool"}[rng.Intn(2)]
		e0 := genExprT(rng, ty, 1+rng.Intn(5), gl)
		srcE, e := e0.src(0, false)
		src := "g0 := 3\ng1 := true\ng2 := 0\nx := " + srcE + "\ng0 = g0\ng1 = g1\ng2 = g2\nx = x\n"
		ans := ask("exprvm " + strings.Join(gvals, " ") + " | " + e.wire())
		var mcode, mvm, mev string
		for _, f := range strings.Fields(ans) {
			switch {
			case strings.HasPrefix(f, "code="):
				mcode = f[5:]
			case strings.HasPrefix(f, "vm="):
				mvm = f[3:]
			case strings.HasPrefix(f, "eval="):
				mev = f[5:]
			}
		}
		r.Count("expr:"+srcE, e.kind == "bin" || e.kind == "neg" || e.kind == "not")
		r.Sample(map[string]string{"expr": srcE, "model_code": mcode, "model_vm": mvm, "model_eval": mev}, 3)
		ins, err := compileDetail(src)
		if err != nil {
			r.Violation(Case{Stream: "expr-compile", Input: src, Real: "compile error: " + err.Error(), Spec: "the compiler accepts num/bool expressions"})
			continue
		}
		// real: first 6 instructions are the three globals; last is OpSetGlobal 3
		realCode := ""
		if len(ins) >= 15 {
			realCode = strings.Join(ins[6:len(ins)-9], ",")
		}
		cr := CompileAndRun(src, true)
		evals, _, eclass, _ := EvalGlobals(src)
		wantEv := valOfWire(mev)
		realVM := cr.Globals["x"]
		if cr.RunErr != "" {
			realVM = "err:" + cr.RunErr
		}
		if cr.GoPanic != "" {
			realVM = "gopanic:" + cr.GoPanic
		}
		wantVM := valOfWire(mvm)
		if mvm == "divzero" {
			wantVM = "err:user error: division by zero"
		}
		real := fmt.Sprintf("code=%s vm=%s eval=%s(%s)", realCode, realVM, evals["x"], eclass)
		model := fmt.Sprintf("code=%s vm=%s eval=%s", mcode, wantVM, wantEv)
		// property oracle: VM value equals evaluator value unless division by zero error
		oracleOK := realVM == evals["x"] || realVM == "err:user error: division by zero"
		switch {
		case !oracleOK:
			r.Violation(Case{Stream: "expr-compile", Input: src, Real: real, Model: model, Spec: "VM global x equals the evaluator's x (or the VM-only division by zero error)"})
		case realCode != mcode || realVM != wantVM || evals["x"] != wantEv:
			r.Disagree(Case{Stream: "expr-compile", Input: src, Real: real, Model: model})
		}
	}
	// --- 1b. statement fragment (Props/C16Stmt.lean)
	nstmt := c16Statements(r, ask, rng, nexpr/4)
	r.Rule += fmt.Sprintf("; %d generated statement programs (assignments, if / else-if / else, nested while with break, on num and bool globals): real compiler's instruction sequence with jump targets as instruction indices, real VM's and real evaluator's final globals compared with Model/StmtVM.lean", nstmt)
	// --- 0. corpus: witnesses of recorded findings and minimised past failures run first
	for _, w := range Corpus("C16") {
		c16Diff(r, w.Src, "corpus:"+w.Name, known)
	}
	// --- 2. differential on programs
	o := GenOpts{VM: true, Maps: true, Strings: true, MaxDepth: 3, MaxStmts: 3, NonAscii: true}
	for i := 0; i < nprog; i++ {
		o.NonAscii = i%8 == 0
		g := NewProgGen(rng, o)
		src := g.Program()
		c16Diff(r, src, "differential", known)
	}
	for _, src := range c17Fixed()[:69] {
		c16Diff(r, src, "differential-fixed", known)
	}
	for _, src := range c16Aliasing() {
		c16Diff(r, src, "differential-aliasing", known)
	}
	// literals of different types whose printed forms coincide (a constant pool must keep them apart), and
	// literals equal to the hidden constants of loops
	for _, src := range c16LiteralPrograms() {
		c16Diff(r, src, "differential-literals", known)
	}
	// run-time errors and comparisons the generator rarely reaches: both engines must fail alike (or leave the same globals)
	for _, src := range []string{
		"a := [1 2 3]\nx := a[1.5]\nx = x\n", "a := [1 2 3]\nx := a[-1.5]\nx = x\n", "s := \"abc\"\nx := s[0.5]\nx = x\n",
		"a := [1 2 3]\nx := a[2:1]\nx = x\n", "a := [1 2 3]\nx := a[-1:1]\nx = x\n", "s := \"abc\"\nx := s[3:2]\nx = x\n", "a := [1 2 3]\nx := a[1.5:]\nx = x\n",
		"a := [1 2 3]\nx := a[:4]\nx = x\n", "a := [1 2 3]\nx := a[-4:]\nx = x\n", "a := [1 2 3]\nx := a[3:]\ny := a[:0]\nz := a[1:1]\nx = x\ny = y\nz = z\n",
		"a := [1 2]\nx := a * 1.5\nx = x\n", "a := [1 2]\nx := a * -1\nx = x\n", "a := [1 2]\nx := a * 100000000000\nx = x\n", "a := [1 2]\nx := a * 0\ny := a * 1\nz := a * 3\nx = x\ny = y\nz = z\n",
		"e:[]num\nx := e * -1\nx = x\n", "e:[]num\nx := e * 5\nx = x\n", "x := [] * -1\nx = x\n", "x := [] * 1.5\nx = x\n", "a := [1 2][2:]\nb := a * -2\nb = b\n", "a := [1 2]\nn := 0\nwhile n > -3\n    n = n - 1\nend\nb := a[2:] * n\nb = b\n", "a := [1 2][1:1]\nb := a * 2.5\nc := 1\nb = b\nc = c\n",
		"m := {a:1 b:2}\nn := {b:2 a:1}\no := {a:1}\np := {a:1 b:3}\nq := {a:1 c:2}\nx := m == n\ny := m == o\nz := m != p\nw := m == q\nv := m == m\nx = x\ny = y\nz = z\nw = w\nv = v\n",
		"m := {a:[1 2]}\nn := {a:[1 2]}\no := {a:[1 3]}\nx := m == n\ny := m == o\nx = x\ny = y\n", "e := {}\nf := {}\nx := e == f\nx = x\n",
		"a := [[1] [2]]\nb := [[1] [2]]\nc := [[1] [3]]\nx := a == b\ny := a == c\nz := a != c\nx = x\ny = y\nz = z\n",
		"m := {a:1}\nx := m.b\nx = x\n", "m := {a:1}\nx := m[\"zz\"]\nx = x\n", "m := {a:1}\nm.b = 2\nx := m.b + m.a\nx = x\n",
		"x := 5 % 0\nx = x\n", "x := 5 / 0\nx = x\n", "x := -5 % 3\ny := 5.5 % 2\nx = x\ny = y\n",
		"s := \"abc\"\nx := s[-1]\ny := s[-3:]\nz := s[:-1]\nx = x\ny = y\nz = z\n",
	} {
		c16Diff(r, src, "differential-errors", known)
	}
	// a declaration in an inner block that shadows an outer variable and reads that variable in its own initialiser
	// (the initialiser is evaluated before the new name exists), in every kind of block, nested, after a sibling block
	// has used the slot, and across loop iterations
	for _, src := range []string{
		"x := 5\nr := 0\nif true\n    x := x + 1\n    r = x\nend\nr = r\nx = x\n",
		"x := 5\nr := 0\nif true\n    junk := 100\n    r = junk\nend\nif true\n    x := x + 1\n    r = x\nend\nr = r\nx = x\n",
		"s := \"a\"\nout := \"\"\nfor i := range 3\n    s := s + \"b\"\n    out = out + s\nend\nout = out\ns = s\n",
		"x := 1\nr := 0\nw := 0\nwhile w < 3\n    w = w + 1\n    x := x * 10\n    r = r + x\nend\nr = r\nx = x\n",
		"x := 2\nr := 0\nif x > 1\n    x := x + 1\n    if x > 2\n        x := x + 1\n        for i := range 2\n            x := x + i\n            r = r + x\n        end\n        r = r + x\n    end\n    r = r + x\nend\nr = r + x\n",
		"a := [1 2]\nn := 0\nif true\n    a := a + [3]\n    n = (len a)\nend\nfor e := range a\n    a := [e] + a\n    n = n + (len a)\nend\nn = n\na = a\n",
		"x := 1\ny := 2\nr := 0\nif true\n    y := x + y\n    x := y + x\n    r = x * 100 + y\nend\nr = r\n",
		"b := true\nr := 0\nif b\n    b := !b\n    if !b\n        r = 1\n    end\nend\nr = r\nb = b\n",
	} {
		c16Diff(r, src, "differential-shadowing", known)
	}
	// --- 3. unsupported constructs must be compile errors
	for _, c := range c16Unsupported() {
		cr := CompileAndRun(c, false)
		r.Count("unsupported:"+c, true)
		if cr.ParseErr != "" {
			r.Disagree(Case{Stream: "unsupported", Input: c, Real: "parse error " + cr.ParseErr, Note: "harness program should parse"})
			continue
		}
		if cr.CompileErr == "" {
			r.Violation(Case{Stream: "unsupported", Input: c, Real: "compiled without error", Spec: "a construct the compiler cannot translate is rejected at compile time"})
		}
	}
	r.DriverCalls = d.N
	return r
}

func valOfWire(w string) string {
	switch {
	case w == "t":
		return "true"
	case w == "f":
		return "false"
	case strings.HasPrefix(w, "n") && len(w) == 17:
		var bits uint64
		fmt.Sscanf(w[1:], "%x", &bits)
		return strconv.FormatFloat(math.Float64frombits(bits), 'f', -1, 64)
	}
	return w
}

func c16Diff(r *Report, src, stream string, known map[string]bool) {
	cr := CompileAndRun(src, true)
	if cr.Hang {
		r.Violation(Case{Stream: stream, Input: src, Real: "VM did not terminate within 10s", Spec: "terminates like the evaluator"})
		return
	}
	if cr.ParseErr != "" {
		r.Hist("diff", "parse-rejected")
		return
	}
	if cr.CompileErr != "" {
		r.Hist("diff", "compile-rejected")
		return
	}
	evals, _, eclass, epanic := EvalGlobals(src)
	nontrivial := strings.Contains(src, "while") || strings.Contains(src, "for ") || strings.Contains(src, "if ")
	r.Count("prog:"+src, nontrivial)
	r.Hist("diff", "compared")
	r.Hist("eval-class", eclass)
	if eclass == "timeout" {
		return
	}
	kc := c16KnownClass(src)
	vmErr := cr.RunErr
	if cr.GoPanic != "" {
		vmErr = "gopanic: " + cr.GoPanic
	}
	real := fmt.Sprintf("vm: err=%q globals=%v | evaluator: class=%s %s globals=%v", vmErr, cr.Globals, eclass, epanic, evals)
	fail := func(note string) {
		if kc != "" {
			r.KnownSeen[kc]++
			if known[kc] {
				return
			}
			r.Violation(Case{Stream: stream, Input: src, Real: real, Spec: note, Known: kc})
			return
		}
		r.Violation(Case{Stream: stream, Input: src, Real: real, Spec: note})
	}
	switch {
	case cr.GoPanic != "":
		fail("VM crashed the host")
	case strings.Contains(vmErr, "division by zero"):
		// division or modulo by zero is an error on the VM only (allowed by the property)
		r.Hist("diff", "vm-divzero")
		return
	case eclass == "ok" && vmErr != "":
		fail("evaluator completes, VM fails")
	case eclass != "ok" && vmErr == "":
		fail("evaluator fails with " + eclass + ", VM completes")
	case eclass != "ok" && vmErr != "":
		// both fail: corresponding error class
		if !c16SameErr(eclass, vmErr) {
			fail("different run-time errors")
		}
	default:
		for name, ev := range evals {
			if name == "err" || name == "errmsg" || name == "pi" {
				continue
			}
			vv, ok := cr.Globals[name]
			if !ok {
				continue
			}
			if vmMapNorm(vv) != ev {
				fail(fmt.Sprintf("global %s: VM %q, evaluator %q", name, vmMapNorm(vv), ev))
				return
			}
		}
	}
}

func c16SameErr(eclass, vmErr string) bool {
	switch eclass {
	case "panic:bounds":
		return strings.Contains(vmErr, "index out of bounds")
	case "panic:indexValue":
		return strings.Contains(vmErr, "index not an integer")
	case "panic:mapKey":
		return strings.Contains(vmErr, "no value for map key")
	case "panic:slice":
		return strings.Contains(vmErr, "invalid slice")
	case "panic:badRepetition":
		return strings.Contains(vmErr, "bad repetition")
	}
	return strings.Contains(vmErr, "division by zero")
}

func c16Unsupported() []string {
	return []string{
		"x:num\nx = 1\n",
		"func f\n    x := 1\n    x = x\nend\n",
		"func f:num\n    return 1\nend\nx := f\nx = x\n",
		"m := {a:1}\nx := m.a\nx = x\n",
		"m := {a:1}\nm.a = 2\n",
		"x := true and false\nx = x\n",
		"x := true or false\nx = x\n",
		"a := [1 \"a\"]\na = a\n",
		"a:any\na = 1\nx := a.(num)\nx = x\n",
	}
}

// c16Aliasing: fresh-container and sharing patterns: a container built by one operation is used
// by two later operations / updated through one name and observed through another.
func c16Aliasing() []string {
	mk := []string{"[1 2 3] + [4 5]", "[1 2 3 4 5][0:3]", "[1 2] * 2", "[1 2 3]", "([0] + [1 2])[1:]"}
	derive := []string{"a + [6]", "a[0:2]", "a * 2", "a", "a + a", "[9] + a"}
	var out []string
	for _, m := range mk {
		for _, d1 := range derive {
			for _, d2 := range derive {
				src := "a := " + m + "\nb := " + d1 + "\nc := " + d2 + "\nb[0] = 70\nc[1] = 80\na[1] = 90\nd := a + b + c\ne := b + [7]\nf := b + [8]\na = a\nb = b\nc = c\nd = d\ne = e\nf = f\n"
				out = append(out, src)
			}
		}
	}
	// nested arrays: sharing of inner arrays
	out = append(out, "i := [1 2]\nn := [i i]\ni[0] = 5\nm := n + [[3]]\nn[1][1] = 6\ni = i\nn = n\nm = m\n")
	return out
}

// c16LiteralPrograms: literals of different types whose printed forms coincide, and literals equal to the hidden
// constants of loops (the iteration index 0, the step 1).
func c16LiteralPrograms() []string {
	return []string{
		"a := 2\nb := \"2\"\nc := 2\nd := \"2\"\na = a\nb = b\nc = c\nd = d\n",
		"a := \"7\"\nb := 7\ns := a + \"x\"\nn := b + 1\ns = s\nn = n\n",
		"t := true\ns := \"true\"\nf := \"false\"\ng := false\nt = t\ns = s\nf = f\ng = g\n",
		"z := \"0\"\none := \"1\"\nx := 0\nfor i := range 3\n    x = x + i\nend\nfor c := range \"ab\"\n    z = z + c\nend\nfor e := range [5 6]\n    x = x + e\nend\nz = z\none = one\nx = x\n",
		"a := [1 2]\nb := \"[1 2]\"\nc := 1.5\nd := \"1.5\"\na = a\nb = b\nc = c\nd = d\n",
		"e := \"\"\nf := \" \"\ng := 0\nh := \"0\"\ne = e + h\nf = f\ng = g + 0\n",
		"a := [1 2]\nx := a * 4611686018427387904\nx = x\n", "a := [1 2 3 4 5 6 7 8]\nx := a * 1152921504606846976\nx = x\n", "a := [1 2 3]\nx := a * 3074457345618258603\nx = x\n", "a := [1 2]\nx := a * 9223372036854775807\nx = x\n", "a := [1]\nx := a * 9223372036854775808\nx = x\n",
		"m := {x:1}\nn := {x:1 y:2}\ne := {}\na := m == n\nb := n == m\nc := m != n\nd := e == m\nf := [m] == [n]\ng := {k:m} != {k:n}\na = a\nb = b\nc = c\nd = d\nf = f\ng = g\n",
		"m := {x:1}\nn := {x:1 y:2}\ncnt := 0\nfor i := range 10\n    if m == n\n        cnt = cnt + 1\n    end\n    if m != n\n        cnt = cnt + 10\n    end\nend\ncnt = cnt\n",
		"a := {x:1}\nb := {x:1 y:2}\neq := a == b\nne := a != b\neq = eq\nne = ne\n", "a := {x:1 y:2}\nb := {x:1}\neq := a == b\nne := a != b\neq = eq\nne = ne\n",
		"a := {x:1}\nb := {x:1 y:2}\nn := 0\nif a == b\n    n = 1\nelse\n    n = 10\nend\nn = n\n", "a := {x:1}\nb := {x:1}\nb.y = 2\nm := [a] == [b]\nm = m\n",
		// NaN and the infinities as operands of every comparison (no library call yields them on the VM: overflow, then Inf - Inf)
		"x := 10\nfor range 12\n    x = x * x\nend\nnan := x - x\nninf := 0 - x\nr0 := nan < 1\nr1 := 1 < nan\nr2 := nan < nan\nr3 := nan < x\nr4 := x < nan\nr5 := ninf < nan\nr6 := x < x\nr7 := ninf < x\nr8 := nan <= 1\nr9 := 1 <= nan\nr10 := nan <= nan\nr11 := nan <= x\nr12 := x <= nan\nr13 := ninf <= nan\nr14 := x <= x\nr15 := ninf <= x\nr16 := nan > 1\nr17 := 1 > nan\nr18 := nan > nan\nr19 := nan > x\nr20 := x > nan\nr21 := ninf > nan\nr22 := x > x\nr23 := ninf > x\nr24 := nan >= 1\nr25 := 1 >= nan\nr26 := nan >= nan\nr27 := nan >= x\nr28 := x >= nan\nr29 := ninf >= nan\nr30 := x >= x\nr31 := ninf >= x\nr32 := nan == 1\nr33 := 1 == nan\nr34 := nan == nan\nr35 := nan == x\nr36 := x == nan\nr37 := ninf == nan\nr38 := x == x\nr39 := ninf == x\nr40 := nan != 1\nr41 := 1 != nan\nr42 := nan != nan\nr43 := nan != x\nr44 := x != nan\nr45 := ninf != nan\nr46 := x != x\nr47 := ninf != x\nr0 = r0\nr1 = r1\nr2 = r2\nr3 = r3\nr4 = r4\nr5 = r5\nr6 = r6\nr7 = r7\nr8 = r8\nr9 = r9\nr10 = r10\nr11 = r11\nr12 = r12\nr13 = r13\nr14 = r14\nr15 = r15\nr16 = r16\nr17 = r17\nr18 = r18\nr19 = r19\nr20 = r20\nr21 = r21\nr22 = r22\nr23 = r23\nr24 = r24\nr25 = r25\nr26 = r26\nr27 = r27\nr28 = r28\nr29 = r29\nr30 = r30\nr31 = r31\nr32 = r32\nr33 = r33\nr34 = r34\nr35 = r35\nr36 = r36\nr37 = r37\nr38 = r38\nr39 = r39\nr40 = r40\nr41 = r41\nr42 = r42\nr43 = r43\nr44 = r44\nr45 = r45\nr46 = r46\nr47 = r47\n",
		"x := 10\nfor range 12\n    x = x * x\nend\nnan := x - x\nninf := 0 - x\nc := 0\nif nan < 1\n    c = c + 1\nend\nif nan <= nan\n    c = c + 10\nend\nif 1 >= nan\n    c = c + 100\nend\nif nan > x\n    c = c + 1000\nend\nwhile nan < c\n    c = c + 1\nend\nc = c\n",
		"s := \"1\"\nn := 1 + 2\ns = s\nn = n\n",
		"n := 1 + 2\ns := \"1\" + \"2\"\ns = s\nn = n\n",
		"z := \"0\"\nx := 0\nfor e := range [5 6]\n    x = x + e\nend\nz = z\nx = x\n",
		"z := \"0\"\nx := \"\"\nfor c := range \"ab\"\n    x = x + c\nend\nz = z\nx = x\n",
		"z := \"0\"\nx := \"\"\nm := {a:1 b:2}\nfor k := range m\n    x = x + k\nend\nz = z\nx = x\n",
		"z := \"1\"\nx := 0\nfor i := range 3\n    x = x + i\nend\nz = z\nx = x\n",
		"m := {a:1}\nk := \"a\"\nx := m[k] + m.a\nm.a = 5\nx = x + m[\"a\"]\nx = x\n",
		"t := \"true\"\nx := 0\nif true\n    x = 1\nend\nwhile x < 2\n    x = x + 1\nend\nt = t\nx = x\n",
	}
}
