package hx

import (
	"fmt"
	"math/rand"
	"os"
	"path/filepath"
	"regexp"
	"strconv"
	"strings"
	"time"

	"evylang.dev/evy/pkg/evaluator"
)

// evalStream runs one program through the real evaluator and the Lean model and files the
// outcome under the report. The Lean evaluator model is the executable specification of the
// language semantics (docs/spec.md; repaired defects are repaired in the model too), so a
// disagreement on the observables a property names is a violation of that property with the
// program as failing input. `oracle` adds property-specific direct checks on the real run.
func evalStream(r *Report, d *Driver, stream, src string, o RunOpts, parts []string, nontrivial bool, oracle func(c *EvalCmp) string) *EvalCmp {
	if os.Getenv("VERIF_TRACE") != "" {
		fmt.Fprintf(os.Stderr, "---- %s\n%s\n", stream, src)
	}
	c := CompareEval(d, src, o)
	if c.Skipped != "" {
		r.Hist("skipped", c.Skipped)
		return &c
	}
	key := src
	if o.StopAt != 0 || len(o.Events) > 0 || len(o.Input) > 0 {
		key = fmt.Sprintf("%s|%d|%v|%v", src, o.StopAt, o.Events, o.Input)
	}
	r.Count(stream+":"+key, nontrivial)
	r.Hist("outcome", c.Real.Class)
	if c.Model.Err != "" {
		r.Disagree(Case{Stream: stream, Input: src, Real: c.Real.Class, Model: "model error: " + c.Model.Err})
		return &c
	}
	if c.Real.Class == "parse-gopanic" {
		// a parser crash is a C03 matter (parsing is total); for the other properties the program
		// was not accepted, so it is outside their quantifier
		if r.Property == "C03" || r.Property == "C04" || r.Property == "C05" {
			r.Violation(Case{Stream: stream, Input: src, Real: c.RealObs, Spec: "the parser does not crash"})
		} else {
			r.Hist("skipped", "parse-gopanic")
		}
		return &c
	}
	real, model := c.Obs(parts...)
	if len(r.Samples) < 5 {
		r.Sample(map[string]string{"program": src, "real": trunc(real, 300), "model": trunc(model, 300)}, 5)
	}
	if oracle != nil {
		if note := oracle(&c); note != "" {
			r.Violation(Case{Stream: stream, Input: src, Real: trunc(real, 2000), Model: trunc(model, 2000), Spec: note})
			return &c
		}
	}
	if real != model {
		r.Violation(Case{Stream: stream, Input: src, Real: trunc(real, 2000), Model: trunc(model, 2000), Spec: DiffAt(real, model),
			Note: optsNote(o)})
	}
	return &c
}

func optsNote(o RunOpts) string {
	s := ""
	if o.StopAt != 0 {
		s += fmt.Sprintf("stopAt=%d ", o.StopAt)
	}
	if len(o.Events) > 0 {
		s += fmt.Sprintf("events=%v ", o.Events)
	}
	if len(o.Input) > 0 {
		s += fmt.Sprintf("input=%q ", o.Input)
	}
	return s
}

func trunc(s string, n int) string {
	if len(s) > n {
		return s[:n] + "…"
	}
	return s
}

// documented outcome classes (C02)
func documentedClass(c string) bool {
	return c == "ok" || c == "testfail" || c == "stopped" || strings.HasPrefix(c, "panic:") || strings.HasPrefix(c, "exit:") || c == "timeout"
}

// ---------------------------------------------------------------------------------------------
// C01 expressions

type xt struct {
	kind string // lit var un bin grp
	op   string
	text string
	l, r *xt
	ty   string // num bool str nums
}

var c01Prec = map[string]int{"or": 1, "and": 2, "==": 3, "!=": 3, "<": 4, "<=": 4, ">": 4, ">=": 4, "+": 5, "-": 5, "*": 6, "/": 6, "%": 6}

func genXT(rng *rand.Rand, ty string, d int) *xt {
	if d <= 0 || rng.Intn(5) == 0 {
		switch ty {
		case "num":
			if rng.Intn(3) == 0 {
				return &xt{kind: "var", text: []string{"n1", "n2"}[rng.Intn(2)], ty: ty}
			}
			if rng.Intn(4) == 0 {
				return &xt{kind: "idx", text: []string{"a1[0]", "a1[1]", "a1[-1]", "m1.k", "m1[\"k\"]", "a1[n1 - 3]"}[rng.Intn(6)], ty: ty}
			}
			v := []string{"0", "1", "2", "3", "7", "0.5", "10", "2.25", "100", "9007199254740993", "0.1"}[rng.Intn(11)]
			return &xt{kind: "lit", text: v, ty: ty}
		case "bool":
			if rng.Intn(3) == 0 {
				return &xt{kind: "var", text: []string{"b1", "b2"}[rng.Intn(2)], ty: ty}
			}
			return &xt{kind: "lit", text: []string{"true", "false"}[rng.Intn(2)], ty: ty}
		case "str":
			if rng.Intn(3) == 0 {
				return &xt{kind: "var", text: "s1", ty: ty}
			}
			return &xt{kind: "lit", text: []string{`""`, `"a"`, `"ab"`, `"b"`, `"é"`, `"Zz"`}[rng.Intn(6)], ty: ty}
		case "nums":
			if rng.Intn(2) == 0 {
				return &xt{kind: "var", text: "a1", ty: ty}
			}
			return &xt{kind: "lit", text: []string{"[1 2]", "[3]", "[1 2 3]", "[0.5 n1]"}[rng.Intn(4)], ty: ty}
		}
	}
	if rng.Intn(7) == 0 {
		return &xt{kind: "grp", l: genXT(rng, ty, d-1), ty: ty}
	}
	switch ty {
	case "num":
		if rng.Intn(6) == 0 {
			return &xt{kind: "un", op: "-", l: genXT(rng, "num", d-1), ty: ty}
		}
		op := []string{"+", "-", "*", "/", "%"}[rng.Intn(5)]
		return &xt{kind: "bin", op: op, l: genXT(rng, "num", d-1), r: genXT(rng, "num", d-1), ty: ty}
	case "bool":
		switch rng.Intn(6) {
		case 0:
			return &xt{kind: "un", op: "!", l: genXT(rng, "bool", d-1), ty: ty}
		case 1, 2:
			op := []string{"and", "or"}[rng.Intn(2)]
			return &xt{kind: "bin", op: op, l: genXT(rng, "bool", d-1), r: genXT(rng, "bool", d-1), ty: ty}
		case 3:
			t := []string{"num", "bool", "str", "nums"}[rng.Intn(4)]
			op := []string{"==", "!="}[rng.Intn(2)]
			return &xt{kind: "bin", op: op, l: genXT(rng, t, d-1), r: genXT(rng, t, d-1), ty: ty}
		case 4:
			op := []string{"<", "<=", ">", ">="}[rng.Intn(4)]
			return &xt{kind: "bin", op: op, l: genXT(rng, "str", d-1), r: genXT(rng, "str", d-1), ty: ty}
		}
		op := []string{"<", "<=", ">", ">="}[rng.Intn(4)]
		return &xt{kind: "bin", op: op, l: genXT(rng, "num", d-1), r: genXT(rng, "num", d-1), ty: ty}
	case "str":
		return &xt{kind: "bin", op: "+", l: genXT(rng, "str", d-1), r: genXT(rng, "str", d-1), ty: ty}
	case "nums":
		if rng.Intn(3) == 0 {
			return &xt{kind: "bin", op: "*", l: genXT(rng, "nums", d-1), r: &xt{kind: "lit", text: strconv.Itoa(rng.Intn(3)), ty: "num"}, ty: ty}
		}
		return &xt{kind: "bin", op: "+", l: genXT(rng, "nums", d-1), r: genXT(rng, "nums", d-1), ty: ty}
	}
	return &xt{kind: "lit", text: "0", ty: "num"}
}

// render with exactly the parentheses that precedence and left associativity require, in a random
// legal layout; returns the source and the expected tree in the serialiser's wire form.
func (e *xt) render(rng *rand.Rand, parentPrec int, right bool, tight bool) (string, string) {
	switch e.kind {
	case "lit":
		return e.text, litWire(e.text, e.ty)
	case "var":
		return e.text, "(V " + ss(e.text) + ")"
	case "idx":
		return e.text, idxWire(e.text)
	case "grp":
		s, w := e.l.render(rng, 0, false, false)
		return "(" + s + ")", "(GRP " + w + ")"
	case "un":
		s, w := e.l.render(rng, 7, false, tight)
		return e.op + s, "(UN " + e.op + " " + w + ")"
	}
	p := c01Prec[e.op]
	ls, lw := e.l.render(rng, p, false, tight)
	rs, rw := e.r.render(rng, p, true, tight)
	var s string
	if tight && (e.op == "and" || e.op == "or") {
		// and/or need whitespace: cannot appear in a whitespace-sensitive position ungrouped
		s = "(" + ls + " " + e.op + " " + rs + ")"
		return s, "(GRP (BIN " + e.op + " " + lw + " " + rw + "))"
	}
	if strings.HasPrefix(rs, "-") && (tight || rng.Intn(2) == 0) {
		rs = "(" + rs + ")"
		rw = "(GRP " + rw + ")"
	}
	sp := " "
	switch {
	case tight:
		sp = ""
	case e.op == "and" || e.op == "or" || strings.HasPrefix(rs, "-"):
		sp = strings.Repeat(" ", 1+rng.Intn(2))
	case rng.Intn(4) == 0:
		sp = ""
	default:
		sp = strings.Repeat(" ", 1+rng.Intn(2))
	}
	s = ls + sp + e.op + sp + rs
	w := "(BIN " + e.op + " " + lw + " " + rw + ")"
	if p < parentPrec || (p == parentPrec && right) {
		return "(" + s + ")", "(GRP " + w + ")"
	}
	return s, w
}

func idxWire(text string) string {
	switch text {
	case "a1[0]":
		return "(IDX (V " + ss("a1") + ") (N n" + FHex(0) + "))"
	case "a1[1]":
		return "(IDX (V " + ss("a1") + ") (N n" + FHex(1) + "))"
	case "a1[-1]":
		return "(IDX (V " + ss("a1") + ") (UN - (N n" + FHex(1) + ")))"
	case "m1.k":
		return "(DOT (V " + ss("m1") + ") " + ss("k") + ")"
	case "m1[\"k\"]":
		return "(IDX (V " + ss("m1") + ") (S " + ss("k") + "))"
	}
	return "(IDX (V " + ss("a1") + ") (BIN - (V " + ss("n1") + ") (N n" + FHex(3) + ")))"
}

func litWire(text, ty string) string {
	switch ty {
	case "num":
		f, _ := strconv.ParseFloat(text, 64)
		return "(N n" + FHex(f) + ")"
	case "bool":
		if text == "true" {
			return "(B t)"
		}
		return "(B f)"
	case "str":
		u, _ := strconv.Unquote(text)
		return "(S " + ss(u) + ")"
	}
	// array literal of numbers / n1
	inner := strings.Fields(strings.Trim(text, "[]"))
	var el []string
	for _, x := range inner {
		if x == "n1" {
			el = append(el, "(V "+ss("n1")+")")
		} else {
			f, _ := strconv.ParseFloat(x, 64)
			el = append(el, "(N n"+FHex(f)+")")
		}
	}
	return "(ARR " + strings.Join(el, " ") + ")"
}

const c01Prelude = "n1 := 3\nn2 := 0.5\nb1 := true\nb2 := false\ns1 := \"abc\"\na1 := [4 5]\nm1 := {k:6}\n"
const c01Uses = "print n1 n2 b1 b2 s1 a1 m1\n"

// RunC01 : expression grouping (parser tree vs the specification's precedence/associativity),
// expression values and evaluation order.
func RunC01(d *Driver) *Report {
	r := NewReport("C01")
	rng := Rng()
	n := 4000
	if Thorough() {
		n = 80000
	}
	r.Rule = fmt.Sprintf("%d random expression trees (depth <= 5) over all binary and unary operators and operand types num/bool/string/array with IEEE edge operands, written with exactly the parentheses the specification's precedence levels and left associativity require, in random legal whitespace layouts and in whitespace-sensitive positions (print arguments, array elements): the real parser's tree is compared with the intended tree, and the printed value and error class with the Lean evaluator model; plus systematic evaluation-order programs (every construct with two or more sub-expressions, operands with observable side effects). Non-trivial = distinct expression with at least one operator", n)
	parts := []string{"class", "trace"}
	for i := 0; i < n; i++ {
		ty := []string{"num", "bool", "str", "nums"}[rng.Intn(4)]
		e := genXT(rng, ty, 1+rng.Intn(5))
		tight := rng.Intn(3) == 0
		var src, want string
		es, ew := e.render(rng, 0, false, tight)
		if tight {
			// whitespace sensitive position: an argument of print / an array element next to other
			// elements, the following one starting with a unary minus
			switch rng.Intn(4) {
			case 0:
				src = c01Prelude + "print 1 " + es + " 2\n" + c01Uses
			case 1:
				src = c01Prelude + "print " + es + " -n1 -1\n" + c01Uses
			case 2:
				src = c01Prelude + "print (len [" + es + " -n1 -1 7]) [" + es + " -n1]\n" + c01Uses
			default:
				src = c01Prelude + "print " + es + " [1] (-n2) " + es + "\n" + c01Uses
			}
		} else {
			src = c01Prelude + "x := " + es + "\nprint x\n" + c01Uses
		}
		want = ew
		c := evalStream(r, d, "expr", src, RunOpts{}, parts, e.kind == "bin" || e.kind == "un", nil)
		r.Hist("type", ty)
		if c.Skipped == "rejected" {
			r.Violation(Case{Stream: "expr-parse", Input: src, Real: "rejected: " + c.Real.ParseErr, Spec: "a well-typed expression in a legal layout is accepted"})
			continue
		}
		if c.Ser != "" && !strings.Contains(c.Ser, want) {
			r.Violation(Case{Stream: "expr-parse", Input: src, Real: c.Ser, Spec: "expression tree per spec precedence/associativity: " + want})
		}
	}
	// the Pratt parser model against the real parser
	npratt := c01Pratt(r, d, rng, 2*n)
	r.Rule += fmt.Sprintf("; Pratt model: %d accepted expression texts with parentheses placed at random (all binary and unary operators, groups, indexing; depth <= 6), the real parser's tree against the tree Model/Pratt.lean returns for the same token kinds", npratt)
	nprattw := c01PrattW(r, d, rng, 2*n)
	r.Rule += fmt.Sprintf("; Pratt model with whitespace: %d random layouts of such texts after `x :=`, as arguments of print and as array elements — accepted or rejected alike, and the trees of all arguments / elements equal to what Model/PrattW.lean returns for the flagged tokens", nprattw)
	// whitespace separates the arguments of a call and the elements of an array literal (spec.md,
	// Whitespace, rules 4 and 5), whatever expression form stands before the space: metamorphic oracle —
	// `print P N` prints what `print P` and `print N` print, `[P N]` has two elements
	{
		pre := "a := [10 20 30]\ns := \"abc\"\nm := {k:5}\ny:any\ny = 7\nn := 2\nb := true\nfunc f:num x:num\n    return x + 1\nend\n"
		use := "print a s m y n b (f 1)\n"
		firsts := []string{"a[0]", "a[0:1]", "a[:1]", "a[1:]", "a[n:]", "s[1:]", "s[0]", "s[:n]", "m.k", "m[\"k\"]", "y.(num)", "(f 1)", "[1 2]", "{k:1}", "\"s\"", "3", "n", "a", "(a[1:])", "a[1:][0]", "a[0:2][1:]"}
		nexts := []string{"-3", "-n", "[0]", "(n)", "\"z\"", "!b", "-a[0]", "[n]"}
		out := func(src string) (string, bool) {
			res, _, _ := RunReal(src, RunOpts{})
			if res.Class != "ok" {
				return res.Class + " " + res.ParseErr + res.ErrText, false
			}
			return strings.TrimRight(res.Out, "\n"), true
		}
		nws := 0
		for _, p1 := range firsts {
			o1, ok1 := out(pre + "print " + p1 + "\n" + use)
			for _, nx := range nexts {
				o2, ok2 := out(pre + "print " + nx + "\n" + use)
				if !ok1 || !ok2 {
					r.Disagree(Case{Stream: "wss-separation", Input: p1 + " | " + nx, Real: o1 + " / " + o2, Note: "harness operand should evaluate"})
					continue
				}
				l1, l2 := strings.SplitN(o1, "\n", 2)[0], strings.SplitN(o2, "\n", 2)[0]
				for _, form := range []string{"print %s %s", "print 0 %s %s 1"} {
					src := pre + fmt.Sprintf(form, p1, nx) + "\n" + use
					got, ok := out(src)
					want := l1 + " " + l2
					if strings.HasPrefix(form, "print 0") {
						want = "0 " + want + " 1"
					}
					nws++
					r.Count("wss:"+src, true)
					if !ok || strings.SplitN(got, "\n", 2)[0] != want {
						r.Violation(Case{Stream: "wss-separation", Input: src, Real: strings.SplitN(got, "\n", 2)[0], Spec: "whitespace separates arguments: the line prints `" + want + "`"})
					}
				}
				src := pre + "x := [" + p1 + " " + nx + "]\nprint (len x)\n" + use
				got, ok := out(src)
				nws++
				r.Count("wss:"+src, true)
				if !ok || strings.SplitN(got, "\n", 2)[0] != "2" {
					r.Violation(Case{Stream: "wss-separation", Input: src, Real: strings.SplitN(got, "\n", 2)[0], Spec: "whitespace separates the elements of an array literal: two elements"})
				}
				// the value of a map literal's pair ends at the whitespace (rule 6), also inside a call in a group
				for _, form := range []string{"x2 := {p:%s q:%s}\nprint (len x2) x2.q\n", "x2 := [(len [%s %s])]\nprint x2[0] (len [%s])\n"} {
					var src2, want string
					if strings.HasPrefix(form, "x2 := {") {
						src2 = pre + fmt.Sprintf(form, p1, nx) + use
						want = "2 " + l2
					} else {
						src2 = pre + fmt.Sprintf(form, p1, nx, nx) + use
						want = "2 1"
					}
					got2, ok2 := out(src2)
					nws++
					r.Count("wss:"+src2, true)
					if !ok2 || strings.SplitN(got2, "\n", 2)[0] != want {
						r.Violation(Case{Stream: "wss-separation", Input: src2, Real: strings.SplitN(got2, "\n", 2)[0], Spec: "whitespace ends the value of a map pair / separates call arguments inside a group: the line prints `" + want + "`"})
					}
				}
			}
		}
		r.Rule += fmt.Sprintf("; whitespace separation: %d programs = 21 expression forms (index, slices, field, type assertion, call, literals, variables) x 8 following operands (unary minus, index-like, group, string, not) in argument, array-element, map-value and nested-call position, metamorphic oracle on the real code", nws)
	}
	// the documented meaning of index and slice expressions on array and string operands, negative
	// positions counting from the end (spec.md: -i means (len s) - i), every bound missing or present
	nacc := 0
	for _, decl := range []string{"s := [10 20 30]", "s := [7]", "s:[]num", "s := \"aé世\"", "s := \"\"", "s := [[1] [2 3] []]"} {
		for i := -5; i <= 5; i++ {
			src := decl + "\nprint s[" + strconv.Itoa(i) + "]\n"
			evalStream(r, d, "access", src, RunOpts{}, parts, true, nil)
			nacc++
		}
		bounds := []string{""}
		for i := -4; i <= 4; i++ {
			bounds = append(bounds, strconv.Itoa(i))
		}
		for _, a := range bounds {
			for _, b := range bounds {
				src := decl + "\nprint s[" + a + ":" + b + "] (len s[" + a + ":" + b + "])\n"
				evalStream(r, d, "access", src, RunOpts{}, parts, true, nil)
				nacc++
			}
		}
	}
	r.Rule += fmt.Sprintf("; access: %d index and slice expressions (arrays, nested arrays, ASCII and non-ASCII strings of length 0..3; every position in [-5,5], every pair of bounds in [-4,4] or missing) against the Lean evaluator model", nacc)
	// the documented meaning of `+` and `*` on array operands: concatenation makes a fresh array whose elements are
	// shared, repetition copies deeply — also composites held in an any element, at any depth
	for _, src := range []string{
		"inner := [1]\na := [inner \"x\"] * 2\ninner[0] = 9\nprint a\na[0] = 5\nprint a inner\n",
		"m := {k:1}\na := [m 1] * 2\nm.k = 5\nprint a m\n",
		"inner := [1]\nw:any\nw = inner\na := [w] * 3\ninner[0] = 7\nprint a w\n",
		"inner := [[1] [2]]\nx:any\nx = inner\na := [x x] * 2\ninner[0][0] = 9\nprint a x\nt := a[0].([][]num)\nt[1][0] = 8\nprint a\n",
		"deep := {a:[{b:[1]}]}\nr := [deep] * 2\nq := [deep 1] * 2\nprint r q\nt := q[0].({}[]{}[]num)\nt.a[0].b[0] = 9\nprint r q deep\n",
		"inner := [1]\nc := [inner \"x\"] + [inner \"y\"]\ninner[0] = 9\nprint c\nd := c * 1\ninner[0] = 4\nprint c d\n",
		"a := [1 2] * 0\nb := [[1]] * 1\nc := [\"a\"] * 3\nd := [] * 5\nprint a b c d (len c) (typeof d)\n",
		"n := 2\ns := [n n+1] * n\nprint s (s == [2 3 2 3]) ([1] * 2 == [1 1]) ([[1]] * 2 == [[1] [1]])\n",
	} {
		if c := evalStream(r, d, "array-operators", src, RunOpts{}, parts, true, nil); c.Skipped == "rejected" {
			r.Disagree(Case{Stream: "array-operators", Input: src, Real: "rejected: " + c.Real.ParseErr, Note: "harness program should be accepted"})
		}
	}
	// evaluation order and short circuit
	for _, src := range c01OrderPrograms() {
		c := evalStream(r, d, "order", src, RunOpts{}, parts, true, nil)
		if c.Skipped == "rejected" {
			r.Disagree(Case{Stream: "order", Input: src, Real: "rejected: " + c.Real.ParseErr, Note: "harness program should be accepted"})
		}
	}
	r.DriverCalls = d.N
	return r
}

func c01OrderPrograms() []string {
	pre := "func n:num s:string v:num\n    print \"eval\" s\n    return v\nend\nfunc b:bool s:string v:bool\n    print \"eval\" s\n    return v\nend\nfunc t:string s:string\n    print \"eval\" s\n    return s\nend\nfunc a:[]num s:string\n    print \"eval\" s\n    return [1 2 3]\nend\nfunc three x:num y:num z:num\n    print x y z\nend\n"
	var out []string
	add := func(body string) { out = append(out, pre+body) }
	for _, op := range []string{"+", "-", "*", "/", "%", "<", "<=", ">", ">=", "==", "!="} {
		add("print ((n \"L\" 6) " + op + " (n \"R\" 4))\n")
		if len(op) == 1 && op != "<" && op != ">" {
			add("x := (n \"L\" 6) " + op + " (n \"M\" 4) " + op + " (n \"R\" 2)\nprint x\n")
		}
	}
	for _, l := range []string{"true", "false"} {
		for _, r := range []string{"true", "false"} {
			for _, op := range []string{"and", "or"} {
				add("print ((b \"L\" " + l + ") " + op + " (b \"R\" " + r + "))\n")
				for _, m := range []string{"true", "false"} {
					for _, op2 := range []string{"and", "or"} {
						add("x := (b \"L\" " + l + ") " + op + " (b \"M\" " + m + ") " + op2 + " (b \"R\" " + r + ")\nprint x\n")
					}
				}
			}
		}
	}
	add("print ((t \"L\") + (t \"R\")) ((t \"L2\") < (t \"R2\"))\n")
	add("three (n \"1\" 1) (n \"2\" 2) (n \"3\" 3)\n")
	add("x := [(n \"1\" 1) (n \"2\" 2) (n \"3\" 3)]\nprint x\n")
	add("x := {c:(n \"c\" 1) a:(n \"a\" 2) b:(n \"b\" 3) z:(n \"z\" 4) y:(n \"y\" 5) k:(n \"k\" 6)}\nprint x\n")
	// a map literal's values are evaluated in source order, whatever the number of pairs (the host's own map
	// has no order: 2, 9, 12 and 26 pairs, and the same literal evaluated again and again)
	for _, keys := range []string{"ba", "ihgfedcba", "lkjihgfedcba", "zyxwvutsrqponmlkjihgfedcba"} {
		lit, lit2 := "{", "{"
		for i, k := range keys {
			if i > 0 {
				lit += " "
				lit2 += " "
			}
			lit += fmt.Sprintf("%c:(n \"%c\" %d)", k, k, i)
			lit2 += fmt.Sprintf("%c:(nx)", k)
		}
		lit += "}"
		lit2 += "}"
		add("x := " + lit + "\nprint x\n")
		add("cnt := 0\nfunc nx:num\n    cnt = cnt + 1\n    return cnt\nend\nfor i := range 6\n    x := " + lit2 + "\n    print i x\nend\n")
	}
	add("x := (a \"arr\")[(n \"idx\" 1)]\nprint x\n")
	add("x := (a \"arr\")[(n \"lo\" 0):(n \"hi\" 2)]\nprint x\n")
	add("y := [0 0 0]\ny[(n \"idx\" 1)] = (n \"val\" 9)\nprint y\n")
	add("m := {a:1}\nm[(t \"key\")] = (n \"val\" 9)\nprint m\n")
	add("x := (a \"L\") + (a \"R\")\nprint x\n")
	add("x := (a \"L\") * (n \"R\" 2)\nprint x\n")
	add("x := -(n \"u\" 1) + (n \"v\" 2)\nprint x\n")
	add("print (n \"1\" 1) (t \"2\") (b \"3\" true)\n")
	add("for i := range (n \"start\" 0) (n \"stop\" 2) (n \"step\" 1)\n    print i\nend\n")
	add("x := (n \"1\" 1) == (n \"2\" 1) and (b \"3\" false) or (n \"4\" 2) < (n \"5\" 3)\nprint x\n")
	// deep equality, also through any
	vals := []string{"1", "\"a\"", "true", "[1 2]", "[1 3]", "[]", "[[1] [2]]", "{a:1}", "{b:1}", "{a:1 b:2}", "{b:2 a:1}", "{a:1 c:2}", "{a:3 c:2}", "{}", "[1 \"a\"]", "[[1] \"a\"]", "{a:[1] b:2}", "[{a:1}]"}
	for _, v := range vals {
		for _, w := range vals {
			add("x:any\ny:any\nx = " + v + "\ny = " + w + "\nprint (x == y) (x != y) (typeof x) (typeof y)\n")
		}
		add("p := " + v + "\nq := " + v + "\nprint (p == q) (p != q) (p == " + v + ")\nprint ([p] == [q]) ({k:p} == {k:q})\n")
	}
	return out
}

// ---------------------------------------------------------------------------------------------
// C02 soundness

// RunC02 : accepted programs never go wrong.
func RunC02(d *Driver) *Report {
	r := NewReport("C02")
	rng := Rng()
	n := 3000
	if Thorough() {
		n = 60000
	}
	r.Rule = fmt.Sprintf("%d type-directed generated programs using all statement and expression forms, functions, any, maps, strings (non-ASCII), builtins and tests with IEEE special values, plus every builtin applied to tuples of value classes; each accepted program is run on the real evaluator (outcome must be a documented class; no internal error, no Go panic) and compared with the Lean model (class, printed text incl. typeof output, globals). Non-trivial = distinct accepted program", n)
	parts := []string{"class", "trace", "globals"}
	oracle := func(c *EvalCmp) string {
		if !documentedClass(c.Real.Class) {
			return "outcome must be completion, an evy panic, exit, failed test or stop — got " + c.Real.Class + " " + c.Real.GoPanic + c.Real.ErrText
		}
		return ""
	}
	o := GenOpts{Funcs: true, Any: true, Maps: true, Strings: true, Builtins: true, Tests: true, NonAscii: true, Special: true}
	for i := 0; i < n; i++ {
		g := NewProgGen(rng, o)
		src := g.Program()
		evalStream(r, d, "programs", src, RunOpts{}, parts, true, oracle)
		if i == 0 {
			r.Info["features"] = g.Feat
		}
	}
	for _, src := range builtinSweep(rng, Thorough()) {
		evalStream(r, d, "builtins", src, RunOpts{}, parts, true, oracle)
	}
	for _, src := range c02Fixed() {
		if c := evalStream(r, d, "fixed", src, RunOpts{}, parts, true, oracle); c.Skipped == "rejected" {
			r.Disagree(Case{Stream: "fixed", Input: src, Real: "rejected: " + c.Real.ParseErr, Note: "harness program should be accepted"})
		}
	}
	// every shape of a typed function's body (each branch of an if / else-if / else chain returning or not,
	// loops, nesting): whatever the parser accepts is called so that each branch is taken, and the result
	// used as a value of the declared type
	for _, b := range c05Bodies() {
		for _, v := range []string{"1", "-1", "0"} {
			src := "a := " + v + "\nfunc f:num\n" + indent(b, 1) + "end\nx := (f)\nprint x (typeof x) (f)+1 [(f)] a\n"
			evalStream(r, d, "return-shapes", src, RunOpts{MaxYield: 20000}, parts, true, oracle)
		}
	}
	// resource limits of the host: run through the rebuilt binary in its own process (a Go stack overflow or
	// an allocation failure kills the process and cannot be recovered in-process)
	if bin, err := BuildEvy(); err == nil {
		known := KnownIDs()
		dir, _ := os.MkdirTemp("", "verif-c02-")
		progs := []CorpusItem{
			{"huge-repetition", "print (len [0]*1000000000000000)\n"},
			{"empty-repetition", "x := [] * 1000000000000000000\nprint x\n"},
			{"huge-nested-repetition", "a := [[1 2]] * 3\nprint (len a*100000000000)\n"},
			{"deep-but-finite-recursion", "func f:num n:num\n    if n == 0\n        return 0\n    end\n    return 1 + (f n-1)\nend\nprint (f 5000)\n"},
		}
		progs = append(progs, Corpus("C02")...)
		for _, w := range progs {
			path := filepath.Join(dir, "p.evy")
			os.WriteFile(path, []byte(w.Src), 0o644) //nolint
			pr := runProc(60*time.Second, "", "sh", "-c", `ulimit -v 6000000; exec "$0" "$@"`, bin, "run", path)
			r.Count("process:"+w.Name, true)
			crashed := pr.Exit == -2 || pr.Killed || strings.Contains(pr.Stderr, "goroutine ") || strings.Contains(pr.Stderr, "fatal error")
			if !crashed {
				continue
			}
			kid := ""
			if strings.HasPrefix(w.Src, "// known: ") {
				kid = strings.TrimSpace(strings.SplitN(strings.TrimPrefix(w.Src, "// known: "), "\n", 2)[0])
			}
			first, _, _ := strings.Cut(strings.TrimSpace(pr.Stderr), "\n")
			if kid != "" {
				r.KnownSeen[kid]++
				if known[kid] {
					continue
				}
			}
			r.Violation(Case{Stream: "host-process", Input: w.Src, Real: fmt.Sprintf("evy run: exit=%d killed=%v: %s", pr.Exit, pr.Killed, trunc(first, 300)), Spec: "execution ends by completion, an evy panic, exit, a failed test or a stop — never with a crash of the host", Known: kid})
		}
		os.RemoveAll(dir)
	}
	for _, src := range TypeMatrixPrograms() {
		evalStream(r, d, "typematrix", src, RunOpts{}, parts, true, oracle)
	}
	// a value stored in an any carries a concrete type, whatever expression it came from: literals, also untyped empty
	// ones, in parentheses, sliced, concatenated, repeated, as elements and fields — typeof reports no untyped [] or {}
	{
		concrete := regexp.MustCompile(`^(\[\]|\{\})*(num|string|bool|any)$`)
		for _, l := range []string{"[]", "{}", "[[]]", "[{}]", "{a:[]}", "{a:{}}", "[[] {}]", "[1]", "[[1] []]", "{a:[1] b:[]}", "[][:]", "[]+[]", "[]*2", "[[]][:1]", "[[]]+[[]]", "[[]][0]", "{a:[]}.a", "1", "\"s\""} {
			for _, g := range []string{l, "(" + l + ")", "((" + l + "))"} {
				src := "y:any\ny = " + g + "\naa:[]any\naa = [" + g + " 1]\nma:{}any\nma.k = " + g + "\nfunc f:any\n    return " + g + "\nend\nz := (f)\nprint (typeof y) (typeof aa[0]) (typeof ma.k) (typeof z) (typeof " + g + ")\n"
				c := evalStream(r, d, "any-concrete", src, RunOpts{}, parts, true, oracle)
				if c.Skipped != "" {
					r.Disagree(Case{Stream: "any-concrete", Input: src, Real: "skipped: " + c.Skipped + " " + c.Real.ParseErr, Note: "harness program should be accepted"})
					continue
				}
				for _, w := range strings.Fields(c.Real.Out) {
					if c.Real.Class == "ok" && !concrete.MatchString(w) {
						r.Violation(Case{Stream: "any-concrete", Input: src, Real: c.Real.Out, Spec: "a value stored in an any carries a concrete type: typeof reports no untyped [] or {}"})
						break
					}
				}
			}
		}
	}
	// assignment targets: every access path (index, field, nested) into variables of every shape, with values of
	// several types — whatever the parser accepts is executed (a string reached through a composite is not assignable)
	{
		pre := "s := \"abc\"\nas := [\"abc\" \"de\"]\nass := [[\"abc\"]]\nms := {k:\"abc\"}\nmas := {k:[\"abc\"]}\nams := [{k:\"abc\"}]\nan := [1 2]\naan := [[1 2]]\nmn := {k:1}\ny:any\ny = \"abc\"\naa:[]any\naa = [\"abc\" [1]]\n"
		use := "print s as ass ms mas ams an aan mn y aa\n"
		for _, v := range []string{"s", "as", "ass", "ms", "mas", "ams", "an", "aan", "mn", "y", "aa"} {
			for _, path := range []string{"[0]", "[0][0]", "[0][1]", "[0][0][0]", ".k", ".k[0]", ".k[0][0]", "[0].k", "[0].k[0]", "[\"k\"]", "[\"k\"][0]", "[-1]", "[-1][-1]"} {
				for _, val := range []string{"\"x\"", "1", "[1]", "[\"x\"]", "{k:\"x\"}", "y"} {
					evalStream(r, d, "assignment-targets", pre+v+path+" = "+val+"\n"+use, RunOpts{}, parts, true, oracle)
				}
			}
		}
	}
	for _, src := range AnyEqualityPrograms() {
		evalStream(r, d, "any-equality", src, RunOpts{}, parts, true, oracle)
	}
	// accepted programs of the typed fragment satisfy the hypotheses of the type soundness theorem
	{
		ntc := 400
		if Thorough() {
			ntc = 5000
		}
		var srcs []string

		for i := 0; i < ntc; i++ {
			of := GenOpts{Funcs: true, Any: true, Maps: true, Strings: true, NonAscii: true, Special: true, Builtins: i%2 == 0, Tests: i%4 == 0, Exit: i%8 == 0, Read: i%8 == 1, Graphics: i%8 == 2}
			srcs = append(srcs, NewProgGen(rng, of).Program())
		}
		hand := tcHandWritten()
		asked, inFrag, okN := c02TypeCheck(r, d, append(srcs, hand...))
		for _, h := range hand {
			if v, in, why := tcCheck(d, h); v == "" || !in {
				r.Disagree(Case{Stream: "typecheck-handwritten", Input: h, Real: "verdict=" + v, Model: why, Note: "a hand-written program of the typed fragment must be accepted by the parser and lie in the fragment"})
			}
		}
		neg, negRej := 0, 0
		for _, src := range append(hand, srcs[:min(len(srcs), 100)]...) {
			if a, rj := tcNegative(d, src); a {
				neg++
				if rj {
					negRej++
				} else if in, _ := func() (bool, string) { p, _, _ := ParseSrc(src); return tcFragment(p) }(); in {
					r.Hist("typecheck", "negative control not rejected (the corrupted name is unused)")
				}
			}
		}
		r.Rule += fmt.Sprintf(" | Type checker tie: %d accepted programs (generated with functions, any, maps, strings, with built-ins, tests, exit / panic, read and graphics switched on in turn; %d hand-written, one per typing rule incl. recursion) sent with the parser's function signatures and global types to Model/Check.lean (proved sound for the hypotheses of program_never_goes_wrong): %d lie in the typed fragment and %d of those are accepted by the checker; a rejection is a disagreement. Negative controls: %d requests with one global or result type corrupted, %d rejected", asked, len(hand), inFrag, okN, neg, negRej)
	}
	for _, w := range Corpus("C02") {
		if strings.Contains(w.Src, "// host-only") {
			continue // would take the harness process down; run through the binary above
		}
		evalStream(r, d, "corpus:"+w.Name, w.Src, RunOpts{}, parts, true, oracle)
	}
	r.Rule += " | any-concrete: every untyped or partly untyped expression form (empty literals, nested, sliced, concatenated, repeated, elements and fields of literals), plain and in one and two pairs of parentheses, stored into an any variable, element, field and function result: typeof reports a concrete type. Type matrix: every kind of value, also non-literal untyped expressions, in every position that takes a value (incl. parenthesised in any positions), repeated arrays holding maps with keys added and deleted afterwards"
	r.DriverCalls = d.N
	return r
}

func c02Fixed() []string {
	return []string{
		"g := 1\nfunc f\n    g = 2\nend\nf\nprint g\n",
		"g := 1\nprint (f)\nfunc f:num\n    return g\nend\nprint g\n",
		"x:any\nprint x (typeof x)\nx = [1 2]\nprint (typeof x) x.([]num)[0]\nx = {a:1}\nprint (typeof x)\nprint x.(num)\n",
		"a:[]any\na = [1 \"x\" [2]]\nprint (typeof a) (typeof a[0]) (typeof a[2])\nb := a[2].([]num)\nprint b\nprint a[1].(num)\n",
		"m:{}any\nm.a = 1\nm.b = [1]\nprint (typeof m) (typeof m.a) (typeof m.b) m\n",
		"a := [1 2 3]\nprint a[1.5]\n",
		"a := [1 2 3]\nprint (a * 1.5)\n",
		"a := [1 2 3]\nprint (a * -1)\n",
		"a := [1 2 3]\nx := a * 1.5\nprint x\n",
		"a := [1 2 3]\nx := a * -2\nprint x\n",
		"a := [1 2 3]\nx := a * 1000000000000\nprint (len x)\n",
		"a := [1 2 3]\nx := a * (0/0)\nprint x\n",
		"a := [1 2 3]\nx := a * (1/0)\nprint x\n",
		"e:[]num\nx := e * -1\nprint x\n",
		"e:[]num\nx := e * 0.5\nprint x\n",
		"a := [1 2 3]\nx := a * 0\ny := a * 1\nz := a * 2\nprint x y z (len z)\n",
		// repeated arrays that hold maps: a key added to or deleted from one copy, or the original, then every copy is
		// printed, ranged over, compared, copied again
		"m := {a:1}\narr := [m] * 2\narr[0].b = 2\nprint arr m\nprint (sprint arr[1]) (len arr[1])\n",
		"m := {a:1 b:2}\narr := [m] * 3\ndel arr[1] \"a\"\nprint arr m\nm.c = 3\nprint arr m\nfor k := range arr[2]\n    print k arr[2][k]\nend\n",
		"m := {a:1}\narr := [m [m]] * 2\nm.z = 9\nprint arr m\nt := arr[1].([]{}num)\nt[0].y = 8\nprint arr m (arr[0] == arr[2])\nagain := arr * 2\nprint again\n",
		"mm := {in:{a:1}}\narr := [mm] * 2\narr[0].in.b = 2\narr[1].other = {c:3}\nprint arr mm\nprint (join [(sprint arr[0]) (sprint arr[1])] \"|\")\ntest arr[0] arr[1]\n",
		// domain errors of the graphics built-ins (modelled glue: argument counts, ranges, property types)
		"clear \"red\" \"blue\"\n", "clear\nclear \"red\"\nprint \"ok\"\n",
		"print (hsl 361)\n", "print (hsl -1)\n", "print (hsl 10 101)\n", "print (hsl 10 50 -1)\n", "print (hsl 10 50 50 101)\n", "print (hsl 1 2 3 4 5)\n", "x := hsl\nprint x\n",
		"print (hsl 0) (hsl 360) (hsl 120 100 50) (hsl 120 0 0 0) (hsl 0.5 99.5 50 100)\n",
		"font {size:\"big\"}\n", "font {family:1}\n", "font {nope:1}\n", "font {size:0}\n", "font {weight:-1}\n", "font {align:\"diagonal\"}\n", "font {baseline:\"x\"}\n",
		"font {size:2 family:\"a\" style:\"italic\" weight:700 letterspacing:1 baseline:\"top\" align:\"center\"}\nprint \"ok\"\n",
		"gridn 0 \"red\"\n", "gridn -1 \"red\"\n", "gridn (0/0) \"red\"\n", "gridn 5 \"red\"\ngrid\nprint \"ok\"\n",
		"ellipse 1 2\n", "ellipse 1 2 3 4 5 6\n", "ellipse 1 2 3 4 5 6 7 8\n", "ellipse 1 2 3\nellipse 1 2 3 4\nellipse 1 2 3 4 5\nellipse 1 2 3 4 5 6 7\nprint \"ok\"\n",
		"poly [1]\n", "poly [1 2 3]\n", "poly [1 2] [3]\n", "poly\npoly [1 2]\npoly [1 2] [3 4] [5 6]\nprint \"ok\"\n",
		"dash\ndash 1\ndash 1 2 3\nlinecap \"round\"\nstroke \"red\"\nfill \"none\"\ntext \"t\"\nwidth 0\nwidth -1\ncolor \"\"\ncolour \"x\"\nprint \"ok\"\n",
		"for i := range 1 5 0\n    print i\nend\n",
		"print (1/0) (-1/0) (0/0) (5 % 0) (-5 % 3) (5.5 % 2)\n",
		"s := \"aéb\"\nprint s[1] s[-1] s[0:2] (len s)\nfor c := range s\n    print c\nend\n",
		"x := [] + []\nprint x (typeof x)\ny := {}\nprint y (typeof y)\n",
		"func f a:any\n    print (typeof a) a\nend\nf 1\nf [1]\nf {}\nf []\nf [[]]\n",
		"func v:num n:num...\n    print (typeof n) n (len n)\n    return (len n)\nend\nprint (v) (v 1) (v 1 2 3)\n",
		"exit 3\n",
		"exit 3.9\n",
		"exit -1\n",
		"panic \"boom\"\n",
		"test true\ntest 1 1\ntest 1 2 \"msg %v\" 5\ntest [1] [1]\nprint \"after\"\n",
		"sleep 0.25\ncls\nx := read\nprint x\n",
	}
}

// value classes per parameter type for the builtin sweep
func valueClasses(t string, thorough bool) []string {
	switch t {
	case "num":
		v := []string{"0", "1", "-1", "0.5", "2.5", "-3.7", "100", "2147483647", "2147483648", "9007199254740993", "(0/0)", "(1/0)", "(-1/0)", "(-0)"}
		if thorough {
			v = append(v, "360", "361", "1000000000000000000000", "0.0000001", "4294967296")
		}
		return v
	case "string":
		return []string{`""`, `"a"`, `"abc"`, `"aéb"`, `"🙂"`, `" x "`, `"1"`, `"1.5"`, `"true"`, `"T"`, `"Inf"`, `"0x10"`, `"a,b,,c"`, `"%s %v"`, `"%d"`}
	case "bool":
		return []string{"true", "false"}
	case "any":
		return []string{"1", `"s"`, "true", "[1 2]", "[]", "{}", "{a:1}", `[1 "a"]`, "(0/0)"}
	case "[]":
		return []string{"[]", "[1 2 3]", `["a" "b"]`, "[[1] [2]]", "[true]", `[1 "a" [2]]`}
	case "{}":
		return []string{"{}", "{a:1 b:2}", `{a:"x"}`, "{a:[1]}"}
	case "[]num":
		return []string{"[1 2]", "[1]", "[1 2 3]", "[(0/0) 1]"}
	}
	return []string{"0"}
}

// builtinSweep generates `print (f args...)` / `f args...` for every non-graphics builtin over value classes.
func builtinSweep(rng *rand.Rand, thorough bool) []string {
	decls := evaluator.BuiltinDecls()
	var names []string
	for n := range decls.Funcs {
		names = append(names, n)
	}
	names = SortedKeys(decls.Funcs)
	graphics := map[string]bool{"move": true, "line": true, "rect": true, "circle": true, "width": true, "color": true, "colour": true, "clear": true, "grid": true, "gridn": true, "poly": true, "ellipse": true, "stroke": true, "fill": true, "dash": true, "linecap": true, "text": true, "font": true}
	var out []string
	for _, name := range names {
		if graphics[name] {
			continue
		}
		fd := decls.Funcs[name]
		var ptypes []string
		for _, p := range fd.Params {
			ptypes = append(ptypes, p.Type().String())
		}
		variadic := fd.VariadicParam != nil
		if variadic {
			vt := fd.VariadicParam.Type().String()
			maxArgs := 3
			if name == "hsl" {
				maxArgs = 5 // 1 to 4 components are valid
			}
			for k := 0; k <= maxArgs; k++ {
				pt := make([]string, k)
				for i := range pt {
					pt[i] = vt
				}
				out = append(out, sweepTuples(rng, name, pt, fd.ReturnType.String() != "none", thorough, 40)...)
			}
			continue
		}
		out = append(out, sweepTuples(rng, name, ptypes, fd.ReturnType.String() != "none", thorough, 400)...)
	}
	return out
}

func sweepTuples(rng *rand.Rand, name string, ptypes []string, hasRet bool, thorough bool, limit int) []string {
	tuples := [][]string{{}}
	for _, pt := range ptypes {
		cls := valueClasses(pt, thorough)
		var next [][]string
		for _, t := range tuples {
			for _, c := range cls {
				next = append(next, append(append([]string{}, t...), c))
			}
		}
		tuples = next
	}
	if len(tuples) > limit {
		rng.Shuffle(len(tuples), func(i, j int) { tuples[i], tuples[j] = tuples[j], tuples[i] })
		tuples = tuples[:limit]
	}
	var out []string
	for _, t := range tuples {
		call := name
		for _, a := range t {
			call += " " + a
		}
		var src string
		if hasRet {
			src = "x := " + call + "\nprint x (typeof x) err errmsg\n"
			if len(t) == 0 {
				src = "x := (" + call + ")\nprint x (typeof x) err errmsg\n"
			}
		} else {
			src = call + "\nprint \"done\" err errmsg\n"
		}
		out = append(out, src)
	}
	return out
}

// TypeMatrixPrograms: every binary operator applied to every pair of value descriptions (variables of
// each type, constant and empty literals, nested empties); most are rejected by the parser, the
// accepted ones must run without going wrong.
// AnyEqualityPrograms: == and != between values of every kind held in an any, in an []any and in an {}any
// (the dynamic types differ although the static types are the same).
func AnyEqualityPrograms() []string {
	vals := []string{"1", "\"x\"", "true", "[1]", "[\"x\"]", "[true]", "[[1]]", "[[\"x\"]]", "[1 \"x\"]", "{k:1}", "{k:\"x\"}", "{k:true}", "{k:[1]}", "{k:[\"x\"]}", "[]", "{}", "[{k:1}]", "[{k:\"x\"}]"}
	var out []string
	for _, l := range vals {
		for _, r := range vals {
			out = append(out,
				"a:any\nb:any\na = "+l+"\nb = "+r+"\nprint (a == b) (a != b) (b == a)\n",
				"a:[]any\nb:[]any\na = ["+l+" 0]\nb = ["+r+" 0]\nprint (a == b) (a != b)\nm:{}any\nn:{}any\nm.k = "+l+"\nn.k = "+r+"\nprint (m == n) (m != n)\n",
				"func same:bool x:any y:any\n    return x == y\nend\nprint (same "+l+" "+r+") (same ["+l+"] ["+r+"])\n")
		}
	}
	return out
}

func TypeMatrixPrograms() []string {
	// (p), (q 1): calls of functions WITHOUT a result used where a value is expected — the parser must
	// reject them everywhere; whatever it accepts is run like every other cell
	descs := []string{"n", "s", "b", "an", "as", "aa", "mn", "ma", "y", "[]", "{}", "[1]", "[\"a\"]", "{a:1}", "[[]]", "[{}]", "{a:[]}", "{a:{}}", "[[1]]", "[1 \"a\"]", "1", "\"a\"", "true", "(p)", "(q 1)"}
	ops := []string{"+", "-", "*", "/", "%", "<", "<=", "==", "!=", "and", "or"}
	pre := "n := 1\ns := \"s\"\nb := true\nan := [1 2]\nas := [\"a\"]\naa:[]any\nmn := {a:1}\nma:{}any\ny:any\nfunc p\n    print \"p\"\nend\nfunc q v:num\n    print \"q\" v\nend\n"
	use := "print n s b an as aa mn ma y\np\nq 1\n"
	var out []string
	// expressions of an untyped empty array or map type that are not literals (slices, operators, elements of
	// literals): in every value position, not in the operator matrix
	extra := []string{"[][:]", "[][:0]", "[][0:]", "[]+[]", "[]*2", "[[]][0]", "[[]][0][:]", "[[]]+[[]]", "{a:[]}.a", "{a:{}}.a", "[{}][0]", "an[:0]", "[1][1:]", "[[]][:1]"}
	for li, l := range append(append([]string{}, descs...), extra...) {
		if li < len(descs) {
			for _, r := range descs {
				for _, op := range ops {
					out = append(out, pre+"x := "+l+" "+op+" "+r+"\nprint x (typeof x)\n"+use)
				}
			}
		}
		out = append(out, pre+"x := -"+l+"\nprint x\n"+use, pre+"x := !"+l+"\nprint x\n"+use,
			pre+"x := "+l+"[0]\nprint x\n"+use, pre+"x := "+l+"[\"a\"]\nprint x\n"+use, pre+"x := "+l+"[0:1]\nprint x\n"+use,
			pre+"x := "+l+".a\nprint x\n"+use, pre+"x := "+l+".(num)\nprint x\n"+use, pre+"x := "+l+".([]num)\nprint x\n"+use,
			pre+"if "+l+"\n    print 1\nend\n"+use, pre+"for e := range "+l+"\n    print e (typeof e)\nend\n"+use,
			pre+"x := "+l+"\nprint x (typeof x)\n"+use)
		// every position that takes a value: element (first, later, nested), map value, argument, index,
		// slice bound, assignment to a variable / element / field of type any, return value, group
		out = append(out,
			pre+"x := ["+l+"]\nprint x (typeof x) (len x)\n"+use, pre+"x := [1 "+l+"]\nprint x (typeof x)\n"+use,
			pre+"x := [["+l+"]]\nprint x (typeof x)\n"+use, pre+"x := {a:"+l+"}\nprint x (typeof x)\n"+use,
			pre+"x := {a:1 b:"+l+"}\nprint x (typeof x)\n"+use, pre+"print "+l+"\n"+use, pre+"print 1 "+l+" 2\n"+use,
			pre+"print ["+l+"] {k:"+l+"}\n"+use, pre+"print (len ["+l+"])\n"+use, pre+"print (sprint "+l+")\n"+use,
			pre+"x := an["+l+"]\nprint x\n"+use, pre+"x := an["+l+":]\nprint x\n"+use, pre+"x := an[:"+l+"]\nprint x\n"+use,
			pre+"y = "+l+"\n"+use,
			pre+"aa = ["+l+"]\n"+use, pre+"ma = {k:"+l+"}\n"+use,
			pre+"func g:any\n    return "+l+"\nend\nprint (g)\n"+use, pre+"func g:[]any\n    return ["+l+"]\nend\nprint (g)\n"+use,
			pre+"x := ("+l+")\nprint x\n"+use, pre+"x := [("+l+")]\nprint x\n"+use,
			pre+"print ("+l+") (("+l+")) [("+l+")] {k:("+l+")}\n"+use, pre+"y = ("+l+")\nprint y (typeof y)\n"+use, pre+"aa = [("+l+")]\nma.k = ("+l+")\nprint aa ma\n"+use,
			pre+"print (typeof ("+l+")) (typeof "+l+")\n"+use,
			pre+"func h a:any...\n    print a\nend\nh "+l+" ["+l+"]\n"+use,
			pre+"while "+l+"\n    break\nend\n"+use, pre+"for i := range "+l+" 3\n    print i\nend\n"+use)
		// storing into an element / a field of an any container; a container stored into ITSELF is a cyclic
		// value, whose traversal overflows the host stack (known finding cyclic-value-overflows-host-stack,
		// witnessed in a process of its own by corpus/C02/cyclic-value-print.evy)
		if l != "aa" {
			out = append(out, pre+"aa = aa + [y]\naa[0] = "+l+"\n"+use)
		}
		if l != "ma" {
			out = append(out, pre+"ma.k = "+l+"\n"+use)
		}
		// composite literals of DIFFERENT element types side by side: the elements of the inner literals are
		// values of type any as soon as the combined type says so, at every depth
		for _, r := range descs {
			if strings.HasPrefix(l, "(") || strings.HasPrefix(r, "(") {
				continue
			}
			out = append(out,
				pre+"x := [["+l+"] ["+r+"]]\nprint x (typeof x) (typeof x[0]) (typeof x[0][0]) (typeof x[1][0])\nprint (x[0][0] == x[1][0]) (x[0] == x[1])\ne := x[0][0]\nprint e (typeof e) [e]\n"+use,
				pre+"x := [{a:"+l+"} {a:"+r+"}]\nprint x (typeof x) (typeof x[0].a) (typeof x[1].a)\nprint (x[0].a == x[1].a)\n"+use,
				pre+"x := {p:["+l+"] q:["+r+" "+l+"]}\nprint x (typeof x) (typeof x.p[0]) (typeof x.q[1]) (x.p[0] == x.q[1])\n"+use,
				pre+"x := [[["+l+"]] [["+r+"]]]\nprint x (typeof x) (typeof x[0][0][0]) (x[0][0][0] == x[1][0][0])\n"+use)
		}
	}
	return out
}
