package hx

import (
	"fmt"
	"os"
	"path/filepath"
	"regexp"
	"strconv"
	"strings"
	"time"

	"evylang.dev/evy/pkg/evaluator"
)

// ---------------------------------------------------------------------------------------------
// C09 copies and sharing

type aliasT struct {
	name   string
	typ    string                     // evy type
	v0, v1 string                     // two distinct values
	upd    func(target string) string // in-place update statement for composites, rebinding for basics
	basic  bool
}

func c09Types() []aliasT {
	return []aliasT{
		{"num", "num", "1", "2", func(t string) string { return t + " = " + t + " + 10" }, true},
		{"string", "string", `"a"`, `"b"`, func(t string) string { return t + " = " + t + ` + "!"` }, true},
		{"bool", "bool", "true", "false", func(t string) string { return t + " = !" + t }, true},
		{"arr", "[]num", "[1 2 3]", "[7 8 9]", func(t string) string { return t + "[0] = " + t + "[0] + 10" }, false},
		{"map", "{}num", "{a:1 b:2}", "{a:7 c:9}", func(t string) string { return t + ".a = " + t + ".a + 10" }, false},
	}
}

// C09Programs enumerates (how the alias is made) x (where the update happens) x (observation).
// c09RepeatedMaps: repetition copies a map; afterwards a key is deleted from (or added to) one copy or the original,
// at the first, a middle and the last position of the key order, and every copy is printed and ranged over
func c09RepeatedMaps() []string {
	var out []string
	for _, who := range []string{"arr[0]", "arr[1]", "m"} {
		for _, key := range []string{"a", "b", "c"} {
			out = append(out, "m := {a:1 b:2 c:3}\narr := [m] * 2\ndel "+who+" \""+key+"\"\nprint arr m\nfor k := range arr[0]\n    print k arr[0][k]\nend\nfor k := range arr[1]\n    print k arr[1][k]\nend\nfor k := range m\n    print k m[k]\nend\n"+who+".d = 4\nprint arr m (len arr[0]) (len arr[1]) (len m)\n")
		}
	}
	out = append(out,
		"m := {a:1 b:2 c:3}\narr := [[m]] * 2\nt := arr[1][0]\ndel t \"a\"\nprint arr m\n",
		"m := {a:1 b:2 c:3}\nw := {in:m}\narr := [w] * 2\ndel arr[0].in \"b\"\nprint arr m w\n",
		"m := {a:1 b:2 c:3}\narr := [m] * 2\nagain := arr * 2\ndel again[3] \"a\"\ndel arr[0] \"b\"\nprint again arr m\n")
	return out
}

func C09Programs() []string {
	var out []string
	for _, t := range c09Types() {
		T, v0, v1 := t.typ, t.v0, t.v1
		obs := func(names ...string) string { return "print " + strings.Join(names, " ") + "\n" }
		type mk struct{ pre, alias string } // pre: statements creating alias expression `alias` from x
		makers := []mk{
			{"y := x\n", "y"},
			{"y:" + T + "\ny = x\n", "y"},
			{"arr := [x]\n", "arr[0]"},
			{"arr := [" + v1 + "]\narr[0] = x\n", "arr[0]"},
			{"m := {k:x}\n", "m.k"},
			{"m := {k:" + v1 + "}\nm.k = x\n", "m.k"},
			{"m := {k:" + v1 + "}\nm[\"k\"] = x\n", "m[\"k\"]"},
			{"z:any\nz = x\n", "z.(" + T + ")"},
			{"arr := [x x]\ny := arr[1]\n", "y"},
			{"func id:" + T + " p:" + T + "\n    return p\nend\ny := (id x)\n", "y"},
			{"arr := [x]\ny := arr[0]\n", "y"},
			{"arrs := [[x]]\n", "arrs[0][0]"},
			{"w := [x] + [x]\n", "w[1]"},
			{"w := [x] * 2\n", "w[1]"},
			{"w := [x " + v1 + "][0:1]\n", "w[0]"},
		}
		for _, m := range makers {
			// update through x, observe both; then update through the alias, observe both
			for _, order := range []int{0, 1} {
				src := "x := " + v0 + "\n" + m.pre
				updX := t.upd("x") + "\n"
				var updA string
				if strings.HasSuffix(m.alias, ")") && strings.Contains(m.alias, ".(") {
					// type assertion is not assignable: update z by rebinding / through a temp
					if t.basic {
						updA = "z = " + v1 + "\n"
					} else {
						updA = "tmp := " + m.alias + "\n" + t.upd("tmp") + "\n"
					}
				} else {
					updA = t.upd(m.alias) + "\n"
				}
				o := obs("x", m.alias)
				if order == 0 {
					src += o + updX + o + updA + o
				} else {
					src += o + updA + o + updX + o
				}
				// use every declared name
				for _, n := range []string{"y", "arr", "m", "z", "arrs", "w", "tmp"} {
					if strings.Contains(src, n+" :=") || strings.Contains(src, n+":") {
						src += "print " + n + "\n"
					}
				}
				out = append(out, src)
			}
		}
		// parameters: update inside the callee, observe in the caller
		out = append(out, "x := "+v0+"\nfunc f p:"+T+"\n    "+t.upd("p")+"\n    print \"in\" p\nend\nf x\nprint x\nf x\nprint x\n")
		// variadic parameter
		out = append(out, "x := "+v0+"\nfunc f p:"+T+"...\n    "+t.upd("p[0]")+"\n    print \"in\" p\nend\nf x x\nprint x\n")
		// loop variable
		out = append(out, "x := "+v0+"\narr := [x x]\nfor e := range arr\n    "+t.upd("e")+"\n    print e\nend\nprint x arr\n")
		// map value through range
		out = append(out, "x := "+v0+"\nm := {a:x b:x}\nfor k := range m\n    e := m[k]\n    "+t.upd("e")+"\n    print k e\nend\nprint x m\n")
	}
	// err / errmsg
	for _, mk := range []string{"y := err\n", "y := false\ny = err\n", "arr := [false]\narr[0] = err\ny := arr[0]\n", "m := {k:false}\nm.k = err\ny := m.k\n", "z:any\nz = err\ny := z.(bool)\n"} {
		out = append(out, mk+"n := str2num \"x\"\nprint y err n\nb := str2bool \"true\"\nprint y err b\n"+useAll(mk))
	}
	for _, mk := range []string{"y := errmsg\n", "y := \"\"\ny = errmsg\n", "arr := [\"\"]\narr[0] = errmsg\ny := arr[0]\n", "m := {k:\"\"}\nm.k = errmsg\ny := m.k\n"} {
		out = append(out, "n0 := str2num \"q\"\n"+mk+"n := str2num \"x\"\nprint y errmsg n n0 y[0] (len y)\nb := str2bool \"true\"\nprint y errmsg b (len errmsg)\n"+useAll(mk))
		out = append(out, mk+"n := str2num \"xyz\"\nprint errmsg[0] errmsg[-1] (len errmsg)\nb := str2num \"1\"\nprint (len errmsg) y n b\nc := str2bool \"nope\"\nprint errmsg[0] errmsg[-2:] c\n"+useAll(mk))
	}
	// fresh containers: slicing, concatenation, repetition (deep)
	out = append(out,
		"a := [1 2 3]\nb := a[0:2]\nc := a[:]\nb[0] = 9\nc[1] = 8\na[2] = 7\nprint a b c\n",
		"a := [1 2]\nb := a + [3]\nc := a + a\nd := [] + a\nb[0] = 9\nc[2] = 8\nd[1] = 6\na[0] = 5\nprint a b c d\n",
		"i := [1 2]\nn := [i i]\nr := n * 2\nr[0][0] = 9\nprint i n r\ni[1] = 7\nprint i n r\n",
		"i := [1 2]\nn := [i]\ns := n[0:1]\ns[0][0] = 9\nprint i n s\nc := n + n\nc[1][1] = 8\nprint i n s c\n",
		"m := {a:[1]}\nr := [m] * 2\nr[0].a[0] = 9\nr[1].b = [5]\nprint m r\n",
		"x:any\nx = [1 2]\ny := x\nt := y.([]num)\nt[0] = 9\nprint x y\nr := [x] * 2\nt2 := r[0].([]num)\nt2[1] = 7\nprint x y r\n",
		"m:{}any\nm.k = [1 2]\nr := [m] * 2\nt := r[1].k.([]num)\nt[0] = 9\nprint m r\n",
		"row := [[1 2] 3]\nrows := row * 2\nt := rows[0].([]num)\nt[1] = 99\nprint row rows\n",
		"a := [1 2 3]\nfunc f:[]num\n    return a\nend\nb := (f)\nb[0] = 9\nprint a b\nc := (f)[0:2]\nc[1] = 8\nprint a b c\n",
		"s := \"abc\"\nt := s\nt = t + \"d\"\nu := s[0:2]\nprint s t u\n",
		"a := [1 2 3]\nfor i := range 3\n    a[i] = i\nend\nprint a\nm := {}\nfor i := range 3\n    m[sprint i] = i\nend\nprint m\nfirst := 0\nfor i := range 3\n    if i == 0\n        first = i\n    end\nend\nprint first\n",
	)
	// fresh containers, systematically: every producing expression over a non-empty, an empty, a nested and an any
	// array — the result is updated and observed, then the operand is updated and observed
	for _, decl := range []string{"a := [1 2 3]\ne:[]num\n", "a := [[1] [2 3]]\ne:[][]num\n", "a:[]any\na = [1 \"x\" [2]]\ne:[]any\n"} {
		elem, grow := "99", "e = e + [99]"
		if strings.Contains(decl, "[[1]") {
			elem, grow = "[99]", "e = e + [[99]]"
		}
		if strings.Contains(decl, "any") {
			grow = "e = e + a[0:1]"
		}
		for _, p := range []string{"a[:]", "a[0:]", "a[:3]", "a[0:2]", "a[1:]", "a[-2:]", "a[:-1]", "a + e", "e + a", "a + []", "[] + a", "(e + e) + a", "a + a", "e + a + e",
			"a * 1", "a * 2", "(a + e) * 1", "(a[:])[:]", "(a + e)[0:]"} {
			out = append(out, decl+"b := "+p+"\nprint (len b)\nb[0] = "+elem+"\nprint a b e\na[1] = "+elem+"\nprint a b e\n"+grow+"\nprint a b e\n")
		}
		// the accumulate idiom: the first concatenation has an empty left operand
		out = append(out, decl+"acc := e\nfor i := range 2\n    acc = acc + a\n    acc[0] = "+elem+"\n    print i a acc e\nend\n")
		out = append(out, decl+"rows := [a a[:]]\nflat := e\nfor row := range rows\n    flat = flat + row\nend\nflat[0] = "+elem+"\nprint rows flat a e\n")
	}
	// chains of concatenations that keep the old array: the result of a concatenation is itself a left operand
	// (twice: siblings), for every length of the first operand — the host's arrays grow with spare room
	for n := 0; n <= 17; n++ {
		lit := "["
		for i := 1; i <= n; i++ {
			lit += fmt.Sprint(i) + " "
		}
		lit = strings.TrimSpace(lit) + "]"
		decl := "e:[]num\nprint e\n"
		if n == 0 {
			lit = "e"
		}
		out = append(out,
			decl+"base := "+lit+" + [40]\nb := base + [50]\nc := base + [60]\nprint base b c\nb[0] = 9\nprint base b c\nbase[0] = 8\nc[-1] = 7\nprint base b c\n",
			decl+"base := "+lit+" + [40]\nbase = base + [41]\nb := base + [50] + [51]\nc := base + [60]\nd := b + [70]\ne2 := b + [80]\nprint base b c d e2\nd[-1] = 1\nb[0] = 2\nprint base b c d e2\n",
			decl+"func walk path:[]num depth:num\n    if depth == 0\n        print path\n        return\n    end\n    walk path+[depth] depth-1\n    walk path+[depth*10] depth-1\nend\nwalk "+lit+"+[0] 3\n",
			decl+"func grown:[]num a:[]num\n    return a + [100]\nend\nbase := "+lit+" + [40]\np := (grown base)\nq := (grown base)\nr := (grown p)\nr2 := (grown p)\nr[0] = 5\nr2[-1] = 6\nprint base p q r r2\n")
	}
	// a basic value read from or stored into a map is a copy, whichever statement does it (assignment to a variable, an
	// element, a new or an existing key), also when the key is then assigned again and again; a composite stored
	// under a key that holds an EQUAL composite replaces it (the map then shares the new one, not the old one)
	out = append(out,
		"m := {k:1}\nx := 0\nx = m.k\narr := [0]\narr[0] = m.k\nb := {j:0}\nb.j = m.k\nb.n = m.k\nm.k = 6\nm.k = m.k + 1\nprint x arr b m\nn := 5\nm.z = n\nm.z = 7\nm[\"z\"] = m.z * 2\nprint n m\n",
		"m := {k:\"s\"}\nx := \"\"\nx = m.k\narr := [\"\"]\narr[0] = m.k\nm.k = \"t\"\nm.k = m.k + \"u\"\nprint x arr m\nt := true\nf := {b:false}\nf.c = t\nf.c = false\nf.b = f.c\nf.c = true\nprint t f\n",
		"cnt := {a:0 b:0}\nsnap := [0 0]\nfor i := range 3\n    snap[0] = cnt.a\n    cnt.a = cnt.a + 1\n    snap[1] = cnt.a\n    cnt.b = cnt.a\n    cnt.a = cnt.a + 10\n    print i snap cnt\nend\n",
		"a := {x:1}\nb := {x:1}\nm := {i:a j:a}\nalias := m\nalias.i = b\nb.y = 2\nprint m a b (m.i == b) (m.j == a)\na.z = 3\nprint m a b\n",
		"p := [1 2]\nq := [1 2]\nm := {i:p j:p}\nm.i = q\nq[0] = 9\nprint m p q\np[1] = 8\nprint m p q\nw:{}any\nw.k = p\nw.k = [1 8]\np[0] = 7\nprint w p\n",
		"arr := [[1] [1]]\nn := [1]\narr[0] = n\nn[0] = 5\nprint arr n\nmm := {a:{k:1}}\nnn := {k:1}\nmm.a = nn\nnn.k = 2\ndel nn \"zz\"\nprint mm nn (has mm.a \"k\") (len mm.a)\n",
	)
	// composites held in an any are shared through every way a value travels: declaration, assignment, any parameter,
	// variadic any parameter, return, element of an any array / map literal, loop variable
	for _, mk := range [][2]string{{"arr := [1 2]", "arr[0] = 9"}, {"arr := {k:1}", "arr.k = 9"}, {"arr := [[1] [2]]", "arr[1][0] = 9"}} {
		out = append(out,
			mk[0]+"\na:any\na = arr\nb := a\nc:any\nc = a\n"+mk[1]+"\nprint arr a b c\n",
			mk[0]+"\na:any\na = arr\nfunc f p:any\n    "+mk[1]+"\n    print \"in\" p\nend\nf a\nprint arr a\nfunc g p:any...\n    "+mk[1]+"\n    print \"in\" p\nend\ng a a\nprint arr a\n",
			mk[0]+"\na:any\na = arr\nl := [a a]\nm := {k:a}\n"+mk[1]+"\nprint arr a l m\n",
			mk[0]+"\na:any\na = arr\nfunc h:any\n    return a\nend\nr := (h)\n"+mk[1]+"\nprint arr a r\n",
			mk[0]+"\nl := [arr 1 arr]\nfor e := range l\n    q := e\n    "+mk[1]+"\n    print e q\nend\nprint arr l\n")
	}
	// strings are values: every producing expression, then the operand is rebound
	out = append(out, "s := \"aéz\"\nt := s[:]\nu := s + \"\"\nv := \"\" + s\nw := s[0:]\ns = \"q\"\nprint s t u v w\nt = t + \"!\"\nprint s t u v w\n")
	return out
}

func useAll(mk string) string {
	s := ""
	for _, n := range []string{"arr", "m", "z"} {
		if strings.Contains(mk, n+" :=") || strings.Contains(mk, n+":") {
			s += "print " + n + "\n"
		}
	}
	return s
}

// RunC09 : alias programs.
func RunC09(d *Driver) *Report {
	r := NewReport("C09")
	rng := Rng()
	progs := append(C09Programs(), c09RepeatedMaps()...)
	n := 1500
	if Thorough() {
		n = 40000
	}
	r.Rule = fmt.Sprintf("exhaustive: %d alias programs = (5 value kinds) x (15 ways of making an alias: declaration, assignment, array/map element store and read, any, return, parameter, variadic, loop variable, concatenation, repetition, slice) x (update through either name first), err/errmsg aliasing through every store, fresh-container programs; plus %d generated programs with arrays/maps/any. The real evaluator's printed values after every update are compared with the Lean model (values immutable, composites shared by address). Non-trivial = distinct program", len(progs), n)
	parts := []string{"class", "trace", "globals"}
	for _, src := range progs {
		c := evalStream(r, d, "alias", src, RunOpts{}, parts, true, nil)
		if c.Skipped == "rejected" {
			r.Disagree(Case{Stream: "alias", Input: src, Real: "rejected: " + c.Real.ParseErr, Note: "harness program should be accepted"})
		}
	}
	o := GenOpts{Funcs: true, Any: true, Maps: true, Strings: true, Builtins: true}
	for i := 0; i < n; i++ {
		g := NewProgGen(rng, o)
		evalStream(r, d, "generated", g.Program(), RunOpts{}, parts, true, nil)
	}
	r.DriverCalls = d.N
	return r
}

// ---------------------------------------------------------------------------------------------
// C10 scoping and control flow

type construct struct {
	name       string
	open, clos string // with %s for indentation-free body
	loop       bool
}

func c10Constructs() []construct {
	return []construct{
		{"if", "if c < 10\n", "end\n", false},
		{"ifelse", "if c > 10\n    print \"then\"\nelse\n", "end\n", false},
		{"elseif", "if c > 10\n    print \"then\"\nelse if c < 10\n", "else\n    print \"else\"\nend\n", false},
		{"while", "w@ := 0\nwhile w@ < 2\n    w@ = w@ + 1\n", "end\nprint \"w\" w@\n", true},
		{"fornum", "for i@ := range 2\n    print \"i\" i@\n", "end\n", true},
		{"forarr", "for e@ := range [5 6]\n    print \"e\" e@\n", "end\n", true},
		{"forstr", "for s@ := range \"xy\"\n    print \"s\" s@\n", "end\n", true},
		{"formap", "for k@ := range {p:1 q:2}\n    print \"k\" k@\n", "end\n", true},
		{"fornovar", "for range 2\n", "end\n", true},
	}
}

func indent(s string, n int) string {
	pad := strings.Repeat("    ", n)
	lines := strings.Split(strings.TrimRight(s, "\n"), "\n")
	for i, l := range lines {
		lines[i] = pad + l
	}
	return strings.Join(lines, "\n") + "\n"
}

// C10Programs: all pairs of constructs with declarations, shadowing, break and return placements.
func C10Programs() []string {
	var out []string
	cs := c10Constructs()
	actions := []struct {
		name, body string
		needLoop   bool
		needFunc   bool
	}{
		{"shadow", "print \"before\" x\nx := \"inner\"\nprint \"shadow\" x\nx = x + \"!\"\nprint x\n", false, false},
		{"assign-outer", "x = x + 1\nc = c + 1\nprint \"inner\" x c\n", false, false},
		{"local", "l := x + 100\nprint \"local\" l\nl = l + 1\nprint l\n", false, false},
		{"break", "print \"pre-break\" c\nif c >= 1\n    break\nend\nc = c + 1\nprint \"post\" c\n", true, false},
		{"break-now", "print \"brk\"\nbreak\n", true, false},
		{"return", "print \"pre-ret\" c\nif c >= 1\n    return c\nend\nc = c + 1\n", false, true},
		{"return-now", "return 42\n", false, true},
	}
	for _, a := range cs {
		for _, b := range cs {
			for _, act := range actions {
				if act.needLoop && !(a.loop || b.loop) {
					continue
				}
				inner := strings.ReplaceAll(b.open, "@", "2") + indent(act.body, 1) + strings.ReplaceAll(b.clos, "@", "2")
				if act.name == "break-now" || act.name == "return-now" {
					// nothing may follow break/return in the same block
				} else {
					inner = strings.ReplaceAll(b.open, "@", "2") + indent(act.body+"print \"end-inner\" x c\n", 1) + strings.ReplaceAll(b.clos, "@", "2")
				}
				body := strings.ReplaceAll(a.open, "@", "1") + indent(inner+"print \"after-inner\" x c\n", 1) + strings.ReplaceAll(a.clos, "@", "1")
				var src string
				xinit := "x := 1\n"
				if act.name == "shadow" {
					xinit = "x := 1\n"
					body = strings.ReplaceAll(body, "x := \"inner\"", "x := \"inner\"") // string shadows num
					body = strings.ReplaceAll(body, "print \"end-inner\" x c", "print \"end-inner\" c")
				}
				if act.needFunc {
					src = xinit + "c := 0\nfunc f:num\n" + indent(body+"return -1\n", 1) + "end\nprint \"result\" (f)\nprint \"again\" (f)\nprint x c\n"
				} else {
					src = xinit + "c := 0\n" + body + "print \"done\" x c\n"
				}
				if act.name == "shadow" {
					// inner x is a string; arithmetic on outer x after the block must still see the number
					src += "x = x + 1\nprint x\n"
				}
				out = append(out, src)
			}
		}
	}
	// functions: parameters, locals, globals, recursion, call before definition
	out = append(out,
		"g := 1\nfunc f p:num\n    l := p + g\n    g = g + 1\n    print p l g\nend\nf 10\nf 20\nprint g\n",
		"print (fact 5)\nfunc fact:num n:num\n    if n <= 1\n        return 1\n    end\n    return n * (fact n-1)\nend\n",
		"func outer\n    l := 1\n    inner\n    print \"outer\" l\nend\nfunc inner\n    l := 2\n    print \"inner\" l\nend\nouter\n",
		"x := \"global\"\nfunc f\n    print x\n    x := \"local\"\n    print x\n    if true\n        x := \"block\"\n        print x\n    end\n    print x\nend\nf\nprint x\n",
		"func fib:num n:num\n    if n < 2\n        return n\n    end\n    return (fib n-1) + (fib n-2)\nend\nfor i := range 8\n    print (fib i)\nend\n",
		"func find:num a:[]num t:num\n    for i := range (len a)\n        for j := range 2\n            if a[i] == t and j == 1\n                return i\n            end\n        end\n    end\n    return -1\nend\nprint (find [3 4 5] 4) (find [3 4 5] 9)\n",
		"func deep:string\n    while true\n        for i := range 3\n            if i == 1\n                while true\n                    return \"out\"\n                end\n            end\n        end\n    end\n    return \"never\"\nend\nprint (deep)\n",
		"x := 0\nfor i := range 2\n    print x\n    x := 100\n    print x i\nend\nprint x\n",
		"x := 0\nw := 0\nwhile w < 2\n    w = w + 1\n    print x\n    x := 100\n    print x w\nend\nprint x\n",
		"for i := range 3\n    for i2 := range 2\n        if i2 == 1\n            break\n        end\n        print i i2\n    end\n    if i == 1\n        break\n    end\nend\nprint \"done\"\n",
		"i := 0\nwhile i < 3\n    i = i + 1\n    j := 0\n    while true\n        j = j + 1\n        if j > i\n            break\n        end\n    end\n    print i j\nend\n",
		"n := 0\nwhile n < 0\n    print \"never\"\nend\nwhile n < 2\n    n = n + 1\nend\nprint n\n",
	)
	// numeric range triples
	vals := []string{"-3", "-1", "0", "1", "2", "3", "0.5", "-0.5", "2.5", "7"}
	for _, a := range vals {
		for _, b := range vals {
			out = append(out, "for i := range "+a+" "+b+"\n    print i\nend\nprint \"end\"\n")
			for _, c := range []string{"-2", "-1", "-0.5", "0", "0.5", "1", "2", "3"} {
				out = append(out, "for i := range "+a+" "+b+" "+c+"\n    print i\nend\nprint \"end\"\n")
			}
		}
		out = append(out, "for i := range "+a+"\n    print i\nend\nprint \"end\"\n")
	}
	// range operands evaluated once; mutation of the iterated value during the loop
	out = append(out,
		"n := 3\nfor i := range n\n    n = n + 5\n    print i n\nend\n",
		"a := [1 2 3]\nfor e := range a\n    a[2] = 9\n    a = [7]\n    print e a\nend\nprint a\n",
		"s := \"aéz\"\nfor c := range s\n    s = \"q\"\n    print c s\nend\n",
		"m := {a:1 b:2 c:3}\nfor k := range m\n    del m \"b\"\n    m.z = 1\n    print k\nend\nprint m\n",
		"m := {a:1 b:2 c:3}\nfor k := range m\n    del m k\n    m[k] = 5\n    print k m\nend\n",
		"for i := range 3 0 -1\n    print i\nend\nfor i := range 0 1 0.25\n    print i\nend\n",
	)
	// the steps of a numeric range are fixed at loop entry and the loop variable is a fresh copy in every iteration:
	// writing it in the body, or keeping it in an outer variable, changes nothing about the later steps
	out = append(out,
		"for i := range 1 4\n    print \"step\" i\n    i = 100\n    print \"set\" i\nend\n",
		"first := -1\nlast := -1\nfor i := range 2 10 3\n    if first == -1\n        first = i\n    end\n    last = i\n    print i first last\nend\nprint first last\n",
		"func pick:num k:num\n    n := 0\n    best := -1\n    for v := range 10 0 -2.5\n        if n == k\n            best = v\n        end\n        if n > k\n            return best\n        end\n        n = n + 1\n    end\n    return best\nend\nprint (pick 0) (pick 1) (pick 2) (pick 9)\n",
		"kept := [0 0 0]\nm := {}\nfor i := range 3\n    kept[i] = i\n    m[sprint i] = i\n    i = i * 10\nend\nprint kept m\n",
		"a := [1 2 3]\nfor e := range a\n    e = e * 10\n    print e\nend\nprint a\nfor c := range \"ab\"\n    c = c + \"!\"\n    print c\nend\nfor k := range {p:1 q:2}\n    k = k + \"?\"\n    print k\nend\n",
		"outer := 0\nfor i := range 3\n    for j := range 2\n        outer = i\n        i = 7\n        j = 9\n    end\n    print i outer\nend\n")
	// a bare `return` leaves exactly the current procedure, from any nesting depth, also under recursion
	out = append(out,
		"func p n:num\n    print \"in\" n\n    if n > 3\n        return\n    end\n    for i := range 3\n        while true\n            if i == n\n                return\n            end\n            break\n        end\n        print \"i\" i\n    end\n    print \"end\" n\nend\np 0\np 1\np 2\np 3\np 5\nprint \"done\"\n",
		"func q n:num\n    if n == 0\n        return\n    end\n    print \"down\" n\n    q n-1\n    print \"up\" n\n    if n == 2\n        return\n    end\n    print \"tail\" n\nend\nq 3\nprint \"done\"\n",
		"func r\n    for k := range {a:1 b:2}\n        for c := range \"xy\"\n            for e := range [1 2]\n                for i := range 2\n                    print k c e i\n                    if e == 2\n                        return\n                    end\n                end\n            end\n        end\n    end\n    print \"never\"\nend\nr\nr\nprint \"done\"\n",
		"func s\n    return\nend\ns\nfunc t\n    print \"t\"\n    return\nend\nt\nprint \"done\"\n")
	// `for ... range` visits exactly the code points of a string, the elements of an array, the keys of a map:
	// every kind of content (empty, ASCII, 2-, 3- and 4-byte characters, combining marks), with the count and the
	// position checked inside the loop, with break / return from the inner loop, and without a loop variable
	for _, str := range []string{"", "abc", "añb", "x€y", "🦊!", "Hallöchen 👋🌍", "e\u0301", "世界", "a\u00a0b"} {
		q := strconv.Quote(str)
		out = append(out,
			"s := "+q+"\nn := 0\nfor ch := range s\n    print n ch (ch == s[n]) (len ch)\n    n = n + 1\nend\nprint n (len s) (n == (len s))\n",
			"n := 0\nfor range "+q+"\n    n = n + 1\nend\nprint n (len "+q+")\n",
			"func find:num s:string t:string\n    i := 0\n    for ch := range s\n        if ch == t\n            return i\n        end\n        i = i + 1\n    end\n    return -1\nend\nprint (find "+q+" \"b\") (find "+q+" \"!\") (find "+q+" \"🌍\") (find "+q+" \"界\")\n",
			"for a := range "+q+"\n    for b := range "+q+"\n        if a == b\n            break\n        end\n        print a b\n    end\nend\n")
	}
	for _, lit := range []string{"[]", "[1]", "[1 2 3]", "[[1] [] [2 3]]", "[\"a\" \"é\"]"} {
		out = append(out, "a := "+lit+"\nn := 0\nfor e := range a\n    print n e\n    n = n + 1\nend\nprint n (len a)\nfor range a\n    n = n + 1\nend\nprint n\n")
	}
	for _, lit := range []string{"{}", "{a:1}", "{b:2 a:1 c:3}", "{z:[1] y:[]}"} {
		out = append(out, "m := "+lit+"\nn := 0\nfor k := range m\n    print n k m[k]\n    n = n + 1\nend\nprint n (len m)\nfor range m\n    n = n + 1\nend\nprint n\n")
	}
	return out
}

// RunC10 : nesting programs.
func RunC10(d *Driver) *Report {
	r := NewReport("C10")
	rng := Rng()
	progs := C10Programs()
	n := 1500
	if Thorough() {
		n = 40000
	}
	r.Rule = fmt.Sprintf("exhaustive: %d programs = all pairs of if / if-else / else-if / while / the four for forms (and for without variable), with a shadowing declaration, an assignment to outer variables, a block-local, break (conditional and immediate) or return (inside a function, conditional and immediate) in the inner block; functions (parameters, locals, globals, recursion, call before definition); all numeric range pairs and triples over {-3..3, +-0.5, 2.5, 7} x steps {-2..3}; range operand evaluation and mutation during iteration; plus %d generated nestings. Printed traces compared with the Lean model. Non-trivial = distinct program", len(progs), n)
	parts := []string{"class", "trace", "globals"}
	for _, src := range progs {
		c := evalStream(r, d, "nesting", src, RunOpts{}, parts, true, nil)
		if c.Skipped == "rejected" {
			r.Disagree(Case{Stream: "nesting", Input: src, Real: "rejected: " + c.Real.ParseErr, Note: "harness program should be accepted"})
		}
	}
	o := GenOpts{Funcs: true, Maps: true, Strings: true, MaxDepth: 4, MaxStmts: 3}
	for i := 0; i < n; i++ {
		g := NewProgGen(rng, o)
		evalStream(r, d, "generated", g.Program(), RunOpts{}, parts, true, nil)
	}
	r.DriverCalls = d.N
	return r
}

// ---------------------------------------------------------------------------------------------
// C13 builtins

var reEvyBlock = regexp.MustCompile("(?s)```evy\n(.*?)```\\s*(?:Output\\s*)?```evy:output\n(.*?)```")

// DocExamples extracts the (program, documented output) pairs of a markdown file.
func DocExamples(rel string) [][2]string {
	b, err := os.ReadFile(filepath.Join(RepoDir(), rel))
	if err != nil {
		return nil
	}
	var out [][2]string
	for _, m := range reEvyBlock.FindAllStringSubmatch(string(b), -1) {
		out = append(out, [2]string{m[1], m[2]})
	}
	return out
}

// RunC13 : builtins against the documentation and the model.
func RunC13(d *Driver) *Report {
	r := NewReport("C13")
	rng := Rng()
	parts := []string{"class", "trace", "globals"}
	sweep := builtinSweep(rng, true)
	r.Rule = fmt.Sprintf("every non-graphics builtin of the regenerated builtin table x tuples of value classes (empty/ASCII/non-ASCII strings, negative/fractional/huge/NaN/Inf numbers, empty and nested composites, any): %d calls, result/err/errmsg/typeof compared with the Lean model (library functions through the oracle table, glue modelled); err/errmsg protocol sequences; test/exit/panic outcomes; all evy/evy:output example pairs of docs/builtins.md and docs/spec.md executed and compared with the documented output. Non-trivial = distinct call/program", len(sweep))
	for _, src := range sweep {
		evalStream(r, d, "sweep", src, RunOpts{}, parts, true, func(c *EvalCmp) string {
			if c.Real.Class == "gopanic" || c.Real.Class == "internal" {
				return "arguments outside a function's domain give the documented panic, never a host crash: " + c.Real.GoPanic + c.Real.ErrText
			}
			return ""
		})
	}
	for _, src := range c13Sequences() {
		c := evalStream(r, d, "sequence", src, RunOpts{}, parts, true, nil)
		if c.Skipped == "rejected" {
			r.Disagree(Case{Stream: "sequence", Input: src, Real: "rejected: " + c.Real.ParseErr, Note: "harness program should be accepted"})
		}
	}
	for _, o := range []RunOpts{{}, {FailFast: true}, {NoSummary: true}} {
		for _, src := range c13Tests() {
			evalStream(r, d, "tests", src, o, parts, true, nil)
		}
	}
	// the message of a failed test (docs/builtins.md: "a message or a format string with arguments"): with three
	// arguments the message is reported as written, also when it contains `%`; with more it is what sprintf makes of them
	for _, msg := range []string{"plain", "coverage must be 100%", "%v", "use %v here", "%%", "%d%s", "50% of %v and %", "%!", "ünï %q"} {
		src := "test 1 2 " + strconv.Quote(msg) + "\n"
		res, _, _ := RunReal(src, RunOpts{FailFast: true})
		r.Count("test-message:"+src, true)
		if !strings.Contains(res.ErrText, "("+msg+")") {
			r.Violation(Case{Stream: "test-message", Input: src, Real: res.Class + " " + res.ErrText, Spec: "the failed test is reported with the message as written: ... (" + msg + ")"})
		}
		for _, args := range []string{"7", "\"x\" 2", "[1 2] true"} {
			src2 := "test 1 2 " + strconv.Quote(msg) + " " + args + "\n"
			res2, _, _ := RunReal(src2, RunOpts{FailFast: true})
			res3, _, _ := RunReal("print (sprintf "+strconv.Quote(msg)+" "+args+")\n", RunOpts{})
			r.Count("test-message:"+src2, true)
			want := strings.TrimSuffix(res3.Out, "\n")
			if res3.Class == "ok" && !strings.Contains(res2.ErrText, "("+want+")") {
				r.Violation(Case{Stream: "test-message", Input: src2, Real: res2.Class + " " + res2.ErrText, Spec: "the failed test is reported with the formatted message, as sprintf formats it: ... (" + want + ")"})
			}
		}
	}
	// documentation examples
	nd := 0
	for _, f := range []string{"docs/builtins.md", "docs/spec.md"} {
		for _, ex := range DocExamples(f) {
			src, want := ex[0], ex[1]
			if strings.Contains(src, "read") && !strings.Contains(src, "thread") {
				continue
			}
			nd++
			c := evalStream(r, d, "docs:"+f, src, RunOpts{Input: []string{"42"}}, parts, true, nil)
			if c.Skipped != "" {
				continue
			}
			got := ""
			for _, e := range c.Real.Effects {
				switch e.Kind {
				case "print":
					got += UnHex(strings.TrimSuffix(strings.TrimPrefix(e.Args, "(print s"), ")"))
				case "cls":
					got = "" // the documented output is what is on the screen
				}
			}
			if c.Real.Class != "ok" && c.Real.ErrText != "" {
				got += c.Real.ErrText + "\n"
			}
			if !docOutputMatches(got, want) {
				kid := docKnown(src)
				cs := Case{Stream: "docs:" + f, Input: src, Real: got, Spec: "documented output: " + want, Known: kid}
				if kid != "" {
					r.KnownSeen[kid]++
					if KnownIDs()[kid] {
						continue
					}
				}
				r.Violation(cs)
			}
		}
	}
	r.Info["doc_examples"] = nd
	r.DriverCalls = d.N
	return r
}

// docOutputMatches: documented output may elide run-specific parts; compare modulo trailing space.
func docOutputMatches(got, want string) bool {
	norm := func(s string) string {
		lines := strings.Split(strings.TrimSpace(s), "\n")
		for i, l := range lines {
			lines[i] = strings.TrimRight(l, " ")
		}
		return strings.Join(lines, "\n")
	}
	return norm(got) == norm(want)
}

func docKnown(src string) string {
	switch {
	case strings.Contains(src, "rand"):
		return "docs-rand-example" // random output cannot match
	}
	return ""
}

func c13Sequences() []string {
	var out []string
	// err / errmsg protocol over sequences of conversions
	in := []string{`"1"`, `"x"`, `"1.5"`, `""`, `"true"`, `"T"`, `"0"`, `"no"`, `"Inf"`, `"0x10"`, `"1e3"`, `" 1"`, `"é"`}
	for _, a := range in {
		for _, b := range in {
			out = append(out, "n := str2num "+a+"\nprint n err errmsg\nb := str2bool "+b+"\nprint b err errmsg\nm := str2num "+b+"\nprint m err errmsg\nc := str2bool "+a+"\nprint c err errmsg\n")
		}
		out = append(out, "err = true\nerrmsg = \"mine\"\nn := str2num "+a+"\nprint n err errmsg\nerr = false\nm := str2num \"7\"\nprint m err errmsg\n")
		out = append(out, "n := str2num \"bad\"\nerr = false\nm := str2num "+a+"\nprint n m err errmsg\nerrmsg = \"x\"\nb := str2bool \"0\"\nprint b err errmsg\n")
	}
	// split / join laws
	strs := []string{`""`, `"a"`, `"a,b"`, `",a,,b,"`, `"aéb"`, `"🙂🙂"`, `"abab"`, `"aaa"`, `"aaaa"`, `"ababa"`, `"abababa"`, `"aéaéa"`}
	seps := []string{`""`, `","`, `"a"`, `"ab"`, `"é"`, `"🙂"`, `"aa"`, `"aba"`, `"aéa"`}
	// split and replace are computed by the model itself (strSplit / strReplace): every string over {a, b} up to
	// length 5 against every separator up to length 3 — leftmost, non-overlapping matching is where they can differ
	var ab func(n int) []string
	ab = func(n int) []string {
		if n == 0 {
			return []string{""}
		}
		var r []string
		for _, t := range ab(n - 1) {
			r = append(r, t+"a", t+"b")
		}
		return r
	}
	var all, short []string
	for n := 0; n <= 5; n++ {
		all = append(all, ab(n)...)
		if n <= 3 {
			short = append(short, ab(n)...)
		}
	}
	for _, sep := range short {
		var b strings.Builder
		for _, s := range all {
			fmt.Fprintf(&b, "print (split %q %q) (replace %q %q \"-\") (replace %q %q \"ab\")\n", s, sep, s, sep, s, sep)
		}
		out = append(out, b.String())
	}
	for _, s := range strs {
		for _, sep := range seps {
			out = append(out, "p := split "+s+" "+sep+"\nprint p (len p)\nj := join p "+sep+"\nprint j (j == "+s+")\n")
			out = append(out, "print (index "+s+" "+sep+") (startswith "+s+" "+sep+") (endswith "+s+" "+sep+") (replace "+s+" "+sep+" \"-\") (trim "+s+" "+sep+")\n")
		}
		out = append(out, "print (len "+s+") (upper "+s+") (lower "+s+") (repr "+s+") (sprint "+s+" 1 true)\n")
	}
	// repr / sprint / print of nested values
	out = append(out,
		"print (repr 1 \"a\" true [1 \"b\"] {k:\"v\" long_key:[1]})\n",
		"m := {}\nm[\"1a\"] = 1\nm[\"a b\"] = 2\nm[\"-\"] = 3\nm[\"ok_1\"] = 4\nm[\"é\"] = 5\nm[\"\"] = 6\nm[\"for\"] = 7\nprint m\nprint (repr m)\n",
		"a:[]any\na = [1 \"x\" [2 \"y\"] {k:\"v\"}]\nprint a\nprint (repr a)\nprint (sprint a a[1]) (join a \"|\")\n",
		"printf \"%v %v %v|%5.2f|%-4s|%q|%t|%%\\n\" 1 \"s\" true 3.14159 \"ab\" \"q\" false\n",
		"s := sprintf \"%v-%v\" [1 2] {a:1}\nprint s (len s)\n",
		"printf \"%s\\n\" 1\n",
		"printf \"%d\\n\" 1.5\n",
		"printf \"no args\\n\"\nprintf \"%v %v\\n\" 1\n",
		"printf 1 2\n",
		"print (sprintf 1)\n",
		"print (typeof 1) (typeof \"\") (typeof true) (typeof []) (typeof {}) (typeof [1]) (typeof [[1]]) (typeof [1 \"a\"]) (typeof {a:1}) (typeof {a:[1]}) (typeof [{}])\n",
		"x:any\nprint (typeof x)\nx = 1\nprint (typeof x)\ny:[]any\nprint (typeof y) (typeof [x])\n",
		"print (len \"\") (len \"aé🙂\") (len []) (len [1 2]) (len {}) (len {a:1})\n",
		"print (len 1)\n",
		"print (len true)\n",
		"print (min 1 2) (max 1 2) (abs -3) (floor 2.7) (floor -2.7) (ceil 2.1) (ceil -2.1) (round 2.5) (round -2.5) (round 3.5) (pow 2 10) (sqrt 16) (log 1) (sin 0) (cos 0) (atan2 0 1)\n",
		"print (min (0/0) 1) (max 1 (0/0)) (abs (-1/0)) (floor (0/0)) (round (1/0)) (pow 0 0) (pow -8 (1/3)) (sqrt -1) (log 0) (log -1) (atan2 0 0)\n",
	)
	// rand domain
	for _, a := range []string{"1", "2", "10", "2147483647", "2147483648", "0", "-1", "0.5", "1.5", "(0/0)", "(1/0)", "(-1/0)"} {
		out = append(out, "r := rand "+a+"\nprint (r >= 0) (r < "+a+")\n")
	}
	out = append(out, "for range 20\n    r := rand 3\n    if r < 0 or r >= 3 or r != (floor r)\n        print \"bad\" r\n    end\nend\nr1 := rand1\nprint (r1 >= 0 and r1 < 1)\n")
	// exit / panic
	for _, a := range []string{"0", "1", "3", "255", "256", "-1", "1.9", "(0/0)"} {
		out = append(out, "print \"a\"\nexit "+a+"\nprint \"b\"\n")
	}
	out = append(out, "print \"a\"\npanic \"boom\"\nprint \"b\"\n", "func f\n    panic \"in f\"\nend\nf\n", "panic \"\"\n")
	return out
}

func c13Tests() []string {
	// want and got of every pair of shapes: the same values, and only those, pass — also for maps one of which
	// holds the pairs of the other and more, at top level and inside arrays and maps
	vals := []string{"e", "{a:1}", "{a:1 b:2}", "{b:2 a:1}", "{a:1 b:3}", "{a:1 c:2}", "[{a:1}]", "[{a:1 b:2}]", "{k:{a:1}}", "{k:{a:1 b:2}}", "[e]", "[]", "[1]", "[1 2]", "1", "\"a\""}
	var pairs []string
	for _, w := range vals {
		src := "e:{}num\n"
		for _, g := range vals {
			src += "test " + w + " " + g + "\n"
		}
		pairs = append(pairs, src+"print \"after\"\n")
	}
	pairs = append(pairs, "got := {a:1 b:2}\ntest {a:1} got\ngot2 := {a:1}\ngot2.z = 0\ntest {a:1} got2 \"grown %v\" got2\nx:any\nx = got\ntest {a:1} x\ntest x {a:1}\nprint \"after\"\n")
	return append(pairs, c13TestsFixed()...)
}

func c13TestsFixed() []string {
	return []string{
		"test true\nprint \"after\"\n",
		"test false\nprint \"after\"\n",
		"test 1 1\ntest 1 2\ntest \"a\" \"a\"\ntest [1 2] [1 2]\ntest [1 2] [1 3]\ntest {a:1} {a:1}\ntest {a:1 b:2} {b:2 a:1}\nprint \"after\"\n",
		"test 1 2 \"message\"\ntest 1 2 \"fmt %v %v\" 7 \"x\"\nprint \"after\"\n",
		"x:any\nx = 1\ntest x 1\ntest 1 x\ntest [x] [1]\na:[]any\na = [1]\ntest a [1]\ntest [1] a\nprint \"after\"\n",
		"test 1 \"1\"\ntest [] []\ntest {} {}\ntest [] {}\ntest [[]] [[]]\nprint \"after\"\n",
		"test\n",
		"test 1\n",
		"test 1 2 3\n",
		"test true false true\n",
		"test (0/0) (0/0)\ntest 0 (-0)\nprint \"after\"\n",
		"for i := range 5\n    test i 2\nend\nprint \"after\"\n",
		"test true\ntest true\nexit 2\n",
		"test false\npanic \"p\"\n",
	}
}

// ---------------------------------------------------------------------------------------------
// C14 interruptibility

func c14Programs() []string {
	return []string{
		"print \"a\"\nprint \"b\"\nprint \"c\"\n",
		"i := 0\nwhile true\n    i = i + 1\n    print i\nend\n",
		"for i := range 1000000\n    print i\nend\n",
		"for range 1000000\n    // nothing\nend\nprint \"done\"\n",
		"for range 1000000\n\nend\n",
		"while true\n    // spin\nend\n",
		"func f n:num\n    print n\n    f n+1\nend\nf 0\n",
		"func loop\n    while true\n        cls\n    end\nend\nloop\n",
		"print \"start\"\ntest 1 2\nwhile true\n    print \".\"\nend\n",
		"test 1 1\ntest 1 2\ni := 0\nwhile i < 5\n    i = i + 1\n    test i 3\n    print i\nend\nprint \"end\"\n",
		"a := [1 2 3]\nfor e := range a\n    for c := range \"xy\"\n        print e c\n        cls\n    end\nend\nm := {a:1 b:2}\nfor k := range m\n    print k m[k]\nend\n",
		"x := [1 2 3] * 3\ny := x + x\nprint (len y) y[0:2]\ns := sprint y\nprint (len s)\nsleep 0.1\nx2 := read\nprint x2\n",
		"func g:num n:num\n    if n <= 0\n        return 0\n    end\n    return n + (g n-1)\nend\nprint (g 10)\nprint (g 3)\n",
		"on key k:string\n    print k\nend\nprint \"main\"\n",
		"x := 0\nwhile x < 3\n    x = x + 1\n    if x == 2\n        print \"two\"\n    else if x == 3\n        print \"three\"\n    else\n        print \"other\"\n    end\nend\nmove 1 2\nline 3 4\ncircle 5\n",
		// whatever built-in ran before, loops and calls go on yielding (an endless loop stays interruptible)
		"clear \"white\"\nfor i := range 3\n    print i\nend\nwhile true\n    print \"x\"\nend\n",
		"clear\ncolor \"red\"\nmove 1 2\nline 3 4\nrect 1 1\ncircle 2\ntext \"t\"\nwidth 2\nfunc f n:num\n    print n\n    f n+1\nend\nf 0\n",
		"grid\ngridn 5 \"red\"\npoly [1 2] [3 4]\nellipse 1 2 3\nstroke \"blue\"\nfill \"none\"\ndash 1 2\nlinecap \"round\"\nfont {size:3}\ni := 0\nwhile true\n    i = i + 1\nend\n",
		"on key k:string\n    clear\n    while true\n        print k\n    end\nend\nclear \"blue\"\nprint \"main\"\n",
		"cls\nx := read\nprint x\nsleep 0.001\nclear\nfor e := range [1 2 3]\n    print e\nend\nwhile true\n    cls\nend\n",
		// a stop inside EVERY sub-expression position: each operand is a call that yields and prints, each statement
		// prints after its operands; stopped inside an operand, nothing of the enclosing expression or statement may happen
		c14Pre + "print \"bin\" (f 1)+(f 2)*(f 3) (f 1)<(f 2) ((t 1) and (t 2)) ((u 1) or (t 2)) ((u 3) and (t 4)) ((t 5) or (t 6))\nprint \"un\" -(f 1) !(t 1)\n",
		c14Pre + "print \"idx\" (a 1)[(f 1)] (s 1)[(f 2)] (m 1)[(k 1)] (m 2).k\nprint \"after\"\n",
		c14Pre + "print \"slice\" (a 1)[(f 1):] (a 2)[:(f 2)] (a 3)[(f 1):(f 2)] (s 1)[(f 1):] (s 2)[:(f 1)] (a 4)[:]\nprint \"after\"\n",
		c14Pre + "arr := [1 2 3 4]\ni := 3\nprint \"tail\" arr[(f i):]\nprint \"done\"\n",
		c14Pre + "print \"lit\" [(f 1) (f 2) [(f 3)]] {p:(f 1) q:[(f 2)]}\nx:any\nx = (f 4)\nprint \"assert\" x.(num) (y 1).(num)\nprint \"after\"\n",
		c14Pre + "arr := [1 2 3]\narr[(f 1)] = (f 7)\nprint arr\nmp := {k:1}\nmp[(k 1)] = (f 8)\nmp.k = (f 9)\nprint mp\nv := (f 5)\nv = (f 6)\nprint v\n",
		c14Pre + "if (t 1)\n    print \"then\"\nelse if (t 2)\n    print \"elif\"\nend\nif (u 1)\n    print \"then\"\nelse if (u 2)\n    print \"elif\"\nelse\n    print \"else\"\nend\nn := 0\nwhile (lt n 2)\n    n = n + 1\nend\nprint \"after\" n\n",
		c14Pre + "for i := range (f 1) (f 4) (f 2)\n    print \"i\" i\nend\nfor e := range (a 1)\n    print \"e\" e\nend\nfor c := range (s 1)\n    print \"c\" c\nend\nfor q := range (m 1)\n    print \"q\" q\nend\nprint \"after\"\n",
		c14Pre + "func g:num p:num q:num\n    print \"g\" p q\n    return (f p) + (f q)\nend\nprint \"call\" (g (f 1) (f 2)) (len (a 1)) (sprint (f 1) (f 2))\nprint \"after\"\n",
	}
}

// c14Pre: functions that yield (they are calls with a body) and print when they run: f num, t true, u false, lt, a array, s string, m map, k key, y any
const c14Pre = "func f:num n:num\n    print \"f\" n\n    return n\nend\nfunc t:bool n:num\n    print \"t\" n\n    return true\nend\nfunc u:bool n:num\n    print \"u\" n\n    return false\nend\nfunc lt:bool p:num q:num\n    print \"lt\" p q\n    return p < q\nend\nfunc a:[]num n:num\n    print \"a\" n\n    return [10 20 30 40]\nend\nfunc s:string n:num\n    print \"s\" n\n    return \"hello\"\nend\nfunc m:{}num n:num\n    print \"m\" n\n    return {k:1 j:2}\nend\nfunc k:string n:num\n    print \"k\" n\n    return \"k\"\nend\nfunc y:any n:num\n    print \"y\" n\n    return n\nend\n"

// RunC14 : stop at every yield.
func RunC14(d *Driver) *Report {
	r := NewReport("C14")
	rng := Rng()
	progs := c14Programs()
	ngen := 40
	cap := 400
	if Thorough() {
		ngen = 600
		cap = 3000
	}
	o := GenOpts{Funcs: true, Maps: true, Strings: true, Builtins: true, Tests: true, MaxDepth: 2, MaxStmts: 3}
	for i := 0; i < ngen; i++ {
		progs = append(progs, NewProgGen(rng, o).Program())
	}
	r.Rule = fmt.Sprintf("%d programs (terminating and endless loops, recursion, comment-only loop bodies, tests, events) x every yield k up to min(total yields, %d), incl. three programs whose event handlers loop, with the stop raised at every yield of every handler run: the platform raises the stop flag during yield k. Direct checks on the real run: result is 'stopped', the effects are a prefix of the uninterrupted run's effects (plus at most the test summary), at least one yield between two consecutive effects inside loops; and class, effects and the yield count are compared with the Lean model stopped at the same yield. Non-trivial = distinct (program, k)", len(progs), cap)
	parts := []string{"class", "trace", "yields"}
	total := 0
	nfixed := len(c14Programs())
	for pi, src := range progs {
		// watchdog: the platform raises the stop flag at yield cap+50 at the latest; a run that is still going after 30 s
		// is in a loop or recursion that does not yield — it cannot be interrupted at all (the goroutine is abandoned
		// and the stream ends here: nothing can stop it)
		done := make(chan struct{})
		go func() {
			defer func() { recover(); close(done) }() //nolint
			if p, _, _ := ParseSrc(src); p != nil {
				RunReal(src, RunOpts{MaxYield: cap + 50})
			}
		}()
		select {
		case <-done:
		case <-time.After(30 * time.Second):
			r.Violation(Case{Stream: "stop", Input: src, Real: "still running 30 s after the start, with the stop flag to be raised at yield " + strconv.Itoa(cap+50) + " at the latest: the run does not yield", Spec: "an endless loop or recursion yields at least once per iteration or call and ends with 'stopped' once the flag is raised"})
			r.DriverCalls = d.N
			return r
		}
		full := CompareEval(d, src, RunOpts{MaxYield: cap + 50})
		if full.Skipped == "rejected" && pi < nfixed {
			r.Disagree(Case{Stream: "stop", Input: src, Real: "rejected: " + full.Real.ParseErr, Note: "harness program should be accepted"})
		}
		if full.Skipped == "rejected" || full.Skipped == "unserialisable" {
			continue
		}
		base, _, _ := RunReal(src, RunOpts{MaxYield: cap + 50})
		ny := base.Yields
		if ny > cap {
			ny = cap
		}
		baseTrace := RealTrace(base)
		// yields between consecutive effects of the uninterrupted run
		for k := 1; k <= ny; k++ {
			total++
			c := evalStream(r, d, "stop", src, RunOpts{StopAt: k, MaxYield: cap + 50}, parts, true, func(c *EvalCmp) string {
				if c.Real.Class != "stopped" {
					// the run may legitimately end before noticing the flag only if yield k was the last one
					if k < base.Yields {
						return fmt.Sprintf("stop flag raised at yield %d of %d but the run ended with %s", k, base.Yields, c.Real.Class)
					}
				}
				tr := c.RTrace
				if !strings.HasPrefix(baseTrace, tr) {
					// only the test summary may follow
					idx := strings.LastIndex(tr, " (print ")
					if idx < 0 {
						idx = 0
					}
					head := strings.TrimSpace(tr[:idx])
					last := strings.TrimSpace(tr[idx:])
					if !(strings.HasPrefix(baseTrace, head) && isTestSummary(last)) {
						return "effects after a stop are not a prefix of the uninterrupted run's effects"
					}
				}
				return ""
			})
			_ = c
		}
		r.Hist("yields_per_program", bucket(base.Yields))
	}
	// stops raised while an event handler runs (the host delivers events after the main program ended)
	evProgs := []struct {
		src string
		evs []evaluator.Event
	}{
		{"n := 0\nprint \"main\"\non key k:string\n    for i := range 4\n        n = n + 1\n        print k i n\n    end\nend\n",
			[]evaluator.Event{{Name: "key", Params: []any{"a"}}, {Name: "key", Params: []any{"b"}}}},
		{"total := 0\non down x:num y:num\n    while total < x\n        total = total + y\n        print total\n    end\nend\non up\n    print \"up\" total\nend\n",
			[]evaluator.Event{{Name: "down", Params: []any{6.0, 2.0}}, {Name: "up"}, {Name: "down", Params: []any{12.0, 3.0}}}},
		{"func work n:num\n    for i := range n\n        print \"w\" i\n    end\nend\non animate t:num\n    work 3\n    print t\nend\nprint 0\n",
			[]evaluator.Event{{Name: "animate", Params: []any{16.0}}, {Name: "animate", Params: []any{32.0}}}},
	}
	for _, ep := range evProgs {
		base, _, _ := RunReal(ep.src, RunOpts{MaxYield: cap + 50, Events: ep.evs})
		baseTrace := RealTrace(base)
		ny := min(base.Yields, cap)
		for k := 1; k <= ny; k++ {
			total++
			evalStream(r, d, "stop-in-handler", ep.src, RunOpts{StopAt: k, MaxYield: cap + 50, Events: ep.evs}, parts, true, func(c *EvalCmp) string {
				if c.Real.Class != "stopped" && k < base.Yields {
					return fmt.Sprintf("stop flag raised at yield %d of %d (events included) but the run ended with %s", k, base.Yields, c.Real.Class)
				}
				if !strings.HasPrefix(baseTrace, c.RTrace) {
					return "effects after a stop are not a prefix of the uninterrupted run's effects"
				}
				return ""
			})
		}
	}
	r.Info["stop_points"] = total
	r.DriverCalls = d.N
	return r
}

func isTestSummary(eff string) bool {
	if !strings.HasPrefix(eff, "(print s") {
		return false
	}
	t := UnHex(strings.TrimSuffix(strings.TrimPrefix(eff, "(print s"), ")"))
	return strings.Contains(t, "passed test") || strings.Contains(t, "failed test")
}

func bucket(n int) string {
	switch {
	case n < 10:
		return "<10"
	case n < 50:
		return "<50"
	case n < 200:
		return "<200"
	}
	return ">=200"
}

// ---------------------------------------------------------------------------------------------
// C15 events

type hdl struct {
	name   string
	params []string // declared parameter list source, e.g. "x:num y:num"
}

// RunC15 : event sequences.
func RunC15(d *Driver) *Report {
	r := NewReport("C15")
	rng := Rng()
	nseq := 30
	if Thorough() {
		nseq = 400
	}
	sigs := map[string][]string{
		"down":    {"", "x:num y:num", "_:num y:num", "x:num _:num", "_:num _:num"},
		"up":      {"", "x:num y:num"},
		"move":    {"", "x:num y:num", "a:num _:num"},
		"key":     {"", "k:string", "_:string"},
		"input":   {"", "id:string val:string", "_:string val:string", "id:string _:string"},
		"animate": {"", "t:num", "_:num"},
	}
	names := []string{"down", "up", "move", "key", "input", "animate"}
	payload := func(name string, i int) []any {
		switch name {
		case "down", "up", "move":
			return []any{float64(10 + i), float64(20 + 2*i)}
		case "key":
			return []any{[]string{"a", "Enter", "é", " ", "\t", " x ", ""}[i%7]}
		case "input":
			return []any{[]string{"slider-", " slider-", "slider "}[i%3] + strconv.Itoa(i%2), []string{"", " ", "  Ada Lovelace ", "\n"}[i%4] + strconv.Itoa(i*7) + []string{"", " "}[i%2]}
		}
		return []any{float64(i) * 16.5}
	}
	parts := []string{"class", "trace", "globals"}
	count := 0
	r.Rule = "programs with every subset pattern of the six handlers and every accepted signature (no parameters, named, `_`), handler bodies that read and update globals, declare locals (also shadowing a global after reading it) and use their parameters; handlers also store their parameters into globals, array elements and map fields by plain assignment; all event sequences of length <= 3 over the declared handlers, the same event 2-3 times in a row with the identical payload (alone and around another event), plus random sequences of length <= 40 with runs of identical payloads. Effects and final globals compared with the Lean model, and (metamorphic oracle on the real evaluator) with the same program where each handler is a procedure called with the payload prefix. Non-trivial = distinct (program, sequence)"
	body := func(name, params string) string {
		var used []string
		for _, p := range strings.Fields(params) {
			n := strings.SplitN(p, ":", 2)[0]
			if n != "_" {
				used = append(used, n)
			}
		}
		b := "    print \"" + name + "\" " + strings.Join(used, " ") + " g total lastn lasts hist names\n"
		// the conversion error state is global state like any other: a handler sees what earlier code left in it
		b += "    print \"err\" err errmsg\n"
		// globals that carry the names the built-in event signatures use for their parameters (x y n s id val k t):
		// a handler that does not declare such a parameter reads and updates the GLOBAL of that name
		isParam := map[string]bool{}
		for _, u := range used {
			isParam[u] = true
		}
		for _, gn := range []string{"x", "y", "n", "t"} {
			if !isParam[gn] {
				b += "    print \"glob " + gn + "\" " + gn + "\n    " + gn + " = " + gn + " + 1\n"
			}
		}
		for _, gn := range []string{"s", "id", "val", "k"} {
			if !isParam[gn] {
				b += "    print \"glob " + gn + "\" " + gn + "\n    " + gn + " = " + gn + " + \"!\"\n"
			}
		}
		for _, p := range strings.Fields(params) {
			pn := strings.SplitN(p, ":", 2)
			if pn[0] == "_" {
				continue
			}
			if pn[1] == "num" {
				b += "    lastn = " + pn[0] + "\n    hist[0] = " + pn[0] + "\n    names.n = " + pn[0] + "\n"
			} else {
				b += "    lasts = " + pn[0] + "\n"
			}
		}
		b += "    g = g + 1\n"
		// every third event: a bare `return` from inside a loop inside an if — the rest of the handler does not run
		b += "    if g % 3 == 0\n        for ri := range 2\n            if ri == 1\n                print \"early\" g\n                return\n            end\n        end\n    end\n"
		b += "    l := g * 100\n    print \"local\" l\n    l = l + 1\n"
		if len(used) > 0 && (strings.Contains(params, ":num")) {
			for _, p := range strings.Fields(params) {
				pn := strings.SplitN(p, ":", 2)
				if pn[0] != "_" && pn[1] == "num" {
					b += "    total = total + " + pn[0] + "\n"
					break
				}
			}
		}
		b += "    print \"sh before\" sh\n    sh := \"shadow\"\n    print sh l\n"
		b += "    cv := str2num lasts\n    print \"cv\" cv err\n"
		return b
	}
	for variant := 0; variant < 6; variant++ {
		// choose one signature per handler (rotate through the alternatives)
		var hs []hdl
		src := "g := 0\ntotal := 0\nsh := 101\nlastn := 0\nlasts := \"\"\nhist := [0 0]\nnames := {n:0}\nx := 100\ny := 200\nn := 300\nt := 400\ns := \"S\"\nid := \"ID\"\nval := \"VAL\"\nk := \"K\"\nprint \"main\" g x y n t s id val k\nbad := str2num \"zz\"\nprint bad err errmsg\n"
		fsrc := src
		for hi, name := range names {
			if (variant+hi)%4 == 3 {
				continue // this handler is not declared in this variant
			}
			alts := sigs[name]
			params := alts[(variant+hi)%len(alts)]
			hs = append(hs, hdl{name, strings.Fields(params)})
			src += "on " + name + " " + params + "\n" + body(name, params) + "end\n"
			fparams := params
			var unusedNames []string
			for k := 0; strings.Contains(fparams, "_:"); k++ {
				un := "unused" + strconv.Itoa(hi) + "x" + strconv.Itoa(k)
				fparams = strings.Replace(fparams, "_:", un+":", 1)
				unusedNames = append(unusedNames, un)
			}
			fsrc += "func h_" + name + " " + fparams + "\n" + body(name, params)
			for _, un := range unusedNames {
				fsrc += "    " + un + " = " + un + "\n"
			}
			fsrc += "end\n"
		}
		src = strings.ReplaceAll(src, "on down \n", "on down\n")
		// sequences
		var seqs [][]int
		for a := range hs {
			seqs = append(seqs, []int{a})
			for b := range hs {
				seqs = append(seqs, []int{a, b})
				for c := range hs {
					if (a+b+c)%3 == 0 {
						seqs = append(seqs, []int{a, b, c})
					}
				}
			}
		}
		for i := 0; i < nseq; i++ {
			n := 4 + rng.Intn(37)
			s := make([]int, n)
			for j := range s {
				s[j] = rng.Intn(len(hs))
			}
			seqs = append(seqs, s)
		}
		// the same event several times in a row, with the identical payload
		for a := range hs {
			seqs = append(seqs, []int{a, a, -1}, []int{a, a, a, -1})
			for b := range hs {
				seqs = append(seqs, []int{a, a, b, a, a, -1})
			}
		}
		for _, seq := range seqs {
			var evs []evaluator.Event
			calls := ""
			samePayload := false
			if len(seq) > 0 && seq[len(seq)-1] == -1 {
				samePayload = true
				seq = seq[:len(seq)-1]
			}
			for i, hi := range seq {
				h := hs[hi]
				pi := i
				if samePayload {
					pi = 3
				} else if len(seq) > 6 {
					pi = i / 3 // runs of identical payloads inside the long random sequences
				}
				pl := payload(h.name, pi)
				evs = append(evs, evaluator.Event{Name: h.name, Params: pl})
				call := "h_" + h.name
				for pi := range h.params {
					switch v := pl[pi].(type) {
					case float64:
						call += " " + strconv.FormatFloat(v, 'f', -1, 64)
					case string:
						call += " " + strconv.Quote(v)
					}
				}
				calls += call + "\n"
			}
			count++
			c := evalStream(r, d, "events", src, RunOpts{Events: evs}, parts, true, nil)
			if c.Skipped != "" {
				if c.Skipped == "rejected" {
					r.Disagree(Case{Stream: "events", Input: src, Real: "rejected: " + c.Real.ParseErr, Note: "harness program should be accepted"})
				}
				break
			}
			// metamorphic: procedures instead of handlers
			fres, _, fglobals := RunReal(fsrc+calls, RunOpts{})
			ftrace := RealTrace(fres)
			if fres.Class == "rejected" {
				r.Disagree(Case{Stream: "events-metamorphic", Input: fsrc + calls, Real: "rejected: " + fres.ParseErr, Note: "harness program should be accepted"})
				break
			}
			if ftrace != c.RTrace || fglobals != c.RGlobals || fres.Class != c.RClass {
				r.Violation(Case{Stream: "events-metamorphic", Input: src, Real: c.RClass + " | " + trunc(c.RTrace, 1500) + " | " + c.RGlobals,
					Spec: "same effects and globals as calling equivalent procedures: " + fres.Class + " | " + trunc(ftrace, 1500) + " | " + fglobals, Note: fmt.Sprintf("events=%v", evs)})
			}
		}
	}
	r.Info["sequences"] = count
	r.DriverCalls = d.N
	return r
}
