package hx

import (
	"encoding/base64"
	"errors"
	"fmt"
	"os"
	"path/filepath"
	"strings"

	"evylang.dev/evy/learn/pkg/learn"
)

func c20Question(answerType, answer string, outputs []string) (string, string) {
	fm := "type: question\ndifficulty: easy\nanswer-type: " + answerType + "\nanswer: " + answer + "\n"
	md := "# Question\n\nWhat does this program output?\n\n```evy\nprint \"hi\"\n```\n\nChoose:\n\n"
	for _, o := range outputs {
		md += "- ```\n  " + o + "\n  ```\n"
	}
	return fm, md
}

// RunC20 : sealing round trip / tamper safety on the real crypto, header arithmetic against the
// Lean model, verification iff over all subsets.
func RunC20(d *Driver) *Report {
	r := NewReport("C20")
	rng := Rng()
	nkeys, ntexts := 2, 12
	if Thorough() {
		nkeys, ntexts = 3, 60
	}
	r.Rule = fmt.Sprintf("%d generated RSA key pairs (1024 and 2048 bit) x %d texts (empty, ASCII, Unicode, 10 KiB): Encrypt then Decrypt must return the text; every truncation and every single-byte corruption (3 bit patterns per position) of each sealed value and decryption with another key must fail or return the original text; whether the real Decrypt reports 'sealed too short' is compared with the Lean model's header arithmetic; all multiple-choice and single-choice questions over all subsets of marked letters a..e x all assignments of two outputs to 2-4 choices are built with WithRawMD and QuestionModel.Verify is compared with the Lean verifyChoice and with the iff of the property. Non-trivial = distinct (key, text, mutation) / (marks, outputs)", nkeys, ntexts)
	ask := func(q string) string {
		a, err := d.Ask(q)
		if err != nil {
			panic(err)
		}
		return a
	}
	var keys []learn.KeyPair
	for i := 0; i < nkeys; i++ {
		bits := 1024
		if i == 1 {
			bits = 2048
		}
		kp, err := learn.Keygen(bits)
		if err != nil {
			r.Disagree(Case{Stream: "keygen", Input: bits, Real: err.Error()})
			return r
		}
		keys = append(keys, kp)
	}
	texts := []string{"", "a", "a, c", "print \"hi\"", "é世界🙂", strings.Repeat("long text ", 1000), "\x00\x01\xff"}
	for len(texts) < ntexts {
		n := rng.Intn(200)
		b := make([]byte, n)
		for i := range b {
			b[i] = byte(rng.Intn(256))
		}
		texts = append(texts, string(b))
	}
	for ki, kp := range keys {
		other := keys[(ki+1)%len(keys)]
		for ti, text := range texts {
			sealed, err := learn.Encrypt(kp.Public, text)
			if err != nil {
				r.Violation(Case{Stream: "seal", Input: text, Real: "Encrypt: " + err.Error(), Spec: "sealing succeeds for every text"})
				continue
			}
			got, err := learn.Decrypt(kp.Private, sealed)
			r.Count(fmt.Sprintf("rt:%d:%d", ki, ti), true)
			if err != nil || got != text {
				r.Violation(Case{Stream: "roundtrip", Input: text, Real: fmt.Sprintf("%q %v", got, err), Spec: "unsealing returns the original text"})
				continue
			}
			r.Sample(map[string]any{"text_len": len(text), "sealed_len": len(sealed), "roundtrip": "ok"}, 3)
			// wrong key
			got, err = learn.Decrypt(other.Private, sealed)
			r.Count(fmt.Sprintf("wk:%d:%d", ki, ti), true)
			if err == nil && got != text {
				r.Violation(Case{Stream: "wrong-key", Input: text, Real: got, Spec: "another key rejects or yields the original"})
			}
			raw, _ := base64.StdEncoding.DecodeString(sealed)
			if len(text) > 2000 && ti > 6 {
				continue
			}
			nmut := 0
			check := func(kind string, mut []byte) {
				got, err := learn.Decrypt(kp.Private, base64.StdEncoding.EncodeToString(mut))
				nmut++
				r.Count(fmt.Sprintf("%s:%d:%d:%d", kind, ki, ti, nmut), true)
				r.Hist("tamper", kind)
				if err == nil && got != text {
					r.Violation(Case{Stream: "tamper-" + kind, Input: map[string]any{"text": text, "sealed": sealed, "mutated": base64.StdEncoding.EncodeToString(mut)},
						Real: fmt.Sprintf("%q", got), Spec: "an altered sealed value is rejected or still yields the original answer"})
				}
				// header arithmetic vs the Lean model
				b1, b2 := 0, 0
				if len(mut) > 1 {
					b1 = int(mut[1])
				}
				if len(mut) > 2 {
					b2 = int(mut[2])
				}
				model := ask(fmt.Sprintf("envsplit %d %d %d", len(mut), b1, b2))
				realShort := errors.Is(err, learn.ErrSealedTooShort)
				if realShort != (model == "tooShort") {
					r.Disagree(Case{Stream: "envelope-header", Input: fmt.Sprintf("len=%d b1=%d b2=%d", len(mut), b1, b2), Real: fmt.Sprint(err), Model: model})
				}
			}
			step := 1
			if len(raw) > 600 {
				step = len(raw) / 300
			}
			for cut := 0; cut < len(raw); cut += step {
				check("truncate", append([]byte{}, raw[:cut]...))
			}
			for pos := 0; pos < len(raw); pos += step {
				for _, x := range []byte{0x01, 0x80, 0xff} {
					m := append([]byte{}, raw...)
					m[pos] ^= x
					check("flip", m)
				}
			}
			// extension
			check("extend", append(append([]byte{}, raw...), 0))
		}
	}
	// marks that are not choice letters are never accepted (building the question or verifying it fails)
	for _, at := range []string{"single-choice", "multiple-choice"} {
		for _, bad := range []string{"A", "1", "ab", "a b", "aa", "a,,b", "a, A", "ä", "-", "a, 1", "z", "a, z", "\"\""} {
			fm, md := c20Question(at, bad, []string{"hi", "ho"})
			r.Count("verify-invalid:"+at+":"+bad, true)
			q, err := learn.NewQuestionModel("course/unit/exercise/q.md", learn.WithRawMD(fm, md))
			if err != nil {
				continue
			}
			if q.Verify() == nil {
				r.Violation(Case{Stream: "verify-invalid", Input: fm + "---\n" + md, Real: "accepted", Spec: "the marked choices are not precisely the matching choice (a): rejected"})
			}
		}
	}
	// verification iff
	letters := "abcde"
	for nch := 2; nch <= 4; nch++ {
		for assign := 0; assign < 1<<nch; assign++ {
			outs := make([]string, nch)
			for i := range outs {
				if assign&(1<<i) != 0 {
					outs[i] = "hi"
				} else {
					outs[i] = "ho"
				}
			}
			for marks := 1; marks < 1<<5; marks++ {
				var ans []string
				bits := ""
				for i := 0; i < 5; i++ {
					if marks&(1<<i) != 0 {
						ans = append(ans, string(letters[i]))
						bits += "1"
					} else {
						bits += "0"
					}
				}
				types := []string{"multiple-choice"}
				if len(ans) == 1 {
					types = append(types, "single-choice")
				}
				for _, at := range types {
					fm, md := c20Question(at, strings.Join(ans, ", "), outs)
					q, err := learn.NewQuestionModel("course/unit/exercise/q.md", learn.WithRawMD(fm, md))
					key := fmt.Sprintf("verify:%s:%s:%v", at, bits, outs)
					r.Count(key, true)
					if err != nil {
						r.Disagree(Case{Stream: "verify-build", Input: fm + "---\n" + md, Real: err.Error()})
						continue
					}
					verr := q.Verify()
					real := "ok"
					if verr != nil {
						real = "wrong"
						if !errors.Is(verr, learn.ErrWrongAnswer) {
							real = "error:" + verr.Error()
						}
					}
					model := ask("verifychoice " + bits + " hi " + strings.Join(outs, " "))
					// the property's iff, directly
					spec := "ok"
					for i := 0; i < 5; i++ {
						marked := marks&(1<<i) != 0
						matches := i < nch && outs[i] == "hi"
						if marked != matches {
							spec = "wrong"
						}
					}
					r.Sample(map[string]any{"answer": strings.Join(ans, ", "), "outputs": outs, "verify": real}, 6)
					if real != spec {
						r.Violation(Case{Stream: "verify", Input: fm + "---\n" + md, Real: real, Model: model, Spec: "accepted exactly when the marked choices are precisely the matching ones: " + spec})
					} else if real != model {
						r.Disagree(Case{Stream: "verify", Input: fm + "---\n" + md, Real: real, Model: model, Spec: spec})
					}
				}
			}
		}
	}
	// the marked letters are a SET: every order in which two or three of the letters a..e are written gives the verdict
	// of the set (in particular a letter without a choice, wherever it stands)
	for _, outs := range [][]string{{"hi", "ho", "ho"}, {"hi", "hi", "ho"}, {"ho", "hi"}, {"hi", "ho", "hi", "ho"}} {
		for _, ans := range c20Orders() {
			fmo, mdo := c20Question("multiple-choice", strings.Join(ans, ", "), outs)
			q, err := learn.NewQuestionModel("course/unit/exercise/q.md", learn.WithRawMD(fmo, mdo))
			r.Count("verify-order:"+strings.Join(ans, "")+fmt.Sprint(outs), true)
			if err != nil {
				continue
			}
			marked := map[int]bool{}
			for _, a := range ans {
				marked[int(a[0]-'a')] = true
			}
			spec := "ok"
			for i := 0; i < 5; i++ {
				if marked[i] != (i < len(outs) && outs[i] == "hi") {
					spec = "wrong"
				}
			}
			real := "ok"
			if q.Verify() != nil {
				real = "wrong"
			}
			if real != spec {
				r.Violation(Case{Stream: "verify-order", Input: fmo + "---\n" + mdo, Real: real, Spec: "accepted exactly when the marked choices are precisely the matching ones, in whatever order they are written: " + spec})
			}
		}
	}
	// seal / unseal through the question front matter: state after each operation
	fm, md := c20Question("single-choice", "a", []string{"hi", "ho"})
	q, err := learn.NewQuestionModel("course/unit/exercise/q.md", learn.WithRawMD(fm, md), learn.WithPrivateKey(keys[0].Private))
	if err == nil {
		steps := []string{}
		ok := true
		for i, ans := range []string{"a", "b", "a"} {
			q.Frontmatter.Answer = ans
			q.Frontmatter.SealedAnswer = ""
			if err := q.Seal(keys[0].Public); err != nil {
				ok = false
				steps = append(steps, "seal: "+err.Error())
				break
			}
			v1 := q.Verify()
			if err := q.Unseal(); err != nil {
				ok = false
				steps = append(steps, "unseal: "+err.Error())
				break
			}
			v2 := q.Verify()
			steps = append(steps, fmt.Sprintf("round %d answer=%s sealedVerify=%v unsealedAnswer=%q unsealedVerify=%v", i, ans, v1 == nil, q.Frontmatter.Answer, v2 == nil))
			want := ans == "a"
			if (v1 == nil) != want || (v2 == nil) != want || q.Frontmatter.Answer != ans {
				ok = false
			}
		}
		r.Count("seal-sequence", true)
		if !ok {
			r.Violation(Case{Stream: "seal-sequence", Input: fm, Real: strings.Join(steps, "; "), Spec: "after re-sealing a changed answer, verification and unsealing use the new answer"})
		}
	}
	nprog := c20ProgramChoices(r)
	r.Rule += "; every sequence of two and three different marked letters of a..e (every writing order of every such set, also with letters that have no choice) on four output assignments: the verdict is that of the set"
	r.Rule += fmt.Sprintf("; %d verifications of questions whose choices are programs that are really run, the same programs used in a text and in an SVG question of one process, in both orders, all subsets of marks", nprog)
	r.DriverCalls = d.N
	return r
}

// c20ProgramChoices: questions whose choices are programs that are really run (evy:source), the same
// programs used by a text question and by an SVG question in one process, in both orders: Verify must
// accept exactly when the marked choices are the ones whose output (of the question's kind) matches.
func c20ProgramChoices(r *Report) int {
	n := 0
	type set struct {
		files             map[string]string
		textTruth, svgTru string
		expect            string
	}
	sets := []set{
		{map[string]string{"prog.a.evy": "print \"hi\"\nmove 50 50\ncircle 10\n", "prog.b.evy": "print \"ho\"\nmove 50 50\ncircle 20\n", "prog.c.evy": "print \"hi\"\nmove 30 30\ncircle 10\n", "pic.evy": "move 50 50\ncircle 10\n"}, "a, c", "a", "hi"},
		{map[string]string{"prog.a.evy": "print 1+1\nrect 10 10\n", "prog.b.evy": "print 2\nmove 10 10\nrect 10 10\n", "prog.c.evy": "print \"2\"\nrect 10 10\n", "pic.evy": "rect 10 10\n"}, "a, b, c", "a, c", "2"},
		{map[string]string{"prog.a.evy": "print \"x\"\nline 5 5\n", "prog.b.evy": "print \"y\"\nline 5 5\n", "prog.c.evy": "print \"x\"\nline 6 6\n", "pic.evy": "line 6 6\n"}, "a, c", "c", "x"},
	}
	// outputs that differ from the question's only in leading or trailing whitespace are different outputs
	sets = append(sets,
		set{map[string]string{"prog.a.evy": "print \"hi\"\nmove 50 50\ncircle 10\n", "prog.b.evy": "print \" hi\"\nmove 50 50\ncircle 10\n", "prog.c.evy": "print \"hi\\n\"\nmove 50 50\ncircle 10\n", "pic.evy": "move 50 50\ncircle 10\n"}, "a", "a, b, c", "hi"},
		set{map[string]string{"prog.a.evy": "print \"hi \"\nline 5 5\n", "prog.b.evy": "print \"hi\"\nline 5 5\n", "prog.c.evy": "print \"\\thi\"\nline 6 6\n", "pic.evy": "line 6 6\n"}, "b", "c", "hi"})
	subsets := []string{"a", "b", "c", "a, b", "a, c", "b, c", "a, b, c"}
	for si, st := range sets {
		for _, order := range [][]string{{"text", "svg"}, {"svg", "text"}} {
			base, err := os.MkdirTemp("", "verif-c20-")
			if err != nil {
				continue
			}
			dir := filepath.Join(base, fmt.Sprintf("course%d%s", si, order[0]), "unit", "exercise")
			os.MkdirAll(dir, 0o777) //nolint
			for name, content := range st.files {
				os.WriteFile(filepath.Join(dir, name), []byte(content), 0o666) //nolint
			}
			choices := "- [answer](prog.a.evy \"evy:source\")\n- [answer](prog.b.evy \"evy:source\")\n- [answer](prog.c.evy \"evy:source\")\n"
			for _, kind := range order {
				md, truth := "Which programs print this?\n\n```\n"+st.expect+"\n```\n\n"+choices, st.textTruth
				if kind == "svg" {
					md, truth = "Which programs draw this?\n\n[question](pic.evy \"evy:svg\")\n\n"+choices, st.svgTru
				}
				for _, marked := range subsets {
					fm := "type: question\nanswer-type: multiple-choice\nanswer: " + marked + "\n"
					fname := filepath.Join(dir, kind+"-"+strings.ReplaceAll(marked, ", ", "")+".md")
					q, err := learn.NewQuestionModel(fname, learn.WithRawMD(fm, md))
					n++
					r.Count(fmt.Sprintf("verify-programs:%d:%v:%s:%s", si, order, kind, marked), true)
					if err != nil {
						r.Disagree(Case{Stream: "verify-programs", Input: fm + "---\n" + md, Real: "cannot build: " + err.Error()})
						continue
					}
					accepted := q.Verify() == nil
					if accepted != (marked == truth) {
						r.Violation(Case{Stream: "verify-programs", Input: map[string]any{"files": st.files, "frontmatter": fm, "markdown": md, "question kinds in this process": order},
							Real: fmt.Sprintf("accepted=%v", accepted), Spec: fmt.Sprintf("a %s question is accepted exactly when the marked choices are those whose %s output matches: %q", kind, kind, truth)})
					}
				}
			}
			os.RemoveAll(base)
		}
	}
	// choices given as ONE txtar archive (each file a choice: `.evy` files are run, other files are the output itself):
	// programs only, literal outputs only, and both kinds mixed in either order
	type arch struct {
		files [][2]string // name, content
		truth string
	}
	for ai, a := range []arch{
		{[][2]string{{"a.evy", "print \"hi\"\n"}, {"b.evy", "print \"ho\"\n"}, {"c.evy", "print \"h\"+\"i\"\n"}}, "a, c"},
		{[][2]string{{"a.txt", "ho\n"}, {"b.txt", "hi\n"}, {"c.txt", "hi \n"}}, "b"},
		{[][2]string{{"a.evy", "print \"x\"\n"}, {"b.txt", "hi\n"}, {"c.evy", "print \"hi\"\n"}}, "b, c"},
		{[][2]string{{"a.txt", "hi\n"}, {"b.evy", "print \"hi\"\n"}, {"c.evy", "print \"ho\"\n"}}, "a, b"},
		{[][2]string{{"a.txt", "print \"hi\" \n"}, {"b.evy", "print \"hi\"\n"}, {"c.txt", "ho\n"}}, "b"},
	} {
		base, err := os.MkdirTemp("", "verif-c20-")
		if err != nil {
			continue
		}
		dir := filepath.Join(base, fmt.Sprintf("coursex%d", ai), "unit", "exercise")
		os.MkdirAll(dir, 0o777) //nolint
		var ar strings.Builder
		for _, f := range a.files {
			ar.WriteString("-- " + f[0] + " --\n" + f[1])
		}
		os.WriteFile(filepath.Join(dir, "q.txtar"), []byte(ar.String()), 0o666) //nolint
		md := "Which one prints this?\n\n```\nhi\n```\n\n- [answer](q.txtar \"evy:source\")\n"
		for _, marked := range subsets {
			fm := "type: question\nanswer-type: multiple-choice\nanswer: " + marked + "\n"
			q, err := learn.NewQuestionModel(filepath.Join(dir, "q-"+strings.ReplaceAll(marked, ", ", "")+".md"), learn.WithRawMD(fm, md))
			n++
			r.Count(fmt.Sprintf("verify-txtar:%d:%s", ai, marked), true)
			if err != nil {
				r.Disagree(Case{Stream: "verify-txtar", Input: fm + "---\n" + md + "--- q.txtar\n" + ar.String(), Real: "cannot build: " + err.Error()})
				continue
			}
			accepted := q.Verify() == nil
			if accepted != (marked == a.truth) {
				r.Violation(Case{Stream: "verify-txtar", Input: fm + "---\n" + md + "--- q.txtar\n" + ar.String(), Real: fmt.Sprintf("accepted=%v", accepted),
					Spec: fmt.Sprintf("accepted exactly when the marked choices are those whose output is the question's output: %q", a.truth)})
			}
		}
		os.RemoveAll(base)
	}
	return n
}

// c20Orders: every sequence of two or three different letters of a..e
func c20Orders() [][]string {
	var out [][]string
	l := "abcde"
	for i := 0; i < 5; i++ {
		for j := 0; j < 5; j++ {
			if j == i {
				continue
			}
			out = append(out, []string{string(l[i]), string(l[j])})
			for k := 0; k < 5; k++ {
				if k != i && k != j {
					out = append(out, []string{string(l[i]), string(l[j]), string(l[k])})
				}
			}
		}
	}
	return out
}
