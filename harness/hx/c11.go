package hx

import (
	"fmt"
	"math"
	"strconv"
	"strings"
)

// numExpr renders a float64 as an evy expression (source text) that evaluates to it.
func NumExpr(f float64) string {
	switch {
	case math.IsNaN(f):
		return "(0/0)"
	case math.IsInf(f, 1):
		return "(1/0)"
	case math.IsInf(f, -1):
		return "(-1/0)"
	case f == 0 && math.Signbit(f):
		return "(-0)"
	case f < 0:
		return "(-" + strconv.FormatFloat(-f, 'f', -1, 64) + ")"
	}
	return strconv.FormatFloat(f, 'f', -1, 64)
}

type seqCase struct {
	name  string
	decl  string   // evy declaration of variable s
	elems []string // printed form of each element (code point for strings)
	isStr bool
	long  bool // only the near-integer values are tried (the exhaustive part is for the short ones)
}

func c11Seqs(maxLen int) []seqCase {
	var out []seqCase
	for n := 0; n <= maxLen; n++ {
		var el []string
		for i := 0; i < n; i++ {
			el = append(el, strconv.Itoa(10*(i+1)))
		}
		decl := "s := [" + strings.Join(el, " ") + "]"
		if n == 0 {
			decl = "s:[]num"
		}
		out = append(out, seqCase{name: fmt.Sprintf("arr%d", n), decl: decl, elems: el})
	}
	alpha := []string{"a", "é", "世", "🙂", "b", "ß", "z", "ж"}
	for n := 0; n <= maxLen; n++ {
		out = append(out, seqCase{name: fmt.Sprintf("str%d", n), decl: "s := " + strconv.Quote(strings.Join(alpha[:n], "")), elems: alpha[:n], isStr: true})
	}
	// pure ASCII string too
	out = append(out, seqCase{name: "ascii3", decl: `s := "xyz"`, elems: []string{"x", "y", "z"}, isStr: true})
	// two long sequences: the sum of a near-integer and a length >= 5 (>= 9, >= 17) rounds to an integer
	for _, n := range []int{9, 17} {
		if n <= maxLen {
			continue
		}
		var el []string
		for i := 0; i < n; i++ {
			el = append(el, strconv.Itoa(10*(i+1)))
		}
		out = append(out, seqCase{name: fmt.Sprintf("arr%d", n), decl: "s := [" + strings.Join(el, " ") + "]", elems: el, long: true})
		var cs []string
		for i := 0; i < n; i++ {
			cs = append(cs, alpha[i%len(alpha)])
		}
		out = append(out, seqCase{name: fmt.Sprintf("str%d", n), decl: "s := " + strconv.Quote(strings.Join(cs, "")), elems: cs, isStr: true, long: true})
	}
	return out
}

func c11IndexValues(n int) []float64 {
	vals := []float64{}
	for i := -n - 3; i <= n+3; i++ {
		vals = append(vals, float64(i))
	}
	vals = append(vals, 0.5, -0.5, 1.5, float64(n)-0.5, -float64(n)-0.5, 1e-9, float64(n)+1e-9,
		math.Copysign(0, -1), 9007199254740992, -9007199254740992, 9223372036854775807, 9223372036854775808,
		-9223372036854775808, -9223372036854777856, 18446744073709551616, 1e300, -1e300, 4294967296, -4294967296,
		2147483648, 4294967296+float64(n), math.NaN(), math.Inf(1), math.Inf(-1), 4.9e-324)
	vals = append(vals, c11NearIntegers(n)...)
	return vals
}

// c11NearIntegers: the two neighbours (one ulp away) of every integer in [-n-1, n+1], and tiny
// magnitudes of both signs: not integers, however the bound is computed (an index normalised by a
// float addition first would round them to one)
func c11NearIntegers(n int) []float64 {
	var vals []float64
	for i := -n - 1; i <= n+1; i++ {
		f := float64(i)
		vals = append(vals, math.Nextafter(f, math.Inf(1)), math.Nextafter(f, math.Inf(-1)))
	}
	vals = append(vals, -1e-17, 1e-17, -4.9e-324, -2.3e-308, -0.9999999999999999, -1.0000000000000002)
	return vals
}

func renderSeq(c seqCase, elems []string) string {
	if c.isStr {
		return strings.Join(elems, "")
	}
	return "[" + strings.Join(elems, " ") + "]"
}

// RunC11 is the black-box correspondence for index and slice laws.
func RunC11(d *Driver) *Report {
	r := NewReport("C11")
	maxLen := 4
	if Thorough() {
		maxLen = 7
	}
	r.Rule = fmt.Sprintf("exhaustive: every array and string (ASCII and non-ASCII) of length 0..%d x every index value in [-n-3,n+3] plus fractional/huge/NaN/Inf values, for reads, slices (all pairs of bounds incl. missing) and index assignment; a case is non-trivial when it is distinct (sequence, operation, bounds) and the model took a non-default branch (any outcome other than the middle of the valid range counts: all are kept distinct by key)", maxLen)
	r.Exhaustive = true
	ask := func(q string) string {
		a, err := d.Ask(q)
		if err != nil {
			panic(err)
		}
		return a
	}
	for _, c := range c11Seqs(maxLen) {
		n := len(c.elems)
		vals := c11IndexValues(n)
		if c.long {
			vals = append(c11NearIntegers(n), -1, 0, float64(n-1), float64(-n), float64(n))
		}
		// reads
		for _, v := range vals {
			src := c.decl + "\nprint s[" + NumExpr(v) + "]\n"
			model := ask(fmt.Sprintf("index i %d %s", n, FHex(v)))
			want := modelIdxToObs(model, func(j int) string { return c.elems[j] + "\n" }, n)
			res := RunSrc(src, RunOpts{})
			got := obsOf(res)
			r.Count(src, true)
			r.Hist("outcomes", strings.SplitN(want, " ", 2)[0])
			r.Sample(map[string]string{"program": src, "real": got, "model": want}, 6)
			if got != want {
				c11Classify(r, "index-read", src, got, want, specIndex(c.elems, v, func(j int) string { return c.elems[j] + "\n" }))
			}
			// assignment through the index (arrays only; strings are rejected statically)
			if !c.isStr {
				src2 := c.decl + "\ns[" + NumExpr(v) + "] = 99\nprint s\n"
				want2 := modelIdxToObs(model, func(j int) string {
					e := append([]string{}, c.elems...)
					e[j] = "99"
					return renderSeq(c, e) + "\n"
				}, n)
				res2 := RunSrc(src2, RunOpts{})
				got2 := obsOf(res2)
				r.Count(src2, true)
				if got2 != want2 {
					c11Classify(r, "index-assign", src2, got2, want2, specIndex(c.elems, v, func(j int) string {
						e := append([]string{}, c.elems...)
						e[j] = "99"
						return renderSeq(c, e) + "\n"
					}))
				}
			} else if n > 0 && v == 0 {
				src2 := c.decl + "\ns[0] = \"q\"\nprint s\n"
				res2 := RunSrc(src2, RunOpts{})
				r.Count(src2, true)
				if res2.Class != "rejected" {
					r.Violation(Case{Stream: "string-index-assign", Input: src2, Real: obsOf(res2), Spec: "rejected", Note: "strings are not assignable by index"})
				}
			}
		}
		// slices
		bvals := []float64{}
		for i := -n - 2; i <= n+2; i++ {
			bvals = append(bvals, float64(i))
		}
		bvals = append(bvals, 0.5, math.NaN(), math.Inf(1), 9223372036854775808, -9223372036854775808, 1e300, math.Copysign(0, -1),
			-1e-17, -1.0000000000000002, -0.9999999999999999, math.Nextafter(float64(n), math.Inf(-1)), math.Nextafter(-float64(n), math.Inf(1)), math.Nextafter(-float64(n), math.Inf(-1)))
		if c.long {
			bvals = []float64{0, 1, -1, float64(n), -float64(n), -1e-17, -1.0000000000000002, -0.9999999999999999, math.Nextafter(float64(n), math.Inf(-1)),
				math.Nextafter(-float64(n), math.Inf(1)), math.Nextafter(-float64(n), math.Inf(-1)), math.Nextafter(2, math.Inf(1))}
		}
		type ob struct {
			present bool
			v       float64
		}
		opts := []ob{{false, 0}}
		for _, v := range bvals {
			opts = append(opts, ob{true, v})
		}
		for _, a := range opts {
			for _, b := range opts {
				as, bs, ah, bh := "", "", "-", "-"
				if a.present {
					as, ah = NumExpr(a.v), FHex(a.v)
				}
				if b.present {
					bs, bh = NumExpr(b.v), FHex(b.v)
				}
				src := c.decl + "\nprint s[" + as + ":" + bs + "]\n"
				model := ask(fmt.Sprintf("slice %d %s %s", n, ah, bh))
				var want string
				f := strings.Fields(model)
				if f[0] == "ok" {
					s, _ := strconv.Atoi(f[1])
					e, _ := strconv.Atoi(f[2])
					if s > e || e > n {
						want = "gopanic"
					} else {
						want = "ok " + strconv.Quote(renderSeq(c, c.elems[s:e])+"\n")
					}
				} else {
					want = "panic:" + f[0]
				}
				res := RunSrc(src, RunOpts{})
				got := obsOf(res)
				r.Count(src, true)
				r.Hist("outcomes", strings.SplitN(want, " ", 2)[0])
				if got != want {
					c11Classify(r, "slice", src, got, want, specSlice(c, a.present, a.v, b.present, b.v))
				}
			}
		}
		// freshness of slices: modifying the slice must not show in the original and vice versa
		if !c.isStr && n >= 2 {
			src := c.decl + "\nt := s[0:" + strconv.Itoa(n) + "]\nt[0] = 77\ns[1] = 88\nprint s t\n"
			e1 := append([]string{}, c.elems...)
			e1[1] = "88"
			e2 := append([]string{}, c.elems...)
			e2[0] = "77"
			want := "ok " + strconv.Quote(renderSeq(c, e1)+" "+renderSeq(c, e2)+"\n")
			res := RunSrc(src, RunOpts{})
			r.Count(src, true)
			if got := obsOf(res); got != want {
				r.Violation(Case{Stream: "slice-fresh", Input: src, Real: got, Spec: want, Note: "a slice must be a fresh copy"})
			}
		}
	}
	r.DriverCalls = d.N
	return r
}

func obsOf(res Result) string {
	switch {
	case res.Class == "ok":
		return "ok " + strconv.Quote(res.Out)
	case res.Class == "rejected":
		return "rejected"
	}
	return res.Class
}

func modelIdxToObs(model string, out func(j int) string, n int) string {
	f := strings.Fields(model)
	if f[0] == "ok" {
		j, _ := strconv.Atoi(f[1])
		if j < 0 || j >= n {
			return "gopanic"
		}
		return "ok " + strconv.Quote(out(j))
	}
	return "panic:" + f[0]
}

// specIndex is the property oracle evaluated directly (independent of the Lean model):
// integer i with -n<=i<n gives the element, everything else must be an evy panic.
func specIndex(elems []string, v float64, out func(j int) string) string {
	n := len(elems)
	if v == math.Trunc(v) && !math.IsInf(v, 0) && v >= float64(-n) && v < float64(n) {
		i := int(v)
		if i < 0 {
			i += n
		}
		return "ok " + strconv.Quote(out(i))
	}
	return "panic"
}

func specSlice(c seqCase, ap bool, a float64, bp bool, b float64) string {
	n := len(c.elems)
	pos := func(p bool, v float64, d int) (int, bool) {
		if !p {
			return d, true
		}
		if v != math.Trunc(v) || math.IsInf(v, 0) || math.IsNaN(v) || math.Abs(v) > 1e9 {
			return 0, false
		}
		i := int(v)
		if i < 0 {
			i += n
		}
		return i, true
	}
	s, ok1 := pos(ap, a, 0)
	e, ok2 := pos(bp, b, n)
	if ok1 && ok2 && 0 <= s && s <= e && e <= n {
		return "ok " + strconv.Quote(renderSeq(c, c.elems[s:e])+"\n")
	}
	return "panic"
}

// c11Classify: a real/model disagreement is a property violation when the direct oracle
// also disagrees with the real code, otherwise a correspondence break only.
func c11Classify(r *Report, stream, src, got, want, spec string) {
	ok := got == spec || (spec == "panic" && strings.HasPrefix(got, "panic:"))
	c := Case{Stream: stream, Input: src, Real: got, Model: want, Spec: spec}
	if !ok {
		r.Violation(c)
	} else {
		r.Disagree(c)
	}
}
