package hx

import (
	"os"
	"path/filepath"
)

// Extract regenerates lean/EvyV/Gen/*.lean from the repository working tree (tie T1).
func Extract(dir string) error {
	if err := os.MkdirAll(dir, 0o755); err != nil {
		return err
	}
	// remove stale generated files first
	old, _ := filepath.Glob(filepath.Join(dir, "*.lean"))
	for _, f := range old {
		os.Remove(f)
	}
	for _, g := range generators {
		if err := g(dir); err != nil {
			return err
		}
	}
	return nil
}

var generators []func(dir string) error
