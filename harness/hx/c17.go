package hx

import (
	"encoding/hex"
	"fmt"
	"os"
	"strconv"
	"strings"
	"time"

	"evylang.dev/evy/pkg/bytecode"
	"evylang.dev/evy/pkg/parser"
)

// CompileResult is what the real compiler + VM did with a program.
type CompileResult struct {
	ParseErr   string
	CompileErr string
	Code       []byte
	NConst     int
	NGlobal    int
	NLocal     int
	RunErr     string
	GoPanic    string
	SP         int
	Globals    map[string]string // name -> printed value
	GlobalKind map[string]string
	Hang       bool
}

// CompileAndRun runs compileAndRun with a watchdog: the VM has no yield points, so a
// runaway program is abandoned after 10 s and reported as a hang.
func CompileAndRun(src string, run bool) CompileResult {
	ch := make(chan CompileResult, 1)
	go func() { ch <- compileAndRun(src, run) }()
	select {
	case cr := <-ch:
		return cr
	case <-time.After(10 * time.Second):
		return CompileResult{Hang: true}
	}
}

// compileAndRun uses the real bytecode compiler and VM (parser with no builtins, as `evy compile` does).
func compileAndRun(src string, run bool) (cr CompileResult) {
	defer func() {
		if r := recover(); r != nil {
			cr.GoPanic = fmt.Sprint(r)
		}
	}()
	prog, err := parser.Parse(src, parser.Builtins{})
	if err != nil {
		cr.ParseErr = err.Error()
		return cr
	}
	comp := bytecode.NewCompiler()
	if err := comp.Compile(prog); err != nil {
		cr.CompileErr = err.Error()
		return cr
	}
	bc := comp.Bytecode()
	cr.Code = append([]byte{}, bc.Instructions...)
	cr.NConst, cr.NGlobal, cr.NLocal = len(bc.Constants), bc.GlobalCount, bc.LocalCount
	if !run {
		return cr
	}
	vm := bytecode.NewVM(bc)
	if err := vm.Run(); err != nil {
		cr.RunErr = err.Error()
	}
	cr.SP = vm.VerifSP()
	vals, kinds := vm.VerifGlobals()
	cr.Globals, cr.GlobalKind = map[string]string{}, map[string]string{}
	for name, idx := range comp.VerifGlobalSymbols() {
		if idx < len(vals) {
			cr.Globals[name] = vals[idx]
			cr.GlobalKind[name] = kinds[idx]
		}
	}
	return cr
}

// symtab histories -------------------------------------------------------

func realSymtab(ops []string) string {
	st := bytecode.NewSymbolTable()
	chain := []*bytecode.SymbolTable{st}
	var out []string
	for i := 0; i < len(ops); i++ {
		switch ops[i] {
		case "push":
			st = st.Push()
			chain = append([]*bytecode.SymbolTable{st}, chain...)
		case "pop":
			n := st.Pop()
			if n != st {
				chain = chain[1:]
			}
			st = n
		case "define":
			i++
			s := st.Define(ops[i])
			sc := "L"
			if s.Scope == bytecode.GlobalScope {
				sc = "G"
			}
			out = append(out, fmt.Sprintf("D:%s:%s:%d", ops[i], sc, s.Index))
		case "resolve":
			i++
			s, ok := st.Resolve(ops[i])
			if !ok {
				out = append(out, "R:"+ops[i]+":none")
			} else {
				sc := "L"
				if s.Scope == bytecode.GlobalScope {
					sc = "G"
				}
				out = append(out, fmt.Sprintf("R:%s:%s:%d", ops[i], sc, s.Index))
			}
		}
	}
	var sts []string
	for _, t := range chain {
		idx, nm, _, _ := t.VerifState()
		sts = append(sts, fmt.Sprintf("%d/%d", idx, nm))
	}
	return strings.Join(out, " ") + " | " + strings.Join(sts, " ")
}

// symtabSharing checks the property directly on the real table, op by op: the variables that are alive — every
// variable defined in a scope that is still open, also one that is shadowed by an inner variable of the same name —
// have pairwise distinct slots; and among simultaneously resolvable names distinct symbols have distinct slots.
func symtabSharing(ops []string) string {
	st := bytecode.NewSymbolTable()
	type live struct{ name, slot string }
	frames := [][]live{{}}
	names := map[string]bool{}
	slotOf := func(s bytecode.Symbol) string { return fmt.Sprintf("%s:%d", s.Scope, s.Index) }
	for i := 0; i < len(ops); i++ {
		switch ops[i] {
		case "push":
			st = st.Push()
			frames = append(frames, []live{})
		case "pop":
			if n := st.Pop(); n != st {
				frames = frames[:len(frames)-1]
				st = n
			}
		case "define":
			i++
			s := st.Define(ops[i])
			names[ops[i]] = true
			cur := &frames[len(frames)-1]
			redefined := false
			for k := range *cur {
				if (*cur)[k].name == ops[i] {
					(*cur)[k].slot, redefined = slotOf(s), true // the same variable of this scope again
				}
			}
			if !redefined {
				*cur = append(*cur, live{ops[i], slotOf(s)})
			}
		case "resolve":
			i++
			st.Resolve(ops[i])
		}
		seenLive := map[string]string{}
		for d, f := range frames {
			for _, v := range f {
				who := fmt.Sprintf("%s (scope depth %d)", v.name, d)
				if o, dup := seenLive[v.slot]; dup {
					return fmt.Sprintf("slot %s is given to two variables that are alive at the same time: %s and %s, after op %d", v.slot, o, who, i)
				}
				seenLive[v.slot] = who
			}
		}
		seen := map[string]string{}
		for n := range names {
			if s, ok := st.Resolve(n); ok {
				key := slotOf(s)
				if o, dup := seen[key]; dup {
					return fmt.Sprintf("slot %s shared by %s and %s after op %d", key, o, n, i)
				}
				seen[key] = n
			}
		}
	}
	return ""
}

func c17Histories(maxLen int) [][]string {
	alpha := [][]string{{"push"}, {"pop"}, {"define", "a"}, {"define", "b"}, {"define", "c"}, {"resolve", "a"}, {"resolve", "b"}}
	out := [][]string{{}}
	frontier := [][]string{{}}
	for l := 0; l < maxLen; l++ {
		var next [][]string
		for _, h := range frontier {
			for _, a := range alpha {
				nh := append(append([]string{}, h...), a...)
				next = append(next, nh)
			}
		}
		out = append(out, next...)
		frontier = next
	}
	return out
}

// RunC17 : symbol table histories + translation validation of emitted bytecode.
func RunC17(d *Driver) *Report {
	r := NewReport("C17")
	rng := Rng()
	hl, nprog := 6, 3000
	if Thorough() {
		hl, nprog = 7, 60000
	}
	r.Rule = fmt.Sprintf("symtab: exhaustive histories of length <= %d over push/pop/define a,b,c/resolve a,b plus random deep histories; bytecode: %d generated programs in the compiler's sub-language (plus fixed large programs), each compiled by the real compiler, verified by the Lean-proved checker BC.verify on the emitted bytes, and run on the real VM (stack pointer must return to LocalCount, no Go panic). Non-trivial = distinct history/program with at least one define / one jump", hl, nprog)
	ask := func(q string) string {
		a, err := d.Ask(q)
		if err != nil {
			panic(err)
		}
		return a
	}
	checkHist := func(h []string, stream string) {
		wire := strings.Join(h, " ")
		real := realSymtab(h)
		model := ask("symtab " + wire)
		r.Count("sym:"+wire, strings.Contains(wire, "define"))
		r.Sample(map[string]string{"history": wire, "real": real, "model": model}, 3)
		share := symtabSharing(h)
		if share != "" {
			r.Violation(Case{Stream: stream, Input: wire, Real: real, Model: model, Spec: "no two live variables share a slot", Note: share})
		} else if real != model {
			r.Disagree(Case{Stream: stream, Input: wire, Real: real, Model: model})
		}
	}
	t0 := time.Now()
	for _, h := range c17Histories(hl) {
		checkHist(h, "symtab")
	}
	fmt.Fprintln(os.Stderr, "c17: symtab exhaustive done", time.Since(t0))
	// random deep histories
	for i := 0; i < nprog/3; i++ {
		n := 5 + rng.Intn(40)
		var h []string
		for j := 0; j < n; j++ {
			switch rng.Intn(6) {
			case 0, 1:
				h = append(h, "push")
			case 2:
				h = append(h, "pop")
			case 3, 4:
				h = append(h, "define", string(rune('a'+rng.Intn(6))))
			case 5:
				h = append(h, "resolve", string(rune('a'+rng.Intn(6))))
			}
		}
		checkHist(h, "symtab-deep")
	}
	fmt.Fprintln(os.Stderr, "c17: symtab deep done", time.Since(t0))
	// translation validation
	known := KnownIDs()
	_ = known
	checkProg := func(src, stream string) {
		cr := CompileAndRun(src, true)
		if cr.Hang {
			r.Violation(Case{Stream: stream, Input: src, Real: "VM did not terminate within 10s", Spec: "terminating program"})
			return
		}
		if cr.ParseErr != "" || cr.CompileErr != "" {
			r.Hist("compile", "rejected")
			return
		}
		r.Hist("compile", "ok")
		verdict := ask(fmt.Sprintf("bcverify %s %d %d %d", hex.EncodeToString(cr.Code), cr.NConst, cr.NGlobal, cr.NLocal))
		nontrivial := strings.Contains(src, "while") || strings.Contains(src, "for ") || strings.Contains(src, "if ")
		r.Count("prog:"+src, nontrivial)
		r.Sample(map[string]any{"program": src, "bytes": len(cr.Code), "verdict": verdict, "sp": cr.SP, "localCount": cr.NLocal}, 6)
		r.Hist("verdict", strings.Fields(verdict)[0])
		real := fmt.Sprintf("gopanic=%q sp=%d localCount=%d runErr=%q", cr.GoPanic, cr.SP, cr.NLocal, cr.RunErr)
		switch {
		case cr.Hang:
			r.Violation(Case{Stream: stream, Input: src, Real: "VM did not terminate within 10s", Model: verdict, Spec: "the evaluator terminates on this program"})
		case cr.GoPanic != "":
			r.Violation(Case{Stream: stream, Input: src, Real: real, Model: verdict, Spec: "executing emitted bytecode never crashes the host"})
		case !strings.HasPrefix(verdict, "ok"):
			r.Violation(Case{Stream: stream, Input: src, Real: real, Model: verdict, Spec: "emitted bytecode is well formed (decodes, operands in range, jumps on boundaries, consistent stack heights, empty at exit)"})
		case cr.RunErr == "" && cr.SP != cr.NLocal:
			r.Violation(Case{Stream: stream, Input: src, Real: real, Model: verdict, Spec: "operand stack empty when the program ends"})
		}
	}
	o := GenOpts{VM: true, Maps: true, Strings: true, MaxDepth: 3, MaxStmts: 3}
	for i := 0; i < nprog; i++ {
		g := NewProgGen(rng, o)
		checkProg(g.Program(), "bytecode")
	}
	fmt.Fprintln(os.Stderr, "c17: generated programs done", time.Since(t0))
	// nested scopes with locals at several depths, loops with breaks before nested loops
	for _, src := range c17Fixed() {
		checkProg(src, "bytecode-fixed")
	}
	// literals of different types with one printed form: a constant is loaded with the type it was written with
	for _, src := range c16LiteralPrograms() {
		checkProg(src, "bytecode-literals")
	}
	r.DriverCalls = d.N
	return r
}

func c17Fixed() []string {
	var out []string
	// systematic nestings of block kinds with a local declared at every depth
	kinds := []string{"if true", "while w < 1", "for i := range 2", "for range 1"}
	for _, a := range kinds {
		for _, b := range kinds {
			for _, c := range kinds {
				src := "x := 0\nw := 0\n" + a + "\n    w = w + 1\n    p := 1\n    " + b + "\n        w = w + 1\n        q := 2\n        " + c + "\n            w = w + 1\n            r := 3\n            x = p + q + r\n        end\n        s := 4\n        x = x + q + s\n    end\n    t := 5\n    x = x + p + t\nend\nx = x\n"
				src = strings.ReplaceAll(src, "for i := range 2\n", "for i := range 2\n"+"") // loop var use below
				out = append(out, fixLoopVars(src))
			}
		}
	}
	// shadowing declarations that read the shadowed variable (resolve, then define the same name in the inner scope)
	out = append(out,
		"x := 1\nif true\n    x := x + 1\n    x = x\nend\nx = x\n",
		"x := 1\nw := 0\nwhile w < 2\n    w = w + 1\n    y := x\n    x := y + x\n    x = x\nend\nx = x\n",
		"x := 1\nfor i := range 2\n    x := x + i\n    if true\n        x := x + 1\n        x = x\n    end\n    x = x\nend\nx = x\n")
	// breaks before and after nested loops
	out = append(out, "x := 0\nfor i := range 3\n    if i == 1\n        break\n    end\n    for j := range 3\n        if j == 1\n            break\n        end\n        x = x + 1\n    end\n    x = x + i\nend\nx = x\n")
	out = append(out, "x := 0\nw := 0\nwhile w < 3\n    w = w + 1\n    if w == 2\n        break\n    end\n    while x < 10\n        x = x + 1\n        if x > 3\n            break\n        end\n    end\nend\nx = x\n")
	// a program larger than 64 KiB of code and one with > 65535 constants
	var big strings.Builder
	big.WriteString("x := 0\n")
	for i := 0; i < 9000; i++ {
		big.WriteString("x = x + 1\n")
	}
	out = append(out, big.String())
	var big2 strings.Builder
	big2.WriteString("x := 0\nif x == 0\n")
	for i := 0; i < 9000; i++ {
		big2.WriteString("    x = x + 1\n")
	}
	big2.WriteString("end\nx = x\n")
	out = append(out, big2.String())
	var big3 strings.Builder
	big3.WriteString("x := 0\n")
	for i := 0; i < 66000; i++ {
		big3.WriteString("x = " + strconv.Itoa(i) + "\n")
	}
	out = append(out, big3.String())
	// programs whose code size crosses the 65535-byte limit of the two-byte jump operands WITH THEIR LAST
	// statement (a false `if`, an `if`/`else`, a `while` that is left at once): rejected, or well formed
	for _, n := range []int{6500, 6540, 6548, 6550, 6551, 6552, 6553, 6554, 6555, 6556, 6560, 6600, 7000, 13200} {
		var body strings.Builder
		for i := 0; i < n; i++ {
			body.WriteString("    x = x + 1\n")
		}
		out = append(out, "x := 1\nif x == 2\n"+body.String()+"end\n")
		if n%4 == 0 {
			out = append(out, "x := 1\nif x == 2\n    x = 0\nelse\n"+body.String()+"end\n",
				"x := 1\nwhile x == 2\n"+body.String()+"end\n")
		}
	}
	return out
}

func fixLoopVars(src string) string {
	// every `for i := range` body must use i: append `x = x + i` after the header
	lines := strings.Split(src, "\n")
	var out []string
	for _, l := range lines {
		out = append(out, l)
		t := strings.TrimLeft(l, " ")
		if strings.HasPrefix(t, "for i := range") {
			ind := l[:len(l)-len(t)]
			out = append(out, ind+"    x = x + i")
		}
	}
	return strings.Join(out, "\n")
}
