import EvyV.Driver.Util
import EvyV.Driver.FloatOps
import EvyV.Model.Index
import EvyV.Driver.MapDrv
import EvyV.Driver.BcDrv
import EvyV.Driver.ExprDrv
import EvyV.Driver.EvalDrv
import EvyV.Driver.EnvDrv
import EvyV.Driver.SvgDrv
import EvyV.Driver.TyDrv
import EvyV.Driver.LexDrv
import EvyV.Driver.LayoutDrv
import EvyV.Driver.PrattDrv
import EvyV.Driver.BlocksDrv
import EvyV.Driver.ScopeDrv
import EvyV.Driver.CtlDrv
import EvyV.Driver.StmtDrv
import EvyV.Gen.Shapes
/-
Line protocol driver (core-only, compiled as `lean_exe evyv`).
One request per line, one answer per line. See DESIGN.md §3.2.
-/
open EvyV EvyV.Util

def showIdxErr : IdxErr → String
  | .indexValue => "indexValue" | .bounds => "bounds" | .badSlice => "slice"

def optFloat (s : String) : Option (Option Float) :=
  if s == "-" then some none else (floatOfHex s).map some

def handle (line : String) : String :=
  if line.startsWith "eval|" then EvalDrv.handle line else
  match words line with
  | ["ping"] => "pong"
  | ["fmtnum", h] =>
    match floatOfHex h with
    | some f => hexOfStr (String.ofList (floatOps.fmt f))
    | none => "ERR bad float"
  | ["toint", h] =>
    match floatOfHex h with
    | some f => toString (floatOps.toInt f)
    | none => "ERR bad float"
  | ["ofint", i] =>
    match i.toInt? with
    | some i => hexOfFloat (floatOps.ofInt i)
    | none => "ERR bad int"
  | ["index", kind, len, h] =>
    match len.toNat?, floatOfHex h with
    | some n, some f =>
      let k := if kind == "s" then IdxKind.slice else IdxKind.index
      match normalizeIndex floatOps f n k with
      | .ok j => s!"ok {j}"
      | .error e => showIdxErr e
    | _, _ => "ERR bad args"
  | ["slice", len, a, b] =>
    match len.toNat?, optFloat a, optFloat b with
    | some n, some a, some b =>
      match normalizeSliceIndices floatOps a b n with
      | .ok (s, e) => s!"ok {s} {e}"
      | .error e => showIdxErr e
    | _, _, _ => "ERR bad args"
  | "map" :: rest => MapDrv.handle rest
  | "bcverify" :: rest => BcDrv.handleVerify rest
  | "symtab" :: rest => BcDrv.handleSymtab rest
  | "exprvm" :: rest => ExprDrv.handle rest
  | "stmtvm" :: rest => StmtDrv.handle rest
  | ["shape", "writeAtomically"] => " ".intercalate (Gen.writeAtomically.map (·.1))
  | "envsplit" :: rest => EnvDrv.handleSplit rest
  | "verifychoice" :: rest => EnvDrv.handleVerify rest
  | "svg" :: rest => SvgDrv.handle rest
  | "ty" :: rest => TyDrv.handle rest
  | "lex" :: rest => LexDrv.handle rest
  | "pratt" :: rest => PrattDrv.handle rest
  | "prattw" :: rest => PrattDrv.handleW rest
  | "layoutw" :: rest => PrattDrv.handleLayout rest
  | "blocks" :: rest => BlocksDrv.handle rest
  | "scope" :: rest => ScopeDrv.handle rest
  | "ctl" :: rest => CtlDrv.handle rest
  | ["fmtk"] => LayoutDrv.handleK ""
  | ["fmtk", w] => LayoutDrv.handleK w
  | ["fmtm"] => LayoutDrv.handleM ""
  | ["fmtm", w] => LayoutDrv.handleM w
  | _ => "ERR unknown request"

partial def loop (hin hout : IO.FS.Stream) : IO Unit := do
  let line ← hin.getLine
  if line.isEmpty then return ()
  let l := line.trimAsciiEnd.toString
  hout.putStrLn (handle l)
  hout.flush
  loop hin hout

def main : IO Unit := do
  loop (← IO.getStdin) (← IO.getStdout)
