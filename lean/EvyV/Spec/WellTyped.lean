import EvyV.Model.Interp
/-
What "well-typed" means for the evaluator model: the static typing of expressions and statements
(the judgement the parser's checks establish), the typing of run-time values against a store typing,
and the outcomes the language documents. Props/C02Sound.lean proves that evaluation of well-typed
code in a well-typed state can only end in a documented outcome and yields a value of the static
type (type soundness of the evaluator model).
-/
namespace EvyV.TS
open EvyV

variable {F : Type}

/-- the types a run-time value can have: num, string, bool, any, []T, {}T -/
def Reg : Ty → Bool
  | .num | .str | .bool | .any => true
  | .arr t | .map t => Reg t
  | _ => false

/-- the type of every heap object, by address -/
abbrev Store := List Ty

/-- `Σ'` extends `Σ`: objects are only ever added, and never change their type -/
def Grows (S S' : Store) : Prop := ∃ x, S' = S ++ x

/-- value `v` has type `t` (composites: by the type of the heap object they refer to) -/
inductive VT (S : Store) : Val F → Ty → Prop
  | num (v : F) : VT S (.num v) .num
  | str (s : Str) : VT S (.str s) .str
  | bool (b : Bool) : VT S (.bool b) .bool
  /-- a value stored in an `any` carries its concrete, non-any type -/
  | any (t : Ty) (v : Val F) : t ≠ .any → VT S v t → VT S (.any t v) .any
  | arr (a : Nat) (t : Ty) : S[a]? = some (.arr t) → VT S (.arr a) (.arr t)
  | map (a : Nat) (t : Ty) : S[a]? = some (.map t) → VT S (.map a) (.map t)

/-- the heap agrees with its typing: every array holds elements of its element type, every map values
of its value type -/
structure HeapOk (S : Store) (H : Array (Obj F)) : Prop where
  size : S.length = H.size
  reg : ∀ t ∈ S, Reg t = true
  arr : ∀ (a : Nat) s, S[a]? = some (Ty.arr s) → ∃ es, H[a]? = some (Obj.arr es) ∧ ∀ v ∈ es, VT S v s
  map : ∀ (a : Nat) s, S[a]? = some (Ty.map s) → ∃ m, H[a]? = some (Obj.map m) ∧ ∀ p ∈ m.pairs, VT S p.2 s

/-- static environment: the declared type of every variable in scope -/
abbrev Env := Str → Option Ty

/-- every variable that has a value has a value of its declared type -/
def EnvOk (S : Store) (G : Env) (st : St F) : Prop :=
  ∀ n t v, G n = some t → getVar st n = some v → VT S v t

/-- the outcomes the language documents: a run-time panic of Evy, `exit`, an external stop, and the
step budget of the model — not an internal error, not a crash of the host -/
def Doc : Outcome → Prop
  | .panic _ | .exit _ | .stopped | .timeout => True
  | .internal _ | .goPanic _ => False

def isArith (op : Op) : Bool := op = .plus || op = .minus || op = .asterisk || op = .slash || op = .percent
def isCmp (op : Op) : Bool := op = .lt || op = .gt || op = .lteq || op = .gteq
def isLogic (op : Op) : Bool := op = .and || op = .or
def isEq (op : Op) : Bool := op = .eq || op = .neq

/-- the typing of expressions (docs/spec.md, as enforced by pkg/parser): calls are not covered -/
inductive Typed (G : Env) : Expr F → Ty → Prop
  | num (v : F) : Typed G (.num v) .num
  | str (s : Str) : Typed G (.str s) .str
  | bool (b : Bool) : Typed G (.bool b) .bool
  | var (n : Str) (t : Ty) : G n = some t → Typed G (.var n) t
  /-- a value of a concrete type converted to `any` -/
  | any (t : Ty) (e : Expr F) : t ≠ .any → Typed G e t → Typed G (.any t e) .any
  | arr (elems : List (Expr F)) (s : Ty) : Reg s = true → (∀ e ∈ elems, Typed G e s) → Typed G (.arr elems) (.arr s)
  | mapLit (pairs : List (Str × Expr F)) (s : Ty) : Reg s = true → (∀ p ∈ pairs, Typed G p.2 s) → Typed G (.mapLit pairs) (.map s)
  | group (e : Expr F) (t : Ty) : Typed G e t → Typed G (.group e) t
  | neg (e : Expr F) : Typed G e .num → Typed G (.unary .minus e) .num
  | not (e : Expr F) : Typed G e .bool → Typed G (.unary .bang e) .bool
  | arith (op : Op) (l r : Expr F) : isArith op = true → Typed G l .num → Typed G r .num → Typed G (.binary op l r) .num
  | cmpNum (op : Op) (l r : Expr F) : isCmp op = true → Typed G l .num → Typed G r .num → Typed G (.binary op l r) .bool
  | cmpStr (op : Op) (l r : Expr F) : isCmp op = true → Typed G l .str → Typed G r .str → Typed G (.binary op l r) .bool
  | concat (l r : Expr F) : Typed G l .str → Typed G r .str → Typed G (.binary .plus l r) .str
  | logic (op : Op) (l r : Expr F) : isLogic op = true → Typed G l .bool → Typed G r .bool → Typed G (.binary op l r) .bool
  | eq (op : Op) (l r : Expr F) (t : Ty) : isEq op = true → Typed G l t → Typed G r t → Typed G (.binary op l r) .bool
  | arrCat (l r : Expr F) (s : Ty) : Typed G l (.arr s) → Typed G r (.arr s) → Typed G (.binary .plus l r) (.arr s)
  | idxArr (l i : Expr F) (s : Ty) : Typed G l (.arr s) → Typed G i .num → Typed G (.index l i) s
  | idxStr (l i : Expr F) : Typed G l .str → Typed G i .num → Typed G (.index l i) .str
  | idxMap (l i : Expr F) (s : Ty) : Typed G l (.map s) → Typed G i .str → Typed G (.index l i) s
  | sliceArr (l : Expr F) (a b : Option (Expr F)) (s : Ty) : Typed G l (.arr s) →
      (∀ x, a = some x → Typed G x .num) → (∀ x, b = some x → Typed G x .num) → Typed G (.slice l a b) (.arr s)
  | sliceStr (l : Expr F) (a b : Option (Expr F)) : Typed G l .str →
      (∀ x, a = some x → Typed G x .num) → (∀ x, b = some x → Typed G x .num) → Typed G (.slice l a b) .str
  | dot (l : Expr F) (key : Str) (s : Ty) : Typed G l (.map s) → Typed G (.dot l key) s
  /-- type assertion `e.(t)` on an any -/
  | assert (t : Ty) (e : Expr F) : t ≠ .any → Reg t = true → Typed G e .any → Typed G (.assert t e) t

/-- the Go library behind `%` answers with one number (the oracle table of the harness does) -/
def ExtOk (ext : Ext F) : Prop :=
  ∀ args r, ext.call "math.mod" args = some r → ∃ v, r = [XArg.num v]

end EvyV.TS
