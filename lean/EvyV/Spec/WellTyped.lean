import EvyV.Model.Interp
import EvyV.Model.Static
/-
What "well-typed" means for the evaluator model: the static typing of expressions and statements
(the judgement the parser's checks establish), the typing of run-time values against a store typing,
and the outcomes the language documents. Props/C02Sound.lean proves that evaluation of well-typed
code in a well-typed state can only end in a documented outcome and yields a value of the static
type (type soundness of the evaluator model).
-/
namespace EvyV.TS
open EvyV

variable {F : Type}

/-- the types a run-time value can have: num, string, bool, any, []T, {}T -/
def Reg : Ty → Bool
  | .num | .str | .bool | .any => true
  | .arr t | .map t => Reg t
  | _ => false

/-- the type of every heap object, by address -/
abbrev Store := List Ty

/-- `Σ'` extends `Σ`: objects are only ever added, and never change their type -/
def Grows (S S' : Store) : Prop := ∃ x, S' = S ++ x

/-- value `v` has type `t` (composites: by the type of the heap object they refer to) -/
inductive VT (S : Store) : Val F → Ty → Prop
  | num (v : F) : VT S (.num v) .num
  | str (s : Str) : VT S (.str s) .str
  | bool (b : Bool) : VT S (.bool b) .bool
  /-- a value stored in an `any` carries its concrete, non-any type -/
  | any (t : Ty) (v : Val F) : t ≠ .any → VT S v t → VT S (.any t v) .any
  | arr (a : Nat) (t : Ty) : S[a]? = some (.arr t) → VT S (.arr a) (.arr t)
  | map (a : Nat) (t : Ty) : S[a]? = some (.map t) → VT S (.map a) (.map t)

/-- the heap agrees with its typing: every array holds elements of its element type, every map values
of its value type -/
structure HeapOk (S : Store) (H : Array (Obj F)) : Prop where
  size : S.length = H.size
  reg : ∀ t ∈ S, Reg t = true
  arr : ∀ (a : Nat) s, S[a]? = some (Ty.arr s) → ∃ es, H[a]? = some (Obj.arr es) ∧ ∀ v ∈ es, VT S v s
  map : ∀ (a : Nat) s, S[a]? = some (Ty.map s) → ∃ m, H[a]? = some (Obj.map m) ∧ ∀ p ∈ m.pairs, VT S p.2 s

/-- static environment: the declared type of every variable in scope -/
abbrev Env := Str → Option Ty

/-- every variable that has a value has a value of its declared type -/
def EnvOk (S : Store) (G : Env) (st : St F) : Prop :=
  ∀ n t v, G n = some t → getVar st n = some v → VT S v t

/-- the outcomes the language documents: a run-time panic of Evy, `exit`, an external stop, and the
step budget of the model, a failed test — not an internal error, not a crash of the host -/
def Doc : Outcome → Prop
  | .panic _ | .exit _ | .stopped | .timeout => True
  | .internal w => w = "ErrTest"     -- a failed `test` (fail-fast): the only documented use of this class
  | .goPanic _ => False

def isArith (op : Op) : Bool := op = .plus || op = .minus || op = .asterisk || op = .slash || op = .percent
def isCmp (op : Op) : Bool := op = .lt || op = .gt || op = .lteq || op = .gteq
def isLogic (op : Op) : Bool := op = .and || op = .or
def isEq (op : Op) : Bool := op = .eq || op = .neq

/-- the signature of a built-in: what it requires of the static type of each argument (a predicate, so
that `has` can take a map of anything), of the arguments beyond those (variadic built-ins), and its
result type -/
structure BSig where
  params : List (Ty → Bool)
  rest : Option (Ty → Bool)
  ret : Option Ty

def BSig.paramAt (sig : BSig) (i : Nat) : Ty → Bool :=
  match sig.params[i]? with
  | some p => p
  | none => match sig.rest with
    | some p => p
    | none => fun _ => false

def isNumT (t : Ty) : Bool := decide (t = .num)
def isStrT (t : Ty) : Bool := decide (t = .str)
def isAnyT (t : Ty) : Bool := decide (t = .any)
def isMapT : Ty → Bool
  | .map _ => true
  | _ => false
def isArrT : Ty → Bool
  | .arr _ => true
  | _ => false

/-- the built-ins of the typed fragment (docs/builtins.md): the others are outside it -/
def builtinSig (name : Str) : Option BSig :=
  if name = lit "len" then some ⟨[isAnyT], none, some .num⟩
  else if name = lit "typeof" then some ⟨[isAnyT], none, some .str⟩
  else if name = lit "has" then some ⟨[isMapT, isStrT], none, some .bool⟩
  else if name = lit "del" then some ⟨[isMapT, isStrT], none, none⟩
  else if name = lit "str2bool" then some ⟨[isStrT], none, some .bool⟩
  else if name = lit "sprint" then some ⟨[], some (fun _ => true), some .str⟩
  else if name = lit "join" then some ⟨[isArrT, isStrT], none, some .str⟩
  else if name = lit "startswith" then some ⟨[isStrT, isStrT], none, some .bool⟩
  else if name = lit "endswith" then some ⟨[isStrT, isStrT], none, some .bool⟩
  else if name = lit "index" then some ⟨[isStrT, isStrT], none, some .num⟩
  else if name = lit "exit" then some ⟨[isNumT], none, none⟩
  else if name = lit "panic" then some ⟨[isStrT], none, none⟩
  else if name = lit "sleep" then some ⟨[isNumT], none, none⟩
  else if name = lit "cls" then some ⟨[], none, none⟩
  else if name = lit "read" then some ⟨[], none, some .str⟩
  else if name = lit "abs" ∨ name = lit "floor" ∨ name = lit "ceil" ∨ name = lit "round" ∨ name = lit "log" ∨
      name = lit "sqrt" ∨ name = lit "sin" ∨ name = lit "cos" then some ⟨[isNumT], none, some .num⟩
  else if name = lit "min" ∨ name = lit "max" ∨ name = lit "pow" ∨ name = lit "atan2" then some ⟨[isNumT, isNumT], none, some .num⟩
  else if name = lit "upper" ∨ name = lit "lower" then some ⟨[isStrT], none, some .str⟩
  else if name = lit "trim" then some ⟨[isStrT, isStrT], none, some .str⟩
  else if name = lit "replace" then some ⟨[isStrT, isStrT, isStrT], none, some .str⟩
  else if name = lit "str2num" then some ⟨[isStrT], none, some .num⟩
  else if name = lit "move" ∨ name = lit "line" ∨ name = lit "rect" then some ⟨[isNumT, isNumT], none, none⟩
  else if name = lit "circle" ∨ name = lit "width" then some ⟨[isNumT], none, none⟩
  else if name = lit "color" ∨ name = lit "colour" ∨ name = lit "stroke" ∨ name = lit "fill" ∨ name = lit "linecap" ∨
      name = lit "text" then some ⟨[isStrT], none, none⟩
  else if name = lit "clear" then some ⟨[], some isStrT, none⟩
  else if name = lit "grid" then some ⟨[], none, none⟩
  else if name = lit "gridn" then some ⟨[isNumT, isStrT], none, none⟩
  else if name = lit "dash" ∨ name = lit "ellipse" then some ⟨[], some isNumT, none⟩
  else if name = lit "hsl" then some ⟨[], some isNumT, some .str⟩
  else if name = lit "poly" then some ⟨[], some (fun t => decide (t = .arr .num)), none⟩
  else if name = lit "font" then some ⟨[fun t => decide (t = .map .any)], none, none⟩
  else if name = lit "printf" then some ⟨[isAnyT], some (fun _ => true), none⟩
  else if name = lit "sprintf" then some ⟨[isAnyT], some (fun _ => true), some .str⟩
  else if name = lit "repr" then some ⟨[], some (fun _ => true), some .str⟩
  else if name = lit "split" then some ⟨[isStrT, isStrT], none, some (.arr .str)⟩
  else if name = lit "rand" then some ⟨[isNumT], none, some .num⟩
  else if name = lit "rand1" then some ⟨[], none, some .num⟩
  else none

/-- the signature of a user-defined function: parameter types and result type (`none`: no result) -/
structure FSig where
  params : List Ty
  ret : Option Ty
  /-- the element type of the variadic parameter, for a function declared `func f args:T...` -/
  variadic : Option Ty := none

/-- the signatures of the program's functions -/
abbrev FEnv := Str → Option FSig

/-- the typing of expressions (docs/spec.md, as enforced by pkg/parser); of the calls, those of
user-defined functions with a fixed parameter list are covered -/
inductive Typed (Φ : FEnv) (G : Env) : Expr F → Ty → Prop
  | num (v : F) : Typed Φ G (.num v) .num
  | str (s : Str) : Typed Φ G (.str s) .str
  | bool (b : Bool) : Typed Φ G (.bool b) .bool
  | var (n : Str) (t : Ty) : G n = some t → Typed Φ G (.var n) t
  /-- a value of a concrete type converted to `any` -/
  | any (t : Ty) (e : Expr F) : t ≠ .any → Typed Φ G e t → Typed Φ G (.any t e) .any
  | arr (elems : List (Expr F)) (s : Ty) : Reg s = true → (∀ e ∈ elems, Typed Φ G e s) → Typed Φ G (.arr elems) (.arr s)
  | mapLit (pairs : List (Str × Expr F)) (s : Ty) : Reg s = true → (∀ p ∈ pairs, Typed Φ G p.2 s) → Typed Φ G (.mapLit pairs) (.map s)
  | group (e : Expr F) (t : Ty) : Typed Φ G e t → Typed Φ G (.group e) t
  | neg (e : Expr F) : Typed Φ G e .num → Typed Φ G (.unary .minus e) .num
  | not (e : Expr F) : Typed Φ G e .bool → Typed Φ G (.unary .bang e) .bool
  | arith (op : Op) (l r : Expr F) : isArith op = true → Typed Φ G l .num → Typed Φ G r .num → Typed Φ G (.binary op l r) .num
  | cmpNum (op : Op) (l r : Expr F) : isCmp op = true → Typed Φ G l .num → Typed Φ G r .num → Typed Φ G (.binary op l r) .bool
  | cmpStr (op : Op) (l r : Expr F) : isCmp op = true → Typed Φ G l .str → Typed Φ G r .str → Typed Φ G (.binary op l r) .bool
  | concat (l r : Expr F) : Typed Φ G l .str → Typed Φ G r .str → Typed Φ G (.binary .plus l r) .str
  | logic (op : Op) (l r : Expr F) : isLogic op = true → Typed Φ G l .bool → Typed Φ G r .bool → Typed Φ G (.binary op l r) .bool
  | eq (op : Op) (l r : Expr F) (t : Ty) : isEq op = true → Typed Φ G l t → Typed Φ G r t → Typed Φ G (.binary op l r) .bool
  | arrCat (l r : Expr F) (s : Ty) : Typed Φ G l (.arr s) → Typed Φ G r (.arr s) → Typed Φ G (.binary .plus l r) (.arr s)
  /-- array repetition `array * n` -/
  | arrRep (l r : Expr F) (s : Ty) : Typed Φ G l (.arr s) → Typed Φ G r .num → Typed Φ G (.binary .asterisk l r) (.arr s)
  | idxArr (l i : Expr F) (s : Ty) : Typed Φ G l (.arr s) → Typed Φ G i .num → Typed Φ G (.index l i) s
  | idxStr (l i : Expr F) : Typed Φ G l .str → Typed Φ G i .num → Typed Φ G (.index l i) .str
  | idxMap (l i : Expr F) (s : Ty) : Typed Φ G l (.map s) → Typed Φ G i .str → Typed Φ G (.index l i) s
  | sliceArr (l : Expr F) (a b : Option (Expr F)) (s : Ty) : Typed Φ G l (.arr s) →
      (∀ x, a = some x → Typed Φ G x .num) → (∀ x, b = some x → Typed Φ G x .num) → Typed Φ G (.slice l a b) (.arr s)
  | sliceStr (l : Expr F) (a b : Option (Expr F)) : Typed Φ G l .str →
      (∀ x, a = some x → Typed Φ G x .num) → (∀ x, b = some x → Typed Φ G x .num) → Typed Φ G (.slice l a b) .str
  | dot (l : Expr F) (key : Str) (s : Ty) : Typed Φ G l (.map s) → Typed Φ G (.dot l key) s
  /-- type assertion `e.(t)` on an any -/
  | assert (t : Ty) (e : Expr F) : t ≠ .any → Reg t = true → Typed Φ G e .any → Typed Φ G (.assert t e) t
  /-- a call of a variadic user-defined function: any number of arguments of the element type -/
  | callV (name : Str) (args : List (Expr F)) (sig : FSig) (tv t : Ty) : Φ name = some sig → sig.variadic = some tv →
      sig.ret = some t → (∀ a ∈ args, Typed Φ G a tv) → Typed Φ G (.call name args) t
  /-- a call of a built-in of the typed fragment that returns a value; `tys` are the static types of the arguments -/
  | builtin (name : Str) (args : List (Expr F)) (sig : BSig) (tys : List Ty) (t : Ty) : builtinSig name = some sig →
      sig.ret = some t → sig.params.length ≤ args.length → (sig.rest = none → args.length = sig.params.length) →
      args.length = tys.length → (∀ (i : Nat) a ta, args[i]? = some a → tys[i]? = some ta → Typed Φ G a ta) →
      (∀ (i : Nat) ta, tys[i]? = some ta → sig.paramAt i ta = true) → Typed Φ G (.call name args) t
  /-- a call of a user-defined function that returns a value: one argument of the declared type per parameter -/
  | call (name : Str) (args : List (Expr F)) (sig : FSig) (t : Ty) : Φ name = some sig → sig.variadic = none → sig.ret = some t →
      args.length = sig.params.length →
      (∀ (i : Nat) a pt, args[i]? = some a → sig.params[i]? = some pt → Typed Φ G a pt) → Typed Φ G (.call name args) t

/-- library functions that answer with one number / one string -/
def numFns : List String := ["math.mod", "math.abs", "math.floor", "math.ceil", "math.round", "math.log", "math.sqrt",
  "math.sin", "math.cos", "math.min", "math.max", "math.pow", "math.atan2", "rand"]
def strFns : List String := ["upper", "lower", "trim", "replace", "hslfmt"]

/-- the Go library behind `%`, the math and the string built-ins answers with a value of the expected
kind (the oracle table of the harness does: it is filled by calling the real library) -/
def ExtOk (ext : Ext F) : Prop :=
  (∀ f, f ∈ numFns → ∀ args r, ext.call f args = some r → ∃ v, r = [XArg.num v]) ∧
  (∀ f, f ∈ strFns → ∀ args r, ext.call f args = some r → ∃ s, r = [XArg.str s]) ∧
  (∀ args r, ext.call "parsefloat" args = some r → ∃ n b, r = [XArg.num n, XArg.bool b]) ∧
  (∀ args r, ext.call "split" args = some r → ∃ l, r = [XArg.strs l])

/-! ### statements -/

/-- a static scope: the declared names of one block in declaration order, with their types -/
abbrev SEnv := List (Str × Ty)

def senvGet (s : SEnv) (n : Str) : Option Ty := List.lookup n s

/-- mirror of `scopeSet` -/
def senvSet : SEnv → Str → Ty → SEnv
  | [], n, t => [(n, t)]
  | (k, w) :: rest, n, t => if k = n then (n, t) :: rest else (k, w) :: senvSet rest n t

/-- static lookup, mirror of `getVar`: block scopes of the current function innermost first, then the
globals (`Gg`: the declared type of every global of the program) -/
def lookupG (Gs : List SEnv) (Gg : Env) : Env := fun n =>
  if n = underscore then none
  else match Gs.findSome? (fun s => senvGet s n) with
    | some t => some t
    | none => Gg n

/-- the scope a for statement opens around its body: the loop variable, if there is one -/
def loopScope (lv : Option Str) (t : Ty) : SEnv :=
  match lv with
  | some n => [(n, t)]
  | none => []

mutual
/-- statement typing: `STyped Φ Gg ρ Gs s Gs'` — under the block scopes `Gs` (innermost first) and the
globals `Gg`, in a function with result type `ρ`, statement `s` is well-typed and leaves the scopes
`Gs'` (a declaration extends the innermost scope) -/
inductive STyped (Φ : FEnv) (Gg : Env) (ρ : Option Ty) : List SEnv → Stmt F → List SEnv → Prop
  | noop (Gs : List SEnv) : STyped Φ Gg ρ Gs .noop Gs
  | brk (Gs : List SEnv) : STyped Φ Gg ρ Gs .brk Gs
  | declLocal (h : SEnv) (rest : List SEnv) (n : Str) (e : Expr F) (t : Ty) : n ≠ underscore →
      Typed Φ (lookupG (h :: rest) Gg) e t → STyped Φ Gg ρ (h :: rest) (.decl n e) (senvSet h n t :: rest)
  | declGlobal (n : Str) (e : Expr F) (t : Ty) : n ≠ underscore → Gg n = some t →
      Typed Φ (lookupG [] Gg) e t → STyped Φ Gg ρ [] (.decl n e) []
  | assignVar (Gs : List SEnv) (n : Str) (e : Expr F) (t : Ty) : lookupG Gs Gg n = some t →
      Typed Φ (lookupG Gs Gg) e t → STyped Φ Gg ρ Gs (.assign (.var n) e) Gs
  | assignIdxArr (Gs : List SEnv) (l i e : Expr F) (s : Ty) : Typed Φ (lookupG Gs Gg) l (.arr s) →
      Typed Φ (lookupG Gs Gg) i .num → Typed Φ (lookupG Gs Gg) e s → STyped Φ Gg ρ Gs (.assign (.index l i) e) Gs
  | assignIdxMap (Gs : List SEnv) (l i e : Expr F) (s : Ty) : Typed Φ (lookupG Gs Gg) l (.map s) →
      Typed Φ (lookupG Gs Gg) i .str → Typed Φ (lookupG Gs Gg) e s → STyped Φ Gg ρ Gs (.assign (.index l i) e) Gs
  | assignDot (Gs : List SEnv) (l : Expr F) (key : Str) (e : Expr F) (s : Ty) : Typed Φ (lookupG Gs Gg) l (.map s) →
      Typed Φ (lookupG Gs Gg) e s → STyped Φ Gg ρ Gs (.assign (.dot l key) e) Gs
  | retNone (Gs : List SEnv) : ρ = none → STyped Φ Gg ρ Gs (.ret none) Gs
  | retSome (Gs : List SEnv) (e : Expr F) (t : Ty) : ρ = some t → Typed Φ (lookupG Gs Gg) e t → STyped Φ Gg ρ Gs (.ret (some e)) Gs
  | ifS (Gs : List SEnv) (conds : List (Expr F × List (Stmt F))) (els : Option (List (Stmt F))) :
      (∀ c ∈ conds, Typed Φ (lookupG Gs Gg) c.1 .bool) → (∀ c ∈ conds, BTyped Φ Gg ρ ([] :: Gs) c.2) →
      (∀ b, els = some b → BTyped Φ Gg ρ ([] :: Gs) b) → STyped Φ Gg ρ Gs (.ifS conds els) Gs
  | whileS (Gs : List SEnv) (c : Expr F) (body : List (Stmt F)) : Typed Φ (lookupG Gs Gg) c .bool →
      BTyped Φ Gg ρ ([] :: Gs) body → STyped Φ Gg ρ Gs (.whileS c body) Gs
  /-- `for x := range start stop step`: x is a num, in a scope of its own around the body's scope -/
  | forStep (Gs : List SEnv) (lv : Option Str) (lvTy : Ty) (start : Option (Expr F)) (stop : Expr F) (step : Option (Expr F))
      (body : List (Stmt F)) : (∀ n, lv = some n → n ≠ underscore) →
      (∀ x, start = some x → Typed Φ (lookupG Gs Gg) x .num) → Typed Φ (lookupG Gs Gg) stop .num →
      (∀ x, step = some x → Typed Φ (lookupG Gs Gg) x .num) →
      BTyped Φ Gg ρ ([] :: loopScope lv .num :: Gs) body →
      STyped Φ Gg ρ Gs (.forS lv lvTy (.step start stop step) body) Gs
  /-- `for x := range array`: x has the element type -/
  | forArr (Gs : List SEnv) (lv : Option Str) (lvTy : Ty) (e : Expr F) (s : Ty) (body : List (Stmt F)) :
      (∀ n, lv = some n → n ≠ underscore) → (lv ≠ none → lvTy = s) → Typed Φ (lookupG Gs Gg) e (.arr s) →
      BTyped Φ Gg ρ ([] :: loopScope lv s :: Gs) body →
      STyped Φ Gg ρ Gs (.forS lv lvTy (.over e) body) Gs
  /-- `for x := range string`: x is a string (one code point) -/
  | forStr (Gs : List SEnv) (lv : Option Str) (lvTy : Ty) (e : Expr F) (body : List (Stmt F)) :
      (∀ n, lv = some n → n ≠ underscore) → Typed Φ (lookupG Gs Gg) e .str →
      BTyped Φ Gg ρ ([] :: loopScope lv .str :: Gs) body →
      STyped Φ Gg ρ Gs (.forS lv lvTy (.over e) body) Gs
  /-- `for x := range map`: x is a string (a key) -/
  | forMap (Gs : List SEnv) (lv : Option Str) (lvTy : Ty) (e : Expr F) (s : Ty) (body : List (Stmt F)) :
      (∀ n, lv = some n → n ≠ underscore) → Typed Φ (lookupG Gs Gg) e (.map s) →
      BTyped Φ Gg ρ ([] :: loopScope lv .str :: Gs) body →
      STyped Φ Gg ρ Gs (.forS lv lvTy (.over e) body) Gs
  /-- a call of a built-in of the typed fragment as a statement -/
  | callBi (Gs : List SEnv) (name : Str) (args : List (Expr F)) (sig : BSig) (tys : List Ty) : builtinSig name = some sig →
      sig.params.length ≤ args.length → (sig.rest = none → args.length = sig.params.length) →
      args.length = tys.length → (∀ (i : Nat) a ta, args[i]? = some a → tys[i]? = some ta → Typed Φ (lookupG Gs Gg) a ta) →
      (∀ (i : Nat) ta, tys[i]? = some ta → sig.paramAt i ta = true) → STyped Φ Gg ρ Gs (.callS (.call name args)) Gs
  /-- `test`: any number of arguments, each converted to any -/
  | callTest (Gs : List SEnv) (args : List (Expr F)) : (∀ a ∈ args, Typed Φ (lookupG Gs Gg) a .any) →
      STyped Φ Gg ρ Gs (.callS (.call (lit "test") args)) Gs
  /-- a call of a user-defined function as a statement (a result is dropped) -/
  | callFnV (Gs : List SEnv) (name : Str) (args : List (Expr F)) (sig : FSig) (tv : Ty) : Φ name = some sig →
      sig.variadic = some tv → (∀ a ∈ args, Typed Φ (lookupG Gs Gg) a tv) → STyped Φ Gg ρ Gs (.callS (.call name args)) Gs
  | callFn (Gs : List SEnv) (name : Str) (args : List (Expr F)) (sig : FSig) : Φ name = some sig → sig.variadic = none →
      args.length = sig.params.length →
      (∀ (i : Nat) a pt, args[i]? = some a → sig.params[i]? = some pt → Typed Φ (lookupG Gs Gg) a pt) →
      STyped Φ Gg ρ Gs (.callS (.call name args)) Gs
  /-- `print` takes any number of arguments of any type -/
  | print (Gs : List SEnv) (args : List (Expr F)) : (∀ a ∈ args, ∃ t, Typed Φ (lookupG Gs Gg) a t) →
      STyped Φ Gg ρ Gs (.callS (.call (lit "print") args)) Gs
/-- a statement list: each statement under the scopes its predecessors left -/
inductive BTyped (Φ : FEnv) (Gg : Env) (ρ : Option Ty) : List SEnv → List (Stmt F) → Prop
  | nil (Gs : List SEnv) : BTyped Φ Gg ρ Gs []
  | cons (Gs Gs' : List SEnv) (s : Stmt F) (rest : List (Stmt F)) : STyped Φ Gg ρ Gs s Gs' → BTyped Φ Gg ρ Gs' rest →
      BTyped Φ Gg ρ Gs (s :: rest)
end

/-- two lists related element by element -/
inductive All2 {α β : Type} (R : α → β → Prop) : List α → List β → Prop
  | nil : All2 R [] []
  | cons {a : α} {b : β} {as : List α} {bs : List β} : R a b → All2 R as bs → All2 R (a :: as) (b :: bs)

/-- a run-time scope agrees with its static scope: same names in the same order, values of the
declared types -/
def ScOk (S : Store) (g : SEnv) (sc : Scope F) : Prop :=
  All2 (fun (p : Str × Val F) (q : Str × Ty) => p.1 = q.1 ∧ VT S p.2 q.2) sc g

def LocalsOk (S : Store) (Gs : List SEnv) (locals : List (Scope F)) : Prop :=
  All2 (fun sc g => ScOk S g sc) locals Gs

/-- every global that exists has its declared type (globals come into existence as the top-level
code runs) -/
def GlobalOk (S : Store) (Gg : Env) (global : Scope F) : Prop :=
  ∀ p ∈ global, ∀ t, Gg p.1 = some t → VT S p.2 t

structure StOk (S : Store) (Gs : List SEnv) (Gg : Env) (st : St F) : Prop where
  locals : LocalsOk S Gs st.locals
  global : GlobalOk S Gg st.global
  heap : HeapOk S st.heap

/-- how a statement may complete in a function with result type `ρ` -/
def ComplOk (S : Store) (ρ : Option Ty) : Completion F → Prop
  | .ret (some v) => ∃ t, ρ = some t ∧ VT S v t
  | .ret none => ρ = none
  | _ => True

/-- mirror of `bindParams`: the scope of a function body, parameter by parameter -/
def paramScope : List Str → List Ty → SEnv → SEnv
  | p :: ps, t :: ts, g => paramScope ps ts (if p = underscore then g else senvSet g p t)
  | _, _, g => g

/-- the program's functions are well-typed against their signatures: a fixed parameter list, the body
well-typed in the scope of the parameters, and — for a function with a result type — what the parser
guarantees about returns (Props/C05: the body always terminates, breaks only inside loops, returns
only values) -/
structure ProgOk (Φ : FEnv) (Gg : Env) (prog : Program F) : Prop where
  defined : ∀ name sig, Φ name = some sig → isBuiltin name = false ∧ ∃ fd, lookupFunc prog.funcs name = some fd
  typed : ∀ name sig fd, Φ name = some sig → lookupFunc prog.funcs name = some fd → sig.variadic = none →
    fd.variadic = none ∧ fd.params.length = sig.params.length ∧
    BTyped Φ Gg sig.ret [paramScope fd.params sig.params []] fd.body ∧
    (∀ t, sig.ret = some t → blockTerms fd.body = true ∧ fnOkB false fd.body = true)
  /-- a variadic function: its only parameter is the array of all arguments -/
  typedV : ∀ name sig fd tv, Φ name = some sig → lookupFunc prog.funcs name = some fd → sig.variadic = some tv →
    (∃ vn, fd.variadic = some vn ∧ vn ≠ underscore ∧ BTyped Φ Gg sig.ret [[(vn, Ty.arr tv)]] fd.body) ∧
    fd.params = [] ∧ Reg tv = true ∧
    (∀ t, sig.ret = some t → blockTerms fd.body = true ∧ fnOkB false fd.body = true)

/-- the built-in globals err and errmsg have their documented types, if the program mentions them -/
def GgOk (Gg : Env) : Prop :=
  (∀ t, Gg (lit "err") = some t → t = .bool) ∧ (∀ t, Gg (lit "errmsg") = some t → t = .str)

end EvyV.TS
