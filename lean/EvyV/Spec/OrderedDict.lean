/-
The specification of Evy maps (docs/spec.md "Maps", property C12): an
insertion-ordered dictionary, written as the simplest thing that can be:
a list of (key, value) entries in insertion order.
-/
namespace EvyV.Spec

abbrev Key := List Char

abbrev Dict (V : Type) := List (Key × V)

namespace Dict
variable {V : Type}

def get (d : Dict V) (k : Key) : Option V := List.lookup k d
def has (d : Dict V) (k : Key) : Bool := (List.lookup k d).isSome
def len (d : Dict V) : Nat := d.length
def keys (d : Dict V) : List Key := d.map Prod.fst

/-- overwrite keeps the key's position; a new key goes to the end -/
def set : Dict V → Key → V → Dict V
  | [], k, v => [(k, v)]
  | (k', v') :: rest, k, v => if k' = k then (k, v) :: rest else (k', v') :: set rest k v

/-- deletion removes the entry (a later insert of the same key goes to the end) -/
def del (d : Dict V) (k : Key) : Dict V := d.filter (fun p => !decide (p.1 = k))

/-- `for k := range d` with a body that may change the dictionary: walk the keys
the dictionary had at loop entry; a key is visited iff it is present when its
turn comes. Returns the visited keys and the final dictionary. -/
def rangeLoop (body : Key → Dict V → Dict V) : List Key → Dict V → List Key × Dict V
  | [], d => ([], d)
  | k :: rest, d =>
    if has d k then
      let (vis, d') := rangeLoop body rest (body k d)
      (k :: vis, d')
    else rangeLoop body rest d

end Dict
end EvyV.Spec
