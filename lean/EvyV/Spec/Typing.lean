import EvyV.Model.Types
/-
Specification of C04, from docs/spec.md ("Types", "Variables and Declarations", "Assignability",
"Operators and Expressions"):

* the types a program can write: num, string, bool, any, []T, {}T                         (`STy`)
* the types of constants: the same, plus the untyped empty literals `[]` and `{}` at any depth (`LTy`)
* a VARIABLE of type t2 is accepted by a target of type t iff t = t2 or t = any
* a CONSTANT of type t2 is accepted iff t = t2, or t = any, or t2 can be CONVERTED to t: both are
  composites of the same structure and t has `any` where t2 has something else; an empty literal
  converts to every composite of its kind                                                   (`Conv`)
* the operator table
-/
namespace EvyV.Types.Spec
open EvyV.Types

/-- the types that can be written in a program -/
inductive STy
  | num | str | bool | any
  | arr (s : STy)
  | map (s : STy)
  deriving DecidableEq, Repr

/-- the types of constants -/
inductive LTy
  | num | str | bool | any
  | emptyArr | emptyMap
  | arr (s : LTy)
  | map (s : LTy)
  deriving DecidableEq, Repr

def ofS : STy → Ty
  | .num => .num | .str => .str | .bool => .bool | .any => .any
  | .arr s => .arr false (ofS s)
  | .map s => .map false (ofS s)

def ofL : LTy → Ty
  | .num => .num | .str => .str | .bool => .bool | .any => .any
  | .emptyArr => .emptyArr | .emptyMap => .emptyMap
  | .arr s => .arr false (ofL s)
  | .map s => .map false (ofL s)

/-- "a constant of type t2 can be converted to type t" (including t2 = t and t = any) -/
inductive Conv : LTy → STy → Prop
  | num : Conv .num .num
  | str : Conv .str .str
  | bool : Conv .bool .bool
  | toAny (l : LTy) : Conv l .any
  | arr {l : LTy} {t : STy} : Conv l t → Conv (.arr l) (.arr t)
  | map {l : LTy} {t : STy} : Conv l t → Conv (.map l) (.map t)
  | emptyArr (t : STy) : Conv .emptyArr (.arr t)
  | emptyMap (t : STy) : Conv .emptyMap (.map t)

/-- operands of a binary operator "are of the same type": identical, where an untyped empty literal
stands for any composite of its kind -/
inductive Same : LTy → LTy → Prop
  | num : Same .num .num
  | str : Same .str .str
  | bool : Same .bool .bool
  | any : Same .any .any
  | arr {a b : LTy} : Same a b → Same (.arr a) (.arr b)
  | map {a b : LTy} : Same a b → Same (.map a) (.map b)
  | emptyArrL (b : LTy) : Same .emptyArr (.arr b)
  | emptyArrR (a : LTy) : Same (.arr a) .emptyArr
  | emptyArr : Same .emptyArr .emptyArr
  | emptyMapL (b : LTy) : Same .emptyMap (.map b)
  | emptyMapR (a : LTy) : Same (.map a) .emptyMap
  | emptyMap : Same .emptyMap .emptyMap

/-- `a ≤ b`: every constant of type `a` is also a constant of type `b` (conversion between constant types) -/
inductive Le : LTy → LTy → Prop
  | refl (a : LTy) : Le a a
  | toAny (a : LTy) : Le a .any
  | arr {a b : LTy} : Le a b → Le (.arr a) (.arr b)
  | map {a b : LTy} : Le a b → Le (.map a) (.map b)
  | emptyArr (b : LTy) : Le .emptyArr (.arr b)
  | emptyMap (b : LTy) : Le .emptyMap (.map b)

/-- the strictest common type of two constant types -/
def join : LTy → LTy → LTy
  | .arr a, .arr b => .arr (join a b)
  | .map a, .map b => .map (join a b)
  | .arr a, .emptyArr => .arr a
  | .emptyArr, .arr b => .arr b
  | .map a, .emptyMap => .map a
  | .emptyMap, .map b => .map b
  | a, b => if a = b then a else .any

end EvyV.Types.Spec
