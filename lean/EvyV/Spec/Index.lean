import EvyV.Model.Num
/-
docs/spec.md "Indexing" and "Slicing", as property C11 states them: for a
sequence of length n and an *integer* i, s[i] exists exactly when -n ≤ i < n and
is the element at position i, counting from the end for negative i; s[a:b]
exists exactly when, after adding n to negative bounds, 0 ≤ a ≤ b ≤ n, and is
those b-a elements; a missing bound means 0 or n.
-/
namespace EvyV.Spec

/-- position denoted by integer index `i` in a sequence of length `n`. -/
def pos (n : Nat) (i : Int) : Int := if i < 0 then (n : Int) + i else i

def index {α : Type} (xs : List α) (i : Int) : Option α :=
  if -(xs.length : Int) ≤ i ∧ i < xs.length then xs[(pos xs.length i).toNat]? else none

/-- position denoted by an optional bound; a missing bound means `dflt` (0 or n). -/
def bound (n : Nat) (b : Option Int) (dflt : Int) : Int :=
  match b with | none => dflt | some i => pos n i

/-- `a`, `b`: the bounds (missing bound = none). -/
def slice {α : Type} (xs : List α) (a b : Option Int) : Option (List α) :=
  if 0 ≤ bound xs.length a 0 ∧ bound xs.length a 0 ≤ bound xs.length b xs.length ∧
      bound xs.length b xs.length ≤ xs.length
  then some ((xs.drop (bound xs.length a 0).toNat).take
              (bound xs.length b xs.length - bound xs.length a 0).toNat)
  else none

end EvyV.Spec
