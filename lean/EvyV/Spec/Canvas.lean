import EvyV.Model.Svg
/-
Specification of C19: a pen moves over the canvas; each drawing command emits exactly one shape
with the geometry of the command (x ↦ 10·x, y ↦ 1000 − 10·y for every kind of shape) and the pen
style in effect; style commands only change the pen. There is no buffering, grouping or
inheritance here.

An empty string for a colour, line cap, font style or family means "not specified", which every
SVG viewer reads as the default in effect on the canvas (black, round, normal, Evy's font).
-/
namespace EvyV.Svg.Spec
open EvyV.Svg

structure Canvas (F : Type) where
  x : F
  y : F
  pen : Pen F
  tpen : TextPen F

section
variable {F : Type} (ops : NumOps F)

def orDefault (s dflt : Str) : Str := if s == [] then dflt else s

def styleOf (p : Pen F) : Style F :=
  { fill := orDefault p.fill (lit "black"), stroke := orDefault p.stroke (lit "black"), width := p.width,
    linecap := orDefault p.linecap (lit "round"), dash := p.dash }

/-- text is painted in the stroke colour -/
def textStyleOf (p : Pen F) : Style F :=
  { styleOf p with fill := orDefault p.stroke (lit "black") }

def tstyleOf (t : TextPen F) : TStyle F :=
  { anchor := orDefault t.anchor (lit "start"), baseline := orDefault t.baseline (lit "alphabetic"),
    size := t.size, weight := t.weight,
    style := orDefault t.style (lit "normal"), family := orDefault t.family defaultFamily,
    spacing := orDefault t.spacing (lit "0") }

def baselineOf (b cur : Str) : Str :=
  if b == lit "top" then lit "hanging"
  else if b == lit "middle" then lit "middle"
  else if b == lit "bottom" then lit "ideographic"
  else if b == lit "alphabetic" then lit "alphabetic"
  else cur

def anchorOf (a cur : Str) : Str :=
  if a == lit "left" then lit "start"
  else if a == lit "right" then lit "end"
  else if a == lit "center" then lit "middle"
  else cur

def setFont (t : TextPen F) (p : FontProps F) : TextPen F :=
  { family := p.family.getD t.family,
    size := match p.size with | some s => scale ops s | none => t.size,
    weight := p.weight.getD t.weight,
    style := p.style.getD t.style,
    baseline := match p.baseline with | some b => baselineOf b t.baseline | none => t.baseline,
    anchor := match p.align with | some a => anchorOf a t.anchor | none => t.anchor,
    spacing := match p.spacing with | some l => ops.fmt l | none => t.spacing }

/-- one command: the new canvas and the shapes it paints (none or one) -/
def step (fuel : Nat) (c : Canvas F) : Cmd F → Canvas F × List (Shape F)
  | .move x y => ({ c with x := tx ops x, y := ty ops y }, [])
  | .line x y =>
    ({ c with x := tx ops x, y := ty ops y }, [.leaf (styleOf c.pen) none (.line c.x c.y (tx ops x) (ty ops y))])
  | .rect w h =>
    let x2 := ops.add c.x (scale ops w)
    let y2 := ops.add c.y (ops.neg (scale ops h))
    ({ c with x := x2, y := y2 },
     [.leaf (styleOf c.pen) none (.rect (fmin ops c.x x2) (fmin ops c.y y2)
        (ops.fmt (fabs ops (scale ops w))) (ops.fmt (fabs ops (ops.neg (scale ops h)))))])
  | .circle r => (c, [.leaf (styleOf c.pen) none (.circle c.x c.y (scale ops r))])
  | .clear col =>
    let col := if col == [] then lit "white" else col
    (c, [.leaf { styleOf c.pen with fill := col, stroke := col } none (.rect ops.zero ops.zero (lit "100%") (lit "100%"))])
  | .poly pts => (c, [.leaf (styleOf c.pen) none (.polyline (pointsStr ops pts))])
  | .ellipse x y rx ry rot =>
    let r := if ops.eq rot ops.zero then none else some (rot, tx ops x, ty ops y)
    (c, [.leaf (styleOf c.pen) none (.ellipse (tx ops x) (ty ops y) (scale ops rx) (scale ops ry) r)])
  | .text s => (c, [.leaf (textStyleOf c.pen) (some (tstyleOf c.tpen)) (.text c.x c.y s)])
  | .gridn u col => (c, [.grid (if col == [] then (styleOf c.pen).stroke else col) (gridLines ops fuel u)])
  | .width w => ({ c with pen := { c.pen with width := scale ops w } }, [])
  | .color col => ({ c with pen := { c.pen with stroke := col, fill := col } }, [])
  | .stroke col => ({ c with pen := { c.pen with stroke := col } }, [])
  | .fill col => ({ c with pen := { c.pen with fill := col } }, [])
  | .dash segs => ({ c with pen := { c.pen with dash := dashStr ops segs } }, [])
  | .linecap s => ({ c with pen := { c.pen with linecap := s } }, [])
  | .font p => ({ c with tpen := setFont ops c.tpen p }, [])

def runFrom (fuel : Nat) : Canvas F → List (Cmd F) → List (Shape F)
  | _, [] => []
  | c, cmd :: rest => (step ops fuel c cmd).2 ++ runFrom fuel (step ops fuel c cmd).1 rest

def initCanvas : Canvas F :=
  { x := tx ops ops.zero, y := ty ops ops.zero, pen := defaultPen ops, tpen := defaultTextPen ops }

/-- the background (white) followed by one shape per drawing command, in order -/
def run (fuel : Nat) (cmds : List (Cmd F)) : List (Shape F) :=
  .leaf { styleOf (defaultPen ops) with fill := lit "white", stroke := lit "white" } none
      (.rect ops.zero ops.zero (lit "100%") (lit "100%"))
    :: runFrom ops fuel (initCanvas ops) cmds

end
end EvyV.Svg.Spec
