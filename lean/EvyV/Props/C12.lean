import EvyV.Lemmas.MapVal
/-
C12 — Maps are insertion-ordered dictionaries.

`MapVal` mirrors the Go representation (a Go map next to a key slice).  The
invariant `Inv` says the two are in step; `abs` reads a `MapVal` as the
specification's insertion-ordered dictionary.  Every operation refines the
dictionary operation, for every history (no bound on length or key set), also
when the operations happen inside a `for … range` over the same map.
-/
namespace EvyV.C12
open EvyV Spec

variable {V : Type}

/-- The representation invariant: no duplicate in Order, no duplicate key in the
Go map, and a key is in Order exactly when it is in the Go map. -/
def Inv (m : MapVal V) : Prop :=
  m.order.Nodup ∧ (GoMap.keys m.pairs).Nodup ∧ ∀ k, k ∈ m.order ↔ GoMap.has m.pairs k = true

/-- Abstraction: the dictionary a `MapVal` denotes — its Order, each key with the
value the Go map holds for it. -/
def abs (m : MapVal V) : Dict V := absOf (fun k => m.pairs.get? k) m.order

theorem inv_empty : Inv (MapVal.empty : MapVal V) := by
  simp [Inv, MapVal.empty, GoMap.keys, GoMap.has]

theorem inv_setKey (m : MapVal V) (k : Key) (v : V) (h : Inv m) : Inv (m.setKey k v) := by
  obtain ⟨h1, h2, h3⟩ := h
  unfold MapVal.setKey
  by_cases hk : GoMap.has m.pairs k = true
  · simp only [hk, if_true]
    refine ⟨h1, ?_, ?_⟩
    · rw [GoMap.keys_set]; simp [hk, h2]
    · intro k'
      simp only [GoMap.has, GoMap.lookup_set]
      by_cases e : k' = k
      · subst e; simp [h3, hk]
      · simp [e, h3, GoMap.has]
  · simp only [hk]
    have hnot : k ∉ m.order := fun hm => hk ((h3 k).1 hm)
    refine ⟨?_, ?_, ?_⟩
    · simp only [Bool.false_eq_true, if_false]
      rw [List.nodup_append]
      refine ⟨h1, by simp, ?_⟩
      intro a ha b hb; simp at hb; subst hb; intro e; subst e; exact hnot ha
    · simp only [Bool.false_eq_true, if_false]
      rw [GoMap.keys_set]
      have : GoMap.has m.pairs k = false := by simpa using hk
      simp only [this, Bool.false_eq_true, if_false]
      rw [List.nodup_append]
      refine ⟨h2, by simp, ?_⟩
      intro a ha b hb; simp at hb; subst hb; intro e; subst e
      exact hk ((GoMap.has_iff_mem_keys _ _).2 ha)
    · intro k'
      simp only [Bool.false_eq_true, if_false, GoMap.has, GoMap.lookup_set, List.mem_append, List.mem_singleton]
      by_cases e : k' = k
      · subst e; simp
      · simp [e, h3, GoMap.has]

theorem inv_delete (m : MapVal V) (k : Key) (h : Inv m) : Inv (m.delete k) := by
  obtain ⟨h1, h2, h3⟩ := h
  unfold MapVal.delete
  by_cases hk : GoMap.has m.pairs k = true
  · simp only [hk, if_true]
    refine ⟨h1.erase k, ?_, ?_⟩
    · rw [GoMap.keys_del]; exact h2.filter _
    · intro k'
      simp only [GoMap.has, GoMap.lookup_del]
      by_cases e : k' = k
      · subst e; simp [List.Nodup.mem_erase_iff h1]
      · simp [e, List.mem_erase_of_ne e, h3, GoMap.has]
  · simp only [hk]; exact ⟨h1, h2, h3⟩

/-- insertion / overwrite refines the dictionary's `set`: an overwrite keeps the
key's position, a new key is appended. -/
theorem abs_setKey (m : MapVal V) (k : Key) (v : V) (h : Inv m) :
    abs (m.setKey k v) = Dict.set (abs m) k v := by
  obtain ⟨h1, _, h3⟩ := h
  unfold abs MapVal.setKey
  by_cases hk : GoMap.has m.pairs k = true
  · simp only [hk, if_true]
    have hf : (fun k' => GoMap.get? (GoMap.set m.pairs k v) k') =
        (fun k' => if k' = k then some v else GoMap.get? m.pairs k') := by
      funext k'; simp [GoMap.get?, GoMap.lookup_set]
    rw [hf]
    exact absOf_update_mem _ _ k v h1 ((h3 k).2 hk) (by simpa [GoMap.has, GoMap.get?] using hk)
  · have hnot : k ∉ m.order := fun hm => hk ((h3 k).1 hm)
    simp only [hk, Bool.false_eq_true, if_false]
    have hf : (fun k' => GoMap.get? (GoMap.set m.pairs k v) k') =
        (fun k' => if k' = k then some v else GoMap.get? m.pairs k') := by
      funext k'; simp [GoMap.get?, GoMap.lookup_set]
    rw [hf]
    have e1 : absOf (fun k' => if k' = k then some v else GoMap.get? m.pairs k') m.order =
        absOf (fun k' => GoMap.get? m.pairs k') m.order := by
      apply absOf_congr
      intro k' hk'
      have : k' ≠ k := fun e => hnot (e ▸ hk')
      simp [this]
    have e2 : k ∉ (absOf (fun k' => GoMap.get? m.pairs k') m.order).map Prod.fst :=
      fun hm => hnot (absOf_keys_sub _ _ _ hm)
    rw [Dict.set_not_mem _ _ _ e2]
    unfold absOf at *
    simp [List.filterMap_append, e1]

/-- deletion refines the dictionary's `del`. -/
theorem abs_delete (m : MapVal V) (k : Key) (h : Inv m) :
    abs (m.delete k) = Dict.del (abs m) k := by
  obtain ⟨h1, _, h3⟩ := h
  unfold abs MapVal.delete
  by_cases hk : GoMap.has m.pairs k = true
  · simp only [hk, if_true]
    have hf : (fun k' => GoMap.get? (GoMap.del m.pairs k) k') =
        (fun k' => if k' = k then none else GoMap.get? m.pairs k') := by
      funext k'; simp [GoMap.get?, GoMap.lookup_del]
    rw [hf]
    exact absOf_erase _ _ k h1
  · simp only [hk]
    have hnot : k ∉ m.order := fun hm => hk ((h3 k).1 hm)
    unfold Dict.del
    symm
    apply List.filter_eq_self.2
    intro p hp
    have : p.1 ∈ (absOf (fun k' => GoMap.get? m.pairs k') m.order).map Prod.fst := List.mem_map_of_mem hp
    have := absOf_keys_sub _ _ _ this
    have hne : p.1 ≠ k := fun e => hnot (e ▸ this)
    simp [hne]

theorem lookup_absOf (f : Key → Option V) (order : List Key) (k : Key) :
    List.lookup k (absOf f order) = if k ∈ order then f k else none := by
  induction order with
  | nil => simp [absOf]
  | cons a rest ih =>
    unfold absOf at *
    simp only [List.filterMap_cons]
    by_cases e : k = a
    · subst e
      cases hf : f k with
      | none =>
        simp only [hf, Option.map_none, ih]
        by_cases hm : k ∈ rest <;> simp [hm, hf]
      | some v => simp [hf, List.lookup]
    · have hb : (k == a) = false := by simp [e]
      cases hf : f a with
      | none => simp [hf, ih, e]
      | some v => simp [hf, List.lookup, hb, ih, e]

/-- lookup (and the missing-key panic), `has` and `len` agree with the dictionary. -/
theorem get_abs (m : MapVal V) (k : Key) (h : Inv m) : m.get k = Dict.get (abs m) k := by
  obtain ⟨_, _, h3⟩ := h
  unfold MapVal.get Dict.get abs
  rw [lookup_absOf]
  by_cases hm : k ∈ m.order
  · simp [hm]
  · have : GoMap.has m.pairs k = false := by
      cases hh : GoMap.has m.pairs k with
      | false => rfl
      | true => exact absurd ((h3 k).2 hh) hm
    simp only [hm, if_false]
    simpa [GoMap.has, GoMap.get?] using this

theorem has_abs (m : MapVal V) (k : Key) (h : Inv m) : m.has k = Dict.has (abs m) k := by
  have := get_abs m k h
  unfold MapVal.get Dict.get at this
  simp [MapVal.has, Dict.has, GoMap.has, GoMap.get?] at *
  rw [this]

theorem abs_length (m : MapVal V) (h : Inv m) : (abs m).length = m.order.length := by
  obtain ⟨_, _, h3⟩ := h
  unfold abs absOf
  have : ∀ (l : List Key), (∀ k ∈ l, GoMap.has m.pairs k = true) →
      (l.filterMap (fun k => (GoMap.get? m.pairs k).map (fun v => (k, v)))).length = l.length := by
    intro l
    induction l with
    | nil => simp
    | cons a rest ih =>
      intro hl
      have ha := hl a (by simp)
      simp only [GoMap.has, Option.isSome_iff_exists] at ha
      obtain ⟨v, hv⟩ := ha
      simp only [List.filterMap_cons, GoMap.get?, hv, Option.map_some, List.length_cons]
      rw [← ih (fun k hk => hl k (by simp [hk]))]
      rfl
  exact this m.order (fun k hk => (h3 k).1 hk)

theorem len_abs (m : MapVal V) (h : Inv m) : m.len = Dict.len (abs m) := by
  have hl := abs_length m h
  obtain ⟨h1, h2, h3⟩ := h
  unfold MapVal.len Dict.len
  rw [hl, GoMap.len_eq_keys]
  -- two duplicate-free lists with the same members have the same length
  have p : (GoMap.keys m.pairs).Perm m.order := by
    rw [List.perm_ext_iff_of_nodup h2 h1]
    intro k; rw [h3 k, GoMap.has_iff_mem_keys]
  exact p.length_eq

/-- printing / iteration order: the entries come out in insertion order and the
nil-dereference (`none`) is unreachable. -/
theorem entries_abs (m : MapVal V) (h : Inv m) : m.entries = some (abs m) := by
  obtain ⟨_, _, h3⟩ := h
  unfold MapVal.entries abs absOf
  have : ∀ (l : List Key), (∀ k ∈ l, GoMap.has m.pairs k = true) →
      l.mapM (fun k => (GoMap.get? m.pairs k).map (fun v => (k, v))) =
        some (l.filterMap (fun k => (GoMap.get? m.pairs k).map (fun v => (k, v)))) := by
    intro l
    induction l with
    | nil => intro _; rfl
    | cons a rest ih =>
      intro hl
      have ha := hl a (by simp)
      simp only [GoMap.has, Option.isSome_iff_exists] at ha
      obtain ⟨v, hv⟩ := ha
      simp only [List.mapM_cons, List.filterMap_cons, GoMap.get?, hv, Option.map_some]
      have := ih (fun k hk => hl k (by simp [hk]))
      simp only [GoMap.get?] at this
      simp [this]
  exact this m.order (fun k hk => (h3 k).1 hk)

/-- The specification's step for one operation of a history. -/
def specStep (d : Dict V) : MapOp V → Dict V
  | .set k v => Dict.set d k v
  | .del k => Dict.del d k

theorem inv_step (m : MapVal V) (op : MapOp V) (h : Inv m) : Inv (m.step op) := by
  cases op with
  | set k v => exact inv_setKey m k v h
  | del k => exact inv_delete m k h

theorem abs_step (m : MapVal V) (op : MapOp V) (h : Inv m) : abs (m.step op) = specStep (abs m) op := by
  cases op with
  | set k v => exact abs_setKey m k v h
  | del k => exact abs_delete m k h

/-- Every history: after any finite sequence of insertions, overwrites and
deletions the map is in step and denotes what the dictionary specification
says (so printing, lookup, has, len agree by the theorems above). -/
theorem history_refines (ops : List (MapOp V)) (m : MapVal V) (h : Inv m) :
    Inv (ops.foldl MapVal.step m) ∧ abs (ops.foldl MapVal.step m) = ops.foldl specStep (abs m) := by
  induction ops generalizing m with
  | nil => exact ⟨h, rfl⟩
  | cons op rest ih =>
    have := ih (m.step op) (inv_step m op h)
    simp only [List.foldl_cons]
    rw [← abs_step m op h]
    exact this

/-- … in particular starting from the empty map. -/
theorem history_from_empty (ops : List (MapOp V)) :
    abs (ops.foldl MapVal.step (MapVal.empty : MapVal V)) = ops.foldl specStep ([] : Dict V) := by
  have := (history_refines ops (MapVal.empty : MapVal V) inv_empty).2
  simpa [abs, absOf, MapVal.empty] using this

/-! ### What the dictionary specification says about order -/

theorem spec_overwrite_keeps_position (d : Dict V) (k : Key) (v : V) (h : Dict.has d k = true) :
    Dict.keys (Dict.set d k v) = Dict.keys d := by
  induction d with
  | nil => simp [Dict.has] at h
  | cons p rest ih =>
    obtain ⟨a, b⟩ := p
    by_cases e : a = k
    · simp [Dict.set, Dict.keys, e]
    · have hb : (k == a) = false := by simp; intro x; exact e x.symm
      simp only [Dict.has, List.lookup, hb] at h
      simp only [Dict.set, e, if_false, Dict.keys, List.map_cons]
      unfold Dict.keys Dict.has at ih
      rw [ih h]

theorem spec_new_key_goes_last (d : Dict V) (k : Key) (v : V) (h : Dict.has d k = false) :
    Dict.keys (Dict.set d k v) = Dict.keys d ++ [k] := by
  have : k ∉ d.map Prod.fst := by
    intro hm
    have h2 := (GoMap.has_iff_mem_keys (V := V) d k).2 hm
    unfold GoMap.has at h2
    unfold Dict.has at h
    rw [h] at h2
    exact Bool.false_ne_true h2
  rw [Dict.set_not_mem d k v this]; simp [Dict.keys]

theorem spec_delete_reinsert_moves_to_end (d : Dict V) (k : Key) (v : V) :
    Dict.keys (Dict.set (Dict.del d k) k v) = (Dict.keys d).filter (fun x => !decide (x = k)) ++ [k] := by
  have hk : k ∉ (Dict.del d k).map Prod.fst := by
    unfold Dict.del; simp [List.mem_map, List.mem_filter]
  rw [Dict.set_not_mem _ _ _ hk]
  have := GoMap.keys_del (V := V) d k
  simp only [GoMap.keys, GoMap.del] at this
  simp [Dict.keys, Dict.del, this]

/-! ### Iteration with mutation -/

/-- The specification of `for k := range m` with a body that may change the map
(`Spec.Dict.rangeLoop`). -/
abbrev specRangeLoop (body : Key → Dict V → Dict V) := Dict.rangeLoop body

theorem range_refines (body : Key → MapVal V → MapVal V) (sbody : Key → Dict V → Dict V)
    (hinv : ∀ k m, Inv m → Inv (body k m))
    (habs : ∀ k m, Inv m → abs (body k m) = sbody k (abs m))
    (ks : List Key) (m : MapVal V) (h : Inv m) :
    (mapRangeLoop body ks m).1 = (specRangeLoop sbody ks (abs m)).1 ∧
    abs (mapRangeLoop body ks m).2 = (specRangeLoop sbody ks (abs m)).2 ∧
    Inv (mapRangeLoop body ks m).2 := by
  induction ks generalizing m with
  | nil => exact ⟨rfl, rfl, h⟩
  | cons k rest ih =>
    simp only [mapRangeLoop, specRangeLoop, Dict.rangeLoop]
    have hh : GoMap.has m.pairs k = Dict.has (abs m) k := has_abs m k h
    by_cases hk : GoMap.has m.pairs k = true
    · have hk' : Dict.has (abs m) k = true := hh ▸ hk
      simp only [hk, hk', if_true]
      have := ih (body k m) (hinv k m h)
      rw [habs k m h] at this
      exact ⟨by rw [this.1], this.2.1, this.2.2⟩
    · have hk' : ¬ Dict.has (abs m) k = true := hh ▸ hk
      simp only [hk, hk', if_false]
      exact ih m h

/-- keys that are not in the snapshot taken at loop entry are never visited
(keys added while iterating), and visited keys come in snapshot order. -/
theorem range_visits_sublist (body : Key → MapVal V → MapVal V) (ks : List Key) (m : MapVal V) :
    (mapRangeLoop body ks m).1.Sublist ks := by
  induction ks generalizing m with
  | nil => simp [mapRangeLoop]
  | cons k rest ih =>
    simp only [mapRangeLoop]
    split
    · exact (ih (body k m)).cons₂ k
    · exact (ih m).cons k

/-- a loop whose body does not touch the map visits exactly the keys in
insertion order. -/
theorem range_no_mutation (m : MapVal V) (h : Inv m) :
    (mapRange (fun _ m => m) m).1 = m.order := by
  obtain ⟨_, _, h3⟩ := h
  unfold mapRange
  have : ∀ l : List Key, (∀ k ∈ l, GoMap.has m.pairs k = true) → (mapRangeLoop (fun _ m => m) l m).1 = l := by
    intro l
    induction l with
    | nil => intro _; rfl
    | cons a rest ih =>
      intro hl
      simp only [mapRangeLoop, hl a (by simp), if_true]
      rw [ih (fun k hk => hl k (by simp [hk]))]
  exact this m.order (fun k hk => (h3 k).1 hk)

/-- Map equality never looks at the order. -/
theorem equals_order_free (veq : V → V → Bool) (m m2 : MapVal V) (o o2 : List Key) :
    MapVal.equals veq m m2 = MapVal.equals veq { m with order := o } { m2 with order := o2 } := rfl

/-- … and compares values through the supplied (deep) element equality: two maps
are equal iff they have the same number of entries and every entry of the first
has an equal partner under the same key in the second. -/
theorem equals_iff (veq : V → V → Bool) (m m2 : MapVal V) :
    MapVal.equals veq m m2 = true ↔
      m.len = m2.len ∧ ∀ p ∈ m.pairs, ∃ v2, m2.get p.1 = some v2 ∧ veq p.2 v2 = true := by
  unfold MapVal.equals MapVal.len MapVal.get
  simp only [Bool.and_eq_true, beq_iff_eq, List.all_eq_true]
  constructor
  · rintro ⟨h1, h2⟩
    refine ⟨h1, fun p hp => ?_⟩
    have := h2 p hp
    split at this
    · rename_i v2 hv; exact ⟨v2, hv, this⟩
    · simp at this
  · rintro ⟨h1, h2⟩
    refine ⟨h1, fun p hp => ?_⟩
    obtain ⟨v2, hv, he⟩ := h2 p hp
    simp [hv, he]

/-- literal construction (duplicate keys are rejected by the parser). -/
theorem inv_ofLiteral_nil : Inv (MapVal.ofLiteral ([] : List (Key × V))) := by
  simp [MapVal.ofLiteral, Inv, GoMap.keys, GoMap.has]

/-! ### Non-vacuity -/
def ka : Key := ['a']
def kb : Key := ['b']
def kc : Key := ['c']
example : abs ((((MapVal.empty : MapVal Nat).setKey ka 1).setKey kb 2).setKey ka 3) = [(ka, 3), (kb, 2)] := by decide
example : abs (((((MapVal.empty : MapVal Nat).setKey ka 1).setKey kb 2).delete ka).setKey ka 4) = [(kb, 2), (ka, 4)] := by decide
example : (mapRange (fun k m => if k = ka then (m.delete kb).setKey kc 9 else m)
    ((((MapVal.empty : MapVal Nat).setKey ka 1).setKey kb 2))).1 = [ka] := by decide

end EvyV.C12
