import EvyV.Model.Scope
import EvyV.Gen.ScopeSites
/-
C05, the variable rules: what the parser's bookkeeping of scopes and use marks (Model/Scope.lean) accepts is
well scoped in the sense of a specification that knows nothing of scope chains or marks —

  * every name a statement mentions is declared, earlier in the same block or in an enclosing one (`scopedS`),
  * no name is declared twice in one scope,
  * every declared variable (also a loop variable, a parameter) is USED: it is among the free names of the rest of
    its block, i.e. some later statement of the block mentions it and means THIS declaration, not a variable of
    the same name declared in between (`usedL`, `fvL` — the usual free-variable function of lexical scoping).

`accepted_program_is_well_scoped`: contrapositive — a program with an undeclared name, a redeclaration in a scope
or an unused variable, at any depth, is rejected.
-/
namespace EvyV.Scope

/-! ### the specification -/

def declOf : St → List Nat
  | .decl x _ => [x]
  | _ => []

mutual
/-- the names a statement mentions that are not declared inside it -/
def fvS : St → List Nat
  | .use us => us
  | .decl _ us => us
  | .scope ds hd body => hd ++ (fvL body).filter (fun y => !ds.contains y)
/-- the names a statement list mentions and does not itself declare before the mention -/
def fvL : Ss → List Nat
  | .nil => []
  | .cons s rest => fvS s ++ (fvL rest).filter (fun y => !(declOf s).contains y)
end

/-- every variable declared by a statement of the block is meant by a later statement of the block -/
def usedL : Ss → Prop
  | .nil => True
  | .cons s rest => (∀ x ∈ declOf s, x ∈ fvL rest) ∧ usedL rest

mutual
/-- `vis`: the names of the enclosing scopes, `D`: the names declared so far in this scope -/
def scopedS (vis D : List Nat) : St → Prop
  | .use us => ∀ u ∈ us, u ∈ D ∨ u ∈ vis
  | .decl x us => (∀ u ∈ us, u ∈ D ∨ u ∈ vis) ∧ x ∉ D
  | .scope ds hd body =>
    ds.Nodup ∧ (∀ u ∈ hd, u ∉ ds ∧ (u ∈ D ∨ u ∈ vis)) ∧ scopedL (D ++ vis) ds body ∧ usedL body ∧ (∀ x ∈ ds, x ∈ fvL body)
def scopedL (vis D : List Nat) : Ss → Prop
  | .nil => True
  | .cons s rest => scopedS vis D s ∧ scopedL vis (declOf s ++ D) rest
end

/-! ### reading a stack -/

def names (s : Sc) : List Nat := s.map (fun v => v.n)

def flagSc (x : Nat) : Sc → Bool
  | [] => false
  | v :: r => if v.n = x then v.u else flagSc x r

def namesAt : Stk → Nat → List Nat
  | [], _ => []
  | s :: _, 0 => names s
  | _ :: r, i + 1 => namesAt r i

def flagOf : Stk → Nat → Nat → Bool
  | [], _, _ => false
  | s :: _, 0, x => flagSc x s
  | _ :: r, i + 1, x => flagOf r i x

theorem hasName_iff (x : Nat) (s : Sc) : hasName x s = true ↔ x ∈ names s := by
  induction s with
  | nil => simp [hasName, names]
  | cons v r ih =>
    simp only [hasName, names, List.any_cons, List.map_cons, List.mem_cons, Bool.or_eq_true, beq_iff_eq] at ih ⊢
    constructor
    · rintro (h | h)
      · exact Or.inl h.symm
      · exact Or.inr (ih.mp h)
    · rintro (h | h)
      · exact Or.inl h.symm
      · exact Or.inr (ih.mpr h)

theorem names_markSc (x : Nat) (s : Sc) : names (markSc x s) = names s := by
  induction s with
  | nil => rfl
  | cons v r ih =>
    simp only [markSc]
    split
    · simp [names]
    · simp only [names, List.map_cons] at ih ⊢; rw [ih]

theorem flagSc_markSc (x y : Nat) (s : Sc) (h : flagSc y (markSc x s) = true) : flagSc y s = true ∨ y = x := by
  induction s with
  | nil => simp [markSc, flagSc] at h
  | cons v r ih =>
    simp only [markSc] at h
    by_cases hv : v.n = x
    · simp only [hv, if_true] at h
      by_cases hy : x = y
      · exact Or.inr hy.symm
      · simp only [flagSc, hy, if_false] at h
        left; simp only [flagSc, hv, hy, if_false]; exact h
    · simp only [hv, if_false] at h
      by_cases hy : v.n = y
      · simp only [flagSc, hy, if_true] at h ⊢; exact Or.inl h
      · simp only [flagSc, hy, if_false] at h ⊢; exact ih h

theorem flagSc_false_of_not_mem (x : Nat) (s : Sc) (h : x ∉ names s) : flagSc x s = false := by
  induction s with
  | nil => rfl
  | cons v r ih =>
    simp only [names, List.map_cons, List.mem_cons, not_or] at h
    simp only [flagSc]
    rw [if_neg (fun e => h.1 e.symm)]
    exact ih h.2

theorem flagSc_of_all (x : Nat) (s : Sc) (hall : s.all (fun v => v.u) = true) (hx : x ∈ names s) : flagSc x s = true := by
  induction s with
  | nil => simp [names] at hx
  | cons v r ih =>
    simp only [List.all_cons, Bool.and_eq_true] at hall
    simp only [flagSc]
    by_cases hv : v.n = x
    · rw [if_pos hv]; exact hall.1
    · rw [if_neg hv]
      simp only [names, List.map_cons, List.mem_cons] at hx
      rcases hx with hx | hx
      · exact absurd hx.symm hv
      · exact ih hall.2 hx

/-! ### what a run of the bookkeeping does to the stack

`Ext N F k k'`: the top scope has gained the names N (none of them in it before), nothing else has changed its
names, and a variable that was there before has its mark only if it had it before or it is the innermost variable
of a name in F. -/

structure Ext (N F : List Nat) (k k' : Stk) : Prop where
  top : namesAt k' 0 = N ++ namesAt k 0
  rest : ∀ i, namesAt k' (i + 1) = namesAt k (i + 1)
  fresh : ∀ x ∈ N, x ∉ namesAt k 0
  flag : ∀ i y, y ∈ namesAt k i → flagOf k' i y = true →
    flagOf k i y = true ∨ (y ∈ F ∧ ∀ j, j < i → y ∉ namesAt k j)

theorem Ext.namesAt_sub {N F k k'} (h : Ext N F k k') (i : Nat) (y : Nat) (hy : y ∈ namesAt k i) : y ∈ namesAt k' i := by
  cases i with
  | zero => rw [h.top]; exact List.mem_append_right _ hy
  | succ i => rw [h.rest]; exact hy

theorem Ext.refl (k : Stk) : Ext [] [] k k :=
  ⟨rfl, fun _ => rfl, (fun _ h => by cases h), fun _ _ _ h => Or.inl h⟩

theorem Ext.mono {N F G k k'} (h : Ext N F k k') (hs : ∀ y ∈ F, y ∈ G) : Ext N G k k' :=
  ⟨h.top, h.rest, h.fresh, fun i y hy hf => (h.flag i y hy hf).imp id (fun ⟨a, b⟩ => ⟨hs y a, b⟩)⟩

/-- one run after the other; the names the first run declares hide those names from the second -/
theorem Ext.trans {N1 F1 N2 F2 k k1 k2} (h1 : Ext N1 F1 k k1) (h2 : Ext N2 F2 k1 k2) :
    Ext (N2 ++ N1) (F1 ++ F2.filter (fun y => !N1.contains y)) k k2 := by
  refine ⟨?_, ?_, ?_, ?_⟩
  · rw [h2.top, h1.top, List.append_assoc]
  · intro i; rw [h2.rest, h1.rest]
  · intro x hx
    rcases List.mem_append.mp hx with hx | hx
    · intro hk
      exact h2.fresh x hx (h1.namesAt_sub 0 x hk)
    · exact h1.fresh x hx
  · intro i y hy hf
    rcases h2.flag i y (h1.namesAt_sub i y hy) hf with hl | ⟨hF, hn⟩
    · rcases h1.flag i y hy hl with hl | ⟨hF, hn⟩
      · exact Or.inl hl
      · exact Or.inr ⟨List.mem_append_left _ hF, hn⟩
    · right
      have hnot : y ∉ N1 := by
        cases i with
        | zero => intro hN; exact h1.fresh y hN hy
        | succ i =>
          intro hN
          apply hn 0 (Nat.succ_pos i)
          rw [h1.top]; exact List.mem_append_left _ hN
      refine ⟨List.mem_append_right _ ?_, fun j hj hk => hn j hj (h1.namesAt_sub j y hk)⟩
      simp only [List.mem_filter, Bool.not_eq_true', List.contains_eq_mem, decide_eq_false_iff_not]
      exact ⟨hF, hnot⟩

theorem mark_ext (x : Nat) : ∀ (k k' : Stk), mark x k = some k' → Ext [] [x] k k' ∧ ∃ i, x ∈ namesAt k i := by
  intro k
  induction k with
  | nil => intro k' h; simp [mark] at h
  | cons s r ih =>
    intro k' h
    simp only [mark] at h
    by_cases hs : hasName x s = true
    · rw [if_pos hs] at h
      cases h
      refine ⟨⟨?_, fun _ => rfl, (fun _ h => by cases h), ?_⟩, 0, (hasName_iff x s).mp hs⟩
      · simp [namesAt, names_markSc]
      · intro i y _ hf
        cases i with
        | zero =>
          simp only [flagOf] at hf ⊢
          rcases flagSc_markSc x y s hf with h | h
          · exact Or.inl h
          · exact Or.inr ⟨by simp [h], fun j hj => absurd hj (Nat.not_lt_zero j)⟩
        | succ i => exact Or.inl hf
    · rw [if_neg hs] at h
      cases hm : mark x r with
      | none => rw [hm] at h; cases h
      | some r' =>
        rw [hm] at h; cases h
        obtain ⟨e, j, hj⟩ := ih r' hm
        refine ⟨⟨rfl, ?_, (fun _ h => by cases h), ?_⟩, j + 1, hj⟩
        · intro i
          cases i with
          | zero => simpa [namesAt] using e.top
          | succ i => simpa [namesAt] using e.rest i
        · intro i y hy hf
          cases i with
          | zero => exact Or.inl hf
          | succ i =>
            simp only [flagOf, namesAt] at hf hy ⊢
            rcases e.flag i y hy hf with h | ⟨hF, hn⟩
            · exact Or.inl h
            · right
              refine ⟨hF, ?_⟩
              intro j hj
              cases j with
              | zero =>
                simp only [List.mem_singleton] at hF
                simp only [namesAt]; rw [hF]
                exact fun hm => hs ((hasName_iff x s).mpr hm)
              | succ j => simp only [namesAt]; exact hn j (Nat.lt_of_succ_lt_succ hj)

theorem marks_ext : ∀ (us : List Nat) (k k' : Stk), marks us k = some k' →
    Ext [] us k k' ∧ ∀ u ∈ us, ∃ i, u ∈ namesAt k i := by
  intro us
  induction us with
  | nil =>
    intro k k' h
    simp only [marks] at h; cases h
    exact ⟨Ext.refl k, fun _ h => by cases h⟩
  | cons x xs ih =>
    intro k k' h
    simp only [marks] at h
    cases hm : mark x k with
    | none => rw [hm] at h; cases h
    | some k1 =>
      rw [hm] at h
      obtain ⟨e1, i1, hi1⟩ := mark_ext x k k1 hm
      obtain ⟨e2, hv⟩ := ih k1 k' h
      refine ⟨(e1.trans e2).mono ?_, ?_⟩
      · intro y hy
        rcases List.mem_append.mp hy with hy | hy
        · simp only [List.mem_singleton] at hy; rw [hy]; exact List.mem_cons_self
        · exact List.mem_cons_of_mem _ (List.mem_filter.mp hy).1
      · intro u hu
        rcases List.mem_cons.mp hu with hu | hu
        · rw [hu]; exact ⟨i1, hi1⟩
        · obtain ⟨i, hi⟩ := hv u hu
          refine ⟨i, ?_⟩
          cases i with
          | zero => have := e1.top; simp only [List.nil_append] at this; rw [← this]; exact hi
          | succ i => rw [← e1.rest]; exact hi

theorem declare_ext (x : Nat) (k k' : Stk) (h : declare x k = some k') :
    Ext [x] [] k k' ∧ flagOf k' 0 x = false := by
  cases k with
  | nil => simp [declare] at h
  | cons s r =>
    simp only [declare] at h
    by_cases hs : hasName x s = true
    · rw [if_pos hs] at h; cases h
    · rw [if_neg hs] at h; cases h
      have hx : x ∉ names s := fun hm => hs ((hasName_iff x s).mpr hm)
      refine ⟨⟨by simp [namesAt, names], fun _ => rfl, ?_, ?_⟩, by simp [flagOf, flagSc]⟩
      · intro y hy; simp only [List.mem_singleton] at hy; rw [hy]; exact hx
      · intro i y hy hf
        cases i with
        | zero =>
          left
          simp only [flagOf, flagSc] at hf ⊢
          simp only [namesAt] at hy
          have : x ≠ y := fun e => hx (e ▸ hy)
          rw [if_neg this] at hf; exact hf
        | succ i => exact Or.inl hf

theorem declares_ext : ∀ (ds : List Nat) (k k' : Stk), declares ds k = some k' →
    Ext ds.reverse [] k k' ∧ ds.Nodup ∧ ∀ x ∈ ds, flagOf k' 0 x = false := by
  intro ds
  induction ds with
  | nil =>
    intro k k' h
    simp only [declares] at h; cases h
    exact ⟨Ext.refl k, List.nodup_nil, fun _ h => by cases h⟩
  | cons x xs ih =>
    intro k k' h
    simp only [declares] at h
    cases hd : declare x k with
    | none => rw [hd] at h; cases h
    | some k1 =>
      rw [hd] at h
      obtain ⟨e1, hfx⟩ := declare_ext x k k1 hd
      obtain ⟨e2, hnd, hfl⟩ := ih k1 k' h
      have hx1 : x ∈ namesAt k1 0 := by rw [e1.top]; exact List.mem_append_left _ List.mem_cons_self
      refine ⟨?_, ?_, ?_⟩
      · have := (e1.trans e2).mono (G := []) (by intro y hy; simp at hy)
        simpa using this
      · refine List.nodup_cons.mpr ⟨?_, hnd⟩
        intro hm
        exact e2.fresh x (List.mem_reverse.mpr hm) hx1
      · intro y hy
        rcases List.mem_cons.mp hy with hy | hy
        · rw [hy]
          cases hf : flagOf k' 0 x with
          | false => rfl
          | true =>
            rcases e2.flag 0 x hx1 hf with h | ⟨h, _⟩
            · rw [hfx] at h; cases h
            · cases h
        · exact hfl y hy

theorem pop_some (k k' : Stk) (h : pop k = some k') : ∃ s, k = s :: k' ∧ s.all (fun v => v.u) = true := by
  cases k with
  | nil => simp [pop] at h
  | cons s r =>
    simp only [pop] at h
    by_cases ha : s.all (fun v => v.u) = true
    · rw [if_pos ha] at h; cases h; exact ⟨s, rfl, ha⟩
    · rw [if_neg ha] at h; cases h

/-- leaving the scope that was entered: what remains is the old stack with some marks more -/
theorem Ext.pop {N F : List Nat} {k k' : Stk} {s3 : Sc} (e : Ext N F ([] :: k) (s3 :: k')) : Ext [] F k k' := by
  have hn : ∀ i, namesAt k' i = namesAt k i := fun i => by simpa [namesAt] using e.rest i
  refine ⟨by simpa using hn 0, fun i => hn (i + 1), (fun _ h => by cases h), ?_⟩
  intro i y hy hf
  rcases e.flag (i + 1) y (by simpa [namesAt] using hy) (by simpa [flagOf] using hf) with h | ⟨hF, hnn⟩
  · exact Or.inl (by simpa [flagOf] using h)
  · exact Or.inr ⟨hF, fun j hj => by simpa [namesAt] using hnn (j + 1) (Nat.succ_lt_succ hj)⟩

def declsL : Ss → List Nat
  | .nil => []
  | .cons s rest => declsL rest ++ declOf s

theorem disjoint_iff (hd ds : List Nat) : disjoint hd ds = true ↔ ∀ u ∈ hd, u ∉ ds := by
  simp [disjoint]

mutual
theorem chkS_ext : ∀ (s : St) (k k' : Stk), chkS s k = some k' → Ext (declOf s) (fvS s) k k'
  | .use us, k, k', h => by
    simp only [chkS] at h
    exact (marks_ext us k k' h).1
  | .decl x us, k, k', h => by
    simp only [chkS] at h
    cases hm : marks us k with
    | none => rw [hm] at h; cases h
    | some k1 =>
      rw [hm] at h
      have e1 := (marks_ext us k k1 hm).1
      have e2 := (declare_ext x k1 k' h).1
      have := (e1.trans e2).mono (G := us) (by intro y hy; simpa using hy)
      simpa [declOf, fvS] using this
  | .scope ds hd body, k, k', h => by
    simp only [chkS] at h
    by_cases hdj : disjoint hd ds = true
    · rw [if_pos hdj] at h
      cases h1 : declares ds ([] :: k) with
      | none => rw [h1] at h; cases h
      | some k1 =>
        rw [h1] at h
        cases h2 : marks hd k1 with
        | none => simp only [Option.bind] at h; rw [h2] at h; cases h
        | some k2 =>
          simp only [Option.bind] at h; rw [h2] at h
          cases h3 : chkL body k2 with
          | none => simp only [] at h; rw [h3] at h; cases h
          | some k3 =>
            simp only [] at h; rw [h3] at h
            obtain ⟨s3, hk3, _⟩ := pop_some k3 k' h
            have e1 := (declares_ext ds ([] :: k) k1 h1).1
            have e2 := (marks_ext hd k1 k2 h2).1
            have e3 := chkL_ext body k2 k3 h3
            have e := (e1.trans e2).trans e3
            rw [hk3] at e
            refine (Ext.pop e).mono ?_
            intro y hy
            simp only [fvS, List.nil_append, List.mem_append, List.mem_filter, List.contains_eq_mem,
              List.mem_reverse, Bool.not_eq_true', decide_eq_false_iff_not] at hy ⊢
            rcases hy with hy | hy
            · exact Or.inl hy.1
            · exact Or.inr hy
    · rw [if_neg hdj] at h; cases h
theorem chkL_ext : ∀ (ss : Ss) (k k' : Stk), chkL ss k = some k' → Ext (declsL ss) (fvL ss) k k'
  | .nil, k, k', h => by
    simp only [chkL] at h; cases h
    exact Ext.refl k
  | .cons s rest, k, k', h => by
    simp only [chkL] at h
    cases h1 : chkS s k with
    | none => rw [h1] at h; cases h
    | some k1 =>
      rw [h1] at h
      have e1 := chkS_ext s k k1 h1
      have e2 := chkL_ext rest k1 k' h
      simpa [declsL, fvL] using e1.trans e2
end

theorem flags_of_pop (k k' : Stk) (h : pop k = some k') : ∀ x ∈ namesAt k 0, flagOf k 0 x = true := by
  obtain ⟨s, hk, ha⟩ := pop_some k k' h
  rw [hk]
  intro x hx
  exact flagSc_of_all x s ha hx

/-- a block whose scope passes validateScope has used every variable it declares -/
theorem used_of_flags : ∀ (ss : Ss) (k k' : Stk), chkL ss k = some k' →
    (∀ x ∈ namesAt k' 0, flagOf k' 0 x = true) → usedL ss
  | .nil, _, _, _, _ => trivial
  | .cons s rest, k, k', h, hf => by
    simp only [chkL] at h
    cases h1 : chkS s k with
    | none => rw [h1] at h; cases h
    | some k1 =>
      rw [h1] at h
      refine ⟨?_, used_of_flags rest k1 k' h hf⟩
      have e2 := chkL_ext rest k1 k' h
      intro x hx
      cases s with
      | use us => cases hx
      | scope ds hd body => cases hx
      | decl y us =>
        simp only [declOf, List.mem_singleton] at hx
        subst hx
        simp only [chkS] at h1
        cases hm : marks us k with
        | none => rw [hm] at h1; cases h1
        | some k0 =>
          rw [hm] at h1
          obtain ⟨ed, hfx⟩ := declare_ext x k0 k1 h1
          have hx1 : x ∈ namesAt k1 0 := by rw [ed.top]; exact List.mem_append_left _ List.mem_cons_self
          rcases e2.flag 0 x hx1 (hf x (e2.namesAt_sub 0 x hx1)) with h | ⟨h, _⟩
          · rw [hfx] at h; cases h
          · exact h

theorem visible_of {k : Stk} {vis D : List Nat} (hD : ∀ y, y ∈ D ↔ y ∈ namesAt k 0)
    (hv : ∀ y, y ∈ vis ↔ ∃ i, y ∈ namesAt k (i + 1)) {u : Nat} (h : ∃ i, u ∈ namesAt k i) : u ∈ D ∨ u ∈ vis := by
  obtain ⟨i, hi⟩ := h
  cases i with
  | zero => exact Or.inl ((hD u).mpr hi)
  | succ i => exact Or.inr ((hv u).mpr ⟨i, hi⟩)

mutual
theorem scopedS_of : ∀ (s : St) (k k' : Stk), chkS s k = some k' → ∀ (vis D : List Nat),
    (∀ y, y ∈ D ↔ y ∈ namesAt k 0) → (∀ y, y ∈ vis ↔ ∃ i, y ∈ namesAt k (i + 1)) → scopedS vis D s
  | .use us, k, k', h, vis, D, hD, hv => by
    simp only [chkS] at h
    simp only [scopedS]
    exact fun u hu => visible_of hD hv ((marks_ext us k k' h).2 u hu)
  | .decl x us, k, k', h, vis, D, hD, hv => by
    simp only [chkS] at h
    cases hm : marks us k with
    | none => rw [hm] at h; cases h
    | some k1 =>
      rw [hm] at h
      obtain ⟨e1, hvis⟩ := marks_ext us k k1 hm
      have e2 := (declare_ext x k1 k' h).1
      simp only [scopedS]
      refine ⟨fun u hu => visible_of hD hv (hvis u hu), ?_⟩
      intro hx
      have := e2.fresh x List.mem_cons_self
      rw [e1.top] at this
      exact this (by simpa using (hD x).mp hx)
  | .scope ds hd body, k, k', h, vis, D, hD, hv => by
    simp only [chkS] at h
    by_cases hdj : disjoint hd ds = true
    · rw [if_pos hdj] at h
      cases h1 : declares ds ([] :: k) with
      | none => rw [h1] at h; cases h
      | some k1 =>
        rw [h1] at h
        cases h2 : marks hd k1 with
        | none => simp only [Option.bind] at h; rw [h2] at h; cases h
        | some k2 =>
          simp only [Option.bind] at h; rw [h2] at h
          cases h3 : chkL body k2 with
          | none => simp only [] at h; rw [h3] at h; cases h
          | some k3 =>
            simp only [] at h; rw [h3] at h
            obtain ⟨e1, hnd, hfl⟩ := declares_ext ds ([] :: k) k1 h1
            obtain ⟨e2, hvis⟩ := marks_ext hd k1 k2 h2
            have e3 := chkL_ext body k2 k3 h3
            have hdis := (disjoint_iff hd ds).mp hdj
            have top1 : ∀ y, y ∈ namesAt k1 0 ↔ y ∈ ds := by
              intro y; rw [e1.top]; simp [namesAt, names]
            have top2 : ∀ y, y ∈ namesAt k2 0 ↔ y ∈ ds := by
              intro y; rw [e2.top]; simpa using top1 y
            have rest2 : ∀ i, namesAt k2 (i + 1) = namesAt k i := by
              intro i; rw [e2.rest, e1.rest]; rfl
            have hflags := flags_of_pop k3 k' h
            simp only [scopedS]
            refine ⟨hnd, ?_, ?_, used_of_flags body k2 k3 h3 hflags, ?_⟩
            · intro u hu
              refine ⟨hdis u hu, ?_⟩
              obtain ⟨i, hi⟩ := hvis u hu
              cases i with
              | zero => exact absurd ((top1 u).mp hi) (hdis u hu)
              | succ i =>
                rw [e1.rest] at hi
                exact visible_of hD hv ⟨i, hi⟩
            · refine scopedL_of body k2 k3 h3 (D ++ vis) ds (fun y => (top2 y).symm) ?_
              intro y
              constructor
              · intro hy
                rcases List.mem_append.mp hy with hy | hy
                · exact ⟨0, by rw [rest2]; exact (hD y).mp hy⟩
                · obtain ⟨i, hi⟩ := (hv y).mp hy
                  exact ⟨i + 1, by rw [rest2]; exact hi⟩
              · rintro ⟨i, hi⟩
                rw [rest2] at hi
                exact List.mem_append.mpr (visible_of hD hv ⟨i, hi⟩)
            · intro x hx
              have hx2 : x ∈ namesAt k2 0 := (top2 x).mpr hx
              have hf2 : flagOf k2 0 x = false := by
                cases hf : flagOf k2 0 x with
                | false => rfl
                | true =>
                  rcases e2.flag 0 x ((top1 x).mpr hx) hf with h | ⟨h, _⟩
                  · rw [hfl x hx] at h; cases h
                  · exact absurd hx (hdis x h)
              rcases e3.flag 0 x hx2 (hflags x (e3.namesAt_sub 0 x hx2)) with h | ⟨h, _⟩
              · rw [hf2] at h; cases h
              · exact h
    · rw [if_neg hdj] at h; cases h
theorem scopedL_of : ∀ (ss : Ss) (k k' : Stk), chkL ss k = some k' → ∀ (vis D : List Nat),
    (∀ y, y ∈ D ↔ y ∈ namesAt k 0) → (∀ y, y ∈ vis ↔ ∃ i, y ∈ namesAt k (i + 1)) → scopedL vis D ss
  | .nil, _, _, _, _, _, _, _ => trivial
  | .cons s rest, k, k', h, vis, D, hD, hv => by
    simp only [chkL] at h
    cases h1 : chkS s k with
    | none => rw [h1] at h; cases h
    | some k1 =>
      rw [h1] at h
      have e1 := chkS_ext s k k1 h1
      refine ⟨scopedS_of s k k1 h1 vis D hD hv, scopedL_of rest k1 k' h vis (declOf s ++ D) ?_ ?_⟩
      · intro y; rw [e1.top]; simp only [List.mem_append]; rw [hD y]
      · intro y; rw [hv y]
        constructor
        · rintro ⟨i, hi⟩; exact ⟨i, by rw [e1.rest]; exact hi⟩
        · rintro ⟨i, hi⟩; exact ⟨i, by rw [← e1.rest]; exact hi⟩
end

/-- **C05, variable rules.** A program the bookkeeping accepts mentions only declared names, declares no name
twice in a scope, and uses every variable it declares — at every depth. -/
theorem accepted_program_is_well_scoped (p : Ss) (h : chkProg p = true) : scopedL [] [] p ∧ usedL p := by
  unfold chkProg at h
  cases h1 : chkL p [[]] with
  | none => rw [h1] at h; cases h
  | some k1 =>
    rw [h1] at h
    cases h2 : pop k1 with
    | none => simp [h2] at h
    | some k2 =>
      refine ⟨scopedL_of p [[]] k1 h1 [] [] (by intro y; simp [namesAt, names]) ?_, used_of_flags p [[]] k1 h1 (flags_of_pop k1 k2 h2)⟩
      intro y
      constructor
      · intro hy; cases hy
      · rintro ⟨i, hi⟩; simp [namesAt] at hi

/-- the three rules, read the other way: a program that breaks one is rejected -/
theorem rule_breaking_program_is_rejected (p : Ss) (h : ¬ (scopedL [] [] p ∧ usedL p)) : chkProg p = false := by
  cases hc : chkProg p with
  | false => rfl
  | true => exact absurd (accepted_program_is_well_scoped p hc) h

/-! ### the tie to the source (T1)

The scope operations of every function of pkg/parser that touches the scope chain, extracted from the working tree on
every run (Gen/ScopeSites.lean), are the ones Model/Scope.lean transcribes: each branch of an if statement, a while
statement, a for statement, a function and a handler push a scope BEFORE their header is read and leave it after
their block; a for statement declares its loop variable before its range is read; an inferred declaration reads its
value before it declares; lookups and assignment targets set the use mark; validateScope runs at the end of every
block and of the program; and no other function touches the chain or a mark. -/

theorem scope_sites_as_modelled :
    Gen.scopeSites = [
      ("parseProgram", ["push", "mark", "set", "stmt", "stmt", "stmt", "validate"]),
      ("parseFunc", ["push", "defer-pop", "params", "block"]),
      ("parseEventHandler", ["push", "defer-pop", "params", "block"]),
      ("addParamsToScope", ["declTest", "set", "declTest", "set"]),
      ("addEventParamsToScope", ["declTest", "set"]),
      ("parseIfStatement", ["push", "condBlock", "pop", "push", "condBlock", "pop", "push", "block", "pop"]),
      ("parseIfConditionalBlock", ["header", "block"]),
      ("parseWhileStatement", ["push", "defer-pop", "header", "block"]),
      ("parseForStatement", ["push", "defer-pop", "declTest", "set", "header", "block"]),
      ("parseBlockWithEndTokens", ["stmt", "validate"]),
      ("parseTypedDeclStatement", ["declTest", "set"]),
      ("parseInferredDeclStatement", ["header", "declTest", "set"]),
      ("parseAssignmentTarget", ["get", "mark"]),
      ("lookupVar", ["get", "mark"]),
      ("validateVarDecl", ["inLocal"]),
      ("validateScope", []),
      ("pushScope", ["to-given"]),
      ("pushScopeWithNode", ["push"]),
      ("popScope", ["to-outer"]),
      ("get", ["outer.get"]),
      ("set", []),
      ("inLocalScope", [])] ∧
    Gen.scopeSitesElsewhere = [] := by decide

/-! ### the theorems are not vacuous, and the specification separates the cases it should -/

/-- `x := 1` / `for i := range x` / `print i` / `end` -/
def good : Ss := .cons (.decl 0 []) (.cons (.scope [1] [0] (.cons (.use [1]) .nil)) .nil)
/-- `x := 1` / `if true` / `x := 2` / `print x` / `end`: the outer x is not used — the inner statement means the inner x -/
def shadowed : Ss := .cons (.decl 0 []) (.cons (.scope [] [] (.cons (.decl 0 []) (.cons (.use [0]) .nil))) .nil)
/-- `if true` / `y := 1` / `print y` / `end` / `print y`: y is not visible after its block -/
def leaked : Ss := .cons (.scope [] [] (.cons (.decl 1 []) (.cons (.use [1]) .nil))) (.cons (.use [1]) .nil)
/-- `func f a a` (parameters are the declarations of the scope) -/
def twice : Ss := .cons (.scope [2, 2] [] (.cons (.use [2]) .nil)) .nil

example : chkProg good = true := by decide
example : scopedL [] [] good ∧ usedL good := accepted_program_is_well_scoped good (by decide)
example : chkProg shadowed = false := by decide
example : ¬ usedL shadowed := by simp [usedL, shadowed, declOf, fvL, fvS]
example : chkProg leaked = false := by decide
example : ¬ scopedL [] [] leaked := by simp [scopedL, scopedS, leaked, declOf]
example : chkProg twice = false := by decide
example : ¬ scopedL [] [] twice := by simp [scopedL, scopedS, twice]

end EvyV.Scope
