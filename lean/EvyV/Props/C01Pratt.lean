import EvyV.Model.Pratt
import EvyV.Gen.Tables
/-!
C01, precedence and associativity: the Pratt parser model returns, for every token sequence, exactly
the tree that the specification's precedence levels and left associativity prescribe.

`WF` is the specification: a tree is precedence-respecting when the left operand of a binary operator
binds at least as tightly as the operator (left associativity), the right operand strictly tighter,
the operand of a unary operator tighter than every binary operator, and the indexed, sliced,
field-accessed or type-asserted expression tightest. `parse_toks` (completeness): every such tree is what the parser returns on its tokens, for
every tree of every size. `parse_sound`: whatever the parser returns is such a tree and its tokens
are the consumed input. Together: the parser computes THE precedence-respecting reading.
-/
namespace EvyV.Pratt

/-! ### the binding powers are those of the source (regenerated on every run) -/

theorem table_is_extracted :
    (∀ o ∈ BinOp.all, Gen.precedences.lookup o.tokName = some o.prec) ∧
    Gen.precedences.lookup "LBRACKET" = some indexPrec ∧
    Gen.precLevels.idxOf "unaryPrec" = unaryPrec ∧ Gen.precLevels.idxOf "indexPrec" = indexPrec ∧
    Gen.parseExprLoopIsStrict = true ∧ Gen.binaryRightUsesOwnPrec = true ∧ Gen.unaryOperandUsesUnaryPrec = true := by
  decide

/-! ### the specification -/

/-- binding power of the next token (0 at the end) -/
def hp : List Tok → Nat
  | [] => 0
  | t :: _ => t.prec

/-- how tightly the root of a tree binds, seen from the left -/
def llvl : E → Nat
  | .bin o _ _ => o.prec
  | .index _ _ | .sliceAll _ | .sliceTo _ _ | .sliceFrom _ _ | .slice _ _ _ | .dot _ _ | .assert _ _ => indexPrec
  | _ => 9

/-- the weakest binding power on the right spine: a following operator that binds tighter than this
would be taken into the tree -/
def rlvl : E → Nat
  | .bin o _ r => min o.prec (rlvl r)
  | .un _ e => min unaryPrec (rlvl e)
  | _ => 9

/-- precedence-respecting trees -/
def WF : E → Prop
  | .atom _ => True
  | .un _ e => WF e ∧ unaryPrec < llvl e
  | .bin o l r => WF l ∧ WF r ∧ o.prec ≤ llvl l ∧ o.prec ≤ rlvl l ∧ o.prec < llvl r
  | .group e => WF e
  | .index l i => WF l ∧ WF i ∧ indexPrec ≤ llvl l ∧ indexPrec ≤ rlvl l
  | .sliceAll l => WF l ∧ indexPrec ≤ llvl l ∧ indexPrec ≤ rlvl l
  | .sliceTo l b => WF l ∧ WF b ∧ indexPrec ≤ llvl l ∧ indexPrec ≤ rlvl l
  | .sliceFrom l a => WF l ∧ WF a ∧ indexPrec ≤ llvl l ∧ indexPrec ≤ rlvl l
  | .slice l a b => WF l ∧ WF a ∧ WF b ∧ indexPrec ≤ llvl l ∧ indexPrec ≤ rlvl l
  | .dot l _ => WF l ∧ indexPrec ≤ llvl l ∧ indexPrec ≤ rlvl l
  | .assert l _ => WF l ∧ indexPrec ≤ llvl l ∧ indexPrec ≤ rlvl l

theorem prec_pos (o : BinOp) : 1 ≤ o.prec ∧ o.prec ≤ 6 := by cases o <;> simp [BinOp.prec]

theorem llvl_pos (e : E) : 0 < llvl e := by
  cases e <;> simp [llvl, indexPrec]
  exact (prec_pos _).1

/-! ### more fuel never changes an answer -/

theorem bracket_mono {pe pe' : List Tok → Option (E × List Tok)} {lp lp' : E → List Tok → Option (E × List Tok)}
    (hpe : ∀ ts x, pe ts = some x → pe' ts = some x) (hlp : ∀ l ts x, lp l ts = some x → lp' l ts = some x)
    (left : E) (r : List Tok) (x : E × List Tok) (h : bracket pe lp left r = some x) : bracket pe' lp' left r = some x := by
  unfold bracket at h ⊢
  split at h
  · exact hlp _ _ _ h
  · rename_i r1 hne
    split at h
    · rename_i b r2 hb
      simp only [hpe _ _ hb]
      exact hlp _ _ _ h
    · cases h
  · split at h
    · rename_i i r' hi; simp only [hpe _ _ hi]; exact hlp _ _ _ h
    · rename_i a r' ha; simp only [hpe _ _ ha]; exact hlp _ _ _ h
    · rename_i a r1 hne ha
      simp only [hpe _ _ ha]
      split at h
      · rename_i b r2 hb; simp only [hpe _ _ hb]; exact hlp _ _ _ h
      · cases h
    · cases h

theorem dotted_mono {lp lp' : E → List Tok → Option (E × List Tok)} (hlp : ∀ l ts x, lp l ts = some x → lp' l ts = some x)
    (left : E) (r : List Tok) (x : E × List Tok) (h : dotted lp left r = some x) : dotted lp' left r = some x := by
  unfold dotted at h ⊢
  split at h
  · exact hlp _ _ _ h
  · exact hlp _ _ _ h
  · cases h

theorem mono_step (f : Nat) :
    (∀ p ts x, parseExpr f p ts = some x → parseExpr (f + 1) p ts = some x) ∧
    (∀ p l ts x, loop f p l ts = some x → loop (f + 1) p l ts = some x) := by
  induction f with
  | zero => constructor <;> intros <;> simp_all [parseExpr, loop]
  | succ n ih =>
    obtain ⟨ihP, ihL⟩ := ih
    constructor
    · intro p ts x h
      unfold parseExpr at h ⊢
      split at h
      · exact ihL _ _ _ _ h
      · split at h
        · rename_i e r' he; rw [ihP _ _ _ he]; exact ihL _ _ _ _ h
        · simp at h
      · split at h
        · rename_i e r' he; rw [ihP _ _ _ he]; exact ihL _ _ _ _ h
        · simp at h
      · split at h
        · rename_i e r' he; rw [ihP _ _ _ he]; exact ihL _ _ _ _ h
        · simp at h
      · simp at h
    · intro p l ts x h
      unfold loop at h ⊢
      split at h
      · split at h
        · rename_i hp
          simp only [hp, if_true]
          split at h
          · rename_i e r' he; rw [ihP _ _ _ he]; exact ihL _ _ _ _ h
          · simp at h
        · rename_i hp; simp only [hp, if_false]; exact h
      · split at h
        · rename_i hp
          simp only [hp, if_true]
          exact bracket_mono (fun ts x => ihP 0 ts x) (fun l ts x => ihL p l ts x) _ _ _ h
        · rename_i hp; simp only [hp, if_false]; exact h
      · split at h
        · rename_i hp
          simp only [hp, if_true]
          exact dotted_mono (fun l ts x => ihL p l ts x) _ _ _ h
        · rename_i hp; simp only [hp, if_false]; exact h
      · exact h

theorem mono_parse {f g : Nat} (hfg : f ≤ g) {p ts x} (h : parseExpr f p ts = some x) : parseExpr g p ts = some x := by
  induction hfg with
  | refl => exact h
  | step _ ih => exact (mono_step _).1 _ _ _ ih

theorem mono_loop {f g : Nat} (hfg : f ≤ g) {p l ts x} (h : loop f p l ts = some x) : loop g p l ts = some x := by
  induction hfg with
  | refl => exact h
  | step _ ih => exact (mono_step _).2 _ _ _ _ ih

/-- the loop stops at a token that does not bind tighter than `p` -/
theorem loop_stop (f p : Nat) (e : E) (rest : List Tok) (h : hp rest ≤ p) : loop (f + 1) p e rest = some (e, rest) := by
  unfold loop
  cases rest with
  | nil => rfl
  | cons t r =>
    cases t <;> simp only [hp, Tok.prec] at h <;> simp <;> omega

/-! ### what follows `[` and `.` -/

/-- the tokens of an expression never start with `:` or `]` -/
theorem toks_head (e : E) : ∃ t tl, toks e = t :: tl ∧ t ≠ .colon ∧ t ≠ .rbracket := by
  induction e with
  | atom n => exact ⟨_, _, rfl, by simp, by simp⟩
  | un u e _ => cases u <;> exact ⟨_, _, rfl, by simp, by simp⟩
  | group e _ => exact ⟨_, _, rfl, by simp, by simp⟩
  | bin o l r ihl _ => obtain ⟨t, tl, h, h1, h2⟩ := ihl; exact ⟨t, _, by rw [toks, h]; rfl, h1, h2⟩
  | index l i ihl _ => obtain ⟨t, tl, h, h1, h2⟩ := ihl; exact ⟨t, _, by rw [toks, h]; rfl, h1, h2⟩
  | sliceAll l ihl => obtain ⟨t, tl, h, h1, h2⟩ := ihl; exact ⟨t, _, by rw [toks, h]; rfl, h1, h2⟩
  | sliceTo l b ihl _ => obtain ⟨t, tl, h, h1, h2⟩ := ihl; exact ⟨t, _, by rw [toks, h]; rfl, h1, h2⟩
  | sliceFrom l a ihl _ => obtain ⟨t, tl, h, h1, h2⟩ := ihl; exact ⟨t, _, by rw [toks, h]; rfl, h1, h2⟩
  | slice l a b ihl _ _ => obtain ⟨t, tl, h, h1, h2⟩ := ihl; exact ⟨t, _, by rw [toks, h]; rfl, h1, h2⟩
  | dot l k ihl => obtain ⟨t, tl, h, h1, h2⟩ := ihl; exact ⟨t, _, by rw [toks, h]; rfl, h1, h2⟩
  | assert l k ihl => obtain ⟨t, tl, h, h1, h2⟩ := ihl; exact ⟨t, _, by rw [toks, h]; rfl, h1, h2⟩

variable {pe : List Tok → Option (E × List Tok)} {lp : E → List Tok → Option (E × List Tok)}

theorem bracket_index (left i : E) (rest : List Tok) (h : pe (toks i ++ .rbracket :: rest) = some (i, .rbracket :: rest)) :
    bracket pe lp left (toks i ++ .rbracket :: rest) = lp (.index left i) rest := by
  obtain ⟨t, tl, ht, h1, _⟩ := toks_head i
  rw [ht] at h ⊢
  unfold bracket
  cases t <;> simp_all

theorem bracket_sliceTo (left b : E) (rest : List Tok) (h : pe (toks b ++ .rbracket :: rest) = some (b, .rbracket :: rest)) :
    bracket pe lp left (.colon :: (toks b ++ .rbracket :: rest)) = lp (.sliceTo left b) rest := by
  obtain ⟨t, tl, ht, _, h2⟩ := toks_head b
  rw [ht] at h ⊢
  unfold bracket
  cases t <;> simp_all

theorem bracket_sliceFrom (left a : E) (rest : List Tok)
    (h : pe (toks a ++ .colon :: .rbracket :: rest) = some (a, .colon :: .rbracket :: rest)) :
    bracket pe lp left (toks a ++ .colon :: .rbracket :: rest) = lp (.sliceFrom left a) rest := by
  obtain ⟨t, tl, ht, h1, _⟩ := toks_head a
  rw [ht] at h ⊢
  unfold bracket
  cases t <;> simp_all

theorem bracket_slice (left a b : E) (rest : List Tok)
    (ha : pe (toks a ++ .colon :: (toks b ++ .rbracket :: rest)) = some (a, .colon :: (toks b ++ .rbracket :: rest)))
    (hb : pe (toks b ++ .rbracket :: rest) = some (b, .rbracket :: rest)) :
    bracket pe lp left (toks a ++ .colon :: (toks b ++ .rbracket :: rest)) = lp (.slice left a b) rest := by
  obtain ⟨t, tl, ht, h1, _⟩ := toks_head a
  obtain ⟨u, ul, hu, _, h2⟩ := toks_head b
  rw [ht] at ha ⊢
  rw [hu] at ha hb ⊢
  unfold bracket
  cases t <;> cases u <;> simp_all

/-! ### completeness: every precedence-respecting tree is what the parser returns on its tokens -/

theorem complete (e : E) : WF e → ∀ (f p : Nat) (rest : List Tok) (x : E × List Tok),
    p < llvl e → hp rest ≤ rlvl e → loop f p e rest = some x →
    parseExpr (f + 2 * (toks e).length) p (toks e ++ rest) = some x := by
  induction e with
  | atom n =>
    intro _ f p rest x _ _ h
    simp only [toks, List.length_singleton, List.singleton_append]
    show parseExpr (f + 1 + 1) p _ = some x
    unfold parseExpr
    exact mono_loop (Nat.le_succ f) h
  | un u e ih =>
    intro hw f p rest x _ hr h
    obtain ⟨hwe, hl⟩ := hw
    simp only [rlvl] at hr
    have inner : parseExpr (f + 1 + 2 * (toks e).length) unaryPrec (toks e ++ rest) = some (e, rest) :=
      ih hwe (f + 1) unaryPrec rest (e, rest) hl (by omega) (loop_stop f unaryPrec e rest (by omega))
    have hk : loop (f + 1 + 2 * (toks e).length) p (.un u e) rest = some x := mono_loop (by omega) h
    cases u with
    | neg =>
      simp only [toks, List.length_cons, List.cons_append]
      have : f + 2 * ((toks e).length + 1) = (f + 1 + 2 * (toks e).length) + 1 := by omega
      rw [this]; unfold parseExpr; simp only [inner]; exact hk
    | not =>
      simp only [toks, List.length_cons, List.cons_append]
      have : f + 2 * ((toks e).length + 1) = (f + 1 + 2 * (toks e).length) + 1 := by omega
      rw [this]; unfold parseExpr; simp only [inner]; exact hk
  | bin o l r ihl ihr =>
    intro hw f p rest x hp' hr h
    obtain ⟨hwl, hwr, hll, hrl, hlr⟩ := hw
    simp only [rlvl] at hr
    simp only [llvl] at hp'
    simp only [toks, List.length_append, List.length_cons, List.append_assoc, List.cons_append]
    have e1 : f + 2 * ((toks l).length + ((toks r).length + 1)) = (f + 2 * (toks r).length + 2) + 2 * (toks l).length := by omega
    rw [e1]
    refine ihl hwl _ p _ x (by omega) (by simp only [hp, Tok.prec]; exact hrl) ?_
    show loop ((f + 2 * (toks r).length + 1) + 1) p l _ = some x
    unfold loop
    simp only [hp', if_true]
    have inner : parseExpr (f + 1 + 2 * (toks r).length) o.prec (toks r ++ rest) = some (r, rest) :=
      ihr hwr (f + 1) o.prec rest (r, rest) hlr (by omega) (loop_stop f o.prec r rest (by omega))
    have e2 : f + 2 * (toks r).length + 1 = f + 1 + 2 * (toks r).length := by omega
    rw [e2, inner]
    exact mono_loop (by omega) h
  | group e ih =>
    intro hw f p rest x _ _ h
    have hwe : WF e := hw
    simp only [toks, List.length_cons, List.length_append, List.length_nil, Nat.zero_add, List.nil_append, List.cons_append, List.append_assoc]
    have inner : parseExpr (f + 1 + 2 * (toks e).length) 0 (toks e ++ Tok.rparen :: rest) = some (e, Tok.rparen :: rest) :=
      ih hwe (f + 1) 0 _ (e, _) (llvl_pos e) (by simp [hp, Tok.prec]) (loop_stop f 0 e _ (by simp [hp, Tok.prec]))
    have : f + 2 * ((toks e).length + 1 + 1) = (f + 1 + 2 * (toks e).length) + 1 + 2 := by omega
    rw [this]
    apply mono_parse (Nat.le_add_right _ 2)
    unfold parseExpr
    simp only [inner]
    exact mono_loop (by omega) h
  | index l i ihl ihi =>
    intro hw f p rest x hp' _ h
    obtain ⟨hwl, hwi, hll, hrl⟩ := hw
    simp only [llvl] at hp'
    simp only [toks, List.length_append, List.length_cons, List.length_nil, Nat.zero_add, List.nil_append, List.append_assoc, List.cons_append]
    have e1 : f + 2 * ((toks l).length + ((toks i).length + 1 + 1)) = (f + 2 * (toks i).length + 4) + 2 * (toks l).length := by omega
    rw [e1]
    refine ihl hwl _ p _ x (by omega) (by simp only [hp, Tok.prec]; exact hrl) ?_
    show loop ((f + 2 * (toks i).length + 3) + 1) p l _ = some x
    unfold loop
    simp only [hp', if_true]
    have inner : parseExpr (f + 1 + 2 * (toks i).length) 0 (toks i ++ Tok.rbracket :: rest) = some (i, Tok.rbracket :: rest) :=
      ihi hwi (f + 1) 0 _ (i, _) (llvl_pos i) (by simp [hp, Tok.prec]) (loop_stop f 0 i _ (by simp [hp, Tok.prec]))
    rw [bracket_index l i rest (mono_parse (by omega) inner)]
    exact mono_loop (by omega) h
  | sliceAll l ihl =>
    intro hw f p rest x hp' _ h
    obtain ⟨hwl, hll, hrl⟩ := hw
    simp only [llvl] at hp'
    simp only [toks, List.length_append, List.length_cons, List.length_nil, List.append_assoc, List.cons_append, List.nil_append]
    have e1 : f + 2 * ((toks l).length + (0 + 1 + 1 + 1)) = (f + 6) + 2 * (toks l).length := by omega
    rw [e1]
    refine ihl hwl _ p _ x (by omega) (by simp only [hp, Tok.prec]; exact hrl) ?_
    show loop ((f + 5) + 1) p l _ = some x
    unfold loop
    simp only [hp', if_true, bracket]
    exact mono_loop (by omega) h
  | sliceTo l b ihl ihb =>
    intro hw f p rest x hp' _ h
    obtain ⟨hwl, hwb, hll, hrl⟩ := hw
    simp only [llvl] at hp'
    simp only [toks, List.length_append, List.length_cons, List.length_nil, Nat.zero_add, List.nil_append, List.append_assoc, List.cons_append]
    have e1 : f + 2 * ((toks l).length + ((toks b).length + 1 + 1 + 1)) = (f + 2 * (toks b).length + 6) + 2 * (toks l).length := by omega
    rw [e1]
    refine ihl hwl _ p _ x (by omega) (by simp only [hp, Tok.prec]; exact hrl) ?_
    show loop ((f + 2 * (toks b).length + 5) + 1) p l _ = some x
    unfold loop
    simp only [hp', if_true]
    have inner : parseExpr (f + 1 + 2 * (toks b).length) 0 (toks b ++ Tok.rbracket :: rest) = some (b, Tok.rbracket :: rest) :=
      ihb hwb (f + 1) 0 _ (b, _) (llvl_pos b) (by simp [hp, Tok.prec]) (loop_stop f 0 b _ (by simp [hp, Tok.prec]))
    rw [bracket_sliceTo l b rest (mono_parse (by omega) inner)]
    exact mono_loop (by omega) h
  | sliceFrom l a ihl iha =>
    intro hw f p rest x hp' _ h
    obtain ⟨hwl, hwa, hll, hrl⟩ := hw
    simp only [llvl] at hp'
    simp only [toks, List.length_append, List.length_cons, List.length_nil, Nat.zero_add, List.nil_append, List.append_assoc, List.cons_append]
    have e1 : f + 2 * ((toks l).length + ((toks a).length + (0 + 1 + 1) + 1)) = (f + 2 * (toks a).length + 6) + 2 * (toks l).length := by omega
    rw [e1]
    refine ihl hwl _ p _ x (by omega) (by simp only [hp, Tok.prec]; exact hrl) ?_
    show loop ((f + 2 * (toks a).length + 5) + 1) p l _ = some x
    unfold loop
    simp only [hp', if_true]
    have inner : parseExpr (f + 1 + 2 * (toks a).length) 0 (toks a ++ Tok.colon :: Tok.rbracket :: rest) = some (a, Tok.colon :: Tok.rbracket :: rest) :=
      iha hwa (f + 1) 0 _ (a, _) (llvl_pos a) (by simp [hp, Tok.prec]) (loop_stop f 0 a _ (by simp [hp, Tok.prec]))
    rw [bracket_sliceFrom l a rest (mono_parse (by omega) inner)]
    exact mono_loop (by omega) h
  | slice l a b ihl iha ihb =>
    intro hw f p rest x hp' _ h
    obtain ⟨hwl, hwa, hwb, hll, hrl⟩ := hw
    simp only [llvl] at hp'
    simp only [toks, List.length_append, List.length_cons, List.length_nil, Nat.zero_add, List.nil_append, List.append_assoc, List.cons_append]
    have e1 : f + 2 * ((toks l).length + ((toks a).length + ((toks b).length + 1 + 1) + 1)) =
        (f + 2 * (toks a).length + 2 * (toks b).length + 6) + 2 * (toks l).length := by omega
    rw [e1]
    refine ihl hwl _ p _ x (by omega) (by simp only [hp, Tok.prec]; exact hrl) ?_
    show loop ((f + 2 * (toks a).length + 2 * (toks b).length + 5) + 1) p l _ = some x
    unfold loop
    simp only [hp', if_true]
    have innerA : parseExpr (f + 1 + 2 * (toks a).length) 0 (toks a ++ Tok.colon :: (toks b ++ Tok.rbracket :: rest)) =
        some (a, Tok.colon :: (toks b ++ Tok.rbracket :: rest)) :=
      iha hwa (f + 1) 0 _ (a, _) (llvl_pos a) (by simp [hp, Tok.prec]) (loop_stop f 0 a _ (by simp [hp, Tok.prec]))
    have innerB : parseExpr (f + 1 + 2 * (toks b).length) 0 (toks b ++ Tok.rbracket :: rest) = some (b, Tok.rbracket :: rest) :=
      ihb hwb (f + 1) 0 _ (b, _) (llvl_pos b) (by simp [hp, Tok.prec]) (loop_stop f 0 b _ (by simp [hp, Tok.prec]))
    rw [bracket_slice l a b rest (mono_parse (by omega) innerA) (mono_parse (by omega) innerB)]
    exact mono_loop (by omega) h
  | dot l k ihl =>
    intro hw f p rest x hp' _ h
    obtain ⟨hwl, hll, hrl⟩ := hw
    simp only [llvl] at hp'
    simp only [toks, List.length_append, List.length_cons, List.length_nil, List.append_assoc, List.cons_append, List.nil_append]
    have e1 : f + 2 * ((toks l).length + (0 + 1 + 1)) = (f + 4) + 2 * (toks l).length := by omega
    rw [e1]
    refine ihl hwl _ p _ x (by omega) (by simp only [hp, Tok.prec]; exact hrl) ?_
    show loop ((f + 3) + 1) p l _ = some x
    unfold loop
    simp only [hp', if_true, dotted]
    exact mono_loop (by omega) h
  | assert l k ihl =>
    intro hw f p rest x hp' _ h
    obtain ⟨hwl, hll, hrl⟩ := hw
    simp only [llvl] at hp'
    simp only [toks, List.length_append, List.length_cons, List.length_nil, List.append_assoc, List.cons_append, List.nil_append]
    have e1 : f + 2 * ((toks l).length + (0 + 1 + 1 + 1 + 1)) = (f + 8) + 2 * (toks l).length := by omega
    rw [e1]
    refine ihl hwl _ p _ x (by omega) (by simp only [hp, Tok.prec]; exact hrl) ?_
    show loop ((f + 7) + 1) p l _ = some x
    unfold loop
    simp only [hp', if_true, dotted]
    exact mono_loop (by omega) h

/-- **completeness**: on the tokens of any precedence-respecting tree, followed by anything that
does not continue an expression, the parser returns exactly that tree and stops there -/
theorem parse_toks (e : E) (rest : List Tok) (hw : WF e) (hr : hp rest = 0) :
    parse (toks e ++ rest) = some (e, rest) := by
  unfold parse
  have h := complete e hw 1 0 rest (e, rest) (llvl_pos e) (by omega) (loop_stop 0 0 e rest (by omega))
  exact mono_parse (by simp only [List.length_append]; omega) h

/-! ### soundness: whatever the parser returns is the precedence-respecting reading of what it consumed -/

/-- the result `e` with the remaining input `rest`, for input `ts` at binding power `p` -/
def Good (p : Nat) (ts : List Tok) (x : E × List Tok) : Prop :=
  WF x.1 ∧ ts = toks x.1 ++ x.2 ∧ hp x.2 ≤ rlvl x.1 ∧ hp x.2 ≤ p ∧ p < llvl x.1

theorem tok_prec_le (t : Tok) : t.prec ≤ 8 := by
  cases t <;> simp [Tok.prec, indexPrec]
  exact Nat.le_trans (prec_pos _).2 (by omega)

theorem hp_le (ts : List Tok) : hp ts ≤ 8 := by
  cases ts with
  | nil => simp [hp]
  | cons t _ => exact tok_prec_le t

theorem rlvl_llvl (e : E) : min (rlvl e) 8 ≤ llvl e := by
  cases e <;> simp [rlvl, llvl, indexPrec] <;> omega

theorem sound_step (f : Nat) :
    (∀ p ts x, p ≤ 7 → parseExpr f p ts = some x → Good p ts x) ∧
    (∀ p l ts x, p ≤ 7 → WF l → hp ts ≤ rlvl l → p < llvl l → loop f p l ts = some x → Good p (toks l ++ ts) x) := by
  induction f with
  | zero => constructor <;> intros <;> simp_all [parseExpr, loop]
  | succ n ih =>
    obtain ⟨ihP, ihL⟩ := ih
    constructor
    · intro p ts x hp7 h
      unfold parseExpr at h
      split at h
      · rename_i a r
        exact ihL p (.atom a) r x hp7 trivial (by have := hp_le r; simp only [rlvl]; omega) (by simp only [llvl]; omega) h
      · rename_i r
        split at h
        · rename_i e r' he
          obtain ⟨w, heq, h1, h2, h3⟩ := ihP _ _ _ (by simp [unaryPrec]) he
          simp only at w heq h1 h2 h3
          have g := ihL p (.un .not e) r' x hp7 ⟨w, h3⟩ (by simp only [rlvl]; omega) (by simp only [llvl]; omega) h
          simpa [toks, heq] using g
        · simp at h
      · rename_i r
        split at h
        · rename_i e r' he
          obtain ⟨w, heq, h1, h2, h3⟩ := ihP _ _ _ (by simp [unaryPrec]) he
          simp only at w heq h1 h2 h3
          have g := ihL p (.un .neg e) r' x hp7 ⟨w, h3⟩ (by simp only [rlvl]; omega) (by simp only [llvl]; omega) h
          simpa [toks, heq] using g
        · simp at h
      · rename_i r
        split at h
        · rename_i e r' he
          obtain ⟨w, heq, _, _, _⟩ := ihP _ _ _ (by omega) he
          simp only at w heq
          have g := ihL p (.group e) r' x hp7 w (by have := hp_le r'; simp only [rlvl]; omega) (by simp only [llvl]; omega) h
          simpa [toks, heq] using g
        · simp at h
      · simp at h
    · intro p l ts x hp7 hwl hr hl h
      unfold loop at h
      split at h
      · rename_i o r
        simp only [hp, Tok.prec] at hr
        split at h
        · rename_i hpo
          split at h
          · rename_i right r' he
            obtain ⟨w, heq, h1, h2, h3⟩ := ihP _ _ _ (by have := (prec_pos o).2; omega) he
            simp only at w heq h1 h2 h3
            have hll : o.prec ≤ llvl l := by
              have := rlvl_llvl l; have := (prec_pos o).2; omega
            have g := ihL p (.bin o l right) r' x hp7 ⟨hwl, w, hll, hr, h3⟩ (by simp only [rlvl]; omega) (by simp only [llvl]; exact hpo) h
            simpa [toks, heq] using g
          · simp at h
        · rename_i hpo
          simp at h
          subst h
          exact ⟨hwl, rfl, by simpa [hp, Tok.prec] using hr, by simp only [hp, Tok.prec]; omega, hl⟩
      · rename_i r
        simp only [hp, Tok.prec] at hr
        split at h
        · rename_i hpo
          have hll : indexPrec ≤ llvl l := by
            have := rlvl_llvl l; simp only [indexPrec] at hr ⊢; omega
          have post : ∀ (e' : E) (r' : List Tok), WF e' → llvl e' = indexPrec → rlvl e' = 9 → loop n p e' r' = some x →
              Good p (toks e' ++ r') x := by
            intro e' r' we hl' hr' hh
            exact ihL p e' r' x hp7 we (by have := hp_le r'; omega) (by omega) hh
          unfold bracket at h
          split at h
          · rename_i r2
            have g := post (.sliceAll l) r2 ⟨hwl, hll, hr⟩ rfl rfl h
            simpa [toks] using g
          · rename_i r1 hne
            split at h
            · rename_i b r2 hb
              obtain ⟨w, heq, _, _, _⟩ := ihP _ _ _ (by omega) hb
              simp only at w heq
              have g := post (.sliceTo l b) r2 ⟨hwl, w, hll, hr⟩ rfl rfl h
              simpa [toks, heq] using g
            · cases h
          · split at h
            · rename_i i r' hi
              obtain ⟨w, heq, _, _, _⟩ := ihP _ _ _ (by omega) hi
              simp only at w heq
              have g := post (.index l i) r' ⟨hwl, w, hll, hr⟩ rfl rfl h
              simpa [toks, heq] using g
            · rename_i a r' ha
              obtain ⟨w, heq, _, _, _⟩ := ihP _ _ _ (by omega) ha
              simp only at w heq
              have g := post (.sliceFrom l a) r' ⟨hwl, w, hll, hr⟩ rfl rfl h
              simpa [toks, heq] using g
            · rename_i a r1 hne ha
              obtain ⟨wa, heqa, _, _, _⟩ := ihP _ _ _ (by omega) ha
              simp only at wa heqa
              split at h
              · rename_i b r2 hb
                obtain ⟨wb, heqb, _, _, _⟩ := ihP _ _ _ (by omega) hb
                simp only at wb heqb
                have g := post (.slice l a b) r2 ⟨hwl, wa, wb, hll, hr⟩ rfl rfl h
                simpa [toks, heqa, heqb] using g
              · cases h
            · cases h
        · rename_i hpo
          simp at h
          subst h
          exact ⟨hwl, rfl, by simpa [hp, Tok.prec] using hr, by simp only [hp, Tok.prec]; omega, hl⟩
      · rename_i r
        simp only [hp, Tok.prec] at hr
        split at h
        · rename_i hpo
          have hll : indexPrec ≤ llvl l := by
            have := rlvl_llvl l; simp only [indexPrec] at hr ⊢; omega
          have post : ∀ (e' : E) (r' : List Tok), WF e' → llvl e' = indexPrec → rlvl e' = 9 → loop n p e' r' = some x →
              Good p (toks e' ++ r') x := by
            intro e' r' we hl' hr' hh
            exact ihL p e' r' x hp7 we (by have := hp_le r'; omega) (by omega) hh
          unfold dotted at h
          split at h
          · rename_i t r'
            have g := post (.assert l t) r' ⟨hwl, hll, hr⟩ rfl rfl h
            simpa [toks] using g
          · rename_i k r'
            have g := post (.dot l k) r' ⟨hwl, hll, hr⟩ rfl rfl h
            simpa [toks] using g
          · cases h
        · rename_i hpo
          simp at h
          subst h
          exact ⟨hwl, rfl, by simpa [hp, Tok.prec] using hr, by simp only [hp, Tok.prec]; omega, hl⟩
      · rename_i hno hnb hnd
        simp at h
        subst h
        refine ⟨hwl, rfl, hr, ?_, hl⟩
        cases ts with
        | nil => simp [hp]
        | cons t r =>
          cases t <;> simp [hp, Tok.prec]
          · exact absurd rfl (hno _ _)
          · exact absurd rfl (hnb _)
          · exact absurd rfl (hnd _)

/-- **soundness**: a tree the parser returns respects the precedence levels, and its tokens are
exactly the input consumed; what follows does not continue the expression -/
theorem parse_sound (ts : List Tok) (e : E) (rest : List Tok) (h : parse ts = some (e, rest)) :
    WF e ∧ ts = toks e ++ rest ∧ hp rest = 0 := by
  obtain ⟨w, heq, _, h0, _⟩ := (sound_step _).1 0 ts (e, rest) (by omega) h
  exact ⟨w, heq, by simpa using h0⟩

/-- the parser computes THE precedence-respecting reading: on any token sequence it returns `e`
(leaving `rest`, which does not continue the expression) iff `e` is a precedence-respecting tree
whose tokens, followed by `rest`, are the input -/
theorem parse_iff (ts : List Tok) (e : E) (rest : List Tok) :
    parse ts = some (e, rest) ↔ (WF e ∧ ts = toks e ++ rest ∧ hp rest = 0) := by
  constructor
  · exact parse_sound ts e rest
  · rintro ⟨w, heq, h0⟩
    rw [heq]; exact parse_toks e rest w h0

/-- two precedence-respecting trees with the same tokens are the same tree -/
theorem reading_unique (e₁ e₂ : E) (h₁ : WF e₁) (h₂ : WF e₂) (h : toks e₁ = toks e₂) : e₁ = e₂ := by
  have a := parse_toks e₁ [] h₁ rfl
  have b := parse_toks e₂ [] h₂ rfl
  rw [h, b] at a
  simpa using a.symm

/-! ### the specification in its usual form: one binding level per tree -/

/-- binding level of the root: a binary operator its own, unary 7, indexing 8, atoms and groups 9 -/
def lvl : E → Nat
  | .bin o _ _ => o.prec
  | .un _ _ => unaryPrec
  | .index _ _ | .sliceAll _ | .sliceTo _ _ | .sliceFrom _ _ | .slice _ _ _ | .dot _ _ | .assert _ _ => indexPrec
  | _ => 9

/-- docs/spec.md: operators of higher precedence bind first; binary operators of the same precedence
associate to the left; unary operators bind tighter than binary ones; indexing binds tightest -/
def Spec : E → Prop
  | .atom _ => True
  | .un _ e => Spec e ∧ unaryPrec ≤ lvl e
  | .bin o l r => Spec l ∧ Spec r ∧ o.prec ≤ lvl l ∧ o.prec < lvl r
  | .group e => Spec e
  | .index l i => Spec l ∧ Spec i ∧ indexPrec ≤ lvl l
  | .sliceAll l => Spec l ∧ indexPrec ≤ lvl l
  | .sliceTo l b => Spec l ∧ Spec b ∧ indexPrec ≤ lvl l
  | .sliceFrom l a => Spec l ∧ Spec a ∧ indexPrec ≤ lvl l
  | .slice l a b => Spec l ∧ Spec a ∧ Spec b ∧ indexPrec ≤ lvl l
  | .dot l _ => Spec l ∧ indexPrec ≤ lvl l
  | .assert l _ => Spec l ∧ indexPrec ≤ lvl l

theorem spec_rlvl (e : E) (h : Spec e) : min (rlvl e) 8 = min (lvl e) 8 := by
  induction e with
  | atom n => rfl
  | group e _ => rfl
  | index l i _ _ => rfl
  | sliceAll l _ => rfl
  | sliceTo l b _ _ => rfl
  | sliceFrom l a _ _ => rfl
  | slice l a b _ _ _ => rfl
  | dot l k _ => rfl
  | assert l k _ => rfl
  | un u e ih =>
    obtain ⟨he, hl⟩ := h
    have a : rlvl (.un u e) = min unaryPrec (rlvl e) := rfl
    have b : lvl (.un u e) = unaryPrec := rfl
    have := ih he
    rw [a, b]; simp only [unaryPrec] at *; omega
  | bin o l r _ ihr =>
    obtain ⟨_, hr, _, hlr⟩ := h
    have a : rlvl (.bin o l r) = min o.prec (rlvl r) := rfl
    have b : lvl (.bin o l r) = o.prec := rfl
    have := ihr hr
    have := (prec_pos o).2
    rw [a, b]; omega

/-- seen from the left a unary expression is closed (it starts with its operator) -/
theorem llvl_lvl (e : E) : (llvl e = lvl e ∧ lvl e ≠ unaryPrec) ∨ (llvl e = 9 ∧ lvl e = unaryPrec) := by
  cases e <;> simp [llvl, lvl, unaryPrec, indexPrec]
  have := (prec_pos ‹BinOp›).2; omega

theorem spec_iff_wf (e : E) : Spec e ↔ WF e := by
  induction e with
  | atom n => simp [Spec, WF]
  | group e ih => simpa [Spec, WF] using ih
  | un u e ih =>
    simp only [Spec, WF, ih]
    have := llvl_lvl e
    have hb : ∀ o l r, e = .bin o l r → lvl e ≤ 6 := by
      intro o l r he; subst he; exact (prec_pos o).2
    constructor
    · rintro ⟨w, h⟩; refine ⟨w, ?_⟩
      simp only [unaryPrec] at *; omega
    · rintro ⟨w, h⟩; refine ⟨w, ?_⟩
      simp only [unaryPrec] at *
      cases e with
      | bin o l r => have := (prec_pos o).2; simp only [llvl] at h; omega
      | atom _ => simp [lvl]
      | un _ _ => simp [lvl, unaryPrec]
      | group _ => simp [lvl]
      | index _ _ => simp [lvl, indexPrec]
      | sliceAll _ => simp [lvl, indexPrec]
      | sliceTo _ _ => simp [lvl, indexPrec]
      | sliceFrom _ _ => simp [lvl, indexPrec]
      | slice _ _ _ => simp [lvl, indexPrec]
      | dot _ _ => simp [lvl, indexPrec]
      | assert _ _ => simp [lvl, indexPrec]
  | bin o l r ihl ihr =>
    simp only [Spec, WF, ihl, ihr]
    have ho := (prec_pos o).2
    have hl := llvl_lvl l
    have hr := llvl_lvl r
    constructor
    · rintro ⟨wl, wr, h1, h2⟩
      have el := spec_rlvl l (ihl.mpr wl)
      refine ⟨wl, wr, ?_, by omega, ?_⟩ <;> (simp only [unaryPrec] at *; omega)
    · rintro ⟨wl, wr, h1, h2, h3⟩
      have el := spec_rlvl l (ihl.mpr wl)
      refine ⟨wl, wr, by omega, ?_⟩
      simp only [unaryPrec] at *; omega
  | index l i ihl ihi =>
    simp only [Spec, WF, ihl, ihi]
    have hl := llvl_lvl l
    constructor
    · rintro ⟨wl, wi, h⟩
      have el := spec_rlvl l (ihl.mpr wl)
      refine ⟨wl, wi, ?_, ?_⟩ <;> (simp only [unaryPrec, indexPrec] at *; omega)
    · rintro ⟨wl, wi, h1, h2⟩
      have el := spec_rlvl l (ihl.mpr wl)
      refine ⟨wl, wi, ?_⟩
      simp only [unaryPrec, indexPrec] at *; omega
  | sliceAll l ihl =>
    simp only [Spec, WF, ihl]
    have hl := llvl_lvl l
    constructor
    · rintro ⟨wl, h⟩
      have el := spec_rlvl l (ihl.mpr wl)
      refine ⟨wl, ?_, ?_⟩ <;> (simp only [unaryPrec, indexPrec] at *; omega)
    · rintro ⟨wl, h1, h2⟩
      have el := spec_rlvl l (ihl.mpr wl)
      refine ⟨wl, ?_⟩
      simp only [unaryPrec, indexPrec] at *; omega
  | sliceTo l b ihl ihb =>
    simp only [Spec, WF, ihl, ihb]
    have hl := llvl_lvl l
    constructor
    · rintro ⟨wl, wi, h⟩
      have el := spec_rlvl l (ihl.mpr wl)
      refine ⟨wl, wi, ?_, ?_⟩ <;> (simp only [unaryPrec, indexPrec] at *; omega)
    · rintro ⟨wl, wi, h1, h2⟩
      have el := spec_rlvl l (ihl.mpr wl)
      refine ⟨wl, wi, ?_⟩
      simp only [unaryPrec, indexPrec] at *; omega
  | sliceFrom l a ihl iha =>
    simp only [Spec, WF, ihl, iha]
    have hl := llvl_lvl l
    constructor
    · rintro ⟨wl, wi, h⟩
      have el := spec_rlvl l (ihl.mpr wl)
      refine ⟨wl, wi, ?_, ?_⟩ <;> (simp only [unaryPrec, indexPrec] at *; omega)
    · rintro ⟨wl, wi, h1, h2⟩
      have el := spec_rlvl l (ihl.mpr wl)
      refine ⟨wl, wi, ?_⟩
      simp only [unaryPrec, indexPrec] at *; omega
  | slice l a b ihl iha ihb =>
    simp only [Spec, WF, ihl, iha, ihb]
    have hl := llvl_lvl l
    constructor
    · rintro ⟨wl, wa, wb, h⟩
      have el := spec_rlvl l (ihl.mpr wl)
      refine ⟨wl, wa, wb, ?_, ?_⟩ <;> (simp only [unaryPrec, indexPrec] at *; omega)
    · rintro ⟨wl, wa, wb, h1, h2⟩
      have el := spec_rlvl l (ihl.mpr wl)
      refine ⟨wl, wa, wb, ?_⟩
      simp only [unaryPrec, indexPrec] at *; omega
  | dot l k ihl =>
    simp only [Spec, WF, ihl]
    have hl := llvl_lvl l
    constructor
    · rintro ⟨wl, h⟩
      have el := spec_rlvl l (ihl.mpr wl)
      refine ⟨wl, ?_, ?_⟩ <;> (simp only [unaryPrec, indexPrec] at *; omega)
    · rintro ⟨wl, h1, h2⟩
      have el := spec_rlvl l (ihl.mpr wl)
      refine ⟨wl, ?_⟩
      simp only [unaryPrec, indexPrec] at *; omega
  | assert l k ihl =>
    simp only [Spec, WF, ihl]
    have hl := llvl_lvl l
    constructor
    · rintro ⟨wl, h⟩
      have el := spec_rlvl l (ihl.mpr wl)
      refine ⟨wl, ?_, ?_⟩ <;> (simp only [unaryPrec, indexPrec] at *; omega)
    · rintro ⟨wl, h1, h2⟩
      have el := spec_rlvl l (ihl.mpr wl)
      refine ⟨wl, ?_⟩
      simp only [unaryPrec, indexPrec] at *; omega

/-- **C01, precedence and associativity**: the parser returns `e` iff `e` is the reading the
specification prescribes for the tokens consumed -/
theorem parser_computes_spec_reading (ts : List Tok) (e : E) (rest : List Tok) :
    parse ts = some (e, rest) ↔ (Spec e ∧ ts = toks e ++ rest ∧ hp rest = 0) := by
  rw [parse_iff, spec_iff_wf]

/-! ### readings the specification names -/

-- a - b - c is (a - b) - c
example : parse [.atom 0, .op .minus, .atom 1, .op .minus, .atom 2] =
    some (.bin .minus (.bin .minus (.atom 0) (.atom 1)) (.atom 2), []) := by decide
-- a + b * c is a + (b * c); a * b + c is (a * b) + c
example : parse [.atom 0, .op .plus, .atom 1, .op .star, .atom 2] =
    some (.bin .plus (.atom 0) (.bin .star (.atom 1) (.atom 2)), []) := by decide
-- -a[0] * b is (-(a[0])) * b
example : parse [.op .minus, .atom 0, .lbracket, .atom 1, .rbracket, .op .star, .atom 2] =
    some (.bin .star (.un .neg (.index (.atom 0) (.atom 1))) (.atom 2), []) := by decide
-- a or b and c == d < e + f * g: every level once
example : parse [.atom 0, .op .or, .atom 1, .op .and, .atom 2, .op .eq, .atom 3, .op .lt, .atom 4, .op .plus, .atom 5, .op .star, .atom 6] =
    some (.bin .or (.atom 0) (.bin .and (.atom 1) (.bin .eq (.atom 2) (.bin .lt (.atom 3) (.bin .plus (.atom 4) (.bin .star (.atom 5) (.atom 6)))))), []) := by decide
-- -m.k[1:][0] is -(((m.k)[1:])[0]); x.(T) + 1 is (x.(T)) + 1
example : parse [.op .minus, .atom 0, .dot, .atom 1, .lbracket, .atom 2, .colon, .rbracket, .lbracket, .atom 3, .rbracket] =
    some (.un .neg (.index (.sliceFrom (.dot (.atom 0) 1) (.atom 2)) (.atom 3)), []) := by decide
example : parse [.atom 0, .dot, .lparen, .ty 7, .rparen, .op .plus, .atom 1] =
    some (.bin .plus (.assert (.atom 0) 7) (.atom 1), []) := by decide
-- a[:] , a[:n+1], a[i*2:j]
example : parse [.atom 0, .lbracket, .colon, .rbracket] = some (.sliceAll (.atom 0), []) := by decide
example : parse [.atom 0, .lbracket, .colon, .atom 1, .op .plus, .atom 2, .rbracket] =
    some (.sliceTo (.atom 0) (.bin .plus (.atom 1) (.atom 2)), []) := by decide
example : parse [.atom 0, .lbracket, .atom 1, .op .star, .atom 2, .colon, .atom 3, .rbracket] =
    some (.slice (.atom 0) (.bin .star (.atom 1) (.atom 2)) (.atom 3), []) := by decide
-- a non-example: (a - (b - c)) without the parentheses is not a reading
example : ¬ Spec (.bin .minus (.atom 0) (.bin .minus (.atom 1) (.atom 2))) := by simp [Spec, lvl]

end EvyV.Pratt
