import EvyV.Model.Pratt
import EvyV.Gen.Tables
/-!
C01, precedence and associativity: the Pratt parser model returns, for every token sequence, exactly
the tree that the specification's precedence levels and left associativity prescribe.

`WF` is the specification: a tree is precedence-respecting when the left operand of a binary operator
binds at least as tightly as the operator (left associativity), the right operand strictly tighter,
the operand of a unary operator tighter than every binary operator, and the indexed expression
tightest. `parse_toks` (completeness): every such tree is what the parser returns on its tokens, for
every tree of every size. `parse_sound`: whatever the parser returns is such a tree and its tokens
are the consumed input. Together: the parser computes THE precedence-respecting reading.
-/
namespace EvyV.Pratt

/-! ### the binding powers are those of the source (regenerated on every run) -/

theorem table_is_extracted :
    (∀ o ∈ BinOp.all, Gen.precedences.lookup o.tokName = some o.prec) ∧
    Gen.precedences.lookup "LBRACKET" = some indexPrec ∧
    Gen.precLevels.idxOf "unaryPrec" = unaryPrec ∧ Gen.precLevels.idxOf "indexPrec" = indexPrec ∧
    Gen.parseExprLoopIsStrict = true ∧ Gen.binaryRightUsesOwnPrec = true ∧ Gen.unaryOperandUsesUnaryPrec = true := by
  decide

/-! ### the specification -/

/-- binding power of the next token (0 at the end) -/
def hp : List Tok → Nat
  | [] => 0
  | t :: _ => t.prec

/-- how tightly the root of a tree binds, seen from the left -/
def llvl : E → Nat
  | .bin o _ _ => o.prec
  | .index _ _ => indexPrec
  | _ => 9

/-- the weakest binding power on the right spine: a following operator that binds tighter than this
would be taken into the tree -/
def rlvl : E → Nat
  | .bin o _ r => min o.prec (rlvl r)
  | .un _ e => min unaryPrec (rlvl e)
  | _ => 9

/-- precedence-respecting trees -/
def WF : E → Prop
  | .atom _ => True
  | .un _ e => WF e ∧ unaryPrec < llvl e
  | .bin o l r => WF l ∧ WF r ∧ o.prec ≤ llvl l ∧ o.prec ≤ rlvl l ∧ o.prec < llvl r
  | .group e => WF e
  | .index l i => WF l ∧ WF i ∧ indexPrec ≤ llvl l ∧ indexPrec ≤ rlvl l

theorem prec_pos (o : BinOp) : 1 ≤ o.prec ∧ o.prec ≤ 6 := by cases o <;> simp [BinOp.prec]

theorem llvl_pos (e : E) : 0 < llvl e := by
  cases e <;> simp [llvl, indexPrec]
  exact (prec_pos _).1

/-! ### more fuel never changes an answer -/

theorem mono_step (f : Nat) :
    (∀ p ts x, parseExpr f p ts = some x → parseExpr (f + 1) p ts = some x) ∧
    (∀ p l ts x, loop f p l ts = some x → loop (f + 1) p l ts = some x) := by
  induction f with
  | zero => constructor <;> intros <;> simp_all [parseExpr, loop]
  | succ n ih =>
    obtain ⟨ihP, ihL⟩ := ih
    constructor
    · intro p ts x h
      unfold parseExpr at h ⊢
      split at h
      · exact ihL _ _ _ _ h
      · split at h
        · rename_i e r' he; rw [ihP _ _ _ he]; exact ihL _ _ _ _ h
        · simp at h
      · split at h
        · rename_i e r' he; rw [ihP _ _ _ he]; exact ihL _ _ _ _ h
        · simp at h
      · split at h
        · rename_i e r' he; rw [ihP _ _ _ he]; exact ihL _ _ _ _ h
        · simp at h
      · simp at h
    · intro p l ts x h
      unfold loop at h ⊢
      split at h
      · split at h
        · rename_i hp
          simp only [hp, if_true]
          split at h
          · rename_i e r' he; rw [ihP _ _ _ he]; exact ihL _ _ _ _ h
          · simp at h
        · rename_i hp; simp only [hp, if_false]; exact h
      · split at h
        · rename_i hp
          simp only [hp, if_true]
          split at h
          · rename_i e r' he; rw [ihP _ _ _ he]; exact ihL _ _ _ _ h
          · simp at h
        · rename_i hp; simp only [hp, if_false]; exact h
      · exact h

theorem mono_parse {f g : Nat} (hfg : f ≤ g) {p ts x} (h : parseExpr f p ts = some x) : parseExpr g p ts = some x := by
  induction hfg with
  | refl => exact h
  | step _ ih => exact (mono_step _).1 _ _ _ ih

theorem mono_loop {f g : Nat} (hfg : f ≤ g) {p l ts x} (h : loop f p l ts = some x) : loop g p l ts = some x := by
  induction hfg with
  | refl => exact h
  | step _ ih => exact (mono_step _).2 _ _ _ _ ih

/-- the loop stops at a token that does not bind tighter than `p` -/
theorem loop_stop (f p : Nat) (e : E) (rest : List Tok) (h : hp rest ≤ p) : loop (f + 1) p e rest = some (e, rest) := by
  unfold loop
  cases rest with
  | nil => rfl
  | cons t r =>
    cases t <;> simp only [hp, Tok.prec] at h <;> simp <;> omega

/-! ### completeness: every precedence-respecting tree is what the parser returns on its tokens -/

theorem complete (e : E) : WF e → ∀ (f p : Nat) (rest : List Tok) (x : E × List Tok),
    p < llvl e → hp rest ≤ rlvl e → loop f p e rest = some x →
    parseExpr (f + 2 * (toks e).length) p (toks e ++ rest) = some x := by
  induction e with
  | atom n =>
    intro _ f p rest x _ _ h
    simp only [toks, List.length_singleton, List.singleton_append]
    show parseExpr (f + 1 + 1) p _ = some x
    unfold parseExpr
    exact mono_loop (Nat.le_succ f) h
  | un u e ih =>
    intro hw f p rest x _ hr h
    obtain ⟨hwe, hl⟩ := hw
    simp only [rlvl] at hr
    have inner : parseExpr (f + 1 + 2 * (toks e).length) unaryPrec (toks e ++ rest) = some (e, rest) :=
      ih hwe (f + 1) unaryPrec rest (e, rest) hl (by omega) (loop_stop f unaryPrec e rest (by omega))
    have hk : loop (f + 1 + 2 * (toks e).length) p (.un u e) rest = some x := mono_loop (by omega) h
    cases u with
    | neg =>
      simp only [toks, List.length_cons, List.cons_append]
      have : f + 2 * ((toks e).length + 1) = (f + 1 + 2 * (toks e).length) + 1 := by omega
      rw [this]; unfold parseExpr; simp only [inner]; exact hk
    | not =>
      simp only [toks, List.length_cons, List.cons_append]
      have : f + 2 * ((toks e).length + 1) = (f + 1 + 2 * (toks e).length) + 1 := by omega
      rw [this]; unfold parseExpr; simp only [inner]; exact hk
  | bin o l r ihl ihr =>
    intro hw f p rest x hp' hr h
    obtain ⟨hwl, hwr, hll, hrl, hlr⟩ := hw
    simp only [rlvl] at hr
    simp only [llvl] at hp'
    simp only [toks, List.length_append, List.length_cons, List.append_assoc, List.cons_append]
    have e1 : f + 2 * ((toks l).length + ((toks r).length + 1)) = (f + 2 * (toks r).length + 2) + 2 * (toks l).length := by omega
    rw [e1]
    refine ihl hwl _ p _ x (by omega) (by simp only [hp, Tok.prec]; exact hrl) ?_
    show loop ((f + 2 * (toks r).length + 1) + 1) p l _ = some x
    unfold loop
    simp only [hp', if_true]
    have inner : parseExpr (f + 1 + 2 * (toks r).length) o.prec (toks r ++ rest) = some (r, rest) :=
      ihr hwr (f + 1) o.prec rest (r, rest) hlr (by omega) (loop_stop f o.prec r rest (by omega))
    have e2 : f + 2 * (toks r).length + 1 = f + 1 + 2 * (toks r).length := by omega
    rw [e2, inner]
    exact mono_loop (by omega) h
  | group e ih =>
    intro hw f p rest x _ _ h
    have hwe : WF e := hw
    simp only [toks, List.length_cons, List.length_append, List.length_nil, Nat.zero_add, List.nil_append, List.cons_append, List.append_assoc]
    have inner : parseExpr (f + 1 + 2 * (toks e).length) 0 (toks e ++ Tok.rparen :: rest) = some (e, Tok.rparen :: rest) :=
      ih hwe (f + 1) 0 _ (e, _) (llvl_pos e) (by simp [hp, Tok.prec]) (loop_stop f 0 e _ (by simp [hp, Tok.prec]))
    have : f + 2 * ((toks e).length + 1 + 1) = (f + 1 + 2 * (toks e).length) + 1 + 2 := by omega
    rw [this]
    apply mono_parse (Nat.le_add_right _ 2)
    unfold parseExpr
    simp only [inner]
    exact mono_loop (by omega) h
  | index l i ihl ihi =>
    intro hw f p rest x hp' _ h
    obtain ⟨hwl, hwi, hll, hrl⟩ := hw
    simp only [llvl] at hp'
    simp only [toks, List.length_append, List.length_cons, List.length_nil, Nat.zero_add, List.nil_append, List.append_assoc, List.cons_append]
    have e1 : f + 2 * ((toks l).length + ((toks i).length + 1 + 1)) = (f + 2 * (toks i).length + 4) + 2 * (toks l).length := by omega
    rw [e1]
    refine ihl hwl _ p _ x (by omega) (by simp only [hp, Tok.prec]; exact hrl) ?_
    show loop ((f + 2 * (toks i).length + 3) + 1) p l _ = some x
    unfold loop
    simp only [hp', if_true]
    have inner : parseExpr (f + 1 + 2 * (toks i).length) 0 (toks i ++ Tok.rbracket :: rest) = some (i, Tok.rbracket :: rest) :=
      ihi hwi (f + 1) 0 _ (i, _) (llvl_pos i) (by simp [hp, Tok.prec]) (loop_stop f 0 i _ (by simp [hp, Tok.prec]))
    rw [mono_parse (by omega) inner]
    exact mono_loop (by omega) h

/-- **completeness**: on the tokens of any precedence-respecting tree, followed by anything that
does not continue an expression, the parser returns exactly that tree and stops there -/
theorem parse_toks (e : E) (rest : List Tok) (hw : WF e) (hr : hp rest = 0) :
    parse (toks e ++ rest) = some (e, rest) := by
  unfold parse
  have h := complete e hw 1 0 rest (e, rest) (llvl_pos e) (by omega) (loop_stop 0 0 e rest (by omega))
  exact mono_parse (by simp only [List.length_append]; omega) h

/-! ### soundness: whatever the parser returns is the precedence-respecting reading of what it consumed -/

/-- the result `e` with the remaining input `rest`, for input `ts` at binding power `p` -/
def Good (p : Nat) (ts : List Tok) (x : E × List Tok) : Prop :=
  WF x.1 ∧ ts = toks x.1 ++ x.2 ∧ hp x.2 ≤ rlvl x.1 ∧ hp x.2 ≤ p ∧ p < llvl x.1

theorem tok_prec_le (t : Tok) : t.prec ≤ 8 := by
  cases t <;> simp [Tok.prec, indexPrec]
  exact Nat.le_trans (prec_pos _).2 (by omega)

theorem hp_le (ts : List Tok) : hp ts ≤ 8 := by
  cases ts with
  | nil => simp [hp]
  | cons t _ => exact tok_prec_le t

theorem rlvl_llvl (e : E) : min (rlvl e) 8 ≤ llvl e := by
  cases e <;> simp [rlvl, llvl, indexPrec] <;> omega

theorem sound_step (f : Nat) :
    (∀ p ts x, p ≤ 7 → parseExpr f p ts = some x → Good p ts x) ∧
    (∀ p l ts x, p ≤ 7 → WF l → hp ts ≤ rlvl l → p < llvl l → loop f p l ts = some x → Good p (toks l ++ ts) x) := by
  induction f with
  | zero => constructor <;> intros <;> simp_all [parseExpr, loop]
  | succ n ih =>
    obtain ⟨ihP, ihL⟩ := ih
    constructor
    · intro p ts x hp7 h
      unfold parseExpr at h
      split at h
      · rename_i a r
        exact ihL p (.atom a) r x hp7 trivial (by have := hp_le r; simp only [rlvl]; omega) (by simp only [llvl]; omega) h
      · rename_i r
        split at h
        · rename_i e r' he
          obtain ⟨w, heq, h1, h2, h3⟩ := ihP _ _ _ (by simp [unaryPrec]) he
          simp only at w heq h1 h2 h3
          have g := ihL p (.un .not e) r' x hp7 ⟨w, h3⟩ (by simp only [rlvl]; omega) (by simp only [llvl]; omega) h
          simpa [toks, heq] using g
        · simp at h
      · rename_i r
        split at h
        · rename_i e r' he
          obtain ⟨w, heq, h1, h2, h3⟩ := ihP _ _ _ (by simp [unaryPrec]) he
          simp only at w heq h1 h2 h3
          have g := ihL p (.un .neg e) r' x hp7 ⟨w, h3⟩ (by simp only [rlvl]; omega) (by simp only [llvl]; omega) h
          simpa [toks, heq] using g
        · simp at h
      · rename_i r
        split at h
        · rename_i e r' he
          obtain ⟨w, heq, _, _, _⟩ := ihP _ _ _ (by omega) he
          simp only at w heq
          have g := ihL p (.group e) r' x hp7 w (by have := hp_le r'; simp only [rlvl]; omega) (by simp only [llvl]; omega) h
          simpa [toks, heq] using g
        · simp at h
      · simp at h
    · intro p l ts x hp7 hwl hr hl h
      unfold loop at h
      split at h
      · rename_i o r
        simp only [hp, Tok.prec] at hr
        split at h
        · rename_i hpo
          split at h
          · rename_i right r' he
            obtain ⟨w, heq, h1, h2, h3⟩ := ihP _ _ _ (by have := (prec_pos o).2; omega) he
            simp only at w heq h1 h2 h3
            have hll : o.prec ≤ llvl l := by
              have := rlvl_llvl l; have := (prec_pos o).2; omega
            have g := ihL p (.bin o l right) r' x hp7 ⟨hwl, w, hll, hr, h3⟩ (by simp only [rlvl]; omega) (by simp only [llvl]; exact hpo) h
            simpa [toks, heq] using g
          · simp at h
        · rename_i hpo
          simp at h
          subst h
          exact ⟨hwl, rfl, by simpa [hp, Tok.prec] using hr, by simp only [hp, Tok.prec]; omega, hl⟩
      · rename_i r
        simp only [hp, Tok.prec] at hr
        split at h
        · rename_i hpo
          split at h
          · rename_i i r' he
            obtain ⟨w, heq, _, _, _⟩ := ihP _ _ _ (by omega) he
            simp only at w heq
            have hll : indexPrec ≤ llvl l := by
              have := rlvl_llvl l; simp only [indexPrec] at hr ⊢; omega
            have g := ihL p (.index l i) r' x hp7 ⟨hwl, w, hll, hr⟩ (by have := hp_le r'; simp only [rlvl]; omega) (by simp only [llvl]; exact hpo) h
            simpa [toks, heq] using g
          · simp at h
        · rename_i hpo
          simp at h
          subst h
          exact ⟨hwl, rfl, by simpa [hp, Tok.prec] using hr, by simp only [hp, Tok.prec]; omega, hl⟩
      · rename_i hno hnb
        simp at h
        subst h
        refine ⟨hwl, rfl, hr, ?_, hl⟩
        cases ts with
        | nil => simp [hp]
        | cons t r =>
          cases t <;> simp [hp, Tok.prec]
          · exact absurd rfl (hno _ _)
          · exact absurd rfl (hnb _)

/-- **soundness**: a tree the parser returns respects the precedence levels, and its tokens are
exactly the input consumed; what follows does not continue the expression -/
theorem parse_sound (ts : List Tok) (e : E) (rest : List Tok) (h : parse ts = some (e, rest)) :
    WF e ∧ ts = toks e ++ rest ∧ hp rest = 0 := by
  obtain ⟨w, heq, _, h0, _⟩ := (sound_step _).1 0 ts (e, rest) (by omega) h
  exact ⟨w, heq, by simpa using h0⟩

/-- the parser computes THE precedence-respecting reading: on any token sequence it returns `e`
(leaving `rest`, which does not continue the expression) iff `e` is a precedence-respecting tree
whose tokens, followed by `rest`, are the input -/
theorem parse_iff (ts : List Tok) (e : E) (rest : List Tok) :
    parse ts = some (e, rest) ↔ (WF e ∧ ts = toks e ++ rest ∧ hp rest = 0) := by
  constructor
  · exact parse_sound ts e rest
  · rintro ⟨w, heq, h0⟩
    rw [heq]; exact parse_toks e rest w h0

/-- two precedence-respecting trees with the same tokens are the same tree -/
theorem reading_unique (e₁ e₂ : E) (h₁ : WF e₁) (h₂ : WF e₂) (h : toks e₁ = toks e₂) : e₁ = e₂ := by
  have a := parse_toks e₁ [] h₁ rfl
  have b := parse_toks e₂ [] h₂ rfl
  rw [h, b] at a
  simpa using a.symm

/-! ### the specification in its usual form: one binding level per tree -/

/-- binding level of the root: a binary operator its own, unary 7, indexing 8, atoms and groups 9 -/
def lvl : E → Nat
  | .bin o _ _ => o.prec
  | .un _ _ => unaryPrec
  | .index _ _ => indexPrec
  | _ => 9

/-- docs/spec.md: operators of higher precedence bind first; binary operators of the same precedence
associate to the left; unary operators bind tighter than binary ones; indexing binds tightest -/
def Spec : E → Prop
  | .atom _ => True
  | .un _ e => Spec e ∧ unaryPrec ≤ lvl e
  | .bin o l r => Spec l ∧ Spec r ∧ o.prec ≤ lvl l ∧ o.prec < lvl r
  | .group e => Spec e
  | .index l i => Spec l ∧ Spec i ∧ indexPrec ≤ lvl l

theorem spec_rlvl (e : E) (h : Spec e) : min (rlvl e) 8 = min (lvl e) 8 := by
  induction e with
  | atom n => rfl
  | group e _ => rfl
  | index l i _ _ => rfl
  | un u e ih =>
    obtain ⟨he, hl⟩ := h
    have a : rlvl (.un u e) = min unaryPrec (rlvl e) := rfl
    have b : lvl (.un u e) = unaryPrec := rfl
    have := ih he
    rw [a, b]; simp only [unaryPrec] at *; omega
  | bin o l r _ ihr =>
    obtain ⟨_, hr, _, hlr⟩ := h
    have a : rlvl (.bin o l r) = min o.prec (rlvl r) := rfl
    have b : lvl (.bin o l r) = o.prec := rfl
    have := ihr hr
    have := (prec_pos o).2
    rw [a, b]; omega

/-- seen from the left a unary expression is closed (it starts with its operator) -/
theorem llvl_lvl (e : E) : (llvl e = lvl e ∧ lvl e ≠ unaryPrec) ∨ (llvl e = 9 ∧ lvl e = unaryPrec) := by
  cases e <;> simp [llvl, lvl, unaryPrec, indexPrec]
  have := (prec_pos ‹BinOp›).2; omega

theorem spec_iff_wf (e : E) : Spec e ↔ WF e := by
  induction e with
  | atom n => simp [Spec, WF]
  | group e ih => simpa [Spec, WF] using ih
  | un u e ih =>
    simp only [Spec, WF, ih]
    have := llvl_lvl e
    have hb : ∀ o l r, e = .bin o l r → lvl e ≤ 6 := by
      intro o l r he; subst he; exact (prec_pos o).2
    constructor
    · rintro ⟨w, h⟩; refine ⟨w, ?_⟩
      simp only [unaryPrec] at *; omega
    · rintro ⟨w, h⟩; refine ⟨w, ?_⟩
      simp only [unaryPrec] at *
      cases e with
      | bin o l r => have := (prec_pos o).2; simp only [llvl] at h; omega
      | atom _ => simp [lvl]
      | un _ _ => simp [lvl, unaryPrec]
      | group _ => simp [lvl]
      | index _ _ => simp [lvl, indexPrec]
  | bin o l r ihl ihr =>
    simp only [Spec, WF, ihl, ihr]
    have ho := (prec_pos o).2
    have hl := llvl_lvl l
    have hr := llvl_lvl r
    constructor
    · rintro ⟨wl, wr, h1, h2⟩
      have el := spec_rlvl l (ihl.mpr wl)
      refine ⟨wl, wr, ?_, by omega, ?_⟩ <;> (simp only [unaryPrec] at *; omega)
    · rintro ⟨wl, wr, h1, h2, h3⟩
      have el := spec_rlvl l (ihl.mpr wl)
      refine ⟨wl, wr, by omega, ?_⟩
      simp only [unaryPrec] at *; omega
  | index l i ihl ihi =>
    simp only [Spec, WF, ihl, ihi]
    have hl := llvl_lvl l
    constructor
    · rintro ⟨wl, wi, h⟩
      have el := spec_rlvl l (ihl.mpr wl)
      refine ⟨wl, wi, ?_, ?_⟩ <;> (simp only [unaryPrec, indexPrec] at *; omega)
    · rintro ⟨wl, wi, h1, h2⟩
      have el := spec_rlvl l (ihl.mpr wl)
      refine ⟨wl, wi, ?_⟩
      simp only [unaryPrec, indexPrec] at *; omega

/-- **C01, precedence and associativity**: the parser returns `e` iff `e` is the reading the
specification prescribes for the tokens consumed -/
theorem parser_computes_spec_reading (ts : List Tok) (e : E) (rest : List Tok) :
    parse ts = some (e, rest) ↔ (Spec e ∧ ts = toks e ++ rest ∧ hp rest = 0) := by
  rw [parse_iff, spec_iff_wf]

/-! ### readings the specification names -/

-- a - b - c is (a - b) - c
example : parse [.atom 0, .op .minus, .atom 1, .op .minus, .atom 2] =
    some (.bin .minus (.bin .minus (.atom 0) (.atom 1)) (.atom 2), []) := by decide
-- a + b * c is a + (b * c); a * b + c is (a * b) + c
example : parse [.atom 0, .op .plus, .atom 1, .op .star, .atom 2] =
    some (.bin .plus (.atom 0) (.bin .star (.atom 1) (.atom 2)), []) := by decide
-- -a[0] * b is (-(a[0])) * b
example : parse [.op .minus, .atom 0, .lbracket, .atom 1, .rbracket, .op .star, .atom 2] =
    some (.bin .star (.un .neg (.index (.atom 0) (.atom 1))) (.atom 2), []) := by decide
-- a or b and c == d < e + f * g: every level once
example : parse [.atom 0, .op .or, .atom 1, .op .and, .atom 2, .op .eq, .atom 3, .op .lt, .atom 4, .op .plus, .atom 5, .op .star, .atom 6] =
    some (.bin .or (.atom 0) (.bin .and (.atom 1) (.bin .eq (.atom 2) (.bin .lt (.atom 3) (.bin .plus (.atom 4) (.bin .star (.atom 5) (.atom 6)))))), []) := by decide
-- a non-example: (a - (b - c)) without the parentheses is not a reading
example : ¬ Spec (.bin .minus (.atom 0) (.bin .minus (.atom 1) (.atom 2))) := by simp [Spec, lvl]

end EvyV.Pratt
