import EvyV.Props.C02Stmt
/-!
C02: the built-ins of the typed fragment (Spec/WellTyped.lean `builtinSig`) applied to values of the
types their signatures require return a value of the result type, leave heap and globals well-typed
(`del` stores a map of the same type, `str2bool` rebinds err and errmsg to a bool and a string), or
end in a documented outcome (exit, panic, bad arguments, the step budget) — never in a Go panic of an
unchecked type assertion.
-/
namespace EvyV.TS
open EvyV

variable {F : Type} (ops : NumOps F) (ext : Ext F) (Gg : Env)

/-- positional typing of an argument list -/
abbrev PZ (ts : List Ty) : Store → List (Val F) → Prop :=
  fun S vs => vs.length = ts.length ∧ ∀ (i : Nat) v pt, vs[i]? = some v → ts[i]? = some pt → VT S v pt

/-- the result of a built-in -/
def GoodBI (ρ : Option Ty) (S : Store) (st : St F) : Res F (Val F) → Prop
  | .ok v st' => ∃ S', Grows S S' ∧ HeapOk S' st'.heap ∧ GlobalOk S' Gg st'.global ∧ st'.locals = st.locals ∧
      ∀ t, ρ = some t → VT S' v t
  | .err o _ => Doc o

theorem zero_args {S : Store} {tys : List Ty} {vs : List (Val F)} (hl : vs.length = 0) (hz : PZ tys S vs) : vs = [] ∧ tys = [] := by
  obtain ⟨hlen, _⟩ := hz
  cases vs with
  | nil =>
    refine ⟨rfl, ?_⟩
    cases tys with
    | nil => rfl
    | cons _ _ => simp at hlen
  | cons _ _ => simp at hl

theorem one_arg {S : Store} {tys : List Ty} {vs : List (Val F)} (hl : vs.length = 1) (hz : PZ tys S vs) :
    ∃ v t, vs = [v] ∧ tys = [t] ∧ VT S v t := by
  obtain ⟨hlen, hp⟩ := hz
  match vs, tys, hl, hlen with
  | [v], [t], _, _ => exact ⟨v, t, rfl, rfl, hp 0 v t rfl rfl⟩

theorem two_args {S : Store} {tys : List Ty} {vs : List (Val F)} (hl : vs.length = 2) (hz : PZ tys S vs) :
    ∃ v1 v2 t1 t2, vs = [v1, v2] ∧ tys = [t1, t2] ∧ VT S v1 t1 ∧ VT S v2 t2 := by
  obtain ⟨hlen, hp⟩ := hz
  match vs, tys, hl, hlen with
  | [v1, v2], [t1, t2], _, _ => exact ⟨v1, v2, t1, t2, rfl, rfl, hp 0 v1 t1 rfl rfl, hp 1 v2 t2 rfl rfl⟩

theorem isStrT_eq {t : Ty} (h : isStrT t = true) : t = .str := by simpa [isStrT] using h
theorem isNumT_eq {t : Ty} (h : isNumT t = true) : t = .num := by simpa [isNumT] using h
theorem isAnyT_eq {t : Ty} (h : isAnyT t = true) : t = .any := by simpa [isAnyT] using h
theorem isMapT_eq {t : Ty} (h : isMapT t = true) : ∃ s, t = .map s := by
  cases t <;> simp [isMapT] at h; exact ⟨_, rfl⟩
theorem isArrT_eq {t : Ty} (h : isArrT t = true) : ∃ s, t = .arr s := by
  cases t <;> simp [isArrT] at h; exact ⟨_, rfl⟩

theorem delete_typed {S : Store} {s : Ty} (m : MapVal (Val F)) (k : Key) (hm : ∀ p ∈ m.pairs, VT S p.2 s) :
    ∀ p ∈ (m.delete k).pairs, VT S p.2 s := by
  unfold MapVal.delete
  split
  · intro p hp
    simp only [GoMap.del] at hp
    exact hm p (List.mem_filter.mp hp).1
  · exact hm

theorem setGlobalErr_ok {S : Store} (hg : GgOk Gg) {st : St F} (hgl : GlobalOk S Gg st.global) (b : Bool) (msg : Str) :
    GlobalOk S Gg (setGlobalErr st b msg).global := by
  simp only [setGlobalErr]
  refine GlobalOk.set (GlobalOk.set hgl _ _ ?_) _ _ ?_
  · intro t ht; rw [hg.1 t ht]; exact .bool _
  · intro t ht; rw [hg.2 t ht]; exact .str _

theorem same_state {S : Store} {st : St F} (hk : HeapOk S st.heap) (hgl : GlobalOk S Gg st.global) (ρ : Option Ty) (v : Val F)
    (hv : ∀ t, ρ = some t → VT S v t) : GoodBI Gg ρ S st (.ok v st) :=
  ⟨S, Grows.refl S, hk, hgl, rfl, hv⟩

theorem three_args {S : Store} {tys : List Ty} {vs : List (Val F)} (hl : vs.length = 3) (hz : PZ tys S vs) :
    ∃ v1 v2 v3 t1 t2 t3, vs = [v1, v2, v3] ∧ tys = [t1, t2, t3] ∧ VT S v1 t1 ∧ VT S v2 t2 ∧ VT S v3 t3 := by
  obtain ⟨hlen, hp⟩ := hz
  match vs, tys, hl, hlen with
  | [v1, v2, v3], [t1, t2, t3], _, _ =>
    exact ⟨v1, v2, v3, t1, t2, t3, rfl, rfl, hp 0 v1 t1 rfl rfl, hp 1 v2 t2 rfl rfl, hp 2 v3 t3 rfl rfl⟩

/-- a built-in that forwards to a library function answering with a number -/
theorem forward_num (hx : ExtOk ext) {S : Store} {st : St F} (hk : HeapOk S st.heap) (hgl : GlobalOk S Gg st.global)
    (f : String) (hf : f ∈ numFns) (xs : List (XArg F)) (d : F) :
    GoodBI Gg (some .num) S st (forward ext st f xs (.num d)) := by
  simp only [forward, callExt]
  cases hc : ext.call f xs with
  | none => exact ⟨S, Grows.refl S, hk, hgl, rfl, fun t ht => by cases ht; exact .num _⟩
  | some r =>
    obtain ⟨v, rfl⟩ := hx.1 f hf _ _ hc
    exact ⟨S, Grows.refl S, hk, hgl, rfl, fun t ht => by cases ht; exact .num _⟩

/-- … answering with a string -/
theorem forward_str (hx : ExtOk ext) {S : Store} {st : St F} (hk : HeapOk S st.heap) (hgl : GlobalOk S Gg st.global)
    (f : String) (hf : f ∈ strFns) (xs : List (XArg F)) (d : Str) :
    GoodBI Gg (some .str) S st (forward ext st f xs (.str d)) := by
  simp only [forward, callExt]
  cases hc : ext.call f xs with
  | none => exact ⟨S, Grows.refl S, hk, hgl, rfl, fun t ht => by cases ht; exact .str _⟩
  | some r =>
    obtain ⟨v, rfl⟩ := hx.2.1 f hf _ _ hc
    exact ⟨S, Grows.refl S, hk, hgl, rfl, fun t ht => by cases ht; exact .str _⟩

/-- all arguments have a type the variadic predicate `p` accepts -/
theorem rest_typed {S : Store} {tys : List Ty} {vs : List (Val F)} (hz : PZ tys S vs) (p : Ty → Bool)
    (hpred : ∀ (i : Nat) ta, tys[i]? = some ta → p ta = true) : ∀ v ∈ vs, ∃ t, VT S v t ∧ p t = true := by
  intro v hv
  obtain ⟨i, hi⟩ := List.getElem?_of_mem hv
  obtain ⟨hlen, hp⟩ := hz
  have hlt : i < tys.length := by
    rw [← hlen]
    rcases Nat.lt_or_ge i vs.length with h | h
    · exact h
    · rw [List.getElem?_eq_none h] at hi; cases hi
  have ht : tys[i]? = some tys[i] := List.getElem?_eq_getElem hlt
  exact ⟨tys[i], hp i v _ hi ht, hpred i _ ht⟩

theorem numArgs_typed {S : Store} : ∀ (vs : List (Val F)), (∀ v ∈ vs, ∃ t, VT S v t ∧ isNumT t = true) → ∃ ns, numArgs vs = some ns := by
  intro vs
  induction vs with
  | nil => intro _; exact ⟨[], rfl⟩
  | cons v rest ih =>
    intro h
    obtain ⟨t, hv, ht⟩ := h v List.mem_cons_self
    have := isNumT_eq ht; subst this
    obtain ⟨x, rfl⟩ := hv.num_inv
    obtain ⟨ns, hns⟩ := ih (fun w hw => h w (List.mem_cons_of_mem _ hw))
    exact ⟨x :: ns, by simp [numArgs, hns]⟩

theorem emit_ok {S : Store} {st : St F} (hk : HeapOk S st.heap) (hgl : GlobalOk S Gg st.global) (e : Effect F) :
    GoodBI Gg none S st (.ok .none (emit st e)) :=
  ⟨S, Grows.refl S, hk, hgl, rfl, by intro t ht; cases ht⟩

theorem bi_len (hx : ExtOk ext) (hg : GgOk Gg) (tys : List Ty) (vs : List (Val F)) (st : St F) (S : Store)
    (hle : (⟨[isAnyT], none, some .num⟩ : BSig).params.length ≤ vs.length)
    (hfix : (⟨[isAnyT], none, some .num⟩ : BSig).rest = none → vs.length = (⟨[isAnyT], none, some .num⟩ : BSig).params.length)
    (hz : PZ tys S vs) (hpred : ∀ (i : Nat) ta, tys[i]? = some ta → (⟨[isAnyT], none, some .num⟩ : BSig).paramAt i ta = true)
    (hk : HeapOk S st.heap) (hgl : GlobalOk S Gg st.global) :
    ∃ r, callBuiltin ops ext (lit "len") vs st = some r ∧ GoodBI Gg (⟨[isAnyT], none, some .num⟩ : BSig).ret S st r := by
  simp [callBuiltin, isBuiltin, builtinNames, lit]
  obtain ⟨v, t, rfl, rfl, hv⟩ := one_arg (hfix rfl) hz
  have := isAnyT_eq (hpred 0 t rfl); subst this
  obtain ⟨t', w, rfl, _, hw⟩ := hv.any_inv
  cases hw with
  | str x => exact same_state Gg hk hgl _ _ (fun t ht => by cases ht; exact .num _)
  | arr a s ha =>
    obtain ⟨es, he, _⟩ := hk.arr a s ha
    simp only [heapGet, he]
    exact same_state Gg hk hgl _ _ (fun t ht => by cases ht; exact .num _)
  | map a s ha =>
    obtain ⟨m, he, _⟩ := hk.map a s ha
    simp only [heapGet, he]
    exact same_state Gg hk hgl _ _ (fun t ht => by cases ht; exact .num _)
  | num x => exact trivial
  | bool x => exact trivial
  | any t1 v1 hne h1 => exact trivial

theorem bi_typeof (hx : ExtOk ext) (hg : GgOk Gg) (tys : List Ty) (vs : List (Val F)) (st : St F) (S : Store)
    (hle : (⟨[isAnyT], none, some .str⟩ : BSig).params.length ≤ vs.length)
    (hfix : (⟨[isAnyT], none, some .str⟩ : BSig).rest = none → vs.length = (⟨[isAnyT], none, some .str⟩ : BSig).params.length)
    (hz : PZ tys S vs) (hpred : ∀ (i : Nat) ta, tys[i]? = some ta → (⟨[isAnyT], none, some .str⟩ : BSig).paramAt i ta = true)
    (hk : HeapOk S st.heap) (hgl : GlobalOk S Gg st.global) :
    ∃ r, callBuiltin ops ext (lit "typeof") vs st = some r ∧ GoodBI Gg (⟨[isAnyT], none, some .str⟩ : BSig).ret S st r := by
  simp [callBuiltin, isBuiltin, builtinNames, lit]
  obtain ⟨v, t, rfl, rfl, hv⟩ := one_arg (hfix rfl) hz
  have := isAnyT_eq (hpred 0 t rfl); subst this
  obtain ⟨t', w, rfl, _, hw⟩ := hv.any_inv
  exact same_state Gg hk hgl _ _ (fun t ht => by cases ht; exact .str _)

theorem bi_has (hx : ExtOk ext) (hg : GgOk Gg) (tys : List Ty) (vs : List (Val F)) (st : St F) (S : Store)
    (hle : (⟨[isMapT, isStrT], none, some .bool⟩ : BSig).params.length ≤ vs.length)
    (hfix : (⟨[isMapT, isStrT], none, some .bool⟩ : BSig).rest = none → vs.length = (⟨[isMapT, isStrT], none, some .bool⟩ : BSig).params.length)
    (hz : PZ tys S vs) (hpred : ∀ (i : Nat) ta, tys[i]? = some ta → (⟨[isMapT, isStrT], none, some .bool⟩ : BSig).paramAt i ta = true)
    (hk : HeapOk S st.heap) (hgl : GlobalOk S Gg st.global) :
    ∃ r, callBuiltin ops ext (lit "has") vs st = some r ∧ GoodBI Gg (⟨[isMapT, isStrT], none, some .bool⟩ : BSig).ret S st r := by
  simp [callBuiltin, isBuiltin, builtinNames, lit]
  obtain ⟨v1, v2, t1, t2, rfl, rfl, h1, h2⟩ := two_args (hfix rfl) hz
  obtain ⟨s, rfl⟩ := isMapT_eq (hpred 0 t1 rfl)
  have := isStrT_eq (hpred 1 t2 rfl); subst this
  obtain ⟨a, rfl, ha⟩ := h1.map_inv
  obtain ⟨k, rfl⟩ := h2.str_inv
  obtain ⟨m, he, _⟩ := hk.map a s ha
  simp only [heapGet, he]
  exact same_state Gg hk hgl _ _ (fun t ht => by cases ht; exact .bool _)

theorem bi_del (hx : ExtOk ext) (hg : GgOk Gg) (tys : List Ty) (vs : List (Val F)) (st : St F) (S : Store)
    (hle : (⟨[isMapT, isStrT], none, none⟩ : BSig).params.length ≤ vs.length)
    (hfix : (⟨[isMapT, isStrT], none, none⟩ : BSig).rest = none → vs.length = (⟨[isMapT, isStrT], none, none⟩ : BSig).params.length)
    (hz : PZ tys S vs) (hpred : ∀ (i : Nat) ta, tys[i]? = some ta → (⟨[isMapT, isStrT], none, none⟩ : BSig).paramAt i ta = true)
    (hk : HeapOk S st.heap) (hgl : GlobalOk S Gg st.global) :
    ∃ r, callBuiltin ops ext (lit "del") vs st = some r ∧ GoodBI Gg (⟨[isMapT, isStrT], none, none⟩ : BSig).ret S st r := by
  simp [callBuiltin, isBuiltin, builtinNames, lit]
  obtain ⟨v1, v2, t1, t2, rfl, rfl, h1, h2⟩ := two_args (hfix rfl) hz
  obtain ⟨s, rfl⟩ := isMapT_eq (hpred 0 t1 rfl)
  have := isStrT_eq (hpred 1 t2 rfl); subst this
  obtain ⟨a, rfl, ha⟩ := h1.map_inv
  obtain ⟨k, rfl⟩ := h2.str_inv
  obtain ⟨m, he, hm⟩ := hk.map a s ha
  simp only [heapGet, he]
  exact ⟨S, Grows.refl S, hk.set_map a s ha _ (delete_typed m k hm), hgl, rfl, by intro t ht; cases ht⟩

theorem bi_str2bool (hx : ExtOk ext) (hg : GgOk Gg) (tys : List Ty) (vs : List (Val F)) (st : St F) (S : Store)
    (hle : (⟨[isStrT], none, some .bool⟩ : BSig).params.length ≤ vs.length)
    (hfix : (⟨[isStrT], none, some .bool⟩ : BSig).rest = none → vs.length = (⟨[isStrT], none, some .bool⟩ : BSig).params.length)
    (hz : PZ tys S vs) (hpred : ∀ (i : Nat) ta, tys[i]? = some ta → (⟨[isStrT], none, some .bool⟩ : BSig).paramAt i ta = true)
    (hk : HeapOk S st.heap) (hgl : GlobalOk S Gg st.global) :
    ∃ r, callBuiltin ops ext (lit "str2bool") vs st = some r ∧ GoodBI Gg (⟨[isStrT], none, some .bool⟩ : BSig).ret S st r := by
  simp [callBuiltin, isBuiltin, builtinNames, lit]
  obtain ⟨v, t, rfl, rfl, hv⟩ := one_arg (hfix rfl) hz
  have := isStrT_eq (hpred 0 t rfl); subst this
  obtain ⟨x, rfl⟩ := hv.str_inv
  simp only
  cases hp : parseBool x with
  | some b =>
    exact ⟨S, Grows.refl S, hk, setGlobalErr_ok Gg hg hgl _ _, rfl, fun t ht => by cases ht; exact .bool _⟩
  | none =>
    simp only [callExt]
    cases hq : ext.call "quote" [XArg.str x] with
    | some q => exact ⟨S, Grows.refl S, hk, setGlobalErr_ok Gg hg hgl _ _, rfl, fun t ht => by cases ht; exact .bool _⟩
    | none =>
      exact ⟨S, Grows.refl S, hk,
        setGlobalErr_ok Gg hg (st := { st with misses := ("quote", [XArg.str x]) :: st.misses, stopped := true }) hgl _ _, rfl,
        fun t ht => by cases ht; exact .bool _⟩

theorem bi_sprint (hx : ExtOk ext) (hg : GgOk Gg) (tys : List Ty) (vs : List (Val F)) (st : St F) (S : Store)
    (hle : (⟨[], some (fun _ => true), some .str⟩ : BSig).params.length ≤ vs.length)
    (hfix : (⟨[], some (fun _ => true), some .str⟩ : BSig).rest = none → vs.length = (⟨[], some (fun _ => true), some .str⟩ : BSig).params.length)
    (hz : PZ tys S vs) (hpred : ∀ (i : Nat) ta, tys[i]? = some ta → (⟨[], some (fun _ => true), some .str⟩ : BSig).paramAt i ta = true)
    (hk : HeapOk S st.heap) (hgl : GlobalOk S Gg st.global) :
    ∃ r, callBuiltin ops ext (lit "sprint") vs st = some r ∧ GoodBI Gg (⟨[], some (fun _ => true), some .str⟩ : BSig).ret S st r := by
  simp [callBuiltin, isBuiltin, builtinNames, lit]
  cases joinVals ops st vs [' '] with
  | none => exact trivial
  | some str => exact same_state Gg hk hgl _ _ (fun t ht => by cases ht; exact .str _)

theorem bi_join (hx : ExtOk ext) (hg : GgOk Gg) (tys : List Ty) (vs : List (Val F)) (st : St F) (S : Store)
    (hle : (⟨[isArrT, isStrT], none, some .str⟩ : BSig).params.length ≤ vs.length)
    (hfix : (⟨[isArrT, isStrT], none, some .str⟩ : BSig).rest = none → vs.length = (⟨[isArrT, isStrT], none, some .str⟩ : BSig).params.length)
    (hz : PZ tys S vs) (hpred : ∀ (i : Nat) ta, tys[i]? = some ta → (⟨[isArrT, isStrT], none, some .str⟩ : BSig).paramAt i ta = true)
    (hk : HeapOk S st.heap) (hgl : GlobalOk S Gg st.global) :
    ∃ r, callBuiltin ops ext (lit "join") vs st = some r ∧ GoodBI Gg (⟨[isArrT, isStrT], none, some .str⟩ : BSig).ret S st r := by
  simp [callBuiltin, isBuiltin, builtinNames, lit]
  obtain ⟨v1, v2, t1, t2, rfl, rfl, h1, h2⟩ := two_args (hfix rfl) hz
  obtain ⟨s, rfl⟩ := isArrT_eq (hpred 0 t1 rfl)
  have := isStrT_eq (hpred 1 t2 rfl); subst this
  obtain ⟨a, rfl, ha⟩ := h1.arr_inv
  obtain ⟨k, rfl⟩ := h2.str_inv
  obtain ⟨es, he, _⟩ := hk.arr a s ha
  simp only [heapGet, he]
  cases joinVals ops st es k with
  | none => exact trivial
  | some str => exact same_state Gg hk hgl _ _ (fun t ht => by cases ht; exact .str _)

theorem bi_startswith (hx : ExtOk ext) (hg : GgOk Gg) (tys : List Ty) (vs : List (Val F)) (st : St F) (S : Store)
    (hle : (⟨[isStrT, isStrT], none, some .bool⟩ : BSig).params.length ≤ vs.length)
    (hfix : (⟨[isStrT, isStrT], none, some .bool⟩ : BSig).rest = none → vs.length = (⟨[isStrT, isStrT], none, some .bool⟩ : BSig).params.length)
    (hz : PZ tys S vs) (hpred : ∀ (i : Nat) ta, tys[i]? = some ta → (⟨[isStrT, isStrT], none, some .bool⟩ : BSig).paramAt i ta = true)
    (hk : HeapOk S st.heap) (hgl : GlobalOk S Gg st.global) :
    ∃ r, callBuiltin ops ext (lit "startswith") vs st = some r ∧ GoodBI Gg (⟨[isStrT, isStrT], none, some .bool⟩ : BSig).ret S st r := by
  simp [callBuiltin, isBuiltin, builtinNames, lit]
  obtain ⟨v1, v2, t1, t2, rfl, rfl, h1, h2⟩ := two_args (hfix rfl) hz
  have := isStrT_eq (hpred 0 t1 rfl); subst this
  have := isStrT_eq (hpred 1 t2 rfl); subst this
  obtain ⟨x, rfl⟩ := h1.str_inv
  obtain ⟨y, rfl⟩ := h2.str_inv
  exact same_state Gg hk hgl _ _ (fun t ht => by cases ht; exact .bool _)

theorem bi_endswith (hx : ExtOk ext) (hg : GgOk Gg) (tys : List Ty) (vs : List (Val F)) (st : St F) (S : Store)
    (hle : (⟨[isStrT, isStrT], none, some .bool⟩ : BSig).params.length ≤ vs.length)
    (hfix : (⟨[isStrT, isStrT], none, some .bool⟩ : BSig).rest = none → vs.length = (⟨[isStrT, isStrT], none, some .bool⟩ : BSig).params.length)
    (hz : PZ tys S vs) (hpred : ∀ (i : Nat) ta, tys[i]? = some ta → (⟨[isStrT, isStrT], none, some .bool⟩ : BSig).paramAt i ta = true)
    (hk : HeapOk S st.heap) (hgl : GlobalOk S Gg st.global) :
    ∃ r, callBuiltin ops ext (lit "endswith") vs st = some r ∧ GoodBI Gg (⟨[isStrT, isStrT], none, some .bool⟩ : BSig).ret S st r := by
  simp [callBuiltin, isBuiltin, builtinNames, lit]
  obtain ⟨v1, v2, t1, t2, rfl, rfl, h1, h2⟩ := two_args (hfix rfl) hz
  have := isStrT_eq (hpred 0 t1 rfl); subst this
  have := isStrT_eq (hpred 1 t2 rfl); subst this
  obtain ⟨x, rfl⟩ := h1.str_inv
  obtain ⟨y, rfl⟩ := h2.str_inv
  exact same_state Gg hk hgl _ _ (fun t ht => by cases ht; exact .bool _)

theorem bi_index (hx : ExtOk ext) (hg : GgOk Gg) (tys : List Ty) (vs : List (Val F)) (st : St F) (S : Store)
    (hle : (⟨[isStrT, isStrT], none, some .num⟩ : BSig).params.length ≤ vs.length)
    (hfix : (⟨[isStrT, isStrT], none, some .num⟩ : BSig).rest = none → vs.length = (⟨[isStrT, isStrT], none, some .num⟩ : BSig).params.length)
    (hz : PZ tys S vs) (hpred : ∀ (i : Nat) ta, tys[i]? = some ta → (⟨[isStrT, isStrT], none, some .num⟩ : BSig).paramAt i ta = true)
    (hk : HeapOk S st.heap) (hgl : GlobalOk S Gg st.global) :
    ∃ r, callBuiltin ops ext (lit "index") vs st = some r ∧ GoodBI Gg (⟨[isStrT, isStrT], none, some .num⟩ : BSig).ret S st r := by
  simp [callBuiltin, isBuiltin, builtinNames, lit]
  obtain ⟨v1, v2, t1, t2, rfl, rfl, h1, h2⟩ := two_args (hfix rfl) hz
  have := isStrT_eq (hpred 0 t1 rfl); subst this
  have := isStrT_eq (hpred 1 t2 rfl); subst this
  obtain ⟨x, rfl⟩ := h1.str_inv
  obtain ⟨y, rfl⟩ := h2.str_inv
  exact same_state Gg hk hgl _ _ (fun t ht => by cases ht; exact .num _)

theorem bi_exit (hx : ExtOk ext) (hg : GgOk Gg) (tys : List Ty) (vs : List (Val F)) (st : St F) (S : Store)
    (hle : (⟨[isNumT], none, none⟩ : BSig).params.length ≤ vs.length)
    (hfix : (⟨[isNumT], none, none⟩ : BSig).rest = none → vs.length = (⟨[isNumT], none, none⟩ : BSig).params.length)
    (hz : PZ tys S vs) (hpred : ∀ (i : Nat) ta, tys[i]? = some ta → (⟨[isNumT], none, none⟩ : BSig).paramAt i ta = true)
    (hk : HeapOk S st.heap) (hgl : GlobalOk S Gg st.global) :
    ∃ r, callBuiltin ops ext (lit "exit") vs st = some r ∧ GoodBI Gg (⟨[isNumT], none, none⟩ : BSig).ret S st r := by
  simp [callBuiltin, isBuiltin, builtinNames, lit]
  obtain ⟨v, t, rfl, rfl, hv⟩ := one_arg (hfix rfl) hz
  have := isNumT_eq (hpred 0 t rfl); subst this
  obtain ⟨x, rfl⟩ := hv.num_inv
  exact trivial

theorem bi_panic (hx : ExtOk ext) (hg : GgOk Gg) (tys : List Ty) (vs : List (Val F)) (st : St F) (S : Store)
    (hle : (⟨[isStrT], none, none⟩ : BSig).params.length ≤ vs.length)
    (hfix : (⟨[isStrT], none, none⟩ : BSig).rest = none → vs.length = (⟨[isStrT], none, none⟩ : BSig).params.length)
    (hz : PZ tys S vs) (hpred : ∀ (i : Nat) ta, tys[i]? = some ta → (⟨[isStrT], none, none⟩ : BSig).paramAt i ta = true)
    (hk : HeapOk S st.heap) (hgl : GlobalOk S Gg st.global) :
    ∃ r, callBuiltin ops ext (lit "panic") vs st = some r ∧ GoodBI Gg (⟨[isStrT], none, none⟩ : BSig).ret S st r := by
  simp [callBuiltin, isBuiltin, builtinNames, lit]
  obtain ⟨v, t, rfl, rfl, hv⟩ := one_arg (hfix rfl) hz
  have := isStrT_eq (hpred 0 t rfl); subst this
  obtain ⟨x, rfl⟩ := hv.str_inv
  exact trivial

theorem bi_sleep (hx : ExtOk ext) (hg : GgOk Gg) (tys : List Ty) (vs : List (Val F)) (st : St F) (S : Store)
    (hle : (⟨[isNumT], none, none⟩ : BSig).params.length ≤ vs.length)
    (hfix : (⟨[isNumT], none, none⟩ : BSig).rest = none → vs.length = (⟨[isNumT], none, none⟩ : BSig).params.length)
    (hz : PZ tys S vs) (hpred : ∀ (i : Nat) ta, tys[i]? = some ta → (⟨[isNumT], none, none⟩ : BSig).paramAt i ta = true)
    (hk : HeapOk S st.heap) (hgl : GlobalOk S Gg st.global) :
    ∃ r, callBuiltin ops ext (lit "sleep") vs st = some r ∧ GoodBI Gg (⟨[isNumT], none, none⟩ : BSig).ret S st r := by
  simp [callBuiltin, isBuiltin, builtinNames, lit]
  obtain ⟨v, t, rfl, rfl, hv⟩ := one_arg (hfix rfl) hz
  have := isNumT_eq (hpred 0 t rfl); subst this
  obtain ⟨x, rfl⟩ := hv.num_inv
  exact ⟨S, Grows.refl S, hk, hgl, rfl, by intro t ht; cases ht⟩

theorem bi_cls (hx : ExtOk ext) (hg : GgOk Gg) (tys : List Ty) (vs : List (Val F)) (st : St F) (S : Store)
    (hle : (⟨[], none, none⟩ : BSig).params.length ≤ vs.length)
    (hfix : (⟨[], none, none⟩ : BSig).rest = none → vs.length = (⟨[], none, none⟩ : BSig).params.length)
    (hz : PZ tys S vs) (hpred : ∀ (i : Nat) ta, tys[i]? = some ta → (⟨[], none, none⟩ : BSig).paramAt i ta = true)
    (hk : HeapOk S st.heap) (hgl : GlobalOk S Gg st.global) :
    ∃ r, callBuiltin ops ext (lit "cls") vs st = some r ∧ GoodBI Gg (⟨[], none, none⟩ : BSig).ret S st r := by
  simp [callBuiltin, isBuiltin, builtinNames, lit]
  exact ⟨S, Grows.refl S, hk, hgl, rfl, by intro t ht; cases ht⟩

theorem bi_read (hx : ExtOk ext) (hg : GgOk Gg) (tys : List Ty) (vs : List (Val F)) (st : St F) (S : Store)
    (hle : (⟨[], none, some .str⟩ : BSig).params.length ≤ vs.length)
    (hfix : (⟨[], none, some .str⟩ : BSig).rest = none → vs.length = (⟨[], none, some .str⟩ : BSig).params.length)
    (hz : PZ tys S vs) (hpred : ∀ (i : Nat) ta, tys[i]? = some ta → (⟨[], none, some .str⟩ : BSig).paramAt i ta = true)
    (hk : HeapOk S st.heap) (hgl : GlobalOk S Gg st.global) :
    ∃ r, callBuiltin ops ext (lit "read") vs st = some r ∧ GoodBI Gg (⟨[], none, some .str⟩ : BSig).ret S st r := by
  simp [callBuiltin, isBuiltin, builtinNames, lit]
  cases hi : st.input with
  | nil => exact ⟨S, Grows.refl S, hk, hgl, rfl, fun t ht => by cases ht; exact .str _⟩
  | cons l rest => exact ⟨S, Grows.refl S, hk, hgl, rfl, fun t ht => by cases ht; exact .str _⟩

theorem bi_abs (hx : ExtOk ext) (hg : GgOk Gg) (tys : List Ty) (vs : List (Val F)) (st : St F) (S : Store)
    (hle : (⟨[isNumT], none, some .num⟩ : BSig).params.length ≤ vs.length)
    (hfix : (⟨[isNumT], none, some .num⟩ : BSig).rest = none → vs.length = (⟨[isNumT], none, some .num⟩ : BSig).params.length)
    (hz : PZ tys S vs) (hpred : ∀ (i : Nat) ta, tys[i]? = some ta → (⟨[isNumT], none, some .num⟩ : BSig).paramAt i ta = true)
    (hk : HeapOk S st.heap) (hgl : GlobalOk S Gg st.global) :
    ∃ r, callBuiltin ops ext (lit "abs") vs st = some r ∧ GoodBI Gg (⟨[isNumT], none, some .num⟩ : BSig).ret S st r := by
  simp [callBuiltin, isBuiltin, builtinNames, lit]
  obtain ⟨v, t, rfl, rfl, hv⟩ := one_arg (hfix rfl) hz
  have := isNumT_eq (hpred 0 t rfl); subst this
  obtain ⟨x, rfl⟩ := hv.num_inv
  exact forward_num ext Gg hx hk hgl _ (by simp [numFns]) _ _

theorem bi_floor (hx : ExtOk ext) (hg : GgOk Gg) (tys : List Ty) (vs : List (Val F)) (st : St F) (S : Store)
    (hle : (⟨[isNumT], none, some .num⟩ : BSig).params.length ≤ vs.length)
    (hfix : (⟨[isNumT], none, some .num⟩ : BSig).rest = none → vs.length = (⟨[isNumT], none, some .num⟩ : BSig).params.length)
    (hz : PZ tys S vs) (hpred : ∀ (i : Nat) ta, tys[i]? = some ta → (⟨[isNumT], none, some .num⟩ : BSig).paramAt i ta = true)
    (hk : HeapOk S st.heap) (hgl : GlobalOk S Gg st.global) :
    ∃ r, callBuiltin ops ext (lit "floor") vs st = some r ∧ GoodBI Gg (⟨[isNumT], none, some .num⟩ : BSig).ret S st r := by
  simp [callBuiltin, isBuiltin, builtinNames, lit]
  obtain ⟨v, t, rfl, rfl, hv⟩ := one_arg (hfix rfl) hz
  have := isNumT_eq (hpred 0 t rfl); subst this
  obtain ⟨x, rfl⟩ := hv.num_inv
  exact forward_num ext Gg hx hk hgl _ (by simp [numFns]) _ _

theorem bi_ceil (hx : ExtOk ext) (hg : GgOk Gg) (tys : List Ty) (vs : List (Val F)) (st : St F) (S : Store)
    (hle : (⟨[isNumT], none, some .num⟩ : BSig).params.length ≤ vs.length)
    (hfix : (⟨[isNumT], none, some .num⟩ : BSig).rest = none → vs.length = (⟨[isNumT], none, some .num⟩ : BSig).params.length)
    (hz : PZ tys S vs) (hpred : ∀ (i : Nat) ta, tys[i]? = some ta → (⟨[isNumT], none, some .num⟩ : BSig).paramAt i ta = true)
    (hk : HeapOk S st.heap) (hgl : GlobalOk S Gg st.global) :
    ∃ r, callBuiltin ops ext (lit "ceil") vs st = some r ∧ GoodBI Gg (⟨[isNumT], none, some .num⟩ : BSig).ret S st r := by
  simp [callBuiltin, isBuiltin, builtinNames, lit]
  obtain ⟨v, t, rfl, rfl, hv⟩ := one_arg (hfix rfl) hz
  have := isNumT_eq (hpred 0 t rfl); subst this
  obtain ⟨x, rfl⟩ := hv.num_inv
  exact forward_num ext Gg hx hk hgl _ (by simp [numFns]) _ _

theorem bi_round (hx : ExtOk ext) (hg : GgOk Gg) (tys : List Ty) (vs : List (Val F)) (st : St F) (S : Store)
    (hle : (⟨[isNumT], none, some .num⟩ : BSig).params.length ≤ vs.length)
    (hfix : (⟨[isNumT], none, some .num⟩ : BSig).rest = none → vs.length = (⟨[isNumT], none, some .num⟩ : BSig).params.length)
    (hz : PZ tys S vs) (hpred : ∀ (i : Nat) ta, tys[i]? = some ta → (⟨[isNumT], none, some .num⟩ : BSig).paramAt i ta = true)
    (hk : HeapOk S st.heap) (hgl : GlobalOk S Gg st.global) :
    ∃ r, callBuiltin ops ext (lit "round") vs st = some r ∧ GoodBI Gg (⟨[isNumT], none, some .num⟩ : BSig).ret S st r := by
  simp [callBuiltin, isBuiltin, builtinNames, lit]
  obtain ⟨v, t, rfl, rfl, hv⟩ := one_arg (hfix rfl) hz
  have := isNumT_eq (hpred 0 t rfl); subst this
  obtain ⟨x, rfl⟩ := hv.num_inv
  exact forward_num ext Gg hx hk hgl _ (by simp [numFns]) _ _

theorem bi_log (hx : ExtOk ext) (hg : GgOk Gg) (tys : List Ty) (vs : List (Val F)) (st : St F) (S : Store)
    (hle : (⟨[isNumT], none, some .num⟩ : BSig).params.length ≤ vs.length)
    (hfix : (⟨[isNumT], none, some .num⟩ : BSig).rest = none → vs.length = (⟨[isNumT], none, some .num⟩ : BSig).params.length)
    (hz : PZ tys S vs) (hpred : ∀ (i : Nat) ta, tys[i]? = some ta → (⟨[isNumT], none, some .num⟩ : BSig).paramAt i ta = true)
    (hk : HeapOk S st.heap) (hgl : GlobalOk S Gg st.global) :
    ∃ r, callBuiltin ops ext (lit "log") vs st = some r ∧ GoodBI Gg (⟨[isNumT], none, some .num⟩ : BSig).ret S st r := by
  simp [callBuiltin, isBuiltin, builtinNames, lit]
  obtain ⟨v, t, rfl, rfl, hv⟩ := one_arg (hfix rfl) hz
  have := isNumT_eq (hpred 0 t rfl); subst this
  obtain ⟨x, rfl⟩ := hv.num_inv
  exact forward_num ext Gg hx hk hgl _ (by simp [numFns]) _ _

theorem bi_sqrt (hx : ExtOk ext) (hg : GgOk Gg) (tys : List Ty) (vs : List (Val F)) (st : St F) (S : Store)
    (hle : (⟨[isNumT], none, some .num⟩ : BSig).params.length ≤ vs.length)
    (hfix : (⟨[isNumT], none, some .num⟩ : BSig).rest = none → vs.length = (⟨[isNumT], none, some .num⟩ : BSig).params.length)
    (hz : PZ tys S vs) (hpred : ∀ (i : Nat) ta, tys[i]? = some ta → (⟨[isNumT], none, some .num⟩ : BSig).paramAt i ta = true)
    (hk : HeapOk S st.heap) (hgl : GlobalOk S Gg st.global) :
    ∃ r, callBuiltin ops ext (lit "sqrt") vs st = some r ∧ GoodBI Gg (⟨[isNumT], none, some .num⟩ : BSig).ret S st r := by
  simp [callBuiltin, isBuiltin, builtinNames, lit]
  obtain ⟨v, t, rfl, rfl, hv⟩ := one_arg (hfix rfl) hz
  have := isNumT_eq (hpred 0 t rfl); subst this
  obtain ⟨x, rfl⟩ := hv.num_inv
  exact forward_num ext Gg hx hk hgl _ (by simp [numFns]) _ _

theorem bi_sin (hx : ExtOk ext) (hg : GgOk Gg) (tys : List Ty) (vs : List (Val F)) (st : St F) (S : Store)
    (hle : (⟨[isNumT], none, some .num⟩ : BSig).params.length ≤ vs.length)
    (hfix : (⟨[isNumT], none, some .num⟩ : BSig).rest = none → vs.length = (⟨[isNumT], none, some .num⟩ : BSig).params.length)
    (hz : PZ tys S vs) (hpred : ∀ (i : Nat) ta, tys[i]? = some ta → (⟨[isNumT], none, some .num⟩ : BSig).paramAt i ta = true)
    (hk : HeapOk S st.heap) (hgl : GlobalOk S Gg st.global) :
    ∃ r, callBuiltin ops ext (lit "sin") vs st = some r ∧ GoodBI Gg (⟨[isNumT], none, some .num⟩ : BSig).ret S st r := by
  simp [callBuiltin, isBuiltin, builtinNames, lit]
  obtain ⟨v, t, rfl, rfl, hv⟩ := one_arg (hfix rfl) hz
  have := isNumT_eq (hpred 0 t rfl); subst this
  obtain ⟨x, rfl⟩ := hv.num_inv
  exact forward_num ext Gg hx hk hgl _ (by simp [numFns]) _ _

theorem bi_cos (hx : ExtOk ext) (hg : GgOk Gg) (tys : List Ty) (vs : List (Val F)) (st : St F) (S : Store)
    (hle : (⟨[isNumT], none, some .num⟩ : BSig).params.length ≤ vs.length)
    (hfix : (⟨[isNumT], none, some .num⟩ : BSig).rest = none → vs.length = (⟨[isNumT], none, some .num⟩ : BSig).params.length)
    (hz : PZ tys S vs) (hpred : ∀ (i : Nat) ta, tys[i]? = some ta → (⟨[isNumT], none, some .num⟩ : BSig).paramAt i ta = true)
    (hk : HeapOk S st.heap) (hgl : GlobalOk S Gg st.global) :
    ∃ r, callBuiltin ops ext (lit "cos") vs st = some r ∧ GoodBI Gg (⟨[isNumT], none, some .num⟩ : BSig).ret S st r := by
  simp [callBuiltin, isBuiltin, builtinNames, lit]
  obtain ⟨v, t, rfl, rfl, hv⟩ := one_arg (hfix rfl) hz
  have := isNumT_eq (hpred 0 t rfl); subst this
  obtain ⟨x, rfl⟩ := hv.num_inv
  exact forward_num ext Gg hx hk hgl _ (by simp [numFns]) _ _

theorem bi_min (hx : ExtOk ext) (hg : GgOk Gg) (tys : List Ty) (vs : List (Val F)) (st : St F) (S : Store)
    (hle : (⟨[isNumT, isNumT], none, some .num⟩ : BSig).params.length ≤ vs.length)
    (hfix : (⟨[isNumT, isNumT], none, some .num⟩ : BSig).rest = none → vs.length = (⟨[isNumT, isNumT], none, some .num⟩ : BSig).params.length)
    (hz : PZ tys S vs) (hpred : ∀ (i : Nat) ta, tys[i]? = some ta → (⟨[isNumT, isNumT], none, some .num⟩ : BSig).paramAt i ta = true)
    (hk : HeapOk S st.heap) (hgl : GlobalOk S Gg st.global) :
    ∃ r, callBuiltin ops ext (lit "min") vs st = some r ∧ GoodBI Gg (⟨[isNumT, isNumT], none, some .num⟩ : BSig).ret S st r := by
  simp [callBuiltin, isBuiltin, builtinNames, lit]
  obtain ⟨v1, v2, t1, t2, rfl, rfl, h1, h2⟩ := two_args (hfix rfl) hz
  have := isNumT_eq (hpred 0 t1 rfl); subst this
  have := isNumT_eq (hpred 1 t2 rfl); subst this
  obtain ⟨x, rfl⟩ := h1.num_inv
  obtain ⟨y, rfl⟩ := h2.num_inv
  exact forward_num ext Gg hx hk hgl _ (by simp [numFns]) _ _

theorem bi_max (hx : ExtOk ext) (hg : GgOk Gg) (tys : List Ty) (vs : List (Val F)) (st : St F) (S : Store)
    (hle : (⟨[isNumT, isNumT], none, some .num⟩ : BSig).params.length ≤ vs.length)
    (hfix : (⟨[isNumT, isNumT], none, some .num⟩ : BSig).rest = none → vs.length = (⟨[isNumT, isNumT], none, some .num⟩ : BSig).params.length)
    (hz : PZ tys S vs) (hpred : ∀ (i : Nat) ta, tys[i]? = some ta → (⟨[isNumT, isNumT], none, some .num⟩ : BSig).paramAt i ta = true)
    (hk : HeapOk S st.heap) (hgl : GlobalOk S Gg st.global) :
    ∃ r, callBuiltin ops ext (lit "max") vs st = some r ∧ GoodBI Gg (⟨[isNumT, isNumT], none, some .num⟩ : BSig).ret S st r := by
  simp [callBuiltin, isBuiltin, builtinNames, lit]
  obtain ⟨v1, v2, t1, t2, rfl, rfl, h1, h2⟩ := two_args (hfix rfl) hz
  have := isNumT_eq (hpred 0 t1 rfl); subst this
  have := isNumT_eq (hpred 1 t2 rfl); subst this
  obtain ⟨x, rfl⟩ := h1.num_inv
  obtain ⟨y, rfl⟩ := h2.num_inv
  exact forward_num ext Gg hx hk hgl _ (by simp [numFns]) _ _

theorem bi_pow (hx : ExtOk ext) (hg : GgOk Gg) (tys : List Ty) (vs : List (Val F)) (st : St F) (S : Store)
    (hle : (⟨[isNumT, isNumT], none, some .num⟩ : BSig).params.length ≤ vs.length)
    (hfix : (⟨[isNumT, isNumT], none, some .num⟩ : BSig).rest = none → vs.length = (⟨[isNumT, isNumT], none, some .num⟩ : BSig).params.length)
    (hz : PZ tys S vs) (hpred : ∀ (i : Nat) ta, tys[i]? = some ta → (⟨[isNumT, isNumT], none, some .num⟩ : BSig).paramAt i ta = true)
    (hk : HeapOk S st.heap) (hgl : GlobalOk S Gg st.global) :
    ∃ r, callBuiltin ops ext (lit "pow") vs st = some r ∧ GoodBI Gg (⟨[isNumT, isNumT], none, some .num⟩ : BSig).ret S st r := by
  simp [callBuiltin, isBuiltin, builtinNames, lit]
  obtain ⟨v1, v2, t1, t2, rfl, rfl, h1, h2⟩ := two_args (hfix rfl) hz
  have := isNumT_eq (hpred 0 t1 rfl); subst this
  have := isNumT_eq (hpred 1 t2 rfl); subst this
  obtain ⟨x, rfl⟩ := h1.num_inv
  obtain ⟨y, rfl⟩ := h2.num_inv
  exact forward_num ext Gg hx hk hgl _ (by simp [numFns]) _ _

theorem bi_atan2 (hx : ExtOk ext) (hg : GgOk Gg) (tys : List Ty) (vs : List (Val F)) (st : St F) (S : Store)
    (hle : (⟨[isNumT, isNumT], none, some .num⟩ : BSig).params.length ≤ vs.length)
    (hfix : (⟨[isNumT, isNumT], none, some .num⟩ : BSig).rest = none → vs.length = (⟨[isNumT, isNumT], none, some .num⟩ : BSig).params.length)
    (hz : PZ tys S vs) (hpred : ∀ (i : Nat) ta, tys[i]? = some ta → (⟨[isNumT, isNumT], none, some .num⟩ : BSig).paramAt i ta = true)
    (hk : HeapOk S st.heap) (hgl : GlobalOk S Gg st.global) :
    ∃ r, callBuiltin ops ext (lit "atan2") vs st = some r ∧ GoodBI Gg (⟨[isNumT, isNumT], none, some .num⟩ : BSig).ret S st r := by
  simp [callBuiltin, isBuiltin, builtinNames, lit]
  obtain ⟨v1, v2, t1, t2, rfl, rfl, h1, h2⟩ := two_args (hfix rfl) hz
  have := isNumT_eq (hpred 0 t1 rfl); subst this
  have := isNumT_eq (hpred 1 t2 rfl); subst this
  obtain ⟨x, rfl⟩ := h1.num_inv
  obtain ⟨y, rfl⟩ := h2.num_inv
  exact forward_num ext Gg hx hk hgl _ (by simp [numFns]) _ _

theorem bi_upper (hx : ExtOk ext) (hg : GgOk Gg) (tys : List Ty) (vs : List (Val F)) (st : St F) (S : Store)
    (hle : (⟨[isStrT], none, some .str⟩ : BSig).params.length ≤ vs.length)
    (hfix : (⟨[isStrT], none, some .str⟩ : BSig).rest = none → vs.length = (⟨[isStrT], none, some .str⟩ : BSig).params.length)
    (hz : PZ tys S vs) (hpred : ∀ (i : Nat) ta, tys[i]? = some ta → (⟨[isStrT], none, some .str⟩ : BSig).paramAt i ta = true)
    (hk : HeapOk S st.heap) (hgl : GlobalOk S Gg st.global) :
    ∃ r, callBuiltin ops ext (lit "upper") vs st = some r ∧ GoodBI Gg (⟨[isStrT], none, some .str⟩ : BSig).ret S st r := by
  simp [callBuiltin, isBuiltin, builtinNames, lit]
  obtain ⟨v, t, rfl, rfl, hv⟩ := one_arg (hfix rfl) hz
  have := isStrT_eq (hpred 0 t rfl); subst this
  obtain ⟨x, rfl⟩ := hv.str_inv
  exact forward_str ext Gg hx hk hgl _ (by simp [strFns]) _ _

theorem bi_lower (hx : ExtOk ext) (hg : GgOk Gg) (tys : List Ty) (vs : List (Val F)) (st : St F) (S : Store)
    (hle : (⟨[isStrT], none, some .str⟩ : BSig).params.length ≤ vs.length)
    (hfix : (⟨[isStrT], none, some .str⟩ : BSig).rest = none → vs.length = (⟨[isStrT], none, some .str⟩ : BSig).params.length)
    (hz : PZ tys S vs) (hpred : ∀ (i : Nat) ta, tys[i]? = some ta → (⟨[isStrT], none, some .str⟩ : BSig).paramAt i ta = true)
    (hk : HeapOk S st.heap) (hgl : GlobalOk S Gg st.global) :
    ∃ r, callBuiltin ops ext (lit "lower") vs st = some r ∧ GoodBI Gg (⟨[isStrT], none, some .str⟩ : BSig).ret S st r := by
  simp [callBuiltin, isBuiltin, builtinNames, lit]
  obtain ⟨v, t, rfl, rfl, hv⟩ := one_arg (hfix rfl) hz
  have := isStrT_eq (hpred 0 t rfl); subst this
  obtain ⟨x, rfl⟩ := hv.str_inv
  exact forward_str ext Gg hx hk hgl _ (by simp [strFns]) _ _

theorem bi_trim (hx : ExtOk ext) (hg : GgOk Gg) (tys : List Ty) (vs : List (Val F)) (st : St F) (S : Store)
    (hle : (⟨[isStrT, isStrT], none, some .str⟩ : BSig).params.length ≤ vs.length)
    (hfix : (⟨[isStrT, isStrT], none, some .str⟩ : BSig).rest = none → vs.length = (⟨[isStrT, isStrT], none, some .str⟩ : BSig).params.length)
    (hz : PZ tys S vs) (hpred : ∀ (i : Nat) ta, tys[i]? = some ta → (⟨[isStrT, isStrT], none, some .str⟩ : BSig).paramAt i ta = true)
    (hk : HeapOk S st.heap) (hgl : GlobalOk S Gg st.global) :
    ∃ r, callBuiltin ops ext (lit "trim") vs st = some r ∧ GoodBI Gg (⟨[isStrT, isStrT], none, some .str⟩ : BSig).ret S st r := by
  simp [callBuiltin, isBuiltin, builtinNames, lit]
  obtain ⟨v1, v2, t1, t2, rfl, rfl, h1, h2⟩ := two_args (hfix rfl) hz
  have := isStrT_eq (hpred 0 t1 rfl); subst this
  have := isStrT_eq (hpred 1 t2 rfl); subst this
  obtain ⟨x, rfl⟩ := h1.str_inv
  obtain ⟨y, rfl⟩ := h2.str_inv
  exact forward_str ext Gg hx hk hgl _ (by simp [strFns]) _ _

theorem bi_replace (hx : ExtOk ext) (hg : GgOk Gg) (tys : List Ty) (vs : List (Val F)) (st : St F) (S : Store)
    (hle : (⟨[isStrT, isStrT, isStrT], none, some .str⟩ : BSig).params.length ≤ vs.length)
    (hfix : (⟨[isStrT, isStrT, isStrT], none, some .str⟩ : BSig).rest = none → vs.length = (⟨[isStrT, isStrT, isStrT], none, some .str⟩ : BSig).params.length)
    (hz : PZ tys S vs) (hpred : ∀ (i : Nat) ta, tys[i]? = some ta → (⟨[isStrT, isStrT, isStrT], none, some .str⟩ : BSig).paramAt i ta = true)
    (hk : HeapOk S st.heap) (hgl : GlobalOk S Gg st.global) :
    ∃ r, callBuiltin ops ext (lit "replace") vs st = some r ∧ GoodBI Gg (⟨[isStrT, isStrT, isStrT], none, some .str⟩ : BSig).ret S st r := by
  simp [callBuiltin, isBuiltin, builtinNames, lit]
  obtain ⟨v1, v2, v3, t1, t2, t3, rfl, rfl, h1, h2, h3⟩ := three_args (hfix rfl) hz
  have := isStrT_eq (hpred 0 t1 rfl); subst this
  have := isStrT_eq (hpred 1 t2 rfl); subst this
  have := isStrT_eq (hpred 2 t3 rfl); subst this
  obtain ⟨x, rfl⟩ := h1.str_inv
  obtain ⟨y, rfl⟩ := h2.str_inv
  obtain ⟨z, rfl⟩ := h3.str_inv
  exact ⟨S, Grows.refl S, hk, hgl, rfl, fun t ht => by cases ht; exact .str _⟩

theorem bi_str2num (hx : ExtOk ext) (hg : GgOk Gg) (tys : List Ty) (vs : List (Val F)) (st : St F) (S : Store)
    (hle : (⟨[isStrT], none, some .num⟩ : BSig).params.length ≤ vs.length)
    (hfix : (⟨[isStrT], none, some .num⟩ : BSig).rest = none → vs.length = (⟨[isStrT], none, some .num⟩ : BSig).params.length)
    (hz : PZ tys S vs) (hpred : ∀ (i : Nat) ta, tys[i]? = some ta → (⟨[isStrT], none, some .num⟩ : BSig).paramAt i ta = true)
    (hk : HeapOk S st.heap) (hgl : GlobalOk S Gg st.global) :
    ∃ r, callBuiltin ops ext (lit "str2num") vs st = some r ∧ GoodBI Gg (⟨[isStrT], none, some .num⟩ : BSig).ret S st r := by
  simp [callBuiltin, isBuiltin, builtinNames, lit]
  obtain ⟨v, t, rfl, rfl, hv⟩ := one_arg (hfix rfl) hz
  have := isStrT_eq (hpred 0 t rfl); subst this
  obtain ⟨x, rfl⟩ := hv.str_inv
  simp only [callExt]
  cases hc : ext.call "parsefloat" [XArg.str x] with
  | none =>
    exact ⟨S, Grows.refl S, hk,
      setGlobalErr_ok Gg hg (st := { st with misses := ("parsefloat", [XArg.str x]) :: st.misses, stopped := true }) hgl _ _, rfl,
      fun t ht => by cases ht; exact .num _⟩
  | some r =>
    obtain ⟨n, b, rfl⟩ := hx.2.2.1 _ _ hc
    cases b with
    | true => exact ⟨S, Grows.refl S, hk, setGlobalErr_ok Gg hg hgl _ _, rfl, fun t ht => by cases ht; exact .num _⟩
    | false =>
      simp only
      cases hq : ext.call "quote" [XArg.str x] with
      | some q => exact ⟨S, Grows.refl S, hk, setGlobalErr_ok Gg hg hgl _ _, rfl, fun t ht => by cases ht; exact .num _⟩
      | none =>
        exact ⟨S, Grows.refl S, hk,
          setGlobalErr_ok Gg hg (st := { st with misses := ("quote", [XArg.str x]) :: st.misses, stopped := true }) hgl _ _, rfl,
          fun t ht => by cases ht; exact .num _⟩

theorem bi_move (hx : ExtOk ext) (hg : GgOk Gg) (tys : List Ty) (vs : List (Val F)) (st : St F) (S : Store)
    (hle : (⟨[isNumT, isNumT], none, none⟩ : BSig).params.length ≤ vs.length)
    (hfix : (⟨[isNumT, isNumT], none, none⟩ : BSig).rest = none → vs.length = (⟨[isNumT, isNumT], none, none⟩ : BSig).params.length)
    (hz : PZ tys S vs) (hpred : ∀ (i : Nat) ta, tys[i]? = some ta → (⟨[isNumT, isNumT], none, none⟩ : BSig).paramAt i ta = true)
    (hk : HeapOk S st.heap) (hgl : GlobalOk S Gg st.global) :
    ∃ r, callBuiltin ops ext (lit "move") vs st = some r ∧ GoodBI Gg (⟨[isNumT, isNumT], none, none⟩ : BSig).ret S st r := by
  simp [callBuiltin, isBuiltin, builtinNames, lit]
  obtain ⟨v1, v2, t1, t2, rfl, rfl, h1, h2⟩ := two_args (hfix rfl) hz
  have := isNumT_eq (hpred 0 t1 rfl); subst this
  have := isNumT_eq (hpred 1 t2 rfl); subst this
  obtain ⟨x, rfl⟩ := h1.num_inv
  obtain ⟨y, rfl⟩ := h2.num_inv
  simp [gfxNums, numArgs]
  exact emit_ok Gg hk hgl _

theorem bi_line (hx : ExtOk ext) (hg : GgOk Gg) (tys : List Ty) (vs : List (Val F)) (st : St F) (S : Store)
    (hle : (⟨[isNumT, isNumT], none, none⟩ : BSig).params.length ≤ vs.length)
    (hfix : (⟨[isNumT, isNumT], none, none⟩ : BSig).rest = none → vs.length = (⟨[isNumT, isNumT], none, none⟩ : BSig).params.length)
    (hz : PZ tys S vs) (hpred : ∀ (i : Nat) ta, tys[i]? = some ta → (⟨[isNumT, isNumT], none, none⟩ : BSig).paramAt i ta = true)
    (hk : HeapOk S st.heap) (hgl : GlobalOk S Gg st.global) :
    ∃ r, callBuiltin ops ext (lit "line") vs st = some r ∧ GoodBI Gg (⟨[isNumT, isNumT], none, none⟩ : BSig).ret S st r := by
  simp [callBuiltin, isBuiltin, builtinNames, lit]
  obtain ⟨v1, v2, t1, t2, rfl, rfl, h1, h2⟩ := two_args (hfix rfl) hz
  have := isNumT_eq (hpred 0 t1 rfl); subst this
  have := isNumT_eq (hpred 1 t2 rfl); subst this
  obtain ⟨x, rfl⟩ := h1.num_inv
  obtain ⟨y, rfl⟩ := h2.num_inv
  simp [gfxNums, numArgs]
  exact emit_ok Gg hk hgl _

theorem bi_rect (hx : ExtOk ext) (hg : GgOk Gg) (tys : List Ty) (vs : List (Val F)) (st : St F) (S : Store)
    (hle : (⟨[isNumT, isNumT], none, none⟩ : BSig).params.length ≤ vs.length)
    (hfix : (⟨[isNumT, isNumT], none, none⟩ : BSig).rest = none → vs.length = (⟨[isNumT, isNumT], none, none⟩ : BSig).params.length)
    (hz : PZ tys S vs) (hpred : ∀ (i : Nat) ta, tys[i]? = some ta → (⟨[isNumT, isNumT], none, none⟩ : BSig).paramAt i ta = true)
    (hk : HeapOk S st.heap) (hgl : GlobalOk S Gg st.global) :
    ∃ r, callBuiltin ops ext (lit "rect") vs st = some r ∧ GoodBI Gg (⟨[isNumT, isNumT], none, none⟩ : BSig).ret S st r := by
  simp [callBuiltin, isBuiltin, builtinNames, lit]
  obtain ⟨v1, v2, t1, t2, rfl, rfl, h1, h2⟩ := two_args (hfix rfl) hz
  have := isNumT_eq (hpred 0 t1 rfl); subst this
  have := isNumT_eq (hpred 1 t2 rfl); subst this
  obtain ⟨x, rfl⟩ := h1.num_inv
  obtain ⟨y, rfl⟩ := h2.num_inv
  simp [gfxNums, numArgs]
  exact emit_ok Gg hk hgl _

theorem bi_circle (hx : ExtOk ext) (hg : GgOk Gg) (tys : List Ty) (vs : List (Val F)) (st : St F) (S : Store)
    (hle : (⟨[isNumT], none, none⟩ : BSig).params.length ≤ vs.length)
    (hfix : (⟨[isNumT], none, none⟩ : BSig).rest = none → vs.length = (⟨[isNumT], none, none⟩ : BSig).params.length)
    (hz : PZ tys S vs) (hpred : ∀ (i : Nat) ta, tys[i]? = some ta → (⟨[isNumT], none, none⟩ : BSig).paramAt i ta = true)
    (hk : HeapOk S st.heap) (hgl : GlobalOk S Gg st.global) :
    ∃ r, callBuiltin ops ext (lit "circle") vs st = some r ∧ GoodBI Gg (⟨[isNumT], none, none⟩ : BSig).ret S st r := by
  simp [callBuiltin, isBuiltin, builtinNames, lit]
  obtain ⟨v, t, rfl, rfl, hv⟩ := one_arg (hfix rfl) hz
  have := isNumT_eq (hpred 0 t rfl); subst this
  obtain ⟨x, rfl⟩ := hv.num_inv
  simp [gfxNums, numArgs]
  exact emit_ok Gg hk hgl _

theorem bi_width (hx : ExtOk ext) (hg : GgOk Gg) (tys : List Ty) (vs : List (Val F)) (st : St F) (S : Store)
    (hle : (⟨[isNumT], none, none⟩ : BSig).params.length ≤ vs.length)
    (hfix : (⟨[isNumT], none, none⟩ : BSig).rest = none → vs.length = (⟨[isNumT], none, none⟩ : BSig).params.length)
    (hz : PZ tys S vs) (hpred : ∀ (i : Nat) ta, tys[i]? = some ta → (⟨[isNumT], none, none⟩ : BSig).paramAt i ta = true)
    (hk : HeapOk S st.heap) (hgl : GlobalOk S Gg st.global) :
    ∃ r, callBuiltin ops ext (lit "width") vs st = some r ∧ GoodBI Gg (⟨[isNumT], none, none⟩ : BSig).ret S st r := by
  simp [callBuiltin, isBuiltin, builtinNames, lit]
  obtain ⟨v, t, rfl, rfl, hv⟩ := one_arg (hfix rfl) hz
  have := isNumT_eq (hpred 0 t rfl); subst this
  obtain ⟨x, rfl⟩ := hv.num_inv
  simp [gfxNums, numArgs]
  exact emit_ok Gg hk hgl _

theorem bi_color (hx : ExtOk ext) (hg : GgOk Gg) (tys : List Ty) (vs : List (Val F)) (st : St F) (S : Store)
    (hle : (⟨[isStrT], none, none⟩ : BSig).params.length ≤ vs.length)
    (hfix : (⟨[isStrT], none, none⟩ : BSig).rest = none → vs.length = (⟨[isStrT], none, none⟩ : BSig).params.length)
    (hz : PZ tys S vs) (hpred : ∀ (i : Nat) ta, tys[i]? = some ta → (⟨[isStrT], none, none⟩ : BSig).paramAt i ta = true)
    (hk : HeapOk S st.heap) (hgl : GlobalOk S Gg st.global) :
    ∃ r, callBuiltin ops ext (lit "color") vs st = some r ∧ GoodBI Gg (⟨[isStrT], none, none⟩ : BSig).ret S st r := by
  simp [callBuiltin, isBuiltin, builtinNames, lit]
  obtain ⟨v, t, rfl, rfl, hv⟩ := one_arg (hfix rfl) hz
  have := isStrT_eq (hpred 0 t rfl); subst this
  obtain ⟨x, rfl⟩ := hv.str_inv
  simp [gfxStr]
  exact emit_ok Gg hk hgl _

theorem bi_colour (hx : ExtOk ext) (hg : GgOk Gg) (tys : List Ty) (vs : List (Val F)) (st : St F) (S : Store)
    (hle : (⟨[isStrT], none, none⟩ : BSig).params.length ≤ vs.length)
    (hfix : (⟨[isStrT], none, none⟩ : BSig).rest = none → vs.length = (⟨[isStrT], none, none⟩ : BSig).params.length)
    (hz : PZ tys S vs) (hpred : ∀ (i : Nat) ta, tys[i]? = some ta → (⟨[isStrT], none, none⟩ : BSig).paramAt i ta = true)
    (hk : HeapOk S st.heap) (hgl : GlobalOk S Gg st.global) :
    ∃ r, callBuiltin ops ext (lit "colour") vs st = some r ∧ GoodBI Gg (⟨[isStrT], none, none⟩ : BSig).ret S st r := by
  simp [callBuiltin, isBuiltin, builtinNames, lit]
  obtain ⟨v, t, rfl, rfl, hv⟩ := one_arg (hfix rfl) hz
  have := isStrT_eq (hpred 0 t rfl); subst this
  obtain ⟨x, rfl⟩ := hv.str_inv
  simp [gfxStr]
  exact emit_ok Gg hk hgl _

theorem bi_stroke (hx : ExtOk ext) (hg : GgOk Gg) (tys : List Ty) (vs : List (Val F)) (st : St F) (S : Store)
    (hle : (⟨[isStrT], none, none⟩ : BSig).params.length ≤ vs.length)
    (hfix : (⟨[isStrT], none, none⟩ : BSig).rest = none → vs.length = (⟨[isStrT], none, none⟩ : BSig).params.length)
    (hz : PZ tys S vs) (hpred : ∀ (i : Nat) ta, tys[i]? = some ta → (⟨[isStrT], none, none⟩ : BSig).paramAt i ta = true)
    (hk : HeapOk S st.heap) (hgl : GlobalOk S Gg st.global) :
    ∃ r, callBuiltin ops ext (lit "stroke") vs st = some r ∧ GoodBI Gg (⟨[isStrT], none, none⟩ : BSig).ret S st r := by
  simp [callBuiltin, isBuiltin, builtinNames, lit]
  obtain ⟨v, t, rfl, rfl, hv⟩ := one_arg (hfix rfl) hz
  have := isStrT_eq (hpred 0 t rfl); subst this
  obtain ⟨x, rfl⟩ := hv.str_inv
  simp [gfxStr]
  exact emit_ok Gg hk hgl _

theorem bi_fill (hx : ExtOk ext) (hg : GgOk Gg) (tys : List Ty) (vs : List (Val F)) (st : St F) (S : Store)
    (hle : (⟨[isStrT], none, none⟩ : BSig).params.length ≤ vs.length)
    (hfix : (⟨[isStrT], none, none⟩ : BSig).rest = none → vs.length = (⟨[isStrT], none, none⟩ : BSig).params.length)
    (hz : PZ tys S vs) (hpred : ∀ (i : Nat) ta, tys[i]? = some ta → (⟨[isStrT], none, none⟩ : BSig).paramAt i ta = true)
    (hk : HeapOk S st.heap) (hgl : GlobalOk S Gg st.global) :
    ∃ r, callBuiltin ops ext (lit "fill") vs st = some r ∧ GoodBI Gg (⟨[isStrT], none, none⟩ : BSig).ret S st r := by
  simp [callBuiltin, isBuiltin, builtinNames, lit]
  obtain ⟨v, t, rfl, rfl, hv⟩ := one_arg (hfix rfl) hz
  have := isStrT_eq (hpred 0 t rfl); subst this
  obtain ⟨x, rfl⟩ := hv.str_inv
  simp [gfxStr]
  exact emit_ok Gg hk hgl _

theorem bi_linecap (hx : ExtOk ext) (hg : GgOk Gg) (tys : List Ty) (vs : List (Val F)) (st : St F) (S : Store)
    (hle : (⟨[isStrT], none, none⟩ : BSig).params.length ≤ vs.length)
    (hfix : (⟨[isStrT], none, none⟩ : BSig).rest = none → vs.length = (⟨[isStrT], none, none⟩ : BSig).params.length)
    (hz : PZ tys S vs) (hpred : ∀ (i : Nat) ta, tys[i]? = some ta → (⟨[isStrT], none, none⟩ : BSig).paramAt i ta = true)
    (hk : HeapOk S st.heap) (hgl : GlobalOk S Gg st.global) :
    ∃ r, callBuiltin ops ext (lit "linecap") vs st = some r ∧ GoodBI Gg (⟨[isStrT], none, none⟩ : BSig).ret S st r := by
  simp [callBuiltin, isBuiltin, builtinNames, lit]
  obtain ⟨v, t, rfl, rfl, hv⟩ := one_arg (hfix rfl) hz
  have := isStrT_eq (hpred 0 t rfl); subst this
  obtain ⟨x, rfl⟩ := hv.str_inv
  simp [gfxStr]
  exact emit_ok Gg hk hgl _

theorem bi_text (hx : ExtOk ext) (hg : GgOk Gg) (tys : List Ty) (vs : List (Val F)) (st : St F) (S : Store)
    (hle : (⟨[isStrT], none, none⟩ : BSig).params.length ≤ vs.length)
    (hfix : (⟨[isStrT], none, none⟩ : BSig).rest = none → vs.length = (⟨[isStrT], none, none⟩ : BSig).params.length)
    (hz : PZ tys S vs) (hpred : ∀ (i : Nat) ta, tys[i]? = some ta → (⟨[isStrT], none, none⟩ : BSig).paramAt i ta = true)
    (hk : HeapOk S st.heap) (hgl : GlobalOk S Gg st.global) :
    ∃ r, callBuiltin ops ext (lit "text") vs st = some r ∧ GoodBI Gg (⟨[isStrT], none, none⟩ : BSig).ret S st r := by
  simp [callBuiltin, isBuiltin, builtinNames, lit]
  obtain ⟨v, t, rfl, rfl, hv⟩ := one_arg (hfix rfl) hz
  have := isStrT_eq (hpred 0 t rfl); subst this
  obtain ⟨x, rfl⟩ := hv.str_inv
  simp [gfxStr]
  exact emit_ok Gg hk hgl _

theorem bi_clear (hx : ExtOk ext) (hg : GgOk Gg) (tys : List Ty) (vs : List (Val F)) (st : St F) (S : Store)
    (hle : (⟨[], some isStrT, none⟩ : BSig).params.length ≤ vs.length)
    (hfix : (⟨[], some isStrT, none⟩ : BSig).rest = none → vs.length = (⟨[], some isStrT, none⟩ : BSig).params.length)
    (hz : PZ tys S vs) (hpred : ∀ (i : Nat) ta, tys[i]? = some ta → (⟨[], some isStrT, none⟩ : BSig).paramAt i ta = true)
    (hk : HeapOk S st.heap) (hgl : GlobalOk S Gg st.global) :
    ∃ r, callBuiltin ops ext (lit "clear") vs st = some r ∧ GoodBI Gg (⟨[], some isStrT, none⟩ : BSig).ret S st r := by
  simp [callBuiltin, isBuiltin, builtinNames, lit]
  have hall := rest_typed hz isStrT (fun i ta h => by simpa [BSig.paramAt] using hpred i ta h)
  match vs, hall with
  | [], _ => exact emit_ok Gg hk hgl _
  | [v], hall =>
    obtain ⟨t, hv, ht⟩ := hall v List.mem_cons_self
    have := isStrT_eq ht; subst this
    obtain ⟨x, rfl⟩ := hv.str_inv
    exact emit_ok Gg hk hgl _
  | _ :: _ :: _, _ => exact (by simp [badArgs, GoodBI, Doc])

theorem bi_grid (hx : ExtOk ext) (hg : GgOk Gg) (tys : List Ty) (vs : List (Val F)) (st : St F) (S : Store)
    (hle : (⟨[], none, none⟩ : BSig).params.length ≤ vs.length)
    (hfix : (⟨[], none, none⟩ : BSig).rest = none → vs.length = (⟨[], none, none⟩ : BSig).params.length)
    (hz : PZ tys S vs) (hpred : ∀ (i : Nat) ta, tys[i]? = some ta → (⟨[], none, none⟩ : BSig).paramAt i ta = true)
    (hk : HeapOk S st.heap) (hgl : GlobalOk S Gg st.global) :
    ∃ r, callBuiltin ops ext (lit "grid") vs st = some r ∧ GoodBI Gg (⟨[], none, none⟩ : BSig).ret S st r := by
  simp [callBuiltin, isBuiltin, builtinNames, lit]
  exact emit_ok Gg hk hgl _

theorem bi_gridn (hx : ExtOk ext) (hg : GgOk Gg) (tys : List Ty) (vs : List (Val F)) (st : St F) (S : Store)
    (hle : (⟨[isNumT, isStrT], none, none⟩ : BSig).params.length ≤ vs.length)
    (hfix : (⟨[isNumT, isStrT], none, none⟩ : BSig).rest = none → vs.length = (⟨[isNumT, isStrT], none, none⟩ : BSig).params.length)
    (hz : PZ tys S vs) (hpred : ∀ (i : Nat) ta, tys[i]? = some ta → (⟨[isNumT, isStrT], none, none⟩ : BSig).paramAt i ta = true)
    (hk : HeapOk S st.heap) (hgl : GlobalOk S Gg st.global) :
    ∃ r, callBuiltin ops ext (lit "gridn") vs st = some r ∧ GoodBI Gg (⟨[isNumT, isStrT], none, none⟩ : BSig).ret S st r := by
  simp [callBuiltin, isBuiltin, builtinNames, lit]
  obtain ⟨v1, v2, t1, t2, rfl, rfl, h1, h2⟩ := two_args (hfix rfl) hz
  have := isNumT_eq (hpred 0 t1 rfl); subst this
  have := isStrT_eq (hpred 1 t2 rfl); subst this
  obtain ⟨x, rfl⟩ := h1.num_inv
  obtain ⟨y, rfl⟩ := h2.str_inv
  simp only
  split
  · exact trivial
  · exact emit_ok Gg hk hgl _

theorem bi_dash (hx : ExtOk ext) (hg : GgOk Gg) (tys : List Ty) (vs : List (Val F)) (st : St F) (S : Store)
    (hle : (⟨[], some isNumT, none⟩ : BSig).params.length ≤ vs.length)
    (hfix : (⟨[], some isNumT, none⟩ : BSig).rest = none → vs.length = (⟨[], some isNumT, none⟩ : BSig).params.length)
    (hz : PZ tys S vs) (hpred : ∀ (i : Nat) ta, tys[i]? = some ta → (⟨[], some isNumT, none⟩ : BSig).paramAt i ta = true)
    (hk : HeapOk S st.heap) (hgl : GlobalOk S Gg st.global) :
    ∃ r, callBuiltin ops ext (lit "dash") vs st = some r ∧ GoodBI Gg (⟨[], some isNumT, none⟩ : BSig).ret S st r := by
  simp [callBuiltin, isBuiltin, builtinNames, lit]
  obtain ⟨ns, hns⟩ := numArgs_typed vs (rest_typed hz isNumT (fun i ta h => by simpa [BSig.paramAt] using hpred i ta h))
  simp only [hns]
  exact emit_ok Gg hk hgl _

theorem bi_ellipse (hx : ExtOk ext) (hg : GgOk Gg) (tys : List Ty) (vs : List (Val F)) (st : St F) (S : Store)
    (hle : (⟨[], some isNumT, none⟩ : BSig).params.length ≤ vs.length)
    (hfix : (⟨[], some isNumT, none⟩ : BSig).rest = none → vs.length = (⟨[], some isNumT, none⟩ : BSig).params.length)
    (hz : PZ tys S vs) (hpred : ∀ (i : Nat) ta, tys[i]? = some ta → (⟨[], some isNumT, none⟩ : BSig).paramAt i ta = true)
    (hk : HeapOk S st.heap) (hgl : GlobalOk S Gg st.global) :
    ∃ r, callBuiltin ops ext (lit "ellipse") vs st = some r ∧ GoodBI Gg (⟨[], some isNumT, none⟩ : BSig).ret S st r := by
  simp [callBuiltin, isBuiltin, builtinNames, lit]
  obtain ⟨ns, hns⟩ := numArgs_typed vs (rest_typed hz isNumT (fun i ta h => by simpa [BSig.paramAt] using hpred i ta h))
  simp only [hns]
  split
  · exact trivial
  · split
    · exact emit_ok Gg hk hgl _
    · exact trivial

theorem bi_hsl (hx : ExtOk ext) (hg : GgOk Gg) (tys : List Ty) (vs : List (Val F)) (st : St F) (S : Store)
    (hle : (⟨[], some isNumT, some .str⟩ : BSig).params.length ≤ vs.length)
    (hfix : (⟨[], some isNumT, some .str⟩ : BSig).rest = none → vs.length = (⟨[], some isNumT, some .str⟩ : BSig).params.length)
    (hz : PZ tys S vs) (hpred : ∀ (i : Nat) ta, tys[i]? = some ta → (⟨[], some isNumT, some .str⟩ : BSig).paramAt i ta = true)
    (hk : HeapOk S st.heap) (hgl : GlobalOk S Gg st.global) :
    ∃ r, callBuiltin ops ext (lit "hsl") vs st = some r ∧ GoodBI Gg (⟨[], some isNumT, some .str⟩ : BSig).ret S st r := by
  simp [callBuiltin, isBuiltin, builtinNames, lit]
  obtain ⟨ns, hns⟩ := numArgs_typed vs (rest_typed hz isNumT (fun i ta h => by simpa [BSig.paramAt] using hpred i ta h))
  simp only [hns]
  split
  · exact trivial
  · split
    · exact forward_str ext Gg hx hk hgl _ (by simp [strFns]) _ _
    · exact trivial

theorem bi_printf (hx : ExtOk ext) (hg : GgOk Gg) (tys : List Ty) (vs : List (Val F)) (st : St F) (S : Store)
    (hle : (⟨[isAnyT], some (fun _ => true), none⟩ : BSig).params.length ≤ vs.length)
    (hfix : (⟨[isAnyT], some (fun _ => true), none⟩ : BSig).rest = none → vs.length = (⟨[isAnyT], some (fun _ => true), none⟩ : BSig).params.length)
    (hz : PZ tys S vs) (hpred : ∀ (i : Nat) ta, tys[i]? = some ta → (⟨[isAnyT], some (fun _ => true), none⟩ : BSig).paramAt i ta = true)
    (hk : HeapOk S st.heap) (hgl : GlobalOk S Gg st.global) :
    ∃ r, callBuiltin ops ext (lit "printf") vs st = some r ∧ GoodBI Gg (⟨[isAnyT], some (fun _ => true), none⟩ : BSig).ret S st r := by
  simp [callBuiltin, isBuiltin, builtinNames, lit]
  obtain ⟨hlen, hp⟩ := hz
  match vs, tys, hle, hlen, hp, hpred with
  | v :: rest, t :: ts, _, _, hp, hpred =>
    have hv : VT S v t := hp 0 v t rfl rfl
    have := isAnyT_eq (hpred 0 t rfl); subst this
    obtain ⟨t', w, rfl, _, hw⟩ := hv.any_inv
    cases hw with
    | str f =>
      simp only
      cases unwrapAll ops st rest with
      | none => exact trivial
      | some xs =>
        simp only [callExt]
        cases ext.call "sprintf" (XArg.str f :: xs) with
        | some r => exact ⟨S, Grows.refl S, hk, hgl, rfl, by intro t ht; cases ht⟩
        | none => exact ⟨S, Grows.refl S, hk, hgl, rfl, by intro t ht; cases ht⟩
    | num x => exact trivial
    | bool x => exact trivial
    | any t1 v1 hne h1 => exact trivial
    | arr a s ha => exact trivial
    | map a s ha => exact trivial

theorem bi_sprintf (hx : ExtOk ext) (hg : GgOk Gg) (tys : List Ty) (vs : List (Val F)) (st : St F) (S : Store)
    (hle : (⟨[isAnyT], some (fun _ => true), some .str⟩ : BSig).params.length ≤ vs.length)
    (hfix : (⟨[isAnyT], some (fun _ => true), some .str⟩ : BSig).rest = none → vs.length = (⟨[isAnyT], some (fun _ => true), some .str⟩ : BSig).params.length)
    (hz : PZ tys S vs) (hpred : ∀ (i : Nat) ta, tys[i]? = some ta → (⟨[isAnyT], some (fun _ => true), some .str⟩ : BSig).paramAt i ta = true)
    (hk : HeapOk S st.heap) (hgl : GlobalOk S Gg st.global) :
    ∃ r, callBuiltin ops ext (lit "sprintf") vs st = some r ∧ GoodBI Gg (⟨[isAnyT], some (fun _ => true), some .str⟩ : BSig).ret S st r := by
  simp [callBuiltin, isBuiltin, builtinNames, lit]
  obtain ⟨hlen, hp⟩ := hz
  match vs, tys, hle, hlen, hp, hpred with
  | v :: rest, t :: ts, _, _, hp, hpred =>
    have hv : VT S v t := hp 0 v t rfl rfl
    have := isAnyT_eq (hpred 0 t rfl); subst this
    obtain ⟨t', w, rfl, _, hw⟩ := hv.any_inv
    cases hw with
    | str f =>
      simp only
      cases unwrapAll ops st rest with
      | none => exact trivial
      | some xs =>
        simp only [callExt]
        cases ext.call "sprintf" (XArg.str f :: xs) with
        | some r => exact ⟨S, Grows.refl S, hk, hgl, rfl, fun t ht => by cases ht; exact .str _⟩
        | none => exact ⟨S, Grows.refl S, hk, hgl, rfl, fun t ht => by cases ht; exact .str _⟩
    | num x => exact trivial
    | bool x => exact trivial
    | any t1 v1 hne h1 => exact trivial
    | arr a s ha => exact trivial
    | map a s ha => exact trivial

theorem bi_repr (hx : ExtOk ext) (hg : GgOk Gg) (tys : List Ty) (vs : List (Val F)) (st : St F) (S : Store)
    (hle : (⟨[], some (fun _ => true), some .str⟩ : BSig).params.length ≤ vs.length)
    (hfix : (⟨[], some (fun _ => true), some .str⟩ : BSig).rest = none → vs.length = (⟨[], some (fun _ => true), some .str⟩ : BSig).params.length)
    (hz : PZ tys S vs) (hpred : ∀ (i : Nat) ta, tys[i]? = some ta → (⟨[], some (fun _ => true), some .str⟩ : BSig).paramAt i ta = true)
    (hk : HeapOk S st.heap) (hgl : GlobalOk S Gg st.global) :
    ∃ r, callBuiltin ops ext (lit "repr") vs st = some r ∧ GoodBI Gg (⟨[], some (fun _ => true), some .str⟩ : BSig).ret S st r := by
  simp [callBuiltin, isBuiltin, builtinNames, lit]
  cases reprList ops ext st.heap (auxFuel st) vs with
  | none => exact trivial
  | some r => obtain ⟨l, ms⟩ := r; exact ⟨S, Grows.refl S, hk, hgl, rfl, fun t ht => by cases ht; exact .str _⟩

theorem bi_split (hx : ExtOk ext) (hg : GgOk Gg) (tys : List Ty) (vs : List (Val F)) (st : St F) (S : Store)
    (hle : (⟨[isStrT, isStrT], none, some (.arr .str)⟩ : BSig).params.length ≤ vs.length)
    (hfix : (⟨[isStrT, isStrT], none, some (.arr .str)⟩ : BSig).rest = none → vs.length = (⟨[isStrT, isStrT], none, some (.arr .str)⟩ : BSig).params.length)
    (hz : PZ tys S vs) (hpred : ∀ (i : Nat) ta, tys[i]? = some ta → (⟨[isStrT, isStrT], none, some (.arr .str)⟩ : BSig).paramAt i ta = true)
    (hk : HeapOk S st.heap) (hgl : GlobalOk S Gg st.global) :
    ∃ r, callBuiltin ops ext (lit "split") vs st = some r ∧ GoodBI Gg (⟨[isStrT, isStrT], none, some (.arr .str)⟩ : BSig).ret S st r := by
  simp [callBuiltin, isBuiltin, builtinNames, lit]
  obtain ⟨v1, v2, t1, t2, rfl, rfl, h1, h2⟩ := two_args (hfix rfl) hz
  have := isStrT_eq (hpred 0 t1 rfl); subst this
  have := isStrT_eq (hpred 1 t2 rfl); subst this
  obtain ⟨x, rfl⟩ := h1.str_inv
  obtain ⟨y, rfl⟩ := h2.str_inv
  have fin : ∀ (l : List Str) (st1 : St F), st1.heap = st.heap → st1.global = st.global → st1.locals = st.locals →
      GoodBI Gg (some (.arr .str)) S st (.ok (Val.arr (alloc st1 (.arr (l.map Val.str))).1) (alloc st1 (.arr (l.map Val.str))).2) := by
    intro l st1 e1 e2 e3
    have hk1 : HeapOk S st1.heap := by rw [e1]; exact hk
    obtain ⟨hk', vt⟩ := hk1.push_arr .str rfl (l.map Val.str) (by intro v hv; obtain ⟨z, _, rfl⟩ := List.mem_map.mp hv; exact .str z)
    exact ⟨_, Grows.snoc S _, hk', by simp only [alloc, e2]; exact hgl.mono (Grows.snoc S _), by simp only [alloc, e3], fun t ht => by cases ht; exact vt⟩
  exact fin (strSplit x y) st rfl rfl rfl

theorem bi_rand (hx : ExtOk ext) (hg : GgOk Gg) (tys : List Ty) (vs : List (Val F)) (st : St F) (S : Store)
    (hle : (⟨[isNumT], none, some .num⟩ : BSig).params.length ≤ vs.length)
    (hfix : (⟨[isNumT], none, some .num⟩ : BSig).rest = none → vs.length = (⟨[isNumT], none, some .num⟩ : BSig).params.length)
    (hz : PZ tys S vs) (hpred : ∀ (i : Nat) ta, tys[i]? = some ta → (⟨[isNumT], none, some .num⟩ : BSig).paramAt i ta = true)
    (hk : HeapOk S st.heap) (hgl : GlobalOk S Gg st.global) :
    ∃ r, callBuiltin ops ext (lit "rand") vs st = some r ∧ GoodBI Gg (⟨[isNumT], none, some .num⟩ : BSig).ret S st r := by
  simp [callBuiltin, isBuiltin, builtinNames, lit]
  obtain ⟨v, t, rfl, rfl, hv⟩ := one_arg (hfix rfl) hz
  have := isNumT_eq (hpred 0 t rfl); subst this
  obtain ⟨u, rfl⟩ := hv.num_inv
  simp only
  split
  · exact trivial
  · simp only [callExt]
    cases hc : ext.call "rand" (st.randLog ++ [XArg.num u]) with
    | none => exact ⟨S, Grows.refl S, hk, hgl, rfl, fun t ht => by cases ht; exact .num _⟩
    | some r =>
      obtain ⟨w, rfl⟩ := hx.1 "rand" (by simp [numFns]) _ _ hc
      exact ⟨S, Grows.refl S, hk, hgl, rfl, fun t ht => by cases ht; exact .num _⟩

theorem bi_rand1 (hx : ExtOk ext) (hg : GgOk Gg) (tys : List Ty) (vs : List (Val F)) (st : St F) (S : Store)
    (hle : (⟨[], none, some .num⟩ : BSig).params.length ≤ vs.length)
    (hfix : (⟨[], none, some .num⟩ : BSig).rest = none → vs.length = (⟨[], none, some .num⟩ : BSig).params.length)
    (hz : PZ tys S vs) (hpred : ∀ (i : Nat) ta, tys[i]? = some ta → (⟨[], none, some .num⟩ : BSig).paramAt i ta = true)
    (hk : HeapOk S st.heap) (hgl : GlobalOk S Gg st.global) :
    ∃ r, callBuiltin ops ext (lit "rand1") vs st = some r ∧ GoodBI Gg (⟨[], none, some .num⟩ : BSig).ret S st r := by
  simp [callBuiltin, isBuiltin, builtinNames, lit]
  simp only [callExt]
  cases hc : ext.call "rand" (st.randLog ++ [XArg.bool true]) with
  | none => exact ⟨S, Grows.refl S, hk, hgl, rfl, fun t ht => by cases ht; exact .num _⟩
  | some r =>
    obtain ⟨w, rfl⟩ := hx.1 "rand" (by simp [numFns]) _ _ hc
    exact ⟨S, Grows.refl S, hk, hgl, rfl, fun t ht => by cases ht; exact .num _⟩

theorem verts_typed {S : Store} {st : St F} (hk : HeapOk S st.heap) : ∀ (vs : List (Val F)),
    (∀ v ∈ vs, VT S v (.arr .num)) →
    (∃ l, callBuiltin.verts st vs = .ok l) ∨ callBuiltin.verts st vs = .error (.panic .badArgs) := by
  intro vs
  induction vs with
  | nil => intro _; left; exact ⟨[], by simp [callBuiltin.verts]⟩
  | cons v rest ih =>
    intro h
    obtain ⟨a, rfl, ha⟩ := (h v List.mem_cons_self).arr_inv
    obtain ⟨es, he, hes⟩ := hk.arr a .num ha
    have ihr := ih (fun w hw => h w (List.mem_cons_of_mem _ hw))
    simp only [callBuiltin.verts, heapGet, he]
    match es, hes with
    | [], _ => right; simp
    | [x], _ => right; simp
    | [x, y], hes =>
      obtain ⟨x', rfl⟩ := (hes x (by simp)).num_inv
      obtain ⟨y', rfl⟩ := (hes y (by simp)).num_inv
      simp only
      rcases ihr with ⟨l, hl⟩ | hl
      · left; exact ⟨x' :: y' :: l, by simp [hl, Except.map]⟩
      · right; simp [hl, Except.map]
    | _ :: _ :: _ :: _, _ => right; simp

theorem bi_poly (hx : ExtOk ext) (hg : GgOk Gg) (tys : List Ty) (vs : List (Val F)) (st : St F) (S : Store)
    (hz : PZ tys S vs) (hpred : ∀ (i : Nat) ta, tys[i]? = some ta → (⟨[], some (fun t => decide (t = .arr .num)), none⟩ : BSig).paramAt i ta = true)
    (hk : HeapOk S st.heap) (hgl : GlobalOk S Gg st.global) :
    ∃ r, callBuiltin ops ext (lit "poly") vs st = some r ∧ GoodBI Gg none S st r := by
  simp [callBuiltin, isBuiltin, builtinNames, lit]
  have hall : ∀ v ∈ vs, VT S v (.arr .num) := by
    intro v hv
    obtain ⟨t, h1, h2⟩ := rest_typed hz (fun t => decide (t = .arr .num)) (fun i ta h => by simpa [BSig.paramAt] using hpred i ta h) v hv
    have : t = .arr .num := by simpa using h2
    subst this; exact h1
  rcases verts_typed hk vs hall with ⟨l, hl⟩ | hl
  · simp only [hl]; exact emit_ok Gg hk hgl _
  · simp only [hl]; exact trivial

theorem fontProps_typed {S : Store} (m : MapVal (Val F)) (hm : ∀ p ∈ m.pairs, VT S p.2 .any) :
    (∃ props, fontProps ops m = .ok props) ∨ fontProps ops m = .error (.panic .badArgs) := by
  simp only [fontProps]
  split
  · rename_i h
    rw [List.any_eq_true] at h
    obtain ⟨p, hp, hpp⟩ := h
    obtain ⟨t, w, hw, _, _⟩ := (hm p hp).any_inv
    simp [hw] at hpp
  · split
    · right; rfl
    · left; exact ⟨_, rfl⟩

theorem bi_font (hx : ExtOk ext) (hg : GgOk Gg) (tys : List Ty) (vs : List (Val F)) (st : St F) (S : Store)
    (hfix : vs.length = 1)
    (hz : PZ tys S vs) (hpred : ∀ (i : Nat) ta, tys[i]? = some ta → (⟨[fun t => decide (t = .map .any)], none, none⟩ : BSig).paramAt i ta = true)
    (hk : HeapOk S st.heap) (hgl : GlobalOk S Gg st.global) :
    ∃ r, callBuiltin ops ext (lit "font") vs st = some r ∧ GoodBI Gg none S st r := by
  simp [callBuiltin, isBuiltin, builtinNames, lit]
  obtain ⟨v, t, rfl, rfl, hv⟩ := one_arg hfix hz
  have : t = .map .any := by simpa [BSig.paramAt] using hpred 0 t rfl
  subst this
  obtain ⟨a, rfl, ha⟩ := hv.map_inv
  obtain ⟨m, he, hm⟩ := hk.map a .any ha
  simp only [heapGet, he]
  rcases fontProps_typed ops m hm with ⟨props, hp⟩ | hp
  · simp only [hp]; exact emit_ok Gg hk hgl _
  · simp only [hp]; exact trivial

/-- **the built-ins of the typed fragment on well-typed arguments** -/
theorem builtin_ok (hx : ExtOk ext) (hg : GgOk Gg) (name : Str) (sig : BSig) (tys : List Ty) (vs : List (Val F)) (st : St F) (S : Store)
    (hs : builtinSig name = some sig) (hle : sig.params.length ≤ vs.length) (hfix : sig.rest = none → vs.length = sig.params.length)
    (hz : PZ tys S vs) (hpred : ∀ (i : Nat) ta, tys[i]? = some ta → sig.paramAt i ta = true)
    (hk : HeapOk S st.heap) (hgl : GlobalOk S Gg st.global) :
    String.ofList name ≠ "test" ∧ ∃ r, callBuiltin ops ext name vs st = some r ∧ GoodBI Gg sig.ret S st r := by
  by_cases hn_len : name = lit "len"
  · have hs' : sig = ⟨[isAnyT], none, some .num⟩ := by simp [builtinSig, hn_len, lit] at hs; exact hs.symm
    subst hs'; subst hn_len
    exact ⟨by decide, bi_len ops ext Gg hx hg tys vs st S hle hfix hz hpred hk hgl⟩
  by_cases hn_typeof : name = lit "typeof"
  · have hs' : sig = ⟨[isAnyT], none, some .str⟩ := by simp [builtinSig, hn_typeof, lit] at hs; exact hs.symm
    subst hs'; subst hn_typeof
    exact ⟨by decide, bi_typeof ops ext Gg hx hg tys vs st S hle hfix hz hpred hk hgl⟩
  by_cases hn_has : name = lit "has"
  · have hs' : sig = ⟨[isMapT, isStrT], none, some .bool⟩ := by simp [builtinSig, hn_has, lit] at hs; exact hs.symm
    subst hs'; subst hn_has
    exact ⟨by decide, bi_has ops ext Gg hx hg tys vs st S hle hfix hz hpred hk hgl⟩
  by_cases hn_del : name = lit "del"
  · have hs' : sig = ⟨[isMapT, isStrT], none, none⟩ := by simp [builtinSig, hn_del, lit] at hs; exact hs.symm
    subst hs'; subst hn_del
    exact ⟨by decide, bi_del ops ext Gg hx hg tys vs st S hle hfix hz hpred hk hgl⟩
  by_cases hn_str2bool : name = lit "str2bool"
  · have hs' : sig = ⟨[isStrT], none, some .bool⟩ := by simp [builtinSig, hn_str2bool, lit] at hs; exact hs.symm
    subst hs'; subst hn_str2bool
    exact ⟨by decide, bi_str2bool ops ext Gg hx hg tys vs st S hle hfix hz hpred hk hgl⟩
  by_cases hn_sprint : name = lit "sprint"
  · have hs' : sig = ⟨[], some (fun _ => true), some .str⟩ := by simp [builtinSig, hn_sprint, lit] at hs; exact hs.symm
    subst hs'; subst hn_sprint
    exact ⟨by decide, bi_sprint ops ext Gg hx hg tys vs st S hle hfix hz hpred hk hgl⟩
  by_cases hn_join : name = lit "join"
  · have hs' : sig = ⟨[isArrT, isStrT], none, some .str⟩ := by simp [builtinSig, hn_join, lit] at hs; exact hs.symm
    subst hs'; subst hn_join
    exact ⟨by decide, bi_join ops ext Gg hx hg tys vs st S hle hfix hz hpred hk hgl⟩
  by_cases hn_startswith : name = lit "startswith"
  · have hs' : sig = ⟨[isStrT, isStrT], none, some .bool⟩ := by simp [builtinSig, hn_startswith, lit] at hs; exact hs.symm
    subst hs'; subst hn_startswith
    exact ⟨by decide, bi_startswith ops ext Gg hx hg tys vs st S hle hfix hz hpred hk hgl⟩
  by_cases hn_endswith : name = lit "endswith"
  · have hs' : sig = ⟨[isStrT, isStrT], none, some .bool⟩ := by simp [builtinSig, hn_endswith, lit] at hs; exact hs.symm
    subst hs'; subst hn_endswith
    exact ⟨by decide, bi_endswith ops ext Gg hx hg tys vs st S hle hfix hz hpred hk hgl⟩
  by_cases hn_index : name = lit "index"
  · have hs' : sig = ⟨[isStrT, isStrT], none, some .num⟩ := by simp [builtinSig, hn_index, lit] at hs; exact hs.symm
    subst hs'; subst hn_index
    exact ⟨by decide, bi_index ops ext Gg hx hg tys vs st S hle hfix hz hpred hk hgl⟩
  by_cases hn_exit : name = lit "exit"
  · have hs' : sig = ⟨[isNumT], none, none⟩ := by simp [builtinSig, hn_exit, lit] at hs; exact hs.symm
    subst hs'; subst hn_exit
    exact ⟨by decide, bi_exit ops ext Gg hx hg tys vs st S hle hfix hz hpred hk hgl⟩
  by_cases hn_panic : name = lit "panic"
  · have hs' : sig = ⟨[isStrT], none, none⟩ := by simp [builtinSig, hn_panic, lit] at hs; exact hs.symm
    subst hs'; subst hn_panic
    exact ⟨by decide, bi_panic ops ext Gg hx hg tys vs st S hle hfix hz hpred hk hgl⟩
  by_cases hn_sleep : name = lit "sleep"
  · have hs' : sig = ⟨[isNumT], none, none⟩ := by simp [builtinSig, hn_sleep, lit] at hs; exact hs.symm
    subst hs'; subst hn_sleep
    exact ⟨by decide, bi_sleep ops ext Gg hx hg tys vs st S hle hfix hz hpred hk hgl⟩
  by_cases hn_cls : name = lit "cls"
  · have hs' : sig = ⟨[], none, none⟩ := by simp [builtinSig, hn_cls, lit] at hs; exact hs.symm
    subst hs'; subst hn_cls
    exact ⟨by decide, bi_cls ops ext Gg hx hg tys vs st S hle hfix hz hpred hk hgl⟩
  by_cases hn_read : name = lit "read"
  · have hs' : sig = ⟨[], none, some .str⟩ := by simp [builtinSig, hn_read, lit] at hs; exact hs.symm
    subst hs'; subst hn_read
    exact ⟨by decide, bi_read ops ext Gg hx hg tys vs st S hle hfix hz hpred hk hgl⟩
  by_cases hn_abs : name = lit "abs"
  · have hs' : sig = ⟨[isNumT], none, some .num⟩ := by simp [builtinSig, hn_abs, lit] at hs; exact hs.symm
    subst hs'; subst hn_abs
    exact ⟨by decide, bi_abs ops ext Gg hx hg tys vs st S hle hfix hz hpred hk hgl⟩
  by_cases hn_floor : name = lit "floor"
  · have hs' : sig = ⟨[isNumT], none, some .num⟩ := by simp [builtinSig, hn_floor, lit] at hs; exact hs.symm
    subst hs'; subst hn_floor
    exact ⟨by decide, bi_floor ops ext Gg hx hg tys vs st S hle hfix hz hpred hk hgl⟩
  by_cases hn_ceil : name = lit "ceil"
  · have hs' : sig = ⟨[isNumT], none, some .num⟩ := by simp [builtinSig, hn_ceil, lit] at hs; exact hs.symm
    subst hs'; subst hn_ceil
    exact ⟨by decide, bi_ceil ops ext Gg hx hg tys vs st S hle hfix hz hpred hk hgl⟩
  by_cases hn_round : name = lit "round"
  · have hs' : sig = ⟨[isNumT], none, some .num⟩ := by simp [builtinSig, hn_round, lit] at hs; exact hs.symm
    subst hs'; subst hn_round
    exact ⟨by decide, bi_round ops ext Gg hx hg tys vs st S hle hfix hz hpred hk hgl⟩
  by_cases hn_log : name = lit "log"
  · have hs' : sig = ⟨[isNumT], none, some .num⟩ := by simp [builtinSig, hn_log, lit] at hs; exact hs.symm
    subst hs'; subst hn_log
    exact ⟨by decide, bi_log ops ext Gg hx hg tys vs st S hle hfix hz hpred hk hgl⟩
  by_cases hn_sqrt : name = lit "sqrt"
  · have hs' : sig = ⟨[isNumT], none, some .num⟩ := by simp [builtinSig, hn_sqrt, lit] at hs; exact hs.symm
    subst hs'; subst hn_sqrt
    exact ⟨by decide, bi_sqrt ops ext Gg hx hg tys vs st S hle hfix hz hpred hk hgl⟩
  by_cases hn_sin : name = lit "sin"
  · have hs' : sig = ⟨[isNumT], none, some .num⟩ := by simp [builtinSig, hn_sin, lit] at hs; exact hs.symm
    subst hs'; subst hn_sin
    exact ⟨by decide, bi_sin ops ext Gg hx hg tys vs st S hle hfix hz hpred hk hgl⟩
  by_cases hn_cos : name = lit "cos"
  · have hs' : sig = ⟨[isNumT], none, some .num⟩ := by simp [builtinSig, hn_cos, lit] at hs; exact hs.symm
    subst hs'; subst hn_cos
    exact ⟨by decide, bi_cos ops ext Gg hx hg tys vs st S hle hfix hz hpred hk hgl⟩
  by_cases hn_min : name = lit "min"
  · have hs' : sig = ⟨[isNumT, isNumT], none, some .num⟩ := by simp [builtinSig, hn_min, lit] at hs; exact hs.symm
    subst hs'; subst hn_min
    exact ⟨by decide, bi_min ops ext Gg hx hg tys vs st S hle hfix hz hpred hk hgl⟩
  by_cases hn_max : name = lit "max"
  · have hs' : sig = ⟨[isNumT, isNumT], none, some .num⟩ := by simp [builtinSig, hn_max, lit] at hs; exact hs.symm
    subst hs'; subst hn_max
    exact ⟨by decide, bi_max ops ext Gg hx hg tys vs st S hle hfix hz hpred hk hgl⟩
  by_cases hn_pow : name = lit "pow"
  · have hs' : sig = ⟨[isNumT, isNumT], none, some .num⟩ := by simp [builtinSig, hn_pow, lit] at hs; exact hs.symm
    subst hs'; subst hn_pow
    exact ⟨by decide, bi_pow ops ext Gg hx hg tys vs st S hle hfix hz hpred hk hgl⟩
  by_cases hn_atan2 : name = lit "atan2"
  · have hs' : sig = ⟨[isNumT, isNumT], none, some .num⟩ := by simp [builtinSig, hn_atan2, lit] at hs; exact hs.symm
    subst hs'; subst hn_atan2
    exact ⟨by decide, bi_atan2 ops ext Gg hx hg tys vs st S hle hfix hz hpred hk hgl⟩
  by_cases hn_upper : name = lit "upper"
  · have hs' : sig = ⟨[isStrT], none, some .str⟩ := by simp [builtinSig, hn_upper, lit] at hs; exact hs.symm
    subst hs'; subst hn_upper
    exact ⟨by decide, bi_upper ops ext Gg hx hg tys vs st S hle hfix hz hpred hk hgl⟩
  by_cases hn_lower : name = lit "lower"
  · have hs' : sig = ⟨[isStrT], none, some .str⟩ := by simp [builtinSig, hn_lower, lit] at hs; exact hs.symm
    subst hs'; subst hn_lower
    exact ⟨by decide, bi_lower ops ext Gg hx hg tys vs st S hle hfix hz hpred hk hgl⟩
  by_cases hn_trim : name = lit "trim"
  · have hs' : sig = ⟨[isStrT, isStrT], none, some .str⟩ := by simp [builtinSig, hn_trim, lit] at hs; exact hs.symm
    subst hs'; subst hn_trim
    exact ⟨by decide, bi_trim ops ext Gg hx hg tys vs st S hle hfix hz hpred hk hgl⟩
  by_cases hn_replace : name = lit "replace"
  · have hs' : sig = ⟨[isStrT, isStrT, isStrT], none, some .str⟩ := by simp [builtinSig, hn_replace, lit] at hs; exact hs.symm
    subst hs'; subst hn_replace
    exact ⟨by decide, bi_replace ops ext Gg hx hg tys vs st S hle hfix hz hpred hk hgl⟩
  by_cases hn_str2num : name = lit "str2num"
  · have hs' : sig = ⟨[isStrT], none, some .num⟩ := by simp [builtinSig, hn_str2num, lit] at hs; exact hs.symm
    subst hs'; subst hn_str2num
    exact ⟨by decide, bi_str2num ops ext Gg hx hg tys vs st S hle hfix hz hpred hk hgl⟩
  by_cases hn_move : name = lit "move"
  · have hs' : sig = ⟨[isNumT, isNumT], none, none⟩ := by simp [builtinSig, hn_move, lit] at hs; exact hs.symm
    subst hs'; subst hn_move
    exact ⟨by decide, bi_move ops ext Gg hx hg tys vs st S hle hfix hz hpred hk hgl⟩
  by_cases hn_line : name = lit "line"
  · have hs' : sig = ⟨[isNumT, isNumT], none, none⟩ := by simp [builtinSig, hn_line, lit] at hs; exact hs.symm
    subst hs'; subst hn_line
    exact ⟨by decide, bi_line ops ext Gg hx hg tys vs st S hle hfix hz hpred hk hgl⟩
  by_cases hn_rect : name = lit "rect"
  · have hs' : sig = ⟨[isNumT, isNumT], none, none⟩ := by simp [builtinSig, hn_rect, lit] at hs; exact hs.symm
    subst hs'; subst hn_rect
    exact ⟨by decide, bi_rect ops ext Gg hx hg tys vs st S hle hfix hz hpred hk hgl⟩
  by_cases hn_circle : name = lit "circle"
  · have hs' : sig = ⟨[isNumT], none, none⟩ := by simp [builtinSig, hn_circle, lit] at hs; exact hs.symm
    subst hs'; subst hn_circle
    exact ⟨by decide, bi_circle ops ext Gg hx hg tys vs st S hle hfix hz hpred hk hgl⟩
  by_cases hn_width : name = lit "width"
  · have hs' : sig = ⟨[isNumT], none, none⟩ := by simp [builtinSig, hn_width, lit] at hs; exact hs.symm
    subst hs'; subst hn_width
    exact ⟨by decide, bi_width ops ext Gg hx hg tys vs st S hle hfix hz hpred hk hgl⟩
  by_cases hn_color : name = lit "color"
  · have hs' : sig = ⟨[isStrT], none, none⟩ := by simp [builtinSig, hn_color, lit] at hs; exact hs.symm
    subst hs'; subst hn_color
    exact ⟨by decide, bi_color ops ext Gg hx hg tys vs st S hle hfix hz hpred hk hgl⟩
  by_cases hn_colour : name = lit "colour"
  · have hs' : sig = ⟨[isStrT], none, none⟩ := by simp [builtinSig, hn_colour, lit] at hs; exact hs.symm
    subst hs'; subst hn_colour
    exact ⟨by decide, bi_colour ops ext Gg hx hg tys vs st S hle hfix hz hpred hk hgl⟩
  by_cases hn_stroke : name = lit "stroke"
  · have hs' : sig = ⟨[isStrT], none, none⟩ := by simp [builtinSig, hn_stroke, lit] at hs; exact hs.symm
    subst hs'; subst hn_stroke
    exact ⟨by decide, bi_stroke ops ext Gg hx hg tys vs st S hle hfix hz hpred hk hgl⟩
  by_cases hn_fill : name = lit "fill"
  · have hs' : sig = ⟨[isStrT], none, none⟩ := by simp [builtinSig, hn_fill, lit] at hs; exact hs.symm
    subst hs'; subst hn_fill
    exact ⟨by decide, bi_fill ops ext Gg hx hg tys vs st S hle hfix hz hpred hk hgl⟩
  by_cases hn_linecap : name = lit "linecap"
  · have hs' : sig = ⟨[isStrT], none, none⟩ := by simp [builtinSig, hn_linecap, lit] at hs; exact hs.symm
    subst hs'; subst hn_linecap
    exact ⟨by decide, bi_linecap ops ext Gg hx hg tys vs st S hle hfix hz hpred hk hgl⟩
  by_cases hn_text : name = lit "text"
  · have hs' : sig = ⟨[isStrT], none, none⟩ := by simp [builtinSig, hn_text, lit] at hs; exact hs.symm
    subst hs'; subst hn_text
    exact ⟨by decide, bi_text ops ext Gg hx hg tys vs st S hle hfix hz hpred hk hgl⟩
  by_cases hn_clear : name = lit "clear"
  · have hs' : sig = ⟨[], some isStrT, none⟩ := by simp [builtinSig, hn_clear, lit] at hs; exact hs.symm
    subst hs'; subst hn_clear
    exact ⟨by decide, bi_clear ops ext Gg hx hg tys vs st S hle hfix hz hpred hk hgl⟩
  by_cases hn_grid : name = lit "grid"
  · have hs' : sig = ⟨[], none, none⟩ := by simp [builtinSig, hn_grid, lit] at hs; exact hs.symm
    subst hs'; subst hn_grid
    exact ⟨by decide, bi_grid ops ext Gg hx hg tys vs st S hle hfix hz hpred hk hgl⟩
  by_cases hn_gridn : name = lit "gridn"
  · have hs' : sig = ⟨[isNumT, isStrT], none, none⟩ := by simp [builtinSig, hn_gridn, lit] at hs; exact hs.symm
    subst hs'; subst hn_gridn
    exact ⟨by decide, bi_gridn ops ext Gg hx hg tys vs st S hle hfix hz hpred hk hgl⟩
  by_cases hn_dash : name = lit "dash"
  · have hs' : sig = ⟨[], some isNumT, none⟩ := by simp [builtinSig, hn_dash, lit] at hs; exact hs.symm
    subst hs'; subst hn_dash
    exact ⟨by decide, bi_dash ops ext Gg hx hg tys vs st S hle hfix hz hpred hk hgl⟩
  by_cases hn_ellipse : name = lit "ellipse"
  · have hs' : sig = ⟨[], some isNumT, none⟩ := by simp [builtinSig, hn_ellipse, lit] at hs; exact hs.symm
    subst hs'; subst hn_ellipse
    exact ⟨by decide, bi_ellipse ops ext Gg hx hg tys vs st S hle hfix hz hpred hk hgl⟩
  by_cases hn_hsl : name = lit "hsl"
  · have hs' : sig = ⟨[], some isNumT, some .str⟩ := by simp [builtinSig, hn_hsl, lit] at hs; exact hs.symm
    subst hs'; subst hn_hsl
    exact ⟨by decide, bi_hsl ops ext Gg hx hg tys vs st S hle hfix hz hpred hk hgl⟩
  by_cases hn_poly : name = lit "poly"
  · have hs' : sig = ⟨[], some (fun t => decide (t = .arr .num)), none⟩ := by simp [builtinSig, hn_poly, lit] at hs; exact hs.symm
    subst hs'; subst hn_poly
    exact ⟨by decide, bi_poly ops ext Gg hx hg tys vs st S hz hpred hk hgl⟩
  by_cases hn_font : name = lit "font"
  · have hs' : sig = ⟨[fun t => decide (t = .map .any)], none, none⟩ := by simp [builtinSig, hn_font, lit] at hs; exact hs.symm
    subst hs'; subst hn_font
    exact ⟨by decide, bi_font ops ext Gg hx hg tys vs st S (hfix rfl) hz hpred hk hgl⟩
  by_cases hn_printf : name = lit "printf"
  · have hs' : sig = ⟨[isAnyT], some (fun _ => true), none⟩ := by simp [builtinSig, hn_printf, lit] at hs; exact hs.symm
    subst hs'; subst hn_printf
    exact ⟨by decide, bi_printf ops ext Gg hx hg tys vs st S hle hfix hz hpred hk hgl⟩
  by_cases hn_sprintf : name = lit "sprintf"
  · have hs' : sig = ⟨[isAnyT], some (fun _ => true), some .str⟩ := by simp [builtinSig, hn_sprintf, lit] at hs; exact hs.symm
    subst hs'; subst hn_sprintf
    exact ⟨by decide, bi_sprintf ops ext Gg hx hg tys vs st S hle hfix hz hpred hk hgl⟩
  by_cases hn_repr : name = lit "repr"
  · have hs' : sig = ⟨[], some (fun _ => true), some .str⟩ := by simp [builtinSig, hn_repr, lit] at hs; exact hs.symm
    subst hs'; subst hn_repr
    exact ⟨by decide, bi_repr ops ext Gg hx hg tys vs st S hle hfix hz hpred hk hgl⟩
  by_cases hn_split : name = lit "split"
  · have hs' : sig = ⟨[isStrT, isStrT], none, some (.arr .str)⟩ := by simp [builtinSig, hn_split, lit] at hs; exact hs.symm
    subst hs'; subst hn_split
    exact ⟨by decide, bi_split ops ext Gg hx hg tys vs st S hle hfix hz hpred hk hgl⟩
  by_cases hn_rand : name = lit "rand"
  · have hs' : sig = ⟨[isNumT], none, some .num⟩ := by simp [builtinSig, hn_rand, lit] at hs; exact hs.symm
    subst hs'; subst hn_rand
    exact ⟨by decide, bi_rand ops ext Gg hx hg tys vs st S hle hfix hz hpred hk hgl⟩
  by_cases hn_rand1 : name = lit "rand1"
  · have hs' : sig = ⟨[], none, some .num⟩ := by simp [builtinSig, hn_rand1, lit] at hs; exact hs.symm
    subst hs'; subst hn_rand1
    exact ⟨by decide, bi_rand1 ops ext Gg hx hg tys vs st S hle hfix hz hpred hk hgl⟩
  exfalso
  simp [builtinSig, hn_len, hn_typeof, hn_has, hn_del, hn_str2bool, hn_sprint, hn_join, hn_startswith, hn_endswith, hn_index, hn_exit, hn_panic, hn_sleep, hn_cls, hn_read, hn_abs, hn_floor, hn_ceil, hn_round, hn_log, hn_sqrt, hn_sin, hn_cos, hn_min, hn_max, hn_pow, hn_atan2, hn_upper, hn_lower, hn_trim, hn_replace, hn_str2num, hn_move, hn_line, hn_rect, hn_circle, hn_width, hn_color, hn_colour, hn_stroke, hn_fill, hn_linecap, hn_text, hn_clear, hn_grid, hn_gridn, hn_dash, hn_ellipse, hn_hsl, hn_poly, hn_font, hn_printf, hn_sprintf, hn_repr, hn_split, hn_rand, hn_rand1] at hs

/-- `test` on arguments that are all anys: passes, fails (the documented failed-test outcome) or
rejects its arguments -/
theorem bi_test {S : Store} (vs : List (Val F)) (st : St F) (hv : ∀ v ∈ vs, VT S v .any) :
    ∃ r, callBuiltin ops ext (lit "test") vs st = some r ∧
      (r = .ok .none st ∨ r = .err (.internal "ErrTest") st ∨ r = .err (.panic .badArgs) st) := by
  simp [callBuiltin, isBuiltin, builtinNames, lit]
  match vs, hv with
  | [], _ => simp [badArgs]
  | [v], hv =>
    obtain ⟨t, w, rfl, _, hw⟩ := (hv v List.mem_cons_self).any_inv
    cases hw with
    | bool b => cases b <;> simp
    | _ => simp [badArgs]
  | v1 :: v2 :: rest, hv =>
    simp only
    match rest, hv with
    | [], _ =>
      simp only
      split <;> simp
    | r0 :: rest', hv =>
      obtain ⟨t, w, rfl, _, hw⟩ := (hv r0 (by simp)).any_inv
      cases hw <;> simp [badArgs]
      split <;> simp

end EvyV.TS
