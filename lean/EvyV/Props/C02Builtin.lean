import EvyV.Props.C02Stmt
/-!
C02: the built-ins of the typed fragment (Spec/WellTyped.lean `builtinSig`) applied to values of the
types their signatures require return a value of the result type, leave heap and globals well-typed
(`del` stores a map of the same type, `str2bool` rebinds err and errmsg to a bool and a string), or
end in a documented outcome (exit, panic, bad arguments, the step budget) — never in a Go panic of an
unchecked type assertion.
-/
namespace EvyV.TS
open EvyV

variable {F : Type} (ops : NumOps F) (ext : Ext F) (Gg : Env)

/-- positional typing of an argument list -/
abbrev PZ (ts : List Ty) : Store → List (Val F) → Prop :=
  fun S vs => vs.length = ts.length ∧ ∀ (i : Nat) v pt, vs[i]? = some v → ts[i]? = some pt → VT S v pt

/-- the result of a built-in -/
def GoodBI (ρ : Option Ty) (S : Store) (st : St F) : Res F (Val F) → Prop
  | .ok v st' => ∃ S', Grows S S' ∧ HeapOk S' st'.heap ∧ GlobalOk S' Gg st'.global ∧ st'.locals = st.locals ∧
      ∀ t, ρ = some t → VT S' v t
  | .err o _ => Doc o

theorem zero_args {S : Store} {tys : List Ty} {vs : List (Val F)} (hl : vs.length = 0) (hz : PZ tys S vs) : vs = [] ∧ tys = [] := by
  obtain ⟨hlen, _⟩ := hz
  cases vs with
  | nil =>
    refine ⟨rfl, ?_⟩
    cases tys with
    | nil => rfl
    | cons _ _ => simp at hlen
  | cons _ _ => simp at hl

theorem one_arg {S : Store} {tys : List Ty} {vs : List (Val F)} (hl : vs.length = 1) (hz : PZ tys S vs) :
    ∃ v t, vs = [v] ∧ tys = [t] ∧ VT S v t := by
  obtain ⟨hlen, hp⟩ := hz
  match vs, tys, hl, hlen with
  | [v], [t], _, _ => exact ⟨v, t, rfl, rfl, hp 0 v t rfl rfl⟩

theorem two_args {S : Store} {tys : List Ty} {vs : List (Val F)} (hl : vs.length = 2) (hz : PZ tys S vs) :
    ∃ v1 v2 t1 t2, vs = [v1, v2] ∧ tys = [t1, t2] ∧ VT S v1 t1 ∧ VT S v2 t2 := by
  obtain ⟨hlen, hp⟩ := hz
  match vs, tys, hl, hlen with
  | [v1, v2], [t1, t2], _, _ => exact ⟨v1, v2, t1, t2, rfl, rfl, hp 0 v1 t1 rfl rfl, hp 1 v2 t2 rfl rfl⟩

theorem isStrT_eq {t : Ty} (h : isStrT t = true) : t = .str := by simpa [isStrT] using h
theorem isNumT_eq {t : Ty} (h : isNumT t = true) : t = .num := by simpa [isNumT] using h
theorem isAnyT_eq {t : Ty} (h : isAnyT t = true) : t = .any := by simpa [isAnyT] using h
theorem isMapT_eq {t : Ty} (h : isMapT t = true) : ∃ s, t = .map s := by
  cases t <;> simp [isMapT] at h; exact ⟨_, rfl⟩
theorem isArrT_eq {t : Ty} (h : isArrT t = true) : ∃ s, t = .arr s := by
  cases t <;> simp [isArrT] at h; exact ⟨_, rfl⟩

theorem delete_typed {S : Store} {s : Ty} (m : MapVal (Val F)) (k : Key) (hm : ∀ p ∈ m.pairs, VT S p.2 s) :
    ∀ p ∈ (m.delete k).pairs, VT S p.2 s := by
  unfold MapVal.delete
  split
  · intro p hp
    simp only [GoMap.del] at hp
    exact hm p (List.mem_filter.mp hp).1
  · exact hm

theorem setGlobalErr_ok {S : Store} (hg : GgOk Gg) {st : St F} (hgl : GlobalOk S Gg st.global) (b : Bool) (msg : Str) :
    GlobalOk S Gg (setGlobalErr st b msg).global := by
  simp only [setGlobalErr]
  refine GlobalOk.set (GlobalOk.set hgl _ _ ?_) _ _ ?_
  · intro t ht; rw [hg.1 t ht]; exact .bool _
  · intro t ht; rw [hg.2 t ht]; exact .str _

theorem same_state {S : Store} {st : St F} (hk : HeapOk S st.heap) (hgl : GlobalOk S Gg st.global) (ρ : Option Ty) (v : Val F)
    (hv : ∀ t, ρ = some t → VT S v t) : GoodBI Gg ρ S st (.ok v st) :=
  ⟨S, Grows.refl S, hk, hgl, rfl, hv⟩

theorem three_args {S : Store} {tys : List Ty} {vs : List (Val F)} (hl : vs.length = 3) (hz : PZ tys S vs) :
    ∃ v1 v2 v3 t1 t2 t3, vs = [v1, v2, v3] ∧ tys = [t1, t2, t3] ∧ VT S v1 t1 ∧ VT S v2 t2 ∧ VT S v3 t3 := by
  obtain ⟨hlen, hp⟩ := hz
  match vs, tys, hl, hlen with
  | [v1, v2, v3], [t1, t2, t3], _, _ =>
    exact ⟨v1, v2, v3, t1, t2, t3, rfl, rfl, hp 0 v1 t1 rfl rfl, hp 1 v2 t2 rfl rfl, hp 2 v3 t3 rfl rfl⟩

/-- a built-in that forwards to a library function answering with a number -/
theorem forward_num (hx : ExtOk ext) {S : Store} {st : St F} (hk : HeapOk S st.heap) (hgl : GlobalOk S Gg st.global)
    (f : String) (hf : f ∈ numFns) (xs : List (XArg F)) (d : F) :
    GoodBI Gg (some .num) S st (forward ext st f xs (.num d)) := by
  simp only [forward, callExt]
  cases hc : ext.call f xs with
  | none => exact ⟨S, Grows.refl S, hk, hgl, rfl, fun t ht => by cases ht; exact .num _⟩
  | some r =>
    obtain ⟨v, rfl⟩ := hx.1 f hf _ _ hc
    exact ⟨S, Grows.refl S, hk, hgl, rfl, fun t ht => by cases ht; exact .num _⟩

/-- … answering with a string -/
theorem forward_str (hx : ExtOk ext) {S : Store} {st : St F} (hk : HeapOk S st.heap) (hgl : GlobalOk S Gg st.global)
    (f : String) (hf : f ∈ strFns) (xs : List (XArg F)) (d : Str) :
    GoodBI Gg (some .str) S st (forward ext st f xs (.str d)) := by
  simp only [forward, callExt]
  cases hc : ext.call f xs with
  | none => exact ⟨S, Grows.refl S, hk, hgl, rfl, fun t ht => by cases ht; exact .str _⟩
  | some r =>
    obtain ⟨v, rfl⟩ := hx.2.1 f hf _ _ hc
    exact ⟨S, Grows.refl S, hk, hgl, rfl, fun t ht => by cases ht; exact .str _⟩

/-- **the built-ins of the typed fragment on well-typed arguments** -/
theorem builtin_ok (hx : ExtOk ext) (hg : GgOk Gg) (name : Str) (sig : BSig) (tys : List Ty) (vs : List (Val F)) (st : St F) (S : Store)
    (hs : builtinSig name = some sig) (hle : sig.params.length ≤ vs.length) (hfix : sig.rest = none → vs.length = sig.params.length)
    (hz : PZ tys S vs) (hpred : ∀ (i : Nat) ta, tys[i]? = some ta → sig.paramAt i ta = true)
    (hk : HeapOk S st.heap) (hgl : GlobalOk S Gg st.global) :
    String.ofList name ≠ "test" ∧ ∃ r, callBuiltin ops ext name vs st = some r ∧ GoodBI Gg sig.ret S st r := by
  unfold builtinSig at hs
  by_cases hn_len : name = lit "len"
  · rw [if_pos hn_len] at hs; subst hn_len; simp at hs; subst hs
    refine ⟨by decide, ?_⟩
    simp [callBuiltin, isBuiltin, builtinNames, lit]
    obtain ⟨v, t, rfl, rfl, hv⟩ := one_arg (hfix rfl) hz
    have := isAnyT_eq (hpred 0 t rfl); subst this
    obtain ⟨t', w, rfl, _, hw⟩ := hv.any_inv
    cases hw with
    | str x => exact same_state Gg hk hgl _ _ (fun t ht => by cases ht; exact .num _)
    | arr a s ha =>
      obtain ⟨es, he, _⟩ := hk.arr a s ha
      simp only [heapGet, he]
      exact same_state Gg hk hgl _ _ (fun t ht => by cases ht; exact .num _)
    | map a s ha =>
      obtain ⟨m, he, _⟩ := hk.map a s ha
      simp only [heapGet, he]
      exact same_state Gg hk hgl _ _ (fun t ht => by cases ht; exact .num _)
    | num x => exact trivial
    | bool x => exact trivial
    | any t1 v1 hne h1 => exact trivial
  rw [if_neg hn_len] at hs
  by_cases hn_typeof : name = lit "typeof"
  · rw [if_pos hn_typeof] at hs; subst hn_typeof; simp at hs; subst hs
    refine ⟨by decide, ?_⟩
    simp [callBuiltin, isBuiltin, builtinNames, lit]
    obtain ⟨v, t, rfl, rfl, hv⟩ := one_arg (hfix rfl) hz
    have := isAnyT_eq (hpred 0 t rfl); subst this
    obtain ⟨t', w, rfl, _, hw⟩ := hv.any_inv
    exact same_state Gg hk hgl _ _ (fun t ht => by cases ht; exact .str _)
  rw [if_neg hn_typeof] at hs
  by_cases hn_has : name = lit "has"
  · rw [if_pos hn_has] at hs; subst hn_has; simp at hs; subst hs
    refine ⟨by decide, ?_⟩
    simp [callBuiltin, isBuiltin, builtinNames, lit]
    obtain ⟨v1, v2, t1, t2, rfl, rfl, h1, h2⟩ := two_args (hfix rfl) hz
    obtain ⟨s, rfl⟩ := isMapT_eq (hpred 0 t1 rfl)
    have := isStrT_eq (hpred 1 t2 rfl); subst this
    obtain ⟨a, rfl, ha⟩ := h1.map_inv
    obtain ⟨k, rfl⟩ := h2.str_inv
    obtain ⟨m, he, _⟩ := hk.map a s ha
    simp only [heapGet, he]
    exact same_state Gg hk hgl _ _ (fun t ht => by cases ht; exact .bool _)
  rw [if_neg hn_has] at hs
  by_cases hn_del : name = lit "del"
  · rw [if_pos hn_del] at hs; subst hn_del; simp at hs; subst hs
    refine ⟨by decide, ?_⟩
    simp [callBuiltin, isBuiltin, builtinNames, lit]
    obtain ⟨v1, v2, t1, t2, rfl, rfl, h1, h2⟩ := two_args (hfix rfl) hz
    obtain ⟨s, rfl⟩ := isMapT_eq (hpred 0 t1 rfl)
    have := isStrT_eq (hpred 1 t2 rfl); subst this
    obtain ⟨a, rfl, ha⟩ := h1.map_inv
    obtain ⟨k, rfl⟩ := h2.str_inv
    obtain ⟨m, he, hm⟩ := hk.map a s ha
    simp only [heapGet, he]
    exact ⟨S, Grows.refl S, hk.set_map a s ha _ (delete_typed m k hm), hgl, rfl, by intro t ht; cases ht⟩
  rw [if_neg hn_del] at hs
  by_cases hn_str2bool : name = lit "str2bool"
  · rw [if_pos hn_str2bool] at hs; subst hn_str2bool; simp at hs; subst hs
    refine ⟨by decide, ?_⟩
    simp [callBuiltin, isBuiltin, builtinNames, lit]
    obtain ⟨v, t, rfl, rfl, hv⟩ := one_arg (hfix rfl) hz
    have := isStrT_eq (hpred 0 t rfl); subst this
    obtain ⟨x, rfl⟩ := hv.str_inv
    simp only
    cases hp : parseBool x with
    | some b =>
      exact ⟨S, Grows.refl S, hk, setGlobalErr_ok Gg hg hgl _ _, rfl, fun t ht => by cases ht; exact .bool _⟩
    | none =>
      simp only [callExt]
      cases hq : ext.call "quote" [XArg.str x] with
      | some q => exact ⟨S, Grows.refl S, hk, setGlobalErr_ok Gg hg hgl _ _, rfl, fun t ht => by cases ht; exact .bool _⟩
      | none =>
        exact ⟨S, Grows.refl S, hk,
          setGlobalErr_ok Gg hg (st := { st with misses := ("quote", [XArg.str x]) :: st.misses, stopped := true }) hgl _ _, rfl,
          fun t ht => by cases ht; exact .bool _⟩
  rw [if_neg hn_str2bool] at hs
  by_cases hn_sprint : name = lit "sprint"
  · rw [if_pos hn_sprint] at hs; subst hn_sprint; simp at hs; subst hs
    refine ⟨by decide, ?_⟩
    simp [callBuiltin, isBuiltin, builtinNames, lit]
    cases joinVals ops st vs [' '] with
    | none => exact trivial
    | some str => exact same_state Gg hk hgl _ _ (fun t ht => by cases ht; exact .str _)
  rw [if_neg hn_sprint] at hs
  by_cases hn_join : name = lit "join"
  · rw [if_pos hn_join] at hs; subst hn_join; simp at hs; subst hs
    refine ⟨by decide, ?_⟩
    simp [callBuiltin, isBuiltin, builtinNames, lit]
    obtain ⟨v1, v2, t1, t2, rfl, rfl, h1, h2⟩ := two_args (hfix rfl) hz
    obtain ⟨s, rfl⟩ := isArrT_eq (hpred 0 t1 rfl)
    have := isStrT_eq (hpred 1 t2 rfl); subst this
    obtain ⟨a, rfl, ha⟩ := h1.arr_inv
    obtain ⟨k, rfl⟩ := h2.str_inv
    obtain ⟨es, he, _⟩ := hk.arr a s ha
    simp only [heapGet, he]
    cases joinVals ops st es k with
    | none => exact trivial
    | some str => exact same_state Gg hk hgl _ _ (fun t ht => by cases ht; exact .str _)
  rw [if_neg hn_join] at hs
  by_cases hn_startswith : name = lit "startswith"
  · rw [if_pos hn_startswith] at hs; subst hn_startswith; simp at hs; subst hs
    refine ⟨by decide, ?_⟩
    simp [callBuiltin, isBuiltin, builtinNames, lit]
    obtain ⟨v1, v2, t1, t2, rfl, rfl, h1, h2⟩ := two_args (hfix rfl) hz
    have := isStrT_eq (hpred 0 t1 rfl); subst this
    have := isStrT_eq (hpred 1 t2 rfl); subst this
    obtain ⟨x, rfl⟩ := h1.str_inv
    obtain ⟨y, rfl⟩ := h2.str_inv
    exact same_state Gg hk hgl _ _ (fun t ht => by cases ht; exact .bool _)
  rw [if_neg hn_startswith] at hs
  by_cases hn_endswith : name = lit "endswith"
  · rw [if_pos hn_endswith] at hs; subst hn_endswith; simp at hs; subst hs
    refine ⟨by decide, ?_⟩
    simp [callBuiltin, isBuiltin, builtinNames, lit]
    obtain ⟨v1, v2, t1, t2, rfl, rfl, h1, h2⟩ := two_args (hfix rfl) hz
    have := isStrT_eq (hpred 0 t1 rfl); subst this
    have := isStrT_eq (hpred 1 t2 rfl); subst this
    obtain ⟨x, rfl⟩ := h1.str_inv
    obtain ⟨y, rfl⟩ := h2.str_inv
    exact same_state Gg hk hgl _ _ (fun t ht => by cases ht; exact .bool _)
  rw [if_neg hn_endswith] at hs
  by_cases hn_index : name = lit "index"
  · rw [if_pos hn_index] at hs; subst hn_index; simp at hs; subst hs
    refine ⟨by decide, ?_⟩
    simp [callBuiltin, isBuiltin, builtinNames, lit]
    obtain ⟨v1, v2, t1, t2, rfl, rfl, h1, h2⟩ := two_args (hfix rfl) hz
    have := isStrT_eq (hpred 0 t1 rfl); subst this
    have := isStrT_eq (hpred 1 t2 rfl); subst this
    obtain ⟨x, rfl⟩ := h1.str_inv
    obtain ⟨y, rfl⟩ := h2.str_inv
    exact same_state Gg hk hgl _ _ (fun t ht => by cases ht; exact .num _)
  rw [if_neg hn_index] at hs
  by_cases hn_exit : name = lit "exit"
  · rw [if_pos hn_exit] at hs; subst hn_exit; simp at hs; subst hs
    refine ⟨by decide, ?_⟩
    simp [callBuiltin, isBuiltin, builtinNames, lit]
    obtain ⟨v, t, rfl, rfl, hv⟩ := one_arg (hfix rfl) hz
    have := isNumT_eq (hpred 0 t rfl); subst this
    obtain ⟨x, rfl⟩ := hv.num_inv
    exact trivial
  rw [if_neg hn_exit] at hs
  by_cases hn_panic : name = lit "panic"
  · rw [if_pos hn_panic] at hs; subst hn_panic; simp at hs; subst hs
    refine ⟨by decide, ?_⟩
    simp [callBuiltin, isBuiltin, builtinNames, lit]
    obtain ⟨v, t, rfl, rfl, hv⟩ := one_arg (hfix rfl) hz
    have := isStrT_eq (hpred 0 t rfl); subst this
    obtain ⟨x, rfl⟩ := hv.str_inv
    exact trivial
  rw [if_neg hn_panic] at hs
  by_cases hn_sleep : name = lit "sleep"
  · rw [if_pos hn_sleep] at hs; subst hn_sleep; simp at hs; subst hs
    refine ⟨by decide, ?_⟩
    simp [callBuiltin, isBuiltin, builtinNames, lit]
    obtain ⟨v, t, rfl, rfl, hv⟩ := one_arg (hfix rfl) hz
    have := isNumT_eq (hpred 0 t rfl); subst this
    obtain ⟨x, rfl⟩ := hv.num_inv
    exact ⟨S, Grows.refl S, hk, hgl, rfl, by intro t ht; cases ht⟩
  rw [if_neg hn_sleep] at hs
  by_cases hn_cls : name = lit "cls"
  · rw [if_pos hn_cls] at hs; subst hn_cls; simp at hs; subst hs
    refine ⟨by decide, ?_⟩
    simp [callBuiltin, isBuiltin, builtinNames, lit]
    exact ⟨S, Grows.refl S, hk, hgl, rfl, by intro t ht; cases ht⟩
  rw [if_neg hn_cls] at hs
  by_cases hn_read : name = lit "read"
  · rw [if_pos hn_read] at hs; subst hn_read; simp at hs; subst hs
    refine ⟨by decide, ?_⟩
    simp [callBuiltin, isBuiltin, builtinNames, lit]
    cases hi : st.input with
    | nil => exact ⟨S, Grows.refl S, hk, hgl, rfl, fun t ht => by cases ht; exact .str _⟩
    | cons l rest => exact ⟨S, Grows.refl S, hk, hgl, rfl, fun t ht => by cases ht; exact .str _⟩
  rw [if_neg hn_read] at hs
  by_cases hn_abs : name = lit "abs"
  · have hs' : sig = ⟨[isNumT], none, some .num⟩ := by simp [hn_abs, lit] at hs; exact hs.symm
    subst hs'; subst hn_abs
    refine ⟨by decide, ?_⟩
    simp [callBuiltin, isBuiltin, builtinNames, lit]
    obtain ⟨v, t, rfl, rfl, hv⟩ := one_arg (hfix rfl) hz
    have := isNumT_eq (hpred 0 t rfl); subst this
    obtain ⟨x, rfl⟩ := hv.num_inv
    exact forward_num ext Gg hx hk hgl _ (by simp [numFns]) _ _
  by_cases hn_floor : name = lit "floor"
  · have hs' : sig = ⟨[isNumT], none, some .num⟩ := by simp [hn_floor, lit] at hs; exact hs.symm
    subst hs'; subst hn_floor
    refine ⟨by decide, ?_⟩
    simp [callBuiltin, isBuiltin, builtinNames, lit]
    obtain ⟨v, t, rfl, rfl, hv⟩ := one_arg (hfix rfl) hz
    have := isNumT_eq (hpred 0 t rfl); subst this
    obtain ⟨x, rfl⟩ := hv.num_inv
    exact forward_num ext Gg hx hk hgl _ (by simp [numFns]) _ _
  by_cases hn_ceil : name = lit "ceil"
  · have hs' : sig = ⟨[isNumT], none, some .num⟩ := by simp [hn_ceil, lit] at hs; exact hs.symm
    subst hs'; subst hn_ceil
    refine ⟨by decide, ?_⟩
    simp [callBuiltin, isBuiltin, builtinNames, lit]
    obtain ⟨v, t, rfl, rfl, hv⟩ := one_arg (hfix rfl) hz
    have := isNumT_eq (hpred 0 t rfl); subst this
    obtain ⟨x, rfl⟩ := hv.num_inv
    exact forward_num ext Gg hx hk hgl _ (by simp [numFns]) _ _
  by_cases hn_round : name = lit "round"
  · have hs' : sig = ⟨[isNumT], none, some .num⟩ := by simp [hn_round, lit] at hs; exact hs.symm
    subst hs'; subst hn_round
    refine ⟨by decide, ?_⟩
    simp [callBuiltin, isBuiltin, builtinNames, lit]
    obtain ⟨v, t, rfl, rfl, hv⟩ := one_arg (hfix rfl) hz
    have := isNumT_eq (hpred 0 t rfl); subst this
    obtain ⟨x, rfl⟩ := hv.num_inv
    exact forward_num ext Gg hx hk hgl _ (by simp [numFns]) _ _
  by_cases hn_log : name = lit "log"
  · have hs' : sig = ⟨[isNumT], none, some .num⟩ := by simp [hn_log, lit] at hs; exact hs.symm
    subst hs'; subst hn_log
    refine ⟨by decide, ?_⟩
    simp [callBuiltin, isBuiltin, builtinNames, lit]
    obtain ⟨v, t, rfl, rfl, hv⟩ := one_arg (hfix rfl) hz
    have := isNumT_eq (hpred 0 t rfl); subst this
    obtain ⟨x, rfl⟩ := hv.num_inv
    exact forward_num ext Gg hx hk hgl _ (by simp [numFns]) _ _
  by_cases hn_sqrt : name = lit "sqrt"
  · have hs' : sig = ⟨[isNumT], none, some .num⟩ := by simp [hn_sqrt, lit] at hs; exact hs.symm
    subst hs'; subst hn_sqrt
    refine ⟨by decide, ?_⟩
    simp [callBuiltin, isBuiltin, builtinNames, lit]
    obtain ⟨v, t, rfl, rfl, hv⟩ := one_arg (hfix rfl) hz
    have := isNumT_eq (hpred 0 t rfl); subst this
    obtain ⟨x, rfl⟩ := hv.num_inv
    exact forward_num ext Gg hx hk hgl _ (by simp [numFns]) _ _
  by_cases hn_sin : name = lit "sin"
  · have hs' : sig = ⟨[isNumT], none, some .num⟩ := by simp [hn_sin, lit] at hs; exact hs.symm
    subst hs'; subst hn_sin
    refine ⟨by decide, ?_⟩
    simp [callBuiltin, isBuiltin, builtinNames, lit]
    obtain ⟨v, t, rfl, rfl, hv⟩ := one_arg (hfix rfl) hz
    have := isNumT_eq (hpred 0 t rfl); subst this
    obtain ⟨x, rfl⟩ := hv.num_inv
    exact forward_num ext Gg hx hk hgl _ (by simp [numFns]) _ _
  by_cases hn_cos : name = lit "cos"
  · have hs' : sig = ⟨[isNumT], none, some .num⟩ := by simp [hn_cos, lit] at hs; exact hs.symm
    subst hs'; subst hn_cos
    refine ⟨by decide, ?_⟩
    simp [callBuiltin, isBuiltin, builtinNames, lit]
    obtain ⟨v, t, rfl, rfl, hv⟩ := one_arg (hfix rfl) hz
    have := isNumT_eq (hpred 0 t rfl); subst this
    obtain ⟨x, rfl⟩ := hv.num_inv
    exact forward_num ext Gg hx hk hgl _ (by simp [numFns]) _ _
  by_cases hn_min : name = lit "min"
  · have hs' : sig = ⟨[isNumT, isNumT], none, some .num⟩ := by simp [hn_min, lit] at hs; exact hs.symm
    subst hs'; subst hn_min
    refine ⟨by decide, ?_⟩
    simp [callBuiltin, isBuiltin, builtinNames, lit]
    obtain ⟨v1, v2, t1, t2, rfl, rfl, h1, h2⟩ := two_args (hfix rfl) hz
    have := isNumT_eq (hpred 0 t1 rfl); subst this
    have := isNumT_eq (hpred 1 t2 rfl); subst this
    obtain ⟨x, rfl⟩ := h1.num_inv
    obtain ⟨y, rfl⟩ := h2.num_inv
    exact forward_num ext Gg hx hk hgl _ (by simp [numFns]) _ _
  by_cases hn_max : name = lit "max"
  · have hs' : sig = ⟨[isNumT, isNumT], none, some .num⟩ := by simp [hn_max, lit] at hs; exact hs.symm
    subst hs'; subst hn_max
    refine ⟨by decide, ?_⟩
    simp [callBuiltin, isBuiltin, builtinNames, lit]
    obtain ⟨v1, v2, t1, t2, rfl, rfl, h1, h2⟩ := two_args (hfix rfl) hz
    have := isNumT_eq (hpred 0 t1 rfl); subst this
    have := isNumT_eq (hpred 1 t2 rfl); subst this
    obtain ⟨x, rfl⟩ := h1.num_inv
    obtain ⟨y, rfl⟩ := h2.num_inv
    exact forward_num ext Gg hx hk hgl _ (by simp [numFns]) _ _
  by_cases hn_pow : name = lit "pow"
  · have hs' : sig = ⟨[isNumT, isNumT], none, some .num⟩ := by simp [hn_pow, lit] at hs; exact hs.symm
    subst hs'; subst hn_pow
    refine ⟨by decide, ?_⟩
    simp [callBuiltin, isBuiltin, builtinNames, lit]
    obtain ⟨v1, v2, t1, t2, rfl, rfl, h1, h2⟩ := two_args (hfix rfl) hz
    have := isNumT_eq (hpred 0 t1 rfl); subst this
    have := isNumT_eq (hpred 1 t2 rfl); subst this
    obtain ⟨x, rfl⟩ := h1.num_inv
    obtain ⟨y, rfl⟩ := h2.num_inv
    exact forward_num ext Gg hx hk hgl _ (by simp [numFns]) _ _
  by_cases hn_atan2 : name = lit "atan2"
  · have hs' : sig = ⟨[isNumT, isNumT], none, some .num⟩ := by simp [hn_atan2, lit] at hs; exact hs.symm
    subst hs'; subst hn_atan2
    refine ⟨by decide, ?_⟩
    simp [callBuiltin, isBuiltin, builtinNames, lit]
    obtain ⟨v1, v2, t1, t2, rfl, rfl, h1, h2⟩ := two_args (hfix rfl) hz
    have := isNumT_eq (hpred 0 t1 rfl); subst this
    have := isNumT_eq (hpred 1 t2 rfl); subst this
    obtain ⟨x, rfl⟩ := h1.num_inv
    obtain ⟨y, rfl⟩ := h2.num_inv
    exact forward_num ext Gg hx hk hgl _ (by simp [numFns]) _ _
  by_cases hn_upper : name = lit "upper"
  · have hs' : sig = ⟨[isStrT], none, some .str⟩ := by simp [hn_upper, lit] at hs; exact hs.symm
    subst hs'; subst hn_upper
    refine ⟨by decide, ?_⟩
    simp [callBuiltin, isBuiltin, builtinNames, lit]
    obtain ⟨v, t, rfl, rfl, hv⟩ := one_arg (hfix rfl) hz
    have := isStrT_eq (hpred 0 t rfl); subst this
    obtain ⟨x, rfl⟩ := hv.str_inv
    exact forward_str ext Gg hx hk hgl _ (by simp [strFns]) _ _
  by_cases hn_lower : name = lit "lower"
  · have hs' : sig = ⟨[isStrT], none, some .str⟩ := by simp [hn_lower, lit] at hs; exact hs.symm
    subst hs'; subst hn_lower
    refine ⟨by decide, ?_⟩
    simp [callBuiltin, isBuiltin, builtinNames, lit]
    obtain ⟨v, t, rfl, rfl, hv⟩ := one_arg (hfix rfl) hz
    have := isStrT_eq (hpred 0 t rfl); subst this
    obtain ⟨x, rfl⟩ := hv.str_inv
    exact forward_str ext Gg hx hk hgl _ (by simp [strFns]) _ _
  by_cases hn_trim : name = lit "trim"
  · have hs' : sig = ⟨[isStrT, isStrT], none, some .str⟩ := by simp [hn_trim, lit] at hs; exact hs.symm
    subst hs'; subst hn_trim
    refine ⟨by decide, ?_⟩
    simp [callBuiltin, isBuiltin, builtinNames, lit]
    obtain ⟨v1, v2, t1, t2, rfl, rfl, h1, h2⟩ := two_args (hfix rfl) hz
    have := isStrT_eq (hpred 0 t1 rfl); subst this
    have := isStrT_eq (hpred 1 t2 rfl); subst this
    obtain ⟨x, rfl⟩ := h1.str_inv
    obtain ⟨y, rfl⟩ := h2.str_inv
    exact forward_str ext Gg hx hk hgl _ (by simp [strFns]) _ _
  by_cases hn_replace : name = lit "replace"
  · have hs' : sig = ⟨[isStrT, isStrT, isStrT], none, some .str⟩ := by simp [hn_replace, lit] at hs; exact hs.symm
    subst hs'; subst hn_replace
    refine ⟨by decide, ?_⟩
    simp [callBuiltin, isBuiltin, builtinNames, lit]
    obtain ⟨v1, v2, v3, t1, t2, t3, rfl, rfl, h1, h2, h3⟩ := three_args (hfix rfl) hz
    have := isStrT_eq (hpred 0 t1 rfl); subst this
    have := isStrT_eq (hpred 1 t2 rfl); subst this
    have := isStrT_eq (hpred 2 t3 rfl); subst this
    obtain ⟨x, rfl⟩ := h1.str_inv
    obtain ⟨y, rfl⟩ := h2.str_inv
    obtain ⟨z, rfl⟩ := h3.str_inv
    exact forward_str ext Gg hx hk hgl _ (by simp [strFns]) _ _
  by_cases hn_str2num : name = lit "str2num"
  · have hs' : sig = ⟨[isStrT], none, some .num⟩ := by simp [hn_str2num, lit] at hs; exact hs.symm
    subst hs'; subst hn_str2num
    refine ⟨by decide, ?_⟩
    simp [callBuiltin, isBuiltin, builtinNames, lit]
    obtain ⟨v, t, rfl, rfl, hv⟩ := one_arg (hfix rfl) hz
    have := isStrT_eq (hpred 0 t rfl); subst this
    obtain ⟨x, rfl⟩ := hv.str_inv
    simp only [callExt]
    cases hc : ext.call "parsefloat" [XArg.str x] with
    | none =>
      exact ⟨S, Grows.refl S, hk,
        setGlobalErr_ok Gg hg (st := { st with misses := ("parsefloat", [XArg.str x]) :: st.misses, stopped := true }) hgl _ _, rfl,
        fun t ht => by cases ht; exact .num _⟩
    | some r =>
      obtain ⟨n, b, rfl⟩ := hx.2.2 _ _ hc
      cases b with
      | true => exact ⟨S, Grows.refl S, hk, setGlobalErr_ok Gg hg hgl _ _, rfl, fun t ht => by cases ht; exact .num _⟩
      | false =>
        simp only
        cases hq : ext.call "quote" [XArg.str x] with
        | some q => exact ⟨S, Grows.refl S, hk, setGlobalErr_ok Gg hg hgl _ _, rfl, fun t ht => by cases ht; exact .num _⟩
        | none =>
          exact ⟨S, Grows.refl S, hk,
            setGlobalErr_ok Gg hg (st := { st with misses := ("quote", [XArg.str x]) :: st.misses, stopped := true }) hgl _ _, rfl,
            fun t ht => by cases ht; exact .num _⟩
  -- none of the names: not in the table
  simp only [hn_abs, hn_floor, hn_ceil, hn_round, hn_log, hn_sqrt, hn_sin, hn_cos, hn_min, hn_max, hn_pow, hn_atan2, hn_upper, hn_lower,
    hn_trim, hn_replace, hn_str2num, or_self, if_false] at hs
  cases hs

end EvyV.TS
