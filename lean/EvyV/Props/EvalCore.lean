import EvyV.Model.Interp
/-
Shared lemmas about the evaluator model (Model/Interp.lean), one unfolding step
at a time. Used by the property files C01, C02, C09, C10, C13, C14, C15.
-/
namespace EvyV
variable {F : Type} (ops : NumOps F) (ext : Ext F) (prog : Program F)

/-! ### tick -/

theorem tick_stopped (st : St F) (h : st.stopped = true) : tick st = none := by
  simp [tick, h]

theorem tick_some (st st' : St F) (h : tick st = some st') :
    st.stopped = false ∧ st'.yields = st.yields + 1 ∧ st'.trace = st.trace ∧ st'.heap = st.heap ∧
    st'.locals = st.locals ∧ st'.global = st.global ∧ st'.stopAt = st.stopAt ∧
    st'.stopped = (st.stopAt == some (st.yields + 1)) := by
  unfold tick at h
  cases hs : st.stopped <;> simp [hs] at h
  subst h; simp

theorem tick_running (st : St F) (h : st.stopped = false) :
    tick st = some { st with yields := st.yields + 1, stopped := (st.stopAt == some (st.yields + 1)) } := by
  simp [tick, h]

/-! ### scopes -/

theorem pop_push (st : St F) : popScope (pushScope st) = st := by
  simp [popScope, pushScope]

theorem scopeGet_scopeSet (s : Scope F) (n m : Str) (v : Val F) :
    scopeGet (scopeSet s n v) m = if m = n then some v else scopeGet s m := by
  induction s with
  | nil =>
    simp only [scopeSet, scopeGet, List.lookup]
    by_cases h : m = n
    · subst h; simp
    · have : (m == n) = false := by simp [h]
      simp [this, h]
  | cons p rest ih =>
    obtain ⟨k, w⟩ := p
    simp only [scopeSet]
    by_cases hk : k = n
    · subst hk
      by_cases h : m = k
      · subst h; simp [scopeGet, List.lookup]
      · have : (m == k) = false := by simp [h]
        simp [scopeGet, List.lookup, this, h]
    · simp only [hk, if_false]
      unfold scopeGet at *
      by_cases h : m = k
      · subst h
        have : ¬ m = n := hk
        simp [List.lookup, this]
      · have : (m == k) = false := by simp [h]
        simp [List.lookup, this, ih]

/-! ### heap -/

theorem alloc_addr (st : St F) (o : Obj F) : (alloc st o).1 = st.heap.size := rfl

/-- allocation is fresh: the new address was not in use and no existing object changes -/
theorem alloc_fresh (st : St F) (o : Obj F) :
    heapGet st (alloc st o).1 = none ∧
    (∀ a, a < st.heap.size → heapGet (alloc st o).2 a = heapGet st a) ∧
    (alloc st o).2.heap.size = st.heap.size + 1 := by
  refine ⟨by simp [heapGet, alloc], ?_, by simp [alloc]⟩
  intro a ha
  simp [heapGet, alloc, Array.getElem?_push, Nat.ne_of_lt ha]

theorem alloc_other (st : St F) (o : Obj F) :
    (alloc st o).2.locals = st.locals ∧ (alloc st o).2.global = st.global ∧ (alloc st o).2.trace = st.trace ∧
    (alloc st o).2.yields = st.yields := by
  simp [alloc]

/-! ### deep copy only allocates -/

theorem deepCopy_heap_mono (fuel : Nat) :
    (∀ (v : Val F) st w st', deepCopy fuel v st = some (w, st') → st.heap.size ≤ st'.heap.size) ∧
    (∀ (l : List (Val F)) st ws st', deepCopyList fuel l st = some (ws, st') → st.heap.size ≤ st'.heap.size) ∧
    (∀ (l : List (Key × Val F)) st ws st', deepCopyPairs fuel l st = some (ws, st') → st.heap.size ≤ st'.heap.size) := by
  induction fuel with
  | zero => refine ⟨?_, ?_, ?_⟩ <;> intros <;> simp_all [deepCopy, deepCopyList, deepCopyPairs]
  | succ n ih =>
    obtain ⟨ih1, ih2, ih3⟩ := ih
    refine ⟨?_, ?_, ?_⟩
    · intro v st w st' h
      cases v with
      | any t v =>
        simp only [deepCopy, Option.map_eq_some_iff] at h
        obtain ⟨⟨w', s'⟩, hw, he⟩ := h
        simp only [Prod.mk.injEq] at he
        obtain ⟨_, rfl⟩ := he
        exact ih1 v st w' s' hw
      | arr a =>
        simp only [deepCopy] at h
        cases hg : heapGet st a with
        | none => simp [hg] at h
        | some o =>
          cases o with
          | map m => simp [hg] at h
          | arr elems =>
            simp only [hg] at h
            cases hd : deepCopyList n elems st with
            | none => simp [hd] at h
            | some p =>
              obtain ⟨es, st1⟩ := p
              simp only [hd, alloc, Option.some.injEq, Prod.mk.injEq] at h
              obtain ⟨_, rfl⟩ := h
              have := ih2 elems st es st1 hd
              simp; omega
      | map a =>
        simp only [deepCopy] at h
        cases hg : heapGet st a with
        | none => simp [hg] at h
        | some o =>
          cases o with
          | arr m => simp [hg] at h
          | map m =>
            simp only [hg] at h
            cases hd : deepCopyPairs n m.pairs st with
            | none => simp [hd] at h
            | some p =>
              obtain ⟨es, st1⟩ := p
              simp only [hd, alloc, Option.some.injEq, Prod.mk.injEq] at h
              obtain ⟨_, rfl⟩ := h
              have := ih3 m.pairs st es st1 hd
              simp; omega
      | num x => simp [deepCopy] at h; obtain ⟨_, rfl⟩ := h; exact Nat.le_refl _
      | str x => simp [deepCopy] at h; obtain ⟨_, rfl⟩ := h; exact Nat.le_refl _
      | bool x => simp [deepCopy] at h; obtain ⟨_, rfl⟩ := h; exact Nat.le_refl _
      | none => simp [deepCopy] at h; obtain ⟨_, rfl⟩ := h; exact Nat.le_refl _
    · intro l st ws st' h
      cases l with
      | nil => simp [deepCopyList] at h; obtain ⟨_, rfl⟩ := h; exact Nat.le_refl _
      | cons v rest =>
        simp only [deepCopyList] at h
        cases hd : deepCopy n v st with
        | none => simp [hd] at h
        | some p =>
          obtain ⟨w, st1⟩ := p
          simp only [hd, Option.map_eq_some_iff] at h
          obtain ⟨⟨ws', s'⟩, hw, he⟩ := h
          simp only [Prod.mk.injEq] at he
          obtain ⟨_, rfl⟩ := he
          have a := ih1 v st w st1 hd
          have b := ih2 rest st1 ws' s' hw
          omega
    · intro l st ws st' h
      cases l with
      | nil => simp [deepCopyPairs] at h; obtain ⟨_, rfl⟩ := h; exact Nat.le_refl _
      | cons p rest =>
        obtain ⟨k, v⟩ := p
        simp only [deepCopyPairs] at h
        cases hd : deepCopy n v st with
        | none => simp [hd] at h
        | some p =>
          obtain ⟨w, st1⟩ := p
          simp only [hd, Option.map_eq_some_iff] at h
          obtain ⟨⟨ws', s'⟩, hw, he⟩ := h
          simp only [Prod.mk.injEq] at he
          obtain ⟨_, rfl⟩ := he
          have a := ih1 v st w st1 hd
          have b := ih3 rest st1 ws' s' hw
          omega

/-! ### the stop flag latches -/

theorem stopped_expr (n : Nat) (e : Expr F) (st : St F) (h : st.stopped = true) :
    evalE ops ext prog (n + 1) e st = .err .stopped st := by
  simp [evalE, tick_stopped st h]

theorem stopped_stmt (n : Nat) (s : Stmt F) (st : St F) (h : st.stopped = true) :
    execS ops ext prog (n + 1) s st = .err .stopped st := by
  simp [execS, tick_stopped st h]

theorem stopped_block (n : Nat) (b : List (Stmt F)) (st : St F) (h : st.stopped = true) :
    execBlockNode ops ext prog (n + 1) b st = .err .stopped st := by
  simp [execBlockNode, tick_stopped st h]

end EvyV
