import EvyV.Props.Frame
/-
The two-run half of C14: the run whose stop flag is raised during yield k, against the uninterrupted
run from the same state. As long as the flag is down the two runs are in lock step (same values, states
equal but for the stop request and the flag); from the first tick that finds the flag up the stopped
run returns `stopped` without touching its state, while the uninterrupted one only ever extends the
platform trace. Hence the effects of the stopped run are a prefix of those of the uninterrupted run.

One induction over the step budget for the thirteen mutually recursive functions of Model/Interp.lean;
the second run's "the trace only grows from here to the end of the calling function" is the frame
invariant (Props/Frame.lean) applied to what remains of each function after each of its calls.
-/
namespace EvyV
variable {F : Type}

/-- the state of the stopped run, read off the state `b` of the uninterrupted one: another stop request,
and a flag that is up if `b`'s is (an oracle miss raises both) or if the requested yield has happened -/
def ov (sa : Option Nat) (x : Bool) (b : St F) : St F := { b with stopAt := sa, stopped := b.stopped || x }

/-- the effects so far are an initial part of the effects later (the trace is kept most recent first) -/
def TrLe (s s' : St F) : Prop := ∃ suf, s'.trace = suf ++ s.trace

theorem TrLe.refl (s : St F) : TrLe s s := ⟨[], rfl⟩
theorem TrLe.trans {a b c : St F} (h1 : TrLe a b) (h2 : TrLe b c) : TrLe a c := by
  obtain ⟨u, hu⟩ := h1; obtain ⟨w, hw⟩ := h2
  exact ⟨w ++ u, by rw [hw, hu, List.append_assoc]⟩
theorem Frame.trle {a b : St F} (h : Frame a b) : TrLe a b := h.trace
theorem TrLe.of_eq {a b : St F} (h : b.trace = a.trace) : TrLe a b := ⟨[], by simp [h]⟩

def Res.mapSt {α : Type} (f : St F → St F) : Res F α → Res F α
  | .ok v s => .ok v (f s)
  | .err o s => .err o (f s)

/-- the two results: in lock step, or the first run has stopped and the second went on -/
inductive Rel (sa : Option Nat) {α : Type} : Res F α → Res F α → Prop
  | ok (v : α) (x : Bool) (a t : St F) : a = ov sa x t → t.stopAt = none → Rel sa (.ok v a) (.ok v t)
  | err (o : Outcome) (x : Bool) (a t : St F) : a = ov sa x t → t.stopAt = none → Rel sa (.err o a) (.err o t)
  | stop (s : St F) (rb : Res F α) : s.stopped = true → TrLe s rb.st → Rel sa (.err .stopped s) rb

section prims
variable (sa : Option Nat) (x : Bool) (b : St F)

@[simp] theorem ov_heap : (ov sa x b).heap = b.heap := rfl
@[simp] theorem ov_locals : (ov sa x b).locals = b.locals := rfl
@[simp] theorem ov_global : (ov sa x b).global = b.global := rfl
@[simp] theorem ov_trace : (ov sa x b).trace = b.trace := rfl
@[simp] theorem ov_yields : (ov sa x b).yields = b.yields := rfl
@[simp] theorem ov_input : (ov sa x b).input = b.input := rfl
@[simp] theorem ov_testTotal : (ov sa x b).testTotal = b.testTotal := rfl
@[simp] theorem ov_testFails : (ov sa x b).testFails = b.testFails := rfl
@[simp] theorem ov_failFast : (ov sa x b).failFast = b.failFast := rfl
@[simp] theorem ov_noSummary : (ov sa x b).noSummary = b.noSummary := rfl
@[simp] theorem ov_misses : (ov sa x b).misses = b.misses := rfl
@[simp] theorem ov_randLog : (ov sa x b).randLog = b.randLog := rfl
@[simp] theorem ov_stopAt : (ov sa x b).stopAt = sa := rfl
@[simp] theorem ov_stopped : (ov sa x b).stopped = (b.stopped || x) := rfl

theorem getVar_ov (n : Str) : getVar (ov sa x b) n = getVar b n := rfl
theorem heapGet_ov (a : Nat) : heapGet (ov sa x b) a = heapGet b a := rfl
theorem heapSet_ov (a : Nat) (o : Obj F) : heapSet (ov sa x b) a o = ov sa x (heapSet b a o) := rfl
theorem alloc_ov (o : Obj F) : alloc (ov sa x b) o = ((alloc b o).1, ov sa x (alloc b o).2) := rfl
theorem emit_ov (e : Effect F) : emit (ov sa x b) e = ov sa x (emit b e) := rfl
theorem pushScope_ov : pushScope (ov sa x b) = ov sa x (pushScope b) := rfl
theorem popScope_ov : popScope (ov sa x b) = ov sa x (popScope b) := rfl
theorem auxFuel_ov : auxFuel (ov sa x b) = auxFuel b := rfl

theorem setVar_ov (n : Str) (v : Val F) : setVar (ov sa x b) n v = ov sa x (setVar b n v) := by
  unfold setVar
  by_cases h : n = underscore
  · simp [h]
  · simp only [h, if_false, ov_locals]
    cases b.locals <;> rfl

theorem updateVar_ov (n : Str) (v : Val F) : updateVar (ov sa x b) n v = (updateVar b n v).map (ov sa x) := by
  unfold updateVar
  by_cases h : n = underscore
  · simp [h]
  · simp only [h, if_false, ov_locals, ov_global]
    cases updateLocals b.locals n v with
    | some l => rfl
    | none =>
      simp only
      by_cases hg : (scopeGet b.global n).isSome = true
      · simp only [hg, if_true]; rfl
      · simp only [hg, if_false]; rfl

theorem callExt_ov (ext : Ext F) (f : String) (args dflt : List (XArg F)) :
    callExt ext (ov sa x b) f args dflt = ((callExt ext b f args dflt).1, ov sa x (callExt ext b f args dflt).2) := by
  unfold callExt
  cases ext.call f args with
  | some r => rfl
  | none => simp [ov]

theorem tick_ov_stopped (h : (ov sa x b).stopped = true) : tick (ov sa x b) = none := by
  unfold tick; rw [if_pos h]

end prims

section prims2
variable (ops : NumOps F) (ext : Ext F) (sa : Option Nat) (x : Bool)

theorem deepCopy_ov (fuel : Nat) :
    (∀ (v : Val F) (b : St F), deepCopy fuel v (ov sa x b) = (deepCopy fuel v b).map (fun p => (p.1, ov sa x p.2))) ∧
    (∀ (vs : List (Val F)) (b : St F), deepCopyList fuel vs (ov sa x b) = (deepCopyList fuel vs b).map (fun p => (p.1, ov sa x p.2))) ∧
    (∀ (ps : List (Key × Val F)) (b : St F), deepCopyPairs fuel ps (ov sa x b) = (deepCopyPairs fuel ps b).map (fun p => (p.1, ov sa x p.2))) := by
  induction fuel with
  | zero => exact ⟨fun _ _ => by simp [deepCopy], fun _ _ => by simp [deepCopyList], fun _ _ => by simp [deepCopyPairs]⟩
  | succ n ih =>
    obtain ⟨ih1, ih2, ih3⟩ := ih
    refine ⟨?_, ?_, ?_⟩
    · intro v b
      cases v with
      | any t w =>
        simp only [deepCopy, ih1 w b]
        cases deepCopy n w b <;> rfl
      | arr a =>
        simp only [deepCopy, heapGet_ov]
        cases heapGet b a with
        | none => rfl
        | some o =>
          cases o with
          | map m => rfl
          | arr es =>
            simp only [ih2 es b]
            cases deepCopyList n es b with
            | none => rfl
            | some p => rfl
      | map a =>
        simp only [deepCopy, heapGet_ov]
        cases heapGet b a with
        | none => rfl
        | some o =>
          cases o with
          | arr es => rfl
          | map m =>
            simp only [ih3 m.pairs b]
            cases deepCopyPairs n m.pairs b with
            | none => rfl
            | some p => rfl
      | num _ => rfl
      | str _ => rfl
      | bool _ => rfl
      | none => rfl
    · intro vs b
      cases vs with
      | nil => rfl
      | cons v rest =>
        simp only [deepCopyList, ih1 v b]
        cases deepCopy n v b with
        | none => rfl
        | some p =>
          simp only [Option.map_some, ih2 rest p.2]
          cases deepCopyList n rest p.2 <;> rfl
    · intro ps b
      cases ps with
      | nil => rfl
      | cons kv rest =>
        obtain ⟨k, v⟩ := kv
        simp only [deepCopyPairs, ih1 v b]
        cases deepCopy n v b with
        | none => rfl
        | some p =>
          simp only [Option.map_some, ih3 rest p.2]
          cases deepCopyPairs n rest p.2 <;> rfl

theorem replicateCopies_ov : ∀ (n fuel : Nat) (v : Val F) (b : St F),
    replicateCopies n fuel v (ov sa x b) = (replicateCopies n fuel v b).map (fun p => (p.1, ov sa x p.2)) := by
  intro n
  induction n with
  | zero => intro fuel v b; rfl
  | succ n ih =>
    intro fuel v b
    simp only [replicateCopies, (deepCopy_ov sa x fuel).1 v b]
    cases deepCopy fuel v b with
    | none => rfl
    | some p =>
      obtain ⟨w, s⟩ := p
      cases w with
      | arr a =>
        simp only [Option.map_some, heapGet_ov]
        cases heapGet s a with
        | none => rfl
        | some o =>
          cases o with
          | map m => rfl
          | arr es =>
            simp only [ih fuel v s]
            cases replicateCopies n fuel v s <;> rfl
      | _ => rfl

theorem binNum_ov (b : St F) (op : Op) (l r : F) :
    binNum ops ext (ov sa x b) op l r = Res.mapSt (ov sa x) (binNum ops ext b op l r) := by
  cases op <;> try rfl
  simp only [binNum, callExt_ov]
  generalize callExt ext b "math.mod" [.num l, .num r] [.num l] = p
  obtain ⟨res, st'⟩ := p
  simp only
  split <;> rfl

theorem binStr_ov (b : St F) (op : Op) (l r : Str) :
    binStr (ov sa x b) op l r = Res.mapSt (ov sa x) (binStr b op l r) := by
  cases op <;> rfl

theorem binBool_ov (b : St F) (op : Op) (l r : Bool) :
    binBool (ov sa x b) op l r = Res.mapSt (ov sa x) (binBool b op l r) := by
  cases op <;> rfl

theorem binArr_ov (b : St F) (op : Op) (la : Nat) (right : Val F) :
    binArr ops (ov sa x b) op la right = Res.mapSt (ov sa x) (binArr ops b op la right) := by
  unfold binArr
  simp only [heapGet_ov]
  cases heapGet b la with
  | none => rfl
  | some o =>
    cases o with
    | map m => rfl
    | arr ls =>
      simp only
      cases op <;> try rfl
      · -- plus
        cases right <;> try rfl
        rename_i ra
        simp only [heapGet_ov]
        cases heapGet b ra with
        | none => rfl
        | some o2 => cases o2 <;> rfl
      · -- asterisk
        cases right <;> try rfl
        rename_i nv
        simp only
        split
        · rfl
        · split
          · rfl
          · split
            · rfl
            · simp only [auxFuel_ov, replicateCopies_ov]
              cases replicateCopies (if ls.length = 0 then 0 else (ops.toInt nv).toNat) (auxFuel b) (Val.arr la) b <;> rfl

theorem applyBinary_ov (b : St F) (op : Op) (l r : Val F) :
    applyBinary ops ext (ov sa x b) op l r = Res.mapSt (ov sa x) (applyBinary ops ext b op l r) := by
  unfold applyBinary
  split
  · simp only [ov_heap, auxFuel_ov]
    cases valEquals ops b.heap (auxFuel b) l r <;> rfl
  · cases l with
    | num lv => cases r <;> first | rfl | exact binNum_ov ops ext sa x b op _ _
    | str lv => cases r <;> first | rfl | exact binStr_ov sa x b op _ _
    | bool lv => cases r <;> first | rfl | exact binBool_ov sa x b op _ _
    | arr a => exact binArr_ov ops sa x b op a r
    | _ => rfl

theorem indexVal_ov (b : St F) (l i : Val F) :
    indexVal ops (ov sa x b) l i = Res.mapSt (ov sa x) (indexVal ops b l i) := by
  unfold indexVal
  cases l with
  | arr a =>
    simp only [heapGet_ov]
    cases heapGet b a with
    | none => rfl
    | some o =>
      cases o with
      | map m => rfl
      | arr es =>
        cases i <;> try rfl
        rename_i iv
        simp only
        cases indexList ops es iv with
        | error e => rfl
        | ok r => cases r <;> rfl
  | str s =>
    cases i <;> try rfl
    rename_i iv
    simp only
    cases indexList ops s iv with
    | error e => rfl
    | ok r => cases r <;> rfl
  | map a =>
    simp only [heapGet_ov]
    cases heapGet b a with
    | none => rfl
    | some o =>
      cases o with
      | arr es => rfl
      | map m =>
        cases i <;> try rfl
        rename_i k
        simp only
        cases m.get k <;> rfl
  | _ => rfl

theorem sliceVal_ov (b : St F) (l : Val F) (s e : Option (Val F)) :
    sliceVal ops (ov sa x b) l s e = Res.mapSt (ov sa x) (sliceVal ops b l s e) := by
  unfold sliceVal
  cases numOpt s with
  | none => rfl
  | some s' =>
    cases numOpt e with
    | none => rfl
    | some e' =>
      simp only
      cases l with
      | arr a =>
        simp only [heapGet_ov]
        cases heapGet b a with
        | none => rfl
        | some o =>
          cases o with
          | map m => rfl
          | arr es =>
            simp only
            cases sliceList ops es s' e' with
            | error er => rfl
            | ok r => cases r <;> rfl
      | str cs =>
        simp only
        cases sliceList ops cs s' e' with
        | error er => rfl
        | ok r => cases r <;> rfl
      | _ => rfl

theorem zeroVal_ov (b : St F) (t : Ty) : zeroVal ops (ov sa x b) t = ((zeroVal ops b t).1, ov sa x (zeroVal ops b t).2) := by
  cases t <;> rfl

theorem rangerNext_ov (b : St F) (r : Ranger F) : rangerNext ops (ov sa x b) r = rangerNext ops b r := by
  cases r <;> rfl

theorem bindParams_ov : ∀ (ps : List Str) (vs : List (Val F)) (b : St F),
    bindParams ps vs (ov sa x b) = ov sa x (bindParams ps vs b) := by
  intro ps
  induction ps with
  | nil => intro vs b; cases vs <;> rfl
  | cons p ps ih =>
    intro vs b
    cases vs with
    | nil => rfl
    | cons v vs => simp only [bindParams, setVar_ov, ih]

theorem calleeState_ov (fd : FuncDef F) (vs : List (Val F)) (b : St F) :
    calleeState fd vs (ov sa x b) = ov sa x (calleeState fd vs b) := by
  unfold calleeState
  have h : ({ ov sa x b with locals := [[]] } : St F) = ov sa x { b with locals := [[]] } := rfl
  simp only [h, bindParams_ov]
  cases fd.variadic with
  | none => rfl
  | some vn => simp only [alloc_ov, setVar_ov]

theorem unwrapBasic_ov (b : St F) : ∀ v : Val F, unwrapBasic ops (ov sa x b) v = unwrapBasic ops b v
  | .num _ => rfl
  | .str _ => rfl
  | .bool _ => rfl
  | .any _ v => by simp only [unwrapBasic]; exact unwrapBasic_ov b v
  | .arr _ => rfl
  | .map _ => rfl
  | .none => rfl

theorem unwrapAll_ov (b : St F) : ∀ vs : List (Val F), unwrapAll ops (ov sa x b) vs = unwrapAll ops b vs
  | [] => rfl
  | v :: rest => by simp only [unwrapAll, unwrapBasic_ov, unwrapAll_ov b rest]

theorem joinVals_ov (b : St F) (vs : List (Val F)) (sep : Str) : joinVals ops (ov sa x b) vs sep = joinVals ops b vs sep := rfl

theorem setGlobalErr_ov (b : St F) (e : Bool) (m : Str) : setGlobalErr (ov sa x b) e m = ov sa x (setGlobalErr b e m) := rfl

theorem forward_ov (b : St F) (name : String) (xs : List (XArg F)) (d : XArg F) :
    forward ext (ov sa x b) name xs d = Res.mapSt (ov sa x) (forward ext b name xs d) := by
  unfold forward
  simp only [callExt_ov]
  generalize callExt ext b name xs [d] = p
  obtain ⟨r, st'⟩ := p
  simp only
  split <;> rfl

theorem gfxNums_ov (b : St F) (name : String) (args : List (Val F)) :
    gfxNums (ov sa x b) name args = Res.mapSt (ov sa x) (gfxNums b name args) := by
  unfold gfxNums
  cases numArgs args <;> rfl

theorem gfxStr_ov (b : St F) (name : String) (args : List (Val F)) :
    gfxStr (ov sa x b) name args = Res.mapSt (ov sa x) (gfxStr b name args) := by
  unfold gfxStr
  split <;> rfl

theorem verts_ov (b : St F) : ∀ vs : List (Val F), callBuiltin.verts (ov sa x b) vs = callBuiltin.verts b vs
  | [] => rfl
  | v :: rest => by
    cases v <;> try rfl
    rename_i a
    simp only [callBuiltin.verts, heapGet_ov, verts_ov b rest]

theorem randLog_ov (b : St F) (q : List (XArg F)) : ({ ov sa x b with randLog := q } : St F) = ov sa x { b with randLog := q } := rfl
theorem misses_ov (b : St F) (q : List (String × List (XArg F))) : ({ ov sa x b with misses := q } : St F) = ov sa x { b with misses := q } := rfl
theorem input_ov (b : St F) (q : List Str) : ({ ov sa x b with input := q } : St F) = ov sa x { b with input := q } := rfl

/-- no built-in looks at the stop request or the flag: called in the stopped run's state it gives the
uninterrupted run's result, in the corresponding state (all 59 built-ins, case by case) -/
theorem callBuiltin_ov (name : Str) (vs : List (Val F)) (b : St F) :
    callBuiltin ops ext name vs (ov sa x b) = (callBuiltin ops ext name vs b).map (Res.mapSt (ov sa x)) := by
  unfold callBuiltin
  simp only []
  split
  · rfl
  · simp only [Option.map_some, Option.some.injEq]
    simp only [randLog_ov, misses_ov]
    simp only [joinVals_ov, unwrapAll_ov, heapGet_ov, callExt_ov, alloc_ov, emit_ov, heapSet_ov, setGlobalErr_ov,
      forward_ov, gfxNums_ov, gfxStr_ov, verts_ov, ov_input, ov_heap, ov_randLog, ov_misses, auxFuel_ov]
    split
    all_goals (repeat' split)
    all_goals first
      | rfl
      | (simp only [*, if_true]; rfl)
      | (simp_all; done)

end prims2

end EvyV

namespace EvyV
variable {F : Type} (ops : NumOps F) (ext : Ext F) (prog : Program F) (sa : Option Nat)

/-! ### the two runs -/

theorem Rel.of_stopped {α : Type} (x : Bool) (b : St F) (rb : Res F α) (h : (ov sa x b).stopped = true)
    (hf : FrameR b rb) : Rel sa (.err .stopped (ov sa x b)) rb :=
  Rel.stop _ _ h hf.trace

theorem Rel.mapSt {α : Type} (x : Bool) (r : Res F α) (h : r.st.stopAt = none) : Rel sa (Res.mapSt (ov sa x) r) r := by
  cases r with
  | ok v t => exact Rel.ok v x _ t rfl h
  | err o t => exact Rel.err o x _ t rfl h

/-- the tick of both runs while the first one's flag is down -/
theorem tick_two (x : Bool) (b : St F) (hb : b.stopAt = none) (h : (b.stopped || x) = false) :
    ∃ b1 x', tick b = some b1 ∧ tick (ov sa x b) = some (ov sa x' b1) ∧ b1.stopAt = none := by
  have hbs : b.stopped = false := by cases hh : b.stopped <;> simp [hh] at h ⊢
  refine ⟨{ b with yields := b.yields + 1, stopped := false }, (sa == some (b.yields + 1)), ?_, ?_, hb⟩
  · unfold tick; simp [hbs, hb]
  · unfold tick
    have : (ov sa x b).stopped = false := h
    simp only [this, ov_yields, ov_stopAt]
    simp [ov]

theorem TrLe.pop {s t : St F} (h : TrLe s t) : TrLe s (popScope t) := h
theorem TrLe.withLocals {s t : St F} (h : TrLe s t) (l : List (Scope F)) : TrLe s { t with locals := l } := h

/-- what the induction carries: the claim for each of the thirteen functions at one step budget -/
structure AllTwo (n : Nat) : Prop where
  evalE : ∀ (e : Expr F) (b : St F) (x : Bool), b.stopAt = none →
    Rel sa (evalE ops ext prog n e (ov sa x b)) (evalE ops ext prog n e b)
  evalOpt : ∀ (oe : Option (Expr F)) (b : St F) (x : Bool), b.stopAt = none →
    Rel sa (evalOpt ops ext prog n oe (ov sa x b)) (evalOpt ops ext prog n oe b)
  evalList : ∀ (es : List (Expr F)) (b : St F) (x : Bool), b.stopAt = none →
    Rel sa (evalList ops ext prog n es (ov sa x b)) (evalList ops ext prog n es b)
  evalPairs : ∀ (ps : List (Str × Expr F)) (b : St F) (x : Bool), b.stopAt = none →
    Rel sa (evalPairs ops ext prog n ps (ov sa x b)) (evalPairs ops ext prog n ps b)
  evalCall : ∀ (name : Str) (args : List (Expr F)) (b : St F) (x : Bool), b.stopAt = none →
    Rel sa (evalCall ops ext prog n name args (ov sa x b)) (evalCall ops ext prog n name args b)
  block : ∀ (body : List (Stmt F)) (b : St F) (x : Bool), b.stopAt = none →
    Rel sa (execBlockNode ops ext prog n body (ov sa x b)) (execBlockNode ops ext prog n body b)
  stmts : ∀ (body : List (Stmt F)) (b : St F) (x : Bool), b.stopAt = none →
    Rel sa (execStmts ops ext prog n body (ov sa x b)) (execStmts ops ext prog n body b)
  cond : ∀ (c : Expr F) (body : List (Stmt F)) (b : St F) (x : Bool), b.stopAt = none →
    Rel sa (execCond ops ext prog n c body (ov sa x b)) (execCond ops ext prog n c body b)
  ifChain : ∀ (cs : List (Expr F × List (Stmt F))) (els : Option (List (Stmt F))) (b : St F) (x : Bool), b.stopAt = none →
    Rel sa (execIfChain ops ext prog n cs els (ov sa x b)) (execIfChain ops ext prog n cs els b)
  whileL : ∀ (c : Expr F) (body : List (Stmt F)) (b : St F) (x : Bool), b.stopAt = none →
    Rel sa (execWhile ops ext prog n c body (ov sa x b)) (execWhile ops ext prog n c body b)
  forLoop : ∀ (lv : Str) (r : Ranger F) (body : List (Stmt F)) (b : St F) (x : Bool), b.stopAt = none →
    Rel sa (execForLoop ops ext prog n lv r body (ov sa x b)) (execForLoop ops ext prog n lv r body b)
  numOr : ∀ (oe : Option (Expr F)) (d : F) (b : St F) (x : Bool), b.stopAt = none →
    Rel sa (evalNumOr ops ext prog n oe d (ov sa x b)) (evalNumOr ops ext prog n oe d b)
  execS : ∀ (s : Stmt F) (b : St F) (x : Bool), b.stopAt = none →
    Rel sa (execS ops ext prog n s (ov sa x b)) (execS ops ext prog n s b)


theorem FrameR.trr {α : Type} {s : St F} {r : Res F α} (h : FrameR s r) : TrLe s r.st := Frame.trace h
theorem FrameR.sa0 {α : Type} {s : St F} {r : Res F α} (h : FrameR s r) (hs : s.stopAt = none) : r.st.stopAt = none :=
  (Frame.stopAt h).trans hs

theorem evalE_two (n : Nat) (ih : AllTwo ops ext prog sa n) :
    ∀ (e : Expr F) (b : St F) (x : Bool), b.stopAt = none →
      Rel sa (evalE ops ext prog (n + 1) e (ov sa x b)) (evalE ops ext prog (n + 1) e b) := by
  obtain ⟨frE, frOpt, frList, frPairs, frCall, _⟩ := frame_invariant ops ext prog n
  intro e b x hb
  by_cases hst : (b.stopped || x) = true
  · have hA : evalE ops ext prog (n + 1) e (ov sa x b) = .err .stopped (ov sa x b) := by
      unfold evalE; rw [tick_ov_stopped sa x b hst]
    rw [hA]
    exact Rel.of_stopped sa x b _ hst ((frame_invariant ops ext prog (n + 1)).1 e b)
  · obtain ⟨b1, x1, htb, hta, hb1⟩ := tick_two sa x b hb (by simpa using hst)
    unfold evalE
    rw [hta, htb]
    simp only
    cases e with
    | num v => exact Rel.ok _ x1 _ _ rfl hb1
    | str v => exact Rel.ok _ x1 _ _ rfl hb1
    | bool v => exact Rel.ok _ x1 _ _ rfl hb1
    | var nm =>
      simp only [getVar_ov]
      cases getVar b1 nm with
      | none => exact Rel.err _ x1 _ _ rfl hb1
      | some v => exact Rel.ok _ x1 _ _ rfl hb1
    | any t inner =>
      simp only
      have h := ih.evalE inner b1 x1 hb1
      generalize evalE ops ext prog n inner (ov sa x1 b1) = ra at h ⊢
      generalize evalE ops ext prog n inner b1 = rb at h ⊢
      cases h with
      | ok v x2 a t ha ht => subst ha; cases v <;> first | exact Rel.ok _ x2 _ _ rfl ht | exact Rel.err _ x2 _ _ rfl ht
      | err o x2 a t ha ht => subst ha; exact Rel.err _ x2 _ _ rfl ht
      | stop s rb hs htr =>
        refine Rel.stop _ _ hs ?_
        cases rb with
        | err o t => exact htr
        | ok v t => cases v <;> exact htr
    | arr elems =>
      simp only
      have h := ih.evalList elems b1 x1 hb1
      generalize evalList ops ext prog n elems (ov sa x1 b1) = ra at h ⊢
      generalize evalList ops ext prog n elems b1 = rb at h ⊢
      cases h with
      | ok v x2 a t ha ht => subst ha; exact Rel.ok _ x2 _ _ rfl ht
      | err o x2 a t ha ht => subst ha; exact Rel.err _ x2 _ _ rfl ht
      | stop s rb hs htr =>
        refine Rel.stop _ _ hs ?_
        cases rb with
        | err o t => exact htr
        | ok v t => exact htr
    | mapLit pairs =>
      simp only
      have h := ih.evalPairs pairs b1 x1 hb1
      generalize evalPairs ops ext prog n pairs (ov sa x1 b1) = ra at h ⊢
      generalize evalPairs ops ext prog n pairs b1 = rb at h ⊢
      cases h with
      | ok v x2 a t ha ht => subst ha; exact Rel.ok _ x2 _ _ rfl ht
      | err o x2 a t ha ht => subst ha; exact Rel.err _ x2 _ _ rfl ht
      | stop s rb hs htr =>
        refine Rel.stop _ _ hs ?_
        cases rb with
        | err o t => exact htr
        | ok v t => exact htr
    | call name args => exact ih.evalCall name args b1 x1 hb1
    | group inner => exact ih.evalE inner b1 x1 hb1
    | unary op inner =>
      simp only
      have h := ih.evalE inner b1 x1 hb1
      generalize evalE ops ext prog n inner (ov sa x1 b1) = ra at h ⊢
      generalize evalE ops ext prog n inner b1 = rb at h ⊢
      cases h with
      | ok v x2 a t ha ht =>
        subst ha
        cases v <;> simp only <;> first
          | exact Rel.err _ x2 _ _ rfl ht
          | (split <;> first | exact Rel.ok _ x2 _ _ rfl ht | exact Rel.err _ x2 _ _ rfl ht)
      | err o x2 a t ha ht => subst ha; exact Rel.err _ x2 _ _ rfl ht
      | stop s rb hs htr =>
        refine Rel.stop _ _ hs ?_
        cases rb with
        | err o t => exact htr
        | ok v t => cases v <;> simp only <;> first | exact htr | (split <;> exact htr)
    | binary op l r =>
      simp only
      have h := ih.evalE l b1 x1 hb1
      generalize evalE ops ext prog n l (ov sa x1 b1) = ra at h ⊢
      generalize evalE ops ext prog n l b1 = rb at h ⊢
      cases h with
      | err o x2 a t ha ht => subst ha; exact Rel.err _ x2 _ _ rfl ht
      | stop s rb hs htr =>
        refine Rel.stop _ _ hs ?_
        cases rb with
        | err o t => exact htr
        | ok lv t =>
          simp only
          refine htr.trans ?_
          split
          · exact (applyBinary_frame ops ext t op lv lv).trr
          · cases hr : evalE ops ext prog n r t with
            | err o t2 => exact (frame_err (frE r t) hr).trle
            | ok rv t2 => exact ((frame_ok (frE r t) hr).trans (applyBinary_frame ops ext t2 op lv rv)).trle
      | ok lv x2 a t ha ht =>
        subst ha
        simp only
        split
        · rw [applyBinary_ov]; exact Rel.mapSt sa x2 _ ((applyBinary_frame ops ext t op lv lv).sa0 ht)
        · have h2 := ih.evalE r t x2 ht
          generalize evalE ops ext prog n r (ov sa x2 t) = ra at h2 ⊢
          generalize evalE ops ext prog n r t = rb at h2 ⊢
          cases h2 with
          | err o x3 a t2 ha ht2 => subst ha; exact Rel.err _ x3 _ _ rfl ht2
          | stop s rb hs htr =>
            refine Rel.stop _ _ hs ?_
            cases rb with
            | err o t2 => exact htr
            | ok rv t2 => exact htr.trans (applyBinary_frame ops ext t2 op lv rv).trr
          | ok rv x3 a t2 ha ht2 =>
            subst ha
            simp only
            rw [applyBinary_ov]; exact Rel.mapSt sa x3 _ ((applyBinary_frame ops ext t2 op lv rv).sa0 ht2)
    | index l i =>
      simp only
      have h := ih.evalE l b1 x1 hb1
      generalize evalE ops ext prog n l (ov sa x1 b1) = ra at h ⊢
      generalize evalE ops ext prog n l b1 = rb at h ⊢
      cases h with
      | err o x2 a t ha ht => subst ha; exact Rel.err _ x2 _ _ rfl ht
      | stop s rb hs htr =>
        refine Rel.stop _ _ hs ?_
        cases rb with
        | err o t => exact htr
        | ok lv t =>
          simp only
          refine htr.trans ?_
          cases hr : evalE ops ext prog n i t with
          | err o t2 => exact (frame_err (frE i t) hr).trle
          | ok iv t2 => exact ((frame_ok (frE i t) hr).trans (indexVal_frame ops t2 lv iv)).trle
      | ok lv x2 a t ha ht =>
        subst ha
        simp only
        have h2 := ih.evalE i t x2 ht
        generalize evalE ops ext prog n i (ov sa x2 t) = ra at h2 ⊢
        generalize evalE ops ext prog n i t = rb at h2 ⊢
        cases h2 with
        | err o x3 a t2 ha ht2 => subst ha; exact Rel.err _ x3 _ _ rfl ht2
        | stop s rb hs htr =>
          refine Rel.stop _ _ hs ?_
          cases rb with
          | err o t2 => exact htr
          | ok iv t2 => exact htr.trans (indexVal_frame ops t2 lv iv).trr
        | ok iv x3 a t2 ha ht2 =>
          subst ha
          simp only
          rw [indexVal_ov]; exact Rel.mapSt sa x3 _ ((indexVal_frame ops t2 lv iv).sa0 ht2)
    | slice l s e =>
      simp only
      have h := ih.evalE l b1 x1 hb1
      generalize evalE ops ext prog n l (ov sa x1 b1) = ra at h ⊢
      generalize evalE ops ext prog n l b1 = rb at h ⊢
      cases h with
      | err o x2 a t ha ht => subst ha; exact Rel.err _ x2 _ _ rfl ht
      | stop s0 rb hs htr =>
        refine Rel.stop _ _ hs ?_
        cases rb with
        | err o t => exact htr
        | ok lv t =>
          simp only
          refine htr.trans ?_
          cases h1 : evalOpt ops ext prog n s t with
          | err o t2 => exact (frame_err (frOpt s t) h1).trle
          | ok sv t2 =>
            simp only
            cases h2 : evalOpt ops ext prog n e t2 with
            | err o t3 => exact ((frame_ok (frOpt s t) h1).trans (frame_err (frOpt e t2) h2)).trle
            | ok ev t3 =>
              exact (((frame_ok (frOpt s t) h1).trans (frame_ok (frOpt e t2) h2)).trans (sliceVal_frame ops t3 lv sv ev)).trle
      | ok lv x2 a t ha ht =>
        subst ha
        simp only
        have h2 := ih.evalOpt s t x2 ht
        generalize evalOpt ops ext prog n s (ov sa x2 t) = ra at h2 ⊢
        generalize evalOpt ops ext prog n s t = rb at h2 ⊢
        cases h2 with
        | err o x3 a t2 ha ht2 => subst ha; exact Rel.err _ x3 _ _ rfl ht2
        | stop s0 rb hs htr =>
          refine Rel.stop _ _ hs ?_
          cases rb with
          | err o t2 => exact htr
          | ok sv t2 =>
            simp only
            refine htr.trans ?_
            cases h3 : evalOpt ops ext prog n e t2 with
            | err o t3 => exact (frame_err (frOpt e t2) h3).trle
            | ok ev t3 => exact ((frame_ok (frOpt e t2) h3).trans (sliceVal_frame ops t3 lv sv ev)).trle
        | ok sv x3 a t2 ha ht2 =>
          subst ha
          simp only
          have h3 := ih.evalOpt e t2 x3 ht2
          generalize evalOpt ops ext prog n e (ov sa x3 t2) = ra at h3 ⊢
          generalize evalOpt ops ext prog n e t2 = rb at h3 ⊢
          cases h3 with
          | err o x4 a t3 ha ht3 => subst ha; exact Rel.err _ x4 _ _ rfl ht3
          | stop s0 rb hs htr =>
            refine Rel.stop _ _ hs ?_
            cases rb with
            | err o t3 => exact htr
            | ok ev t3 => exact htr.trans (sliceVal_frame ops t3 lv sv ev).trr
          | ok ev x4 a t3 ha ht3 =>
            subst ha
            simp only
            rw [sliceVal_ov]; exact Rel.mapSt sa x4 _ ((sliceVal_frame ops t3 lv sv ev).sa0 ht3)
    | dot l key =>
      simp only
      have h := ih.evalE l b1 x1 hb1
      generalize evalE ops ext prog n l (ov sa x1 b1) = ra at h ⊢
      generalize evalE ops ext prog n l b1 = rb at h ⊢
      cases h with
      | err o x2 a t ha ht => subst ha; exact Rel.err _ x2 _ _ rfl ht
      | stop s rb hs htr =>
        refine Rel.stop _ _ hs ?_
        cases rb with
        | err o t => exact htr
        | ok lv t => cases lv <;> simp only <;> first | exact htr | ((repeat' split) <;> exact htr)
      | ok lv x2 a t ha ht =>
        subst ha
        cases lv <;> simp only <;> try exact Rel.err _ x2 _ _ rfl ht
        rename_i ma
        simp only [heapGet_ov]
        cases heapGet t ma with
        | none => exact Rel.err _ x2 _ _ rfl ht
        | some o =>
          cases o with
          | arr es => exact Rel.err _ x2 _ _ rfl ht
          | map m =>
            simp only
            cases m.get key with
            | none => exact Rel.err _ x2 _ _ rfl ht
            | some v => exact Rel.ok _ x2 _ _ rfl ht
    | assert ty inner =>
      simp only
      have h := ih.evalE inner b1 x1 hb1
      generalize evalE ops ext prog n inner (ov sa x1 b1) = ra at h ⊢
      generalize evalE ops ext prog n inner b1 = rb at h ⊢
      cases h with
      | ok v x2 a t ha ht =>
        subst ha
        cases v <;> simp only <;> first
          | exact Rel.err _ x2 _ _ rfl ht
          | (split <;> first | exact Rel.ok _ x2 _ _ rfl ht | exact Rel.err _ x2 _ _ rfl ht)
      | err o x2 a t ha ht => subst ha; exact Rel.err _ x2 _ _ rfl ht
      | stop s rb hs htr =>
        refine Rel.stop _ _ hs ?_
        cases rb with
        | err o t => exact htr
        | ok v t => cases v <;> simp only <;> first | exact htr | (split <;> exact htr)

theorem evalOpt_two (n : Nat) (ih : AllTwo ops ext prog sa n) :
    ∀ (oe : Option (Expr F)) (b : St F) (x : Bool), b.stopAt = none →
      Rel sa (evalOpt ops ext prog (n + 1) oe (ov sa x b)) (evalOpt ops ext prog (n + 1) oe b) := by
  intro oe b x hb
  cases oe with
  | none => exact Rel.ok _ x _ _ rfl hb
  | some e =>
    simp only [evalOpt]
    have h := ih.evalE e b x hb
    generalize evalE ops ext prog n e (ov sa x b) = ra at h ⊢
    generalize evalE ops ext prog n e b = rb at h ⊢
    cases h with
    | ok v x2 a t ha ht => subst ha; exact Rel.ok _ x2 _ _ rfl ht
    | err o x2 a t ha ht => subst ha; exact Rel.err _ x2 _ _ rfl ht
    | stop s rb hs htr =>
      refine Rel.stop _ _ hs ?_
      cases rb with
      | err o t => exact htr
      | ok v t => exact htr

theorem evalList_two (n : Nat) (ih : AllTwo ops ext prog sa n) :
    ∀ (es : List (Expr F)) (b : St F) (x : Bool), b.stopAt = none →
      Rel sa (evalList ops ext prog (n + 1) es (ov sa x b)) (evalList ops ext prog (n + 1) es b) := by
  obtain ⟨frE, frOpt, frList, frPairs, frCall, _⟩ := frame_invariant ops ext prog n
  intro es b x hb
  cases es with
  | nil => exact Rel.ok _ x _ _ rfl hb
  | cons e rest =>
    simp only [evalList]
    have h := ih.evalE e b x hb
    generalize evalE ops ext prog n e (ov sa x b) = ra at h ⊢
    generalize evalE ops ext prog n e b = rb at h ⊢
    cases h with
    | err o x2 a t ha ht => subst ha; exact Rel.err _ x2 _ _ rfl ht
    | stop s rb hs htr =>
      refine Rel.stop _ _ hs ?_
      cases rb with
      | err o t => exact htr
      | ok v t =>
        simp only
        refine htr.trans ?_
        cases hr : evalList ops ext prog n rest t with
        | err o t2 => exact (frame_err (frList rest t) hr).trle
        | ok vs t2 => exact (frame_ok (frList rest t) hr).trle
    | ok v x2 a t ha ht =>
      subst ha
      simp only
      have h2 := ih.evalList rest t x2 ht
      generalize evalList ops ext prog n rest (ov sa x2 t) = ra at h2 ⊢
      generalize evalList ops ext prog n rest t = rb at h2 ⊢
      cases h2 with
      | ok vs x3 a t2 ha ht2 => subst ha; exact Rel.ok _ x3 _ _ rfl ht2
      | err o x3 a t2 ha ht2 => subst ha; exact Rel.err _ x3 _ _ rfl ht2
      | stop s rb hs htr =>
        refine Rel.stop _ _ hs ?_
        cases rb with
        | err o t2 => exact htr
        | ok vs t2 => exact htr

theorem evalPairs_two (n : Nat) (ih : AllTwo ops ext prog sa n) :
    ∀ (ps : List (Str × Expr F)) (b : St F) (x : Bool), b.stopAt = none →
      Rel sa (evalPairs ops ext prog (n + 1) ps (ov sa x b)) (evalPairs ops ext prog (n + 1) ps b) := by
  obtain ⟨frE, frOpt, frList, frPairs, frCall, _⟩ := frame_invariant ops ext prog n
  intro ps b x hb
  cases ps with
  | nil => exact Rel.ok _ x _ _ rfl hb
  | cons p rest =>
    obtain ⟨k, e⟩ := p
    simp only [evalPairs]
    have h := ih.evalE e b x hb
    generalize evalE ops ext prog n e (ov sa x b) = ra at h ⊢
    generalize evalE ops ext prog n e b = rb at h ⊢
    cases h with
    | err o x2 a t ha ht => subst ha; exact Rel.err _ x2 _ _ rfl ht
    | stop s rb hs htr =>
      refine Rel.stop _ _ hs ?_
      cases rb with
      | err o t => exact htr
      | ok v t =>
        simp only
        refine htr.trans ?_
        cases hr : evalPairs ops ext prog n rest t with
        | err o t2 => exact (frame_err (frPairs rest t) hr).trle
        | ok vs t2 => exact (frame_ok (frPairs rest t) hr).trle
    | ok v x2 a t ha ht =>
      subst ha
      simp only
      have h2 := ih.evalPairs rest t x2 ht
      generalize evalPairs ops ext prog n rest (ov sa x2 t) = ra at h2 ⊢
      generalize evalPairs ops ext prog n rest t = rb at h2 ⊢
      cases h2 with
      | ok vs x3 a t2 ha ht2 => subst ha; exact Rel.ok _ x3 _ _ rfl ht2
      | err o x3 a t2 ha ht2 => subst ha; exact Rel.err _ x3 _ _ rfl ht2
      | stop s rb hs htr =>
        refine Rel.stop _ _ hs ?_
        cases rb with
        | err o t2 => exact htr
        | ok vs t2 => exact htr

theorem evalNumOr_two (n : Nat) (ih : AllTwo ops ext prog sa n) :
    ∀ (oe : Option (Expr F)) (d : F) (b : St F) (x : Bool), b.stopAt = none →
      Rel sa (evalNumOr ops ext prog (n + 1) oe d (ov sa x b)) (evalNumOr ops ext prog (n + 1) oe d b) := by
  intro oe d b x hb
  have key : ∀ e : Expr F,
      Rel sa (match evalE ops ext prog n e (ov sa x b) with
        | .err o st' => (.err o st' : Res F F)
        | .ok (.num v) st' => .ok v st'
        | .ok _ st' => .err (.internal "ErrType: expected number") st')
       (match evalE ops ext prog n e b with
        | .err o st' => (.err o st' : Res F F)
        | .ok (.num v) st' => .ok v st'
        | .ok _ st' => .err (.internal "ErrType: expected number") st') := by
    intro e
    have h := ih.evalE e b x hb
    generalize evalE ops ext prog n e (ov sa x b) = ra at h ⊢
    generalize evalE ops ext prog n e b = rb at h ⊢
    cases h with
    | ok v x2 a t ha ht => subst ha; cases v <;> first | exact Rel.ok _ x2 _ _ rfl ht | exact Rel.err _ x2 _ _ rfl ht
    | err o x2 a t ha ht => subst ha; exact Rel.err _ x2 _ _ rfl ht
    | stop s rb hs htr =>
      refine Rel.stop _ _ hs ?_
      cases rb with
      | err o t => exact htr
      | ok v t => cases v <;> exact htr
  cases oe with
  | none => simp only [evalNumOr]; exact key _
  | some e => simp only [evalNumOr]; exact key _

theorem block_two (n : Nat) (ih : AllTwo ops ext prog sa n) :
    ∀ (body : List (Stmt F)) (b : St F) (x : Bool), b.stopAt = none →
      Rel sa (execBlockNode ops ext prog (n + 1) body (ov sa x b)) (execBlockNode ops ext prog (n + 1) body b) := by
  intro body b x hb
  by_cases hst : (b.stopped || x) = true
  · have hA : execBlockNode ops ext prog (n + 1) body (ov sa x b) = .err .stopped (ov sa x b) := by
      unfold execBlockNode; rw [tick_ov_stopped sa x b hst]
    rw [hA]
    exact Rel.of_stopped sa x b _ hst ((frame_invariant ops ext prog (n + 1)).2.2.2.2.2.1 body b)
  · obtain ⟨b1, x1, htb, hta, hb1⟩ := tick_two sa x b hb (by simpa using hst)
    unfold execBlockNode
    rw [hta, htb]
    exact ih.stmts body b1 x1 hb1

theorem evalCall_two (n : Nat) (ih : AllTwo ops ext prog sa n) :
    ∀ (name : Str) (args : List (Expr F)) (b : St F) (x : Bool), b.stopAt = none →
      Rel sa (evalCall ops ext prog (n + 1) name args (ov sa x b)) (evalCall ops ext prog (n + 1) name args b) := by
  have frA := frame_invariant ops ext prog n
  obtain ⟨frE, frOpt, frList, frPairs, frCall, frBlock, _⟩ := frA
  intro name args b x hb
  simp only [evalCall]
  have h := ih.evalList args b x hb
  generalize evalList ops ext prog n args (ov sa x b) = ra at h ⊢
  generalize evalList ops ext prog n args b = rb at h ⊢
  cases h with
  | err o x2 a t ha ht => subst ha; exact Rel.err _ x2 _ _ rfl ht
  | stop s rb hs htr =>
    refine Rel.stop _ _ hs ?_
    cases rb with
    | err o t => exact htr
    | ok vs t =>
      simp only
      refine htr.trans ?_
      -- what remains of evalFunccall in the uninterrupted run only extends the trace
      cases hb' : callBuiltin ops ext name vs t with
      | some r =>
        have fb : Frame t r.st := builtinsOk ops ext name vs t r hb'
        simp only
        split
        · split
          · exact fb.trle
          · split <;> exact fb.trle
          · exact fb.trle
        · exact fb.trle
      | none =>
        simp only
        cases hf : lookupFunc prog.funcs name with
        | none => exact TrLe.refl _
        | some fd =>
          simp only
          split
          · exact TrLe.refl _
          · have f0 : TrLe t (calleeState fd vs t) := (calleeState_frame fd vs t).trle
            cases hx : execBlockNode ops ext prog n fd.body (calleeState fd vs t) with
            | err o s4 => exact f0.trans (frame_err (frBlock fd.body _) hx).trle
            | ok c s4 =>
              have f2 : TrLe t s4 := f0.trans (frame_ok (frBlock fd.body _) hx).trle
              cases c with
              | ret v => cases v <;> exact f2
              | normal => exact f2
              | brk => exact f2
  | ok vs x2 a t ha ht =>
    subst ha
    simp only [callBuiltin_ov]
    cases hb' : callBuiltin ops ext name vs t with
    | some r =>
      have fb : FrameR t r := builtinsOk ops ext name vs t r hb'
      simp only [Option.map_some]
      split
      · cases r with
        | ok v t' => exact Rel.ok _ x2 _ { t' with testTotal := t'.testTotal + 1 } rfl (fb.sa0 ht)
        | err o t' =>
          simp only [Res.mapSt]
          by_cases ho : o = Outcome.internal "ErrTest"
          · subst ho
            simp only [ov_failFast]
            by_cases hff : t'.failFast = true
            · simp only [hff, ↓reduceIte]
              exact Rel.err _ x2 _ _ rfl (fb.sa0 ht)
            · have hf' : t'.failFast = false := by simpa using hff
              simp only [hf', Bool.false_eq_true, ↓reduceIte]
              exact Rel.ok _ x2 _ _ rfl (fb.sa0 ht)
          · split
            · rename_i heq; cases heq
            · rename_i heq; cases heq; exact absurd rfl ho
            · rename_i heq
              cases heq
              exact Rel.err _ x2 _ { t' with testTotal := t'.testTotal + 1 } rfl (fb.sa0 ht)
      · exact Rel.mapSt sa x2 r (fb.sa0 ht)
    | none =>
      simp only [Option.map_none]
      cases hf : lookupFunc prog.funcs name with
      | none => exact Rel.err _ x2 _ _ rfl ht
      | some fd =>
        simp only
        split
        · exact Rel.err _ x2 _ _ rfl ht
        · rw [calleeState_ov]
          have hcs : (calleeState fd vs t).stopAt = none := by
            have := (calleeState_frame fd vs t).stopAt
            exact this.trans ht
          have h2 := ih.block fd.body (calleeState fd vs t) x2 hcs
          generalize execBlockNode ops ext prog n fd.body (ov sa x2 (calleeState fd vs t)) = ra at h2 ⊢
          generalize execBlockNode ops ext prog n fd.body (calleeState fd vs t) = rb at h2 ⊢
          cases h2 with
          | err o x3 a t4 ha ht4 => subst ha; exact Rel.err _ x3 _ { t4 with locals := t.locals } rfl ht4
          | ok c x3 a t4 ha ht4 =>
            subst ha
            cases c with
            | ret v => cases v <;> exact Rel.ok _ x3 _ { t4 with locals := t.locals } rfl ht4
            | normal => exact Rel.ok _ x3 _ { t4 with locals := t.locals } rfl ht4
            | brk => exact Rel.ok _ x3 _ { t4 with locals := t.locals } rfl ht4
          | stop s rb hs htr =>
            refine Rel.stop _ _ hs ?_
            cases rb with
            | err o t4 => exact htr
            | ok c t4 =>
              cases c with
              | ret v => cases v <;> exact htr
              | normal => exact htr
              | brk => exact htr

theorem stmts_two (n : Nat) (ih : AllTwo ops ext prog sa n) :
    ∀ (body : List (Stmt F)) (b : St F) (x : Bool), b.stopAt = none →
      Rel sa (execStmts ops ext prog (n + 1) body (ov sa x b)) (execStmts ops ext prog (n + 1) body b) := by
  obtain ⟨_, _, _, _, _, _, frStmts, _⟩ := frame_invariant ops ext prog n
  intro body b x hb
  cases body with
  | nil => exact Rel.ok _ x _ _ rfl hb
  | cons s rest =>
    simp only [execStmts]
    have h := ih.execS s b x hb
    generalize execS ops ext prog n s (ov sa x b) = ra at h ⊢
    generalize execS ops ext prog n s b = rb at h ⊢
    cases h with
    | err o x2 a t ha ht => subst ha; exact Rel.err _ x2 _ _ rfl ht
    | stop s0 rb hs htr =>
      refine Rel.stop _ _ hs ?_
      cases rb with
      | err o t => exact htr
      | ok c t =>
        cases c with
        | normal => exact htr.trans (frStmts rest t).trr
        | brk => exact htr
        | ret v => exact htr
    | ok c x2 a t ha ht =>
      subst ha
      cases c with
      | normal => exact ih.stmts rest t x2 ht
      | brk => exact Rel.ok _ x2 _ _ rfl ht
      | ret v => exact Rel.ok _ x2 _ _ rfl ht

theorem cond_two (n : Nat) (ih : AllTwo ops ext prog sa n) :
    ∀ (c : Expr F) (body : List (Stmt F)) (b : St F) (x : Bool), b.stopAt = none →
      Rel sa (execCond ops ext prog (n + 1) c body (ov sa x b)) (execCond ops ext prog (n + 1) c body b) := by
  obtain ⟨_, _, _, _, _, frBlock, _⟩ := frame_invariant ops ext prog n
  intro c body b x hb
  simp only [execCond, pushScope_ov]
  have h := ih.evalE c (pushScope b) x hb
  generalize evalE ops ext prog n c (ov sa x (pushScope b)) = ra at h ⊢
  generalize evalE ops ext prog n c (pushScope b) = rb at h ⊢
  cases h with
  | err o x2 a t ha ht => subst ha; exact Rel.err _ x2 _ (popScope t) rfl ht
  | stop s0 rb hs htr =>
    refine Rel.stop _ _ hs ?_
    cases rb with
    | err o t => exact htr
    | ok v t =>
      cases v with
      | bool bv =>
        cases bv with
        | false => exact htr
        | true =>
          simp only
          cases hx : execBlockNode ops ext prog n body t with
          | err o t2 => exact htr.trans (frame_err (frBlock body t) hx).trle
          | ok comp t2 => exact htr.trans (frame_ok (frBlock body t) hx).trle
      | _ => exact htr
  | ok v x2 a t ha ht =>
    subst ha
    cases v with
    | bool bv =>
      cases bv with
      | false => exact Rel.ok _ x2 _ (popScope t) rfl ht
      | true =>
        simp only
        have h2 := ih.block body t x2 ht
        generalize execBlockNode ops ext prog n body (ov sa x2 t) = ra at h2 ⊢
        generalize execBlockNode ops ext prog n body t = rb at h2 ⊢
        cases h2 with
        | err o x3 a t2 ha ht2 => subst ha; exact Rel.err _ x3 _ (popScope t2) rfl ht2
        | ok comp x3 a t2 ha ht2 => subst ha; exact Rel.ok _ x3 _ (popScope t2) rfl ht2
        | stop s0 rb hs htr =>
          refine Rel.stop _ _ hs ?_
          cases rb with
          | err o t2 => exact htr
          | ok comp t2 => exact htr
    | _ => exact Rel.err _ x2 _ (popScope t) rfl ht

theorem ifChain_two (n : Nat) (ih : AllTwo ops ext prog sa n) :
    ∀ (cs : List (Expr F × List (Stmt F))) (els : Option (List (Stmt F))) (b : St F) (x : Bool), b.stopAt = none →
      Rel sa (execIfChain ops ext prog (n + 1) cs els (ov sa x b)) (execIfChain ops ext prog (n + 1) cs els b) := by
  obtain ⟨_, _, _, _, _, frBlock, _, _, frIf, _⟩ := frame_invariant ops ext prog n
  intro cs els b x hb
  cases cs with
  | nil =>
    cases els with
    | none => exact Rel.ok _ x _ _ rfl hb
    | some body =>
      simp only [execIfChain, pushScope_ov]
      have h := ih.block body (pushScope b) x hb
      generalize execBlockNode ops ext prog n body (ov sa x (pushScope b)) = ra at h ⊢
      generalize execBlockNode ops ext prog n body (pushScope b) = rb at h ⊢
      cases h with
      | err o x2 a t ha ht => subst ha; exact Rel.err _ x2 _ (popScope t) rfl ht
      | ok comp x2 a t ha ht => subst ha; exact Rel.ok _ x2 _ (popScope t) rfl ht
      | stop s0 rb hs htr =>
        refine Rel.stop _ _ hs ?_
        cases rb with
        | err o t => exact htr
        | ok comp t => exact htr
  | cons cb rest =>
    obtain ⟨c, body⟩ := cb
    simp only [execIfChain]
    have h := ih.cond c body b x hb
    generalize execCond ops ext prog n c body (ov sa x b) = ra at h ⊢
    generalize execCond ops ext prog n c body b = rb at h ⊢
    cases h with
    | err o x2 a t ha ht => subst ha; exact Rel.err _ x2 _ _ rfl ht
    | stop s0 rb hs htr =>
      refine Rel.stop _ _ hs ?_
      cases rb with
      | err o t => exact htr
      | ok p t =>
        obtain ⟨comp, taken⟩ := p
        cases taken with
        | true => exact htr
        | false => exact htr.trans (frIf rest els t).trr
    | ok p x2 a t ha ht =>
      subst ha
      obtain ⟨comp, taken⟩ := p
      cases taken with
      | true => exact Rel.ok _ x2 _ _ rfl ht
      | false => exact ih.ifChain rest els t x2 ht

theorem while_two (n : Nat) (ih : AllTwo ops ext prog sa n) :
    ∀ (c : Expr F) (body : List (Stmt F)) (b : St F) (x : Bool), b.stopAt = none →
      Rel sa (execWhile ops ext prog (n + 1) c body (ov sa x b)) (execWhile ops ext prog (n + 1) c body b) := by
  obtain ⟨_, _, _, _, _, _, _, _, _, frWhile, _⟩ := frame_invariant ops ext prog n
  intro c body b x hb
  simp only [execWhile]
  have h := ih.cond c body b x hb
  generalize execCond ops ext prog n c body (ov sa x b) = ra at h ⊢
  generalize execCond ops ext prog n c body b = rb at h ⊢
  cases h with
  | err o x2 a t ha ht => subst ha; exact Rel.err _ x2 _ _ rfl ht
  | stop s0 rb hs htr =>
    refine Rel.stop _ _ hs ?_
    cases rb with
    | err o t => exact htr
    | ok p t =>
      obtain ⟨comp, taken⟩ := p
      cases taken with
      | false => exact htr
      | true =>
        cases comp with
        | normal => exact htr.trans (frWhile c body t).trr
        | brk => exact htr
        | ret v => exact htr
  | ok p x2 a t ha ht =>
    subst ha
    obtain ⟨comp, taken⟩ := p
    cases taken with
    | false => exact Rel.ok _ x2 _ _ rfl ht
    | true =>
      cases comp with
      | normal => exact ih.whileL c body t x2 ht
      | brk => exact Rel.ok _ x2 _ _ rfl ht
      | ret v => exact Rel.ok _ x2 _ _ rfl ht

theorem forLoop_two (n : Nat) (ih : AllTwo ops ext prog sa n) :
    ∀ (lv : Str) (r : Ranger F) (body : List (Stmt F)) (b : St F) (x : Bool), b.stopAt = none →
      Rel sa (execForLoop ops ext prog (n + 1) lv r body (ov sa x b)) (execForLoop ops ext prog (n + 1) lv r body b) := by
  obtain ⟨_, _, _, _, _, _, _, _, _, _, frFor, _⟩ := frame_invariant ops ext prog n
  intro lv r body b x hb
  simp only [execForLoop, rangerNext_ov]
  cases rangerNext ops b r with
  | none => exact Rel.ok _ x _ _ rfl hb
  | some p =>
    obtain ⟨v, r'⟩ := p
    simp only [updateVar_ov]
    cases hu : updateVar b lv v with
    | none => exact Rel.err _ x _ _ rfl hb
    | some b1 =>
      have hb1 : b1.stopAt = none := (updateVar_frame b b1 lv v hu).stopAt.trans hb
      simp only [Option.map_some, pushScope_ov]
      have h := ih.block body (pushScope b1) x hb1
      generalize execBlockNode ops ext prog n body (ov sa x (pushScope b1)) = ra at h ⊢
      generalize execBlockNode ops ext prog n body (pushScope b1) = rb at h ⊢
      cases h with
      | err o x2 a t ha ht => subst ha; exact Rel.err _ x2 _ (popScope t) rfl ht
      | stop s0 rb hs htr =>
        refine Rel.stop _ _ hs ?_
        cases rb with
        | err o t => exact htr
        | ok comp t =>
          cases comp with
          | normal => exact htr.trans (frFor lv r' body (popScope t)).trr
          | brk => exact htr
          | ret v => exact htr
      | ok comp x2 a t ha ht =>
        subst ha
        cases comp with
        | normal => exact ih.forLoop lv r' body (popScope t) x2 ht
        | brk => exact Rel.ok _ x2 _ (popScope t) rfl ht
        | ret v => exact Rel.ok _ x2 _ (popScope t) rfl ht

/-- the uninterrupted run after the index of an element assignment has been evaluated -/
theorem assign_store_tr (t : St F) (left idx v : Val F) :
    TrLe t (match left with
      | .arr a =>
        match heapGet t a, idx with
        | some (.arr es), .num iv =>
          match setIndexList ops es iv v with
          | .ok (some es') => (.ok .normal (heapSet t a (.arr es')) : Res F (Completion F))
          | .ok Option.none => .err (.goPanic "SetIndex out of range") t
          | .error er => .err (idxErr er) t
        | some (.arr _), _ => .err (.goPanic "normalizeIndex: idx.(*numVal)") t
        | _, _ => .err (.goPanic "assign index: heap") t
      | .map a =>
        match heapGet t a, idx with
        | some (.map m), .str k => .ok .normal (heapSet t a (.map (m.setKey k v)))
        | some (.map _), _ => .err (.goPanic "index.(*stringVal)") t
        | _, _ => .err (.goPanic "assign index: heap") t
      | _ => .err (.internal "ErrType: assignment target") t).st := by
  repeat' split
  all_goals first | exact TrLe.refl _ | exact (heapSet_frame _ _ _).trle

/-- the same step in both runs -/
theorem assign_store_two (x : Bool) (t : St F) (ht : t.stopAt = none) (left idx v : Val F) :
    Rel sa (match left with
      | .arr a =>
        match heapGet (ov sa x t) a, idx with
        | some (.arr es), .num iv =>
          match setIndexList ops es iv v with
          | .ok (some es') => (.ok .normal (heapSet (ov sa x t) a (.arr es')) : Res F (Completion F))
          | .ok Option.none => .err (.goPanic "SetIndex out of range") (ov sa x t)
          | .error er => .err (idxErr er) (ov sa x t)
        | some (.arr _), _ => .err (.goPanic "normalizeIndex: idx.(*numVal)") (ov sa x t)
        | _, _ => .err (.goPanic "assign index: heap") (ov sa x t)
      | .map a =>
        match heapGet (ov sa x t) a, idx with
        | some (.map m), .str k => .ok .normal (heapSet (ov sa x t) a (.map (m.setKey k v)))
        | some (.map _), _ => .err (.goPanic "index.(*stringVal)") (ov sa x t)
        | _, _ => .err (.goPanic "assign index: heap") (ov sa x t)
      | _ => .err (.internal "ErrType: assignment target") (ov sa x t))
     (match left with
      | .arr a =>
        match heapGet t a, idx with
        | some (.arr es), .num iv =>
          match setIndexList ops es iv v with
          | .ok (some es') => (.ok .normal (heapSet t a (.arr es')) : Res F (Completion F))
          | .ok Option.none => .err (.goPanic "SetIndex out of range") t
          | .error er => .err (idxErr er) t
        | some (.arr _), _ => .err (.goPanic "normalizeIndex: idx.(*numVal)") t
        | _, _ => .err (.goPanic "assign index: heap") t
      | .map a =>
        match heapGet t a, idx with
        | some (.map m), .str k => .ok .normal (heapSet t a (.map (m.setKey k v)))
        | some (.map _), _ => .err (.goPanic "index.(*stringVal)") t
        | _, _ => .err (.goPanic "assign index: heap") t
      | _ => .err (.internal "ErrType: assignment target") t) := by
  simp only [heapGet_ov, heapSet_ov]
  repeat' split
  all_goals first | exact Rel.ok _ x _ _ rfl ht | exact Rel.err _ x _ _ rfl ht

/-- the tail of evalFor in both runs, once the rangers correspond -/
theorem for_tail_two (n : Nat) (ih : AllTwo ops ext prog sa n) (lv : Str) (body : List (Stmt F))
    (ra rb : Res F (Ranger F)) : Rel sa ra rb →
    Rel sa (match ra with
      | .err o s => (.err o (popScope s) : Res F (Completion F))
      | .ok r s =>
        match execForLoop ops ext prog n lv r body s with
        | .err o s' => .err o (popScope s')
        | .ok c s' => .ok c (popScope s'))
     (match rb with
      | .err o s => (.err o (popScope s) : Res F (Completion F))
      | .ok r s =>
        match execForLoop ops ext prog n lv r body s with
        | .err o s' => .err o (popScope s')
        | .ok c s' => .ok c (popScope s')) := by
  obtain ⟨_, _, _, _, _, _, _, _, _, _, frFor, _⟩ := frame_invariant ops ext prog n
  intro h
  cases h with
  | err o x2 a t ha ht => subst ha; exact Rel.err _ x2 _ (popScope t) rfl ht
  | stop s0 rb hs htr =>
    refine Rel.stop _ _ hs ?_
    cases rb with
    | err o t => exact htr
    | ok r t =>
      simp only
      cases hx : execForLoop ops ext prog n lv r body t with
      | err o t2 => exact htr.trans (frame_err (frFor lv r body t) hx).trle
      | ok c t2 => exact htr.trans (frame_ok (frFor lv r body t) hx).trle
  | ok r x2 a t ha ht =>
    subst ha
    simp only
    have h2 := ih.forLoop lv r body t x2 ht
    generalize execForLoop ops ext prog n lv r body (ov sa x2 t) = ra at h2 ⊢
    generalize execForLoop ops ext prog n lv r body t = rb at h2 ⊢
    cases h2 with
    | err o x3 a t2 ha ht2 => subst ha; exact Rel.err _ x3 _ (popScope t2) rfl ht2
    | ok c x3 a t2 ha ht2 => subst ha; exact Rel.ok _ x3 _ (popScope t2) rfl ht2
    | stop s0 rb hs htr =>
      refine Rel.stop _ _ hs ?_
      cases rb with
      | err o t2 => exact htr
      | ok c t2 => exact htr

theorem execS_two (n : Nat) (ih : AllTwo ops ext prog sa n) :
    ∀ (s : Stmt F) (b : St F) (x : Bool), b.stopAt = none →
      Rel sa (execS ops ext prog (n + 1) s (ov sa x b)) (execS ops ext prog (n + 1) s b) := by
  obtain ⟨frE, _, _, _, frCall, _, _, _, frIf, frWhile, frFor, frNumOr, _⟩ := frame_invariant ops ext prog n
  intro s b x hb
  by_cases hst : (b.stopped || x) = true
  · have hA : execS ops ext prog (n + 1) s (ov sa x b) = .err .stopped (ov sa x b) := by
      unfold execS; rw [tick_ov_stopped sa x b hst]
    rw [hA]
    exact Rel.of_stopped sa x b _ hst ((frame_invariant ops ext prog (n + 1)).2.2.2.2.2.2.2.2.2.2.2.2 s b)
  · obtain ⟨b1, x1, htb, hta, hb1⟩ := tick_two sa x b hb (by simpa using hst)
    unfold execS
    rw [hta, htb]
    simp only
    cases s with
    | noop => exact Rel.ok _ x1 _ _ rfl hb1
    | brk => exact Rel.ok _ x1 _ _ rfl hb1
    | decl name value =>
      simp only
      have h := ih.evalE value b1 x1 hb1
      generalize evalE ops ext prog n value (ov sa x1 b1) = ra at h ⊢
      generalize evalE ops ext prog n value b1 = rb at h ⊢
      cases h with
      | ok v x2 a t ha ht =>
        subst ha
        simp only [setVar_ov]
        exact Rel.ok _ x2 _ _ rfl ((setVar_frame t name v).stopAt.trans ht)
      | err o x2 a t ha ht => subst ha; exact Rel.err _ x2 _ _ rfl ht
      | stop s0 rb hs htr =>
        refine Rel.stop _ _ hs ?_
        cases rb with
        | err o t => exact htr
        | ok v t => exact htr.trans (setVar_frame t name v).trle
    | callS e =>
      cases e with
      | call name args =>
        simp only
        have h := ih.evalCall name args b1 x1 hb1
        generalize evalCall ops ext prog n name args (ov sa x1 b1) = ra at h ⊢
        generalize evalCall ops ext prog n name args b1 = rb at h ⊢
        cases h with
        | ok v x2 a t ha ht => subst ha; exact Rel.ok _ x2 _ _ rfl ht
        | err o x2 a t ha ht => subst ha; exact Rel.err _ x2 _ _ rfl ht
        | stop s0 rb hs htr =>
          refine Rel.stop _ _ hs ?_
          cases rb with
          | err o t => exact htr
          | ok v t => exact htr
      | _ => exact Rel.err _ x1 _ _ rfl hb1
    | ret v =>
      cases v with
      | none => exact Rel.ok _ x1 _ _ rfl hb1
      | some e =>
        simp only
        have h := ih.evalE e b1 x1 hb1
        generalize evalE ops ext prog n e (ov sa x1 b1) = ra at h ⊢
        generalize evalE ops ext prog n e b1 = rb at h ⊢
        cases h with
        | ok v x2 a t ha ht => subst ha; exact Rel.ok _ x2 _ _ rfl ht
        | err o x2 a t ha ht => subst ha; exact Rel.err _ x2 _ _ rfl ht
        | stop s0 rb hs htr =>
          refine Rel.stop _ _ hs ?_
          cases rb with
          | err o t => exact htr
          | ok v t => exact htr
    | ifS conds els => exact ih.ifChain conds els b1 x1 hb1
    | whileS c body => exact ih.whileL c body b1 x1 hb1
    | assign target value =>
      simp only
      have h := ih.evalE value b1 x1 hb1
      generalize evalE ops ext prog n value (ov sa x1 b1) = ra at h ⊢
      generalize evalE ops ext prog n value b1 = rb at h ⊢
      cases h with
      | err o x2 a t ha ht => subst ha; exact Rel.err _ x2 _ _ rfl ht
      | stop s0 rb hs htr =>
        refine Rel.stop _ _ hs ?_
        cases rb with
        | err o t => exact htr
        | ok v t =>
          simp only
          refine htr.trans ?_
          cases target with
          | var nm =>
            simp only
            cases hu : updateVar t nm v with
            | none => exact TrLe.refl _
            | some t2 => exact (updateVar_frame t t2 nm v hu).trle
          | index l i =>
            simp only
            cases hl : evalE ops ext prog n l t with
            | err o t2 => exact (frame_err (frE l t) hl).trle
            | ok left t2 =>
              simp only
              cases hi : evalE ops ext prog n i t2 with
              | err o t3 => exact ((frame_ok (frE l t) hl).trans (frame_err (frE i t2) hi)).trle
              | ok idx t3 =>
                exact (((frame_ok (frE l t) hl).trans (frame_ok (frE i t2) hi)).trle).trans (assign_store_tr ops t3 left idx v)
          | dot l key =>
            simp only
            cases hl : evalE ops ext prog n l t with
            | err o t2 => exact (frame_err (frE l t) hl).trle
            | ok left t2 =>
              have f2 := (frame_ok (frE l t) hl).trle
              cases left <;> simp only <;> first | exact f2 | ((repeat' split) <;> first | exact f2 | exact f2.trans (heapSet_frame _ _ _).trle)
          | _ => exact TrLe.refl _
      | ok v x2 a t ha ht =>
        subst ha
        simp only
        cases target with
        | var nm =>
          simp only [updateVar_ov]
          cases hu : updateVar t nm v with
          | none => exact Rel.err _ x2 _ _ rfl ht
          | some t2 => exact Rel.ok _ x2 _ _ rfl ((updateVar_frame t t2 nm v hu).stopAt.trans ht)
        | index l i =>
          simp only
          have h2 := ih.evalE l t x2 ht
          generalize evalE ops ext prog n l (ov sa x2 t) = ra at h2 ⊢
          generalize evalE ops ext prog n l t = rb at h2 ⊢
          cases h2 with
          | err o x3 a t2 ha ht2 => subst ha; exact Rel.err _ x3 _ _ rfl ht2
          | stop s0 rb hs htr =>
            refine Rel.stop _ _ hs ?_
            cases rb with
            | err o t2 => exact htr
            | ok left t2 =>
              simp only
              refine htr.trans ?_
              cases hi : evalE ops ext prog n i t2 with
              | err o t3 => exact (frame_err (frE i t2) hi).trle
              | ok idx t3 => exact ((frame_ok (frE i t2) hi).trle).trans (assign_store_tr ops t3 left idx v)
          | ok left x3 a t2 ha ht2 =>
            subst ha
            simp only
            have h3 := ih.evalE i t2 x3 ht2
            generalize evalE ops ext prog n i (ov sa x3 t2) = ra at h3 ⊢
            generalize evalE ops ext prog n i t2 = rb at h3 ⊢
            cases h3 with
            | err o x4 a t3 ha ht3 => subst ha; exact Rel.err _ x4 _ _ rfl ht3
            | stop s0 rb hs htr =>
              refine Rel.stop _ _ hs ?_
              cases rb with
              | err o t3 => exact htr
              | ok idx t3 => exact htr.trans (assign_store_tr ops t3 left idx v)
            | ok idx x4 a t3 ha ht3 =>
              subst ha
              exact assign_store_two ops sa x4 t3 ht3 left idx v
        | dot l key =>
          simp only
          have h2 := ih.evalE l t x2 ht
          generalize evalE ops ext prog n l (ov sa x2 t) = ra at h2 ⊢
          generalize evalE ops ext prog n l t = rb at h2 ⊢
          cases h2 with
          | err o x3 a t2 ha ht2 => subst ha; exact Rel.err _ x3 _ _ rfl ht2
          | stop s0 rb hs htr =>
            refine Rel.stop _ _ hs ?_
            cases rb with
            | err o t2 => exact htr
            | ok left t2 =>
              cases left <;> simp only <;> first | exact htr | ((repeat' split) <;> first | exact htr | exact htr.trans (heapSet_frame _ _ _).trle)
          | ok left x3 a t2 ha ht2 =>
            subst ha
            cases left <;> simp only <;> try exact Rel.err _ x3 _ _ rfl ht2
            rename_i ma
            simp only [heapGet_ov, heapSet_ov]
            cases heapGet t2 ma with
            | none => exact Rel.err _ x3 _ _ rfl ht2
            | some o =>
              cases o with
              | arr es => exact Rel.err _ x3 _ _ rfl ht2
              | map m => exact Rel.ok _ x3 _ _ rfl ht2
        | _ => exact Rel.err _ x2 _ _ rfl ht
    | forS lvOpt lvTy range body =>
      simp only [pushScope_ov]
      refine for_tail_two ops ext prog sa n ih _ body _ _ ?_
      cases range with
      | step start stop step =>
        simp only
        have fin_tr : ∀ (a bb c : F) (t3 : St F),
            TrLe t3 (if ops.eq c ops.zero = true then (.err (.panic .rangeValue) t3 : Res F (Ranger F))
              else .ok (.step a bb c) (match lvOpt with | some nm => setVar t3 nm (.num ops.zero) | Option.none => t3)).st := by
          intro a bb c t3
          split
          · exact TrLe.refl _
          · cases lvOpt with
            | none => exact TrLe.refl _
            | some nm => exact (setVar_frame _ _ _).trle
        have h1 := ih.numOr start ops.zero (pushScope b1) x1 hb1
        generalize evalNumOr ops ext prog n start ops.zero (ov sa x1 (pushScope b1)) = ra at h1 ⊢
        generalize evalNumOr ops ext prog n start ops.zero (pushScope b1) = rb at h1 ⊢
        cases h1 with
        | err o x2 a t ha ht => subst ha; exact Rel.err _ x2 _ _ rfl ht
        | stop s0 rb hs htr =>
          refine Rel.stop _ _ hs ?_
          cases rb with
          | err o t => exact htr
          | ok a t =>
            simp only
            refine htr.trans ?_
            cases h2 : evalNumOr ops ext prog n (some stop) ops.zero t with
            | err o t2 => exact (frame_err (frNumOr _ _ t) h2).trle
            | ok bb t2 =>
              simp only
              cases h3 : evalNumOr ops ext prog n step ops.one t2 with
              | err o t3 => exact ((frame_ok (frNumOr _ _ t) h2).trans (frame_err (frNumOr _ _ t2) h3)).trle
              | ok c t3 =>
                exact (((frame_ok (frNumOr _ _ t) h2).trans (frame_ok (frNumOr _ _ t2) h3)).trle).trans (fin_tr a bb c t3)
        | ok a x2 a' t ha ht =>
          subst ha
          simp only
          have h2 := ih.numOr (some stop) ops.zero t x2 ht
          generalize evalNumOr ops ext prog n (some stop) ops.zero (ov sa x2 t) = ra at h2 ⊢
          generalize evalNumOr ops ext prog n (some stop) ops.zero t = rb at h2 ⊢
          cases h2 with
          | err o x3 a' t2 ha ht2 => subst ha; exact Rel.err _ x3 _ _ rfl ht2
          | stop s0 rb hs htr =>
            refine Rel.stop _ _ hs ?_
            cases rb with
            | err o t2 => exact htr
            | ok bb t2 =>
              simp only
              refine htr.trans ?_
              cases h3 : evalNumOr ops ext prog n step ops.one t2 with
              | err o t3 => exact (frame_err (frNumOr _ _ t2) h3).trle
              | ok c t3 => exact ((frame_ok (frNumOr _ _ t2) h3).trle).trans (fin_tr a bb c t3)
          | ok bb x3 a' t2 ha ht2 =>
            subst ha
            simp only
            have h3 := ih.numOr step ops.one t2 x3 ht2
            generalize evalNumOr ops ext prog n step ops.one (ov sa x3 t2) = ra at h3 ⊢
            generalize evalNumOr ops ext prog n step ops.one t2 = rb at h3 ⊢
            cases h3 with
            | err o x4 a' t3 ha ht3 => subst ha; exact Rel.err _ x4 _ _ rfl ht3
            | stop s0 rb hs htr =>
              refine Rel.stop _ _ hs ?_
              cases rb with
              | err o t3 => exact htr
              | ok c t3 => exact htr.trans (fin_tr a bb c t3)
            | ok c x4 a' t3 ha ht3 =>
              subst ha
              simp only
              split
              · exact Rel.err _ x4 _ _ rfl ht3
              · cases lvOpt with
                | none => exact Rel.ok _ x4 _ _ rfl ht3
                | some nm =>
                  simp only [setVar_ov]
                  exact Rel.ok _ x4 _ _ rfl ((setVar_frame _ _ _).stopAt.trans ht3)
      | over e =>
        simp only
        have h1 := ih.evalE e (pushScope b1) x1 hb1
        generalize evalE ops ext prog n e (ov sa x1 (pushScope b1)) = ra at h1 ⊢
        generalize evalE ops ext prog n e (pushScope b1) = rb at h1 ⊢
        cases h1 with
        | err o x2 a t ha ht => subst ha; exact Rel.err _ x2 _ _ rfl ht
        | stop s0 rb hs htr =>
          refine Rel.stop _ _ hs ?_
          cases rb with
          | err o t => exact htr
          | ok v t =>
            cases v with
            | arr a =>
              cases lvOpt with
              | none => exact htr
              | some nm => exact htr.trans ((zeroVal_frame ops t lvTy).trans (setVar_frame _ _ _)).trle
            | str cs =>
              cases lvOpt with
              | none => exact htr
              | some nm => exact htr.trans (setVar_frame _ _ _).trle
            | map a =>
              simp only
              split
              · cases lvOpt with
                | none => exact htr
                | some nm => exact htr.trans (setVar_frame _ _ _).trle
              · exact htr
            | _ => exact htr
        | ok v x2 a' t ha ht =>
          subst ha
          cases v with
          | arr a =>
            cases lvOpt with
            | none => exact Rel.ok _ x2 _ _ rfl ht
            | some nm =>
              simp only [zeroVal_ov, setVar_ov]
              exact Rel.ok _ x2 _ _ rfl (((zeroVal_frame ops t lvTy).trans (setVar_frame _ _ _)).stopAt.trans ht)
          | str cs =>
            cases lvOpt with
            | none => exact Rel.ok _ x2 _ _ rfl ht
            | some nm =>
              simp only [setVar_ov]
              exact Rel.ok _ x2 _ _ rfl ((setVar_frame _ _ _).stopAt.trans ht)
          | map a =>
            simp only [heapGet_ov]
            cases heapGet t a with
            | none => exact Rel.err _ x2 _ _ rfl ht
            | some o =>
              cases o with
              | arr es => exact Rel.err _ x2 _ _ rfl ht
              | map m =>
                cases lvOpt with
                | none => exact Rel.ok _ x2 _ _ rfl ht
                | some nm =>
                  simp only [setVar_ov]
                  exact Rel.ok _ x2 _ _ rfl ((setVar_frame _ _ _).stopAt.trans ht)
          | _ => exact Rel.err _ x2 _ _ rfl ht

theorem allTwo_zero : AllTwo ops ext prog sa 0 := by
  constructor <;> intros <;>
    simp only [evalE, evalOpt, evalList, evalPairs, evalCall, execBlockNode, execStmts, execCond, execIfChain,
      execWhile, execForLoop, evalNumOr, execS] <;> exact Rel.err _ _ _ _ rfl (by assumption)

/-- **the two runs, for every step budget**: each of the thirteen interpreter functions, started in states
that differ only in the stop request (and the flag), either ends in lock step — same value or outcome, states
still differing only in that way — or the run with the request has stopped with the `stopped` outcome, its
flag up, and its effects an initial part of the effects of the other run -/
theorem two_runs : ∀ n, AllTwo ops ext prog sa n := by
  intro n
  induction n with
  | zero => exact allTwo_zero ops ext prog sa
  | succ n ih =>
    exact ⟨evalE_two ops ext prog sa n ih, evalOpt_two ops ext prog sa n ih, evalList_two ops ext prog sa n ih,
      evalPairs_two ops ext prog sa n ih, evalCall_two ops ext prog sa n ih, block_two ops ext prog sa n ih,
      stmts_two ops ext prog sa n ih, cond_two ops ext prog sa n ih, ifChain_two ops ext prog sa n ih,
      while_two ops ext prog sa n ih, forLoop_two ops ext prog sa n ih, evalNumOr_two ops ext prog sa n ih,
      execS_two ops ext prog sa n ih⟩

end EvyV
