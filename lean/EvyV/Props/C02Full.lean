import EvyV.Props.C02Builtin
import EvyV.Props.C05
/-!
C02: type soundness of the evaluator model.

`all_sound` proves, by ONE induction over the step budget simultaneously for the expression
evaluator, argument lists, calls of user-defined functions (recursion included), statements, blocks,
if chains and loops of Model/Interp.lean: well-typed code (Spec/WellTyped.lean `Typed`, `STyped`,
`BTyped`, `ProgOk`) run for any number of steps in a well-typed state (`StOk`: the scopes mirror the
static scopes, every variable, global and heap object has its declared type) either ends in a
well-typed state — with a value of the static type, every scope pushed popped again, a returned value
of the function's result type — or in a documented outcome: a run-time panic of Evy, exit, a stop,
the step budget. It never ends with an internal error and never reaches a Go panic
(`Outcome.internal`, `Outcome.goPanic`). `expr_sound`, `stmt_sound`, `call_sound` and the
`…_never_go_wrong` corollaries are the readable faces of it.

The part of `missing return` that type soundness needs — a function with a result type really
returns a value — is Props/C05.lean `typed_function_returns_a_value`.
-/
namespace EvyV.TS
open EvyV

variable {F : Type} (ops : NumOps F) (ext : Ext F) (prog : Program F) (Φ : FEnv) (Gg : Env)

/-! ### results of expressions in a state that calls may have changed -/

/-- a value satisfying `P` in a state that is well-typed under the same scopes, or a documented
outcome -/
def GoodX {α : Type} (P : Store → α → Prop) (S : Store) (Gs : List SEnv) : Res F α → Prop
  | .ok a st' => ∃ S', Grows S S' ∧ StOk S' Gs Gg st' ∧ P S' a
  | .err o _ => Doc o

theorem Good.toX {α : Type} {P : Store → α → Prop} {S : Store} {Gs : List SEnv} {st : St F} {r : Res F α}
    (h : Good P S st r) (hok : StOk S Gs Gg st) : GoodX Gg P S Gs r := by
  cases r with
  | err o s => exact h
  | ok a s =>
    obtain ⟨S', g, hk, hp, l, gl⟩ := h
    exact ⟨S', g, hok.mono g hk l gl, hp⟩

theorem GoodX.grow {α : Type} {P : Store → α → Prop} {S S1 : Store} {Gs : List SEnv} {r : Res F α}
    (h : GoodX Gg P S1 Gs r) (g : Grows S S1) : GoodX Gg P S Gs r := by
  cases r with
  | err o s => exact h
  | ok a s => obtain ⟨S', g', hok, hp⟩ := h; exact ⟨S', g.trans g', hok, hp⟩

theorem GoodX.imp {α : Type} {P Q : Store → α → Prop} {S : Store} {Gs : List SEnv} {r : Res F α}
    (h : GoodX Gg P S Gs r) (hpq : ∀ S' a, P S' a → Q S' a) : GoodX Gg Q S Gs r := by
  cases r with
  | err o s => exact h
  | ok a s => obtain ⟨S', g', hok, hp⟩ := h; exact ⟨S', g', hok, hpq _ _ hp⟩

abbrev PL (s : Ty) : Store → List (Val F) → Prop := fun S vs => ∀ v ∈ vs, VT S v s
abbrev PP (s : Ty) : Store → List (Key × Val F) → Prop := fun S ps => ∀ p ∈ ps, VT S p.2 s
abbrev PO : Store → Option (Val F) → Prop := fun S o => ∀ v, o = some v → VT S v .num
abbrev PA : Store → List (Val F) → Prop := fun S vs => ∀ v ∈ vs, ∃ t, VT S v t

/-- the value of a call: of the result type, if the function has one -/
abbrev PR (ρ : Option Ty) : Store → Val F → Prop := fun S v => ∀ t, ρ = some t → VT S v t

/-! ### entering a function -/

theorem callBuiltin_none (name : Str) (vs : List (Val F)) (st : St F) (h : isBuiltin name = false) :
    callBuiltin ops ext name vs st = none := by
  simp [callBuiltin, h]

theorem bindParams_ok {S : Store} : ∀ (ps : List Str) (ts : List Ty) (vs : List (Val F)) (st : St F) (g : SEnv) (sc : Scope F),
    st.locals = [sc] → ScOk S g sc → ps.length = ts.length → vs.length = ts.length →
    (∀ (i : Nat) v pt, vs[i]? = some v → ts[i]? = some pt → VT S v pt) →
    ∃ sc', (bindParams ps vs st).locals = [sc'] ∧ ScOk S (paramScope ps ts g) sc' ∧
      (bindParams ps vs st).global = st.global ∧ (bindParams ps vs st).heap = st.heap := by
  intro ps
  induction ps with
  | nil => intro ts vs st g sc hl hsc _ _ _; exact ⟨sc, by simp [bindParams, hl], by simpa [paramScope] using hsc, rfl, rfl⟩
  | cons p ps ih =>
    intro ts vs st g sc hl hsc hlen hvl hty
    cases ts with
    | nil => simp at hlen
    | cons t ts =>
      cases vs with
      | nil => simp at hvl
      | cons v vs =>
        simp only [bindParams, paramScope]
        have hv : VT S v t := hty 0 v t rfl rfl
        have hty' : ∀ (i : Nat) w pt, vs[i]? = some w → ts[i]? = some pt → VT S w pt :=
          fun i w pt h1 h2 => hty (i + 1) w pt (by simpa using h1) (by simpa using h2)
        by_cases hp : p = underscore
        · have : setVar st p v = st := by simp [setVar, hp]
          rw [this]; simp only [hp, if_true]
          exact ih ts vs st g sc hl hsc (by simpa using hlen) (by simpa using hvl) hty'
        · simp only [hp, if_false]
          have hl2 : (setVar st p v).locals = [scopeSet sc p v] := by simp [setVar, hp, hl]
          obtain ⟨sc', h1, h2, h3, h4⟩ := ih ts vs (setVar st p v) (senvSet g p t) (scopeSet sc p v) hl2 (hsc.set p v t hv)
            (by simpa using hlen) (by simpa using hvl) hty'
          refine ⟨sc', h1, h2, ?_, ?_⟩
          · rw [h3]; simp [setVar, hp, hl]
          · rw [h4]; simp [setVar, hp, hl]

/-! ### the statement for one step budget -/

structure AllSound (n : Nat) : Prop where
  evalE : ∀ (e : Expr F) st Gs S t, Typed Φ (lookupG Gs Gg) e t → StOk S Gs Gg st →
    GoodX Gg (PV t) S Gs (evalE ops ext prog n e st)
  evalL : ∀ (es : List (Expr F)) st Gs S s, (∀ e ∈ es, Typed Φ (lookupG Gs Gg) e s) → StOk S Gs Gg st →
    GoodX Gg (PL s) S Gs (evalList ops ext prog n es st)
  evalP : ∀ (ps : List (Str × Expr F)) st Gs S s, (∀ p ∈ ps, Typed Φ (lookupG Gs Gg) p.2 s) → StOk S Gs Gg st →
    GoodX Gg (PP s) S Gs (evalPairs ops ext prog n ps st)
  evalO : ∀ (oe : Option (Expr F)) st Gs S, (∀ x, oe = some x → Typed Φ (lookupG Gs Gg) x .num) → StOk S Gs Gg st →
    GoodX Gg PO S Gs (evalOpt ops ext prog n oe st)
  evalA : ∀ (es : List (Expr F)) st Gs S, (∀ e ∈ es, ∃ t, Typed Φ (lookupG Gs Gg) e t) → StOk S Gs Gg st →
    GoodX Gg PA S Gs (evalList ops ext prog n es st)
  evalZ : ∀ (es : List (Expr F)) (ts : List Ty) st Gs S, es.length = ts.length →
    (∀ (i : Nat) a pt, es[i]? = some a → ts[i]? = some pt → Typed Φ (lookupG Gs Gg) a pt) → StOk S Gs Gg st →
    GoodX Gg (PZ ts) S Gs (evalList ops ext prog n es st)
  numOr : ∀ (oe : Option (Expr F)) (d : F) st Gs S, (∀ x, oe = some x → Typed Φ (lookupG Gs Gg) x .num) → StOk S Gs Gg st →
    GoodX Gg (fun _ _ => True) S Gs (evalNumOr ops ext prog n oe d st)
  callV : ∀ (name : Str) (args : List (Expr F)) (sig : FSig) (tv : Ty) st Gs S, Φ name = some sig → sig.variadic = some tv →
    (∀ a ∈ args, Typed Φ (lookupG Gs Gg) a tv) → StOk S Gs Gg st →
    GoodX Gg (PR sig.ret) S Gs (evalCall ops ext prog n name args st)
  call : ∀ (name : Str) (args : List (Expr F)) (sig : FSig) st Gs S, Φ name = some sig → sig.variadic = none → args.length = sig.params.length →
    (∀ (i : Nat) a pt, args[i]? = some a → sig.params[i]? = some pt → Typed Φ (lookupG Gs Gg) a pt) → StOk S Gs Gg st →
    GoodX Gg (PR sig.ret) S Gs (evalCall ops ext prog n name args st)
  builtin : ∀ (name : Str) (args : List (Expr F)) (sig : BSig) (tys : List Ty) st Gs S, builtinSig name = some sig →
    sig.params.length ≤ args.length → (sig.rest = none → args.length = sig.params.length) → args.length = tys.length →
    (∀ (i : Nat) a ta, args[i]? = some a → tys[i]? = some ta → Typed Φ (lookupG Gs Gg) a ta) →
    (∀ (i : Nat) ta, tys[i]? = some ta → sig.paramAt i ta = true) → StOk S Gs Gg st →
    GoodX Gg (PR sig.ret) S Gs (evalCall ops ext prog n name args st)
  test : ∀ (args : List (Expr F)) st Gs S, (∀ a ∈ args, Typed Φ (lookupG Gs Gg) a .any) → StOk S Gs Gg st →
    GoodX Gg (fun _ (_ : Val F) => True) S Gs (evalCall ops ext prog n (lit "test") args st)
  print : ∀ (args : List (Expr F)) st Gs S, (∀ a ∈ args, ∃ t, Typed Φ (lookupG Gs Gg) a t) → StOk S Gs Gg st →
    GoodX Gg (fun _ (_ : Val F) => True) S Gs (evalCall ops ext prog n (lit "print") args st)
  execS : ∀ (ρ : Option Ty) (s : Stmt F) st Gs Gs' S, STyped Φ Gg ρ Gs s Gs' → StOk S Gs Gg st →
    GoodS Gg ρ S Gs Gs' (execS ops ext prog n s st)
  execB : ∀ (ρ : Option Ty) (b : List (Stmt F)) st Gs S, BTyped Φ Gg ρ Gs b → StOk S Gs Gg st →
    GoodB Gg ρ S Gs (execStmts ops ext prog n b st)
  execN : ∀ (ρ : Option Ty) (b : List (Stmt F)) st Gs S, BTyped Φ Gg ρ Gs b → StOk S Gs Gg st →
    GoodB Gg ρ S Gs (execBlockNode ops ext prog n b st)
  execC : ∀ (ρ : Option Ty) (c : Expr F) (body : List (Stmt F)) st Gs S, Typed Φ (lookupG Gs Gg) c .bool →
    BTyped Φ Gg ρ ([] :: Gs) body → StOk S Gs Gg st → GoodC Gg ρ S Gs (execCond ops ext prog n c body st)
  execI : ∀ (ρ : Option Ty) (conds : List (Expr F × List (Stmt F))) (els : Option (List (Stmt F))) st Gs S,
    (∀ c ∈ conds, Typed Φ (lookupG Gs Gg) c.1 .bool) → (∀ c ∈ conds, BTyped Φ Gg ρ ([] :: Gs) c.2) →
    (∀ b, els = some b → BTyped Φ Gg ρ ([] :: Gs) b) → StOk S Gs Gg st →
    GoodK Gg ρ S Gs (execIfChain ops ext prog n conds els st)
  execW : ∀ (ρ : Option Ty) (c : Expr F) (body : List (Stmt F)) st Gs S, Typed Φ (lookupG Gs Gg) c .bool →
    BTyped Φ Gg ρ ([] :: Gs) body → StOk S Gs Gg st → GoodK Gg ρ S Gs (execWhile ops ext prog n c body st)
  execF : ∀ (ρ : Option Ty) (lv : Option Str) (t : Ty) (r : Ranger F) (body : List (Stmt F)) st Gs S,
    (∀ n, lv = some n → n ≠ underscore) → RangerOk S r t → BTyped Φ Gg ρ ([] :: loopScope lv t :: Gs) body →
    StOk S (loopScope lv t :: Gs) Gg st →
    GoodK Gg ρ S (loopScope lv t :: Gs)
      (execForLoop ops ext prog n (match lv with | some n => n | none => underscore) r body st)

/-! ### expression forms -/

/-- both operands, then the operator -/
theorem binary_case (n : Nat) (ih : AllSound ops ext prog Φ Gg n) {Gs : List SEnv} {S : Store} {st : St F}
    (op : Op) (l r : Expr F) (tl tr t : Ty) (hl : Typed Φ (lookupG Gs Gg) l tl) (hr : Typed Φ (lookupG Gs Gg) r tr)
    (hsc : ∀ (S' : Store) (v : Val F), canShortCircuit op v = true → VT S' v tl → VT S' v tr)
    (happ : ∀ S' (st' : St F) vl vr, HeapOk S' st'.heap → VT S' vl tl → VT S' vr tr →
      Good (PV t) S' st' (applyBinary ops ext st' op vl vr))
    (hok : StOk S Gs Gg st) :
    GoodX Gg (PV t) S Gs (match evalE ops ext prog n l st with
      | .err o st' => .err o st'
      | .ok left st' =>
        if canShortCircuit op left then applyBinary ops ext st' op left left
        else
          match evalE ops ext prog n r st' with
          | .err o st'' => .err o st''
          | .ok right st'' => applyBinary ops ext st'' op left right) := by
  have h1 := ih.evalE l st Gs S tl hl hok
  cases hq : evalE ops ext prog n l st with
  | err o s1 => rw [hq] at h1; exact h1
  | ok left s1 =>
    rw [hq] at h1
    obtain ⟨S1, g1, hok1, hv1⟩ := h1
    simp only
    split
    · rename_i hc
      exact ((happ S1 s1 left left hok1.heap hv1 (hsc S1 left hc hv1)).toX Gg hok1).grow Gg g1
    · have h2 := ih.evalE r s1 Gs S1 tr hr hok1
      cases hq2 : evalE ops ext prog n r s1 with
      | err o s2 => rw [hq2] at h2; exact h2
      | ok right s2 =>
        rw [hq2] at h2
        obtain ⟨S2, g2, hok2, hv2⟩ := h2
        exact ((happ S2 s2 left right hok2.heap (hv1.mono g2) hv2).toX Gg hok2).grow Gg (g1.trans g2)

theorem no_sc {op : Op} (h : isLogic op = false) (tl tr : Ty) :
    ∀ (S' : Store) (v : Val F), canShortCircuit op v = true → VT S' v tl → VT S' v tr := by
  intro S' v hc
  have := (sc_bool hc).1
  rw [h] at this; cases this

/-- two sub-expressions, then a pure operation on their values -/
theorem two_case (n : Nat) (ih : AllSound ops ext prog Φ Gg n) {Gs : List SEnv} {S : Store} {st : St F}
    (l r : Expr F) (tl tr t : Ty) (hl : Typed Φ (lookupG Gs Gg) l tl) (hr : Typed Φ (lookupG Gs Gg) r tr)
    (f : St F → Val F → Val F → Res F (Val F))
    (happ : ∀ S' (st' : St F) vl vr, HeapOk S' st'.heap → VT S' vl tl → VT S' vr tr → Good (PV t) S' st' (f st' vl vr))
    (hok : StOk S Gs Gg st) :
    GoodX Gg (PV t) S Gs (match evalE ops ext prog n l st with
      | .err o st' => .err o st'
      | .ok left st' =>
        match evalE ops ext prog n r st' with
        | .err o st'' => .err o st''
        | .ok right st'' => f st'' left right) := by
  have h1 := ih.evalE l st Gs S tl hl hok
  cases hq : evalE ops ext prog n l st with
  | err o s1 => rw [hq] at h1; exact h1
  | ok left s1 =>
    rw [hq] at h1
    obtain ⟨S1, g1, hok1, hv1⟩ := h1
    have h2 := ih.evalE r s1 Gs S1 tr hr hok1
    simp only
    cases hq2 : evalE ops ext prog n r s1 with
    | err o s2 => rw [hq2] at h2; exact h2
    | ok right s2 =>
      rw [hq2] at h2
      obtain ⟨S2, g2, hok2, hv2⟩ := h2
      exact ((happ S2 s2 left right hok2.heap (hv1.mono g2) hv2).toX Gg hok2).grow Gg (g1.trans g2)

/-- a sliced expression and its two optional bounds -/
theorem slice_case (n : Nat) (ih : AllSound ops ext prog Φ Gg n) {Gs : List SEnv} {S : Store} {st : St F}
    (l : Expr F) (a b : Option (Expr F)) (tl t : Ty) (hl : Typed Φ (lookupG Gs Gg) l tl)
    (ha : ∀ x, a = some x → Typed Φ (lookupG Gs Gg) x .num) (hb : ∀ x, b = some x → Typed Φ (lookupG Gs Gg) x .num)
    (happ : ∀ S' (st' : St F) vl sv ev, HeapOk S' st'.heap → VT S' vl tl → (∀ v, sv = some v → VT S' v .num) →
      (∀ v, ev = some v → VT S' v .num) → Good (PV t) S' st' (sliceVal ops st' vl sv ev))
    (hok : StOk S Gs Gg st) :
    GoodX Gg (PV t) S Gs (match evalE ops ext prog n l st with
      | .err o st' => .err o st'
      | .ok left st' =>
        match evalOpt ops ext prog n a st' with
        | .err o st'' => .err o st''
        | .ok sv st'' =>
          match evalOpt ops ext prog n b st'' with
          | .err o st3 => .err o st3
          | .ok ev st3 => sliceVal ops st3 left sv ev) := by
  have h1 := ih.evalE l st Gs S tl hl hok
  cases hq : evalE ops ext prog n l st with
  | err o s1 => rw [hq] at h1; exact h1
  | ok left s1 =>
    rw [hq] at h1
    obtain ⟨S1, g1, hok1, hv1⟩ := h1
    have h2 := ih.evalO a s1 Gs S1 ha hok1
    simp only
    cases hq2 : evalOpt ops ext prog n a s1 with
    | err o s2 => rw [hq2] at h2; exact h2
    | ok sv s2 =>
      rw [hq2] at h2
      obtain ⟨S2, g2, hok2, hv2⟩ := h2
      have h3 := ih.evalO b s2 Gs S2 hb hok2
      simp only
      cases hq3 : evalOpt ops ext prog n b s2 with
      | err o s3 => rw [hq3] at h3; exact h3
      | ok ev s3 =>
        rw [hq3] at h3
        obtain ⟨S3, g3, hok3, hv3⟩ := h3
        exact ((happ S3 s3 left sv ev hok3.heap ((hv1.mono g2).mono g3) (fun v hv => (hv2 v hv).mono g3) hv3).toX Gg hok3).grow Gg
          ((g1.trans g2).trans g3)

/-! ### the induction -/

theorem all_sound (hx : ExtOk ext) (hg : GgOk Gg) (hp : ProgOk Φ Gg prog) (n : Nat) : AllSound ops ext prog Φ Gg n := by
  induction n with
  | zero =>
    constructor <;> intros <;>
      simp [evalE, evalList, evalPairs, evalOpt, evalNumOr, evalCall, execS, execStmts, execBlockNode, execCond, execIfChain,
        execWhile, execForLoop, GoodX, GoodS, GoodB, GoodK, GoodC, Doc]
  | succ n ih =>
    constructor
    · -- evalE
      intro e st0 Gs S t hty hok0
      unfold evalE
      cases ht : tick st0 with
      | none => exact trivial
      | some st =>
        obtain ⟨th, tl, tg⟩ := tick_same ht
        have hok : StOk S Gs Gg st := hok0.same Gg th tl tg
        simp only
        cases hty with
        | num v => exact ⟨S, Grows.refl S, hok, .num v⟩
        | str v => exact ⟨S, Grows.refl S, hok, .str v⟩
        | bool v => exact ⟨S, Grows.refl S, hok, .bool v⟩
        | var nm _ hG =>
          simp only
          cases hg : getVar st nm with
          | none => exact trivial
          | some v => exact ⟨S, Grows.refl S, hok, hok.envOk nm t v hG hg⟩
        | any t' inner hne hin =>
          simp only
          have h1 := ih.evalE inner st Gs S t' hin hok
          cases hq : evalE ops ext prog n inner st with
          | err o s1 => rw [hq] at h1; exact h1
          | ok v s1 =>
            rw [hq] at h1
            obtain ⟨S1, g1, hok1, hv1⟩ := h1
            cases v with
            | any t2 w => exact absurd rfl (hv1.not_any hne t2 w)
            | _ => exact ⟨S1, g1, hok1, .any t' _ hne hv1⟩
        | arr elems s hs hel =>
          simp only
          have h1 := ih.evalL elems st Gs S s hel hok
          cases hq : evalList ops ext prog n elems st with
          | err o s1 => rw [hq] at h1; exact h1
          | ok vs s1 =>
            rw [hq] at h1
            obtain ⟨S1, g1, hok1, hv1⟩ := h1
            simp only [alloc]
            obtain ⟨hk', vt⟩ := hok1.heap.push_arr s hs vs hv1
            exact ⟨_, g1.trans (Grows.snoc S1 _), hok1.mono (Grows.snoc S1 _) hk' rfl rfl, vt⟩
        | mapLit pairs s hs hel =>
          simp only
          have h1 := ih.evalP pairs st Gs S s hel hok
          cases hq : evalPairs ops ext prog n pairs st with
          | err o s1 => rw [hq] at h1; exact h1
          | ok ps s1 =>
            rw [hq] at h1
            obtain ⟨S1, g1, hok1, hv1⟩ := h1
            simp only [alloc]
            obtain ⟨hk', vt⟩ := hok1.heap.push_map s hs (MapVal.ofLiteral ps) (ofLiteral_typed ps hv1)
            exact ⟨_, g1.trans (Grows.snoc S1 _), hok1.mono (Grows.snoc S1 _) hk' rfl rfl, vt⟩
        | group inner _ hin => exact ih.evalE inner st Gs S t hin hok
        | neg inner hin =>
          simp only
          have h1 := ih.evalE inner st Gs S .num hin hok
          cases hq : evalE ops ext prog n inner st with
          | err o s1 => rw [hq] at h1; exact h1
          | ok v s1 =>
            rw [hq] at h1
            obtain ⟨S1, g1, hok1, hv1⟩ := h1
            obtain ⟨x, rfl⟩ := hv1.num_inv
            exact ⟨S1, g1, hok1, .num _⟩
        | not inner hin =>
          simp only
          have h1 := ih.evalE inner st Gs S .bool hin hok
          cases hq : evalE ops ext prog n inner st with
          | err o s1 => rw [hq] at h1; exact h1
          | ok v s1 =>
            rw [hq] at h1
            obtain ⟨S1, g1, hok1, hv1⟩ := h1
            obtain ⟨x, rfl⟩ := hv1.bool_inv
            exact ⟨S1, g1, hok1, .bool _⟩
        | arith op l r hop hl hr =>
          refine binary_case ops ext prog Φ Gg n ih op l r .num .num .num hl hr (no_sc (by cases op <;> simp_all [isArith, isLogic]) _ _) ?_ hok
          intro S' st' vl vr hk' h1 h2
          obtain ⟨x, rfl⟩ := h1.num_inv; obtain ⟨y, rfl⟩ := h2.num_inv
          exact apply_arith ops ext hx hk' op hop x y
        | cmpNum op l r hop hl hr =>
          refine binary_case ops ext prog Φ Gg n ih op l r .num .num .bool hl hr (no_sc (by cases op <;> simp_all [isCmp, isLogic]) _ _) ?_ hok
          intro S' st' vl vr hk' h1 h2
          obtain ⟨x, rfl⟩ := h1.num_inv; obtain ⟨y, rfl⟩ := h2.num_inv
          exact apply_cmpNum ops ext hk' op hop x y
        | cmpStr op l r hop hl hr =>
          refine binary_case ops ext prog Φ Gg n ih op l r .str .str .bool hl hr (no_sc (by cases op <;> simp_all [isCmp, isLogic]) _ _) ?_ hok
          intro S' st' vl vr hk' h1 h2
          obtain ⟨x, rfl⟩ := h1.str_inv; obtain ⟨y, rfl⟩ := h2.str_inv
          exact apply_cmpStr ops ext hk' op hop x y
        | concat l r hl hr =>
          refine binary_case ops ext prog Φ Gg n ih .plus l r .str .str .str hl hr (no_sc (by simp [isLogic]) _ _) ?_ hok
          intro S' st' vl vr hk' h1 h2
          obtain ⟨x, rfl⟩ := h1.str_inv; obtain ⟨y, rfl⟩ := h2.str_inv
          exact apply_concat ops ext hk' x y
        | logic op l r hop hl hr =>
          refine binary_case ops ext prog Φ Gg n ih op l r .bool .bool .bool hl hr (fun _ _ _ h => h) ?_ hok
          intro S' st' vl vr hk' h1 h2
          obtain ⟨x, rfl⟩ := h1.bool_inv; obtain ⟨y, rfl⟩ := h2.bool_inv
          exact apply_logic ops ext hk' op hop x y
        | eq op l r t' hop hl hr =>
          refine binary_case ops ext prog Φ Gg n ih op l r t' t' .bool hl hr (fun _ _ _ h => h) ?_ hok
          intro S' st' vl vr hk' h1 h2
          exact apply_eq ops ext hk' op hop t' vl vr h1 h2
        | arrCat l r s hl hr =>
          refine binary_case ops ext prog Φ Gg n ih .plus l r (.arr s) (.arr s) (.arr s) hl hr (fun _ _ _ h => h) ?_ hok
          intro S' st' vl vr hk' h1 h2
          exact apply_arrCat ops ext hk' s vl vr h1 h2
        | arrRep l r s hl hr =>
          refine binary_case ops ext prog Φ Gg n ih .asterisk l r (.arr s) .num (.arr s) hl hr (no_sc (by simp [isLogic]) _ _) ?_ hok
          intro S' st' vl vr hk' h1 h2
          obtain ⟨y, rfl⟩ := h2.num_inv
          exact apply_arrRep ops ext hk' s vl y h1
        | idxArr l i _ hl hi =>
          exact two_case ops ext prog Φ Gg n ih l i _ .num t hl hi (fun st' a b => indexVal ops st' a b)
            (fun S' st' vl vr hk' h1 h2 => index_arr ops hk' t vl vr h1 h2) hok
        | idxStr l i hl hi =>
          exact two_case ops ext prog Φ Gg n ih l i .str .num .str hl hi (fun st' a b => indexVal ops st' a b)
            (fun S' st' vl vr hk' h1 h2 => index_str ops hk' vl vr h1 h2) hok
        | idxMap l i _ hl hi =>
          exact two_case ops ext prog Φ Gg n ih l i _ .str t hl hi (fun st' a b => indexVal ops st' a b)
            (fun S' st' vl vr hk' h1 h2 => index_map ops hk' t vl vr h1 h2) hok
        | sliceArr l a b s hl ha hb =>
          exact slice_case ops ext prog Φ Gg n ih l a b (.arr s) (.arr s) hl ha hb
            (fun S' st' vl sv ev hk' h1 h2 h3 => slice_arr ops hk' s vl sv ev h1 h2 h3) hok
        | sliceStr l a b hl ha hb =>
          exact slice_case ops ext prog Φ Gg n ih l a b .str .str hl ha hb
            (fun S' st' vl sv ev hk' h1 h2 h3 => slice_str ops hk' vl sv ev h1 h2 h3) hok
        | dot l key _ hl =>
          simp only
          have h1 := ih.evalE l st Gs S _ hl hok
          cases hq : evalE ops ext prog n l st with
          | err o s1 => rw [hq] at h1; exact h1
          | ok left s1 =>
            rw [hq] at h1
            obtain ⟨S1, g1, hok1, hv1⟩ := h1
            obtain ⟨a, rfl, ha⟩ := hv1.map_inv
            obtain ⟨m, hm, hms⟩ := hok1.heap.map a _ ha
            simp only [heapGet, hm]
            cases hg : m.get key with
            | none => exact trivial
            | some v => exact ⟨S1, g1, hok1, get_typed m hms key v hg⟩
        | assert _ inner hne hreg hin =>
          simp only
          have h1 := ih.evalE inner st Gs S .any hin hok
          cases hq : evalE ops ext prog n inner st with
          | err o s1 => rw [hq] at h1; exact h1
          | ok v s1 =>
            rw [hq] at h1
            obtain ⟨S1, g1, hok1, hv1⟩ := h1
            obtain ⟨t', w, rfl, hne', hw⟩ := hv1.any_inv
            simp only
            split
            · rename_i heq
              have := equals_eq (hok1.heap.reg_of hw) hreg heq
              subst this
              exact ⟨S1, g1, hok1, hw⟩
            · exact trivial
        | builtin name args sig tys _ hsig hret hle hfix hlen hargs hpred =>
          simp only
          exact (ih.builtin name args sig tys st Gs S hsig hle hfix hlen hargs hpred hok).imp Gg (fun S' v h => h t hret)
        | callV name args sig tv _ hphi hv hret hargs =>
          simp only
          exact (ih.callV name args sig tv st Gs S hphi hv hargs hok).imp Gg (fun S' v h => h t hret)
        | call name args sig _ hphi hvn hret hlen hargs =>
          simp only
          exact (ih.call name args sig st Gs S hphi hvn hlen hargs hok).imp Gg (fun S' v h => h t hret)
    · -- evalL
      intro es st Gs S s hes hok
      cases es with
      | nil => exact ⟨S, Grows.refl S, hok, (by intro v hv; cases hv)⟩
      | cons e rest =>
        unfold evalList
        have h1 := ih.evalE e st Gs S s (hes e List.mem_cons_self) hok
        cases hq : evalE ops ext prog n e st with
        | err o s1 => rw [hq] at h1; exact h1
        | ok v s1 =>
          rw [hq] at h1
          obtain ⟨S1, g1, hok1, hv1⟩ := h1
          have h2 := ih.evalL rest s1 Gs S1 s (fun x hx' => hes x (List.mem_cons_of_mem _ hx')) hok1
          simp only
          cases hq2 : evalList ops ext prog n rest s1 with
          | err o s2 => rw [hq2] at h2; exact h2
          | ok vs s2 =>
            rw [hq2] at h2
            obtain ⟨S2, g2, hok2, hv2⟩ := h2
            refine ⟨S2, g1.trans g2, hok2, ?_⟩
            intro x hx'
            rcases List.mem_cons.mp hx' with h | h
            · subst h; exact hv1.mono g2
            · exact hv2 x h
    · -- evalP
      intro ps st Gs S s hps hok
      cases ps with
      | nil => exact ⟨S, Grows.refl S, hok, (by intro v hv; cases hv)⟩
      | cons p rest =>
        obtain ⟨k, e⟩ := p
        unfold evalPairs
        have h1 := ih.evalE e st Gs S s (hps (k, e) List.mem_cons_self) hok
        cases hq : evalE ops ext prog n e st with
        | err o s1 => rw [hq] at h1; exact h1
        | ok v s1 =>
          rw [hq] at h1
          obtain ⟨S1, g1, hok1, hv1⟩ := h1
          have h2 := ih.evalP rest s1 Gs S1 s (fun x hx' => hps x (List.mem_cons_of_mem _ hx')) hok1
          simp only
          cases hq2 : evalPairs ops ext prog n rest s1 with
          | err o s2 => rw [hq2] at h2; exact h2
          | ok vs s2 =>
            rw [hq2] at h2
            obtain ⟨S2, g2, hok2, hv2⟩ := h2
            refine ⟨S2, g1.trans g2, hok2, ?_⟩
            intro x hx'
            rcases List.mem_cons.mp hx' with h | h
            · subst h; exact hv1.mono g2
            · exact hv2 x h
    · -- evalO
      intro oe st Gs S hoe hok
      cases oe with
      | none => exact ⟨S, Grows.refl S, hok, (by intro v hv; cases hv)⟩
      | some e =>
        unfold evalOpt
        have h1 := ih.evalE e st Gs S .num (hoe e rfl) hok
        cases hq : evalE ops ext prog n e st with
        | err o s1 => rw [hq] at h1; exact h1
        | ok v s1 =>
          rw [hq] at h1
          obtain ⟨S1, g1, hok1, hv1⟩ := h1
          exact ⟨S1, g1, hok1, (by intro w hw; cases hw; exact hv1)⟩
    · -- evalA
      intro es st Gs S hes hok
      cases es with
      | nil => exact ⟨S, Grows.refl S, hok, (by intro v hv; cases hv)⟩
      | cons e rest =>
        unfold evalList
        obtain ⟨t, hty⟩ := hes e List.mem_cons_self
        have h1 := ih.evalE e st Gs S t hty hok
        cases hq : evalE ops ext prog n e st with
        | err o s1 => rw [hq] at h1; exact h1
        | ok v s1 =>
          rw [hq] at h1
          obtain ⟨S1, g1, hok1, hv1⟩ := h1
          have h2 := ih.evalA rest s1 Gs S1 (fun x hx' => hes x (List.mem_cons_of_mem _ hx')) hok1
          simp only
          cases hq2 : evalList ops ext prog n rest s1 with
          | err o s2 => rw [hq2] at h2; exact h2
          | ok vs s2 =>
            rw [hq2] at h2
            obtain ⟨S2, g2, hok2, hv2⟩ := h2
            refine ⟨S2, g1.trans g2, hok2, ?_⟩
            intro x hx'
            rcases List.mem_cons.mp hx' with h | h
            · subst h; exact ⟨t, hv1.mono g2⟩
            · exact hv2 x h
    · -- evalZ: one argument per parameter
      intro es ts st Gs S hlen hes hok
      cases es with
      | nil =>
        cases ts with
        | nil => exact ⟨S, Grows.refl S, hok, rfl, (by intro i v pt hv; simp at hv)⟩
        | cons t ts => simp at hlen
      | cons e rest =>
        cases ts with
        | nil => simp at hlen
        | cons t ts =>
          unfold evalList
          have h1 := ih.evalE e st Gs S t (hes 0 e t rfl rfl) hok
          cases hq : evalE ops ext prog n e st with
          | err o s1 => rw [hq] at h1; exact h1
          | ok v s1 =>
            rw [hq] at h1
            obtain ⟨S1, g1, hok1, hv1⟩ := h1
            have h2 := ih.evalZ rest ts s1 Gs S1 (by simpa using hlen)
              (fun i a pt h1' h2' => hes (i + 1) a pt (by simpa using h1') (by simpa using h2')) hok1
            simp only
            cases hq2 : evalList ops ext prog n rest s1 with
            | err o s2 => rw [hq2] at h2; exact h2
            | ok vs s2 =>
              rw [hq2] at h2
              obtain ⟨S2, g2, hok2, hl2, hv2⟩ := h2
              refine ⟨S2, g1.trans g2, hok2, by simp [hl2], ?_⟩
              intro i w pt hw hpt
              cases i with
              | zero => simp at hw hpt; subst hw hpt; exact hv1.mono g2
              | succ j => exact hv2 j w pt (by simpa using hw) (by simpa using hpt)
    · -- evalNumOr
      intro oe d st Gs S hoe hok
      unfold evalNumOr
      have key : ∀ e, Typed Φ (lookupG Gs Gg) e .num →
          GoodX Gg (fun _ (_ : F) => True) S Gs (match evalE ops ext prog n e st with
            | .err o st' => (.err o st' : Res F F)
            | .ok (.num v) st' => .ok v st'
            | .ok _ st' => .err (.internal "ErrType: expected number") st') := by
        intro e hte
        have h1 := ih.evalE e st Gs S .num hte hok
        cases hq : evalE ops ext prog n e st with
        | err o s1 => rw [hq] at h1; exact h1
        | ok v s1 =>
          rw [hq] at h1
          obtain ⟨S1, g1, hok1, hv1⟩ := h1
          obtain ⟨x, rfl⟩ := hv1.num_inv
          exact ⟨S1, g1, hok1, trivial⟩
      cases oe with
      | none => exact key _ (.num d)
      | some e => exact key e (hoe e rfl)
    · -- a call of a variadic user-defined function
      intro name args sig tv st Gs S hphi hv hargs hok
      unfold evalCall
      have h1 := ih.evalL args st Gs S tv hargs hok
      cases hq : evalList ops ext prog n args st with
      | err o s1 => rw [hq] at h1; exact h1
      | ok vs s1 =>
        rw [hq] at h1
        obtain ⟨S1, g1, hok1, hvs⟩ := h1
        obtain ⟨hnb, fd, hfd⟩ := hp.defined name sig hphi
        obtain ⟨⟨vn, hvar, hvne, hbody⟩, hpar, hreg, hret⟩ := hp.typedV name sig fd tv hphi hfd hv
        simp only [callBuiltin_none ops ext name vs s1 hnb, hfd]
        have hnl : ¬ vs.length < fd.params.length := by simp [hpar]
        simp only [hnl, if_false]
        -- the state in which the body starts: the array of all arguments bound to the variadic parameter
        obtain ⟨hk2, vt2⟩ := hok1.heap.push_arr tv hreg vs hvs
        have g2 := Grows.snoc S1 (Ty.arr tv)
        have hcs : calleeState fd vs s1 =
            { s1 with locals := [[(vn, Val.arr s1.heap.size)]], heap := s1.heap.push (.arr vs) } := by
          simp [calleeState, hvar, hpar, bindParams, alloc, setVar, hvne, scopeSet]
        have hokc : StOk (S1 ++ [Ty.arr tv]) [[(vn, Ty.arr tv)]] Gg (calleeState fd vs s1) := by
          rw [hcs]
          exact ⟨.cons (.cons ⟨rfl, vt2⟩ .nil) .nil, hok1.global.mono g2, hk2⟩
        have h2 := ih.execN sig.ret fd.body (calleeState fd vs s1) [[(vn, Ty.arr tv)]] (S1 ++ [Ty.arr tv]) hbody hokc
        cases hq2 : execBlockNode ops ext prog n fd.body (calleeState fd vs s1) with
        | err o s4 => rw [hq2] at h2; exact h2
        | ok c s4 =>
          rw [hq2] at h2
          obtain ⟨S4, Gx, g4, hok4, _, _, hc4⟩ := h2
          have hback : StOk S4 Gs Gg { s4 with locals := s1.locals } :=
            ⟨hok1.locals.mono (g2.trans g4), hok4.global, hok4.heap⟩
          cases c with
          | ret rv =>
            cases rv with
            | some v =>
              obtain ⟨t', ht', hv'⟩ := hc4
              exact ⟨S4, g1.trans (g2.trans g4), hback, fun t ht => by rw [ht'] at ht; cases ht; exact hv'⟩
            | none =>
              refine ⟨S4, g1.trans (g2.trans g4), hback, fun t ht => ?_⟩
              obtain ⟨hbt, hfn⟩ := hret t ht
              obtain ⟨v, hv⟩ := C05.typed_function_returns_a_value ops ext prog n fd.body _ s4 _ hbt hfn hq2
              cases hv
          | normal =>
            refine ⟨S4, g1.trans (g2.trans g4), hback, fun t ht => ?_⟩
            obtain ⟨hbt, hfn⟩ := hret t ht
            obtain ⟨v, hv⟩ := C05.typed_function_returns_a_value ops ext prog n fd.body _ s4 _ hbt hfn hq2
            cases hv
          | brk =>
            refine ⟨S4, g1.trans (g2.trans g4), hback, fun t ht => ?_⟩
            obtain ⟨hbt, hfn⟩ := hret t ht
            obtain ⟨v, hv⟩ := C05.typed_function_returns_a_value ops ext prog n fd.body _ s4 _ hbt hfn hq2
            cases hv
    · -- a call of a user-defined function
      intro name args sig st Gs S hphi hvn hlen hargs hok
      unfold evalCall
      have h1 := ih.evalZ args sig.params st Gs S hlen hargs hok
      cases hq : evalList ops ext prog n args st with
      | err o s1 => rw [hq] at h1; exact h1
      | ok vs s1 =>
        rw [hq] at h1
        obtain ⟨S1, g1, hok1, hvl, hvs⟩ := h1
        obtain ⟨hnb, fd, hfd⟩ := hp.defined name sig hphi
        obtain ⟨hvar, hpl, hbody, hret⟩ := hp.typed name sig fd hphi hfd hvn
        simp only [callBuiltin_none ops ext name vs s1 hnb, hfd]
        have hnl : ¬ vs.length < fd.params.length := by omega
        simp only [hnl, if_false]
        -- the state in which the body starts
        have hcs : calleeState fd vs s1 = bindParams fd.params vs { s1 with locals := [[]] } := by
          simp [calleeState, hvar]
        obtain ⟨sc', hl', hsc', hg', hh'⟩ := bindParams_ok fd.params sig.params vs { s1 with locals := [[]] } [] [] rfl .nil hpl hvl hvs
        have hokc : StOk S1 [paramScope fd.params sig.params []] Gg (calleeState fd vs s1) := by
          rw [hcs]
          exact ⟨by rw [hl']; exact .cons hsc' .nil, by rw [hg']; exact hok1.global, by rw [hh']; exact hok1.heap⟩
        have h2 := ih.execN sig.ret fd.body (calleeState fd vs s1) [paramScope fd.params sig.params []] S1 hbody hokc
        cases hq2 : execBlockNode ops ext prog n fd.body (calleeState fd vs s1) with
        | err o s4 => rw [hq2] at h2; exact h2
        | ok c s4 =>
          rw [hq2] at h2
          obtain ⟨S4, Gx, g4, hok4, _, _, hc4⟩ := h2
          have hback : StOk S4 Gs Gg { s4 with locals := s1.locals } :=
            ⟨hok1.locals.mono g4, hok4.global, hok4.heap⟩
          cases c with
          | ret rv =>
            cases rv with
            | some v =>
              obtain ⟨t', ht', hv'⟩ := hc4
              exact ⟨S4, g1.trans g4, hback, fun t ht => by rw [ht'] at ht; cases ht; exact hv'⟩
            | none =>
              refine ⟨S4, g1.trans g4, hback, fun t ht => ?_⟩
              obtain ⟨hbt, hfn⟩ := hret t ht
              obtain ⟨v, hv⟩ := C05.typed_function_returns_a_value ops ext prog n fd.body _ s4 _ hbt hfn hq2
              cases hv
          | normal =>
            refine ⟨S4, g1.trans g4, hback, fun t ht => ?_⟩
            obtain ⟨hbt, hfn⟩ := hret t ht
            obtain ⟨v, hv⟩ := C05.typed_function_returns_a_value ops ext prog n fd.body _ s4 _ hbt hfn hq2
            cases hv
          | brk =>
            refine ⟨S4, g1.trans g4, hback, fun t ht => ?_⟩
            obtain ⟨hbt, hfn⟩ := hret t ht
            obtain ⟨v, hv⟩ := C05.typed_function_returns_a_value ops ext prog n fd.body _ s4 _ hbt hfn hq2
            cases hv
    · -- a built-in of the typed fragment
      intro name args sig tys st Gs S hsig hle hfix hlen hargs hpred hok
      unfold evalCall
      have h1 := ih.evalZ args tys st Gs S hlen hargs hok
      cases hq : evalList ops ext prog n args st with
      | err o s1 => rw [hq] at h1; exact h1
      | ok vs s1 =>
        rw [hq] at h1
        obtain ⟨S1, g1, hok1, hvl, hvs⟩ := h1
        obtain ⟨hnt, r, hcb, hgood⟩ := builtin_ok ops ext Gg hx hg name sig tys vs s1 S1 hsig (by omega) (fun h => by have := hfix h; omega)
          ⟨hvl, hvs⟩ hpred hok1.heap hok1.global
        simp only [hcb, hnt, if_false]
        cases r with
        | err o s2 => exact hgood
        | ok v s2 =>
          obtain ⟨S2, g2, hk2, hgl2, hl2, hv2⟩ := hgood
          exact ⟨S2, g1.trans g2, ⟨by rw [hl2]; exact hok1.locals.mono g2, hgl2, hk2⟩, hv2⟩
    · -- test
      intro args st Gs S hargs hok
      unfold evalCall
      have h1 := ih.evalL args st Gs S .any hargs hok
      cases hq : evalList ops ext prog n args st with
      | err o s1 => rw [hq] at h1; exact h1
      | ok vs s1 =>
        rw [hq] at h1
        obtain ⟨S1, g1, hok1, hvs⟩ := h1
        obtain ⟨r, hcb, hr⟩ := bi_test ops ext vs s1 hvs
        have ht : String.ofList (lit "test") = "test" := by decide
        simp only [hcb, ht, if_true]
        rcases hr with rfl | rfl | rfl
        · exact ⟨S1, g1, hok1.same Gg rfl rfl rfl, trivial⟩
        · simp only
          split
          · exact rfl
          · exact ⟨S1, g1, hok1.same Gg rfl rfl rfl, trivial⟩
        · exact trivial
    · -- print
      intro args st Gs S hargs hok
      unfold evalCall
      have h1 := ih.evalA args st Gs S hargs hok
      cases hq : evalList ops ext prog n args st with
      | err o s1 => rw [hq] at h1; exact h1
      | ok vs s1 =>
        rw [hq] at h1
        obtain ⟨S1, g1, hok1, _⟩ := h1
        simp only [print_builtin]
        have hnt : ¬ (String.ofList (lit "print") = "test") := by decide
        simp only [hnt, if_false]
        cases joinVals ops s1 vs [' '] with
        | none => exact trivial
        | some str => exact ⟨S1, g1, hok1.same Gg rfl rfl rfl, trivial⟩
    · -- one statement
      intro ρ s st0 Gs Gs' S hty hok0
      unfold execS
      cases ht : tick st0 with
      | none => exact trivial
      | some st =>
        obtain ⟨th, tl, tg⟩ := tick_same ht
        have hok : StOk S Gs Gg st := hok0.same Gg th tl tg
        simp only
        cases hty with
        | noop => exact ⟨S, Gs, Grows.refl S, hok, rfl, rfl, fun _ => rfl, trivial⟩
        | brk => exact ⟨S, Gs, Grows.refl S, hok, rfl, rfl, (fun h => by cases h), trivial⟩
        | declLocal h rest nm e t hne hte =>
          simp only
          have h1 := ih.evalE e st _ S t hte hok
          cases hq : evalE ops ext prog n e st with
          | err o s1 => rw [hq] at h1; exact h1
          | ok v s1 =>
            rw [hq] at h1
            obtain ⟨S1, g1, hok1, hv1⟩ := h1
            have hl := hok1.locals
            cases hl' : s1.locals with
            | nil => rw [hl'] at hl; cases hl
            | cons sc scs =>
              rw [hl'] at hl
              cases hl with
              | cons hsc hrest =>
                refine ⟨S1, senvSet h nm t :: rest, g1, ⟨?_, ?_, ?_⟩, rfl, rfl, fun _ => rfl, trivial⟩
                · simp only [setVar, hne, if_false, hl']
                  exact .cons (hsc.set nm v t hv1) hrest
                · simp only [setVar, hne, if_false, hl']; exact hok1.global
                · simp only [setVar, hne, if_false, hl']; exact hok1.heap
        | declGlobal nm e t hne hg hte =>
          simp only
          have h1 := ih.evalE e st _ S t hte hok
          cases hq : evalE ops ext prog n e st with
          | err o s1 => rw [hq] at h1; exact h1
          | ok v s1 =>
            rw [hq] at h1
            obtain ⟨S1, g1, hok1, hv1⟩ := h1
            have hl := hok1.locals
            cases hl' : s1.locals with
            | cons sc scs => rw [hl'] at hl; cases hl
            | nil =>
              refine ⟨S1, [], g1, ⟨?_, ?_, ?_⟩, rfl, rfl, fun _ => rfl, trivial⟩
              · simp only [setVar, hne, if_false, hl']; exact .nil
              · simp only [setVar, hne, if_false, hl']
                exact hok1.global.set nm v (fun t' ht' => by rw [hg] at ht'; cases ht'; exact hv1)
              · simp only [setVar, hne, if_false, hl']; exact hok1.heap
        | assignVar _ nm e t hlk hte =>
          simp only
          have hne := lookupG_ne_underscore Gg hlk
          have h1 := ih.evalE e st _ S t hte hok
          cases hq : evalE ops ext prog n e st with
          | err o s1 => rw [hq] at h1; exact h1
          | ok v s1 =>
            rw [hq] at h1
            obtain ⟨S1, g1, hok1, hv1⟩ := h1
            simp only [updateVar, hne, if_false]
            simp only [lookupG, hne, if_false] at hlk
            have hu := hok1.locals.update nm v t hv1
            cases hf : List.findSome? (fun s => senvGet s nm) Gs with
            | some t' =>
              rw [hf] at hlk; simp only at hlk; cases hlk
              obtain ⟨l', hl', hokl⟩ := hu.1 hf
              rw [hl']
              exact ⟨S1, Gs, g1, ⟨hokl, hok1.global, hok1.heap⟩, rfl, rfl, fun _ => rfl, trivial⟩
            | none =>
              rw [hf] at hlk; simp only at hlk
              rw [hu.2 hf]
              by_cases hs : (scopeGet s1.global nm).isSome = true
              · simp only [hs, if_true]
                exact ⟨S1, Gs, g1, ⟨hok1.locals, hok1.global.set nm v (fun t' ht' => by rw [hlk] at ht'; cases ht'; exact hv1), hok1.heap⟩,
                  rfl, rfl, fun _ => rfl, trivial⟩
              · simp only [hs]
                exact trivial
        | assignIdxArr _ l i e s hl hi hte =>
          simp only
          have h1 := ih.evalE e st _ S s hte hok
          cases hq : evalE ops ext prog n e st with
          | err o s1 => rw [hq] at h1; exact h1
          | ok v s1 =>
            rw [hq] at h1
            obtain ⟨S1, g1, hok1, hv1⟩ := h1
            simp only
            have h2 := ih.evalE l s1 _ S1 _ hl hok1
            cases hq2 : evalE ops ext prog n l s1 with
            | err o s2 => rw [hq2] at h2; exact h2
            | ok left s2 =>
              rw [hq2] at h2
              obtain ⟨S2, g2, hok2, hv2⟩ := h2
              simp only
              have h3 := ih.evalE i s2 _ S2 _ hi hok2
              cases hq3 : evalE ops ext prog n i s2 with
              | err o s3 => rw [hq3] at h3; exact h3
              | ok idx s3 =>
                rw [hq3] at h3
                obtain ⟨S3, g3, hok3, hv3⟩ := h3
                obtain ⟨a, rfl, ha⟩ := (hv2.mono g3).arr_inv
                obtain ⟨iv, rfl⟩ := hv3.num_inv
                obtain ⟨es, hes, hest⟩ := hok3.heap.arr a s ha
                simp only [heapGet, hes]
                cases hsi : setIndexList ops es iv v with
                | error er => cases er <;> exact trivial
                | ok o =>
                  cases o with
                  | none => exact absurd hsi (setIndex_never_gopanic ops es iv v)
                  | some es' =>
                    refine ⟨S3, Gs, (g1.trans g2).trans g3, ⟨hok3.locals, hok3.global, ?_⟩, rfl, rfl, fun _ => rfl, trivial⟩
                    exact hok3.heap.set_arr a s ha es' (setIndex_typed ops es es' iv v hest ((hv1.mono g2).mono g3) hsi)
        | assignIdxMap _ l i e s hl hi hte =>
          simp only
          have h1 := ih.evalE e st _ S s hte hok
          cases hq : evalE ops ext prog n e st with
          | err o s1 => rw [hq] at h1; exact h1
          | ok v s1 =>
            rw [hq] at h1
            obtain ⟨S1, g1, hok1, hv1⟩ := h1
            simp only
            have h2 := ih.evalE l s1 _ S1 _ hl hok1
            cases hq2 : evalE ops ext prog n l s1 with
            | err o s2 => rw [hq2] at h2; exact h2
            | ok left s2 =>
              rw [hq2] at h2
              obtain ⟨S2, g2, hok2, hv2⟩ := h2
              simp only
              have h3 := ih.evalE i s2 _ S2 _ hi hok2
              cases hq3 : evalE ops ext prog n i s2 with
              | err o s3 => rw [hq3] at h3; exact h3
              | ok idx s3 =>
                rw [hq3] at h3
                obtain ⟨S3, g3, hok3, hv3⟩ := h3
                obtain ⟨a, rfl, ha⟩ := (hv2.mono g3).map_inv
                obtain ⟨k, rfl⟩ := hv3.str_inv
                obtain ⟨m, hm, hmt⟩ := hok3.heap.map a s ha
                simp only [heapGet, hm]
                refine ⟨S3, Gs, (g1.trans g2).trans g3, ⟨hok3.locals, hok3.global, ?_⟩, rfl, rfl, fun _ => rfl, trivial⟩
                exact hok3.heap.set_map a s ha _ (setKey_typed m k v hmt ((hv1.mono g2).mono g3))
        | assignDot _ l key e s hl hte =>
          simp only
          have h1 := ih.evalE e st _ S s hte hok
          cases hq : evalE ops ext prog n e st with
          | err o s1 => rw [hq] at h1; exact h1
          | ok v s1 =>
            rw [hq] at h1
            obtain ⟨S1, g1, hok1, hv1⟩ := h1
            simp only
            have h2 := ih.evalE l s1 _ S1 _ hl hok1
            cases hq2 : evalE ops ext prog n l s1 with
            | err o s2 => rw [hq2] at h2; exact h2
            | ok left s2 =>
              rw [hq2] at h2
              obtain ⟨S2, g2, hok2, hv2⟩ := h2
              obtain ⟨a, rfl, ha⟩ := hv2.map_inv
              obtain ⟨m, hm, hmt⟩ := hok2.heap.map a s ha
              simp only [heapGet, hm]
              refine ⟨S2, Gs, g1.trans g2, ⟨hok2.locals, hok2.global, ?_⟩, rfl, rfl, fun _ => rfl, trivial⟩
              exact hok2.heap.set_map a s ha _ (setKey_typed m key v hmt (hv1.mono g2))
        | retNone _ hr => exact ⟨S, Gs, Grows.refl S, hok, rfl, rfl, (fun h => by cases h), hr⟩
        | retSome _ e t hr hte =>
          simp only
          have h1 := ih.evalE e st _ S t hte hok
          cases hq : evalE ops ext prog n e st with
          | err o s1 => rw [hq] at h1; exact h1
          | ok v s1 =>
            rw [hq] at h1
            obtain ⟨S1, g1, hok1, hv1⟩ := h1
            exact ⟨S1, Gs, g1, hok1, rfl, rfl, (fun h => by cases h), ⟨t, hr, hv1⟩⟩
        | ifS _ conds els hc hb he => exact (ih.execI ρ conds els st Gs S hc hb he hok).toS Gg ρ
        | whileS _ c body hc hb => exact (ih.execW ρ c body st Gs S hc hb hok).toS Gg ρ
        | forStep _ lv lvTy start stop step body hlv hstart hstop hstep hbody =>
          simp only
          have hp := hok.push Gg
          have e1 : lookupG ([] :: Gs) Gg = lookupG Gs Gg := lookupG_push Gs Gg
          have h1 := ih.numOr start ops.zero (pushScope st) _ S (by rw [e1]; exact hstart) hp
          cases hq : evalNumOr ops ext prog n start ops.zero (pushScope st) with
          | err o s1 => rw [hq] at h1; exact h1
          | ok a s1 =>
            rw [hq] at h1
            obtain ⟨S1, g1, hok1, _⟩ := h1
            simp only
            have h2 := ih.numOr (some stop) ops.zero s1 _ S1 (by intro x hx'; cases hx'; rw [e1]; exact hstop) hok1
            cases hq2 : evalNumOr ops ext prog n (some stop) ops.zero s1 with
            | err o s2 => rw [hq2] at h2; exact h2
            | ok b s2 =>
              rw [hq2] at h2
              obtain ⟨S2, g2, hok2, _⟩ := h2
              simp only
              have h3 := ih.numOr step ops.one s2 _ S2 (by rw [e1]; exact hstep) hok2
              cases hq3 : evalNumOr ops ext prog n step ops.one s2 with
              | err o s3 => rw [hq3] at h3; exact h3
              | ok c s3 =>
                rw [hq3] at h3
                obtain ⟨S3, g3, hok3, _⟩ := h3
                by_cases hc : ops.eq c ops.zero = true
                · simp only [hc, if_true]; exact trivial
                · simp only [hc]
                  have hls := loop_scope_ok Gg hok3 lv .num hlv (.num ops.zero) (.num _)
                  have hf := ih.execF ρ lv .num (.step a b c) body _ Gs S3 hlv rfl hbody hls
                  exact for_finish Gg ρ _ ((g1.trans g2).trans g3) _ hf
        | forArr _ lv lvTy e s body hlv hlt he hbody =>
          simp only
          have hp := hok.push Gg
          have e1 : lookupG ([] :: Gs) Gg = lookupG Gs Gg := lookupG_push Gs Gg
          have h1 := ih.evalE e (pushScope st) _ S (.arr s) (by rw [e1]; exact he) hp
          cases hq : evalE ops ext prog n e (pushScope st) with
          | err o s1 => rw [hq] at h1; exact h1
          | ok v s1 =>
            rw [hq] at h1
            obtain ⟨S1, g1, hok1, hv1⟩ := h1
            obtain ⟨a, rfl, ha⟩ := hv1.arr_inv
            have hs : Reg s = true := by have := hok1.heap.reg _ (List.mem_of_getElem? ha); simpa [Reg] using this
            simp only
            cases lv with
            | none =>
              have hf := ih.execF ρ none s (.arr a 0) body s1 Gs S1 hlv ha hbody hok1
              exact for_finish Gg ρ _ g1 _ hf
            | some nm =>
              have := hlt (by simp); subst this
              obtain ⟨S2, g2, hk2, hz, zl, zg⟩ := zeroVal_typed ops hok1.heap lvTy hs
              have hok2 : StOk S2 ([] :: Gs) Gg (zeroVal ops s1 lvTy).2 := hok1.mono g2 hk2 zl zg
              have hls := loop_scope_ok Gg hok2 (some nm) lvTy hlv _ hz
              have hf := ih.execF ρ (some nm) lvTy (.arr a 0) body _ Gs S2 hlv (g2.get ha) hbody hls
              exact for_finish Gg ρ _ (g1.trans g2) _ hf
        | forStr _ lv lvTy e body hlv he hbody =>
          simp only
          have hp := hok.push Gg
          have e1 : lookupG ([] :: Gs) Gg = lookupG Gs Gg := lookupG_push Gs Gg
          have h1 := ih.evalE e (pushScope st) _ S .str (by rw [e1]; exact he) hp
          cases hq : evalE ops ext prog n e (pushScope st) with
          | err o s1 => rw [hq] at h1; exact h1
          | ok v s1 =>
            rw [hq] at h1
            obtain ⟨S1, g1, hok1, hv1⟩ := h1
            obtain ⟨cs, rfl⟩ := hv1.str_inv
            simp only
            have hls := loop_scope_ok Gg hok1 lv .str hlv (.str []) (.str _)
            have hf := ih.execF ρ lv .str (.str cs 0) body _ Gs S1 hlv rfl hbody hls
            exact for_finish Gg ρ _ g1 _ hf
        | forMap _ lv lvTy e s body hlv he hbody =>
          simp only
          have hp := hok.push Gg
          have e1 : lookupG ([] :: Gs) Gg = lookupG Gs Gg := lookupG_push Gs Gg
          have h1 := ih.evalE e (pushScope st) _ S (.map s) (by rw [e1]; exact he) hp
          cases hq : evalE ops ext prog n e (pushScope st) with
          | err o s1 => rw [hq] at h1; exact h1
          | ok v s1 =>
            rw [hq] at h1
            obtain ⟨S1, g1, hok1, hv1⟩ := h1
            obtain ⟨a, rfl, ha⟩ := hv1.map_inv
            obtain ⟨m, hm, _⟩ := hok1.heap.map a s ha
            simp only [heapGet, hm]
            have hls := loop_scope_ok Gg hok1 lv .str hlv (.str []) (.str _)
            have hf := ih.execF ρ lv .str (.map a m.order) body _ Gs S1 hlv rfl hbody hls
            exact for_finish Gg ρ _ g1 _ hf
        | callBi _ name args sig tys hsig hle hfix hlen hargs hpred =>
          simp only
          have h1 := ih.builtin name args sig tys st Gs S hsig hle hfix hlen hargs hpred hok
          cases hq : evalCall ops ext prog n name args st with
          | err o s1 => rw [hq] at h1; exact h1
          | ok v s1 =>
            rw [hq] at h1
            obtain ⟨S1, g1, hok1, _⟩ := h1
            exact ⟨S1, Gs, g1, hok1, rfl, rfl, fun _ => rfl, trivial⟩
        | callTest _ args hargs =>
          simp only
          have h1 := ih.test args st Gs S hargs hok
          cases hq : evalCall ops ext prog n (lit "test") args st with
          | err o s1 => rw [hq] at h1; exact h1
          | ok v s1 =>
            rw [hq] at h1
            obtain ⟨S1, g1, hok1, _⟩ := h1
            exact ⟨S1, Gs, g1, hok1, rfl, rfl, fun _ => rfl, trivial⟩
        | callFnV _ name args sig tv hphi hv hargs =>
          simp only
          have h1 := ih.callV name args sig tv st Gs S hphi hv hargs hok
          cases hq : evalCall ops ext prog n name args st with
          | err o s1 => rw [hq] at h1; exact h1
          | ok v s1 =>
            rw [hq] at h1
            obtain ⟨S1, g1, hok1, _⟩ := h1
            exact ⟨S1, Gs, g1, hok1, rfl, rfl, fun _ => rfl, trivial⟩
        | callFn _ name args sig hphi hvn hlen hargs =>
          simp only
          have h1 := ih.call name args sig st Gs S hphi hvn hlen hargs hok
          cases hq : evalCall ops ext prog n name args st with
          | err o s1 => rw [hq] at h1; exact h1
          | ok v s1 =>
            rw [hq] at h1
            obtain ⟨S1, g1, hok1, _⟩ := h1
            exact ⟨S1, Gs, g1, hok1, rfl, rfl, fun _ => rfl, trivial⟩
        | print _ args hargs =>
          simp only
          have h1 := ih.print args st Gs S hargs hok
          cases hq : evalCall ops ext prog n (lit "print") args st with
          | err o s1 => rw [hq] at h1; exact h1
          | ok v s1 =>
            rw [hq] at h1
            obtain ⟨S1, g1, hok1, _⟩ := h1
            exact ⟨S1, Gs, g1, hok1, rfl, rfl, fun _ => rfl, trivial⟩
    · -- a statement list
      intro ρ b st Gs S hty hok
      cases hty with
      | nil => exact ⟨S, Gs, Grows.refl S, hok, rfl, rfl, trivial⟩
      | cons _ Gs' s rest hs hrest =>
        unfold execStmts
        have h1 := ih.execS ρ s st Gs Gs' S hs hok
        cases hq : execS ops ext prog n s st with
        | err o s1 => rw [hq] at h1; exact h1
        | ok c s1 =>
          rw [hq] at h1
          obtain ⟨S1, Gx, g1, hok1, ht, hlen, hn, hc⟩ := h1
          cases c with
          | normal =>
            have := hn rfl; subst this
            have h2 := ih.execB ρ rest s1 Gx S1 hrest hok1
            simp only
            cases hq2 : execStmts ops ext prog n rest s1 with
            | err o s2 => rw [hq2] at h2; exact h2
            | ok c2 s2 =>
              rw [hq2] at h2
              obtain ⟨S2, Gy, g2, hok2, ht2, hlen2, hc2⟩ := h2
              exact ⟨S2, Gy, g1.trans g2, hok2, ht2.trans ht, hlen2.trans hlen, hc2⟩
          | brk => exact ⟨S1, Gx, g1, hok1, ht, hlen, hc⟩
          | ret v => exact ⟨S1, Gx, g1, hok1, ht, hlen, hc⟩
    · -- a block node
      intro ρ b st0 Gs S hty hok0
      unfold execBlockNode
      cases ht : tick st0 with
      | none => exact trivial
      | some st =>
        obtain ⟨th, tl, tg⟩ := tick_same ht
        exact ih.execB ρ b st Gs S hty (hok0.same Gg th tl tg)
    · -- a conditional block
      intro ρ c body st Gs S hc hb hok
      unfold execCond
      simp only
      have hc' : Typed Φ (lookupG ([] :: Gs) Gg) c .bool := by rw [lookupG_push]; exact hc
      have h1 := ih.evalE c (pushScope st) _ S .bool hc' (hok.push Gg)
      cases hq : evalE ops ext prog n c (pushScope st) with
      | err o s1 => rw [hq] at h1; exact h1
      | ok v s1 =>
        rw [hq] at h1
        obtain ⟨S1, g1, hok1, hv1⟩ := h1
        obtain ⟨bv, rfl⟩ := hv1.bool_inv
        cases bv with
        | false =>
          exact ⟨S1, g1, hok1.pop Gg rfl (by simp), trivial⟩
        | true =>
          simp only
          have h2 := ih.execN ρ body s1 ([] :: Gs) S1 hb hok1
          have h3 := pop_block Gg ρ g1 _ h2
          cases hq2 : execBlockNode ops ext prog n body s1 with
          | err o s2 => rw [hq2] at h3; exact h3
          | ok c2 s2 => rw [hq2] at h3; exact h3
    · -- the if chain
      intro ρ conds els st Gs S hc hb he hok
      cases conds with
      | nil =>
        unfold execIfChain
        cases els with
        | none => exact ⟨S, Grows.refl S, hok, trivial⟩
        | some body =>
          simp only
          have h2 := ih.execN ρ body (pushScope st) ([] :: Gs) S (he body rfl) (hok.push Gg)
          have h3 := pop_block Gg ρ (Grows.refl S) _ h2
          cases hq2 : execBlockNode ops ext prog n body (pushScope st) with
          | err o s2 => rw [hq2] at h3; exact h3
          | ok c2 s2 => rw [hq2] at h3; exact h3
      | cons cb rest =>
        obtain ⟨c, body⟩ := cb
        unfold execIfChain
        have h1 := ih.execC ρ c body st Gs S (hc (c, body) List.mem_cons_self) (hb (c, body) List.mem_cons_self) hok
        cases hq : execCond ops ext prog n c body st with
        | err o s1 => rw [hq] at h1; exact h1
        | ok r s1 =>
          rw [hq] at h1
          obtain ⟨comp, taken⟩ := r
          obtain ⟨S1, g1, hok1, hc1⟩ := h1
          cases taken with
          | true => exact ⟨S1, g1, hok1, hc1⟩
          | false =>
            simp only
            have h2 := ih.execI ρ rest els s1 Gs S1 (fun x hx => hc x (List.mem_cons_of_mem _ hx)) (fun x hx => hb x (List.mem_cons_of_mem _ hx)) he hok1
            cases hq2 : execIfChain ops ext prog n rest els s1 with
            | err o s2 => rw [hq2] at h2; exact h2
            | ok c2 s2 =>
              rw [hq2] at h2
              obtain ⟨S2, g2, hok2, hc2⟩ := h2
              exact ⟨S2, g1.trans g2, hok2, hc2⟩
    · -- while
      intro ρ c body st Gs S hc hb hok
      unfold execWhile
      have h1 := ih.execC ρ c body st Gs S hc hb hok
      cases hq : execCond ops ext prog n c body st with
      | err o s1 => rw [hq] at h1; exact h1
      | ok r s1 =>
        rw [hq] at h1
        obtain ⟨comp, taken⟩ := r
        obtain ⟨S1, g1, hok1, hc1⟩ := h1
        cases taken with
        | false => exact ⟨S1, g1, hok1, trivial⟩
        | true =>
          cases comp with
          | brk => exact ⟨S1, g1, hok1, trivial⟩
          | ret v => exact ⟨S1, g1, hok1, hc1⟩
          | normal =>
            simp only
            have h2 := ih.execW ρ c body s1 Gs S1 hc hb hok1
            cases hq2 : execWhile ops ext prog n c body s1 with
            | err o s2 => rw [hq2] at h2; exact h2
            | ok c2 s2 =>
              rw [hq2] at h2
              obtain ⟨S2, g2, hok2, hc2⟩ := h2
              exact ⟨S2, g1.trans g2, hok2, hc2⟩

    · -- the loop of a for statement
      intro ρ lv t r body st Gs S hlv hr hb hok
      unfold execForLoop
      cases hn : rangerNext ops st r with
      | none => exact ⟨S, Grows.refl S, hok, trivial⟩
      | some p =>
        obtain ⟨v, r'⟩ := p
        obtain ⟨hv, hr'⟩ := rangerNext_typed ops hok.heap r r' t v hr hn
        simp only
        -- rebinding the loop variable
        have hupd : ∃ st1, updateVar st (match lv with | some n => n | none => underscore) v = some st1 ∧
            StOk S (loopScope lv t :: Gs) Gg st1 := by
          cases lv with
          | none => exact ⟨st, by simp [updateVar], hok⟩
          | some nm =>
            have hne := hlv nm rfl
            have hu := (hok.locals.update nm v t hv).1 (by simp [loopScope, List.findSome?_cons, senvGet, List.lookup])
            obtain ⟨l', hl', hokl⟩ := hu
            exact ⟨{ st with locals := l' }, by simp only [updateVar, hne, if_false, hl'], ⟨hokl, hok.global, hok.heap⟩⟩
        obtain ⟨st1, hu1, hok1⟩ := hupd
        rw [hu1]
        simp only
        have h2 := ih.execN ρ body (pushScope st1) ([] :: loopScope lv t :: Gs) S hb (hok1.push Gg)
        have h3 := pop_block Gg ρ (Grows.refl S) _ h2
        cases hq2 : execBlockNode ops ext prog n body (pushScope st1) with
        | err o s2 => rw [hq2] at h3; exact h3
        | ok c2 s2 =>
          rw [hq2] at h3
          obtain ⟨S2, g2, hok2, hc2⟩ := h3
          cases c2 with
          | brk => exact ⟨S2, g2, hok2, trivial⟩
          | ret rv => exact ⟨S2, g2, hok2, hc2⟩
          | normal =>
            simp only
            exact (ih.execF ρ lv t r' body (popScope s2) Gs S2 hlv (hr'.mono g2) hb hok2).grow Gg ρ g2


/-! ### the readable faces -/

/-- **type soundness, expressions** (calls of user-defined functions included): a well-typed
expression evaluated for any number of steps in a well-typed state yields a value of its static type
in a well-typed state, or ends in a documented outcome -/
theorem expr_sound (hx : ExtOk ext) (hg : GgOk Gg) (hp : ProgOk Φ Gg prog) (fuel : Nat) (e : Expr F) (st : St F) (Gs : List SEnv) (S : Store) (t : Ty)
    (hty : Typed Φ (lookupG Gs Gg) e t) (hok : StOk S Gs Gg st) :
    match evalE ops ext prog fuel e st with
    | .ok v st' => ∃ S', Grows S S' ∧ StOk S' Gs Gg st' ∧ VT S' v t
    | .err o _ => Doc o := by
  have h := (all_sound ops ext prog Φ Gg hx hg hp fuel).evalE e st Gs S t hty hok
  cases hq : evalE ops ext prog fuel e st with
  | err o s => rw [hq] at h; exact h
  | ok v s => rw [hq] at h; exact h

/-- **type soundness, statements**: a well-typed statement list run for any number of steps in a
well-typed state ends in a well-typed state (outer scopes as typed, a returned value of the result
type) or in a documented outcome -/
theorem stmt_sound (hx : ExtOk ext) (hg : GgOk Gg) (hp : ProgOk Φ Gg prog) (fuel : Nat) (ρ : Option Ty) (b : List (Stmt F)) (st : St F)
    (Gs : List SEnv) (S : Store) (hty : BTyped Φ Gg ρ Gs b) (hok : StOk S Gs Gg st) :
    match execStmts ops ext prog fuel b st with
    | .ok c st' => ∃ S' Gx, Grows S S' ∧ StOk S' Gx Gg st' ∧ Gx.tail = Gs.tail ∧ Gx.length = Gs.length ∧ ComplOk S' ρ c
    | .err o _ => Doc o := by
  have h := (all_sound ops ext prog Φ Gg hx hg hp fuel).execB ρ b st Gs S hty hok
  cases hq : execStmts ops ext prog fuel b st with
  | err o s => rw [hq] at h; exact h
  | ok c s => rw [hq] at h; exact h

/-- **type soundness, calls**: a call of a user-defined function with arguments of the parameter types
returns, if the function has a result type, a value of that type (it cannot fall off the end of the
body), leaves the caller's scopes as they were and the globals and heap well-typed -/
theorem call_sound (hx : ExtOk ext) (hg : GgOk Gg) (hp : ProgOk Φ Gg prog) (fuel : Nat) (name : Str) (args : List (Expr F)) (sig : FSig)
    (st : St F) (Gs : List SEnv) (S : Store) (hphi : Φ name = some sig) (hvn : sig.variadic = none) (hlen : args.length = sig.params.length)
    (hargs : ∀ (i : Nat) a pt, args[i]? = some a → sig.params[i]? = some pt → Typed Φ (lookupG Gs Gg) a pt)
    (hok : StOk S Gs Gg st) :
    match evalCall ops ext prog fuel name args st with
    | .ok v st' => ∃ S', Grows S S' ∧ StOk S' Gs Gg st' ∧ ∀ t, sig.ret = some t → VT S' v t
    | .err o _ => Doc o := by
  have h := (all_sound ops ext prog Φ Gg hx hg hp fuel).call name args sig st Gs S hphi hvn hlen hargs hok
  cases hq : evalCall ops ext prog fuel name args st with
  | err o s => rw [hq] at h; exact h
  | ok v s => rw [hq] at h; exact h

/-- **accepted programs never go wrong** (for the typed fragment of the model): running the top-level
statements of a well-typed program never ends with an internal error (other than the documented failed
test under fail-fast) or a Go panic, for any number
of steps, any oracle and any state that is well-typed for the program's globals -/
theorem program_never_goes_wrong (hx : ExtOk ext) (hg : GgOk Gg) (hp : ProgOk Φ Gg prog) (fuel : Nat) (st st' : St F) (S : Store)
    (hty : BTyped Φ Gg none [] prog.stmts) (hok : StOk S [] Gg st) (w : String) :
    (w ≠ "ErrTest" → execStmts ops ext prog fuel prog.stmts st ≠ .err (.internal w) st') ∧
    execStmts ops ext prog fuel prog.stmts st ≠ .err (.goPanic w) st' := by
  have h := stmt_sound ops ext prog Φ Gg hx hg hp fuel none prog.stmts st [] S hty hok
  constructor
  · intro hw hq; rw [hq] at h; exact hw h
  · intro hq; rw [hq] at h; exact h

theorem expr_never_goes_wrong (hx : ExtOk ext) (hg : GgOk Gg) (hp : ProgOk Φ Gg prog) (fuel : Nat) (e : Expr F) (st st' : St F) (Gs : List SEnv)
    (S : Store) (t : Ty) (hty : Typed Φ (lookupG Gs Gg) e t) (hok : StOk S Gs Gg st) (w : String) :
    (w ≠ "ErrTest" → evalE ops ext prog fuel e st ≠ .err (.internal w) st') ∧ evalE ops ext prog fuel e st ≠ .err (.goPanic w) st' := by
  have h := expr_sound ops ext prog Φ Gg hx hg hp fuel e st Gs S t hty hok
  constructor
  · intro hw hq; rw [hq] at h; exact hw h
  · intro hq; rw [hq] at h; exact h

/-! ### event handlers -/

theorem payload_typed {S : Store} {t : Ty} {v : Val F} (h : payloadOk t v = true) : VT S v t := by
  cases t <;> cases v <;> simp [payloadOk] at h
  · exact .num _
  · exact .str _
  · exact .bool _

theorem bindPayload_ok {S : Store} : ∀ (ps : List (Str × Ty)) (vs : List (Val F)) (st st2 : St F) (g : SEnv) (sc : Scope F),
    st.locals = [sc] → ScOk S g sc → bindPayload ps vs st = some st2 →
    ∃ sc', st2.locals = [sc'] ∧ ScOk S (paramScope (ps.map Prod.fst) (ps.map Prod.snd) g) sc' ∧
      st2.global = st.global ∧ st2.heap = st.heap := by
  intro ps
  induction ps with
  | nil => intro vs st st2 g sc hl hsc h; simp [bindPayload] at h; subst h; exact ⟨sc, hl, by simpa [paramScope] using hsc, rfl, rfl⟩
  | cons p ps ih =>
    obtain ⟨n, t⟩ := p
    intro vs st st2 g sc hl hsc h
    cases vs with
    | nil => simp [bindPayload] at h
    | cons v vs =>
      simp only [bindPayload] at h
      split at h
      · rename_i hp
        have hv : VT S v t := payload_typed hp
        simp only [List.map_cons, paramScope]
        by_cases hu : n = underscore
        · have : setVar st n v = st := by simp [setVar, hu]
          rw [this] at h; simp only [hu, if_true]
          exact ih vs st st2 g sc hl hsc h
        · simp only [hu, if_false]
          have hl2 : (setVar st n v).locals = [scopeSet sc n v] := by simp [setVar, hu, hl]
          obtain ⟨sc', h1, h2, h3, h4⟩ := ih vs (setVar st n v) st2 (senvSet g n t) (scopeSet sc n v) hl2 (hsc.set n v t hv) h
          refine ⟨sc', h1, h2, ?_, ?_⟩
          · rw [h3]; simp [setVar, hu, hl]
          · rw [h4]; simp [setVar, hu, hl]
      · cases h

/-- the program's event handlers are well-typed: the body in the scope of the parameters -/
def HandlersOk (prog : Program F) : Prop :=
  ∀ h ∈ prog.handlers, BTyped Φ Gg none [paramScope (h.params.map Prod.fst) (h.params.map Prod.snd) []] h.body

/-- **type soundness, event handlers**: delivering any event payload to a well-typed handler in a
well-typed state ends in a well-typed state with the caller's scopes restored, or in a documented
outcome (a payload of the wrong type is the documented conversion panic) — never an internal error,
and a Go panic only if the platform breaks its contract (no such handler, payload too short) -/
theorem handler_sound (hx : ExtOk ext) (hg : GgOk Gg) (hp : ProgOk Φ Gg prog) (hh : HandlersOk Φ Gg prog)
    (fuel : Nat) (name : Str) (payload : List (Val F)) (st : St F) (Gs : List SEnv) (S : Store)
    (hok : StOk S Gs Gg st) (h : Handler F) (hfind : prog.handlers.find? (fun h => h.name == name) = some h)
    (hlen : h.params.length ≤ payload.length) :
    match (handleEvent ops ext prog fuel name payload st).1 with
    | .err o => Doc o
    | _ => ∃ S', Grows S S' ∧ StOk S' Gs Gg (handleEvent ops ext prog fuel name payload st).2 := by
  have hmem : h ∈ prog.handlers := List.mem_of_find?_eq_some hfind
  have hbody := hh h hmem
  unfold handleEvent
  simp only [hfind]
  have hnl : ¬ payload.length < h.params.length := by omega
  simp only [hnl, if_false]
  cases hb : bindPayload h.params payload { st with locals := [[]] } with
  | none => exact trivial
  | some st2 =>
    obtain ⟨sc', hl', hsc', hg', hh'⟩ := bindPayload_ok h.params payload { st with locals := [[]] } st2 [] [] rfl .nil hb
    have hok2 : StOk S [paramScope (h.params.map Prod.fst) (h.params.map Prod.snd) []] Gg st2 :=
      ⟨by rw [hl']; exact .cons hsc' .nil, by rw [hg']; exact hok.global, by rw [hh']; exact hok.heap⟩
    have h2 := (all_sound ops ext prog Φ Gg hx hg hp fuel).execN none h.body st2 _ S hbody hok2
    simp only
    cases hq : execBlockNode ops ext prog fuel h.body st2 with
    | err o s4 => rw [hq] at h2; exact h2
    | ok c s4 =>
      rw [hq] at h2
      obtain ⟨S4, Gx, g4, hok4, _, _, _⟩ := h2
      exact ⟨S4, g4, ⟨hok.locals.mono g4, hok4.global, hok4.heap⟩⟩

end EvyV.TS
