import EvyV.Spec.WellTyped
import EvyV.Props.C11
/-!
C02: type soundness of the evaluator model — store typing, canonical forms, and the operators,
indexing and slicing on values of the right types (the lemmas the induction of Props/C02Full.lean
uses for each expression form).
-/
namespace EvyV.TS
open EvyV

variable {F : Type} (ops : NumOps F) (ext : Ext F) (prog : Program F)

/-! ### store typing -/

theorem Grows.refl (S : Store) : Grows S S := ⟨[], by simp⟩
theorem Grows.trans {S S' S'' : Store} (a : Grows S S') (b : Grows S' S'') : Grows S S'' := by
  obtain ⟨x, rfl⟩ := a; obtain ⟨y, rfl⟩ := b; exact ⟨x ++ y, by simp⟩
theorem Grows.snoc (S : Store) (t : Ty) : Grows S (S ++ [t]) := ⟨[t], rfl⟩

theorem Grows.get {S S' : Store} (g : Grows S S') {a : Nat} {t : Ty} (h : S[a]? = some t) : S'[a]? = some t := by
  obtain ⟨x, rfl⟩ := g
  have : a < S.length := by
    rcases Nat.lt_or_ge a S.length with h' | h'
    · exact h'
    · rw [List.getElem?_eq_none h'] at h; cases h
  rw [List.getElem?_append_left this]; exact h

theorem VT.mono {S S' : Store} (g : Grows S S') {v : Val F} {t : Ty} (h : VT S v t) : VT S' v t := by
  induction h with
  | num v => exact .num v
  | str s => exact .str s
  | bool b => exact .bool b
  | any t v hne _ ih => exact .any t v hne ih
  | arr a t h => exact .arr a t (g.get h)
  | map a t h => exact .map a t (g.get h)

theorem EnvOk.mono {S S' : Store} (g : Grows S S') {G : Env} {st : St F} (h : EnvOk S G st) : EnvOk S' G st :=
  fun n t v hg hv => (h n t v hg hv).mono g

theorem EnvOk.same {S : Store} {G : Env} {st st' : St F} (h : EnvOk S G st)
    (hl : st'.locals = st.locals) (hg : st'.global = st.global) : EnvOk S G st' := by
  intro n t v hG hv
  refine h n t v hG ?_
  simpa [getVar, hl, hg] using hv

theorem HeapOk.reg_of {S : Store} {H : Array (Obj F)} (hk : HeapOk S H) {v : Val F} {t : Ty} (h : VT S v t) : Reg t = true := by
  induction h with
  | num _ => rfl
  | str _ => rfl
  | bool _ => rfl
  | any _ _ _ _ _ => rfl
  | arr a t h => have := hk.reg _ (List.mem_of_getElem? h); simpa [Reg] using this
  | map a t h => have := hk.reg _ (List.mem_of_getElem? h); simpa [Reg] using this

/-- allocating an array of well-typed elements -/
theorem HeapOk.push_arr {S : Store} {H : Array (Obj F)} (hk : HeapOk S H) (s : Ty) (hs : Reg s = true)
    (es : List (Val F)) (he : ∀ v ∈ es, VT S v s) :
    HeapOk (S ++ [.arr s]) (H.push (.arr es)) ∧ VT (F := F) (S ++ [.arr s]) (.arr H.size) (.arr s) := by
  have g := Grows.snoc S (.arr s)
  have hnew : (S ++ [Ty.arr s])[H.size]? = some (.arr s) := by
    rw [← hk.size]; simp
  refine ⟨⟨by simp [hk.size], ?_, ?_, ?_⟩, .arr _ _ hnew⟩
  · intro t ht
    rcases List.mem_append.mp ht with h | h
    · exact hk.reg t h
    · simp at h; subst h; simpa [Reg] using hs
  · intro a s' h
    rcases Nat.lt_or_ge a S.length with hlt | hge
    · rw [List.getElem?_append_left hlt] at h
      obtain ⟨es', h1, h2⟩ := hk.arr a s' h
      refine ⟨es', ?_, fun v hv => (h2 v hv).mono g⟩
      rw [Array.getElem?_push]; have : a ≠ H.size := by rw [← hk.size]; omega
      simp [this, h1]
    · have : a = S.length := by
        rcases Nat.lt_or_ge a (S.length + 1) with h' | h'
        · omega
        · rw [List.getElem?_eq_none (by simp; omega)] at h; cases h
      subst this
      simp at h; subst h
      refine ⟨es, ?_, fun v hv => (he v hv).mono g⟩
      rw [hk.size]; simp
  · intro a s' h
    rcases Nat.lt_or_ge a S.length with hlt | hge
    · rw [List.getElem?_append_left hlt] at h
      obtain ⟨m, h1, h2⟩ := hk.map a s' h
      refine ⟨m, ?_, fun p hp => (h2 p hp).mono g⟩
      rw [Array.getElem?_push]; have : a ≠ H.size := by rw [← hk.size]; omega
      simp [this, h1]
    · have : a = S.length := by
        rcases Nat.lt_or_ge a (S.length + 1) with h' | h'
        · omega
        · rw [List.getElem?_eq_none (by simp; omega)] at h; cases h
      subst this
      simp at h

/-- allocating a map of well-typed values -/
theorem HeapOk.push_map {S : Store} {H : Array (Obj F)} (hk : HeapOk S H) (s : Ty) (hs : Reg s = true)
    (m : MapVal (Val F)) (he : ∀ p ∈ m.pairs, VT S p.2 s) :
    HeapOk (S ++ [.map s]) (H.push (.map m)) ∧ VT (F := F) (S ++ [.map s]) (.map H.size) (.map s) := by
  have g := Grows.snoc S (.map s)
  have hnew : (S ++ [Ty.map s])[H.size]? = some (.map s) := by
    rw [← hk.size]; simp
  refine ⟨⟨by simp [hk.size], ?_, ?_, ?_⟩, .map _ _ hnew⟩
  · intro t ht
    rcases List.mem_append.mp ht with h | h
    · exact hk.reg t h
    · simp at h; subst h; simpa [Reg] using hs
  · intro a s' h
    rcases Nat.lt_or_ge a S.length with hlt | hge
    · rw [List.getElem?_append_left hlt] at h
      obtain ⟨es', h1, h2⟩ := hk.arr a s' h
      refine ⟨es', ?_, fun v hv => (h2 v hv).mono g⟩
      rw [Array.getElem?_push]; have : a ≠ H.size := by rw [← hk.size]; omega
      simp [this, h1]
    · have : a = S.length := by
        rcases Nat.lt_or_ge a (S.length + 1) with h' | h'
        · omega
        · rw [List.getElem?_eq_none (by simp; omega)] at h; cases h
      subst this
      simp at h
  · intro a s' h
    rcases Nat.lt_or_ge a S.length with hlt | hge
    · rw [List.getElem?_append_left hlt] at h
      obtain ⟨m', h1, h2⟩ := hk.map a s' h
      refine ⟨m', ?_, fun p hp => (h2 p hp).mono g⟩
      rw [Array.getElem?_push]; have : a ≠ H.size := by rw [← hk.size]; omega
      simp [this, h1]
    · have : a = S.length := by
        rcases Nat.lt_or_ge a (S.length + 1) with h' | h'
        · omega
        · rw [List.getElem?_eq_none (by simp; omega)] at h; cases h
      subst this
      simp at h; subst h
      refine ⟨m, ?_, fun p hp => (he p hp).mono g⟩
      rw [hk.size]; simp

/-! ### canonical forms -/

theorem VT.num_inv {S : Store} {v : Val F} (h : VT S v .num) : ∃ x, v = .num x := by cases h; exact ⟨_, rfl⟩
theorem VT.str_inv {S : Store} {v : Val F} (h : VT S v .str) : ∃ x, v = .str x := by cases h; exact ⟨_, rfl⟩
theorem VT.bool_inv {S : Store} {v : Val F} (h : VT S v .bool) : ∃ x, v = .bool x := by cases h; exact ⟨_, rfl⟩
theorem VT.any_inv {S : Store} {v : Val F} (h : VT S v .any) : ∃ t w, v = .any t w ∧ t ≠ .any ∧ VT S w t := by
  cases h with | any t w hne hw => exact ⟨t, w, rfl, hne, hw⟩
theorem VT.arr_inv {S : Store} {v : Val F} {s : Ty} (h : VT S v (.arr s)) : ∃ a, v = .arr a ∧ S[a]? = some (.arr s) := by
  cases h with | arr a _ h => exact ⟨a, rfl, h⟩
theorem VT.map_inv {S : Store} {v : Val F} {s : Ty} (h : VT S v (.map s)) : ∃ a, v = .map a ∧ S[a]? = some (.map s) := by
  cases h with | map a _ h => exact ⟨a, rfl, h⟩

/-- a value of a non-any type is not an any value -/
theorem VT.not_any {S : Store} {v : Val F} {t : Ty} (h : VT S v t) (hne : t ≠ .any) : ∀ t' w, v ≠ .any t' w := by
  intro t' w e; subst e; cases h; exact hne rfl

/-- `Type.Equals` (equal name chains) is equality on the types of values -/
theorem chain_inj : ∀ (t t' : Ty), Reg t = true → Reg t' = true → t.chain = t'.chain → t = t' := by
  intro t
  induction t with
  | arr s ih =>
    intro t' h h' e
    cases t' with
    | arr s' =>
      simp only [Ty.chain, List.cons.injEq, true_and] at e
      simp only [Reg] at h h'
      rw [ih s' h h' e]
    | _ => simp_all [Ty.chain, Reg]
  | map s ih =>
    intro t' h h' e
    cases t' with
    | map s' =>
      simp only [Ty.chain, List.cons.injEq, true_and] at e
      simp only [Reg] at h h'
      rw [ih s' h h' e]
    | _ => simp_all [Ty.chain, Reg]
  | _ => intro t' h h' e; cases t' <;> simp_all [Ty.chain, Reg]

theorem equals_eq {t t' : Ty} (h : Reg t = true) (h' : Reg t' = true) (e : t.equals t' = true) : t = t' :=
  chain_inj t t' h h' (by simpa [Ty.equals] using e)

/-! ### equality never meets values of different kinds -/

theorem lookup_mem {α : Type} (k : Key) (l : List (Key × α)) (v : α) (h : List.lookup k l = some v) : (k, v) ∈ l := by
  induction l with
  | nil => simp [List.lookup] at h
  | cons p rest ih =>
    obtain ⟨k', v'⟩ := p
    simp only [List.lookup] at h
    split at h
    · rename_i heq
      simp at h; subst h
      have : k = k' := by simpa using heq
      subst this; exact List.mem_cons_self
    · exact List.mem_cons_of_mem _ (ih h)

theorem get_typed {S : Store} {s : Ty} (m : MapVal (Val F)) (hm : ∀ p ∈ m.pairs, VT S p.2 s) (k : Key) (v : Val F)
    (h : m.get k = some v) : VT S v s :=
  hm (k, v) (lookup_mem k m.pairs v (by simpa [MapVal.get, GoMap.get?] using h))

theorem equals_ok {S : Store} {H : Array (Obj F)} (hk : HeapOk S H) (fuel : Nat) :
    (∀ v w t, VT S v t → VT S w t → valEquals ops H fuel v w ≠ .goPanic) ∧
    (∀ xs ys s, (∀ v ∈ xs, VT S v s) → (∀ v ∈ ys, VT S v s) → listEquals ops H fuel xs ys ≠ .goPanic) ∧
    (∀ ps (m2 : MapVal (Val F)) s, (∀ p ∈ ps, VT S p.2 s) → (∀ p ∈ m2.pairs, VT S p.2 s) →
      pairsEquals ops H fuel ps m2 ≠ .goPanic) := by
  induction fuel with
  | zero => refine ⟨?_, ?_, ?_⟩ <;> intros <;> simp [valEquals, listEquals, pairsEquals]
  | succ n ih =>
    obtain ⟨ihV, ihL, ihP⟩ := ih
    refine ⟨?_, ?_, ?_⟩
    · intro v w t hv hw
      cases hv with
      | num a => cases hw; simp only [valEquals]; split <;> simp
      | str a => cases hw; simp only [valEquals]; split <;> simp
      | bool a => cases hw; simp only [valEquals]; split <;> simp
      | any t1 v1 hne1 h1 =>
        cases hw with
        | any t2 v2 hne2 h2 =>
          simp only [valEquals]
          split
          · rename_i he
            have := equals_eq (hk.reg_of h1) (hk.reg_of h2) he
            subst this
            exact ihV _ _ _ h1 h2
          · simp
      | arr a s ha =>
        cases hw with
        | arr b _ hb =>
          obtain ⟨xs, hx, hxs⟩ := hk.arr a s ha
          obtain ⟨ys, hy, hys⟩ := hk.arr b s hb
          simp only [valEquals, hx, hy]
          split
          · simp
          · exact ihL _ _ _ hxs hys
      | map a s ha =>
        cases hw with
        | map b _ hb =>
          obtain ⟨m, hx, hxs⟩ := hk.map a s ha
          obtain ⟨m2, hy, hys⟩ := hk.map b s hb
          simp only [valEquals, hx, hy]
          split
          · simp
          · exact ihP _ _ _ hxs hys
    · intro xs ys s hxs hys
      cases xs with
      | nil => simp [listEquals]
      | cons x xs =>
        cases ys with
        | nil => simp [listEquals]
        | cons y ys =>
          simp only [listEquals]
          have h1 := ihV x y s (hxs x List.mem_cons_self) (hys y List.mem_cons_self)
          split
          · exact ihL _ _ _ (fun v hv => hxs v (List.mem_cons_of_mem _ hv)) (fun v hv => hys v (List.mem_cons_of_mem _ hv))
          · exact h1
    · intro ps m2 s hps hm2
      cases ps with
      | nil => simp [pairsEquals]
      | cons p ps =>
        obtain ⟨k, v⟩ := p
        simp only [pairsEquals]
        split
        · simp
        · rename_i v2 hget
          have h1 := ihV v v2 s (hps (k, v) List.mem_cons_self) (get_typed m2 hm2 k v2 hget)
          split
          · exact ihP _ _ _ (fun p hp => hps p (List.mem_cons_of_mem _ hp)) hm2
          · exact h1

theorem set_typed {S : Store} {s : Ty} (m : GoMap (Val F)) (k : Key) (v : Val F) (hm : ∀ p ∈ m, VT S p.2 s) (hv : VT S v s) :
    ∀ p ∈ GoMap.set m k v, VT S p.2 s := by
  induction m with
  | nil => intro p hp; simp [GoMap.set] at hp; subst hp; exact hv
  | cons q rest ih =>
    obtain ⟨k', v'⟩ := q
    intro p hp
    simp only [GoMap.set] at hp
    split at hp
    · rcases List.mem_cons.mp hp with h | h
      · subst h; exact hv
      · exact hm p (List.mem_cons_of_mem _ h)
    · rcases List.mem_cons.mp hp with h | h
      · subst h; exact hm _ List.mem_cons_self
      · exact ih (fun p hp => hm p (List.mem_cons_of_mem _ hp)) p h

theorem foldl_set_typed {S : Store} {s : Ty} (ps : List (Key × Val F)) (hps : ∀ p ∈ ps, VT S p.2 s) :
    ∀ (acc : GoMap (Val F)), (∀ p ∈ acc, VT S p.2 s) → ∀ p ∈ ps.foldl (fun acc p => GoMap.set acc p.1 p.2) acc, VT S p.2 s := by
  induction ps with
  | nil => intro acc h; simpa using h
  | cons q rest ih =>
    intro acc h
    simp only [List.foldl_cons]
    exact ih (fun p hp => hps p (List.mem_cons_of_mem _ hp)) _ (set_typed acc q.1 q.2 h (hps q List.mem_cons_self))

theorem ofLiteral_typed {S : Store} {s : Ty} (ps : List (Key × Val F)) (hps : ∀ p ∈ ps, VT S p.2 s) :
    ∀ p ∈ (MapVal.ofLiteral ps).pairs, VT S p.2 s :=
  foldl_set_typed ps hps [] (by intro p hp; cases hp)

/-! ### results -/

/-- a result is good: a value satisfying `P` in a well-typed state whose heap only grew and whose
variables are untouched, or a documented outcome -/
def Good {α : Type} (P : Store → α → Prop) (S : Store) (st : St F) : Res F α → Prop
  | .ok a st' => ∃ S', Grows S S' ∧ HeapOk S' st'.heap ∧ P S' a ∧ st'.locals = st.locals ∧ st'.global = st.global
  | .err o _ => Doc o

theorem Good.trans {α : Type} {P : Store → α → Prop} {S S1 : Store} {st st1 : St F} {r : Res F α}
    (h : Good P S1 st1 r) (g : Grows S S1) (hl : st1.locals = st.locals) (hg : st1.global = st.global) : Good P S st r := by
  cases r with
  | err o s => exact h
  | ok a s =>
    obtain ⟨S', g', hk, hp, l, gl⟩ := h
    exact ⟨S', g.trans g', hk, hp, l.trans hl, gl.trans hg⟩

theorem tick_same {st0 st : St F} (h : tick st0 = some st) :
    st.heap = st0.heap ∧ st.locals = st0.locals ∧ st.global = st0.global := by
  unfold tick at h
  split at h
  · cases h
  · simp at h; subst h; exact ⟨rfl, rfl, rfl⟩

abbrev PV (t : Ty) : Store → Val F → Prop := fun S v => VT S v t

/-! ### operators on typed values -/

theorem apply_arith (hx : ExtOk ext) {S : Store} {st : St F} (hk : HeapOk S st.heap) (op : Op) (h : isArith op = true) (l r : F) :
    Good (PV .num) S st (applyBinary ops ext st op (.num l) (.num r)) := by
  cases op <;> simp [isArith] at h <;> simp only [applyBinary, binNum, Bool.or_self, Bool.false_eq_true, if_false, reduceCtorEq, decide_false]
  all_goals first
    | exact ⟨S, Grows.refl S, hk, .num _, rfl, rfl⟩
    | skip
  -- percent: the library call
  unfold callExt
  cases hc : ext.call "math.mod" [XArg.num l, XArg.num r] with
  | none => exact ⟨S, Grows.refl S, hk, .num _, rfl, rfl⟩
  | some res =>
    obtain ⟨v, rfl⟩ := hx.1 "math.mod" (by simp [numFns]) _ _ hc
    exact ⟨S, Grows.refl S, hk, .num _, rfl, rfl⟩

theorem apply_cmpNum {S : Store} {st : St F} (hk : HeapOk S st.heap) (op : Op) (h : isCmp op = true) (l r : F) :
    Good (PV .bool) S st (applyBinary ops ext st op (.num l) (.num r)) := by
  cases op <;> simp [isCmp] at h <;> simp only [applyBinary, binNum, Bool.or_self, Bool.false_eq_true, if_false, reduceCtorEq, decide_false] <;>
    exact ⟨S, Grows.refl S, hk, .bool _, rfl, rfl⟩

theorem apply_cmpStr {S : Store} {st : St F} (hk : HeapOk S st.heap) (op : Op) (h : isCmp op = true) (l r : Str) :
    Good (PV .bool) S st (applyBinary ops ext st op (.str l) (.str r)) := by
  cases op <;> simp [isCmp] at h <;> simp only [applyBinary, binStr, Bool.or_self, Bool.false_eq_true, if_false, reduceCtorEq, decide_false] <;>
    exact ⟨S, Grows.refl S, hk, .bool _, rfl, rfl⟩

theorem apply_concat {S : Store} {st : St F} (hk : HeapOk S st.heap) (l r : Str) :
    Good (PV .str) S st (applyBinary ops ext st .plus (.str l) (.str r)) := by
  simp only [applyBinary, binStr, Bool.or_self, Bool.false_eq_true, if_false, reduceCtorEq, decide_false]
  exact ⟨S, Grows.refl S, hk, .str _, rfl, rfl⟩

theorem apply_logic {S : Store} {st : St F} (hk : HeapOk S st.heap) (op : Op) (h : isLogic op = true) (l r : Bool) :
    Good (PV .bool) S st (applyBinary ops ext st op (.bool l) (.bool r)) := by
  cases op <;> simp [isLogic] at h <;> simp only [applyBinary, binBool, Bool.or_self, Bool.false_eq_true, if_false, reduceCtorEq, decide_false] <;>
    exact ⟨S, Grows.refl S, hk, .bool _, rfl, rfl⟩

theorem apply_eq {S : Store} {st : St F} (hk : HeapOk S st.heap) (op : Op) (h : isEq op = true) (t : Ty) (l r : Val F)
    (hl : VT S l t) (hr : VT S r t) :
    Good (PV .bool) S st (applyBinary ops ext st op l r) := by
  have hop : (op = .eq || op = .neq) = true := by simpa [isEq] using h
  simp only [applyBinary, hop, if_true]
  have := (equals_ok ops hk (auxFuel st)).1 l r t hl hr
  cases hq : valEquals ops st.heap (auxFuel st) l r with
  | yes => exact ⟨S, Grows.refl S, hk, .bool _, rfl, rfl⟩
  | no => exact ⟨S, Grows.refl S, hk, .bool _, rfl, rfl⟩
  | goPanic => exact absurd hq this
  | fuel => trivial

theorem apply_arrCat {S : Store} {st : St F} (hk : HeapOk S st.heap) (s : Ty) (l r : Val F)
    (hl : VT S l (.arr s)) (hr : VT S r (.arr s)) :
    Good (PV (.arr s)) S st (applyBinary ops ext st .plus l r) := by
  obtain ⟨a, rfl, ha⟩ := hl.arr_inv
  obtain ⟨b, rfl, hb⟩ := hr.arr_inv
  obtain ⟨xs, hx, hxs⟩ := hk.arr a s ha
  obtain ⟨ys, hy, hys⟩ := hk.arr b s hb
  have hs : Reg s = true := by have := hk.reg _ (List.mem_of_getElem? ha); simpa [Reg] using this
  simp only [applyBinary, binArr, heapGet, hx, hy, alloc, Bool.or_self, Bool.false_eq_true, if_false, reduceCtorEq, decide_false]
  obtain ⟨hk', vt⟩ := hk.push_arr s hs (xs ++ ys) (by
    intro v hv; rcases List.mem_append.mp hv with h | h
    · exact hxs v h
    · exact hys v h)
  exact ⟨_, Grows.snoc S _, hk', vt, rfl, rfl⟩

/-! ### array repetition: deep copies keep their types -/

theorem alloc_arr_typed {S : Store} {st : St F} (hk : HeapOk S st.heap) (s : Ty) (hs : Reg s = true) (es : List (Val F))
    (he : ∀ v ∈ es, VT S v s) :
    ∃ S', Grows S S' ∧ HeapOk S' (alloc st (.arr es)).2.heap ∧ VT S' (Val.arr (F := F) (alloc st (.arr es)).1) (.arr s) := by
  obtain ⟨hk', vt⟩ := hk.push_arr s hs es he
  exact ⟨_, Grows.snoc S _, hk', vt⟩

theorem deepCopy_typed (fuel : Nat) :
    (∀ (S : Store) (v w : Val F) (t : Ty) (st st' : St F), HeapOk S st.heap → VT S v t → deepCopy fuel v st = some (w, st') →
      ∃ S', Grows S S' ∧ HeapOk S' st'.heap ∧ VT S' w t ∧ st'.locals = st.locals ∧ st'.global = st.global) ∧
    (∀ (S : Store) (vs ws : List (Val F)) (t : Ty) (st st' : St F), HeapOk S st.heap → (∀ v ∈ vs, VT S v t) →
      deepCopyList fuel vs st = some (ws, st') →
      ∃ S', Grows S S' ∧ HeapOk S' st'.heap ∧ (∀ w ∈ ws, VT S' w t) ∧ st'.locals = st.locals ∧ st'.global = st.global) ∧
    (∀ (S : Store) (ps qs : List (Key × Val F)) (t : Ty) (st st' : St F), HeapOk S st.heap → (∀ p ∈ ps, VT S p.2 t) →
      deepCopyPairs fuel ps st = some (qs, st') →
      ∃ S', Grows S S' ∧ HeapOk S' st'.heap ∧ (∀ q ∈ qs, VT S' q.2 t) ∧ st'.locals = st.locals ∧ st'.global = st.global) := by
  induction fuel with
  | zero => refine ⟨?_, ?_, ?_⟩ <;> intros <;> simp_all [deepCopy, deepCopyList, deepCopyPairs]
  | succ n ih =>
    obtain ⟨ihV, ihL, ihP⟩ := ih
    refine ⟨?_, ?_, ?_⟩
    · intro S v w t st st' hk hv h
      cases hv with
      | num x => simp [deepCopy] at h; obtain ⟨rfl, rfl⟩ := h; exact ⟨S, Grows.refl S, hk, .num x, rfl, rfl⟩
      | str x => simp [deepCopy] at h; obtain ⟨rfl, rfl⟩ := h; exact ⟨S, Grows.refl S, hk, .str x, rfl, rfl⟩
      | bool x => simp [deepCopy] at h; obtain ⟨rfl, rfl⟩ := h; exact ⟨S, Grows.refl S, hk, .bool x, rfl, rfl⟩
      | any t1 v1 hne h1 =>
        simp only [deepCopy, Option.map_eq_some_iff] at h
        obtain ⟨⟨w1, s1⟩, hd, heq⟩ := h
        simp at heq; obtain ⟨rfl, rfl⟩ := heq
        obtain ⟨S1, g1, hk1, hw1, l1, gl1⟩ := ihV S v1 w1 t1 st s1 hk h1 hd
        exact ⟨S1, g1, hk1, .any t1 w1 hne hw1, l1, gl1⟩
      | arr a s ha =>
        obtain ⟨es, he, hes⟩ := hk.arr a s ha
        have hs : Reg s = true := by have := hk.reg _ (List.mem_of_getElem? ha); simpa [Reg] using this
        simp only [deepCopy, heapGet, he] at h
        cases hd : deepCopyList n es st with
        | none => rw [hd] at h; simp at h
        | some r =>
          obtain ⟨ws, s1⟩ := r
          rw [hd] at h
          simp only [alloc] at h
          simp at h; obtain ⟨rfl, rfl⟩ := h
          obtain ⟨S1, g1, hk1, hws, l1, gl1⟩ := ihL S es ws s st s1 hk hes hd
          obtain ⟨hk', vt⟩ := hk1.push_arr s hs ws hws
          exact ⟨_, g1.trans (Grows.snoc S1 _), hk', vt, l1, gl1⟩
      | map a s ha =>
        obtain ⟨m, he, hms⟩ := hk.map a s ha
        have hs : Reg s = true := by have := hk.reg _ (List.mem_of_getElem? ha); simpa [Reg] using this
        simp only [deepCopy, heapGet, he] at h
        cases hd : deepCopyPairs n m.pairs st with
        | none => rw [hd] at h; simp at h
        | some r =>
          obtain ⟨qs, s1⟩ := r
          rw [hd] at h
          simp only [alloc] at h
          simp at h; obtain ⟨rfl, rfl⟩ := h
          obtain ⟨S1, g1, hk1, hqs, l1, gl1⟩ := ihP S m.pairs qs s st s1 hk hms hd
          obtain ⟨hk', vt⟩ := hk1.push_map s hs { pairs := qs, order := m.order } hqs
          exact ⟨_, g1.trans (Grows.snoc S1 _), hk', vt, l1, gl1⟩
    · intro S vs ws t st st' hk hvs h
      cases vs with
      | nil => simp [deepCopyList] at h; obtain ⟨rfl, rfl⟩ := h; exact ⟨S, Grows.refl S, hk, (by intro w hw; cases hw), rfl, rfl⟩
      | cons v rest =>
        simp only [deepCopyList] at h
        cases hd : deepCopy n v st with
        | none => rw [hd] at h; simp at h
        | some r =>
          obtain ⟨w, s1⟩ := r
          rw [hd] at h
          simp only [Option.map_eq_some_iff] at h
          obtain ⟨⟨ws', s2⟩, hd2, heq⟩ := h
          simp at heq; obtain ⟨rfl, rfl⟩ := heq
          obtain ⟨S1, g1, hk1, hw1, l1, gl1⟩ := ihV S v w t st s1 hk (hvs v List.mem_cons_self) hd
          obtain ⟨S2, g2, hk2, hws2, l2, gl2⟩ := ihL S1 rest ws' t s1 s2 hk1
            (fun x hx => (hvs x (List.mem_cons_of_mem _ hx)).mono g1) hd2
          refine ⟨S2, g1.trans g2, hk2, ?_, l2.trans l1, gl2.trans gl1⟩
          intro x hx
          rcases List.mem_cons.mp hx with h' | h'
          · subst h'; exact hw1.mono g2
          · exact hws2 x h'
    · intro S ps qs t st st' hk hps h
      cases ps with
      | nil => simp [deepCopyPairs] at h; obtain ⟨rfl, rfl⟩ := h; exact ⟨S, Grows.refl S, hk, (by intro w hw; cases hw), rfl, rfl⟩
      | cons p rest =>
        obtain ⟨k, v⟩ := p
        simp only [deepCopyPairs] at h
        cases hd : deepCopy n v st with
        | none => rw [hd] at h; simp at h
        | some r =>
          obtain ⟨w, s1⟩ := r
          rw [hd] at h
          simp only [Option.map_eq_some_iff] at h
          obtain ⟨⟨qs', s2⟩, hd2, heq⟩ := h
          simp at heq; obtain ⟨rfl, rfl⟩ := heq
          obtain ⟨S1, g1, hk1, hw1, l1, gl1⟩ := ihV S v w t st s1 hk (hps (k, v) List.mem_cons_self) hd
          obtain ⟨S2, g2, hk2, hqs2, l2, gl2⟩ := ihP S1 rest qs' t s1 s2 hk1
            (fun x hx => (hps x (List.mem_cons_of_mem _ hx)).mono g1) hd2
          refine ⟨S2, g1.trans g2, hk2, ?_, l2.trans l1, gl2.trans gl1⟩
          intro x hx
          rcases List.mem_cons.mp hx with h' | h'
          · subst h'; exact hw1.mono g2
          · exact hqs2 x h'

theorem replicate_typed (fuel : Nat) (s : Ty) : ∀ (k : Nat) (S : Store) (a : Nat) (st st' : St F) (es : List (Val F)),
    HeapOk S st.heap → S[a]? = some (.arr s) → replicateCopies k fuel (.arr a) st = some (es, st') →
    ∃ S', Grows S S' ∧ HeapOk S' st'.heap ∧ (∀ v ∈ es, VT S' v s) ∧ st'.locals = st.locals ∧ st'.global = st.global := by
  intro k
  induction k with
  | zero =>
    intro S a st st' es hk _ h
    simp [replicateCopies] at h; obtain ⟨rfl, rfl⟩ := h
    exact ⟨S, Grows.refl S, hk, (by intro v hv; cases hv), rfl, rfl⟩
  | succ k ih =>
    intro S a st st' es hk ha h
    simp only [replicateCopies] at h
    cases hd : deepCopy fuel (.arr a) st with
    | none => rw [hd] at h; simp at h
    | some r =>
      obtain ⟨w, s1⟩ := r
      rw [hd] at h
      obtain ⟨S1, g1, hk1, hw1, l1, gl1⟩ := (deepCopy_typed fuel).1 S (.arr a) w (.arr s) st s1 hk (.arr a s ha) hd
      obtain ⟨b, rfl, hb⟩ := hw1.arr_inv
      obtain ⟨cs, hc, hcs⟩ := hk1.arr b s hb
      simp only [heapGet, hc, Option.map_eq_some_iff] at h
      obtain ⟨⟨rest, s2⟩, hr, heq⟩ := h
      simp at heq; obtain ⟨rfl, rfl⟩ := heq
      obtain ⟨S2, g2, hk2, hrest, l2, gl2⟩ := ih S1 a s1 s2 rest hk1 (g1.get ha) hr
      refine ⟨S2, g1.trans g2, hk2, ?_, l2.trans l1, gl2.trans gl1⟩
      intro v hv
      rcases List.mem_append.mp hv with h' | h'
      · exact (hcs v h').mono g2
      · exact hrest v h'

theorem apply_arrRep {S : Store} {st : St F} (hk : HeapOk S st.heap) (s : Ty) (l : Val F) (n : F)
    (hl : VT S l (.arr s)) :
    Good (PV (.arr s)) S st (applyBinary ops ext st .asterisk l (.num n)) := by
  obtain ⟨a, rfl, ha⟩ := hl.arr_inv
  obtain ⟨ls, hx, _⟩ := hk.arr a s ha
  have hs : Reg s = true := by have := hk.reg _ (List.mem_of_getElem? ha); simpa [Reg] using this
  simp only [applyBinary, binArr, heapGet, hx, Bool.or_self, Bool.false_eq_true, if_false, reduceCtorEq, decide_false]
  split
  · exact trivial
  · split
    · exact trivial
    · split
      · exact trivial
      · cases hr : replicateCopies (if ls.length = 0 then 0 else (ops.toInt n).toNat) (auxFuel st) (.arr a) st with
        | none => exact trivial
        | some r =>
          obtain ⟨es, s1⟩ := r
          obtain ⟨S1, g1, hk1, hes, l1, gl1⟩ := replicate_typed (auxFuel st) s _ S a st s1 es hk ha hr
          simp only [alloc]
          obtain ⟨hk', vt⟩ := hk1.push_arr s hs es hes
          exact ⟨_, g1.trans (Grows.snoc S1 _), hk', vt, l1, gl1⟩

theorem sc_bool {op : Op} {v : Val F} (h : canShortCircuit op v = true) : isLogic op = true ∧ ∃ b, v = .bool b := by
  unfold canShortCircuit at h
  split at h
  · exact ⟨by simp [isLogic], _, rfl⟩
  · exact ⟨by simp [isLogic], _, rfl⟩
  · cases h

/-! ### indexing -/

theorem indexList_mem {α : Type} (xs : List α) (i : F) (v : α) (h : indexList ops xs i = .ok (some v)) : v ∈ xs := by
  unfold indexList at h
  split at h
  · cases h
  · simp at h; exact List.mem_of_getElem? h

theorem sliceList_sub {α : Type} (xs l : List α) (a b : Option F) (h : sliceList ops xs a b = .ok (some l)) : ∀ v ∈ l, v ∈ xs := by
  unfold sliceList at h
  split at h
  · cases h
  · split at h
    · simp at h; subst h
      intro v hv
      exact List.mem_of_mem_drop (List.mem_of_mem_take hv)
    · cases h

theorem index_arr {S : Store} {st : St F} (hk : HeapOk S st.heap) (s : Ty) (l i : Val F)
    (hl : VT S l (.arr s)) (hi : VT S i .num) : Good (PV s) S st (indexVal ops st l i) := by
  obtain ⟨a, rfl, ha⟩ := hl.arr_inv
  obtain ⟨x, rfl⟩ := hi.num_inv
  obtain ⟨es, hx, hes⟩ := hk.arr a s ha
  simp only [indexVal, heapGet, hx]
  cases hq : indexList ops es x with
  | error e => cases e <;> exact trivial
  | ok o =>
    cases o with
    | none => exact absurd hq (C11.indexList_never_gopanic ops es x)
    | some v => exact ⟨S, Grows.refl S, hk, hes v (indexList_mem ops es x v hq), rfl, rfl⟩

theorem index_str {S : Store} {st : St F} (hk : HeapOk S st.heap) (l i : Val F)
    (hl : VT S l .str) (hi : VT S i .num) : Good (PV .str) S st (indexVal ops st l i) := by
  obtain ⟨cs, rfl⟩ := hl.str_inv
  obtain ⟨x, rfl⟩ := hi.num_inv
  simp only [indexVal]
  cases hq : indexList ops cs x with
  | error e => cases e <;> exact trivial
  | ok o =>
    cases o with
    | none => exact absurd hq (C11.indexList_never_gopanic ops cs x)
    | some v => exact ⟨S, Grows.refl S, hk, .str _, rfl, rfl⟩

theorem index_map {S : Store} {st : St F} (hk : HeapOk S st.heap) (s : Ty) (l i : Val F)
    (hl : VT S l (.map s)) (hi : VT S i .str) : Good (PV s) S st (indexVal ops st l i) := by
  obtain ⟨a, rfl, ha⟩ := hl.map_inv
  obtain ⟨k, rfl⟩ := hi.str_inv
  obtain ⟨m, hx, hm⟩ := hk.map a s ha
  simp only [indexVal, heapGet, hx]
  cases hq : m.get k with
  | none => exact trivial
  | some v => exact ⟨S, Grows.refl S, hk, get_typed m hm k v hq, rfl, rfl⟩

theorem numOpt_typed {S : Store} (o : Option (Val F)) (h : ∀ v, o = some v → VT S v .num) : ∃ x, numOpt o = some x := by
  cases o with
  | none => exact ⟨none, rfl⟩
  | some v => obtain ⟨x, rfl⟩ := (h v rfl).num_inv; exact ⟨some x, rfl⟩

theorem slice_arr {S : Store} {st : St F} (hk : HeapOk S st.heap) (s : Ty) (l : Val F) (a b : Option (Val F))
    (hl : VT S l (.arr s)) (ha : ∀ v, a = some v → VT S v .num) (hb : ∀ v, b = some v → VT S v .num) :
    Good (PV (.arr s)) S st (sliceVal ops st l a b) := by
  obtain ⟨ad, rfl, had⟩ := hl.arr_inv
  obtain ⟨x, hx⟩ := numOpt_typed a ha
  obtain ⟨y, hy⟩ := numOpt_typed b hb
  obtain ⟨es, he, hes⟩ := hk.arr ad s had
  have hs : Reg s = true := by have := hk.reg _ (List.mem_of_getElem? had); simpa [Reg] using this
  simp only [sliceVal, hx, hy, heapGet, he]
  cases hq : sliceList ops es x y with
  | error e => cases e <;> exact trivial
  | ok o =>
    cases o with
    | none => exact absurd hq (C11.sliceList_never_gopanic ops es x y)
    | some lst =>
      simp only [alloc]
      obtain ⟨hk', vt⟩ := hk.push_arr s hs lst (fun v hv => hes v (sliceList_sub ops es lst x y hq v hv))
      exact ⟨_, Grows.snoc S _, hk', vt, rfl, rfl⟩

theorem slice_str {S : Store} {st : St F} (hk : HeapOk S st.heap) (l : Val F) (a b : Option (Val F))
    (hl : VT S l .str) (ha : ∀ v, a = some v → VT S v .num) (hb : ∀ v, b = some v → VT S v .num) :
    Good (PV .str) S st (sliceVal ops st l a b) := by
  obtain ⟨cs, rfl⟩ := hl.str_inv
  obtain ⟨x, hx⟩ := numOpt_typed a ha
  obtain ⟨y, hy⟩ := numOpt_typed b hb
  simp only [sliceVal, hx, hy]
  cases hq : sliceList ops cs x y with
  | error e => cases e <;> exact trivial
  | ok o =>
    cases o with
    | none => exact absurd hq (C11.sliceList_never_gopanic ops cs x y)
    | some lst => exact ⟨S, Grows.refl S, hk, .str _, rfl, rfl⟩

end EvyV.TS
