import EvyV.Props.C05Scope
/-
The converse of accepted_program_is_well_scoped: the bookkeeping of Model/Scope.lean rejects nothing that is well
scoped.  Together: `chkProg p = true ↔ scopedL [] [] p ∧ usedL p` (`accepted_iff_well_scoped`) — on the model, the
variable rules are exactly the three of the specification, no more and no less.
-/
namespace EvyV.Scope

/-- the other half of what a run does to the stack: the marks it is sure to set -/
structure Bk (N F : List Nat) (k k' : Stk) : Prop where
  nodup : N.Nodup
  len : k'.length = k.length
  back : ∀ i y, y ∈ namesAt k i → (flagOf k i y = true ∨ (y ∈ F ∧ ∀ j, j < i → y ∉ namesAt k j)) →
    flagOf k' i y = true

theorem Bk.refl (k : Stk) : Bk [] [] k k :=
  ⟨List.nodup_nil, rfl, fun _ _ _ h => h.elim id (fun ⟨a, _⟩ => by cases a)⟩

theorem Bk.anti {N F G k k'} (h : Bk N F k k') (hs : ∀ y ∈ G, y ∈ F) : Bk N G k k' :=
  ⟨h.nodup, h.len, fun i y hy hf => h.back i y hy (hf.imp id (fun ⟨a, b⟩ => ⟨hs y a, b⟩))⟩

theorem Bk.trans {N1 F1 N2 F2 k k1 k2} (e1 : Ext N1 F1 k k1) (e2 : Ext N2 F2 k1 k2)
    (b1 : Bk N1 F1 k k1) (b2 : Bk N2 F2 k1 k2) :
    Bk (N2 ++ N1) (F1 ++ F2.filter (fun y => !N1.contains y)) k k2 := by
  refine ⟨?_, by rw [b2.len, b1.len], ?_⟩
  · refine List.nodup_append.mpr ⟨b2.nodup, b1.nodup, ?_⟩
    intro a ha b hb hab
    apply e2.fresh a ha
    rw [e1.top, hab]; exact List.mem_append_left _ hb
  · intro i y hy h
    have hy1 := e1.namesAt_sub i y hy
    rcases h with h | ⟨hF, hn⟩
    · exact b2.back i y hy1 (Or.inl (b1.back i y hy (Or.inl h)))
    · rcases List.mem_append.mp hF with hF | hF
      · exact b2.back i y hy1 (Or.inl (b1.back i y hy (Or.inr ⟨hF, hn⟩)))
      · simp only [List.mem_filter, Bool.not_eq_true', List.contains_eq_mem, decide_eq_false_iff_not] at hF
        refine b2.back i y hy1 (Or.inr ⟨hF.1, ?_⟩)
        intro j hj hk
        cases j with
        | zero =>
          rw [e1.top] at hk
          rcases List.mem_append.mp hk with hk | hk
          · exact hF.2 hk
          · exact hn 0 hj hk
        | succ j => rw [e1.rest] at hk; exact hn (j + 1) hj hk

theorem flagSc_markSc_back (x y : Nat) (s : Sc) (h : flagSc y s = true ∨ (y = x ∧ x ∈ names s)) :
    flagSc y (markSc x s) = true := by
  induction s with
  | nil =>
    rcases h with h | ⟨_, h⟩
    · simp [flagSc] at h
    · simp [names] at h
  | cons v r ih =>
    simp only [markSc]
    by_cases hv : v.n = x
    · rw [if_pos hv]
      by_cases hy : x = y
      · simp [flagSc, hv, hy]
      · have hvy : ¬ v.n = y := fun e => hy (hv ▸ e)
        simp only [flagSc, hvy, if_false]
        rcases h with h | ⟨h, _⟩
        · simpa [flagSc, hvy] using h
        · exact absurd h.symm hy
    · rw [if_neg hv]
      by_cases hvy : v.n = y
      · simp only [flagSc, hvy, if_true]
        rcases h with h | ⟨h, _⟩
        · simpa [flagSc, hvy] using h
        · exact absurd (hvy.trans h) hv
      · simp only [flagSc, hvy, if_false]
        apply ih
        rcases h with h | ⟨h, hm⟩
        · left; simpa [flagSc, hvy] using h
        · right
          refine ⟨h, ?_⟩
          simp only [names, List.map_cons, List.mem_cons] at hm
          rcases hm with hm | hm
          · exact absurd hm.symm hv
          · exact hm

theorem mark_bk (x : Nat) : ∀ (k k' : Stk), mark x k = some k' → Bk [] [x] k k' := by
  intro k
  induction k with
  | nil => intro k' h; simp [mark] at h
  | cons s r ih =>
    intro k' h
    simp only [mark] at h
    by_cases hs : hasName x s = true
    · rw [if_pos hs] at h
      cases h
      have hx := (hasName_iff x s).mp hs
      refine ⟨List.nodup_nil, rfl, ?_⟩
      intro i y hy hf
      cases i with
      | zero =>
        simp only [flagOf] at hf ⊢
        apply flagSc_markSc_back
        rcases hf with hf | ⟨hF, _⟩
        · exact Or.inl hf
        · simp only [List.mem_singleton] at hF; exact Or.inr ⟨hF, hx⟩
      | succ i =>
        rcases hf with hf | ⟨hF, hn⟩
        · exact hf
        · simp only [List.mem_singleton] at hF
          exact absurd (hF ▸ hx) (hn 0 (Nat.succ_pos i))
    · rw [if_neg hs] at h
      have hx : x ∉ names s := fun hm => hs ((hasName_iff x s).mpr hm)
      cases hm : mark x r with
      | none => rw [hm] at h; cases h
      | some r' =>
        rw [hm] at h; cases h
        have b := ih r' hm
        refine ⟨List.nodup_nil, by simp [b.len], ?_⟩
        intro i y hy hf
        cases i with
        | zero =>
          rcases hf with hf | ⟨hF, _⟩
          · exact hf
          · simp only [List.mem_singleton] at hF
            exact absurd (hF ▸ hy) hx
        | succ i =>
          simp only [flagOf, namesAt] at hy hf ⊢
          apply b.back i y hy
          rcases hf with hf | ⟨hF, hn⟩
          · exact Or.inl hf
          · exact Or.inr ⟨hF, fun j hj => by simpa [namesAt] using hn (j + 1) (Nat.succ_lt_succ hj)⟩

theorem marks_bk : ∀ (us : List Nat) (k k' : Stk), marks us k = some k' → Bk [] us k k' := by
  intro us
  induction us with
  | nil =>
    intro k k' h
    simp only [marks] at h; cases h
    exact Bk.refl k
  | cons x xs ih =>
    intro k k' h
    simp only [marks] at h
    cases hm : mark x k with
    | none => rw [hm] at h; cases h
    | some k1 =>
      rw [hm] at h
      have b := Bk.trans (mark_ext x k k1 hm).1 (marks_ext xs k1 k' h).1 (mark_bk x k k1 hm) (ih k1 k' h)
      refine b.anti ?_
      intro y hy
      rcases List.mem_cons.mp hy with hy | hy
      · rw [hy]; exact List.mem_append_left _ (List.mem_singleton.mpr rfl)
      · exact List.mem_append_right _ (by simpa using hy)

theorem declare_bk (x : Nat) (k k' : Stk) (h : declare x k = some k') : Bk [x] [] k k' := by
  cases k with
  | nil => simp [declare] at h
  | cons s r =>
    simp only [declare] at h
    by_cases hs : hasName x s = true
    · rw [if_pos hs] at h; cases h
    · rw [if_neg hs] at h; cases h
      have hx : x ∉ names s := fun hm => hs ((hasName_iff x s).mpr hm)
      refine ⟨by simp, rfl, ?_⟩
      intro i y hy hf
      rcases hf with hf | ⟨hF, _⟩
      · cases i with
        | zero =>
          simp only [flagOf, flagSc, namesAt] at hf hy ⊢
          have : x ≠ y := fun e => hx (e ▸ hy)
          rw [if_neg this]; exact hf
        | succ i => exact hf
      · cases hF

theorem declares_bk : ∀ (ds : List Nat) (k k' : Stk), declares ds k = some k' → Bk ds.reverse [] k k' := by
  intro ds
  induction ds with
  | nil =>
    intro k k' h
    simp only [declares] at h; cases h
    exact Bk.refl k
  | cons x xs ih =>
    intro k k' h
    simp only [declares] at h
    cases hd : declare x k with
    | none => rw [hd] at h; cases h
    | some k1 =>
      rw [hd] at h
      have b := Bk.trans (declare_ext x k k1 hd).1 (declares_ext xs k1 k' h).1 (declare_bk x k k1 hd) (ih k1 k' h)
      have b' := b.anti (G := []) (fun _ h => by cases h)
      simpa using b'

theorem Bk.pop {N F : List Nat} {k k' : Stk} {s3 : Sc} (b : Bk N F ([] :: k) (s3 :: k')) : Bk [] F k k' := by
  refine ⟨List.nodup_nil, by simpa using b.len, ?_⟩
  intro i y hy hf
  have := b.back (i + 1) y (by simpa [namesAt] using hy)
    (hf.imp (by simp [flagOf]) (fun ⟨a, c⟩ => ⟨a, fun j hj => by
      cases j with
      | zero => simp [namesAt, names]
      | succ j => simpa [namesAt] using c j (Nat.lt_of_succ_lt_succ hj)⟩))
  simpa [flagOf] using this

mutual
theorem chkS_bk : ∀ (s : St) (k k' : Stk), chkS s k = some k' → Bk (declOf s) (fvS s) k k'
  | .use us, k, k', h => by
    simp only [chkS] at h
    exact marks_bk us k k' h
  | .decl x us, k, k', h => by
    simp only [chkS] at h
    cases hm : marks us k with
    | none => rw [hm] at h; cases h
    | some k1 =>
      rw [hm] at h
      have b := Bk.trans (marks_ext us k k1 hm).1 (declare_ext x k1 k' h).1 (marks_bk us k k1 hm) (declare_bk x k1 k' h)
      have b' := b.anti (G := us) (by intro y hy; simpa using hy)
      simpa [declOf, fvS] using b'
  | .scope ds hd body, k, k', h => by
    simp only [chkS] at h
    by_cases hdj : disjoint hd ds = true
    · rw [if_pos hdj] at h
      cases h1 : declares ds ([] :: k) with
      | none => rw [h1] at h; cases h
      | some k1 =>
        rw [h1] at h
        cases h2 : marks hd k1 with
        | none => simp only [Option.bind] at h; rw [h2] at h; cases h
        | some k2 =>
          simp only [Option.bind] at h; rw [h2] at h
          cases h3 : chkL body k2 with
          | none => simp only [] at h; rw [h3] at h; cases h
          | some k3 =>
            simp only [] at h; rw [h3] at h
            obtain ⟨s3, hk3, _⟩ := pop_some k3 k' h
            have e1 := (declares_ext ds ([] :: k) k1 h1).1
            have e2 := (marks_ext hd k1 k2 h2).1
            have e3 := chkL_ext body k2 k3 h3
            have b12 := Bk.trans e1 e2 (declares_bk ds ([] :: k) k1 h1) (marks_bk hd k1 k2 h2)
            have b := Bk.trans (e1.trans e2) e3 b12 (chkL_bk body k2 k3 h3)
            rw [hk3] at b
            refine (Bk.pop b).anti ?_
            have hdis := (disjoint_iff hd ds).mp hdj
            intro y hy
            simp only [fvS, List.nil_append, List.mem_append, List.mem_filter, List.contains_eq_mem,
              List.mem_reverse, Bool.not_eq_true', decide_eq_false_iff_not] at hy ⊢
            rcases hy with hy | hy
            · exact Or.inl ⟨hy, hdis y hy⟩
            · exact Or.inr hy
    · rw [if_neg hdj] at h; cases h
theorem chkL_bk : ∀ (ss : Ss) (k k' : Stk), chkL ss k = some k' → Bk (declsL ss) (fvL ss) k k'
  | .nil, k, k', h => by
    simp only [chkL] at h; cases h
    exact Bk.refl k
  | .cons s rest, k, k', h => by
    simp only [chkL] at h
    cases h1 : chkS s k with
    | none => rw [h1] at h; cases h
    | some k1 =>
      rw [h1] at h
      have b := Bk.trans (chkS_ext s k k1 h1) (chkL_ext rest k1 k' h) (chkS_bk s k k1 h1) (chkL_bk rest k1 k' h)
      simpa [declsL, fvL] using b
end

/-! ### success -/

theorem mark_succeeds (x : Nat) : ∀ (k : Stk), (∃ i, x ∈ namesAt k i) → ∃ k', mark x k = some k' := by
  intro k
  induction k with
  | nil => rintro ⟨i, hi⟩; simp [namesAt] at hi
  | cons s r ih =>
    rintro ⟨i, hi⟩
    simp only [mark]
    by_cases hs : hasName x s = true
    · rw [if_pos hs]; exact ⟨_, rfl⟩
    · rw [if_neg hs]
      cases i with
      | zero => exact absurd ((hasName_iff x s).mpr hi) hs
      | succ i =>
        obtain ⟨r', hr⟩ := ih ⟨i, hi⟩
        exact ⟨s :: r', by rw [hr]; rfl⟩

theorem marks_succeeds : ∀ (us : List Nat) (k : Stk), (∀ u ∈ us, ∃ i, u ∈ namesAt k i) → ∃ k', marks us k = some k' := by
  intro us
  induction us with
  | nil => intro k _; exact ⟨k, rfl⟩
  | cons x xs ih =>
    intro k h
    obtain ⟨k1, h1⟩ := mark_succeeds x k (h x List.mem_cons_self)
    have e := (mark_ext x k k1 h1).1
    obtain ⟨k2, h2⟩ := ih k1 (fun u hu => by
      obtain ⟨i, hi⟩ := h u (List.mem_cons_of_mem _ hu)
      exact ⟨i, e.namesAt_sub i u hi⟩)
    exact ⟨k2, by simp only [marks, h1]; exact h2⟩

theorem declare_succeeds (x : Nat) (k : Stk) (hk : k ≠ []) (hx : x ∉ namesAt k 0) : ∃ k', declare x k = some k' := by
  cases k with
  | nil => exact absurd rfl hk
  | cons s r =>
    simp only [declare]
    have : ¬ hasName x s = true := fun h => hx ((hasName_iff x s).mp h)
    rw [if_neg this]; exact ⟨_, rfl⟩

theorem declares_succeeds : ∀ (ds : List Nat) (k : Stk), k ≠ [] → ds.Nodup → (∀ x ∈ ds, x ∉ namesAt k 0) →
    ∃ k', declares ds k = some k' := by
  intro ds
  induction ds with
  | nil => intro k _ _ _; exact ⟨k, rfl⟩
  | cons x xs ih =>
    intro k hk hnd hfr
    obtain ⟨k1, h1⟩ := declare_succeeds x k hk (hfr x List.mem_cons_self)
    have e := (declare_ext x k k1 h1).1
    have hk1 : k1 ≠ [] := by
      have := (declare_bk x k k1 h1).len
      intro e0; rw [e0] at this
      cases k with
      | nil => exact hk rfl
      | cons _ _ => simp at this
    have hnd' := List.nodup_cons.mp hnd
    obtain ⟨k2, h2⟩ := ih k1 hk1 hnd'.2 (fun y hy => by
      rw [e.top]
      simp only [List.mem_append, List.mem_singleton, not_or]
      exact ⟨fun e0 => hnd'.1 (e0 ▸ hy), hfr y (List.mem_cons_of_mem _ hy)⟩)
    exact ⟨k2, by simp only [declares, h1]; exact h2⟩

theorem all_of_flags (s : Sc) (hnd : (names s).Nodup) (h : ∀ x ∈ names s, flagSc x s = true) :
    s.all (fun v => v.u) = true := by
  induction s with
  | nil => rfl
  | cons v r ih =>
    simp only [names, List.map_cons, List.nodup_cons] at hnd
    simp only [List.all_cons, Bool.and_eq_true]
    refine ⟨?_, ih hnd.2 ?_⟩
    · have := h v.n (by simp [names])
      simpa [flagSc] using this
    · intro x hx
      have := h x (by simp only [names, List.map_cons, List.mem_cons]; exact Or.inr hx)
      have hne : ¬ v.n = x := fun e => hnd.1 (e ▸ hx)
      simpa [flagSc, hne] using this

theorem pop_succeeds (s : Sc) (r : Stk) (hnd : (names s).Nodup) (h : ∀ x ∈ names s, flagSc x s = true) :
    pop (s :: r) = some r := by
  simp only [pop]; rw [if_pos (all_of_flags s hnd h)]

/-- the variables a block declares and uses have their marks at its end -/
theorem flags_of_used : ∀ (ss : Ss) (k k' : Stk), chkL ss k = some k' → usedL ss →
    ∀ x ∈ declsL ss, flagOf k' 0 x = true
  | .nil, _, _, _, _ => fun _ h => by cases h
  | .cons s rest, k, k', h, hu => by
    simp only [chkL] at h
    cases h1 : chkS s k with
    | none => rw [h1] at h; cases h
    | some k1 =>
      rw [h1] at h
      intro x hx
      simp only [declsL, List.mem_append] at hx
      rcases hx with hx | hx
      · exact flags_of_used rest k1 k' h hu.2 x hx
      · have e1 := chkS_ext s k k1 h1
        have hx1 : x ∈ namesAt k1 0 := by rw [e1.top]; exact List.mem_append_left _ hx
        exact (chkL_bk rest k1 k' h).back 0 x hx1 (Or.inr ⟨hu.1 x hx, fun j hj => absurd hj (Nat.not_lt_zero j)⟩)

theorem ne_nil_of_len {k k' : Stk} (h : k'.length = k.length) (hk : k ≠ []) : k' ≠ [] := by
  intro e; rw [e] at h
  cases k with
  | nil => exact hk rfl
  | cons _ _ => simp at h

mutual
theorem chkS_complete : ∀ (s : St) (k : Stk) (vis D : List Nat), k ≠ [] →
    (∀ y, y ∈ D ↔ y ∈ namesAt k 0) → (∀ y, y ∈ vis ↔ ∃ i, y ∈ namesAt k (i + 1)) → scopedS vis D s →
    ∃ k', chkS s k = some k'
  | .use us, k, vis, D, _, hD, hv, hs => by
    simp only [scopedS] at hs
    simp only [chkS]
    refine marks_succeeds us k (fun u hu => ?_)
    rcases hs u hu with h | h
    · exact ⟨0, (hD u).mp h⟩
    · obtain ⟨i, hi⟩ := (hv u).mp h; exact ⟨i + 1, hi⟩
  | .decl x us, k, vis, D, hk, hD, hv, hs => by
    simp only [scopedS] at hs
    simp only [chkS]
    obtain ⟨k1, h1⟩ := marks_succeeds us k (fun u hu => by
      rcases hs.1 u hu with h | h
      · exact ⟨0, (hD u).mp h⟩
      · obtain ⟨i, hi⟩ := (hv u).mp h; exact ⟨i + 1, hi⟩)
    have e1 := (marks_ext us k k1 h1).1
    obtain ⟨k2, h2⟩ := declare_succeeds x k1 (ne_nil_of_len (marks_bk us k k1 h1).len hk) (by
      rw [e1.top]; simpa using fun h => hs.2 ((hD x).mpr h))
    exact ⟨k2, by rw [h1]; exact h2⟩
  | .scope ds hd body, k, vis, D, hk, hD, hv, hs => by
    simp only [scopedS] at hs
    obtain ⟨hnd, hhd, hbody, hused, hds⟩ := hs
    simp only [chkS]
    have hdj : disjoint hd ds = true := (disjoint_iff hd ds).mpr (fun u hu => (hhd u hu).1)
    rw [if_pos hdj]
    obtain ⟨k1, h1⟩ := declares_succeeds ds ([] :: k) (by simp) hnd (by intro x _; simp [namesAt, names])
    obtain ⟨e1, _, hfl⟩ := declares_ext ds ([] :: k) k1 h1
    have b1 := declares_bk ds ([] :: k) k1 h1
    have top1 : ∀ y, y ∈ namesAt k1 0 ↔ y ∈ ds := by
      intro y; rw [e1.top]; simp [namesAt, names]
    obtain ⟨k2, h2⟩ := marks_succeeds hd k1 (fun u hu => by
      rcases (hhd u hu).2 with h | h
      · exact ⟨1, by rw [e1.rest]; exact (hD u).mp h⟩
      · obtain ⟨i, hi⟩ := (hv u).mp h
        exact ⟨i + 2, by rw [e1.rest]; exact hi⟩)
    have e2 := (marks_ext hd k1 k2 h2).1
    have b2 := marks_bk hd k1 k2 h2
    have top2 : ∀ y, y ∈ namesAt k2 0 ↔ y ∈ ds := by
      intro y; rw [e2.top]; simpa using top1 y
    have rest2 : ∀ i, namesAt k2 (i + 1) = namesAt k i := by
      intro i; rw [e2.rest, e1.rest]; rfl
    have hk2 : k2 ≠ [] := ne_nil_of_len (by rw [b2.len, b1.len]) (by simp : ([] :: k) ≠ [])
    obtain ⟨k3, h3⟩ := chkL_complete body k2 (D ++ vis) ds hk2 (fun y => (top2 y).symm) (by
      intro y
      constructor
      · intro hy
        rcases List.mem_append.mp hy with hy | hy
        · exact ⟨0, by rw [rest2]; exact (hD y).mp hy⟩
        · obtain ⟨i, hi⟩ := (hv y).mp hy
          exact ⟨i + 1, by rw [rest2]; exact hi⟩
      · rintro ⟨i, hi⟩
        rw [rest2] at hi
        exact List.mem_append.mpr (visible_of hD hv ⟨i, hi⟩)) hbody
    have e3 := chkL_ext body k2 k3 h3
    have b3 := chkL_bk body k2 k3 h3
    -- the scope that is left: its names are the body's declarations and ds, all marked
    have e := (e1.trans e2).trans e3
    have b := Bk.trans (e1.trans e2) e3 (Bk.trans e1 e2 b1 b2) b3
    cases hk3 : k3 with
    | nil => exact absurd hk3 (ne_nil_of_len b3.len hk2)
    | cons s3 r3 =>
      rw [hk3] at e b
      have hnames : names s3 = declsL body ++ ([] ++ ds.reverse) := by
        have := e.top; simpa [namesAt, names] using this
      have hpop : pop (s3 :: r3) = some r3 := by
        apply pop_succeeds
        · rw [hnames]; exact b.nodup
        · intro x hx
          rw [hnames] at hx
          have hf0 : flagOf k3 0 x = true := by
            rcases List.mem_append.mp hx with hx | hx
            · exact flags_of_used body k2 k3 h3 hused x hx
            · have hxd : x ∈ ds := by simpa using hx
              exact b3.back 0 x ((top2 x).mpr hxd) (Or.inr ⟨hds x hxd, fun j hj => absurd hj (Nat.not_lt_zero j)⟩)
          rw [hk3] at hf0; exact hf0
      exact ⟨r3, by rw [h1]; simp only [Option.bind]; rw [h2]; simp only []; rw [h3, hk3]; exact hpop⟩
theorem chkL_complete : ∀ (ss : Ss) (k : Stk) (vis D : List Nat), k ≠ [] →
    (∀ y, y ∈ D ↔ y ∈ namesAt k 0) → (∀ y, y ∈ vis ↔ ∃ i, y ∈ namesAt k (i + 1)) → scopedL vis D ss →
    ∃ k', chkL ss k = some k'
  | .nil, k, _, _, _, _, _, _ => ⟨k, rfl⟩
  | .cons s rest, k, vis, D, hk, hD, hv, hs => by
    simp only [scopedL] at hs
    obtain ⟨k1, h1⟩ := chkS_complete s k vis D hk hD hv hs.1
    have e1 := chkS_ext s k k1 h1
    obtain ⟨k2, h2⟩ := chkL_complete rest k1 vis (declOf s ++ D) (ne_nil_of_len (chkS_bk s k k1 h1).len hk)
      (by intro y; rw [e1.top]; simp only [List.mem_append]; rw [hD y])
      (by
        intro y; rw [hv y]
        constructor
        · rintro ⟨i, hi⟩; exact ⟨i, by rw [e1.rest]; exact hi⟩
        · rintro ⟨i, hi⟩; exact ⟨i, by rw [← e1.rest]; exact hi⟩) hs.2
    exact ⟨k2, by simp only [chkL, h1]; exact h2⟩
end

/-- a well scoped program is accepted -/
theorem well_scoped_program_is_accepted (p : Ss) (hs : scopedL [] [] p) (hu : usedL p) : chkProg p = true := by
  obtain ⟨k1, h1⟩ := chkL_complete p [[]] [] [] (by simp) (by intro y; simp [namesAt, names])
    (by intro y; constructor
        · intro h; cases h
        · rintro ⟨i, hi⟩; simp [namesAt] at hi) hs
  have e := chkL_ext p [[]] k1 h1
  have b := chkL_bk p [[]] k1 h1
  unfold chkProg
  rw [h1]
  cases hk1 : k1 with
  | nil => exact absurd hk1 (ne_nil_of_len b.len (by simp))
  | cons s1 r1 =>
    have hnames : names s1 = declsL p := by
      have := e.top; rw [hk1] at this; simpa [namesAt, names] using this
    have : pop (s1 :: r1) = some r1 := by
      apply pop_succeeds
      · rw [hnames]; exact b.nodup
      · intro x hx
        rw [hnames] at hx
        have := flags_of_used p [[]] k1 h1 hu x hx
        rw [hk1] at this; exact this
    simp [this]

/-! ### the two readings of "declared" agree: a well scoped block has no free name beyond what is visible -/

mutual
theorem fvS_visible : ∀ (s : St) (vis D : List Nat), scopedS vis D s → ∀ y ∈ fvS s, y ∈ D ∨ y ∈ vis
  | .use us, vis, D, h, y, hy => by
    simp only [scopedS] at h; simp only [fvS] at hy; exact h y hy
  | .decl x us, vis, D, h, y, hy => by
    simp only [scopedS] at h; simp only [fvS] at hy; exact h.1 y hy
  | .scope ds hd body, vis, D, h, y, hy => by
    simp only [scopedS] at h
    simp only [fvS, List.mem_append, List.mem_filter, List.contains_eq_mem, Bool.not_eq_true', decide_eq_false_iff_not] at hy
    rcases hy with hy | ⟨hy, hnd⟩
    · exact (h.2.1 y hy).2
    · rcases fvL_visible body (D ++ vis) ds h.2.2.1 y hy with h1 | h1
      · exact absurd h1 hnd
      · exact List.mem_append.mp h1
theorem fvL_visible : ∀ (ss : Ss) (vis D : List Nat), scopedL vis D ss → ∀ y ∈ fvL ss, y ∈ D ∨ y ∈ vis
  | .nil, _, _, _, y, hy => by simp [fvL] at hy
  | .cons s rest, vis, D, h, y, hy => by
    simp only [scopedL] at h
    simp only [fvL, List.mem_append, List.mem_filter, List.contains_eq_mem, Bool.not_eq_true', decide_eq_false_iff_not] at hy
    rcases hy with hy | ⟨hy, hnd⟩
    · exact fvS_visible s vis D h.1 y hy
    · rcases fvL_visible rest vis (declOf s ++ D) h.2 y hy with h1 | h1
      · rcases List.mem_append.mp h1 with h2 | h2
        · exact absurd h2 hnd
        · exact Or.inl h2
      · exact Or.inr h1
end

/-- an accepted program is closed: every name it mentions is bound by a declaration of the program -/
theorem accepted_program_is_closed (p : Ss) (h : chkProg p = true) : fvL p = [] := by
  have hs := (accepted_program_is_well_scoped p h).1
  apply List.eq_nil_iff_forall_not_mem.mpr
  intro y hy
  rcases fvL_visible p [] [] hs y hy with h1 | h1 <;> cases h1

/-- **the variable rules, exactly**: the bookkeeping accepts a program iff every name it mentions is declared, no
scope declares a name twice, and every declared variable is used -/
theorem accepted_iff_well_scoped (p : Ss) : chkProg p = true ↔ scopedL [] [] p ∧ usedL p :=
  ⟨accepted_program_is_well_scoped p, fun h => well_scoped_program_is_accepted p h.1 h.2⟩

end EvyV.Scope
